// subproc2coq extracts the FACTS behind property C18 from utils/subprocess/{logging,command_wrapper,executor,messaging}.go,
// utils/proc/errors.go and utils/platform/os.go (go/ast only, no type checking) and writes them as the record
// GU.C18.Gen.gen_facts (coq/C18/Gen.v, type GU.C18.Facts.facts) which the model of coq/C18/Model.v interprets and the
// theorems of coq/C18/Props.v are instantiated with.
//
// Every function is matched statement by statement against the small set of shapes listed below; statements are
// compared through their printed source (comments do not count; the receiver name is free). A statement of an unknown
// shape is an error (exit 1): the tie must break rather than guess.
package main

import (
	"bytes"
	"encoding/json"
	"fmt"
	"go/ast"
	"go/parser"
	"go/printer"
	"go/token"
	"os"
	"path/filepath"
	"sort"
	"strconv"
	"strings"
)

var fset = token.NewFileSet()

func die(pos token.Pos, format string, a ...any) {
	where := ""
	if pos.IsValid() {
		p := fset.Position(pos)
		where = fmt.Sprintf("%s:%d: ", filepath.Base(p.Filename), p.Line)
	}
	fmt.Fprintf(os.Stderr, "subproc2coq: %sunsupported shape: %s\n", where, fmt.Sprintf(format, a...))
	os.Exit(1)
}

// src prints a node on one line (comments are not printed for nodes below the file level).
func src(n ast.Node) string {
	var b bytes.Buffer
	if err := printer.Fprint(&b, fset, n); err != nil {
		die(n.Pos(), "cannot print node: %v", err)
	}
	return strings.Join(strings.Fields(b.String()), " ")
}

type pkg struct {
	files   []*ast.File
	funcs   map[string]*ast.FuncDecl // "Recv.Name" or "Name"
	consts  map[string]string        // string constants
	globals map[string]ast.Expr      // package-level var initialisers
}

func load(p *pkg, path string) {
	f, err := parser.ParseFile(fset, path, nil, parser.SkipObjectResolution)
	if err != nil {
		fmt.Fprintln(os.Stderr, "subproc2coq:", err)
		os.Exit(1)
	}
	p.files = append(p.files, f)
	for _, d := range f.Decls {
		switch x := d.(type) {
		case *ast.FuncDecl:
			name := x.Name.Name
			if x.Recv != nil && len(x.Recv.List) == 1 {
				t := x.Recv.List[0].Type
				if s, ok := t.(*ast.StarExpr); ok {
					t = s.X
				}
				if id, ok := t.(*ast.Ident); ok {
					name = id.Name + "." + name
				}
			}
			if _, dup := p.funcs[name]; dup {
				die(x.Pos(), "function %s declared twice", name)
			}
			p.funcs[name] = x
		case *ast.GenDecl:
			for _, s := range x.Specs {
				vs, ok := s.(*ast.ValueSpec)
				if !ok {
					continue
				}
				for i, n := range vs.Names {
					if i >= len(vs.Values) {
						continue
					}
					if x.Tok == token.CONST {
						if bl, ok := vs.Values[i].(*ast.BasicLit); ok && bl.Kind == token.STRING {
							v, err := strconv.Unquote(bl.Value)
							if err == nil {
								p.consts[n.Name] = v
							}
						}
					} else if x.Tok == token.VAR {
						p.globals[n.Name] = vs.Values[i]
					}
				}
			}
		}
	}
}

func newPkg(paths ...string) *pkg {
	p := &pkg{funcs: map[string]*ast.FuncDecl{}, consts: map[string]string{}, globals: map[string]ast.Expr{}}
	for _, q := range paths {
		load(p, q)
	}
	return p
}

func (p *pkg) fn(name string) *ast.FuncDecl {
	f := p.funcs[name]
	if f == nil || f.Body == nil {
		fmt.Fprintf(os.Stderr, "subproc2coq: function %s not found\n", name)
		os.Exit(1)
	}
	return f
}

func recv(f *ast.FuncDecl) string {
	if f.Recv == nil || len(f.Recv.List) != 1 || len(f.Recv.List[0].Names) != 1 {
		die(f.Pos(), "%s: receiver without a name", f.Name.Name)
	}
	return f.Recv.List[0].Names[0].Name
}

// hasReturn: a return statement somewhere in the statement (function literals excluded).
func hasReturn(n ast.Node) bool {
	found := false
	ast.Inspect(n, func(x ast.Node) bool {
		switch x.(type) {
		case *ast.FuncLit:
			return false
		case *ast.ReturnStmt:
			found = true
		}
		return !found
	})
	return found
}

func mentions(n ast.Node, text string) bool { return strings.Contains(src(n), text) }

// ---------------------------------------------------------------------------------------------------------------------

type rule struct{ Cond, Act string }

type facts struct {
	Sep               int      `json:"sep"`
	LoopOps           []string `json:"loop_ops"`
	TailOps           []string `json:"tail_ops"`
	FlushOps          []string `json:"flush_ops"`
	LpResets          bool     `json:"lp_resets"`
	LpDropsEmpty      bool     `json:"lp_drops_empty"`
	LpByStream        bool     `json:"lp_by_stream"`
	StdoutFlag        bool     `json:"stdout_flag"`
	StderrFlag        bool     `json:"stderr_flag"`
	RunFlush          bool     `json:"run_flush"`
	StopFlush         bool     `json:"stop_flush"`
	FlushStreams      []string `json:"flush_streams"`
	RunConverts       bool     `json:"run_converts"`
	WaitDelaySet      bool     `json:"wait_delay_set"`
	CancelHook        bool     `json:"cancel_hook"`
	OwnGroup          bool     `json:"own_group"`
	EntryPoints       []string `json:"entry_points"`
	ExecSeq           []string `json:"exec_seq"`
	EndOkIffNil       bool     `json:"end_ok_iff_nil"`
	OutputPlain       bool     `json:"output_plain"`
	OutputReadsAlways bool     `json:"output_reads_always"`
	ConvCtxFirst      bool     `json:"conv_ctx_first"`
	Rules             []rule   `json:"rules"`
}

// ---- logging.go ----

func separator(sub, plat *pkg) int {
	init := sub.globals["lineSep"]
	if init == nil {
		die(token.NoPos, "package variable lineSep not found")
	}
	var lit string
	switch s := src(init); s {
	case "platform.UnixLineSeparator()":
		f := plat.fn("UnixLineSeparator")
		if len(f.Body.List) != 1 {
			die(f.Pos(), "UnixLineSeparator: %s", src(f.Body))
		}
		r, ok := f.Body.List[0].(*ast.ReturnStmt)
		if !ok || len(r.Results) != 1 {
			die(f.Pos(), "UnixLineSeparator: %s", src(f.Body))
		}
		lit = src(r.Results[0])
	default:
		lit = s
	}
	v, err := strconv.Unquote(lit)
	if err != nil || len(v) != 1 {
		die(init.Pos(), "lineSep is not a one-byte string literal: %s", lit)
	}
	return int(v[0])
}

// ops of Write / Flush over the current element elem ("" = none)
func wop(st ast.Stmt, r, elem string, inLoop bool) string {
	s := src(st)
	switch {
	case elem != "" && s == r+".pending.WriteString("+elem+")":
		return "WAppend"
	case s == r+".logPending()":
		return "WLogPending"
	case s == r+".pending.Reset()":
		return "WReset"
	case inLoop && elem != "" && s == "if "+elem+` == "" { continue }`:
		return "WSkipEmpty"
	}
	die(st.Pos(), "statement of logStreamer.Write/Flush: %s", s)
	return ""
}

func locking(s, r string) bool { return s == r+".mu.Lock()" || s == "defer "+r+".mu.Unlock()" }

func logging(sub, plat *pkg, F *facts) {
	F.Sep = separator(sub, plat)
	// Write
	w := sub.fn("logStreamer.Write")
	r := recv(w)
	if len(w.Type.Params.List) != 1 || len(w.Type.Params.List[0].Names) != 1 {
		die(w.Pos(), "Write: parameters")
	}
	p := w.Type.Params.List[0].Names[0].Name
	stage := 0 // 0: before Split, 1: after Split, 2: after last, 3: after the loop, 4: returned
	F.LoopOps, F.TailOps, F.FlushOps = []string{}, []string{}, []string{}
	for _, st := range w.Body.List {
		s := src(st)
		switch {
		case stage <= 3 && locking(s, r):
		case stage == 0 && s == "lines := strings.Split(string("+p+"), lineSep)":
			stage = 1
		case stage == 1 && s == "last := len(lines) - 1":
			stage = 2
		case stage == 2:
			f, ok := st.(*ast.ForStmt)
			if !ok || f.Init == nil || f.Cond == nil || f.Post == nil || src(f.Init) != "i := 0" || src(f.Cond) != "i < last" || src(f.Post) != "i++" {
				die(st.Pos(), "Write: expected `for i := 0; i < last; i++ {...}`, got %s", s)
			}
			for _, b := range f.Body.List {
				F.LoopOps = append(F.LoopOps, wop(b, r, "lines[i]", true))
			}
			stage = 3
		case stage == 3 && s == "return len("+p+"), nil":
			stage = 4
		case stage == 3:
			F.TailOps = append(F.TailOps, wop(st, r, "lines[last]", false))
		default:
			die(st.Pos(), "Write (stage %d): %s", stage, s)
		}
	}
	if stage != 4 {
		die(w.Pos(), "Write: incomplete (stage %d)", stage)
	}
	// Flush
	fl := sub.fn("logStreamer.Flush")
	r = recv(fl)
	for _, st := range fl.Body.List {
		if locking(src(st), r) {
			continue
		}
		F.FlushOps = append(F.FlushOps, wop(st, r, "", false))
	}
	// logPending
	lp := sub.fn("logStreamer.logPending")
	r = recv(lp)
	if len(lp.Body.List) == 0 || src(lp.Body.List[0]) != "line := "+r+".pending.String()" {
		die(lp.Pos(), "logPending: first statement")
	}
	logged := false
	for _, st := range lp.Body.List[1:] {
		s := src(st)
		switch {
		case s == r+".pending.Reset()":
			F.LpResets = true
		case !logged && s == `if line == "" { return }`:
			F.LpDropsEmpty = true
		case !logged && s == "if "+r+".IsStdErr { "+r+".Loggers.LogError(line) } else { "+r+".Loggers.Log(line) }":
			F.LpByStream, logged = true, true
		case !logged && s == r+".Loggers.Log(line)":
			F.LpByStream, logged = false, true
		default:
			die(st.Pos(), "logPending: %s", s)
		}
	}
	if !logged {
		die(lp.Pos(), "logPending: logs nothing")
	}
	// the plumbing between cmd.Stdout/Stderr and the streamer (checked, not emitted)
	expect := func(name string, want ...string) {
		f := sub.fn(name)
		if len(f.Body.List) != len(want) {
			die(f.Pos(), "%s: %s", name, src(f.Body))
		}
		for i, st := range f.Body.List {
			if src(st) != want[i] {
				die(st.Pos(), "%s: %s", name, src(st))
			}
		}
	}
	expect("newLogStreamer",
		"streamer := &logStreamer{ IsStdErr: isStdErr, Loggers: loggers, }",
		"return &flushableWriter{ Writer: safeio.ContextualWriter(ctx, streamer), streamer: streamer, }")
	expect("flushableWriter.Flush", recv(sub.fn("flushableWriter.Flush"))+".streamer.Flush()")
	expect("flushWriter", "if f, ok := w.(interface{ Flush() }); ok { f.Flush() }")
}

// flag given to newLogStreamer by a constructor call such as newOutStreamer(ctx, loggers)
func streamerFlag(sub *pkg, call ast.Expr) bool {
	c, ok := call.(*ast.CallExpr)
	if !ok {
		die(call.Pos(), "adapter constructor: %s", src(call))
	}
	name := src(c.Fun)
	if name == "newLogStreamer" {
		if len(c.Args) != 3 {
			die(c.Pos(), "newLogStreamer call: %s", src(c))
		}
		switch src(c.Args[1]) {
		case "true":
			return true
		case "false":
			return false
		}
		die(c.Pos(), "newLogStreamer call: %s", src(c))
	}
	if name != "newOutStreamer" && name != "newErrLogStreamer" {
		die(c.Pos(), "adapter constructor: %s", src(c))
	}
	f := sub.fn(name)
	if len(f.Body.List) != 1 {
		die(f.Pos(), "%s: %s", name, src(f.Body))
	}
	ret, ok := f.Body.List[0].(*ast.ReturnStmt)
	if !ok || len(ret.Results) != 1 {
		die(f.Pos(), "%s: %s", name, src(f.Body))
	}
	return streamerFlag(sub, ret.Results[0])
}

// ---- command_wrapper.go ----

func flushAfterWait(f *ast.FuncDecl, r string, waitCalls ...string) bool {
	waitAt, flushAt := -1, -1
	for i, st := range f.Body.List {
		s := src(st)
		for _, w := range waitCalls {
			if _, isIf := st.(*ast.IfStmt); !isIf && strings.Contains(s, w) && waitAt < 0 {
				waitAt = i
			}
		}
		if s == r+".flushOutput()" && flushAt < 0 {
			flushAt = i
		}
	}
	if waitAt < 0 {
		die(f.Pos(), "%s: no top-level call of %v", f.Name.Name, waitCalls)
	}
	if flushAt < 0 || flushAt < waitAt {
		return false // absent, conditional (nested) or too early
	}
	for _, st := range f.Body.List[waitAt:flushAt] {
		if hasReturn(st) {
			return false // some path leaves before the flush
		}
	}
	return true
}

func wrapper(sub *pkg, F *facts) {
	cc := sub.fn("command.createCommand")
	rc := recv(cc)
	if len(cc.Type.Params.List) != 1 || len(cc.Type.Params.List[0].Names) != 1 {
		die(cc.Pos(), "createCommand: parameters")
	}
	cctx := cc.Type.Params.List[0].Names[0].Name
	seenOut, seenErr := false, false
	for _, st := range cc.Body.List {
		s := src(st)
		a, isAssign := st.(*ast.AssignStmt)
		switch {
		case s == "newCmd, newArgs := "+rc+".as.Redefine("+rc+".cmd, "+rc+".args...)", s == "cmd := exec.CommandContext("+cctx+", newCmd, newArgs...)",
			s == "cmd.Env = cmd.Environ()", s == "cmd.Env = append(cmd.Env, "+rc+".env...)", s == "setGroupAttrToCmd(cmd)", s == "return cmd":
		case isAssign && len(a.Lhs) == 1 && len(a.Rhs) == 1 && src(a.Lhs[0]) == "cmd.Stdout":
			F.StdoutFlag, seenOut = streamerFlag(sub, a.Rhs[0]), true
		case isAssign && len(a.Lhs) == 1 && len(a.Rhs) == 1 && src(a.Lhs[0]) == "cmd.Stderr":
			F.StderrFlag, seenErr = streamerFlag(sub, a.Rhs[0]), true
		case isAssign && len(a.Lhs) == 1 && src(a.Lhs[0]) == "cmd.WaitDelay":
			// recorded by the package-wide scan below
		default:
			die(st.Pos(), "createCommand: %s", s)
		}
	}
	if !seenOut || !seenErr {
		die(cc.Pos(), "createCommand: cmd.Stdout / cmd.Stderr not both assigned")
	}
	// setGroupAttrToCmd (linux): own process group, Cancel hook killing the group
	sg := sub.fn("setGroupAttrToCmd")
	if len(sg.Type.Params.List) != 1 || len(sg.Type.Params.List[0].Names) != 1 {
		die(sg.Pos(), "setGroupAttrToCmd: parameters")
	}
	cp := sg.Type.Params.List[0].Names[0].Name
	for _, st := range sg.Body.List {
		s := src(st)
		a, isAssign := st.(*ast.AssignStmt)
		switch {
		case isAssign && len(a.Lhs) == 1 && len(a.Rhs) == 1 && src(a.Lhs[0]) == cp+".SysProcAttr":
			rhs := src(a.Rhs[0])
			if !strings.HasPrefix(rhs, "&syscall.SysProcAttr{") {
				die(st.Pos(), "setGroupAttrToCmd: %s", s)
			}
			F.OwnGroup = strings.Contains(rhs, "Setpgid: true")
		case s == cp+".Cancel = func() error { return killProcessGroup("+cp+".Process.Pid) }":
			F.CancelHook = true
		case isAssign && len(a.Lhs) == 1 && src(a.Lhs[0]) == cp+".WaitDelay":
		default:
			die(st.Pos(), "setGroupAttrToCmd: %s", s)
		}
	}
	fo := sub.fn("cmdWrapper.flushOutput")
	r := recv(fo)
	F.FlushStreams = []string{}
	for _, st := range fo.Body.List {
		switch src(st) {
		case "flushWriter(" + r + ".cmd.Stdout)":
			F.FlushStreams = append(F.FlushStreams, "SOut")
		case "flushWriter(" + r + ".cmd.Stderr)":
			F.FlushStreams = append(F.FlushStreams, "SErr")
		default:
			die(st.Pos(), "flushOutput: %s", src(st))
		}
	}
	run := sub.fn("cmdWrapper.Run")
	r = recv(run)
	F.RunFlush = flushAfterWait(run, r, r+".cmd.Wait()", r+".cmd.Run()")
	last := run.Body.List[len(run.Body.List)-1]
	switch src(last) {
	case "return ConvertCommandError(err)":
		F.RunConverts = true
	case "return err":
		F.RunConverts = false
	default:
		die(last.Pos(), "Run: last statement %s", src(last))
	}
	cce := sub.fn("ConvertCommandError")
	if len(cce.Body.List) != 1 || src(cce.Body.List[0]) != "return proc.ConvertProcessError(err)" {
		die(cce.Pos(), "ConvertCommandError: %s", src(cce.Body))
	}
	stop := sub.fn("cmdWrapper.Stop")
	r = recv(stop)
	F.StopFlush = flushAfterWait(stop, r, r+".cmd.Wait()")
}

// setsWaitDelay: some statement of the package assigns a field named WaitDelay (of an exec.Cmd), or a composite literal
// gives one.
func setsWaitDelay(p *pkg) bool {
	found := false
	for _, f := range p.files {
		ast.Inspect(f, func(n ast.Node) bool {
			switch x := n.(type) {
			case *ast.AssignStmt:
				for _, l := range x.Lhs {
					if se, ok := l.(*ast.SelectorExpr); ok && se.Sel.Name == "WaitDelay" {
						found = true
					}
				}
			case *ast.KeyValueExpr:
				if id, ok := x.Key.(*ast.Ident); ok && id.Name == "WaitDelay" {
					found = true
				}
			}
			return true
		})
	}
	return found
}

// publicEntryPoints: every exported function of the package, and every exported method of Subprocess, which takes the
// loggers (a parameter of type logs.Loggers): these are the ways a caller hands over the start / success / failure
// messages or obtains the end message. Sorted; methods as "Subprocess.Name".
func publicEntryPoints(p *pkg) []string {
	var out []string
	for name, f := range p.funcs {
		base := f.Name.Name
		if !ast.IsExported(base) {
			continue
		}
		if f.Recv != nil && !strings.HasPrefix(name, "Subprocess.") {
			continue
		}
		takes := false
		for _, prm := range f.Type.Params.List {
			if src(prm.Type) == "logs.Loggers" {
				takes = true
			}
		}
		if takes {
			out = append(out, name)
		}
	}
	sort.Strings(out)
	return out
}

// ---- executor.go, messaging.go ----

func executor(sub *pkg, F *facts) {
	ex := sub.fn("Subprocess.Execute")
	r := recv(ex)
	ignorableBefore := map[string]bool{
		"err = " + r + ".Check()": true, "if err != nil { return }": true, r + ".mu.Lock()": true, "defer " + r + ".mu.Unlock()": true,
		"defer " + r + ".Cancel()": true, r + ".processMonitoring.Reset()": true, r + ".command.Reset()": true,
		`if ` + r + `.IsOn() { return fmt.Errorf("process is already started: %w", commonerrors.ErrConflict) }`: true,
		r + ".runProcessMonitoring()": true, "cmd := " + r + ".getCmd()": true, r + ".isRunning.Store(true)": true,
	}
	ignorableAfter := map[string]bool{r + ".isRunning.Store(false)": true, "return": true}
	F.ExecSeq = []string{}
	ran := false
	for _, st := range ex.Body.List {
		s := src(st)
		switch {
		case s == r+".messaging.LogStart()":
			F.ExecSeq = append(F.ExecSeq, "XLogStart")
		case s == r+".messaging.LogEnd(err)":
			F.ExecSeq = append(F.ExecSeq, "XLogEnd")
		case s == "err = cmd.Run()":
			if ran {
				die(st.Pos(), "Execute: second Run")
			}
			ran = true
			F.ExecSeq = append(F.ExecSeq, "XRun")
		case strings.HasPrefix(s, "if err != nil { ctxErr := parallelisation.DetermineContextError("):
			var which string
			for _, c := range []struct{ expr, name string }{{r + ".processMonitoring.ProcessContext()", "CtxProcess"}, {r + ".processMonitoring.parentCtx", "CtxParent"}} {
				if s == "if err != nil { ctxErr := parallelisation.DetermineContextError("+c.expr+`) if ctxErr != nil && !commonerrors.Any(err, ctxErr) { err = fmt.Errorf("%w: %v", ctxErr, err.Error()) } }` {
					which = c.name
				}
			}
			if which == "" || !ran {
				die(st.Pos(), "Execute: context override: %s", s)
			}
			F.ExecSeq = append(F.ExecSeq, "(XCtxOverride "+which+")")
		case !ran && ignorableBefore[s], ran && ignorableAfter[s]:
		default:
			die(st.Pos(), "Execute: %s", s)
		}
	}
	if !ran {
		die(ex.Pos(), "Execute: no `err = cmd.Run()`")
	}
	gc := sub.fn("Subprocess.getCmd")
	if len(gc.Body.List) != 1 || src(gc.Body.List[0]) != "return "+recv(gc)+".command.GetCmd("+recv(gc)+".processMonitoring.ProcessContext())" {
		die(gc.Pos(), "getCmd: %s", src(gc.Body))
	}
	// messaging
	ls := sub.fn("subprocessMessaging.LogStart")
	r = recv(ls)
	if len(ls.Body.List) != 1 || src(ls.Body.List[0]) != "if "+r+".withAdditionalMessages { "+r+".loggers.Log("+r+".messageOnProcessStart) }" {
		die(ls.Pos(), "LogStart: %s", src(ls.Body))
	}
	le := sub.fn("subprocessMessaging.LogEnd")
	r = recv(le)
	if len(le.Body.List) != 2 || src(le.Body.List[0]) != "if !"+r+".withAdditionalMessages { return }" {
		die(le.Pos(), "LogEnd: %s", src(le.Body))
	}
	okB, failB := r+".loggers.Log("+r+".messageOnSuccess)", r+".loggers.LogError("+r+".messageOnFailure, err)"
	switch src(le.Body.List[1]) {
	case "if err == nil { " + okB + " } else { " + failB + " }", "if err != nil { " + failB + " } else { " + okB + " }":
		F.EndOkIffNil = true
	case "if err != nil { " + okB + " } else { " + failB + " }", "if err == nil { " + failB + " } else { " + okB + " }":
		F.EndOkIffNil = false
	default:
		die(le.Body.List[1].Pos(), "LogEnd: %s", src(le.Body.List[1]))
	}
	// Output
	out := sub.fn("OutputAsWithEnvironment")
	execAt, readAt, plainSeen := -1, -1, false
	for i, st := range out.Body.List {
		s := src(st)
		switch {
		case s == "if loggers == nil { err = commonerrors.ErrNoLogger return }", s == "if err != nil { return }" && execAt < 0, s == "return":
		case s == "stringLogger, err := logs.NewPlainStringLogger()", s == "mLoggers, err := logs.NewCombinedLoggers(loggers, stringLogger)":
		case s == "p, err := newPlainSubProcess(ctx, mLoggers, additionalEnvVars, as, cmd, args...)":
			F.OutputPlain, plainSeen = true, true
		case strings.HasPrefix(s, "p, err := newSubProcess(ctx, mLoggers, additionalEnvVars, "):
			F.OutputPlain, plainSeen = false, true
		case s == "err = p.Execute()" && execAt < 0:
			execAt = i
		case s == "output = stringLogger.GetLogContent()" && execAt >= 0 && readAt < 0:
			readAt = i
		case execAt >= 0 && readAt < 0 && hasReturn(st):
			// a path leaves between Execute and the read: recorded below
		case execAt >= 0 && mentions(st, "output = stringLogger.GetLogContent()"):
			// the read is conditional
		default:
			die(st.Pos(), "OutputAsWithEnvironment: %s", s)
		}
	}
	if execAt < 0 || !plainSeen {
		die(out.Pos(), "OutputAsWithEnvironment: no subprocess / no Execute")
	}
	F.OutputReadsAlways = readAt == execAt+1
	if readAt < 0 && !mentions(out.Body, "stringLogger.GetLogContent()") {
		die(out.Pos(), "OutputAsWithEnvironment: the string logger is never read")
	}
}

// ---- proc/errors.go ----

func procErrors(pr *pkg, F *facts) {
	f := pr.fn("ConvertProcessError")
	F.Rules = []rule{}
	sigOf := map[string]int{"signal: killed": 9, "signal: terminated": 15}
	resolve := func(e ast.Expr) string {
		if id, ok := e.(*ast.Ident); ok {
			if v, ok := pr.consts[id.Name]; ok {
				return v
			}
		}
		if bl, ok := e.(*ast.BasicLit); ok && bl.Kind == token.STRING {
			v, _ := strconv.Unquote(bl.Value)
			return v
		}
		die(e.Pos(), "ConvertProcessError: text %s", src(e))
		return ""
	}
	seenSwitch := false
	for i, st := range f.Body.List {
		s := src(st)
		if i == 0 && s == "err = commonerrors.ConvertContextError(err)" {
			F.ConvCtxFirst = true
			continue
		}
		sw, ok := st.(*ast.SwitchStmt)
		if !ok || sw.Tag != nil || sw.Init != nil || seenSwitch {
			die(st.Pos(), "ConvertProcessError: %s", s)
		}
		seenSwitch = true
		for _, c := range sw.Body.List {
			cc := c.(*ast.CaseClause)
			if len(cc.Body) != 1 {
				die(cc.Pos(), "ConvertProcessError: case body %s", src(cc))
			}
			var act string
			switch b := src(cc.Body[0]); b {
			case "return err":
				act = "RaReturn"
			case "return nil":
				act = "RaNil"
			case "return os.ErrProcessDone":
				act = "RaProcessDone"
			case `return fmt.Errorf("%w: %v", commonerrors.ErrTimeout, err.Error())`:
				act = "RaTimeout"
			case `return fmt.Errorf("%w: %v", commonerrors.ErrNotFound, err.Error())`:
				act = "RaNotFound"
			case `return fmt.Errorf("%w: %v", commonerrors.ErrForbidden, err.Error())`:
				act = "RaForbidden"
			case `return fmt.Errorf("%w: %v", commonerrors.ErrNotImplemented, err.Error())`:
				act = "RaNotImplemented"
			default:
				die(cc.Body[0].Pos(), "ConvertProcessError: result %s", b)
			}
			if cc.List == nil { // default
				if act != "RaReturn" {
					die(cc.Pos(), "ConvertProcessError: default %s", src(cc.Body[0]))
				}
				continue
			}
			if len(cc.List) != 1 {
				die(cc.Pos(), "ConvertProcessError: case %s", src(cc))
			}
			var cond string
			e := cc.List[0]
			call, isCall := e.(*ast.CallExpr)
			switch {
			case src(e) == "err == nil":
				cond = "RcNil"
			case isCall && src(call.Fun) == "commonerrors.CorrespondTo" && len(call.Args) >= 2 && src(call.Args[0]) == "err":
				var sigs []string
				other := false
				for _, a := range call.Args[1:] {
					if n, ok := sigOf[resolve(a)]; ok {
						sigs = append(sigs, fmt.Sprint(n))
					} else {
						other = true
					}
				}
				switch {
				case len(sigs) > 0 && !other:
					cond = "(RcSignalText [" + strings.Join(sigs, "; ") + "])"
				case len(sigs) == 0:
					cond = "RcOtherText"
				default:
					die(e.Pos(), "ConvertProcessError: mixed texts %s", src(e))
				}
			case isCall && src(call.Fun) == "commonerrors.Any" && len(call.Args) == 1:
				cond = "RcNever"
			case isCall && src(call.Fun) == "commonerrors.Any" && src(call.Args[0]) == "err":
				var names []string
				for _, a := range call.Args[1:] {
					names = append(names, src(a))
				}
				switch j := strings.Join(names, ","); {
				case j == "syscall.ESRCH":
					cond = "RcErrno"
				case j == "exec.ErrWaitDelay":
					cond = "RcWaitDelay"
				case j == "exec.ErrDot,exec.ErrNotFound", j == "exec.ErrNotFound", j == "exec.ErrNotFound,exec.ErrDot":
					cond = "RcExecNotFound"
				default:
					die(e.Pos(), "ConvertProcessError: condition %s", src(e))
				}
			default:
				die(e.Pos(), "ConvertProcessError: condition %s", src(e))
			}
			F.Rules = append(F.Rules, rule{cond, act})
		}
	}
	if !seenSwitch {
		die(f.Pos(), "ConvertProcessError: no switch")
	}
}

// ---------------------------------------------------------------------------------------------------------------------

func coqBool(b bool) string {
	if b {
		return "true"
	}
	return "false"
}

func coqList(xs []string) string { return "[" + strings.Join(xs, "; ") + "]" }

func writeIfChanged(path, content string) {
	if old, err := os.ReadFile(path); err == nil && string(old) == content {
		return
	}
	if err := os.WriteFile(path, []byte(content), 0o644); err != nil {
		fmt.Fprintln(os.Stderr, "subproc2coq:", err)
		os.Exit(1)
	}
}

func main() {
	repo := os.Getenv("VERIF_REPO")
	if repo == "" {
		repo = "/repo"
	}
	out := "/verif/coq/C18"
	if len(os.Args) > 1 {
		out = os.Args[1]
	}
	u := filepath.Join(repo, "utils")
	// every file of the package which is compiled on linux without the verif tag (the hook file only re-exports)
	all, _ := filepath.Glob(filepath.Join(u, "subprocess", "*.go"))
	var subFiles []string
	for _, n := range all {
		b := filepath.Base(n)
		if strings.HasSuffix(b, "_test.go") || strings.HasSuffix(b, "_windows.go") || strings.HasSuffix(b, "_darwin.go") || b == "export_verif.go" {
			continue
		}
		subFiles = append(subFiles, n)
	}
	if len(subFiles) < 5 {
		fmt.Fprintln(os.Stderr, "subproc2coq: utils/subprocess: files missing")
		os.Exit(1)
	}
	sub := newPkg(subFiles...)
	pr := newPkg(filepath.Join(u, "proc", "errors.go"))
	plat := newPkg(filepath.Join(u, "platform", "os.go"))
	var F facts
	logging(sub, plat, &F)
	wrapper(sub, &F)
	F.WaitDelaySet = setsWaitDelay(sub)
	F.EntryPoints = publicEntryPoints(sub)
	executor(sub, &F)
	procErrors(pr, &F)

	var b strings.Builder
	b.WriteString("(* GENERATED by translator-c18/cmd/subproc2coq from utils/subprocess/*.go (linux build),\n   utils/proc/errors.go and utils/platform/os.go of the working tree. Do not edit. *)\n")
	b.WriteString("From Coq Require Import List ZArith Bool String.\nImport ListNotations.\nFrom GU Require Import C18.Facts.\nLocal Open Scope Z_scope.\n\n")
	b.WriteString("Definition gen_facts : facts := {|\n")
	fmt.Fprintf(&b, "  sep := %d;\n  loop_ops := %s;\n  tail_ops := %s;\n  flush_ops := %s;\n", F.Sep, coqList(F.LoopOps), coqList(F.TailOps), coqList(F.FlushOps))
	fmt.Fprintf(&b, "  lp_resets := %s;\n  lp_drops_empty := %s;\n  lp_by_stream := %s;\n  stdout_flag := %s;\n  stderr_flag := %s;\n", coqBool(F.LpResets), coqBool(F.LpDropsEmpty), coqBool(F.LpByStream), coqBool(F.StdoutFlag), coqBool(F.StderrFlag))
	fmt.Fprintf(&b, "  run_flush := %s;\n  stop_flush := %s;\n  flush_streams := %s;\n  run_converts := %s;\n", coqBool(F.RunFlush), coqBool(F.StopFlush), coqList(F.FlushStreams), coqBool(F.RunConverts))
	fmt.Fprintf(&b, "  wait_delay_set := %s;\n  cancel_hook := %s;\n  own_group := %s;\n", coqBool(F.WaitDelaySet), coqBool(F.CancelHook), coqBool(F.OwnGroup))
	fmt.Fprintf(&b, "  exec_seq := %s;\n  end_ok_iff_nil := %s;\n  output_plain := %s;\n  output_reads_always := %s;\n", coqList(F.ExecSeq), coqBool(F.EndOkIffNil), coqBool(F.OutputPlain), coqBool(F.OutputReadsAlways))
	rs := make([]string, len(F.Rules))
	for i, r := range F.Rules {
		rs[i] = "(" + r.Cond + ", " + r.Act + ")"
	}
	fmt.Fprintf(&b, "  conv_ctx_first := %s;\n  rules := [%s]\n|}.\n", coqBool(F.ConvCtxFirst), strings.Join(rs, ";\n            "))
	eps := make([]string, len(F.EntryPoints))
	for i, e := range F.EntryPoints {
		eps[i] = fmt.Sprintf("%q%%string", e)
	}
	fmt.Fprintf(&b, "\n(* the public entry points of the package which take the loggers / messages (driven one by one by harness/cmd/c18) *)\nDefinition gen_entry_points : list String.string :=\n  [%s].\n", strings.Join(eps, ";\n   "))
	writeIfChanged(filepath.Join(out, "Gen.v"), b.String())
	js, _ := json.MarshalIndent(F, "", " ")
	writeIfChanged(filepath.Join(out, "gen_facts.json"), string(js)+"\n")
}
