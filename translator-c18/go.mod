module verif/translatorc18

go 1.24.1
