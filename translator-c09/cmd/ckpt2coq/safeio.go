package main

import (
	"fmt"
	"go/ast"
	"go/token"
	"path/filepath"
	"strings"
)

func findFunc(f *ast.File, recv, name string) *ast.FuncDecl {
	for _, d := range f.Decls {
		if fd, ok := d.(*ast.FuncDecl); ok && fd.Name.Name == name && recvName(fd) == recv && fd.Body != nil {
			return fd
		}
	}
	die(token.NoPos, "function %s.%s not found", recv, name)
	return nil
}

var cmpNames = map[token.Token]string{token.GTR: "CGt", token.GEQ: "CGe", token.LSS: "CLt", token.LEQ: "CLe", token.EQL: "CEq", token.NEQ: "CNe"}

func coqBool(b bool) string {
	if b {
		return "true"
	}
	return "false"
}

func zlit(s string) string {
	s = strings.TrimSpace(s)
	if strings.HasPrefix(s, "-") {
		return "(" + s + ")"
	}
	return s
}

// stmts of a function body as source text, one per statement (top level only)
func top(fd *ast.FuncDecl) []ast.Stmt { return fd.Body.List }

// isErrReturn: `if <v> != nil { return }` (bare return or returning v)
func isErrReturn(s ast.Stmt, v string) bool {
	is, ok := s.(*ast.IfStmt)
	if !ok || is.Init != nil || is.Else != nil || src(is.Cond) != v+" != nil" || len(is.Body.List) != 1 {
		return false
	}
	_, ok = is.Body.List[0].(*ast.ReturnStmt)
	return ok
}

var errSyms = map[string]string{
	"io.EOF": "EIoEOF", "io.ErrUnexpectedEOF": "EIoUnexpectedEOF", "commonerrors.ErrEOF": "EErrEOF", "ErrEOF": "EErrEOF",
	"context.Canceled": "ECtxCanceled", "context.DeadlineExceeded": "ECtxDeadline",
	"commonerrors.ErrCancelled": "EErrCancelled", "ErrCancelled": "EErrCancelled",
	"commonerrors.ErrTimeout": "EErrTimeout", "ErrTimeout": "EErrTimeout",
}

func sym(e ast.Expr) string {
	if s, ok := errSyms[src(e)]; ok {
		return s
	}
	die(e.Pos(), "unknown error value %s", src(e))
	return ""
}

func safeioFacts(b *strings.Builder, repo string) {
	rf := parse(filepath.Join(repo, "utils/safeio/read.go"))
	cf := parse(filepath.Join(repo, "utils/safeio/copy.go"))
	wf := parse(filepath.Join(repo, "utils/safeio/write.go"))
	ef := parse(filepath.Join(repo, "utils/safeio/error.go"))
	pf := parse(filepath.Join(repo, "utils/parallelisation/parallelisation.go"))
	ce := parse(filepath.Join(repo, "utils/commonerrors/errors.go"))

	// ---- constants of read.go
	consts := map[string]string{}
	for _, d := range rf.Decls {
		if gd, ok := d.(*ast.GenDecl); ok && gd.Tok == token.CONST {
			for _, sp := range gd.Specs {
				vs := sp.(*ast.ValueSpec)
				for i, n := range vs.Names {
					if i < len(vs.Values) {
						consts[n.Name] = src(vs.Values[i])
					}
				}
			}
		}
	}
	constVal := func(name string) string {
		v, ok := consts[name]
		if !ok {
			die(token.NoPos, "constant %s not found in read.go", name)
		}
		switch v {
		case "1 << 20":
			return "1048576"
		}
		for _, c := range v {
			if c < '0' || c > '9' {
				die(token.NoPos, "constant %s = %s: not a literal this program evaluates", name, v)
			}
		}
		return v
	}

	// ---- ReadAtMost
	ram := findFunc(rf, "", "ReadAtMost")
	if len(ram.Type.Params.List) != 4 || ram.Type.Params.List[2].Names[0].Name != "max" || ram.Type.Params.List[3].Names[0].Name != "bufferCapacity" {
		die(ram.Pos(), "ReadAtMost(ctx, src, max, bufferCapacity) expected")
	}
	capRule, ctxBeforeAlloc, guard, limArg, elseUnl := "CapOther", false, "", "", false
	srcWrapped, bufWrapped, converts, emptyRule, contentAfter := false, false, false, false, false
	sawTest, sawAlloc, sawErrRet := false, false, false
	st := top(ram)
	for i, s := range st {
		switch x := s.(type) {
		case *ast.IfStmt:
			c := src(x.Cond)
			switch {
			case c == "bufferCapacity < 0":
				// the default capacity
				if len(x.Body.List) != 1 {
					die(x.Pos(), "default capacity block")
				}
				switch y := x.Body.List[0].(type) {
				case *ast.SwitchStmt:
					var cases []string
					for _, cc := range y.Body.List {
						cl := cc.(*ast.CaseClause)
						cond := "default"
						if len(cl.List) == 1 {
							cond = src(cl.List[0])
						}
						if len(cl.Body) != 1 {
							die(cl.Pos(), "capacity case body")
						}
						cases = append(cases, cond+" => "+src(cl.Body[0].(*ast.AssignStmt).Lhs[0])+" = "+src(cl.Body[0].(*ast.AssignStmt).Rhs[0]))
					}
					j := strings.Join(cases, "; ")
					if len(cases) == 3 && cases[0] == "max < 0 => bufferCapacity = bytes.MinRead" && strings.HasPrefix(cases[1], "max > ") && cases[2] == "default => bufferCapacity = max" {
						name := strings.TrimPrefix(strings.Split(cases[1], " => ")[0], "max > ")
						if cases[1] != "max > "+name+" => bufferCapacity = "+name {
							die(y.Pos(), "capacity rule: %s", j)
						}
						capRule = "(CapMinReadIfNegative_ConstIfAbove_ElseMax " + constVal(name) + ")"
					} else {
						die(y.Pos(), "capacity rule: %s", j)
					}
				case *ast.IfStmt:
					if y.Else == nil {
						die(y.Pos(), "capacity rule without else")
					}
					t := fmt.Sprintf("if %s {%s} else {%s}", src(y.Cond), stmtText(y.Body.List), stmtText(y.Else.(*ast.BlockStmt).List))
					if t == "if max < 0 {bufferCapacity = bytes.MinRead} else {bufferCapacity = max}" {
						capRule = "CapMinReadIfNegative_ElseMax"
					} else {
						die(y.Pos(), "capacity rule: %s", t)
					}
				default:
					die(x.Pos(), "capacity rule shape")
				}
			case isErrReturn(s, "err"):
				sawErrRet = true
			case x.Else != nil && (strings.HasPrefix(c, "max ")):
				// the limit guard
				be, ok := x.Cond.(*ast.BinaryExpr)
				if !ok || src(be.X) != "max" {
					die(x.Pos(), "limit guard %s", c)
				}
				op, ok := cmpNames[be.Op]
				if !ok {
					die(x.Pos(), "limit guard operator %s", be.Op)
				}
				guard = "(" + op + ", " + zlit(src(be.Y)) + ")"
				th := stmtText(x.Body.List)
				el := stmtText(x.Else.(*ast.BlockStmt).List)
				switch {
				case th == "reader = io.LimitReader(src,max)":
					limArg = "LimMax"
				case strings.HasPrefix(th, "reader = io.LimitReader(src,max + ") || strings.HasPrefix(th, "reader = io.LimitReader(src,max - "):
					d := strings.TrimSuffix(strings.TrimPrefix(th, "reader = io.LimitReader(src,max "), ")")
					d = strings.ReplaceAll(d, " ", "")
					limArg = "(LimMaxPlus " + zlit(strings.TrimPrefix(d, "+")) + ")"
				default:
					die(x.Pos(), "limit reader: %s", th)
				}
				elseUnl = el == "reader = src"
				if !elseUnl {
					die(x.Pos(), "limit guard else branch: %s", el)
				}
			case c == "read == int64(0)" || c == "read == 0":
				emptyRule = strings.Contains(stmtText(x.Body.List), "commonerrors.ErrEmpty")
			default:
				die(x.Pos(), "ReadAtMost: if %s", c)
			}
		case *ast.AssignStmt:
			t := src(x.Lhs[0])
			r := src(x.Rhs[0])
			switch {
			case r == "parallelisation.DetermineContextError(ctx)":
				if i+1 >= len(st) || !isErrReturn(st[i+1], t) {
					die(x.Pos(), "the context test of ReadAtMost is not followed by `if err != nil { return }`")
				}
				sawTest = true
			case strings.HasPrefix(r, "bytes.NewBuffer(make("):
				sawAlloc = true
				ctxBeforeAlloc = sawTest
				if r != "bytes.NewBuffer(make([]byte,0,bufferCapacity))" {
					die(x.Pos(), "buffer allocation %s", r)
				}
			case r == "NewContextualReaderFrom(ctx,buf)":
				bufWrapped = true
			case strings.HasPrefix(r, "safeBuf.ReadFrom(") || strings.HasPrefix(r, "buf.ReadFrom("):
				bufWrapped = bufWrapped && strings.HasPrefix(r, "safeBuf.")
				srcWrapped = r == "safeBuf.ReadFrom(NewContextualReader(ctx,reader))" || r == "buf.ReadFrom(NewContextualReader(ctx,reader))"
				if !srcWrapped && !strings.HasSuffix(r, ".ReadFrom(reader)") {
					die(x.Pos(), "ReadFrom argument: %s", r)
				}
				if i+1 < len(st) {
					if nx, ok := st[i+1].(*ast.AssignStmt); ok && src(nx.Lhs[0]) == "err" && src(nx.Rhs[0]) == "ConvertIOError(err)" {
						converts = true
					}
				}
			case r == "ConvertIOError(err)":
			case t == "content" && r == "buf.Bytes()":
				contentAfter = sawErrRet
			default:
				die(x.Pos(), "ReadAtMost: %s = %s", t, r)
			}
		case *ast.DeclStmt, *ast.DeferStmt, *ast.ReturnStmt:
		default:
			die(s.Pos(), "ReadAtMost: statement %T", s)
		}
	}
	if !sawAlloc || guard == "" {
		die(ram.Pos(), "ReadAtMost: allocation or limit guard not found")
	}

	// ---- ReadAll
	ra := findFunc(rf, "", "ReadAll")
	raT := stmtText(ra.Body.List)
	var a1, a2 string
	if n, _ := fmt.Sscanf(strings.NewReplacer(",", " ", "(", " ", ")", " ").Replace(strings.TrimPrefix(raT, "return ReadAtMost")), " ctx src %s %s", &a1, &a2); n != 2 {
		die(ra.Pos(), "ReadAll: %s", raT)
	}

	// ---- NewContextualReader, ContextualWriter, contextualCopier.Write
	creader := stmtText(findFunc(rf, "", "NewContextualReader").Body.List) == "return contextio.NewReader(ctx,reader)"
	cwriter := stmtText(findFunc(wf, "", "ContextualWriter").Body.List) == "return &contextualCopier{...}" &&
		strings.Contains(fullText(findFunc(wf, "", "ContextualWriter")), "contextio.NewWriter(ctx,writer)")
	cwWrite := stmtText(findFunc(wf, "contextualCopier", "Write").Body.List) == "n,err = w.w.Write(p); err = ConvertIOError(err); return"

	// ---- copy.go
	cd := stmtText(findFunc(cf, "", "CopyDataWithContext").Body.List) == "return copyDataWithContext(ctx,src,dst,io.Copy)"
	cnT := fullText(findFunc(cf, "", "CopyNWithContext"))
	cn := strings.Contains(cnT, "return io.CopyN(dst,src,n)") && strings.Contains(cnT, "return copyDataWithContext(ctx,src,dst,func{...})")
	cdw := top(findFunc(cf, "", "copyDataWithContext"))
	ctxFirst, srcW, dstW := false, false, false
	if len(cdw) >= 3 && src(cdw[0].(*ast.AssignStmt).Rhs[0]) == "parallelisation.DetermineContextError(ctx)" && isErrReturn(cdw[1], "err") {
		ctxFirst = true
	}
	for _, s := range cdw {
		if as, ok := s.(*ast.AssignStmt); ok && strings.HasPrefix(src(as.Rhs[0]), "safeCopy(") {
			call := as.Rhs[0].(*ast.CallExpr)
			if len(call.Args) != 3 || src(call.Args[2]) != "copyFunc" {
				die(as.Pos(), "safeCopy call %s", src(call))
			}
			dstW = src(call.Args[0]) == "ContextualWriter(ctx,dst)"
			srcW = src(call.Args[1]) == "NewContextualReader(ctx,src)"
			if !dstW && src(call.Args[0]) != "dst" || !srcW && src(call.Args[1]) != "src" {
				die(as.Pos(), "safeCopy arguments %s", src(call))
			}
		}
	}
	sc := stmtText(findFunc(cf, "", "safeCopy").Body.List)
	scConv := sc == "copied,err := iocopyFunc(w,r); err = ConvertIOError(err); return copied,err"
	if !scConv && sc != "copied,err := iocopyFunc(w,r); return copied,err" {
		die(token.NoPos, "safeCopy: %s", sc)
	}

	// ---- ConvertIOError
	var ioRules []string
	for _, s := range top(findFunc(ef, "", "ConvertIOError")) {
		switch x := s.(type) {
		case *ast.IfStmt:
			if src(x.Cond) != "err == nil" {
				die(x.Pos(), "ConvertIOError: if %s", src(x.Cond))
			}
		case *ast.AssignStmt:
			if src(x.Lhs[0]) == "newErr" && src(x.Rhs[0]) == "commonerrors.ConvertContextError(err)" {
				ioRules = append(ioRules, "IRConvertContext")
			} else {
				die(x.Pos(), "ConvertIOError: %s", stmtText([]ast.Stmt{s}))
			}
		case *ast.SwitchStmt:
			if x.Tag != nil || x.Init != nil {
				die(x.Pos(), "ConvertIOError: switch with a tag")
			}
			for _, cc := range x.Body.List {
				cl := cc.(*ast.CaseClause)
				if len(cl.List) != 1 {
					die(cl.Pos(), "ConvertIOError: case list")
				}
				call, ok := cl.List[0].(*ast.CallExpr)
				if !ok || src(call.Fun) != "commonerrors.Any" || src(call.Args[0]) != "newErr" {
					die(cl.Pos(), "ConvertIOError: case %s", src(cl.List[0]))
				}
				var syms []string
				for _, a := range call.Args[1:] {
					syms = append(syms, sym(a))
				}
				switch len(cl.Body) {
				case 0:
					ioRules = append(ioRules, "IRKeepIfAny ["+strings.Join(syms, "; ")+"]")
				case 1:
					as, ok := cl.Body[0].(*ast.AssignStmt)
					if !ok || src(as.Lhs[0]) != "newErr" {
						die(cl.Pos(), "ConvertIOError: case body")
					}
					w, ok := as.Rhs[0].(*ast.CallExpr)
					if !ok || src(w.Fun) != "commonerrors.WrapError" || src(w.Args[1]) != "newErr" {
						die(cl.Pos(), "ConvertIOError: case body %s", src(as.Rhs[0]))
					}
					ioRules = append(ioRules, "IRWrapIfAny ["+strings.Join(syms, "; ")+"] "+sym(w.Args[0]))
				default:
					die(cl.Pos(), "ConvertIOError: case body")
				}
			}
		case *ast.ReturnStmt:
		default:
			die(s.Pos(), "ConvertIOError: statement %T", s)
		}
	}

	// ---- ConvertContextError
	var ctxRules []string
	for _, s := range top(findFunc(ce, "", "ConvertContextError")) {
		switch x := s.(type) {
		case *ast.IfStmt:
			c := src(x.Cond)
			if c == "err == nil" {
				continue
			}
			call, ok := x.Cond.(*ast.CallExpr)
			if !ok || src(call.Fun) != "Any" || len(call.Args) != 2 || src(call.Args[0]) != "err" || len(x.Body.List) != 1 {
				die(x.Pos(), "ConvertContextError: if %s", c)
			}
			ret, ok := x.Body.List[0].(*ast.ReturnStmt)
			if !ok || len(ret.Results) != 1 {
				die(x.Pos(), "ConvertContextError: body of if %s", c)
			}
			ctxRules = append(ctxRules, "CRMap "+sym(call.Args[1])+" "+sym(ret.Results[0]))
		case *ast.ReturnStmt:
			if src(x.Results[0]) != "err" {
				die(x.Pos(), "ConvertContextError: final return %s", src(x.Results[0]))
			}
		default:
			die(s.Pos(), "ConvertContextError: statement %T", s)
		}
	}

	// ---- DetermineContextError
	dce := stmtText(findFunc(pf, "", "DetermineContextError").Body.List)
	dceSrc, dceConv := "CtxOther", false
	switch dce {
	case "return commonerrors.ConvertContextError(ctx.Err())":
		dceSrc, dceConv = "CtxErr", true
	case "return commonerrors.ConvertContextError(context.Cause(ctx))":
		dceSrc, dceConv = "CtxCause", true
	case "return ctx.Err()":
		dceSrc = "CtxErr"
	default:
		die(token.NoPos, "DetermineContextError: %s", dce)
	}

	fmt.Fprintf(b, "(* safeio/read.go, copy.go, write.go, error.go; parallelisation.go; commonerrors/errors.go *)\n")
	fmt.Fprintf(b, "Definition gen_safeio : safeio_facts := {|\n")
	fmt.Fprintf(b, "  ram_cap_rule := %s;\n  ram_ctx_test_before_alloc := %s;\n  ram_guard := %s;\n  ram_limarg := %s;\n  ram_else_unlimited := %s;\n", capRule, coqBool(ctxBeforeAlloc), guard, limArg, coqBool(elseUnl))
	fmt.Fprintf(b, "  ram_src_wrapped := %s;\n  ram_buf_wrapped := %s;\n  ram_converts := %s;\n  ram_empty_rule := %s;\n  ram_content_set_after_error_return := %s;\n", coqBool(srcWrapped), coqBool(bufWrapped), coqBool(converts), coqBool(emptyRule), coqBool(contentAfter))
	fmt.Fprintf(b, "  readall_args := (%s, %s);\n", zlit(a1), zlit(a2))
	fmt.Fprintf(b, "  copy_ctx_test_first := %s;\n  copy_src_wrapped := %s;\n  copy_dst_wrapped := %s;\n  copydata_is_iocopy := %s;\n  copyn_is_iocopyn_same_n := %s;\n  safecopy_converts := %s;\n", coqBool(ctxFirst), coqBool(srcW), coqBool(dstW), coqBool(cd), coqBool(cn), coqBool(scConv))
	fmt.Fprintf(b, "  cwriter_is_contextio := %s;\n  cwriter_write_converts := %s;\n  creader_is_contextio := %s;\n", coqBool(cwriter), coqBool(cwWrite), coqBool(creader))
	fmt.Fprintf(b, "  ioerr_rules := [%s];\n  ctxerr_rules := [%s];\n  dce_source := %s;\n  dce_converts := %s\n|}.\n\n", strings.Join(ioRules, "; "), strings.Join(ctxRules, "; "), dceSrc, coqBool(dceConv))
}

func stmtText(l []ast.Stmt) string {
	var out []string
	for _, s := range l {
		switch x := s.(type) {
		case *ast.AssignStmt:
			var lhs, rhs []string
			for _, e := range x.Lhs {
				lhs = append(lhs, src(e))
			}
			for _, e := range x.Rhs {
				rhs = append(rhs, src(e))
			}
			out = append(out, strings.Join(lhs, ",")+" "+x.Tok.String()+" "+strings.Join(rhs, ","))
		case *ast.ReturnStmt:
			var rs []string
			for _, e := range x.Results {
				rs = append(rs, src(e))
			}
			if len(rs) == 0 {
				out = append(out, "return")
			} else {
				out = append(out, "return "+strings.Join(rs, ","))
			}
		case *ast.ExprStmt:
			out = append(out, src(x.X))
		case *ast.IfStmt:
			out = append(out, "if "+src(x.Cond)+" {"+stmtText(x.Body.List)+"}")
		default:
			out = append(out, fmt.Sprintf("<%T>", s))
		}
	}
	return strings.Join(out, "; ")
}

// the whole text of a function, nested function literals and composite literals expanded
func fullText(fd *ast.FuncDecl) string {
	var parts []string
	ast.Inspect(fd.Body, func(n ast.Node) bool {
		switch x := n.(type) {
		case *ast.ReturnStmt:
			parts = append(parts, stmtText([]ast.Stmt{x}))
		case *ast.CallExpr:
			parts = append(parts, src(x))
		}
		return true
	})
	return strings.Join(parts, " | ")
}
