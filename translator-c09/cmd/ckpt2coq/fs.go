package main

import (
	"fmt"
	"go/ast"
	"go/token"
	"path/filepath"
	"regexp"
	"sort"
	"strings"
)

// ---------- main-path skeleton ----------

type ev struct {
	kind     string // chk | op | call | loop | if | ret | defer
	helper   string // op: Coq constructor of the helper
	arg      ast.Expr
	argText  string
	fn       string // call: key of the callee in the table
	call     *ast.CallExpr
	returned bool // chk / call: its error is returned to the caller
	cond     string
	then     []ev
	els      []ev
	body     []ev
	rng      string
	what     string
	pos      token.Pos
}

var helpers = map[string]string{
	"Lstat": "HLstat", "LstatIfPossible": "HLstat", "Stat": "HStat", "StatTimes": "HStat", "GetFileSize": "HStat",
	"Exists": "HExists", "IsDir": "HIsDir", "IsFile": "HIsFile", "IsLink": "HIsFile", "IsEmpty": "HIsEmpty",
	"Ls": "HLs", "LsWithExclusionPatterns": "HLs", "Lls": "HLs", "LsFromOpenedDirectory": "HReadDir", "LlsFromOpenedDirectory": "HReadDir",
	"GenericOpen": "HOpen", "Open": "HOpen", "Readlink": "HOtherRead", "FetchOwners": "HStat",
	"MkDir": "HMkDir", "MkDirAll": "HMkDir", "MkdirAll": "HMkDir", "Mkdir": "HMkDir",
	"Remove": "HRemove", "RemoveAll": "HRemove", "ForceRemoveIfPossible": "HRemove", "Rm": "HRemove",
	"Rename": "HRename", "CreateFile": "HCreate", "OpenFile": "HCreate", "Create": "HCreate",
	"Chmod": "HChmod", "Chown": "HChown", "ChangeOwnership": "HChown", "ChownIfPossible": "HChown", "Chtimes": "HChtimes",
	"Touch": "HOtherMut", "WriteFile": "HWrite", "Symlink": "HOtherMut", "Link": "HOtherMut",
	"isZipWithContext": "HOtherRead", "IsZip": "HOtherRead",
}

var fsReceivers = map[string]bool{"fs": true, "srcFs": true, "destFs": true, "fs.vfs": true, "correctobj": true}

// calls that touch neither the context nor the back end
var pureCall = regexp.MustCompile(`^(filepath\.|fmt\.|strings\.|commonerrors\.|time\.|os\.|user\.|strconv\.|reflection\.|atomic\.|math\.|safecast\.|charset\.|utf8\.|unicode\.|collection\.|platform\.|regexp\.|zip\.FileInfoHeader|len$|append$|string$|int64$|uint64$|make$|new$|` +
	`GetGlobalFileSystem$|sanitiseConvertedZipExtractPath$|bytes\.|int$|checkPathIsNotEmpty$|\w*[eE]rr\w*\.Error$|http\.|NewExclusionRegexList$|IsPathExcluded|ExcludeFiles$|FileTreeDepth$|ConvertFileSystemError$|convertZipError$|IsSymLink$|IsPathNotExist$|EndsWithPathSeparator$|isPathWithin$|` +
	`IsRegularFile$|IsDirectory$|DetermineFileTimes$|newDefaultTimeInfo$|determineUnzippedFilepath$|sanitiseZipExtractPath$|FilepathStem$|NoLimits$|NewFileHash$|determineFileOwners$|` +
	`fs\.checkWhetherUnderlyingResourceIsClosed$|fs\.PathSeparator$|destFs\.PathSeparator$|srcFs\.PathSeparator$|fs\.ConvertFilePath$|fs\.pathConverter$|` +
	`limits\.|info\.|fileInfo\.|fi\.|dirInfo\.|stat\.|times\.|zippedFile\.(FileInfo|Mode)$|zippedFile\.FileInfo\(\)\.|fileCounter\.|totalSizeOnDisk\.|owner\.|file\.(Name|IsDir)$|dir\.Name$|currentUser\.|header\.|` +
	`dest\.|f\.Name$)`)

type extractor struct {
	fns       map[string]*fnInfo
	callbacks map[string]bool // names of func-typed parameters / local function literals in the current function
	cur       string
	literals  map[string][]ev // local function literals: name -> skeleton
}

func (x *extractor) calleeKey(call *ast.CallExpr) string {
	switch f := call.Fun.(type) {
	case *ast.Ident:
		if fi, ok := x.fns[f.Name]; ok && fi.ctx {
			return f.Name
		}
	case *ast.SelectorExpr:
		r := src(f.X)
		if r == "fs" || r == "srcFs" || r == "destFs" || r == "globalFileSystem" || r == "GetGlobalFileSystem()" {
			if fi, ok := x.fns["VFS."+f.Sel.Name]; ok && fi.ctx {
				return "VFS." + f.Sel.Name
			}
		}
		if r == "hasher" && f.Sel.Name == "CalculateFileWithContext" {
			return ""
		}
	}
	return ""
}

// classify returns the events of the calls inside an expression, inner calls first
func (x *extractor) calls(n ast.Node) []ev {
	var out []ev
	if n == nil {
		return nil
	}
	var visit func(e ast.Node)
	visit = func(e ast.Node) {
		switch c := e.(type) {
		case *ast.FuncLit:
			return // handled where it is bound
		case *ast.CallExpr:
			for _, a := range c.Args {
				visit(a)
			}
			if sel, ok := c.Fun.(*ast.SelectorExpr); ok {
				visit(sel.X)
			}
			out = append(out, x.classify(c)...)
			return
		}
		// generic descent
		ast.Inspect(e, func(m ast.Node) bool {
			if m == e {
				return true
			}
			switch m.(type) {
			case *ast.CallExpr, *ast.FuncLit:
				visit(m)
				return false
			}
			return true
		})
	}
	visit(n)
	return out
}

func (x *extractor) classify(c *ast.CallExpr) []ev {
	fun := src(c.Fun)
	if fun == "parallelisation.DetermineContextError" {
		return []ev{{kind: "chk", pos: c.Pos(), call: c}}
	}
	if k := x.calleeKey(c); k != "" {
		return []ev{{kind: "call", fn: k, call: c, pos: c.Pos()}}
	}
	if strings.HasPrefix(fun, "safeio.") {
		switch fun {
		case "safeio.CopyDataWithContext", "safeio.CopyNWithContext", "safeio.ReadAtMost", "safeio.ReadAll":
			return []ev{{kind: "op", helper: "HCopyStream", argText: fun, pos: c.Pos()}}
		}
		die(c.Pos(), "%s: unknown safeio call %s", x.cur, fun)
	}
	if fun == "parallelisation.Parallelise" {
		return nil // handled by the statement walker
	}
	if id, ok := c.Fun.(*ast.Ident); ok && x.callbacks[id.Name] {
		return []ev{{kind: "op", helper: "HCallback", argText: id.Name, pos: c.Pos()}}
	}
	if sel, ok := c.Fun.(*ast.SelectorExpr); ok {
		r := src(sel.X)
		m := sel.Sel.Name
		if m == "Close" {
			return []ev{{kind: "op", helper: "HClose", argText: r, pos: c.Pos()}}
		}
		if fsReceivers[r] {
			if pureCall.MatchString(fun) {
				return nil
			}
			if h, ok := helpers[m]; ok {
				e := ev{kind: "op", helper: h, pos: c.Pos()}
				if len(c.Args) > 0 {
					e.arg, e.argText = c.Args[0], src(c.Args[0])
				}
				return []ev{e}
			}
			// non-context VFS methods that only delegate are not expected on these paths
			die(c.Pos(), "%s: unknown filesystem call %s", x.cur, fun)
		}
		switch fun {
		case "afero.ReadDir":
			return []ev{{kind: "op", helper: "HReadDir", arg: c.Args[1], argText: src(c.Args[1]), pos: c.Pos()}}
		case "file.Stat", "f.Stat":
			return []ev{{kind: "op", helper: "HStat", argText: r, pos: c.Pos()}}
		case "dir.Readdirnames", "dir.Readdir", "f.Readdirnames":
			return []ev{{kind: "op", helper: "HReadDir", argText: r, pos: c.Pos()}}
		case "w.CreateHeader", "zip.NewWriter", "w.Close":
			return []ev{{kind: "op", helper: "HWrite", argText: "archive", pos: c.Pos()}}
		case "zip.NewReader", "zippedFile.Open", "sourceFile.Close", "io.CopyN":
			return []ev{{kind: "op", helper: "HOtherRead", argText: "archive", pos: c.Pos()}}
		case "hasher.CalculateFileWithContext", "h.CalculateWithContext", "h.calculateFile":
			return []ev{{kind: "op", helper: "HCopyStream", argText: fun, pos: c.Pos()}}
		}
	}
	if id, ok := c.Fun.(*ast.Ident); ok {
		switch id.Name {
		case "LsWithExclusionPatterns":
			return []ev{{kind: "op", helper: "HLs", arg: c.Args[1], argText: src(c.Args[1]), pos: c.Pos()}}
		case "newZipReader":
			return []ev{{kind: "op", helper: "HOpen", arg: c.Args[1], argText: src(c.Args[1]), pos: c.Pos()}}
		case "preserveDirectoriesTimestamps":
		}
	}
	if pureCall.MatchString(fun) {
		return nil
	}
	die(c.Pos(), "%s: call %s is neither a known helper, a context-accepting function nor a known pure function", x.cur, src(c))
	return nil
}

var errTest = regexp.MustCompile(`^(\w*[eE]rr\w*) != nil$`)

// errorOnly: the condition only holds when an earlier call failed
func errorOnly(cond ast.Expr) (string, bool) {
	c := src(cond)
	if m := errTest.FindStringSubmatch(c); m != nil {
		return m[1], true
	}
	if be, ok := cond.(*ast.BinaryExpr); ok && be.Op == token.LAND {
		if v, ok := errorOnly(be.X); ok {
			return v, true
		}
	}
	if strings.HasPrefix(c, "commonerrors.Any(err,") && !strings.Contains(c, "nil") {
		return "err", true
	}
	return "", false
}

func containsReturnOf(l []ast.Stmt, v string) bool {
	found := false
	for _, s := range l {
		ast.Inspect(s, func(n ast.Node) bool {
			if r, ok := n.(*ast.ReturnStmt); ok {
				if len(r.Results) == 0 {
					found = found || v == "err"
				}
				for _, e := range r.Results {
					if src(e) == v {
						found = true
					}
				}
				// `err = subErr; return` / `return ..., subErr` / wrapping of the variable
				for _, e := range r.Results {
					if strings.Contains(src(e), v) {
						found = true
					}
				}
			}
			return true
		})
		if as, ok := s.(*ast.AssignStmt); ok && len(as.Lhs) == 1 && src(as.Lhs[0]) == "err" && strings.Contains(src(as.Rhs[0]), v) {
			// err = subErr (a return follows)
			for _, t := range l {
				if _, ok := t.(*ast.ReturnStmt); ok {
					found = true
				}
			}
		}
	}
	return found
}

func mentions(n ast.Node, name string) bool {
	found := false
	ast.Inspect(n, func(m ast.Node) bool {
		if id, ok := m.(*ast.Ident); ok && id.Name == name {
			found = true
		}
		return !found
	})
	return found
}

// the variable occurs in the statement, but is never assigned there
func mentionsOnlyInCond(n *ast.IfStmt, name string) bool {
	assigned := false
	ast.Inspect(n, func(m ast.Node) bool {
		if as, ok := m.(*ast.AssignStmt); ok {
			for _, l := range as.Lhs {
				if src(l) == name {
					assigned = true
				}
			}
		}
		return true
	})
	return !assigned
}

// errVarOf: the variable that receives the error of the call in this statement
func errVarOf(s ast.Stmt) string {
	switch a := s.(type) {
	case *ast.AssignStmt:
		last := src(a.Lhs[len(a.Lhs)-1])
		return last
	}
	return ""
}

// walk converts a statement list; after = the statement following the enclosing block (for "returned" detection)
func (x *extractor) walk(list []ast.Stmt, after []ast.Stmt, namedErr bool) []ev {
	var out []ev
	for i, s := range list {
		tail := append(append([]ast.Stmt{}, list[i+1:]...), after...)
		var next ast.Stmt
		if len(tail) > 0 {
			next = tail[0]
		}
		_ = next
		returnedVia := func(v string, self ast.Stmt) bool {
			if _, ok := self.(*ast.ReturnStmt); ok {
				return true
			}
			if v == "_" || v == "" {
				return false
			}
			for _, t := range tail {
				switch n := t.(type) {
				case *ast.IfStmt:
					if n.Init == nil {
						if strings.HasPrefix(src(n.Cond), "commonerrors.Any("+v+",filepath.SkipDir") {
							continue // SkipDir is not an error for the caller of a walk
						}
						if ev, ok := errorOnly(n.Cond); ok && ev == v {
							return containsReturnOf(n.Body.List, v)
						}
						c := src(n.Cond)
						if strings.Contains(c, v+" != nil") || strings.Contains(c, v+" == nil") {
							// e.g. `if empty || err != nil { return }`, `if err == nil { return }` followed by the failure path
							return namedErr && v == "err" || containsReturnOf(n.Body.List, v)
						}
					}
					if mentions(n, v) && !mentionsOnlyInCond(n, v) {
						// the variable is assigned inside: its old value is lost unless it was tested before
						return false
					}
				case *ast.AssignStmt:
					if len(n.Lhs) == 1 && src(n.Lhs[0]) == v {
						if len(n.Rhs) == 1 {
							if c, ok := n.Rhs[0].(*ast.CallExpr); ok && (src(c.Fun) == "ConvertFileSystemError" || src(c.Fun) == "convertZipError") && len(c.Args) == 1 && src(c.Args[0]) == v {
								continue // the same error, normalised
							}
						}
						return false
					}
					for _, l := range n.Lhs {
						if src(l) == v {
							return false
						}
					}
				case *ast.ReturnStmt:
					if len(n.Results) == 0 {
						return v == "err" && namedErr
					}
					for _, e := range n.Results {
						if strings.Contains(src(e), v) {
							return true
						}
					}
					return false
				}
			}
			return v == "err" && namedErr // the named result is what the function returns at its end
		}
		mark := func(evs []ev, v string, self ast.Stmt) []ev {
			for j := range evs {
				if evs[j].kind == "chk" || evs[j].kind == "call" {
					evs[j].returned = returnedVia(v, self)
				}
			}
			return evs
		}
		switch st := s.(type) {
		case *ast.AssignStmt:
			// local function literals
			if len(st.Rhs) == 1 {
				if fl, ok := st.Rhs[0].(*ast.FuncLit); ok {
					name := src(st.Lhs[0])
					x.callbacks[name] = false
					x.literals[name] = x.walk(fl.Body.List, nil, false)
					continue
				}
			}
			if len(st.Rhs) == 1 {
				if c, ok := st.Rhs[0].(*ast.CallExpr); ok && src(c.Fun) == "parallelisation.Parallelise" {
					out = append(out, x.parallel(c)...)
					continue
				}
			}
			var evs []ev
			for _, r := range st.Rhs {
				evs = append(evs, x.calls(r)...)
			}
			out = append(out, mark(evs, errVarOf(st), st)...)
		case *ast.ExprStmt:
			if c, ok := st.X.(*ast.CallExpr); ok && src(c.Fun) == "parallelisation.Parallelise" {
				out = append(out, x.parallel(c)...)
				continue
			}
			out = append(out, mark(x.calls(st.X), "_", st)...)
		case *ast.DeclStmt:
			out = append(out, x.calls(st)...)
		case *ast.IncDecStmt, *ast.BranchStmt, *ast.EmptyStmt:
		case *ast.ReturnStmt:
			var evs []ev
			for _, r := range st.Results {
				evs = append(evs, x.calls(r)...)
			}
			out = append(out, mark(evs, "", st)...)
			what := "bare"
			if len(st.Results) > 0 {
				what = src(st.Results[len(st.Results)-1])
				if strings.Contains(what, "(") {
					what = "call"
				}
			}
			out = append(out, ev{kind: "ret", what: what, pos: st.Pos()})
		case *ast.DeferStmt:
			t := src(st.Call)
			if fl, ok := st.Call.Fun.(*ast.FuncLit); ok {
				t = stmtText(fl.Body.List)
				inner := x.walk(fl.Body.List, nil, false)
				for _, e := range inner {
					if e.kind != "op" || e.helper != "HClose" {
						if e.kind == "if" {
							continue
						}
						die(st.Pos(), "%s: deferred %s", x.cur, t)
					}
				}
			}
			out = append(out, ev{kind: "defer", what: t, pos: st.Pos()})
		case *ast.IfStmt:
			if st.Init != nil {
				if as, ok := st.Init.(*ast.AssignStmt); ok {
					var evs []ev
					for _, r := range as.Rhs {
						evs = append(evs, x.calls(r)...)
					}
					// the error of a call in the init clause is returned when the body returns it
					v := errVarOf(as)
					for j := range evs {
						if evs[j].kind == "chk" || evs[j].kind == "call" {
							evs[j].returned = containsReturnOf(st.Body.List, v)
						}
					}
					out = append(out, evs...)
				} else {
					die(st.Pos(), "%s: if with init %T", x.cur, st.Init)
				}
			}
			condEvs := x.calls(st.Cond)
			for j := range condEvs {
				if condEvs[j].kind == "chk" || condEvs[j].kind == "call" {
					condEvs[j].returned = false
				}
			}
			out = append(out, condEvs...)
			if _, ok := errorOnly(st.Cond); ok {
				// failure path: not part of the main path; the success path continues in the else branch (if any)
				x.scanOnly(st.Body.List)
				switch e := st.Else.(type) {
				case nil:
				case *ast.BlockStmt:
					out = append(out, x.walk(e.List, tail, namedErr)...)
				case *ast.IfStmt:
					out = append(out, x.walk([]ast.Stmt{e}, tail, namedErr)...)
				}
				continue
			}
			e := ev{kind: "if", cond: src(st.Cond), pos: st.Pos()}
			e.then = x.walk(st.Body.List, tail, namedErr)
			switch el := st.Else.(type) {
			case nil:
			case *ast.BlockStmt:
				e.els = x.walk(el.List, tail, namedErr)
			case *ast.IfStmt:
				e.els = x.walk([]ast.Stmt{el}, tail, namedErr)
			}
			out = append(out, e)
		case *ast.RangeStmt:
			out = append(out, ev{kind: "loop", rng: src(st.X), body: x.walk(st.Body.List, nil, namedErr), pos: st.Pos()})
		case *ast.ForStmt:
			out = append(out, ev{kind: "loop", rng: "for", body: x.walk(st.Body.List, nil, namedErr), pos: st.Pos()})
		case *ast.BlockStmt:
			out = append(out, x.walk(st.List, tail, namedErr)...)
		default:
			if len(x.calls(s)) > 0 {
				die(s.Pos(), "%s: statement %T touching the context or the filesystem", x.cur, s)
			}
		}
	}
	return out
}

// scanOnly: a failure branch must still consist of known shapes
func (x *extractor) scanOnly(l []ast.Stmt) {
	for _, s := range l {
		x.calls(s)
	}
}

// parallelisation.Parallelise(list, func(arg) (interface{}, error) { ... }, nil): a loop whose iterations run concurrently
func (x *extractor) parallel(c *ast.CallExpr) []ev {
	fl, ok := c.Args[1].(*ast.FuncLit)
	if !ok {
		die(c.Pos(), "%s: Parallelise without a function literal", x.cur)
	}
	return []ev{{kind: "loop", rng: "parallel:" + src(c.Args[0]), body: x.walk(fl.Body.List, nil, false), pos: c.Pos()}}
}

func (x *extractor) skeleton(fi *fnInfo) []ev {
	x.cur = fi.name
	x.callbacks = map[string]bool{}
	x.literals = map[string][]ev{}
	named := false
	if fi.decl.Type.Results != nil {
		for _, r := range fi.decl.Type.Results.List {
			for _, n := range r.Names {
				if n.Name == "err" {
					named = true
				}
			}
		}
	}
	for _, p := range fi.decl.Type.Params.List {
		if t := src(p.Type); t == "filepath.WalkFunc" {
			for _, n := range p.Names {
				x.callbacks[n.Name] = true
			}
		}
	}
	return x.walk(fi.decl.Body.List, nil, named)
}

// ---------- derived facts ----------

type scanRes struct {
	before  []string
	reached bool // every path has met a context test (or ended)
}

func (x *extractor) scan(evs []ev, sk map[string][]ev, depth int) scanRes {
	var r scanRes
	for _, e := range evs {
		switch e.kind {
		case "chk":
			r.reached = true
			return r
		case "op":
			if e.helper == "HCopyStream" {
				// tests the context itself before touching a stream
				r.reached = true
				return r
			}
			r.before = append(r.before, e.helper)
		case "call":
			if depth > 12 {
				die(e.pos, "call chain too deep at %s", e.fn)
			}
			s := x.scan(sk[e.fn], sk, depth+1)
			r.before = append(r.before, s.before...)
			if s.reached {
				r.reached = true
				return r
			}
		case "if":
			a := x.scan(e.then, sk, depth)
			b := x.scan(e.els, sk, depth)
			r.before = append(r.before, a.before...)
			r.before = append(r.before, b.before...)
			if a.reached && b.reached {
				r.reached = true
				return r
			}
		case "loop":
			a := x.scan(e.body, sk, depth)
			r.before = append(r.before, a.before...)
		case "ret":
			r.reached = true
			return r
		}
	}
	return r
}

func (x *extractor) returnsError(fn string) bool {
	fi := x.fns[fn]
	if fi == nil || fi.decl.Type.Results == nil {
		return false
	}
	for _, r := range fi.decl.Type.Results.List {
		if src(r.Type) == "error" {
			return true
		}
	}
	return false
}

func (x *extractor) errorsReturned(evs []ev) bool {
	ok := true
	for _, e := range evs {
		switch e.kind {
		case "chk":
			ok = ok && e.returned
		case "call":
			if x.returnsError(e.fn) {
				ok = ok && e.returned
			}
		case "if":
			ok = ok && x.errorsReturned(e.then) && x.errorsReturned(e.els)
		}
	}
	return ok
}

func hasBackend(evs []ev) bool {
	for _, e := range evs {
		switch e.kind {
		case "op", "call":
			return true
		case "if":
			if hasBackend(e.then) || hasBackend(e.els) {
				return true
			}
		}
	}
	return false
}

func flat(evs []ev, out *[]string) {
	for _, e := range evs {
		switch e.kind {
		case "chk":
			if !e.returned {
				*out = append(*out, "SkCall "+cstr("DetermineContextError")+" false")
			} else {
				*out = append(*out, "SkChk")
			}
		case "op":
			*out = append(*out, "SkOp "+e.helper+" "+cstr(e.argText))
		case "call":
			*out = append(*out, "SkCall "+cstr(e.fn)+" "+coqBool(e.returned))
		case "loop":
			*out = append(*out, "SkLoop")
			flat(e.body, out)
			*out = append(*out, "SkEndLoop")
		case "if":
			*out = append(*out, "SkIf "+cstr(e.cond))
			flat(e.then, out)
			if len(e.els) > 0 {
				*out = append(*out, "SkElse")
				flat(e.els, out)
			}
			*out = append(*out, "SkEndIf")
		case "defer":
			*out = append(*out, "SkDefer "+cstr(e.what))
		case "ret":
			*out = append(*out, "SkRet "+cstr(e.what))
		}
	}
}

func fsFacts(b *strings.Builder, repo string) {
	ff := parse(filepath.Join(repo, "utils/filesystem/files.go"))
	zf := parse(filepath.Join(repo, "utils/filesystem/zip.go"))
	fns := collect(ff, zf)
	x := &extractor{fns: fns}
	sk := map[string][]ev{}
	var ctxFns []string
	for _, n := range names(fns) {
		if fns[n].ctx {
			ctxFns = append(ctxFns, n)
			sk[n] = x.skeleton(fns[n])
		}
	}
	readFileContentFacts(b, fns["VFS.ReadFileContent"])
	// (a) preludes
	fmt.Fprintf(b, "(* filesystem/files.go, zip.go: per context-accepting function, the backend helpers reached before the first context test *)\n")
	fmt.Fprintf(b, "Definition gen_preludes : list prelude := [\n")
	for i, n := range ctxFns {
		r := x.scan(sk[n], sk, 0)
		sep := ";"
		if i == len(ctxFns)-1 {
			sep = ""
		}
		fmt.Fprintf(b, "  mkPrelude %s [%s] %s%s\n", cstr(n), strings.Join(r.before, "; "), coqBool(r.reached), sep)
	}
	fmt.Fprintf(b, "].\n\n")
	// (b) loops
	type lf struct{ fn, rng string; dom, ret bool }
	var loops []lf
	var findLoops func(fn string, evs []ev)
	findLoops = func(fn string, evs []ev) {
		for _, e := range evs {
			switch e.kind {
			case "loop":
				r := x.scan(e.body, sk, 0)
				dom := len(r.before) == 0 && (r.reached || !hasBackend(e.body))
				loops = append(loops, lf{fn, e.rng, dom, x.errorsReturned(e.body)})
				findLoops(fn, e.body)
			case "if":
				findLoops(fn, e.then)
				findLoops(fn, e.els)
			}
		}
	}
	for _, n := range ctxFns {
		findLoops(n, sk[n])
	}
	sort.SliceStable(loops, func(i, j int) bool { return loops[i].fn < loops[j].fn })
	fmt.Fprintf(b, "(* per loop over entries: a context test dominates the iteration's backend operations; the iteration's errors are returned *)\n")
	fmt.Fprintf(b, "Definition gen_loops : list loopfact := [\n")
	for i, l := range loops {
		sep := ";"
		if i == len(loops)-1 {
			sep = ""
		}
		fmt.Fprintf(b, "  mkLoop %s %s %s %s%s\n", cstr(l.fn), cstr(l.rng), coqBool(l.dom), coqBool(l.ret), sep)
	}
	fmt.Fprintf(b, "].\n\n")
	// (c) IR programs of the walk / listing / removal families
	irPrograms(b, x, sk)
	// (d) skeletons of the copy and move functions
	fmt.Fprintf(b, "(* skeletons (main path, source order) of the copy and move functions *)\n")
	for _, n := range []string{"CopyBetweenFSWithExclusionPatterns", "CopyBetweenFSWithExclusionRegexes", "copyFolderBetweenFSWithExclusionRegexes",
		"copyFileBetweenFSWithExclusionPatternsWithExclusionRegexes", "VFS.MoveWithContext", "VFS.move", "VFS.moveFolder", "VFS.moveFile", "VFS.CopyToDirectoryWithContext",
		"VFS.RemoveWithPrivileges", "VFS.ReadFileContent"} {
		if _, ok := sk[n]; !ok {
			die(token.NoPos, "function %s not found", n)
		}
		var l []string
		flat(sk[n], &l)
		fmt.Fprintf(b, "Definition gen_sk_%s : list sk := [\n  %s\n].\n", strings.ReplaceAll(n, ".", "_"), strings.Join(l, ";\n  "))
	}
}

// ReadFileContent: where and how files larger than the limit are refused
func readFileContentFacts(b *strings.Builder, fi *fnInfo) {
	if fi == nil {
		die(token.NoPos, "VFS.ReadFileContent not found")
	}
	ctxBeforeStat, sawTest := false, false
	guard, needsApply, nesting, tooLarge := "", false, "None", false
	maxDefault, fromLimits, readsMax := "", false, false
	var statBlock *ast.IfStmt
	st := fi.decl.Body.List
	for i, s := range st {
		switch x := s.(type) {
		case *ast.AssignStmt:
			r := src(x.Rhs[0])
			switch {
			case r == "parallelisation.DetermineContextError(ctx)":
				sawTest = i+1 < len(st) && isErrReturn(st[i+1], src(x.Lhs[0]))
			case r == "file.Stat()":
				ctxBeforeStat = sawTest
				if i+1 < len(st) {
					if is, ok := st[i+1].(*ast.IfStmt); ok && src(is.Cond) == "err == nil" {
						statBlock = is
					}
				}
			case strings.HasPrefix(r, "safeio.ReadAtMost("):
				readsMax = r == "safeio.ReadAtMost(ctx,file,max,bufferCapacity)"
			}
		case *ast.DeclStmt:
			t := stmtDeclText(x)
			if strings.HasPrefix(t, "max int64 = ") {
				maxDefault = strings.TrimPrefix(t, "max int64 = ")
			}
		case *ast.IfStmt:
			if src(x.Cond) == "limits.Apply()" && stmtText(x.Body.List) == "max = limits.GetMaxFileSize()" {
				fromLimits = true
			}
		}
	}
	if statBlock == nil {
		die(fi.decl.Pos(), "ReadFileContent: `fi, err := file.Stat(); if err == nil {` not found")
	}
	var find func(l []ast.Stmt, nest string, depth int)
	find = func(l []ast.Stmt, nest string, depth int) {
		for _, s := range l {
			is, ok := s.(*ast.IfStmt)
			if !ok {
				continue
			}
			c := src(is.Cond)
			cond := is.Cond
			apply := false
			if be, ok := cond.(*ast.BinaryExpr); ok && be.Op == token.LAND && src(be.X) == "limits.Apply()" {
				apply = true
				cond = be.Y
			}
			if be, ok := cond.(*ast.BinaryExpr); ok && src(be.X) == "fileSize" && src(be.Y) == "max" {
				op, ok := cmpNames[be.Op]
				if !ok {
					die(is.Pos(), "ReadFileContent: size guard %s", c)
				}
				if guard != "" {
					die(is.Pos(), "ReadFileContent: two size guards")
				}
				guard, needsApply, nesting = op, apply, nest
				body := stmtText(is.Body.List)
				tooLarge = strings.Contains(body, "commonerrors.ErrTooLarge") && strings.HasSuffix(body, "return")
				continue
			}
			if be, ok := is.Cond.(*ast.BinaryExpr); ok && src(be.X) == "fileSize" {
				op, ok := cmpNames[be.Op]
				k := src(be.Y)
				if k == "1e9" {
					k = "1000000000"
				}
				if !ok || depth > 0 {
					die(is.Pos(), "ReadFileContent: condition %s", c)
				}
				for _, ch := range k {
					if ch < '0' || ch > '9' {
						die(is.Pos(), "ReadFileContent: threshold %s", k)
					}
				}
				find(is.Body.List, "(Some ("+op+", "+k+"))", depth+1)
				continue
			}
			die(is.Pos(), "ReadFileContent: condition %s in the Stat block", c)
		}
	}
	find(statBlock.Body.List, "None", 0)
	if guard == "" {
		die(statBlock.Pos(), "ReadFileContent: no `fileSize OP max` refusal")
	}
	fmt.Fprintf(b, "(* filesystem/files.go ReadFileContent *)\nDefinition gen_rfc : rfc_facts := {|\n  rfc_ctx_test_before_stat := %s;\n  rfc_guard := %s;\n  rfc_guard_needs_apply := %s;\n  rfc_guard_nesting := %s;\n  rfc_guard_returns_toolarge := %s;\n  rfc_max_default := %s;\n  rfc_max_from_limits_when_apply := %s;\n  rfc_reads_at_most_max := %s\n|}.\n\n",
		coqBool(ctxBeforeStat), guard, coqBool(needsApply), nesting, coqBool(tooLarge), zlit(maxDefault), coqBool(fromLimits), coqBool(readsMax))
}

func stmtDeclText(d *ast.DeclStmt) string {
	gd, ok := d.Decl.(*ast.GenDecl)
	if !ok || len(gd.Specs) != 1 {
		return ""
	}
	vs, ok := gd.Specs[0].(*ast.ValueSpec)
	if !ok || len(vs.Names) != 1 || len(vs.Values) != 1 {
		return ""
	}
	return vs.Names[0].Name + " " + src(vs.Type) + " = " + src(vs.Values[0])
}
