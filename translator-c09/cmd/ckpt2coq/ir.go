package main

import (
	"fmt"
	"go/ast"
	"go/token"
	"strings"
)

// ---------- IR programs of the walk / listing / removal families ----------
//
// The skeleton of a function is turned into a program over the entry it is applied to.  Values are tracked
// symbolically: Self (the entry the function works on), Entry (an entry of Self inside a loop), Other.

type sval int

const (
	vOther sval = iota
	vSelf
	vEntry
)

type irCtx struct {
	x        *extractor
	sk       map[string][]ev
	env      map[string]sval
	inLoop   bool
	cleaned  bool // a cleaning of Self has been issued: Self is empty from here on
	fn       string
	depth    int
	callback int // number of backend operations of the callback literal handed to a walk (-1: the caller's function)
}

var famRoots = map[string]string{"VFS.walk": "FWalk", "ListDirTreeWithContextAndExclusionPatterns": "FListTree", "VFS.removeWithExclusionPatterns": "FRemove"}

func (c *irCtx) eval(e ast.Expr) sval {
	switch v := e.(type) {
	case *ast.Ident:
		return c.env[v.Name]
	case *ast.CallExpr:
		if src(v.Fun) == "filepath.Join" && len(v.Args) >= 2 {
			base := c.eval(v.Args[0])
			if base == vSelf && strings.HasPrefix(src(v.Args[1]), "string(") {
				return vSelf // the path with a trailing separator
			}
			if base == vSelf {
				return vEntry
			}
		}
		if src(v.Fun) == "dir.Name" {
			return c.env["dir"]
		}
	}
	return vOther
}

// condition table: text -> (cnd when the THEN branch is taken)
func (c *irCtx) cond(e ev) string {
	t := e.cond
	switch {
	case t == "err != nil || !info.IsDir()":
		return "NOT CIsDir"
	case t == "subErr == nil && IsSymLink(info)", t == "lErr == nil && IsSymLink(info)", strings.HasPrefix(t, "IsPathExcluded"), t == `dir == ""`, t == `dir == "" || !fs.Exists(dir)`, t == "!fs.Exists(dir)", t == "list == nil", t == "limits == nil", t == "owner == nil":
		return "CFalse" // no links, no exclusion, existing paths, valid arguments on the modelled runs
	case t == "isDir && !isEmpty":
		if c.cleaned {
			return "CFalse" // nothing is excluded: the directory has just been emptied
		}
		return "CDirNonEmpty"
	case t == "empty || err != nil":
		return "CIsEmptyDir"
	case t == "isFile":
		return "CIsFile"
	case t == "isDir":
		return "CIsDir"
	case t == "commonerrors.Any(err,filepath.SkipDir)":
		return "CFalse"
	}
	die(e.pos, "%s: condition `%s` is not in the closed list of the IR families", c.fn, t)
	return ""
}

func endsWithRet(evs []ev) bool { return len(evs) > 0 && evs[len(evs)-1].kind == "ret" }

func seq(items []string) string { return "[" + strings.Join(items, "; ") + "]" }

func (c *irCtx) role(e ev) string {
	v := vOther
	if e.arg != nil {
		v = c.eval(e.arg)
	}
	switch {
	case !c.inLoop && v == vSelf, c.inLoop && v == vEntry:
		if e.helper == "HIsEmpty" && c.cleaned {
			return "RSelfEmptied"
		}
		return "RSelf"
	case e.helper == "HCallback":
		return "RSelf"
	}
	die(e.pos, "%s: %s applied to `%s`, which is neither the entry the function works on nor the entry of the loop", c.fn, e.helper, e.argText)
	return ""
}

// convert the main path; returns the items
func (c *irCtx) convert(evs []ev) []string {
	var out []string
	for i, e := range evs {
		switch e.kind {
		case "chk":
			if !e.returned {
				die(e.pos, "%s: a context test whose error is not returned", c.fn)
			}
			out = append(out, "IChk")
		case "op":
			if e.helper == "HClose" || e.helper == "HReadDir" {
				die(e.pos, "%s: %s in an IR family", c.fn, e.helper)
			}
			out = append(out, fmt.Sprintf("IOp %s %s", e.helper, c.role(e)))
		case "defer":
			die(e.pos, "%s: defer in an IR family", c.fn)
		case "ret":
			return out
		case "loop":
			if c.inLoop {
				die(e.pos, "%s: nested loop", c.fn)
			}
			sub := *c
			sub.inLoop = true
			sub.env = map[string]sval{}
			for k, v := range c.env {
				sub.env[k] = v
			}
			body := sub.convertLoopBody(e)
			out = append(out, "IFor "+seq(body))
		case "if":
			cn := c.cond(e)
			neg := strings.HasPrefix(cn, "NOT ")
			cn = strings.TrimPrefix(cn, "NOT ")
			th := c.convert(e.then)
			var rest []string
			thenRet, elseRet := endsWithRet(e.then), endsWithRet(e.els)
			el := c.convert(e.els)
			if thenRet && len(e.els) == 0 {
				// `if C { ...; return }; REST`  =  if C then ... else REST
				rest = c.convert(evs[i+1:])
				if neg {
					out = append(out, fmt.Sprintf("IIf %s %s %s", cn, seq(rest), seq(th)))
				} else {
					out = append(out, fmt.Sprintf("IIf %s %s %s", cn, seq(th), seq(rest)))
				}
				return out
			}
			if thenRet || elseRet {
				die(e.pos, "%s: return inside an if/else", c.fn)
			}
			if neg {
				th, el = el, th
			}
			if len(th) > 0 || len(el) > 0 {
				out = append(out, fmt.Sprintf("IIf %s %s %s", cn, seq(th), seq(el)))
			}
			if strings.Contains(strings.Join(th, " "), "(*cleaned*)") {
				c.cleaned = true
			}
		case "call":
			out = append(out, c.call(e)...)
		}
	}
	return out
}

func (c *irCtx) convertLoopBody(e ev) []string {
	// local definitions of the iteration: x := filepath.Join(self, ...)
	fi := c.x.fns[c.fn]
	ast.Inspect(fi.decl.Body, func(n ast.Node) bool {
		if as, ok := n.(*ast.AssignStmt); ok && as.Tok == token.DEFINE && len(as.Lhs) == 1 && len(as.Rhs) == 1 {
			if call, ok := as.Rhs[0].(*ast.CallExpr); ok && src(call.Fun) == "filepath.Join" && as.Pos() > e.pos {
				// evaluated in the OUTER environment: Join(self, name) is an entry of self
				outer := *c
				outer.inLoop = false
				if outer.eval(call) == vEntry {
					c.env[src(as.Lhs[0])] = vEntry
				}
			}
		}
		return true
	})
	return c.convert(e.body)
}

// a call to a context-accepting function
func (c *irCtx) call(e ev) []string {
	callee := c.x.fns[e.fn]
	if c.depth > 8 {
		die(e.pos, "%s: call chain too deep at %s", c.fn, e.fn)
	}
	// which argument is the entry the callee works on?  (first string parameter after ctx; removeFileWithContext: dir + f)
	params := []string{}
	for _, p := range callee.decl.Type.Params.List {
		for _, n := range p.Names {
			params = append(params, n.Name)
		}
	}
	args := e.call.Args
	if len(args) > len(params) {
		args = args[:len(params)]
	}
	sub := &irCtx{x: c.x, sk: c.sk, env: map[string]sval{}, inLoop: c.inLoop, fn: e.fn, depth: c.depth + 1, callback: c.callback}
	var selfVal sval = vOther
	selfFound := false
	for i, a := range args {
		v := c.eval(a)
		sub.env[params[i]] = v
		if v != vOther && !selfFound {
			selfVal, selfFound = v, true
		}
		if fl, ok := a.(*ast.FuncLit); ok {
			// callback literal: count its backend operations
			lit := c.x.walk(fl.Body.List, nil, false)
			n := 0
			for _, le := range lit {
				switch le.kind {
				case "op":
					n++
				case "call", "loop", "chk":
					die(fl.Pos(), "%s: callback literal with %s", c.fn, le.kind)
				}
			}
			sub.callback = n
		}
	}
	if !selfFound {
		die(e.pos, "%s: call of %s on a path that is neither the current entry nor one of its entries", c.fn, e.fn)
	}
	if fam, ok := famRoots[e.fn]; ok && ((c.inLoop && selfVal == vEntry) || (!c.inLoop && selfVal == vEntry)) {
		if !c.inLoop {
			die(e.pos, "%s: recursive call outside a loop", c.fn)
		}
		if e.returned {
			return []string{"ICallChild " + fam}
		}
		return []string{"ICallChildDropsError " + fam}
	}
	if !e.returned && c.x.returnsError(e.fn) {
		die(e.pos, "%s: the error of %s is dropped", c.fn, e.fn)
	}
	// same entry (or the loop's entry for a non-root helper such as removeFileWithContext): inline the callee
	if c.inLoop {
		// the callee works on the loop's entry: inside it, `Self` is that entry
		for k, v := range sub.env {
			if v == vEntry {
				sub.env[k] = vSelf // within the callee; Join(self, x) there would be a grand-child: refused by role()
			} else if v == vSelf {
				sub.env[k] = vOther
			}
		}
		// removeFileWithContext(ctx, dir, f): dir is the directory (Self of the caller), the entry is Join(dir, f)
		if e.fn == "VFS.removeFileWithContext" {
			sub.env["dir"] = vSelf
			inner := c.convertEntryCallee(sub, e)
			return inner
		}
		sub.inLoop = false
		items := sub.convert(c.sk[e.fn])
		return items
	}
	items := sub.convert(c.sk[e.fn])
	if e.fn == "VFS.CleanDirWithContextAndExclusionPatterns" {
		if len(items) > 0 {
			items[len(items)-1] += " (*cleaned*)"
		}
	}
	if sub.callback >= 0 && c.callback < 0 {
		c.callback = sub.callback
	}
	return items
}

// removeFileWithContext(ctx, dir, f) called from the loop of CleanDir: its body, where filepath.Join(dir, f) is the entry
func (c *irCtx) convertEntryCallee(sub *irCtx, e ev) []string {
	var out []string
	for _, ce := range c.sk[e.fn] {
		switch ce.kind {
		case "chk":
			if !ce.returned {
				die(ce.pos, "%s: a context test whose error is not returned", e.fn)
			}
			out = append(out, "IChk")
		case "call":
			fam, ok := famRoots[ce.fn]
			if !ok || sub.eval(ce.call.Args[1]) != vEntry {
				die(ce.pos, "%s: unexpected call %s", e.fn, ce.fn)
			}
			if ce.returned && e.returned {
				out = append(out, "ICallChild "+fam)
			} else {
				out = append(out, "ICallChildDropsError "+fam)
			}
		case "ret":
		default:
			die(ce.pos, "%s: unexpected %s", e.fn, ce.kind)
		}
	}
	return out
}

func irPrograms(b *strings.Builder, x *extractor, sk map[string][]ev) {
	prog := func(fn, self string, callback int) ([]string, int) {
		c := &irCtx{x: x, sk: sk, env: map[string]sval{self: vSelf}, fn: fn, callback: callback}
		items := c.convert(sk[fn])
		for i := range items {
			items[i] = strings.ReplaceAll(items[i], " (*cleaned*)", "")
		}
		return items, c.callback
	}
	emit := func(name string, items []string) {
		fmt.Fprintf(b, "Definition %s : list item := [\n  %s\n].\n", name, strings.Join(items, ";\n  "))
	}
	fmt.Fprintf(b, "(* IR programs: VFS.walk, ListDirTreeWithContextAndExclusionPatterns, VFS.removeWithExclusionPatterns (recursive bodies)\n   and the entry points built on them (same-entry calls inlined) *)\n")
	w, _ := prog("VFS.walk", "path", -1)
	emit("gen_walk_body", w)
	l, _ := prog("ListDirTreeWithContextAndExclusionPatterns", "dirPath", -1)
	emit("gen_listtree_body", l)
	r, _ := prog("VFS.removeWithExclusionPatterns", "dir", -1)
	emit("gen_remove_body", r)
	we, _ := prog("VFS.WalkWithContext", "root", -1)
	emit("gen_walk_entry", we)
	le, _ := prog("VFS.ListDirTreeWithContext", "dirPath", -1)
	emit("gen_listtree_entry", le)
	re, _ := prog("VFS.RemoveWithContext", "dir", -1)
	emit("gen_remove_entry", re)
	ce, _ := prog("VFS.CleanDirWithContext", "dir", -1)
	emit("gen_clean_entry", ce)
	for _, n := range []string{"ChmodRecursively", "ChownRecursively"} {
		it, cb := prog("VFS."+n, "path", -1)
		emit("gen_"+strings.ToLower(n[:5])+"_entry", it)
		fmt.Fprintf(b, "Definition gen_%s_callback_ops : nat := %d.\n", strings.ToLower(n[:5]), cb)
	}
	lr, _ := prog("VFS.LsRecursive", "dir", -1)
	emit("gen_lsrecursive_entry", lr)
	fmt.Fprintf(b, "\n")
}
