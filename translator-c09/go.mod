module verif/translatorc09

go 1.24.1
