// Package lsched is the cooperative scheduler used by the C01 harness (file lock).  It complements
// internal/shim: every contender of a scenario gets its own afero.Fs wrapper (so the caller of a backend
// operation is known), every state-reading or state-changing backend operation on the lock directory / the
// heartbeat file blocks until the scheduler releases it, and the scheduler is told when the operation has
// been executed and what it returned.  Stat results carry a fabricated ModTime decided by the scheduler
// (now minus the logical age given by the step), so that the age the library computes is an input of the
// schedule and not a function of the wall clock — while the library's own threshold arithmetic stays in play.
package lsched

import (
	"errors"
	"fmt"
	"sync/atomic"
	"io"
	"os"
	"runtime"
	"strconv"
	"strings"
	"sync"
	"syscall"
	"time"

	"github.com/spf13/afero"
)

// Actor identifies a thread of the scenario: HB < 0 is the API thread of contender C, HB = k its k-th
// heartbeat writer (k-th successful acquire of that lock object).
type Actor struct {
	C  int `json:"c"`
	HB int `json:"hb"`
}

func Main(c int) Actor { return Actor{C: c, HB: -1} }

// Pending is one backend operation blocked in the scheduler.
type Pending struct {
	Actor Actor
	Op    string // Mkdir Remove Stat Open Readdir OpenFile Chtimes
	Class string // "dir" (the lock directory) or "hb" (the heartbeat file)
	N     int    // Readdir count argument
	age   time.Duration // Stat: the ModTime presented is (now - age)
	StatAt time.Time    // Stat: the instant "now" used for the fabricated ModTime
	fault error          // read-side operations: injected backend fault (the operation is not executed)
	rel   chan struct{}
	Res   string // result class, filled when done
	done  chan struct{}
}

type Sched struct {
	mu      sync.Mutex
	cond    *sync.Cond
	DirPath string
	HbPath  string
	pend    map[Actor]*Pending
	hbOf    map[uint64]Actor
	hbCount map[int]int
	afterFree map[uint64]int
	free    bool
	gen     int // bumped on every state change, for waiters
	Panics  int64 // backend panics converted into errors
}

func New(dirPath, hbPath string) *Sched {
	s := &Sched{DirPath: dirPath, HbPath: hbPath, pend: map[Actor]*Pending{}, hbOf: map[uint64]Actor{}, hbCount: map[int]int{}, afterFree: map[uint64]int{}}
	s.cond = sync.NewCond(&s.mu)
	return s
}

func goid() uint64 {
	var buf [64]byte
	n := runtime.Stack(buf[:], false)
	f := strings.Fields(string(buf[:n]))
	if len(f) < 2 {
		return 0
	}
	id, _ := strconv.ParseUint(f[1], 10, 64)
	return id
}

// Free switches the scheduler to free running: every blocked and future operation passes.
func (s *Sched) Free() {
	s.mu.Lock()
	s.free = true
	for _, p := range s.pend {
		select {
		case <-p.rel:
		default:
			close(p.rel)
		}
	}
	s.gen++
	s.cond.Broadcast()
	s.mu.Unlock()
}

// Notify wakes the waiters (used by the harness when an API call returns).
func (s *Sched) Notify() {
	s.mu.Lock()
	s.gen++
	s.cond.Broadcast()
	s.mu.Unlock()
}

// HbStarted tells how many heartbeat writers of contender c have shown up so far.
func (s *Sched) HbStarted(c int) int {
	s.mu.Lock()
	defer s.mu.Unlock()
	return s.hbCount[c]
}

// Peek returns the operation actor a is blocked at (nil if it is not blocked).
func (s *Sched) Peek(a Actor) *Pending {
	s.mu.Lock()
	defer s.mu.Unlock()
	return s.pend[a]
}

// WaitPending waits until actor a is blocked at an operation, or alt() holds (evaluated under the
// scheduler's lock; alt may be nil), or the timeout expires.  Returns the pending operation (nil if alt held
// or the timeout expired) and whether the wait ended for a reason other than the timeout.
func (s *Sched) WaitPending(a Actor, alt func() bool, timeout time.Duration) (*Pending, bool) {
	deadline := time.Now().Add(timeout)
	stop := make(chan struct{})
	defer close(stop)
	go func() {
		t := time.NewTicker(20 * time.Millisecond)
		defer t.Stop()
		for {
			select {
			case <-stop:
				return
			case <-t.C:
				s.mu.Lock()
				s.cond.Broadcast()
				s.mu.Unlock()
			}
		}
	}()
	s.mu.Lock()
	defer s.mu.Unlock()
	for {
		if p := s.pend[a]; p != nil {
			return p, true
		}
		if alt != nil && alt() {
			return nil, true
		}
		if time.Now().After(deadline) {
			return nil, false
		}
		s.cond.Wait()
	}
}

// Release lets the pending operation run (a Stat presents a ModTime that is age old: the logical clock of the
// scenario) and waits until it has been executed; returns its result class.
func (s *Sched) Release(p *Pending, age time.Duration) string { return s.ReleaseFault(p, age, nil) }

// ReleaseFault is Release with a backend fault: a Stat / Lstat / Open / Readdirnames is not executed and returns fault.
func (s *Sched) ReleaseFault(p *Pending, age time.Duration, fault error) string {
	s.mu.Lock()
	p.age = age
	p.fault = fault
	delete(s.pend, p.Actor)
	select {
	case <-p.rel:
	default:
		close(p.rel)
	}
	s.mu.Unlock()
	<-p.done
	return p.Res
}

func (s *Sched) enter(c int, op, path string, n int) *Pending {
	class := ""
	switch path {
	case s.DirPath:
		class = "dir"
	case s.HbPath:
		class = "hb"
	default:
		return nil // not a path of the lock: not scheduled
	}
	s.mu.Lock()
	if s.free {
		// after the end of the scenario a heartbeat writer has at most one iteration left (its context is cancelled);
		// one that keeps coming back (a writer that ignores its context) is parked for good instead of spinning
		if class == "hb" && (op == "OpenFile" || op == "Chtimes") {
			g := goid()
			s.afterFree[g]++
			if s.afterFree[g] > 6 {
				s.mu.Unlock()
				select {}
			}
		}
		s.mu.Unlock()
		return nil
	}
	a := Main(c)
	if class == "hb" && (op == "OpenFile" || op == "Chtimes") {
		g := goid()
		if known, ok := s.hbOf[g]; ok {
			a = known
		} else {
			a = Actor{C: c, HB: s.hbCount[c]}
			s.hbCount[c]++
			s.hbOf[g] = a
		}
	}
	p := &Pending{Actor: a, Op: op, Class: class, N: n, rel: make(chan struct{}), done: make(chan struct{})}
	s.pend[a] = p
	s.gen++
	s.cond.Broadcast()
	s.mu.Unlock()
	<-p.rel
	return p
}

func (s *Sched) leave(p *Pending, res string) {
	if p == nil {
		return
	}
	p.Res = res
	close(p.done)
}

// ErrClass projects an error of the backend to the class the model knows.
func ErrClass(err error) string {
	switch {
	case err == nil:
		return "ok"
	case errors.Is(err, io.EOF):
		return "eof"
	case errors.Is(err, syscall.ENOTEMPTY):
		return "notempty"
	case errors.Is(err, os.ErrNotExist) || errors.Is(err, afero.ErrFileNotFound):
		return "notexist"
	case errors.Is(err, os.ErrExist) || errors.Is(err, afero.ErrFileExists) || errors.Is(err, afero.ErrDestinationExists):
		return "exist"
	case errors.Is(err, syscall.ENOTEMPTY):
		return "notempty"
	}
	return "other"
}

// Fs is the per-contender wrapper.
type Fs struct {
	afero.Fs
	S *Sched
	c atomic.Int32 // the API thread currently using the lock object built on this wrapper (several may share one object)
}

func (s *Sched) Wrap(inner afero.Fs, c int) *Fs {
	f := &Fs{Fs: inner, S: s}
	f.c.Store(int32(c))
	return f
}

// SetActor names the API thread whose call is about to run on the lock object of this wrapper.
func (f *Fs) SetActor(c int) { f.c.Store(int32(c)) }
func (f *Fs) actor() int     { return int(f.c.Load()) }

func (f *Fs) Name() string { return "lsched(" + f.Fs.Name() + ")" }

func (f *Fs) Mkdir(name string, perm os.FileMode) error {
	p := f.S.enter(f.actor(), "Mkdir", name, 0)
	err := f.Fs.Mkdir(name, perm)
	f.S.leave(p, ErrClass(err))
	return err
}

func (f *Fs) Remove(name string) (err error) {
	p := f.S.enter(f.actor(), "Remove", name, 0)
	func() {
		// afero's MemMapFs panics ("parent of ... is nil") when an entry whose directory has already been removed is
		// removed; the harness turns that into an error of the operation instead of dying
		defer func() {
			if r := recover(); r != nil {
				err = fmt.Errorf("backend panic: %v", r)
				atomic.AddInt64(&f.S.Panics, 1)
			}
		}()
		err = f.Fs.Remove(name)
	}()
	f.S.leave(p, ErrClass(err))
	return err
}

func (f *Fs) Chtimes(name string, atime, mtime time.Time) error {
	p := f.S.enter(f.actor(), "Chtimes", name, 0)
	err := f.Fs.Chtimes(name, atime, mtime)
	f.S.leave(p, ErrClass(err))
	return err
}

type info struct {
	os.FileInfo
	mt time.Time
}

func (i *info) ModTime() time.Time { return i.mt }

// Sys is nil so that filesystem.DetermineFileTimes takes ModTime() and not the times of the underlying stat_t.
func (i *info) Sys() any { return nil }

func (f *Fs) Stat(name string) (os.FileInfo, error) {
	p := f.S.enter(f.actor(), "Stat", name, 0)
	if p != nil && p.fault != nil {
		err := &os.PathError{Op: "stat", Path: name, Err: p.fault}
		f.S.leave(p, ErrClass(err))
		return nil, err
	}
	fi, err := f.Fs.Stat(name)
	res := ErrClass(err)
	if err == nil && fi != nil {
		if fi.IsDir() {
			res = "isdir"
		} else {
			res = "isfile"
		}
		if p != nil {
			p.StatAt = time.Now()
			fi = &info{FileInfo: fi, mt: p.StatAt.Add(-p.age)}
		}
	}
	f.S.leave(p, res)
	return fi, err
}

// LstatIfPossible makes the wrapper an afero.Lstater (filesystem.VFS.Lstat goes through it).
func (f *Fs) LstatIfPossible(name string) (os.FileInfo, bool, error) {
	p := f.S.enter(f.actor(), "Lstat", name, 0)
	if p != nil && p.fault != nil {
		err := &os.PathError{Op: "lstat", Path: name, Err: p.fault}
		f.S.leave(p, ErrClass(err))
		return nil, false, err
	}
	var fi os.FileInfo
	var ok bool
	var err error
	if l, has := f.Fs.(afero.Lstater); has {
		fi, ok, err = l.LstatIfPossible(name)
	} else {
		fi, err = f.Fs.Stat(name)
	}
	res := ErrClass(err)
	if err == nil && fi != nil {
		if fi.IsDir() {
			res = "isdir"
		} else {
			res = "isfile"
		}
	}
	f.S.leave(p, res)
	return fi, ok, err
}

func (f *Fs) Open(name string) (afero.File, error) {
	p := f.S.enter(f.actor(), "Open", name, 0)
	if p != nil && p.fault != nil {
		err := &os.PathError{Op: "open", Path: name, Err: p.fault}
		f.S.leave(p, ErrClass(err))
		return nil, err
	}
	h, err := f.Fs.Open(name)
	f.S.leave(p, ErrClass(err))
	if err != nil || h == nil {
		return h, err
	}
	return &File{File: h, fs: f, path: name}, nil
}

func (f *Fs) OpenFile(name string, flag int, perm os.FileMode) (afero.File, error) {
	p := f.S.enter(f.actor(), "OpenFile", name, 0)
	h, err := f.Fs.OpenFile(name, flag, perm)
	f.S.leave(p, ErrClass(err))
	if err != nil || h == nil {
		return h, err
	}
	return &File{File: h, fs: f, path: name}, nil
}

// File wraps directory handles so that Readdirnames is a scheduled operation.
type File struct {
	afero.File
	fs   *Fs
	path string
}

func (h *File) Readdirnames(n int) ([]string, error) {
	p := h.fs.S.enter(h.fs.actor(), "Readdir", h.path, n)
	if p != nil && p.fault != nil {
		err := &os.PathError{Op: "readdirent", Path: h.path, Err: p.fault}
		h.fs.S.leave(p, ErrClass(err))
		return nil, err
	}
	names, err := h.File.Readdirnames(n)
	res := ErrClass(err)
	if res == "ok" || res == "eof" {
		res = res + ":" + strconv.Itoa(len(names))
	}
	h.fs.S.leave(p, res)
	return names, err
}

func (h *File) Fd() uintptr {
	if x, ok := h.File.(interface{ Fd() uintptr }); ok {
		return x.Fd()
	}
	return ^uintptr(0)
}
