// Package shim wraps an afero.Fs so that a harness can observe, pause, re-order and fail every backend
// operation of the library under test.  The library is written against afero.Fs, so no hook in /repo is needed:
//
//	fs := filesystem.NewVirtualFileSystem(shim.New(afero.NewMemMapFs(), hook), filesystem.InMemoryFS, filesystem.IdentityPathConverterFunc)
//
// Every operation first calls Hook(Op) (which may block: that is how schedules are replayed; or return an
// error: fault injection; or return ErrDrop: the operation is silently skipped — a crashed client) and is
// then recorded.  File handles are wrapped too (Read/Write/Close/Readdir... are operations as well) and the
// balance of opened/closed handles is tracked.
package shim

import (
	"errors"
	"os"
	"sync"
	"sync/atomic"
	"time"

	"github.com/spf13/afero"
)

// Op describes one backend operation.
type Op struct {
	Seq      int64  // global sequence number (assigned when the operation is admitted)
	Name     string // Mkdir, MkdirAll, Remove, RemoveAll, Rename, Open, OpenFile, Create, Stat, Lstat, Chmod, Chown, Chtimes, Symlink, Readlink, Link, ForceRemove, f.Read, f.Write, f.Close, f.Readdir, f.Readdirnames, f.Stat, f.Sync, f.Truncate, f.Seek, f.ReadAt, f.WriteAt, f.WriteString
	Path     string
	Path2    string // Rename / Symlink / Link target
	Flag     int    // OpenFile flags
	N        int    // bytes for Read/Write
	Mutating bool
	GID      uint64 // caller-supplied actor identity (see SetActor); 0 if unknown
	Err      error  // filled after execution (in the recorded copy)
}

// ErrDrop tells the shim to skip the operation silently and report success (zero values).
var ErrDrop = errors.New("shim: drop")

// Hook is called before every operation. It may block. A non-nil error other than ErrDrop is returned to the library
// instead of executing the operation.
type Hook func(op *Op) error

type Fs struct {
	Inner afero.Fs
	hook  atomic.Value // Hook
	mu    sync.Mutex
	log   []Op
	seq   int64
	open  int64 // handles opened minus handles closed
	Rec   bool  // record operations
	// ModTimeOverride, if set, rewrites the ModTime of FileInfos returned by Stat/Lstat/f.Stat (fabricated clocks)
	ModTimeOverride func(path string, real time.Time) time.Time
}

func New(inner afero.Fs, hook Hook) *Fs {
	f := &Fs{Inner: inner, Rec: true}
	if hook != nil {
		f.hook.Store(hook)
	}
	return f
}

func (s *Fs) SetHook(h Hook) {
	if h == nil {
		h = func(*Op) error { return nil }
	}
	s.hook.Store(h)
}

func (s *Fs) OpenHandles() int64 { return atomic.LoadInt64(&s.open) }

// Log returns a copy of the recorded operations.
func (s *Fs) Log() []Op {
	s.mu.Lock()
	defer s.mu.Unlock()
	out := make([]Op, len(s.log))
	copy(out, s.log)
	return out
}

func (s *Fs) ResetLog() {
	s.mu.Lock()
	s.log = nil
	s.mu.Unlock()
}

func (s *Fs) Count() int64 { return atomic.LoadInt64(&s.seq) }

func (s *Fs) before(op *Op) error {
	op.Seq = atomic.AddInt64(&s.seq, 1)
	if h, ok := s.hook.Load().(Hook); ok && h != nil {
		return h(op)
	}
	return nil
}

func (s *Fs) after(op *Op, err error) {
	if !s.Rec {
		return
	}
	op.Err = err
	s.mu.Lock()
	s.log = append(s.log, *op)
	s.mu.Unlock()
}

func (s *Fs) Name() string { return "shim(" + s.Inner.Name() + ")" }

func (s *Fs) do(op *Op, f func() error) error {
	if err := s.before(op); err != nil {
		if errors.Is(err, ErrDrop) {
			s.after(op, ErrDrop)
			return nil
		}
		s.after(op, err)
		return err
	}
	err := f()
	s.after(op, err)
	return err
}

func (s *Fs) Mkdir(name string, perm os.FileMode) error {
	return s.do(&Op{Name: "Mkdir", Path: name, Mutating: true}, func() error { return s.Inner.Mkdir(name, perm) })
}
func (s *Fs) MkdirAll(path string, perm os.FileMode) error {
	return s.do(&Op{Name: "MkdirAll", Path: path, Mutating: true}, func() error { return s.Inner.MkdirAll(path, perm) })
}
func (s *Fs) Remove(name string) error {
	return s.do(&Op{Name: "Remove", Path: name, Mutating: true}, func() error { return s.Inner.Remove(name) })
}
func (s *Fs) RemoveAll(path string) error {
	return s.do(&Op{Name: "RemoveAll", Path: path, Mutating: true}, func() error { return s.Inner.RemoveAll(path) })
}
func (s *Fs) Rename(oldname, newname string) error {
	return s.do(&Op{Name: "Rename", Path: oldname, Path2: newname, Mutating: true}, func() error { return s.Inner.Rename(oldname, newname) })
}
func (s *Fs) Chmod(name string, mode os.FileMode) error {
	return s.do(&Op{Name: "Chmod", Path: name, Mutating: true}, func() error { return s.Inner.Chmod(name, mode) })
}
func (s *Fs) Chown(name string, uid, gid int) error {
	return s.do(&Op{Name: "Chown", Path: name, Mutating: true}, func() error { return s.Inner.Chown(name, uid, gid) })
}
func (s *Fs) Chtimes(name string, atime, mtime time.Time) error {
	return s.do(&Op{Name: "Chtimes", Path: name, Mutating: true}, func() error { return s.Inner.Chtimes(name, atime, mtime) })
}

func (s *Fs) wrapInfo(path string, fi os.FileInfo) os.FileInfo {
	if fi == nil || s.ModTimeOverride == nil {
		return fi
	}
	return &info{FileInfo: fi, mt: s.ModTimeOverride(path, fi.ModTime())}
}

type info struct {
	os.FileInfo
	mt time.Time
}

func (i *info) ModTime() time.Time { return i.mt }

func (s *Fs) Stat(name string) (fi os.FileInfo, err error) {
	err = s.do(&Op{Name: "Stat", Path: name}, func() (e error) { fi, e = s.Inner.Stat(name); return })
	return s.wrapInfo(name, fi), err
}

func (s *Fs) openWrap(op *Op, open func() (afero.File, error)) (afero.File, error) {
	var f afero.File
	err := s.do(op, func() (e error) { f, e = open(); return })
	if err != nil || f == nil {
		if err == nil {
			// dropped
			return nil, os.ErrClosed
		}
		return nil, err
	}
	atomic.AddInt64(&s.open, 1)
	return &File{File: f, s: s, path: op.Path}, nil
}

func (s *Fs) Create(name string) (afero.File, error) {
	return s.openWrap(&Op{Name: "Create", Path: name, Mutating: true, Flag: os.O_RDWR | os.O_CREATE | os.O_TRUNC}, func() (afero.File, error) { return s.Inner.Create(name) })
}
func (s *Fs) Open(name string) (afero.File, error) {
	return s.openWrap(&Op{Name: "Open", Path: name}, func() (afero.File, error) { return s.Inner.Open(name) })
}
func (s *Fs) OpenFile(name string, flag int, perm os.FileMode) (afero.File, error) {
	mut := flag&(os.O_WRONLY|os.O_RDWR|os.O_CREATE|os.O_TRUNC|os.O_APPEND) != 0
	return s.openWrap(&Op{Name: "OpenFile", Path: name, Flag: flag, Mutating: mut}, func() (afero.File, error) { return s.Inner.OpenFile(name, flag, perm) })
}

// ---- optional interfaces (forwarded when the backend has them) ----

func (s *Fs) LstatIfPossible(name string) (fi os.FileInfo, ok bool, err error) {
	err = s.do(&Op{Name: "Lstat", Path: name}, func() (e error) {
		if l, has := s.Inner.(afero.Lstater); has {
			fi, ok, e = l.LstatIfPossible(name)
		} else {
			fi, e = s.Inner.Stat(name)
		}
		return
	})
	return s.wrapInfo(name, fi), ok, err
}
func (s *Fs) SymlinkIfPossible(oldname, newname string) error {
	return s.do(&Op{Name: "Symlink", Path: newname, Path2: oldname, Mutating: true}, func() error {
		if l, has := s.Inner.(afero.Linker); has {
			return l.SymlinkIfPossible(oldname, newname)
		}
		return &os.LinkError{Op: "symlink", Old: oldname, New: newname, Err: afero.ErrNoSymlink}
	})
}
func (s *Fs) ReadlinkIfPossible(name string) (t string, err error) {
	err = s.do(&Op{Name: "Readlink", Path: name}, func() (e error) {
		if l, has := s.Inner.(afero.LinkReader); has {
			t, e = l.ReadlinkIfPossible(name)
			return
		}
		return &os.PathError{Op: "readlink", Path: name, Err: afero.ErrNoReadlink}
	})
	return
}

type linker interface{ LinkIfPossible(oldname, newname string) error }
type forceRemover interface{ ForceRemoveIfPossible(name string) error }
type chowner interface {
	ChownIfPossible(name string, uid int, gid int) error
}

func (s *Fs) LinkIfPossible(oldname, newname string) error {
	return s.do(&Op{Name: "Link", Path: newname, Path2: oldname, Mutating: true}, func() error {
		if l, has := s.Inner.(linker); has {
			return l.LinkIfPossible(oldname, newname)
		}
		return errors.New("link not implemented")
	})
}
func (s *Fs) ForceRemoveIfPossible(name string) error {
	return s.do(&Op{Name: "ForceRemove", Path: name, Mutating: true}, func() error {
		if l, has := s.Inner.(forceRemover); has {
			return l.ForceRemoveIfPossible(name)
		}
		return s.Inner.RemoveAll(name)
	})
}
func (s *Fs) ChownIfPossible(name string, uid int, gid int) error {
	return s.do(&Op{Name: "Chown", Path: name, Mutating: true}, func() error {
		if l, has := s.Inner.(chowner); has {
			return l.ChownIfPossible(name, uid, gid)
		}
		return s.Inner.Chown(name, uid, gid)
	})
}

// ---- file handles ----

type File struct {
	afero.File
	s      *Fs
	path   string
	closed int32
}

func (f *File) Close() error {
	first := atomic.CompareAndSwapInt32(&f.closed, 0, 1)
	err := f.s.do(&Op{Name: "f.Close", Path: f.path}, func() error { return f.File.Close() })
	if first {
		atomic.AddInt64(&f.s.open, -1)
	}
	return err
}
func (f *File) Read(p []byte) (n int, err error) {
	op := &Op{Name: "f.Read", Path: f.path, N: len(p)}
	err = f.s.do(op, func() (e error) { n, e = f.File.Read(p); return })
	return
}
func (f *File) ReadAt(p []byte, off int64) (n int, err error) {
	err = f.s.do(&Op{Name: "f.ReadAt", Path: f.path, N: len(p)}, func() (e error) { n, e = f.File.ReadAt(p, off); return })
	return
}
func (f *File) Seek(offset int64, whence int) (n int64, err error) {
	err = f.s.do(&Op{Name: "f.Seek", Path: f.path}, func() (e error) { n, e = f.File.Seek(offset, whence); return })
	return
}

// ShortWrite may be set by a Hook (through Op pointer identity) — simpler: hooks return a *ShortWriteError.
type ShortWriteError struct{ N int }

func (e *ShortWriteError) Error() string { return "shim: short write" }

func (f *File) Write(p []byte) (n int, err error) {
	op := &Op{Name: "f.Write", Path: f.path, N: len(p), Mutating: true}
	if e := f.s.before(op); e != nil {
		var sw *ShortWriteError
		if errors.As(e, &sw) {
			k := sw.N
			if k > len(p) {
				k = len(p)
			}
			n, _ = f.File.Write(p[:k])
			f.s.after(op, e)
			return n, e
		}
		if errors.Is(e, ErrDrop) {
			f.s.after(op, ErrDrop)
			return len(p), nil
		}
		f.s.after(op, e)
		return 0, e
	}
	n, err = f.File.Write(p)
	f.s.after(op, err)
	return
}
func (f *File) WriteAt(p []byte, off int64) (n int, err error) {
	err = f.s.do(&Op{Name: "f.WriteAt", Path: f.path, N: len(p), Mutating: true}, func() (e error) { n, e = f.File.WriteAt(p, off); return })
	return
}
func (f *File) WriteString(str string) (n int, err error) {
	return f.Write([]byte(str))
}
func (f *File) Readdir(count int) (fi []os.FileInfo, err error) {
	err = f.s.do(&Op{Name: "f.Readdir", Path: f.path}, func() (e error) { fi, e = f.File.Readdir(count); return })
	return
}
func (f *File) Readdirnames(n int) (names []string, err error) {
	err = f.s.do(&Op{Name: "f.Readdirnames", Path: f.path}, func() (e error) { names, e = f.File.Readdirnames(n); return })
	return
}
func (f *File) Stat() (fi os.FileInfo, err error) {
	err = f.s.do(&Op{Name: "f.Stat", Path: f.path}, func() (e error) { fi, e = f.File.Stat(); return })
	return f.s.wrapInfo(f.path, fi), err
}
func (f *File) Sync() error {
	return f.s.do(&Op{Name: "f.Sync", Path: f.path}, func() error { return f.File.Sync() })
}
func (f *File) Truncate(size int64) error {
	return f.s.do(&Op{Name: "f.Truncate", Path: f.path, Mutating: true}, func() error { return f.File.Truncate(size) })
}

// Fd is needed by the library's File interface; backends without descriptors answer ^0.
func (f *File) Fd() uintptr {
	if x, ok := f.File.(interface{ Fd() uintptr }); ok {
		return x.Fd()
	}
	return ^uintptr(0)
}
