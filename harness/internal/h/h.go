// Package h is the shared part of every property harness: flags, the single seeded PRNG,
// observation/evidence bookkeeping, failure records and the writer of Coq case files.
package h

import (
	"encoding/json"
	"flag"
	"fmt"
	"math/rand"
	"os"
	"path/filepath"
	"sort"
	"strings"
	"time"
)

type Failure struct {
	Signature string `json:"signature"`
	What      string `json:"what"`
	Replay    any    `json:"replay,omitempty"`
}

type Run struct {
	Property string
	Seed     int64
	Tier     string
	Out      string
	Deep     bool
	NoCases  bool
	ReplayF  string
	Rng      *rand.Rand

	Imports   []string // Coq modules the case files import (e.g. "GU.C19.Model")
	CheckFn   string   // name of the model's check function (default check_case)
	CaseType  string   // Coq type of a case (default case)
	ShardSize int

	evaluations int
	dist        map[string]int
	distinct    map[string]struct{}
	samples     []any
	failures    []Failure
	failSeen    map[string]int
	notes       []string
	rule        string
	exhaustive  bool
	cases       []string
	caseIndex   map[string]any
	start       time.Time
}

func Init(property string) *Run {
	r := &Run{Property: property, CheckFn: "check_case", CaseType: "case", ShardSize: 400}
	flag.Int64Var(&r.Seed, "seed", 1, "seed of the single PRNG")
	flag.StringVar(&r.Tier, "tier", "quick", "quick|thorough")
	flag.StringVar(&r.Out, "out", "", "output directory")
	flag.BoolVar(&r.Deep, "deep", false, "deepened search (a tie broke)")
	flag.BoolVar(&r.NoCases, "nocases", false, "do not write Coq case files")
	flag.StringVar(&r.ReplayF, "replay", "", "replay file")
	flag.Parse()
	if r.Out == "" {
		fmt.Fprintln(os.Stderr, "-out required")
		os.Exit(2)
	}
	_ = os.MkdirAll(r.Out, 0o755)
	r.Rng = rand.New(rand.NewSource(r.Seed*7919 + 17))
	r.dist = map[string]int{}
	r.distinct = map[string]struct{}{}
	r.failSeen = map[string]int{}
	r.caseIndex = map[string]any{}
	r.start = time.Now()
	return r
}

func (r *Run) Thorough() bool { return r.Tier == "thorough" }

// N picks a budget by tier (deep runs use the thorough budget).
func (r *Run) N(quick, thorough int) int {
	if r.Thorough() || r.Deep {
		return thorough
	}
	return quick
}

func (r *Run) Eval()              { r.evaluations++ }
func (r *Run) Evals(n int)        { r.evaluations += n }
func (r *Run) Count(k string)     { r.dist[k]++ }
func (r *Run) CountN(k string, n int) { r.dist[k] += n }
func (r *Run) Note(s string)      { r.notes = append(r.notes, s) }
func (r *Run) Rule(s string)      { r.rule = s }
func (r *Run) Exhaustive(b bool)  { r.exhaustive = b }
func (r *Run) Distinct(key string) { r.distinct[key] = struct{}{} }

func (r *Run) Sample(s any) {
	if len(r.samples) < 12 {
		r.samples = append(r.samples, s)
	}
}

// Fail records a property violation observed on the implementation (the oracle's verdict).
// At most 3 replays are kept per signature.
func (r *Run) Fail(sig, what string, replay any) {
	r.failSeen[sig]++
	if r.failSeen[sig] > 3 {
		return
	}
	r.failures = append(r.failures, Failure{Signature: sig, What: what, Replay: replay})
}

func (r *Run) Failed(sig string) bool { return r.failSeen[sig] > 0 }

// Case adds one correspondence case: a Coq term of type CaseType and a description kept in case_index.json.
func (r *Run) Case(term string, desc any) int {
	id := len(r.cases)
	r.cases = append(r.cases, term)
	if desc != nil {
		r.caseIndex[fmt.Sprint(id)] = desc
	}
	return id
}

func (r *Run) NCases() int { return len(r.cases) }

func (r *Run) Finish() {
	if !r.NoCases && len(r.cases) > 0 {
		for s := 0; s*r.ShardSize < len(r.cases); s++ {
			lo, hi := s*r.ShardSize, (s+1)*r.ShardSize
			if hi > len(r.cases) {
				hi = len(r.cases)
			}
			var b strings.Builder
			b.WriteString("From Coq Require Import List ZArith NArith Bool String Ascii.\nImport ListNotations.\nFrom GU Require Import Lib.Corr.\n")
			for _, im := range r.Imports {
				b.WriteString("From GU Require Import " + strings.TrimPrefix(im, "GU.") + ".\n")
			}
			b.WriteString("Local Open Scope Z_scope.\n")
			fmt.Fprintf(&b, "Definition cases : list (N * %s) := [\n", r.CaseType)
			for i := lo; i < hi; i++ {
				sep := ";"
				if i == hi-1 {
					sep = ""
				}
				fmt.Fprintf(&b, " (%d%%N, %s)%s\n", i, r.cases[i], sep)
			}
			b.WriteString("].\n")
			fmt.Fprintf(&b, "Definition M := Eval vm_compute in mismatches %s cases.\nPrint M.\n", r.CheckFn)
			_ = os.WriteFile(filepath.Join(r.Out, fmt.Sprintf("cases_%03d.v", s)), []byte(b.String()), 0o644)
		}
		ci, _ := json.Marshal(r.caseIndex)
		_ = os.WriteFile(filepath.Join(r.Out, "case_index.json"), ci, 0o644)
	}
	keys := make([]string, 0, len(r.dist))
	for k := range r.dist {
		keys = append(keys, k)
	}
	sort.Strings(keys)
	obs := map[string]any{
		"property":            r.Property,
		"seed":                r.Seed,
		"tier":                r.Tier,
		"deep":                r.Deep,
		"evaluations":         r.evaluations,
		"distinct_nontrivial": len(r.distinct),
		"rule":                r.rule,
		"distribution":        r.dist,
		"samples":             r.samples,
		"failures":            r.failures,
		"failure_counts":      r.failSeen,
		"notes":               r.notes,
		"cases_emitted":       len(r.cases),
		"exhaustive":          r.exhaustive,
		"wall_s":              time.Since(r.start).Seconds(),
	}
	if r.failures == nil {
		obs["failures"] = []Failure{}
	}
	if r.samples == nil {
		obs["samples"] = []any{}
	}
	bs, _ := json.MarshalIndent(obs, "", " ")
	_ = os.WriteFile(filepath.Join(r.Out, "obs.json"), bs, 0o644)
}

// ReplayObject loads the "replay" member of a replay file written by the check.
func (r *Run) ReplayObject(into any) (sig string, ok bool) {
	if r.ReplayF == "" {
		return "", false
	}
	bs, err := os.ReadFile(r.ReplayF)
	if err != nil {
		return "", false
	}
	var f struct {
		Signature string          `json:"signature"`
		Replay    json.RawMessage `json:"replay"`
	}
	if json.Unmarshal(bs, &f) != nil || len(f.Replay) == 0 {
		return "", false
	}
	if json.Unmarshal(f.Replay, into) != nil {
		return f.Signature, false
	}
	return f.Signature, true
}

// ---- Coq term printers ----

func Z(v int64) string {
	if v < 0 {
		return fmt.Sprintf("(%d)", v)
	}
	return fmt.Sprint(v)
}

func Nat(v int) string { return fmt.Sprintf("%d%%nat", v) }

func Bool(b bool) string {
	if b {
		return "true"
	}
	return "false"
}

func List(ts []string) string { return "[" + strings.Join(ts, "; ") + "]" }

func ZList(vs []int64) string {
	ts := make([]string, len(vs))
	for i, v := range vs {
		ts[i] = Z(v)
	}
	return List(ts)
}

func IntList(vs []int) string {
	ts := make([]string, len(vs))
	for i, v := range vs {
		ts[i] = Z(int64(v))
	}
	return List(ts)
}

// Bytes prints a byte string as a list of Z.
func Bytes(bs []byte) string {
	ts := make([]string, len(bs))
	for i, v := range bs {
		ts[i] = fmt.Sprint(int(v))
	}
	return List(ts)
}

func Str(s string) string { return Bytes([]byte(s)) }

func Opt(t string, some bool) string {
	if some {
		return "(Some " + t + ")"
	}
	return "None"
}

func App(f string, args ...string) string { return "(" + f + " " + strings.Join(args, " ") + ")" }
