module verif/harness

go 1.24.1

require github.com/ARM-software/golang-utils/utils v0.0.0

require (
	dario.cat/mergo v1.0.0 // indirect
	github.com/Microsoft/go-winio v0.6.2 // indirect
	github.com/OneOfOne/xxhash v1.2.8
	github.com/ProtonMail/go-crypto v1.1.6 // indirect
	github.com/asaskevich/govalidator v0.0.0-20200108200545-475eaeb16496 // indirect
	github.com/avast/retry-go/v4 v4.6.1
	github.com/bmatcuk/doublestar/v3 v3.0.0
	github.com/bombsimon/logrusr/v4 v4.1.0
	github.com/cloudflare/circl v1.6.1 // indirect
	github.com/cyphar/filepath-securejoin v0.4.1 // indirect
	github.com/davecgh/go-spew v1.1.2-0.20180830191138-d8f796af33cc // indirect
	github.com/deckarep/golang-set/v2 v2.8.0
	github.com/djherbis/times v1.6.0
	github.com/dmarkham/enumer v1.5.11 // indirect
	github.com/dolmen-go/contextio v1.0.0
	github.com/ebitengine/purego v0.8.2 // indirect
	github.com/emirpasic/gods v1.18.1 // indirect
	github.com/evanphx/hclogr v0.2.0
	github.com/fatih/color v1.16.0 // indirect
	github.com/fsnotify/fsnotify v1.8.0 // indirect
	github.com/go-faker/faker/v4 v4.6.0
	github.com/go-git/gcfg v1.5.1-0.20230307220236-3a3c6141e376 // indirect
	github.com/go-git/go-billy/v5 v5.6.2 // indirect
	github.com/go-git/go-git/v5 v5.16.0
	github.com/go-http-utils/headers v0.0.0-20181008091004-fed159eddc2a
	github.com/go-logr/logr v1.4.2
	github.com/go-logr/stdr v1.2.2
	github.com/go-logr/zapr v1.3.0
	github.com/go-ole/go-ole v1.2.6 // indirect
	github.com/go-ozzo/ozzo-validation/v4 v4.3.0
	github.com/go-viper/mapstructure/v2 v2.2.1 // indirect
	github.com/gofrs/uuid/v5 v5.3.2
	github.com/gogs/chardet v0.0.0-20211120154057-b7413eaefb8f
	github.com/golang/groupcache v0.0.0-20241129210726-2c02b8208cf8 // indirect
	github.com/google/cabbie v1.0.2 // indirect
	github.com/google/glazier v0.0.0-20211029225403-9f766cca891d // indirect
	github.com/hashicorp/go-cleanhttp v0.5.2
	github.com/hashicorp/go-hclog v1.6.3
	github.com/hashicorp/go-retryablehttp v0.7.7
	github.com/iamacarpet/go-win64api v0.0.0-20230324134531-ef6dbdd6db97
	github.com/jbenet/go-context v0.0.0-20150711004518-d14ea06fba99 // indirect
	github.com/joho/godotenv v1.5.1
	github.com/kevinburke/ssh_config v1.2.0 // indirect
	github.com/lufia/plan9stats v0.0.0-20211012122336-39d0f177ccd0 // indirect
	github.com/mattn/go-colorable v0.1.13 // indirect
	github.com/mattn/go-isatty v0.0.20 // indirect
	github.com/mitchellh/go-homedir v1.1.0
	github.com/mitchellh/mapstructure v1.5.0
	github.com/pascaldekloe/name v1.0.0 // indirect
	github.com/pelletier/go-toml/v2 v2.2.3 // indirect
	github.com/petermattis/goid v0.0.0-20240813172612-4fcff4a6cae7
	github.com/pjbgf/sha1cd v0.3.2 // indirect
	github.com/pmezard/go-difflib v1.0.1-0.20181226105442-5d4384ee4fb2 // indirect
	github.com/power-devops/perfstat v0.0.0-20210106213030-5aafc221ea8c // indirect
	github.com/rifflock/lfshook v0.0.0-20180920164130-b9218ef580f5
	github.com/rs/zerolog v1.34.0
	github.com/sagikazarmark/locafero v0.7.0 // indirect
	github.com/sasha-s/go-deadlock v0.3.5
	github.com/scjalliance/comshim v0.0.0-20190308082608-cf06d2532c4e // indirect
	github.com/sergi/go-diff v1.3.2-0.20230802210424-5b0b94c5c0d3 // indirect
	github.com/shirou/gopsutil/v4 v4.25.3
	github.com/sirupsen/logrus v1.9.3
	github.com/skeema/knownhosts v1.3.1 // indirect
	github.com/sourcegraph/conc v0.3.0 // indirect
	github.com/spaolacci/murmur3 v1.1.0
	github.com/spf13/afero v1.14.0
	github.com/spf13/cast v1.7.1 // indirect
	github.com/spf13/pflag v1.0.6
	github.com/spf13/viper v1.20.1
	github.com/stretchr/testify v1.10.0
	github.com/subosito/gotenv v1.6.0 // indirect
	github.com/tklauser/go-sysconf v0.3.12 // indirect
	github.com/tklauser/numcpus v0.6.1 // indirect
	github.com/xanzy/ssh-agent v0.3.3 // indirect
	github.com/yusufpapurcu/wmi v1.2.4 // indirect
	github.com/zailic/slogr v0.0.2-alpha
	go.uber.org/atomic v1.11.0
	go.uber.org/goleak v1.3.0
	go.uber.org/mock v0.5.1
	go.uber.org/multierr v1.10.0 // indirect
	go.uber.org/zap v1.27.0
	golang.org/x/crypto v0.37.0
	golang.org/x/exp v0.0.0-20240719175910-8a7402abbf56
	golang.org/x/mod v0.24.0
	golang.org/x/net v0.39.0
	golang.org/x/oauth2 v0.29.0
	golang.org/x/sync v0.13.0
	golang.org/x/sys v0.32.0
	golang.org/x/text v0.24.0
	golang.org/x/tools v0.30.0 // indirect
	gopkg.in/warnings.v0 v0.1.2 // indirect
	gopkg.in/yaml.v3 v3.0.1 // indirect
)

replace github.com/ARM-software/golang-utils/utils => /repo/utils
