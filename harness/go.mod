module verif/harness

go 1.24.1

require github.com/ARM-software/golang-utils/utils v0.0.0

require (
	github.com/go-faker/faker/v4 v4.6.0 // indirect
	github.com/petermattis/goid v0.0.0-20240813172612-4fcff4a6cae7 // indirect
	github.com/sasha-s/go-deadlock v0.3.5 // indirect
	go.uber.org/atomic v1.11.0 // indirect
	golang.org/x/text v0.24.0 // indirect
)

replace github.com/ARM-software/golang-utils/utils => /repo/utils
