// C11 harness: error kinds survive wrapping and serialisation.
//
// Drives the real commonerrors constructors (New, Newf, Errorf, WrapError(f), WrapIfNotCommonError(f)) over every
// kind x a message corpus x chains of 0..4 constructor applications x joins of 1..4 errors, serialises and
// deserialises every result, feeds raw (also malformed) text to the deserialiser, and runs the three converters over
// every backend error value they mention.
//
// Oracle (Go only, independent of the Coq model): a small reference that tracks the kind and the reason an error was
// GIVEN (ref.go part below), compared with what Any / errors.Is / GetErrorReason report before and after the round
// trip.  Correspondence: every scenario whose strings are inside the ASCII-whitespace/ASCII-case model of Bytes.v is
// also emitted as a Coq case (text, Is-vector, serialised text, deserialisation outcome).
package main

import (
	"bytes"
	"context"
	"encoding/json"
	"errors"
	"fmt"
	"io"
	"os"
	"os/exec"
	"sort"
	"strings"
	"syscall"
	"unicode"
	"unicode/utf8"

	"github.com/spf13/afero"

	ce "github.com/ARM-software/golang-utils/utils/commonerrors"
	"github.com/ARM-software/golang-utils/utils/filesystem"
	"github.com/ARM-software/golang-utils/utils/proc"
	"github.com/ARM-software/golang-utils/utils/safeio"

	"verif/harness/internal/h"
)

// ---------- the kinds ----------

var byName = map[string]error{
	"ErrNotImplemented": ce.ErrNotImplemented, "ErrNoExtension": ce.ErrNoExtension, "ErrNoLogger": ce.ErrNoLogger,
	"ErrNoLoggerSource": ce.ErrNoLoggerSource, "ErrNoLogSource": ce.ErrNoLogSource, "ErrUndefined": ce.ErrUndefined,
	"ErrInvalidDestination": ce.ErrInvalidDestination, "ErrTimeout": ce.ErrTimeout, "ErrLocked": ce.ErrLocked,
	"ErrStaleLock": ce.ErrStaleLock, "ErrExists": ce.ErrExists, "ErrNotFound": ce.ErrNotFound,
	"ErrUnsupported": ce.ErrUnsupported, "ErrUnavailable": ce.ErrUnavailable, "ErrWrongUser": ce.ErrWrongUser,
	"ErrUnauthorised": ce.ErrUnauthorised, "ErrUnknown": ce.ErrUnknown, "ErrInvalid": ce.ErrInvalid,
	"ErrConflict": ce.ErrConflict, "ErrMarshalling": ce.ErrMarshalling, "ErrCancelled": ce.ErrCancelled,
	"ErrEmpty": ce.ErrEmpty, "ErrUnexpected": ce.ErrUnexpected, "ErrTooLarge": ce.ErrTooLarge,
	"ErrForbidden": ce.ErrForbidden, "ErrCondition": ce.ErrCondition, "ErrEOF": ce.ErrEOF,
	"ErrMalicious": ce.ErrMalicious, "ErrOutOfRange": ce.ErrOutOfRange, "ErrWarning": ce.ErrWarning,
}

// kinds[i] is the sentinel with index i of the generated table (declaration order of errors.go).
var kinds []error
var kindNames []string
var kUnknown, kTimeout, kCancelled, kEOF = -1, -1, -1, -1

func loadKinds(r *h.Run) {
	var tab struct {
		Sentinels []struct{ Name, Text string } `json:"sentinels"`
	}
	path := "../coq/C11/errkinds.json"
	if root := os.Getenv("VERIF_ROOT"); root != "" { // the pipeline runs every harness in a private, empty working directory
		path = root + "/coq/C11/errkinds.json"
	}
	bs, err := os.ReadFile(path)
	if err != nil || json.Unmarshal(bs, &tab) != nil || len(tab.Sentinels) == 0 {
		r.Fail("kind-table-unreadable", "cannot read the generated kind table "+path, nil)
		r.Finish()
		os.Exit(0)
	}
	for _, s := range tab.Sentinels {
		e, ok := byName[s.Name]
		if !ok {
			// a sentinel added after this harness was written: the Coq table theorems cover it, the Go sweeps cannot
			r.Note("sentinel " + s.Name + " is not known to the harness: not swept on the implementation")
			e = nil
		} else if e.Error() != s.Text {
			r.Fail("kind-table-text", fmt.Sprintf("sentinel %s has text %q but the generated table says %q", s.Name, e.Error(), s.Text), nil)
		}
		kinds = append(kinds, e)
		kindNames = append(kindNames, s.Name)
	}
	for i, e := range kinds {
		switch e {
		case ce.ErrUnknown:
			kUnknown = i
		case ce.ErrTimeout:
			kTimeout = i
		case ce.ErrCancelled:
			kCancelled = i
		case ce.ErrEOF:
			kEOF = i
		}
	}
	if kUnknown < 0 || kTimeout < 0 || kCancelled < 0 || kEOF < 0 {
		r.Fail("kind-table-unreadable", "ErrUnknown/ErrTimeout/ErrCancelled/ErrEOF missing from the generated table", nil)
		r.Finish()
		os.Exit(0)
	}
}

// ---------- scenario description (also the replay object) ----------

// spec of an error value handed to a constructor: K = sent|nil|canceled|deadline|opaque|fwrap|new|foreign
type spec struct {
	K      string `json:"k"`
	Kind   int    `json:"kind,omitempty"`   // sent, new
	M      []byte `json:"m,omitempty"`      // opaque: text; fwrap: prefix; new: message
	Inner  *spec  `json:"inner,omitempty"`  // fwrap: fmt.Errorf("%s: %w", M, inner); wrapof: the cause; multi/join: first member
	Inner2 *spec  `json:"inner2,omitempty"` // multi: fmt.Errorf("%w: %s: %w", inner, M, inner2); join: errors.Join(inner, inner2)
	F      int    `json:"f,omitempty"`      // foreign: 0 io.EOF, 1 io.ErrUnexpectedEOF
}

// op: New|Newf|Errorf|Wrap|WrapINC|WrapT|WrapINCT ; F = use the formatting variant with ("%v", m)
type op struct {
	Op string `json:"op"`
	T  *spec  `json:"t,omitempty"` // Wrap/WrapINC: the target; WrapT/WrapINCT: the cause
	M  []byte `json:"m"`
	F  bool   `json:"f,omitempty"`
}

type chain struct {
	Base *spec `json:"base"`
	Ops  []op  `json:"ops"`
}

type scenario struct {
	Kind      string             `json:"kind"` // chain | join | deser | convio | conv
	Chain     *chain             `json:"chain,omitempty"`
	Chains    []chain            `json:"chains,omitempty"`
	Text      []byte             `json:"text,omitempty"`
	Conv      string             `json:"conv,omitempty"` // fs | proc | io
	Cond      string             `json:"cond,omitempty"` // name of the backend condition
	Spec      *spec              `json:"spec,omitempty"` // convio
	Backend   *backendScenario   `json:"backend,omitempty"`
	Lib       *libScenario       `json:"lib,omitempty"`
	Composite *compositeScenario `json:"composite,omitempty"`
}

var foreignVals = []error{io.EOF, io.ErrUnexpectedEOF}

func (s *spec) value() error {
	if s == nil {
		return nil
	}
	switch s.K {
	case "sent":
		return kinds[s.Kind]
	case "nil":
		return nil
	case "canceled":
		return context.Canceled
	case "deadline":
		return context.DeadlineExceeded
	case "opaque":
		return errors.New(string(s.M))
	case "fwrap":
		return fmt.Errorf("%s: %w", string(s.M), s.Inner.value())
	case "new":
		return ce.New(kinds[s.Kind], string(s.M))
	case "foreign":
		return foreignVals[s.F]
	case "wrapof": // a nested constructor's result: WrapError(kind, inner, M)
		return ce.WrapError(kinds[s.Kind], s.Inner.value(), string(s.M))
	case "multi": // a composite that wraps BOTH members
		return fmt.Errorf("%w: %s: %w", s.Inner.value(), string(s.M), s.Inner2.value())
	case "join":
		return errors.Join(s.Inner.value(), s.Inner2.value())
	}
	panic("spec " + s.K)
}

func (s *spec) coq() string { // option err
	if s == nil || s.K == "nil" {
		return "None"
	}
	return "(Some " + s.coqErr() + ")"
}

func (s *spec) coqErr() string {
	switch s.K {
	case "sent":
		return fmt.Sprintf("(Sent %d%%nat)", s.Kind)
	case "canceled":
		return "CtxCanceled"
	case "deadline":
		return "CtxDeadline"
	case "opaque":
		return "(Opaque " + h.Bytes(s.M) + ")"
	case "fwrap":
		in := s.Inner.value()
		return "(Wrap " + h.Str(string(s.M)+": "+in.Error()) + " " + s.Inner.coqErr() + ")"
	case "new":
		return fmt.Sprintf("(new (Some (Sent %d%%nat)) %s)", s.Kind, h.Bytes(s.M))
	case "foreign":
		return fmt.Sprintf("(Foreign %d%%nat %s)", s.F, h.Str(foreignVals[s.F].Error()))
	case "wrapof":
		return fmt.Sprintf("(wrap_error (Some (Sent %d%%nat)) %s %s)", s.Kind, s.Inner.coq(), h.Bytes(s.M))
	case "multi", "join":
		return "(Multi " + h.Str(s.value().Error()) + " " + s.Inner.coqErr() + " " + s.Inner2.coqErr() + ")"
	}
	panic("spec " + s.K)
}

func (s *spec) strs() [][]byte {
	if s == nil {
		return nil
	}
	out := [][]byte{s.M}
	if s.Inner != nil {
		out = append(out, s.Inner.strs()...)
	}
	if s.Inner2 != nil {
		out = append(out, s.Inner2.strs()...)
	}
	return out
}

func (c *chain) build() error {
	cur := c.Base.value()
	for _, o := range c.Ops {
		m := string(o.M)
		switch o.Op {
		case "New":
			cur = ce.New(cur, m)
		case "Newf":
			if o.F {
				cur = ce.Newf(cur, "%v", m)
			} else {
				cur = ce.Newf(cur, m)
			}
		case "Errorf":
			if o.F {
				cur = ce.Errorf(cur, "%v", m)
			} else {
				cur = ce.Errorf(cur, m)
			}
		case "Wrap":
			if o.F {
				cur = ce.WrapErrorf(o.T.value(), cur, "%v", m)
			} else {
				cur = ce.WrapError(o.T.value(), cur, m)
			}
		case "WrapINC":
			if o.F {
				cur = ce.WrapIfNotCommonErrorf(o.T.value(), cur, "%v", m)
			} else {
				cur = ce.WrapIfNotCommonError(o.T.value(), cur, m)
			}
		case "WrapT":
			if o.F {
				cur = ce.WrapErrorf(cur, o.T.value(), "%v", m)
			} else {
				cur = ce.WrapError(cur, o.T.value(), m)
			}
		case "WrapINCT":
			if o.F {
				cur = ce.WrapIfNotCommonErrorf(cur, o.T.value(), "%v", m)
			} else {
				cur = ce.WrapIfNotCommonError(cur, o.T.value(), m)
			}
		default:
			panic("op " + o.Op)
		}
	}
	return cur
}

func (c *chain) operands() []error {
	out := []error{c.Base.value()}
	for _, o := range c.Ops {
		if o.T != nil {
			out = append(out, o.T.value())
		}
	}
	return out
}

// wrapsLibOnlyJoin: an errors.Join without raw context error stays wrapped in the result; the serialiser then treats
// the result as a join (not modelled for chains): such scenarios go through the oracles but not through the Coq cases
func (s *spec) libOnlyJoin() bool {
	if s == nil {
		return false
	}
	if s.K == "join" && refOf(s).rawCtx == 0 {
		return true
	}
	return s.Inner.libOnlyJoin() || s.Inner2.libOnlyJoin()
}

func (c *chain) hasLibOnlyJoin() bool {
	if c.Base.libOnlyJoin() {
		return true
	}
	for _, o := range c.Ops {
		if o.T.libOnlyJoin() {
			return true
		}
	}
	return false
}

func (c *chain) coq() (string, string) {
	ops := make([]string, len(c.Ops))
	for i, o := range c.Ops {
		ctor := map[string]string{"New": "ONew", "Newf": "ONewf", "Errorf": "OErrorf", "Wrap": "OWrap", "WrapINC": "OWrapINC", "WrapT": "OWrapT", "WrapINCT": "OWrapINCT"}[o.Op]
		switch o.Op {
		case "New", "Newf", "Errorf":
			ops[i] = "(" + ctor + " " + h.Bytes(o.M) + ")"
		default:
			ops[i] = "(" + ctor + " " + o.T.coq() + " " + h.Bytes(o.M) + ")"
		}
	}
	return c.Base.coq(), h.List(ops)
}

func (c *chain) strs() [][]byte {
	out := c.Base.strs()
	for _, o := range c.Ops {
		out = append(out, o.M)
		out = append(out, o.T.strs()...)
	}
	return out
}

// ---------- the reference: the kind and the reason an error was GIVEN ----------

// ref is what the property text says about a value: kind (-1: none), whether it is (or wraps, outside the library) a
// raw context error, and its text in the convention "<kind>: <reason>".
type ref struct {
	isNil  bool
	kind   int // -1 none
	rawCtx int // 0 no, 1 context.Canceled, 2 context.DeadlineExceeded (raw, wrapped by a foreign wrapper, or inside a composite)
	text   string
	// composites (several errors wrapped at once) without a raw context error: the reference does not predict ONE kind
	multi  bool
	common bool // some library kind is reachable
	libCtx bool // a library cancelled / timeout kind is reachable
}

func (r ref) isCommon() bool { return !r.isNil && (r.kind >= 0 || r.common) }

func (r ref) ctxKind() int { // the context kind it stands for, -1 if none
	switch {
	case r.isNil:
		return -1
	case r.rawCtx == 1:
		return kCancelled
	case r.rawCtx == 2:
		return kTimeout
	case r.kind == kCancelled || r.kind == kTimeout:
		return r.kind
	}
	return -1
}

func refOf(s *spec) ref {
	if s == nil || s.K == "nil" {
		return ref{isNil: true, kind: -1}
	}
	switch s.K {
	case "sent":
		return ref{kind: s.Kind, text: kinds[s.Kind].Error()}
	case "canceled":
		return ref{kind: -1, rawCtx: 1, text: "context canceled"}
	case "deadline":
		return ref{kind: -1, rawCtx: 2, text: "context deadline exceeded"}
	case "opaque":
		return ref{kind: -1, text: string(s.M)}
	case "fwrap":
		in := refOf(s.Inner)
		return ref{kind: in.kind, rawCtx: in.rawCtx, text: string(s.M) + ": " + in.text, multi: in.multi, common: in.common, libCtx: in.libCtx}
	case "new":
		return ref{kind: s.Kind, text: kinds[s.Kind].Error() + ": " + string(s.M)}
	case "foreign":
		return ref{kind: -1, text: foreignVals[s.F].Error()}
	case "wrapof":
		return refWrap(ref{kind: s.Kind, text: kinds[s.Kind].Error()}, refOf(s.Inner), string(s.M))
	case "multi", "join":
		a, b := refOf(s.Inner), refOf(s.Inner2)
		out := ref{kind: -1, text: s.value().Error()}
		switch { // ConvertContextError looks for context.Canceled first
		case a.rawCtx == 1 || b.rawCtx == 1:
			out.rawCtx = 1
		case a.rawCtx == 2 || b.rawCtx == 2:
			out.rawCtx = 2
		}
		out.multi = true
		out.common = a.isCommon() || b.isCommon()
		isCtx := func(x ref) bool { return x.libCtx || x.kind == kCancelled || x.kind == kTimeout }
		out.libCtx = isCtx(a) || isCtx(b)
		return out
	}
	panic("spec")
}

// asTarget: what an error becomes when a constructor uses it as the %w target (nil -> unknown, context -> its kind)
func asTarget(t ref) ref {
	switch {
	case t.isNil:
		return ref{kind: kUnknown, text: kinds[kUnknown].Error()}
	case t.rawCtx != 0:
		k := t.ctxKind()
		return ref{kind: k, text: kinds[k].Error()}
	}
	return t
}

func refNew(t ref, m string) ref {
	t = asTarget(t)
	// a composite without raw context error stays wrapped as it is: several kinds, no single prediction
	return ref{kind: t.kind, text: t.text + ": " + m, multi: t.multi, common: t.common, libCtx: t.libCtx}
}

func refWrap(t, cause ref, m string) ref {
	if cause.isNil {
		return refNew(t, m)
	}
	if cause.ctxKind() >= 0 || cause.libCtx { // a cancellation / deadline is never reclassified
		return refNew(asTarget(cause), m+": "+cause.text)
	}
	return refNew(t, m+": "+cause.text)
}

func refWrapINC(t, cause ref, m string) ref {
	if t.ctxKind() >= 0 || t.libCtx {
		return refWrap(t, cause, m)
	}
	if cause.isCommon() {
		return refNew(cause, m)
	}
	return refWrap(t, cause, m)
}

func (c *chain) ref() ref {
	cur := refOf(c.Base)
	for _, o := range c.Ops {
		m := string(o.M)
		switch o.Op {
		case "New", "Newf", "Errorf":
			cur = refNew(cur, m)
		case "Wrap":
			cur = refWrap(refOf(o.T), cur, m)
		case "WrapINC":
			cur = refWrapINC(refOf(o.T), cur, m)
		case "WrapT":
			cur = refWrap(cur, refOf(o.T), m)
		case "WrapINCT":
			cur = refWrapINC(cur, refOf(o.T), m)
		}
	}
	return cur
}

// normalise: "the same reason up to whitespace around colons"
func normalise(m string) string {
	parts := strings.Split(m, ":")
	for i := range parts {
		parts[i] = strings.TrimSpace(parts[i])
	}
	return strings.Join(parts, ": ")
}

// ---------- observations ----------

func isVector(e error) []bool {
	v := make([]bool, 0, len(kinds)+2)
	for _, k := range kinds {
		v = append(v, k != nil && errors.Is(e, k))
	}
	return append(v, errors.Is(e, context.Canceled), errors.Is(e, context.DeadlineExceeded))
}

func kindsOf(e error) []int {
	var out []int
	for i, k := range kinds {
		if k != nil && errors.Is(e, k) {
			out = append(out, i)
		}
	}
	return out
}

func coqBools(v []bool) string {
	ts := make([]string, len(v))
	for i, b := range v {
		ts[i] = h.Bool(b)
	}
	return h.List(ts)
}

type dobs struct {
	status int
	err    error
	text   string
	reason string
}

func deser(text []byte) (d dobs) {
	e, err := ce.DeserialiseError(text)
	switch {
	case err != nil:
		d.status = 1
	case e == nil:
		d.status = 0
	default:
		d.status = 2
		d.err = e
		d.text = e.Error()
		d.reason, _ = ce.GetErrorReason(e)
	}
	return
}

func (d dobs) coq() string {
	if d.status != 2 {
		return fmt.Sprintf("(mkD %d [] [] [])", d.status)
	}
	return fmt.Sprintf("(mkD 2 %s %s %s)", h.Str(d.text), coqBools(isVector(d.err)), h.Str(d.reason))
}

// modelSafe: the strings stay inside the ASCII model of Bytes.v (no Unicode white space besides ASCII, no rune whose
// lower case is ASCII but which is not ASCII itself).
func modelSafe(ss ...[]byte) bool {
	for _, s := range ss {
		for i := 0; i < len(s); {
			c, n := utf8.DecodeRune(s[i:])
			i += n
			if c < utf8.RuneSelf || c == utf8.RuneError {
				continue
			}
			if unicode.IsSpace(c) || unicode.ToLower(c) < utf8.RuneSelf {
				return false
			}
		}
	}
	return true
}

func safely(r *h.Run, sc scenario, f func()) {
	defer func() {
		if p := recover(); p != nil {
			r.Fail("panic:"+sc.Kind, fmt.Sprintf("the library panicked: %v", p), sc)
		}
	}()
	f()
}

func eqInts(a, b []int) bool {
	if len(a) != len(b) {
		return false
	}
	for i := range a {
		if a[i] != b[i] {
			return false
		}
	}
	return true
}

func lastCtor(c *chain) string {
	if len(c.Ops) == 0 {
		return "none"
	}
	return c.Ops[len(c.Ops)-1].Op
}

// ---------- chain scenario ----------

func runChain(r *h.Run, sc scenario, emit bool) {
	c := sc.Chain
	r.Eval()
	r.Count(fmt.Sprintf("chain-len=%d", len(c.Ops)))
	for _, o := range c.Ops {
		r.Count("ctor=" + o.Op)
	}
	e := c.build()
	if e == nil { // base nil and no constructor applied
		return
	}
	want := c.ref()
	text := e.Error()
	got := kindsOf(e)
	ctor := lastCtor(c)
	// whenever a cancellation or a deadline is reachable by errors.Is from ANY operand (target, cause, original; sentinel,
	// raw context error or a composite mixing it with a library kind), the result is of the cancelled / timeout kind
	if len(c.Ops) > 0 {
		for _, v := range c.operands() {
			if v != nil && (errors.Is(v, context.Canceled) || errors.Is(v, context.DeadlineExceeded) || ce.Any(v, ce.ErrTimeout, ce.ErrCancelled)) && !ce.Any(e, ce.ErrTimeout, ce.ErrCancelled) {
				r.Fail("context-cause-reclassified:"+ctor, fmt.Sprintf("an operand (%q) is a cancellation / deadline but the result %q is of kinds %v", v.Error(), text, got), sc)
				break
			}
		}
	}
	oracle := len(c.Ops) > 0 && want.kind >= 0 // the property speaks of errors built by the constructors on a kind
	if oracle {
		r.Count("kind=" + kindNames[want.kind])
		k := kinds[want.kind]
		// 1. recognised as the kind it was given, by Any and by errors.Is, and as nothing else
		if !ce.Any(e, k) || !errors.Is(e, k) {
			sig := "constructor-kind-lost:" + ctor
			if want.ctxKind() >= 0 {
				sig = "context-cause-reclassified:" + ctor
			}
			r.Fail(sig, fmt.Sprintf("%q was given kind %s but Any/errors.Is do not recognise it (kinds: %v)", text, kindNames[want.kind], got), sc)
		} else if !eqInts(got, []int{want.kind}) {
			sig := "constructor-kind-extra:" + ctor
			if want.ctxKind() >= 0 {
				sig = "context-cause-reclassified:" + ctor
			}
			r.Fail(sig, fmt.Sprintf("%q was given kind %s but is recognised as kinds %v", text, kindNames[want.kind], got), sc)
		}
		if !ce.IsCommonError(e) {
			r.Fail("constructor-not-common:"+ctor, fmt.Sprintf("%q is of kind %s but IsCommonError denies it", text, kindNames[want.kind]), sc)
		}
	}
	// 2. round trip
	ser, serr := ce.SerialiseError(e)
	d := deser(ser)
	if oracle {
		class := "direct"
		if len(c.Ops) > 1 || (c.Base != nil && c.Base.K == "new") {
			class = "nested"
		}
		for _, o := range c.Ops {
			if o.T != nil && o.T.K == "new" {
				class = "nested" // the %w target may be an error that already carries a reason
			}
		}
		multiline := strings.Contains(text, "\n")
		k := kinds[want.kind]
		switch {
		case serr != nil || d.status != 2:
			r.Fail("roundtrip-failed:"+class, fmt.Sprintf("%q: serialisation error %v / deserialisation status %d", text, serr, d.status), sc)
		case !ce.Any(d.err, k):
			r.Fail("roundtrip-kind-lost:"+class, fmt.Sprintf("%q (kind %s) serialises to %q and comes back as %q of kinds %v", text, kindNames[want.kind], ser, d.text, kindsOf(d.err)), sc)
		case !multiline && !eqInts(kindsOf(d.err), []int{want.kind}):
			r.Fail("roundtrip-kind-extra:"+class, fmt.Sprintf("%q (kind %s) comes back as %q of kinds %v", text, kindNames[want.kind], d.text, kindsOf(d.err)), sc)
		case !multiline:
			// single error, single-line message: same reason up to whitespace around colons
			wantReason := normalise(strings.TrimPrefix(want.text, k.Error()+":"))
			if d.reason != wantReason {
				r.Fail("roundtrip-reason-changed:"+class, fmt.Sprintf("%q has reason %q; after the round trip (text %q) the reason is %q", text, wantReason, ser, d.reason), sc)
			}
			r.Distinct(fmt.Sprintf("%d|%s|%d", want.kind, wantReason, len(c.Ops)))
		}
	}
	_, topMulti := e.(interface{ Unwrap() []error }) // a bare composite (no constructor applied) is serialised as a join: not a chain
	if emit && modelSafe(c.strs()...) && !c.hasLibOnlyJoin() && !topMulti {
		b, ops := c.coq()
		oldCase(r, fmt.Sprintf("(CChain %s %s %s %s %s %s)", b, ops, h.Str(text), coqBools(isVector(e)), h.Bytes(ser), d.coq()), sc)
	}
	r.Sample(map[string]any{"text": text, "given_kind": want.kind, "kinds": got, "serialised": string(ser), "deserialised": d.text, "reason": d.reason})
}

// ---------- join scenario ----------

func runJoin(r *h.Run, sc scenario, emit bool) {
	r.Eval()
	r.Count(fmt.Sprintf("join-size=%d", len(sc.Chains)))
	var es []error
	var want []int
	oracle := true
	multiline := false
	var strs [][]byte
	for i := range sc.Chains {
		c := &sc.Chains[i]
		e := c.build()
		if e == nil {
			return
		}
		es = append(es, e)
		w := c.ref()
		if w.kind < 0 {
			oracle = false
		}
		want = append(want, w.kind)
		multiline = multiline || strings.Contains(e.Error(), "\n")
		strs = append(strs, c.strs()...)
	}
	j := errors.Join(es...)
	ser, serr := ce.SerialiseError(j)
	d := deser(ser)
	if oracle {
		switch {
		case serr != nil || d.status != 2:
			r.Fail("roundtrip-failed:join", fmt.Sprintf("%q: serialisation error %v / deserialisation status %d", j.Error(), serr, d.status), sc)
		default:
			got := kindsOf(d.err)
			ws := append([]int{}, want...)
			sort.Ints(ws)
			var uniq []int
			for i, k := range ws {
				if i == 0 || ws[i-1] != k {
					uniq = append(uniq, k)
				}
			}
			for _, k := range uniq {
				if !ce.Any(d.err, kinds[k]) {
					r.Fail("roundtrip-kind-lost:join", fmt.Sprintf("join %q of kinds %v comes back as %q of kinds %v", j.Error(), uniq, d.text, got), sc)
					break
				}
			}
			if !multiline && !eqInts(got, uniq) && !r.Failed("roundtrip-kind-lost:join") {
				r.Fail("roundtrip-kind-extra:join", fmt.Sprintf("join %q of kinds %v comes back as %q of kinds %v", j.Error(), uniq, d.text, got), sc)
			}
			r.Distinct(fmt.Sprintf("join|%v|%x", want, j.Error()))
		}
	}
	if emit && modelSafe(strs...) {
		cs := make([]string, len(sc.Chains))
		for i := range sc.Chains {
			b, ops := sc.Chains[i].coq()
			cs[i] = "(" + b + ", " + ops + ")"
		}
		oldCase(r, fmt.Sprintf("(CJoin %s %s %s)", h.List(cs), h.Bytes(ser), d.coq()), sc)
	}
}

// ---------- raw text to the deserialiser ----------

func runDeser(r *h.Run, sc scenario, emit bool) {
	r.Eval()
	r.Count("raw-text")
	d := deser(sc.Text)
	if emit && modelSafe(sc.Text) {
		oldCase(r, fmt.Sprintf("(CDeser %s %s)", h.Bytes(sc.Text), d.coq()), sc)
	}
}

// ---------- converters ----------

type cond struct {
	name string
	err  error
	want error // the kind the converter must give; nil = "left as it is" (checked: unchanged kinds)
	bare bool  // recognised only through os.IsTimeout, which does not look through fmt wrappers: not tried wrapped
}

func fsConds() []cond {
	pe := func(e error) error { return &os.PathError{Op: "open", Path: "/x/y", Err: e} }
	le := func(e error) error { return &os.LinkError{Op: "rename", Old: "/a", New: "/b", Err: e} }
	se := func(e error) error { return os.NewSyscallError("read", e) }
	return []cond{
		{name: "context.Canceled", err: context.Canceled, want: ce.ErrCancelled},
		{name: "context.DeadlineExceeded", err: context.DeadlineExceeded, want: ce.ErrTimeout},
		{name: "PathError(context.Canceled)", err: pe(context.Canceled), want: ce.ErrCancelled},
		{name: "ErrTimeout", err: ce.New(ce.ErrTimeout, "late"), want: ce.ErrTimeout},
		{name: "ErrCancelled", err: ce.ErrCancelled, want: ce.ErrCancelled},
		{name: "os.ErrDeadlineExceeded", err: os.ErrDeadlineExceeded, want: ce.ErrTimeout},
		{name: "PathError(os.ErrDeadlineExceeded)", err: pe(os.ErrDeadlineExceeded), want: ce.ErrTimeout},
		{name: "ETIMEDOUT", err: syscall.ETIMEDOUT, want: ce.ErrTimeout},
		{name: "PathError(ETIMEDOUT)", err: pe(syscall.ETIMEDOUT), want: ce.ErrTimeout},
		{name: "SyscallError(EAGAIN)", err: se(syscall.EAGAIN), want: ce.ErrTimeout},
		{name: "text i/o timeout", err: errors.New("read tcp 1.2.3.4: i/o timeout"), want: ce.ErrTimeout},
		{name: "os.ErrExist", err: os.ErrExist, want: ce.ErrExists},
		{name: "afero.ErrFileExists", err: afero.ErrFileExists, want: ce.ErrExists},
		{name: "afero.ErrDestinationExists", err: afero.ErrDestinationExists, want: ce.ErrExists},
		{name: "EEXIST", err: syscall.EEXIST, want: ce.ErrExists},
		{name: "PathError(EEXIST)", err: pe(syscall.EEXIST), want: ce.ErrExists},
		{name: "LinkError(EEXIST)", err: le(syscall.EEXIST), want: ce.ErrExists},
		{name: "PathError(ENOTEMPTY)", err: pe(syscall.ENOTEMPTY), want: ce.ErrExists},
		{name: "text file already exists", err: errors.New("mkdir /x: File Already Exists"), want: ce.ErrExists},
		{name: "text bad file descriptor", err: errors.New("write /x: bad file descriptor"), want: ce.ErrConflict},
		{name: "EBADF", err: syscall.EBADF, want: ce.ErrConflict},
		{name: "PathError(EBADF)", err: pe(syscall.EBADF), want: ce.ErrConflict},
		{name: "os.ErrPermission", err: os.ErrPermission, want: ce.ErrConflict},
		{name: "EACCES", err: syscall.EACCES, want: ce.ErrConflict},
		{name: "PathError(EACCES)", err: pe(syscall.EACCES), want: ce.ErrConflict},
		{name: "PathError(EPERM)", err: pe(syscall.EPERM), want: ce.ErrConflict},
		{name: "os.ErrClosed", err: os.ErrClosed, want: ce.ErrConflict},
		{name: "PathError(os.ErrClosed)", err: pe(os.ErrClosed), want: ce.ErrConflict},
		{name: "afero.ErrFileClosed", err: afero.ErrFileClosed, want: ce.ErrConflict},
		{name: "filesystem.ErrPathNotExist", err: filesystem.ErrPathNotExist, want: ce.ErrConflict},
		{name: "io.ErrClosedPipe", err: io.ErrClosedPipe, want: ce.ErrConflict},
		{name: "os.ErrNotExist", err: os.ErrNotExist, want: ce.ErrNotFound},
		{name: "ENOENT", err: syscall.ENOENT, want: ce.ErrNotFound},
		{name: "PathError(ENOENT)", err: pe(syscall.ENOENT), want: ce.ErrNotFound},
		{name: "LinkError(ENOENT)", err: le(syscall.ENOENT), want: ce.ErrNotFound},
		{name: "afero.ErrFileNotFound", err: afero.ErrFileNotFound, want: ce.ErrNotFound},
		{name: "os.ErrNoDeadline", err: os.ErrNoDeadline, want: ce.ErrUnsupported},
		{name: "ENOTSUP", err: syscall.ENOTSUP, want: ce.ErrUnsupported},
		{name: "os.ErrInvalid", err: os.ErrInvalid, want: ce.ErrInvalid},
		{name: "PathError(os.ErrInvalid)", err: pe(os.ErrInvalid), want: ce.ErrInvalid},
		{name: "afero.ErrOutOfRange", err: afero.ErrOutOfRange, want: ce.ErrOutOfRange},
		{name: "afero.ErrTooLarge", err: afero.ErrTooLarge, want: ce.ErrTooLarge},
		{name: "filesystem.ErrChownNotImplemented", err: filesystem.ErrChownNotImplemented, want: ce.ErrNotImplemented},
		{name: "filesystem.ErrLinkNotImplemented", err: filesystem.ErrLinkNotImplemented, want: ce.ErrNotImplemented},
		{name: "io.ErrUnexpectedEOF", err: io.ErrUnexpectedEOF, want: ce.ErrEOF},
		{name: "io.EOF", err: io.EOF, want: nil},
		{name: "other", err: errors.New("something else went wrong"), want: nil},
		{name: "ErrLocked", err: ce.New(ce.ErrLocked, "held"), want: ce.ErrLocked},
	}
}

func procConds() []cond {
	return []cond{
		{name: "context.Canceled", err: context.Canceled, want: ce.ErrCancelled},
		{name: "context.DeadlineExceeded", err: context.DeadlineExceeded, want: ce.ErrTimeout},
		{name: "exec.ErrWaitDelay", err: exec.ErrWaitDelay, want: ce.ErrTimeout},
		{name: "exec.ErrDot", err: exec.ErrDot, want: ce.ErrNotFound},
		{name: "exec.ErrNotFound", err: exec.ErrNotFound, want: ce.ErrNotFound},
		{name: "exec.Error(ErrNotFound)", err: &exec.Error{Name: "nope", Err: exec.ErrNotFound}, want: ce.ErrNotFound},
		{name: "text Access is denied", err: errors.New("OpenProcess: Access is denied."), want: ce.ErrNotFound},
		{name: "text not implemented", err: errors.New("not implemented yet"), want: ce.ErrNotImplemented},
		{name: "ErrNotImplemented", err: ce.ErrNotImplemented, want: ce.ErrNotImplemented},
		{name: "other", err: errors.New("something else went wrong"), want: nil},
		{name: "ErrLocked", err: ce.New(ce.ErrLocked, "held"), want: ce.ErrLocked},
	}
}

func ioConds() []cond {
	return []cond{
		{name: "context.Canceled", err: context.Canceled, want: ce.ErrCancelled},
		{name: "context.DeadlineExceeded", err: context.DeadlineExceeded, want: ce.ErrTimeout},
		{name: "io.EOF", err: io.EOF, want: ce.ErrEOF},
		{name: "io.ErrUnexpectedEOF", err: io.ErrUnexpectedEOF, want: ce.ErrEOF},
		{name: "ErrEOF", err: ce.ErrEOF, want: ce.ErrEOF},
		{name: "New(ErrEOF)", err: ce.New(ce.ErrEOF, "short"), want: ce.ErrEOF},
		{name: "other", err: errors.New("something else went wrong"), want: nil},
		{name: "ErrLocked", err: ce.New(ce.ErrLocked, "held"), want: ce.ErrLocked},
	}
}

func converter(name string) (func(error) error, []cond) {
	switch name {
	case "fs":
		return filesystem.ConvertFileSystemError, fsConds()
	case "proc":
		return proc.ConvertProcessError, procConds()
	default:
		return safeio.ConvertIOError, ioConds()
	}
}

func kindIndex(e error) int {
	for i, k := range kinds {
		if k == e {
			return i
		}
	}
	return -1
}

func runConv(r *h.Run, sc scenario) {
	conv, conds := converter(sc.Conv)
	for _, c := range conds {
		if sc.Cond != "" && sc.Cond != c.name {
			continue
		}
		for _, wrapped := range []bool{false, true} {
			in := c.err
			name := c.name
			if wrapped && c.bare {
				continue
			}
			if wrapped {
				in = fmt.Errorf("while testing: %w", c.err)
				name = "wrapped " + name
			}
			r.Eval()
			r.Count("converter=" + sc.Conv)
			rsc := scenario{Kind: "conv", Conv: sc.Conv, Cond: c.name}
			out := conv(in)
			if out == nil {
				r.Fail("converter-dropped-error:"+sc.Conv, fmt.Sprintf("%s(%s) returned nil", sc.Conv, name), rsc)
				continue
			}
			got := kindsOf(out)
			var want []int
			if c.want != nil {
				want = []int{kindIndex(c.want)}
			} else {
				want = kindsOf(in)
			}
			if !eqInts(got, want) {
				sig := "converter-kind:" + sc.Conv
				if errors.Is(in, context.Canceled) || errors.Is(in, context.DeadlineExceeded) || ce.Any(in, ce.ErrTimeout, ce.ErrCancelled) {
					sig = "converter-context-reclassified:" + sc.Conv
				}
				r.Fail(sig, fmt.Sprintf("%s converter maps %s (%q) to kinds %v (%q), expected %v", sc.Conv, name, in.Error(), got, out.Error(), want), rsc)
				continue
			}
			// stable: converting the result again, or converting it after it has been wrapped, gives the same kind
			again := conv(out)
			if again == nil || !eqInts(kindsOf(again), got) {
				r.Fail("converter-not-idempotent:"+sc.Conv, fmt.Sprintf("%s converter maps %s to kinds %v but its own result to %v", sc.Conv, name, got, kindsOf(again)), rsc)
			}
			r.Distinct("conv|" + sc.Conv + "|" + name)
		}
	}
}

func runConvIO(r *h.Run, sc scenario, emit bool) {
	r.Eval()
	r.Count("converter=io(model)")
	in := sc.Spec.value()
	out := safeio.ConvertIOError(in)
	if out == nil {
		r.Fail("converter-dropped-error:io", "ConvertIOError returned nil for a non-nil error", sc)
		return
	}
	if emit && modelSafe(sc.Spec.strs()...) {
		oldCase(r, fmt.Sprintf("(CConvIO %s %s %s)", sc.Spec.coqErr(), h.Str(out.Error()), coqBools(isVector(out))), sc)
	}
}

func run(r *h.Run, sc scenario, emit bool) {
	safely(r, sc, func() {
		switch sc.Kind {
		case "chain":
			runChain(r, sc, emit)
		case "join":
			runJoin(r, sc, emit)
		case "deser":
			runDeser(r, sc, emit)
		case "conv":
			runConv(r, sc)
		case "convio":
			runConvIO(r, sc, emit)
		case "backend":
			runBackend(r, *sc.Backend, emit)
		case "lib":
			runLib(r, *sc.Lib, emit)
		case "composite":
			bases := map[string]bval{}
			for _, b := range baseValues() {
				bases[b.name] = b
			}
			runComposite(r, *sc.Composite, bases, emit)
		}
	})
}

// ---------- generators ----------

var corpus = []string{
	"", " ", "foo", "some reason", "a: b", " a : b ", "a:b:c", ":", "::", ": :", "a:", ":a", " : a : ",
	"not found", "invalid: x", "timeout", "cancelled", "unknown: not found: warning", "already exists", "INVALID", "Not Found",
	"context canceled", "context deadline exceeded",
	"h\u00e9llo w\u00f6rld \u2713", "\u65e5\u672c\u8a9e: \u30c6\u30b9\u30c8", "\t tabbed\t", "cr\r", "\x0bvt\x0c",
	"100% %v %d %s %w %!", "a\xffb\xc3", "foo\u00a0", "\u2003em: space\u2003", "un\u212anown", "\u0130nvalid",
}

var multiline = []string{"a\nb", "first line\nnot found: second", "\nfoo", "foo\n", "a: b\n\nc: d", "x\r\ny"}

func randMsg(r *h.Run) []byte {
	alphabet := []string{"a", "b", "Z", " ", " ", ":", ":", "\t", "\u00e9", "not found", "invalid", "lock", "timeout", "-", "%", "\u00a0"}
	n := r.Rng.Intn(7)
	var b strings.Builder
	for i := 0; i < n; i++ {
		b.WriteString(alphabet[r.Rng.Intn(len(alphabet))])
	}
	return []byte(b.String())
}

func genMsg(r *h.Run, allowMultiline bool) []byte {
	switch x := r.Rng.Intn(10); {
	case x < 5:
		return []byte(corpus[r.Rng.Intn(len(corpus))])
	case x == 5 && allowMultiline:
		return []byte(multiline[r.Rng.Intn(len(multiline))])
	default:
		return randMsg(r)
	}
}

func randKind(r *h.Run) int {
	for {
		k := r.Rng.Intn(len(kinds))
		if kinds[k] != nil {
			return k
		}
	}
}

func genSpec(r *h.Run, role string) *spec {
	// role: base | target | cause
	x := r.Rng.Intn(20)
	switch {
	case x < 9 && role != "cause":
		return &spec{K: "sent", Kind: randKind(r)}
	case x < 3 && role == "cause":
		return &spec{K: "sent", Kind: randKind(r)}
	case x < 6 && role == "cause":
		return &spec{K: "new", Kind: randKind(r), M: genMsg(r, false)}
	case x < 10 && role == "cause":
		return &spec{K: "opaque", M: append([]byte("boom "), genMsg(r, false)...)}
	case x < 11:
		return &spec{K: "nil"}
	case x < 12:
		cs := compositeSpecs()
		return cs[r.Rng.Intn(len(cs))]
	case x < 13:
		return &spec{K: "canceled"}
	case x < 15:
		return &spec{K: "deadline"}
	case x < 17:
		in := &spec{K: "canceled"}
		if r.Rng.Intn(2) == 0 {
			in = &spec{K: "deadline"}
		}
		return &spec{K: "fwrap", M: []byte("rpc failed"), Inner: in}
	case x < 18:
		return &spec{K: "sent", Kind: []int{kTimeout, kCancelled}[r.Rng.Intn(2)]}
	case x < 19:
		return &spec{K: "new", Kind: randKind(r), M: genMsg(r, false)}
	default:
		o := &spec{K: "opaque", M: append([]byte("failure "), genMsg(r, false)...)}
		if r.Rng.Intn(2) == 0 { // a foreign wrapper around a foreign error (*PathError-like): "open /x: failure ..."
			return &spec{K: "fwrap", M: []byte("open /x"), Inner: o}
		}
		return o
	}
}

// compositeSpecs: errors that are a library kind AND a context error at the same time (double %w, errors.Join, nested
// constructors' results), in either order and at several depths; plus composites of two library kinds
func compositeSpecs() []*spec {
	unav := kindIndex(ce.ErrUnavailable)
	conf := kindIndex(ce.ErrConflict)
	inv := kindIndex(ce.ErrInvalid)
	libs := []*spec{{K: "new", Kind: unav, M: []byte("busy")}, {K: "sent", Kind: conf}}
	ctxs := []*spec{{K: "canceled"}, {K: "deadline"}, {K: "fwrap", M: []byte("rpc failed"), Inner: &spec{K: "deadline"}},
		{K: "wrapof", Kind: inv, M: []byte("inner step"), Inner: &spec{K: "canceled"}}, {K: "new", Kind: kTimeout, M: []byte("late")}}
	var out []*spec
	for li, a := range libs {
		for ci, c := range ctxs {
			k := []string{"multi", "join"}[(li+ci)%2]
			k2 := []string{"join", "multi"}[(li+ci)%2]
			out = append(out, &spec{K: k, M: []byte("and"), Inner: a, Inner2: c}, &spec{K: k2, M: []byte("then"), Inner: c, Inner2: a})
		}
	}
	op := &spec{K: "opaque", M: []byte("boom")}
	out = append(out,
		&spec{K: "multi", M: []byte("outer"), Inner: &spec{K: "multi", M: []byte("in"), Inner: libs[0], Inner2: op}, Inner2: &spec{K: "deadline"}},
		&spec{K: "join", Inner: op, Inner2: &spec{K: "join", Inner: &spec{K: "canceled"}, Inner2: libs[1]}},
		&spec{K: "multi", M: []byte("both"), Inner: &spec{K: "deadline"}, Inner2: &spec{K: "canceled"}},
		&spec{K: "fwrap", M: []byte("layer"), Inner: &spec{K: "multi", M: []byte("and"), Inner: libs[0], Inner2: &spec{K: "canceled"}}},
		&spec{K: "multi", M: []byte("and"), Inner: libs[0], Inner2: libs[1]},
		&spec{K: "multi", M: []byte("and"), Inner: op, Inner2: &spec{K: "deadline"}},
	)
	return out
}

// compositeSweep: every composite in every operand position of every constructor
func compositeSweep(r *h.Run) {
	inv := kindIndex(ce.ErrInvalid)
	nf := kindIndex(ce.ErrNotFound)
	m := []byte("while working")
	opq := &spec{K: "opaque", M: []byte("cause")}
	for _, x := range compositeSpecs() {
		var cs []chain
		for _, ctor := range []string{"New", "Newf", "Errorf"} { // x is the target
			cs = append(cs, chain{Base: x, Ops: []op{{Op: ctor, M: m}}}, chain{Base: x, Ops: []op{{Op: ctor, M: m, F: true}}})
		}
		for _, cause := range []*spec{{K: "nil"}, opq, {K: "new", Kind: nf, M: []byte("gone")}} { // x is the target of the wrappers
			cs = append(cs, chain{Base: x, Ops: []op{{Op: "WrapT", T: cause, M: m}}}, chain{Base: x, Ops: []op{{Op: "WrapINCT", T: cause, M: m}}})
		}
		for _, base := range []*spec{sent(inv), {K: "new", Kind: nf, M: []byte("gone")}, opq, {K: "nil"}} { // x is the target, the chain so far the cause / original
			cs = append(cs, chain{Base: base, Ops: []op{{Op: "Wrap", T: x, M: m}}}, chain{Base: base, Ops: []op{{Op: "WrapINC", T: x, M: m, F: true}}})
		}
		for _, t := range []*spec{sent(inv), {K: "nil"}, {K: "new", Kind: kTimeout, M: []byte("late")}} { // x is the cause / original
			cs = append(cs, chain{Base: x, Ops: []op{{Op: "Wrap", T: t, M: m}}}, chain{Base: x, Ops: []op{{Op: "WrapINC", T: t, M: m}}})
		}
		cs = append(cs, chain{Base: x, Ops: []op{{Op: "New", M: m}, {Op: "WrapINC", T: sent(inv), M: []byte("outer")}, {Op: "Errorf", M: []byte("again")}}})
		for i := range cs {
			run(r, scenario{Kind: "chain", Chain: &cs[i]}, true)
		}
	}
}

var opNames = []string{"New", "Newf", "Errorf", "Wrap", "WrapINC", "WrapT", "WrapINCT"}

func genChain(r *h.Run, n int, allowMultiline bool) chain {
	c := chain{Base: genSpec(r, "base")}
	for i := 0; i < n; i++ {
		o := op{Op: opNames[r.Rng.Intn(len(opNames))], M: genMsg(r, allowMultiline), F: r.Rng.Intn(4) == 0}
		switch o.Op {
		case "Wrap", "WrapINC":
			o.T = genSpec(r, "target")
		case "WrapT", "WrapINCT":
			o.T = genSpec(r, "cause")
		}
		c.Ops = append(c.Ops, o)
	}
	return c
}

func sent(k int) *spec { return &spec{K: "sent", Kind: k} }

func main() {
	r := h.Init("C11")
	r.Imports = []string{"GU.C11.Model", "GU.C11.Conv"}
	r.CaseType = "case2"
	r.CheckFn = "check_case2"
	r.ShardSize = 150
	r.Rule("every kind of the generated table x message corpus (empty, colons, blanks, other kinds' names, unicode, invalid UTF-8, percent signs; multi-line for the kind part) x every constructor; " +
		"seeded chains of 0..4 constructor applications mixing New/Newf/Errorf/WrapError(f)/WrapIfNotCommonError(f) in target and in cause position with nil / sentinel / context / foreign-wrapped context / opaque arguments; joins of 1..4 such errors; raw and malformed text to DeserialiseError; " +
		"every backend error value the three converters mention, bare and wrapped. non-trivial = an error with a kind whose round trip was compared; distinct by (kind, normalised reason, chain length) resp. join text resp. converter condition")
	loadKinds(r)

	var sc scenario
	if _, ok := r.ReplayObject(&sc); ok {
		run(r, sc, false)
		r.Finish()
		return
	}

	inv := kindIndex(ce.ErrInvalid)
	nf := kindIndex(ce.ErrNotFound)

	// --- backend error values through the converters (known finding first)
	safely(r, scenario{Kind: "backend"}, func() { backendSweep(r) })
	safely(r, scenario{Kind: "lib"}, func() { libSweep(r) })
	safely(r, scenario{Kind: "composite"}, func() { compositeBackendSweep(r) })

	// --- corpus first: the confirmed defect D18 and its variants (reason duplicated when the target is itself reasoned)
	run(r, scenario{Kind: "chain", Chain: &chain{Base: sent(inv), Ops: []op{{Op: "New", M: []byte("foo")}, {Op: "New", M: []byte("bar")}}}}, true)
	run(r, scenario{Kind: "chain", Chain: &chain{Base: sent(nf), Ops: []op{{Op: "New", M: []byte("x")}, {Op: "WrapINC", T: sent(inv), M: []byte("m")}}}}, true)
	run(r, scenario{Kind: "chain", Chain: &chain{Base: sent(inv), Ops: []op{{Op: "Errorf", M: []byte("a")}, {Op: "Newf", M: []byte("b")}, {Op: "WrapT", T: &spec{K: "opaque", M: []byte("boom")}, M: []byte("c")}}}}, true)
	run(r, scenario{Kind: "chain", Chain: &chain{Base: &spec{K: "canceled"}, Ops: []op{{Op: "Wrap", T: sent(inv), M: []byte("m")}, {Op: "Wrap", T: sent(nf), M: []byte("outer")}}}}, true)

	// chains whose root is not a kind: the patched serialiser descends only while the "type: reason" convention holds
	pathErr := &spec{K: "fwrap", M: []byte("open /x"), Inner: &spec{K: "opaque", M: []byte("no such file or directory")}}
	run(r, scenario{Kind: "chain", Chain: &chain{Base: pathErr, Ops: []op{{Op: "New", M: []byte("msg")}}}}, true)
	run(r, scenario{Kind: "chain", Chain: &chain{Base: pathErr, Ops: []op{{Op: "Errorf", M: []byte("msg")}, {Op: "Newf", M: []byte("again")}}}}, true)
	run(r, scenario{Kind: "chain", Chain: &chain{Base: pathErr, Ops: []op{{Op: "WrapT", T: &spec{K: "opaque", M: []byte("cause")}, M: []byte("msg")}}}}, true)
	run(r, scenario{Kind: "chain", Chain: &chain{Base: &spec{K: "opaque", M: []byte("boom")}, Ops: []op{{Op: "New", M: []byte("a")}, {Op: "New", M: []byte("b")}}}}, true)
	run(r, scenario{Kind: "join", Chains: []chain{{Base: pathErr, Ops: []op{{Op: "New", M: []byte("msg")}}}, {Base: sent(nf), Ops: []op{{Op: "New", M: []byte("x")}}}}}, true)

	// --- composites (a library kind AND a context error) in every operand position of every constructor
	compositeSweep(r)

	// --- every kind x every corpus message x direct constructors
	emitEvery := r.N(4, 1)
	n := 0
	for k := range kinds {
		if kinds[k] == nil {
			continue
		}
		for mi, m := range corpus {
			for ci, ctor := range []string{"New", "Newf", "Errorf", "Wrap", "WrapINC"} {
				o := op{Op: ctor, M: []byte(m), F: (mi+ci+k)%5 == 0}
				base := sent(k)
				if ctor == "Wrap" || ctor == "WrapINC" {
					// the kind is the TARGET; the cause is an opaque error (Wrap) / nil (WrapINC)
					o.T = sent(k)
					base = &spec{K: "opaque", M: []byte("cause")}
					if ctor == "WrapINC" {
						base = &spec{K: "nil"}
					}
				}
				n++
				run(r, scenario{Kind: "chain", Chain: &chain{Base: base, Ops: []op{o}}}, (n+k)%emitEvery == 0 && (ci == 0 || n%7 == 0))
			}
		}
		for _, m := range multiline {
			run(r, scenario{Kind: "chain", Chain: &chain{Base: sent(k), Ops: []op{{Op: "New", M: []byte(m)}}}}, k%5 == 0)
		}
		// the bare sentinel and its text through the deserialiser
		run(r, scenario{Kind: "chain", Chain: &chain{Base: sent(k)}}, true)
		run(r, scenario{Kind: "deser", Text: []byte(kinds[k].Error())}, true)
		run(r, scenario{Kind: "deser", Text: []byte("  " + kinds[k].Error() + " :  reason: more ")}, true)
		run(r, scenario{Kind: "deser", Text: []byte(strings.ToUpper(kinds[k].Error()) + ": shouted")}, true)
		// context causes against every target kind: never reclassified
		for _, cause := range []*spec{{K: "canceled"}, {K: "deadline"}, {K: "fwrap", M: []byte("rpc"), Inner: &spec{K: "deadline"}}, {K: "new", Kind: kCancelled, M: []byte("stopped")}, {K: "new", Kind: kTimeout, M: []byte("late")}} {
			for _, ctor := range []string{"Wrap", "WrapINC"} {
				run(r, scenario{Kind: "chain", Chain: &chain{Base: cause, Ops: []op{{Op: ctor, T: sent(k), M: []byte("while working")}}}}, k%6 == 0)
			}
		}
	}

	// --- raw / malformed text: fragments of kind texts (the 30-way switch tests whether the SENTINEL contains the text)
	frags := []string{"", " ", "\n", ":", " : ", "not", "found", "lock", "locked", "stale", "in", "invalid destination: x", "missing", "missing log", "source",
		"e", "un", "unknown error", "exists", "already", "file", "end", "range", "large", "warn", "warning: invalid: x", "time", "out", "user", "condition",
		"nothing like a kind", "a\nb", "invalid\nnot found", "invalid: a\n\n  \nnot found: b\n", "\n\n", ":\n:", "x:\n", "invalid: a\nwhatever: b", "logger", "ed", "d c", "failed  condition"}
	for _, f := range frags {
		run(r, scenario{Kind: "deser", Text: []byte(f)}, true)
	}
	nRaw := r.N(150, 3000)
	for i := 0; i < nRaw; i++ {
		var t []byte
		switch r.Rng.Intn(4) {
		case 0: // substring of a kind text
			kt := kinds[randKind(r)].Error()
			a := r.Rng.Intn(len(kt))
			b := a + 1 + r.Rng.Intn(len(kt)-a)
			t = []byte(kt[a:b])
			if r.Rng.Intn(2) == 0 {
				t = append(t, []byte(": "+string(randMsg(r)))...)
			}
		case 1: // kind text with decoration
			kt := kinds[randKind(r)].Error()
			t = []byte(string(randMsg(r)) + kt + string(randMsg(r)))
		case 2:
			t = bytes.Join([][]byte{randMsg(r), randMsg(r), randMsg(r)}, []byte("\n"))
		default:
			t = randMsg(r)
		}
		run(r, scenario{Kind: "deser", Text: t}, true)
	}

	// --- seeded chains
	nChains := r.N(500, 20000)
	for i := 0; i < nChains; i++ {
		c := genChain(r, r.Rng.Intn(5), r.Rng.Intn(6) == 0)
		run(r, scenario{Kind: "chain", Chain: &c}, i < r.N(350, 1500))
	}

	// --- joins of 1..4 errors
	nJoins := r.N(200, 6000)
	for i := 0; i < nJoins; i++ {
		size := 1 + r.Rng.Intn(4)
		var cs []chain
		ml := r.Rng.Intn(8) == 0
		for j := 0; j < size; j++ {
			c := genChain(r, 1+r.Rng.Intn(3), ml)
			if r.Rng.Intn(3) > 0 { // mostly kinded
				c.Base = sent(randKind(r))
			}
			if i%10 == 0 && j == 0 {
				c.Ops = nil
				c.Base = sent(randKind(r)) // a bare sentinel inside a join
			}
			cs = append(cs, c)
		}
		run(r, scenario{Kind: "join", Chains: cs}, i < r.N(120, 600))
	}

	// --- converters
	for _, cv := range []string{"fs", "proc", "io"} {
		run(r, scenario{Kind: "conv", Conv: cv}, false)
	}
	for _, s := range []*spec{{K: "foreign", F: 0}, {K: "foreign", F: 1}, {K: "canceled"}, {K: "deadline"}, sent(kEOF), {K: "new", Kind: kEOF, M: []byte("short")},
		{K: "fwrap", M: []byte("read"), Inner: &spec{K: "foreign", F: 0}}, {K: "fwrap", M: []byte("read"), Inner: &spec{K: "foreign", F: 1}},
		{K: "fwrap", M: []byte("read"), Inner: &spec{K: "canceled"}}, {K: "opaque", M: []byte("other")}, sent(inv), {K: "new", Kind: kTimeout, M: []byte("late")}} {
		run(r, scenario{Kind: "convio", Spec: s}, true)
	}
	r.Finish()
}
