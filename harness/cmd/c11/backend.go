// Backend error values for the converters (second half of C11): every value the converters' rule tables mention,
// the errnos behind os.IsTimeout / IsExist / IsNotExist / IsPermission, the texts the text predicates look for —
// bare and under frames (*PathError / *LinkError / *SyscallError, fmt.Errorf %w, errors.Join) to any depth.
//
// Cross-check of the Coq model (coq/C11/Conv.v over the GENERATED rule tables coq/C11/GenConv.v): every value is
// emitted as a Coq term together with what the real converters return for it (nil / text / kinds) and with its own
// text, Timeout() method and errors.Is relation to every other value.
// Oracle (independent of the model): a converter gives a backend condition the same kinds whatever the wrapping, is
// idempotent at kind level, and lets context errors through as cancelled / timeout.
package main

import (
	"context"
	"encoding/json"
	"errors"
	"fmt"
	"io"
	"os"
	"os/exec"
	"strings"
	"syscall"

	"github.com/spf13/afero"

	ce "github.com/ARM-software/golang-utils/utils/commonerrors"
	"github.com/ARM-software/golang-utils/utils/filesystem"
	"github.com/ARM-software/golang-utils/utils/platform"
	"github.com/ARM-software/golang-utils/utils/proc"
	"github.com/ARM-software/golang-utils/utils/safeio"

	"verif/harness/internal/h"
)

func oldCase(r *h.Run, term string, desc any) { r.Case("(Old "+term+")", desc) }

type bval struct {
	name string
	val  error
	coq  string
}

func named(name string, v error) bval { return bval{name, v, fmt.Sprintf("(tv %q%%string)", name)} }
func errno(n syscall.Errno) bval {
	return bval{fmt.Sprintf("errno(%d)", int(n)), n, fmt.Sprintf("(BErrno %d)", int(n))}
}
func opaque(s string) bval {
	return bval{"errors.New(" + s + ")", errors.New(s), "(BOpaque " + h.Str(s) + ")"}
}

// the base conditions: one entry per named value of the model's [foreign] table (aliases too), per errno of its
// [errno_table], per string of the text predicates, the context errors, and an unrelated error
func baseValues() []bval {
	vs := []bval{
		named("os.ErrExist", os.ErrExist), named("afero.ErrFileExists", afero.ErrFileExists), named("afero.ErrDestinationExists", afero.ErrDestinationExists),
		named("os.ErrNotExist", os.ErrNotExist), named("afero.ErrFileNotFound", afero.ErrFileNotFound),
		named("os.ErrPermission", os.ErrPermission), named("os.ErrClosed", os.ErrClosed), named("os.ErrDeadlineExceeded", os.ErrDeadlineExceeded),
		named("os.ErrNoDeadline", os.ErrNoDeadline), named("os.ErrInvalid", os.ErrInvalid), named("io.ErrClosedPipe", io.ErrClosedPipe),
		named("io.EOF", io.EOF), named("io.ErrUnexpectedEOF", io.ErrUnexpectedEOF), named("afero.ErrOutOfRange", afero.ErrOutOfRange),
		named("afero.ErrTooLarge", afero.ErrTooLarge), named("afero.ErrFileClosed", afero.ErrFileClosed),
		named("filesystem.ErrPathNotExist", filesystem.ErrPathNotExist), named("filesystem.ErrChownNotImplemented", filesystem.ErrChownNotImplemented),
		named("filesystem.ErrLinkNotImplemented", filesystem.ErrLinkNotImplemented),
		named("exec.ErrWaitDelay", exec.ErrWaitDelay), named("exec.ErrDot", exec.ErrDot), named("exec.ErrNotFound", exec.ErrNotFound),
		named("os.ErrProcessDone", os.ErrProcessDone),
		named("context.Canceled", context.Canceled), named("context.DeadlineExceeded", context.DeadlineExceeded),
	}
	for _, n := range []syscall.Errno{1, 2, 3, 5, 9, 11, 13, 17, 22, 38, 39, 95, 110} {
		vs = append(vs, errno(n))
	}
	for _, s := range []string{"not supported", "i/o timeout", "file exists", "file already exists", "bad file descriptor", "signal: killed", "signal: terminated",
		"Access is denied", "not implemented", "read tcp 10.0.0.1:80: I/O Timeout", "OpenProcess: Access is denied.", "something else went wrong"} {
		vs = append(vs, opaque(s))
	}
	for i, k := range kinds {
		if k != nil {
			vs = append(vs, bval{kindNames[i], k, fmt.Sprintf("(BK %d%%nat)", i)})
		}
	}
	return vs
}

// fr: a frame; K = path | link | syscall | wrap | joinl
type fr struct {
	K   string `json:"k"`
	Pre string `json:"pre"`
}

func (f fr) apply(v bval) bval {
	switch f.K {
	case "path":
		e := &os.PathError{Op: "open", Path: f.Pre, Err: v.val}
		return bval{"PathError(" + v.name + ")", e, "(BPath true " + h.Str("open "+f.Pre) + " " + v.coq + ")"}
	case "link":
		e := &os.LinkError{Op: "rename", Old: f.Pre, New: "/b", Err: v.val}
		return bval{"LinkError(" + v.name + ")", e, "(BPath false " + h.Str("rename "+f.Pre+" /b") + " " + v.coq + ")"}
	case "syscall":
		e := os.NewSyscallError(f.Pre, v.val)
		return bval{"SyscallError(" + v.name + ")", e, "(BPath true " + h.Str(f.Pre) + " " + v.coq + ")"}
	case "wrap":
		e := fmt.Errorf("%s: %w", f.Pre, v.val)
		return bval{"wrapped(" + v.name + ")", e, "(apply_frame (FWrap " + h.Str(f.Pre) + ") " + v.coq + ")"}
	default:
		e := errors.Join(errors.New(f.Pre), v.val)
		return bval{"joined(" + v.name + ")", e, "(apply_frame (FJoinL " + h.Str(f.Pre) + ") " + v.coq + ")"}
	}
}

func plug(fs []fr, v bval) bval { // outermost frame first
	for i := len(fs) - 1; i >= 0; i-- {
		v = fs[i].apply(v)
	}
	return v
}

var frameSets = [][]fr{
	{},
	{{"path", "/x/y"}},
	{{"link", "/a"}},
	{{"syscall", "read"}},
	{{"wrap", "while testing"}},
	{{"joinl", "cleanup failed too"}},
	{{"wrap", "while testing"}, {"path", "/x/y"}},
	{{"path", "/x/y"}, {"wrap", "layer"}},
	{{"path", "/x/y"}, {"path", "/z"}},
	{{"syscall", "read"}, {"link", "/a"}},
	{{"path", "/x/y"}, {"wrap", "layer"}, {"syscall", "read"}},
	{{"wrap", "outer"}, {"wrap", "middle"}, {"wrap", "inner"}},
	{{"joinl", "noise"}, {"wrap", "while testing"}, {"syscall", "write"}},
	{{"wrap", "a"}, {"joinl", "b"}, {"wrap", "c"}, {"path", "/p"}},
}

type convFn struct {
	name string
	id   int
	f    func(error) error
}

var convFns = []convFn{
	{"fs", 0, filesystem.ConvertFileSystemError},
	{"io", 1, safeio.ConvertIOError},
	{"proc", 2, proc.ConvertProcessError},
	{"platform", 3, platform.ConvertError},
}

func coqNats(v []int) string {
	ts := make([]string, len(v))
	for i, x := range v {
		ts[i] = h.Nat(x)
	}
	return h.List(ts)
}

// isBackendCondition: what the wrapping-independence clause speaks of (not a commonerrors kind, not a context error)
func isBackendCondition(v bval) bool {
	return len(kindsOf(v.val)) == 0 && !errors.Is(v.val, context.Canceled) && !errors.Is(v.val, context.DeadlineExceeded) ||
		strings.HasPrefix(v.name, "filesystem.Err")
}

type backendScenario struct {
	Base   string `json:"base"`
	Frames []fr   `json:"frames"`
}

func outcome(e error) string {
	if e == nil {
		return "nil"
	}
	ks := kindsOf(e)
	if len(ks) == 0 {
		if errors.Is(e, os.ErrProcessDone) {
			return "os.ErrProcessDone"
		}
		return "no kind"
	}
	names := make([]string, len(ks))
	for i, k := range ks {
		names[i] = kindNames[k]
	}
	return strings.Join(names, "+")
}

func runBackend(r *h.Run, bs backendScenario, emit bool) {
	var base *bval
	for _, b := range baseValues() {
		if b.name == bs.Base {
			b := b
			base = &b
		}
	}
	if base == nil {
		return
	}
	v := plug(bs.Frames, *base)
	sc := scenario{Kind: "backend", Backend: &bs}
	r.Count(fmt.Sprintf("backend-depth=%d", len(bs.Frames)))
	for _, cv := range convFns {
		r.Eval()
		out := cv.f(v.val)
		if emit {
			txt := ""
			var ks []int
			if out != nil {
				txt, ks = out.Error(), kindsOf(out)
			}
			r.Case(fmt.Sprintf("(CConvB %d %s %s %s %s)", cv.id, v.coq, h.Bool(out == nil), h.Str(txt), coqNats(ks)), sc)
		}
		if cv.name == "platform" {
			continue
		}
		bare := cv.f(base.val)
		// context errors pass as cancelled / timeout, whatever the wrapping
		if errors.Is(v.val, context.Canceled) || errors.Is(v.val, context.DeadlineExceeded) {
			want := kCancelled
			if !errors.Is(v.val, context.Canceled) {
				want = kTimeout
			}
			if out == nil || !eqInts(kindsOf(out), []int{want}) {
				r.Fail("converter-context-reclassified:"+cv.name, fmt.Sprintf("%s converter maps %s (%q) to %s", cv.name, v.name, v.val.Error(), outcome(out)), sc)
			}
			continue
		}
		// one stable kind: the same outcome as for the bare condition, at any wrapping depth
		if isBackendCondition(*base) && outcome(out) != outcome(bare) {
			sig := "converter-wrapping:" + cv.name
			r.Fail(sig, fmt.Sprintf("%s converter maps %s to %s but %s (%q) to %s", cv.name, base.name, outcome(bare), v.name, v.val.Error(), outcome(out)), sc)
			continue
		}
		// idempotent at kind level
		if out != nil && out != os.ErrProcessDone {
			again := cv.f(out)
			if outcome(again) != outcome(out) {
				r.Fail("converter-not-idempotent:"+cv.name, fmt.Sprintf("%s converter maps %s to %s (%q) and that to %s", cv.name, v.name, outcome(out), out.Error(), outcome(again)), sc)
			}
		}
		r.Distinct("backend|" + cv.name + "|" + v.name + "|" + fmt.Sprint(len(bs.Frames)))
	}
}

// runValues: the model's facts about the values themselves (texts, Timeout methods, aliases, Errno.Is)
func runValues(r *h.Run) {
	bases := baseValues()
	var all []bval
	for _, b := range bases {
		all = append(all, b)
	}
	for _, b := range bases[:30] {
		all = append(all, plug([]fr{{"path", "/x"}}, b), plug([]fr{{"wrap", "w"}}, b), plug([]fr{{"joinl", "n"}, {"syscall", "read"}}, b))
	}
	for _, v := range all {
		r.Eval()
		r.Count("backend-value")
		t, ok := v.val.(interface{ Timeout() bool })
		var ps []string
		for _, x := range bases {
			if strings.HasPrefix(x.name, "errors.New(") {
				continue // a value allocated here is equal to itself only; the model's BOpaque equals nothing
			}
			ps = append(ps, "("+x.coq+", "+h.Bool(errors.Is(v.val, x.val))+")")
		}
		r.Case(fmt.Sprintf("(CValue %s %s %s %s)", v.coq, h.Str(v.val.Error()), h.Bool(ok && t.Timeout()), h.List(ps)), map[string]string{"value": v.name})
	}
}

func backendSweep(r *h.Run) {
	bases := baseValues()
	// first the input that failed before fixes/C11-timeout-through-wrapping.patch: an errno only os.IsTimeout recognised
	runBackend(r, backendScenario{Base: "errno(110)", Frames: []fr{{"wrap", "while testing"}}}, true)
	runValues(r)
	for bi, b := range bases {
		for fi, fs := range frameSets {
			// every frame stack for the backend conditions; the commonerrors kinds (not backend conditions) rotate
			emit := isBackendCondition(b) || errors.Is(b.val, context.Canceled) || errors.Is(b.val, context.DeadlineExceeded) || r.Thorough() || (bi+fi)%6 == 0
			runBackend(r, backendScenario{Base: b.name, Frames: fs}, emit)
		}
	}
	n := r.N(100, 4000)
	pres := []string{"while testing", "layer", "/tmp/some file", "read", "x", "cleanup", "step 3 of 7"}
	ks := []string{"path", "link", "syscall", "wrap", "wrap", "joinl"}
	for i := 0; i < n; i++ {
		b := bases[r.Rng.Intn(len(bases))]
		var fs []fr
		for d := r.Rng.Intn(6); d > 0; d-- {
			fs = append(fs, fr{ks[r.Rng.Intn(len(ks))], pres[r.Rng.Intn(len(pres))]})
		}
		runBackend(r, backendScenario{Base: b.name, Frames: fs}, i < r.N(100, 600))
	}
}

var _ = ce.ErrUnknown

// ---------- errors that already have a library kind, with messages / causes that trigger OTHER rules ----------

// expectedPass mirrors [expected_pass] of coq/C11/Conv.v: the kinds each converter is expected to leave alone whatever
// the message says (platform.ConvertError: context kinds, not implemented, unsupported; ConvertFileSystemError: context
// kinds; ConvertIOError: every kind; ConvertProcessError: none).
func expectedPass(conv string, k int) bool {
	switch conv {
	case "platform":
		return kinds[k] == ce.ErrTimeout || kinds[k] == ce.ErrCancelled || kinds[k] == ce.ErrNotImplemented || kinds[k] == ce.ErrUnsupported
	case "fs":
		return kinds[k] == ce.ErrTimeout || kinds[k] == ce.ErrCancelled
	case "io":
		return true
	}
	return false
}

type convTriggers struct {
	Pre     []string `json:"pre"`
	Strings []string `json:"strings"`
	Targets []string `json:"targets"`
	Helpers []string `json:"helpers"`
}

// the trigger strings of a converter and of the converters it calls first, from the GENERATED table
func triggerStrings(all map[string]convTriggers, conv string) []string {
	t := all[conv]
	out := append([]string{}, t.Strings...)
	for _, p := range t.Pre {
		if p == "platform.ConvertError" {
			out = append(out, all["platform"].Strings...)
		}
	}
	return out
}

type libScenario struct {
	Conv  string `json:"conv"`
	Kind  int    `json:"kind"`
	Msg   string `json:"msg"`
	Cause string `json:"cause,omitempty"` // name of a base value: the error is WrapError(kind, cause, msg)
	Outer string `json:"outer,omitempty"` // a second constructor around it: New(e, outer)
}

func runLib(r *h.Run, ls libScenario, emit bool) {
	var cv *convFn
	for i := range convFns {
		if convFns[i].name == ls.Conv {
			cv = &convFns[i]
		}
	}
	if cv == nil || ls.Kind < 0 || ls.Kind >= len(kinds) || kinds[ls.Kind] == nil {
		return
	}
	k := kinds[ls.Kind]
	var in error
	var coq string
	if ls.Cause != "" {
		var cause *bval
		for _, b := range baseValues() {
			if b.name == ls.Cause {
				b := b
				cause = &b
			}
		}
		if cause == nil {
			return
		}
		in = ce.WrapError(k, cause.val, ls.Msg)
		coq = fmt.Sprintf("(b_wrap_error (BK %d%%nat) %s %s)", ls.Kind, cause.coq, h.Str(ls.Msg))
	} else {
		in = ce.New(k, ls.Msg)
		coq = fmt.Sprintf("(b_new %d%%nat %s)", ls.Kind, h.Str(ls.Msg))
	}
	if ls.Outer != "" {
		in = ce.New(in, ls.Outer)
		coq = fmt.Sprintf("(b_errorf %s %s)", coq, h.Str(ls.Outer))
	}
	sc := scenario{Kind: "lib", Lib: &ls}
	r.Eval()
	r.Count("library-kind-input:" + ls.Conv)
	out := cv.f(in)
	if emit && modelSafe([]byte(ls.Msg), []byte(ls.Outer)) {
		txt := ""
		var ks []int
		if out != nil {
			txt, ks = out.Error(), kindsOf(out)
		}
		r.Case(fmt.Sprintf("(CConvB %d %s %s %s %s)", cv.id, coq, h.Bool(out == nil), h.Str(txt), coqNats(ks)), sc)
	}
	if expectedPass(ls.Conv, ls.Kind) {
		if out == nil || !eqInts(kindsOf(out), []int{ls.Kind}) {
			r.Fail("library-kind-reclassified:"+ls.Conv, fmt.Sprintf("%s converter turns %q, which already is of kind %s, into %s (%v)", ls.Conv, in.Error(), kindNames[ls.Kind], outcome(out), out), sc)
			return
		}
		r.Distinct("lib|" + ls.Conv + "|" + kindNames[ls.Kind] + "|" + ls.Msg + "|" + ls.Cause)
	}
	// whatever the converter makes of it, converting again does not change the outcome
	if out != nil {
		if again := cv.f(out); outcome(again) != outcome(out) {
			r.Fail("converter-not-idempotent:"+ls.Conv, fmt.Sprintf("%s converter maps %q to %s (%q) and that to %s", ls.Conv, in.Error(), outcome(out), out.Error(), outcome(again)), sc)
		}
	}
}

func libSweep(r *h.Run) {
	path := "../coq/C11/convrules.json"
	if root := os.Getenv("VERIF_ROOT"); root != "" {
		path = root + "/coq/C11/convrules.json"
	}
	all := map[string]convTriggers{}
	bs, err := os.ReadFile(path)
	if err != nil || json.Unmarshal(bs, &all) != nil || len(all) == 0 {
		r.Fail("converter-table-unreadable", "cannot read the generated trigger table "+path, nil)
		return
	}
	bases := baseValues()
	known := map[string]bool{}
	var causes []bval
	for _, b := range bases {
		known[b.name] = true
		if isBackendCondition(b) { // every named value / errno / text the tables mention, and an unrelated error
			causes = append(causes, b)
		}
	}
	for name, t := range all {
		for _, tg := range t.Targets {
			if !known[tg] && !strings.HasPrefix(tg, "commonerrors.") && tg != "syscall.ESRCH" {
				r.Note("converter " + name + " mentions " + tg + ", which the harness does not know: not used as a cause")
			}
		}
	}
	n := 0
	for _, cv := range convFns {
		strs := triggerStrings(all, cv.name)
		for k := range kinds {
			if kinds[k] == nil {
				continue
			}
			pass := expectedPass(cv.name, k)
			for si, s := range strs {
				for vi, m := range []string{s, "the operation is " + strings.ToUpper(s) + " here", s + ": " + s} {
					n++
					runLib(r, libScenario{Conv: cv.name, Kind: k, Msg: m}, pass && vi < 2 || (n+k+si)%9 == 0)
				}
				runLib(r, libScenario{Conv: cv.name, Kind: k, Msg: "step 2", Outer: s}, pass || (k+si)%7 == 0)
			}
			for ci, c := range causes {
				n++
				runLib(r, libScenario{Conv: cv.name, Kind: k, Msg: "operation failed", Cause: c.name}, pass && (cv.name != "io" || (k+ci)%6 == 0) || (n+k+ci)%11 == 0)
			}
			runLib(r, libScenario{Conv: cv.name, Kind: k, Msg: "nothing special"}, (k+cv.id)%5 == 0)
		}
	}
}

// ---------- composite backend values: two conditions at once ----------

// the precedence the converters are expected to give to their outcomes (the order of their rules as of the unmodified
// source; mirrored by expected_order in coq/C11/Conv.v, which theorem rule_order_as_expected compares with the
// generated tables): a deadline first
var outcomeOrder = map[string][]string{
	"fs":   {"ErrTimeout", "ErrExists", "ErrConflict", "ErrNotFound", "ErrInvalid", "ErrOutOfRange", "ErrTooLarge", "ErrNotImplemented", "ErrEOF"},
	"proc": {"os.ErrProcessDone", "nil", "ErrTimeout", "ErrNotFound", "ErrNotImplemented"},
	"io":   {"ErrEOF"},
}

func rank(conv, out string) int {
	for i, o := range outcomeOrder[conv] {
		if o == out {
			return i
		}
	}
	return -1
}

type compositeScenario struct {
	A     string `json:"a"`
	B     string `json:"b"`
	Shape string `json:"shape"` // join | pathjoin | text
}

func platformTrigger(v error) bool {
	return strings.Contains(strings.ToLower(v.Error()), "not supported")
}

func runComposite(r *h.Run, cs compositeScenario, bases map[string]bval, emit bool) {
	a, okA := bases[cs.A]
	b, okB := bases[cs.B]
	if !okA || !okB {
		return
	}
	var v bval
	switch cs.Shape {
	case "join":
		v = bval{"join(" + a.name + ", " + b.name + ")", errors.Join(a.val, b.val), "(BJoin " + a.coq + " " + b.coq + ")"}
	case "pathjoin":
		j := errors.Join(a.val, b.val)
		v = bval{"PathError(join(" + a.name + ", " + b.name + "))", &os.PathError{Op: "close", Path: "/x", Err: j}, "(BPath true " + h.Str("close /x") + " (BJoin " + a.coq + " " + b.coq + "))"}
	default: // one description that spells both conditions
		t := a.val.Error() + ": " + b.val.Error()
		v = opaque(t)
	}
	sc := scenario{Kind: "composite", Composite: &cs}
	r.Count("backend-composite:" + cs.Shape)
	rawCanceled := errors.Is(v.val, context.Canceled)
	rawDeadline := errors.Is(v.val, context.DeadlineExceeded)
	for _, cv := range convFns {
		r.Eval()
		out := cv.f(v.val)
		if emit {
			txt := ""
			var ks []int
			if out != nil {
				txt, ks = out.Error(), kindsOf(out)
			}
			r.Case(fmt.Sprintf("(CConvB %d %s %s %s %s)", cv.id, v.coq, h.Bool(out == nil), h.Str(txt), coqNats(ks)), sc)
		}
		if cv.name == "platform" {
			continue
		}
		got := outcome(out)
		switch {
		case rawCanceled || rawDeadline: // a cancellation / deadline reachable from the value wins
			want := "ErrCancelled"
			if !rawCanceled {
				want = "ErrTimeout"
			}
			if got != want {
				r.Fail("converter-context-reclassified:"+cv.name, fmt.Sprintf("%s converter maps %s (%q) to %s", cv.name, v.name, v.val.Error(), got), sc)
			}
			continue
		case cs.Shape == "text" && !(isText(a) && isText(b)):
			continue // only descriptions built from the texts the predicates look for
		}
		oa, ob := outcome(cv.f(a.val)), outcome(cv.f(b.val))
		if cv.name == "fs" && (platformTrigger(a.val) || platformTrigger(b.val)) {
			continue // platform.ConvertError runs first and re-reads "not supported" as unsupported: see the report
		}
		if cv.name == "fs" && (oa == "ErrTimeout" || ob == "ErrTimeout") { // a deadline is never reclassified (ConvertProcessError has no such rule: exec.ErrWaitDelay comes after "signal: killed" / ESRCH, see outcomeOrder)
			if got != "ErrTimeout" {
				r.Fail("converter-deadline-reclassified:"+cv.name, fmt.Sprintf("%s converter maps %s to %s and %s to %s but %s (%q) to %s", cv.name, a.name, oa, b.name, ob, v.name, v.val.Error(), got), sc)
			}
			continue
		}
		ra, rb := rank(cv.name, oa), rank(cv.name, ob)
		if ra >= 0 && rb >= 0 && ra != rb { // two conditions of different rules: the unmodified rule order decides
			want := oa
			if rb < ra {
				want = ob
			}
			if got != want {
				r.Fail("converter-rule-order:"+cv.name, fmt.Sprintf("%s converter maps %s to %s and %s to %s; %s (%q) must be %s by the order of the rules, but is %s", cv.name, a.name, oa, b.name, ob, v.name, v.val.Error(), want, got), sc)
			}
			r.Distinct("composite|" + cv.name + "|" + v.name)
		}
	}
}

func isText(b bval) bool { return strings.HasPrefix(b.name, "errors.New(") }

func compositeBackendSweep(r *h.Run) {
	bases := map[string]bval{}
	var names []string
	for _, b := range baseValues() {
		if b.name == "os.ErrProcessDone" {
			continue // no rule looks for it: it is an OUTCOME of ConvertProcessError, passed through like any unknown error
		}
		if isBackendCondition(b) || errors.Is(b.val, context.Canceled) || errors.Is(b.val, context.DeadlineExceeded) {
			bases[b.name] = b
			names = append(names, b.name)
		}
	}
	// first the witnesses of the precedence of a deadline
	for _, p := range [][2]string{{"os.ErrDeadlineExceeded", "os.ErrClosed"}, {"errno(9)", "os.ErrDeadlineExceeded"}, {"errno(17)", "errno(110)"}, {"errors.New(file exists)", "errors.New(i/o timeout)"}} {
		for _, sh := range []string{"join", "pathjoin", "text"} {
			runComposite(r, compositeScenario{A: p[0], B: p[1], Shape: sh}, bases, true)
		}
	}
	n := 0
	for i, a := range names {
		for j, b := range names {
			if i == j {
				continue
			}
			n++
			runComposite(r, compositeScenario{A: a, B: b, Shape: "join"}, bases, r.Thorough() || (n+int(r.Seed))%23 == 0)
			if (i+j)%5 == 0 {
				runComposite(r, compositeScenario{A: a, B: b, Shape: "pathjoin"}, bases, (i+j)%50 == 0)
			}
			if isText(bases[a]) && isText(bases[b]) {
				runComposite(r, compositeScenario{A: a, B: b, Shape: "text"}, bases, (i+j)%4 == 0)
			}
		}
	}
}
