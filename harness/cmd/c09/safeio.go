// C09 part (a): safeio.ReadAtMost / ReadAll / CopyDataWithContext / CopyNWithContext / WriteString and
// VFS.ReadFileContent driven with instrumented streams: a scripted source (chunk sizes, zero-length reads,
// error at byte k, context ending during a Read, io.WriterTo present or not) and a scripted destination
// (short writes, failures, context ending during a Write, io.ReaderFrom present or not).  Every Read/Write is
// logged with the state of the context at the moment it was issued.
package main

import (
	"bytes"
	"context"
	"errors"
	"fmt"
	"io"
	"math"
	"os"

	"github.com/spf13/afero"

	"github.com/ARM-software/golang-utils/utils/filesystem"
	"github.com/ARM-software/golang-utils/utils/safeio"

	"verif/harness/internal/h"
)

type rdScript struct {
	N      int  `json:"n"`
	Err    int  `json:"err,omitempty"` // 0 none, 1 io.EOF, 2 io.ErrUnexpectedEOF, 3 failure
	Cancel bool `json:"cancel,omitempty"`
}

type wrScript struct {
	N      int  `json:"n"` // bytes accepted (-1: all)
	Err    bool `json:"err,omitempty"`
	Cancel bool `json:"cancel,omitempty"`
}

type evLog struct {
	Read     bool
	CtxDone  bool
	N        int // bytes returned (read) / offered (write)
	Accepted int
	Err      int
	Cancel   bool
	WErr     bool
}

type ioScenario struct {
	Op       string     `json:"op"` // readatmost | readall | copydata | copyn | limitedread | writestring
	Max      int64      `json:"max,omitempty"`
	Cap      int64      `json:"cap,omitempty"`
	N        int64      `json:"n,omitempty"`
	SrcLen   int        `json:"src_len"`
	Salt     int        `json:"salt,omitempty"`
	Reads    []rdScript `json:"reads,omitempty"`
	Writes   []wrScript `json:"writes,omitempty"`
	RF       bool       `json:"reader_from,omitempty"`
	WT       bool       `json:"writer_to,omitempty"`
	Pre      string     `json:"pre,omitempty"` // context done before the call: "" (no) or the way it ended (ctxflavours.go; cancelled = cancel)
	Mid      string     `json:"mid,omitempty"` // the way the context ends when a script says so ("" = cancel)
	Apply    bool       `json:"apply_limits,omitempty"`
	StatSize int64      `json:"stat_size,omitempty"` // limitedread: the size Stat reports (a huge sparse file); 0 = the real length
}

var errInjectedRead = errors.New("harness: injected read failure")
var errInjectedWrite = errors.New("harness: injected write failure")

type source struct {
	data   []byte
	off    int
	script []rdScript
	i      int
	ctx    context.Context
	cancel func()
	log    *[]evLog
}

func (s *source) Read(p []byte) (int, error) {
	done := s.ctx.Err() != nil
	e := rdScript{N: len(p)}
	scripted := s.i < len(s.script)
	if scripted {
		e = s.script[s.i]
		s.i++
	}
	n := e.N
	if n > len(p) {
		n = len(p)
	}
	if n > len(s.data)-s.off {
		n = len(s.data) - s.off
	}
	if n < 0 {
		n = 0
	}
	copy(p, s.data[s.off:s.off+n])
	s.off += n
	if e.Cancel {
		s.cancel()
	}
	code := e.Err
	if !scripted && n == 0 && s.off >= len(s.data) {
		code = 1 // natural end of the stream
	}
	*s.log = append(*s.log, evLog{Read: true, CtxDone: done, N: n, Err: code, Cancel: e.Cancel})
	switch code {
	case 1:
		return n, io.EOF
	case 2:
		return n, io.ErrUnexpectedEOF
	case 3:
		return n, errInjectedRead
	}
	return n, nil
}

// sourceWT additionally offers io.WriterTo (its WriteTo goes through the same logged Read)
type sourceWT struct{ *source }

func (s sourceWT) WriteTo(w io.Writer) (int64, error) {
	var total int64
	buf := make([]byte, 1000)
	for {
		n, err := s.source.Read(buf)
		if n > 0 {
			m, werr := w.Write(buf[:n])
			total += int64(m)
			if werr != nil {
				return total, werr
			}
		}
		if err == io.EOF {
			return total, nil
		}
		if err != nil {
			return total, err
		}
	}
}

type dest struct {
	buf    []byte
	script []wrScript
	i      int
	ctx    context.Context
	cancel func()
	log    *[]evLog
}

func (d *dest) Write(p []byte) (int, error) {
	done := d.ctx.Err() != nil
	e := wrScript{N: -1}
	if d.i < len(d.script) {
		e = d.script[d.i]
		d.i++
	}
	acc := e.N
	if acc < 0 || acc > len(p) {
		acc = len(p)
	}
	d.buf = append(d.buf, p[:acc]...)
	if e.Cancel {
		d.cancel()
	}
	*d.log = append(*d.log, evLog{CtxDone: done, N: len(p), Accepted: acc, WErr: e.Err, Cancel: e.Cancel})
	if e.Err {
		return acc, errInjectedWrite
	}
	return acc, nil
}

// destRF additionally implements io.ReaderFrom with its own chunk size
type destRF struct{ *dest }

func (d destRF) ReadFrom(r io.Reader) (int64, error) {
	var total int64
	buf := make([]byte, 777)
	for {
		n, err := r.Read(buf)
		d.dest.buf = append(d.dest.buf, buf[:n]...)
		total += int64(n)
		if err == io.EOF {
			return total, nil
		}
		if err != nil {
			return total, err
		}
	}
}

// instrumented file for ReadFileContent: Read is logged like a source
type instrFile struct {
	filesystem.File
	src *source
}

func (f *instrFile) Read(p []byte) (int, error) { return f.src.Read(p) }

// size-reporting wrapper: a (sparse) file of the given size whose first bytes are the source
type sizedInfo struct {
	os.FileInfo
	size int64
}

func (i sizedInfo) Size() int64 { return i.size }

type sizedFile struct {
	*instrFile
	size int64
}

func (f *sizedFile) Stat() (os.FileInfo, error) {
	fi, err := f.instrFile.File.Stat()
	if err != nil {
		return fi, err
	}
	return sizedInfo{fi, f.size}, nil
}

func (sc ioScenario) fileSize() int64 {
	if sc.StatSize > 0 {
		return sc.StatSize
	}
	return int64(sc.SrcLen)
}

type ioObs struct {
	Kind   string
	Err    string
	Count  int64
	Out    []byte
	OutNil bool
	Log    []evLog
	Panic  string
	CapOut int
}

func runIO(sc ioScenario) (o ioObs, data []byte) {
	data = pattern(sc.SrcLen, sc.Salt)
	var ctx context.Context
	var cancel func()
	if sc.Pre != "" {
		c, end, release := newCtx(preFlavour(sc.Pre), true)
		defer release()
		end()
		ctx, cancel = c, end
	} else {
		c, end, release := newCtx(sc.Mid, false)
		defer release()
		ctx, cancel = c, end
	}
	var log []evLog
	src := &source{data: data, script: sc.Reads, ctx: ctx, cancel: cancel, log: &log}
	dst := &dest{script: sc.Writes, ctx: ctx, cancel: cancel, log: &log}
	var rd io.Reader = src
	if sc.WT {
		rd = sourceWT{src}
	}
	var wr io.Writer = dst
	if sc.RF {
		wr = destRF{dst}
	}
	var err error
	func() {
		defer func() {
			if p := recover(); p != nil {
				o.Panic = fmt.Sprint(p)
			}
		}()
		switch sc.Op {
		case "readatmost":
			var c []byte
			c, err = safeio.ReadAtMost(ctx, rd, sc.Max, sc.Cap)
			o.Out, o.OutNil, o.Count, o.CapOut = c, c == nil, int64(len(c)), cap(c)
		case "readall":
			var c []byte
			c, err = safeio.ReadAll(ctx, rd)
			o.Out, o.OutNil, o.Count = c, c == nil, int64(len(c))
		case "copydata":
			o.Count, err = safeio.CopyDataWithContext(ctx, rd, wr)
			o.Out = dst.buf
		case "copyn":
			o.Count, err = safeio.CopyNWithContext(ctx, rd, wr, sc.N)
			o.Out = dst.buf
		case "writestring":
			var n int
			n, err = safeio.WriteString(ctx, wr, string(data))
			o.Count, o.Out = int64(n), dst.buf
		case "limitedread":
			mem := afero.NewMemMapFs()
			_ = afero.WriteFile(mem, "/f.bin", data, 0o644)
			vfs := filesystem.NewVirtualFileSystem(mem, filesystem.InMemoryFS, filesystem.IdentityPathConverterFunc)
			f, ferr := vfs.GenericOpen("/f.bin")
			if ferr != nil {
				err = ferr
				break
			}
			defer func() { _ = f.Close() }()
			var lim filesystem.ILimits = filesystem.NoLimits()
			if sc.Apply {
				lim = filesystem.NewLimits(sc.Max, 1<<40, 1<<20, 64, false)
			}
			var c []byte
			var file filesystem.File = &instrFile{File: f, src: src}
			if sc.StatSize > 0 {
				file = &sizedFile{instrFile: &instrFile{File: f, src: src}, size: sc.StatSize}
			}
			c, err = vfs.(*filesystem.VFS).ReadFileContent(ctx, file, lim)
			o.Out, o.OutNil, o.Count = c, c == nil, int64(len(c))
		}
	}()
	o.Kind = kindOf(err)
	if err != nil {
		o.Err = err.Error()
		if len(o.Err) > 160 {
			o.Err = o.Err[:160]
		}
	}
	o.Log = log
	return
}

func preFlavour(p string) string {
	if p == "cancelled" {
		return "cancel"
	}
	return p
}

// no failure is injected by the scripts (the context may end)
func faultFree(sc ioScenario) bool {
	for _, r := range sc.Reads {
		if r.Err != 0 {
			return false
		}
	}
	for _, w := range sc.Writes {
		if w.Err || w.N >= 0 {
			return false
		}
	}
	return true
}

func honest(sc ioScenario) bool {
	for _, r := range sc.Reads {
		if r.Err != 0 || r.Cancel {
			return false
		}
	}
	for _, w := range sc.Writes {
		if w.Err || w.Cancel || w.N >= 0 {
			return false
		}
	}
	return sc.Pre == ""
}

func min64(a, b int64) int64 {
	if a < b {
		return a
	}
	return b
}

// checkIO is the oracle of part (a): the property text, stated on what the instrumented streams saw.
func checkIO(r *h.Run, sc ioScenario, o ioObs, data []byte) {
	op := sc.Op
	if o.Panic != "" {
		r.Fail("panic:"+op, fmt.Sprintf("%s panicked: %s", op, o.Panic), sc)
		return
	}
	ended := false // the context ended while the helper ran
	var delivered int64
	for _, e := range o.Log {
		if e.Read && e.CtxDone {
			r.Fail("read-after-context-end:"+op, fmt.Sprintf("%s issued a Read of the source although the context was already done", op), sc)
		}
		if !e.Read && e.CtxDone {
			r.Fail("write-after-context-end:"+op, fmt.Sprintf("%s issued a Write to the destination although the context was already done", op), sc)
		}
		if e.Cancel {
			ended = true
		}
		if e.Read {
			delivered += int64(e.N)
		}
	}
	if !bytes.HasPrefix(data, o.Out) {
		r.Fail("not-a-prefix:"+op, fmt.Sprintf("%s handed out %d bytes that are not a prefix of the %d-byte source", op, len(o.Out), len(data)), sc)
	}
	copying := op == "copydata" || op == "copyn" || op == "writestring"
	if copying && o.Count != int64(len(o.Out)) && !(op == "copyn" && o.Kind == "nil") {
		r.Fail("count-differs-from-transfer:"+op, fmt.Sprintf("%s returned count %d but the destination holds %d bytes", op, o.Count, len(o.Out)), sc)
	}
	if sc.Pre != "" {
		if want := wantKind(preFlavour(sc.Pre)); o.Kind != want {
			r.Fail("precancelled-wrong-kind:"+op, fmt.Sprintf("%s with a context already done (%s) returned kind %s (%s), expected %s", op, sc.Pre, o.Kind, o.Err, want), sc)
		}
		if len(o.Log) > 0 || len(o.Out) > 0 || o.Count != 0 {
			r.Fail("precancelled-touches-streams:"+op, fmt.Sprintf("%s with a context already done issued %d stream operations, handed out %d bytes", op, len(o.Log), len(o.Out)), sc)
		}
		return
	}
	limit := int64(-1)
	switch op {
	case "readatmost":
		limit = sc.Max
	case "copyn":
		limit = sc.N
		if limit < 0 {
			limit = 0
		}
	case "limitedread":
		if sc.Apply {
			limit = sc.Max
		}
	}
	if limit >= 0 && int64(len(o.Out)) > limit {
		r.Fail("more-than-maximum:"+op, fmt.Sprintf("%s handed out %d bytes, maximum %d", op, len(o.Out), limit), sc)
	}
	if op == "copyn" && o.Kind == "nil" && sc.N >= 0 && (o.Count != sc.N || int64(len(o.Out)) != sc.N) {
		r.Fail("copyn-not-exact", fmt.Sprintf("CopyN(%d) returned no error but count %d, destination holds %d bytes", sc.N, o.Count, len(o.Out)), sc)
	}
	if op == "limitedread" && sc.Apply && sc.fileSize() > sc.Max {
		if o.Kind != "toolarge" {
			r.Fail("large-file-not-refused", fmt.Sprintf("file of %d bytes read with maximum %d: kind %s, %d bytes returned", sc.fileSize(), sc.Max, o.Kind, len(o.Out)), sc)
		}
		return
	}
	if ended && o.Kind == "nil" {
		// acceptable only when nothing was lost: all the bytes the source handed out were delivered, and for CopyN the count is exact
		want := delivered
		if limit >= 0 {
			want = min64(want, limit)
		}
		if int64(len(o.Out)) != want {
			r.Fail("cancel-during-reported-success:"+op, fmt.Sprintf("%s: the context ended while it ran, it returned no error, but only %d of %d bytes were delivered", op, len(o.Out), want), sc)
		}
	}
	if ended && !isCancelKind(o.Kind) && o.Kind != "nil" && o.Kind != "eof" && o.Kind != "empty" && o.Kind != "other" {
		r.Fail("cancel-during-wrong-kind:"+op, fmt.Sprintf("%s: the context ended while it ran: kind %s", op, o.Kind), sc)
	}
	if want := wantKind(sc.Mid); ended && (isCancelKind(o.Kind) && o.Kind != want || faultFree(sc) && o.Kind == "other") {
		// whatever the cause attached to the context: cancellation -> cancelled, deadline -> timeout; and nothing else can have gone wrong
		r.Fail("cancel-during-wrong-kind:"+op, fmt.Sprintf("%s: the context ended (%s) while it ran: kind %s (%s), expected %s", op, sc.Mid, o.Kind, o.Err, want), sc)
	}
	// a source failing with an unexpected end of stream is reported with the EOF kind (unless CopyN already had its n bytes)
	if len(o.Log) > 0 && !ended {
		last := o.Log[len(o.Log)-1]
		if last.Read && last.Err == 2 && o.Kind != "eof" && !(op == "copyn" && o.Kind == "nil") {
			r.Fail("unexpected-eof-wrong-kind:"+op, fmt.Sprintf("%s: source ended with io.ErrUnexpectedEOF, kind %s", op, o.Kind), sc)
		}
		if last.Read && last.Err == 3 && o.Kind == "nil" && !(op == "copyn" && o.Count == sc.N) {
			r.Fail("read-failure-swallowed:"+op, fmt.Sprintf("%s: the source failed, no error was reported", op), sc)
		}
	}
	if !honest(sc) {
		return
	}
	// well-behaved streams: exact results
	want := int64(len(data))
	if limit >= 0 {
		want = min64(want, limit)
	}
	wantKind := "nil"
	switch op {
	case "readatmost", "readall", "limitedread":
		if want == 0 {
			wantKind = "empty"
		}
	case "copyn":
		if sc.N > int64(len(data)) {
			wantKind = "eof"
		}
	}
	if o.Kind != wantKind {
		r.Fail("wrong-kind:"+op, fmt.Sprintf("%s on a well-behaved %d-byte source (max/n %d): kind %s (%s), expected %s", op, len(data), limit, o.Kind, o.Err, wantKind), sc)
		return
	}
	if int64(len(o.Out)) != want || !bytes.Equal(o.Out, data[:want]) {
		r.Fail("not-the-exact-prefix:"+op, fmt.Sprintf("%s on a well-behaved %d-byte source (max/n %d): %d bytes handed out, expected the first %d", op, len(data), limit, len(o.Out), want), sc)
	}
	if copying && o.Count != want {
		r.Fail("wrong-count:"+op, fmt.Sprintf("%s returned count %d, expected %d", op, o.Count, want), sc)
	}
}

// ---- Coq terms ----

func coqKind(k string) string {
	switch k {
	case "nil":
		return "KNil"
	case "cancelled":
		return "KCancelled"
	case "timeout":
		return "KTimeout"
	case "eof":
		return "KEOF"
	case "empty":
		return "KEmpty"
	case "toolarge":
		return "KTooLarge"
	}
	return "KOther"
}

func coqCase(sc ioScenario, o ioObs, data []byte) string {
	var op string
	switch sc.Op {
	case "readatmost":
		op = "(OpReadAtMost " + h.Z(sc.Max) + ")"
	case "readall":
		op = "(OpReadAtMost (-1))"
	case "copydata":
		op = "OpCopyData"
	case "copyn":
		op = "(OpCopyN " + h.Z(sc.N) + ")"
	case "limitedread":
		op = fmt.Sprintf("(OpLimitedRead %s %s %d)", h.Bool(sc.Apply), h.Z(sc.Max), sc.fileSize())
	default:
		return ""
	}
	pre := "None"
	if sc.Pre != "" {
		pre = "(Some " + coqKind(wantKind(preFlavour(sc.Pre))) + ")"
	}
	var rs, ws, lg []string
	for _, e := range o.Log {
		if e.Read {
			rs = append(rs, fmt.Sprintf("(mkRd %d %s %s)", e.N, []string{"RNone", "REof", "RUnexp", "RFail"}[e.Err], h.Bool(e.Cancel)))
			lg = append(lg, fmt.Sprintf("(EvRead %s %d)", h.Bool(e.CtxDone), e.N))
		} else {
			ws = append(ws, fmt.Sprintf("(mkWr %d %s %s)", e.Accepted, h.Bool(e.WErr), h.Bool(e.Cancel)))
			lg = append(lg, fmt.Sprintf("(EvWrite %s %d %d)", h.Bool(e.CtxDone), e.N, e.Accepted))
		}
	}
	return fmt.Sprintf("(mkCase %s %s %s %s %s %s %s %s %s %s %s)", op, h.Bool(sc.RF), pre, h.Bytes(data), h.List(rs), h.List(ws),
		coqKind(o.Kind), h.Z(o.Count), h.Bytes(o.Out), h.List(lg), coqKind(wantKind(sc.Mid)))
}

func doIO(r *h.Run, sc ioScenario, emit bool) {
	r.Eval()
	o, data := runIO(sc)
	checkIO(r, sc, o, data)
	r.Count("io-op=" + sc.Op)
	switch {
	case sc.Pre != "":
		r.Count("io-ctx=done-before-call")
	case !honest(sc):
		r.Count("io-ctx/streams=misbehaving-or-ending")
	default:
		r.Count("io-ctx/streams=well-behaved")
	}
	r.Count(fmt.Sprintf("io-src-len<=2^%d", bitlen(sc.SrcLen)))
	if emit && sc.SrcLen <= 700 && o.Panic == "" {
		if t := coqCase(sc, o, data); t != "" {
			r.Case(t, sc)
		}
	}
	if sc.SrcLen > 0 && (len(sc.Reads) > 0 || len(sc.Writes) > 0) {
		r.Distinct(fmt.Sprintf("io|%s|%d|%d|%d|%v|%v|%v|%v", sc.Op, sc.SrcLen, sc.Max, sc.N, sc.Reads, sc.Writes, sc.RF, sc.WT))
	}
	r.Sample(map[string]any{"op": sc.Op, "src_len": sc.SrcLen, "max": sc.Max, "n": sc.N, "reads": len(o.Log), "kind": o.Kind, "count": o.Count})
}

func bitlen(n int) int {
	b := 0
	for n > 0 {
		b++
		n >>= 1
	}
	return b
}

func chunking(r *h.Run, total int, style int) []rdScript {
	var out []rdScript
	left := total
	for left > 0 {
		var n int
		switch style {
		case 0:
			n = left
		case 1:
			n = 1
		case 2:
			n = 1 + r.Rng.Intn(7)
			if r.Rng.Intn(3) == 0 {
				out = append(out, rdScript{N: 0})
			}
		default:
			n = 1 + r.Rng.Intn(left)
		}
		if n > left {
			n = left
		}
		out = append(out, rdScript{N: n})
		left -= n
		if len(out) > 64 {
			break // the rest is delivered by the unscripted default (as much as fits)
		}
	}
	return out
}

// D14 and friends: always run first
func ioCorpus(r *h.Run) {
	doIO(r, ioScenario{Op: "readatmost", Max: math.MaxInt64, Cap: -1, SrcLen: 10}, true)
	doIO(r, ioScenario{Op: "readatmost", Max: 1 << 50, Cap: -1, SrcLen: 10}, true)
	doIO(r, ioScenario{Op: "readatmost", Max: math.MaxInt64, Cap: -1, SrcLen: 0}, true)
}

// limited reads of huge (sparse) files: sizes at and around the thresholds the code mentions, small and large limits
func ioHugeFiles(r *h.Run) {
	for _, size := range []int64{1e9 - 1, 1e9, 1e9 + 1, 1<<31 - 1, 1 << 31, 1<<31 + 1, 1<<32 - 1, 1 << 32, 1<<32 + 1, 1 << 40} {
		for _, m := range []int64{0, 1, 1024, 4096, size - 1} {
			doIO(r, ioScenario{Op: "limitedread", Apply: true, Max: m, SrcLen: 3000, Salt: int(size % 97), StatSize: size}, true)
			for _, pre := range []string{"cancelled", "deadline"} {
				doIO(r, ioScenario{Op: "limitedread", Apply: true, Max: m, SrcLen: 3000, StatSize: size, Pre: pre}, false)
			}
		}
		if size >= 1e9 { // (below 1e9 the code sizes its buffer after the file: not exercised with an allowed read)
			doIO(r, ioScenario{Op: "limitedread", Apply: true, Max: size, SrcLen: 300, Salt: 7, StatSize: size}, true)
			doIO(r, ioScenario{Op: "limitedread", Apply: true, Max: size + 1, SrcLen: 300, Salt: 7, StatSize: size}, true)
			doIO(r, ioScenario{Op: "limitedread", Apply: false, SrcLen: 300, Salt: 7, StatSize: size}, true)
		}
	}
}

func ioDeterministic(r *h.Run) {
	lens := []int{0, 1, 2, 7, 511, 512, 513, 600}
	for _, L := range lens {
		for mi, m := range []int64{-5, -1, 0, 1, int64(L) - 1, int64(L), int64(L) + 1, int64(L) + 600, math.MaxInt64} {
			emit := L <= 7 || mi%3 == 1 // large sources: Coq cases for max in {-1, len-1, len+600} only (the oracle sees them all)
			for _, c := range []int64{-1, 0, 1, 512, int64(L)} {
				if c != -1 && L > 7 && L != 512 {
					continue
				}
				for style := 0; style < 3; style++ {
					if style > 0 && (L > 7 && L != 513) {
						continue
					}
					doIO(r, ioScenario{Op: "readatmost", Max: m, Cap: c, SrcLen: L, Salt: L, Reads: chunking(r, L, style)}, emit || c == 512)
				}
			}
			doIO(r, ioScenario{Op: "copyn", N: m, SrcLen: L, Salt: L + 1}, emit)
			doIO(r, ioScenario{Op: "copyn", N: m, SrcLen: L, Salt: L + 1, RF: true, Reads: chunking(r, L, 2)}, emit)
			doIO(r, ioScenario{Op: "copyn", N: m, SrcLen: L, Salt: L + 1, WT: true, Reads: chunking(r, L, 1)}, L <= 7)
			doIO(r, ioScenario{Op: "limitedread", Apply: true, Max: m, SrcLen: L, Salt: L + 2}, m >= 0 && emit)
		}
		doIO(r, ioScenario{Op: "limitedread", Apply: false, SrcLen: L, Salt: L + 2}, true)
		doIO(r, ioScenario{Op: "readall", SrcLen: L, Salt: L + 3, Reads: chunking(r, L, 2)}, true)
		for _, rf := range []bool{false, true} {
			for _, wt := range []bool{false, true} {
				doIO(r, ioScenario{Op: "copydata", SrcLen: L, Salt: L + 4, RF: rf, WT: wt, Reads: chunking(r, L, 2)}, true)
			}
		}
		doIO(r, ioScenario{Op: "writestring", SrcLen: L, Salt: 1}, false)
		// context done before the call
		pres := []string{"cancelled", "deadline"}
		if L == 7 || L == 512 {
			pres = append(allFlavours(), "cancelled")
		}
		for _, pre := range pres {
			doIO(r, ioScenario{Op: "readatmost", Max: -1, Cap: -1, SrcLen: L, Pre: pre}, true)
			doIO(r, ioScenario{Op: "readatmost", Max: 3, Cap: 8, SrcLen: L, Pre: pre}, true)
			doIO(r, ioScenario{Op: "readall", SrcLen: L, Pre: pre}, true)
			doIO(r, ioScenario{Op: "copydata", SrcLen: L, Pre: pre}, true)
			doIO(r, ioScenario{Op: "copydata", SrcLen: L, Pre: pre, RF: true}, true)
			doIO(r, ioScenario{Op: "copyn", N: int64(L), SrcLen: L, Pre: pre}, true)
			doIO(r, ioScenario{Op: "copyn", N: 0, SrcLen: L, Pre: pre, RF: true}, true)
			doIO(r, ioScenario{Op: "limitedread", Apply: true, Max: 1 << 20, SrcLen: L, Pre: pre}, true)
			doIO(r, ioScenario{Op: "limitedread", Apply: true, Max: 0, SrcLen: L, Pre: pre}, true)
			doIO(r, ioScenario{Op: "writestring", SrcLen: L, Pre: pre}, false)
		}
	}
	midRot := 0
	// the context ends during the j-th Read / Write; failures at byte k; short writes — every position of a 5-chunk stream
	for j := 0; j < 6; j++ {
		for _, op := range []string{"readatmost", "copydata", "copyn"} {
			for _, rf := range []bool{false, true} {
				if op == "readatmost" && rf {
					continue
				}
				base := func() []rdScript { return []rdScript{{N: 3}, {N: 0}, {N: 4}, {N: 2}, {N: 5}, {N: 1}} }
				for _, mut := range []rdScript{{Cancel: true}, {Err: 1}, {Err: 2}, {Err: 3}, {Err: 3, Cancel: true}} {
					s := base()
					s[j].Cancel, s[j].Err = mut.Cancel, mut.Err
					midRot++
					mid := func(i int) string { return instantFlavours[(midRot+i)%len(instantFlavours)] }
					doIO(r, ioScenario{Op: op, Max: -1, Cap: -1, N: 15, SrcLen: 15, Salt: j, Reads: s, RF: rf, Mid: mid(0)}, true)
					doIO(r, ioScenario{Op: op, Max: 9, Cap: 4, N: 9, SrcLen: 15, Salt: j, Reads: s, RF: rf, Mid: mid(3)}, true)
					doIO(r, ioScenario{Op: op, Max: 20, Cap: 0, N: 20, SrcLen: 15, Salt: j, Reads: s, RF: rf, Mid: mid(6)}, j%2 == 0)
				}
				if op != "readatmost" && !rf && j < 5 {
					for _, w := range []wrScript{{N: -1, Cancel: true}, {N: 1}, {N: 0}, {N: -1, Err: true}, {N: 1, Err: true}} {
						ws := []wrScript{{N: -1}, {N: -1}, {N: -1}, {N: -1}, {N: -1}}
						ws[j] = w
						midRot++
						doIO(r, ioScenario{Op: op, N: 12, SrcLen: 15, Salt: j, Reads: base(), Writes: ws, Mid: instantFlavours[midRot%len(instantFlavours)]}, true)
					}
				}
			}
		}
	}
}

func ioRandom(r *h.Run, n int, big bool) {
	ops := []string{"readatmost", "copydata", "copyn", "limitedread", "readall"}
	for i := 0; i < n; i++ {
		L := r.Rng.Intn(64)
		if big {
			L = []int{32767, 32768, 32769, 65535, 65536, 65537, 100000, r.N(200000, 1<<20), r.Rng.Intn(70000)}[r.Rng.Intn(9)]
		} else if r.Rng.Intn(6) == 0 {
			L = 500 + r.Rng.Intn(40)
		}
		sc := ioScenario{Op: ops[r.Rng.Intn(len(ops))], SrcLen: L, Salt: i, Cap: -1}
		around := func() int64 {
			switch r.Rng.Intn(7) {
			case 0:
				return -1 - int64(r.Rng.Intn(3))
			case 1:
				return 0
			case 2:
				return int64(L) - 1
			case 3:
				return int64(L)
			case 4:
				return int64(L) + 1
			case 5:
				return int64(L) + int64(r.Rng.Intn(1000))
			}
			return int64(r.Rng.Intn(L + 1))
		}
		sc.Max, sc.N = around(), around()
		if r.Rng.Intn(3) == 0 {
			sc.Cap = int64(r.Rng.Intn(1025))
		}
		sc.Apply = r.Rng.Intn(4) > 0
		if sc.Op == "limitedread" && sc.Max < 0 {
			sc.Max = 0
		}
		sc.RF = r.Rng.Intn(3) == 0
		sc.WT = r.Rng.Intn(4) == 0
		sc.Mid = instantFlavours[r.Rng.Intn(len(instantFlavours))]
		sc.Reads = chunking(r, L, 2+r.Rng.Intn(2))
		if big {
			sc.Reads = chunking(r, L, r.Rng.Intn(4))
			if len(sc.Reads) > 40 {
				sc.Reads = sc.Reads[:40]
			}
		}
		switch r.Rng.Intn(5) {
		case 0:
			if len(sc.Reads) > 0 {
				j := r.Rng.Intn(len(sc.Reads))
				sc.Reads[j].Cancel = true
			}
		case 1:
			if len(sc.Reads) > 0 {
				j := r.Rng.Intn(len(sc.Reads))
				sc.Reads[j].Err = 1 + r.Rng.Intn(3)
			}
		case 2:
			if !sc.RF && (sc.Op == "copydata" || sc.Op == "copyn") {
				k := 1 + r.Rng.Intn(4)
				for j := 0; j < k; j++ {
					sc.Writes = append(sc.Writes, wrScript{N: -1})
				}
				sc.Writes[k-1] = []wrScript{{N: -1, Cancel: true}, {N: r.Rng.Intn(3)}, {N: -1, Err: true}}[r.Rng.Intn(3)]
			}
		}
		doIO(r, sc, !big)
	}
}

// files on the OS back end too: limited reads refuse larger files with the 'too large' kind
func ioFiles(r *h.Run) {
	tmp, err := os.MkdirTemp("", "verif-c09-*")
	if err != nil {
		r.Note("cannot create temp dir: " + err.Error())
		return
	}
	defer os.RemoveAll(tmp)
	// real sparse files on the OS back end (os.Truncate): refused without being read
	osfs := filesystem.NewStandardFileSystem()
	for _, size := range []int64{1e9 - 1, 1e9, 1e9 + 1, 1 << 31, 1<<32 + 1} {
		p := fmt.Sprintf("%s/sparse%d.bin", tmp, size)
		if err := os.WriteFile(p, pattern(2000, 3), 0o644); err != nil || os.Truncate(p, size) != nil {
			r.Note("cannot create a sparse file")
			continue
		}
		for _, m := range []int64{0, 1024, size - 1} {
			r.Eval()
			r.Count("io-file-limited-read:os-sparse")
			c, err := osfs.ReadFileWithContextAndLimits(context.Background(), p, filesystem.NewLimits(m, 1<<40, 1<<20, 64, false))
			if kindOf(err) != "toolarge" {
				r.Fail("large-file-not-refused", fmt.Sprintf("os back end: sparse file of %d bytes read with maximum %d: kind %s, %d bytes", size, m, kindOf(err), len(c)), map[string]any{"backend": "os", "size": size, "max": m})
			}
		}
		_ = os.Remove(p)
	}
	backs := map[string]filesystem.FS{"os": filesystem.NewStandardFileSystem(), "mem": filesystem.NewInMemoryFileSystem()}
	for name, fs := range backs {
		for _, L := range []int{1, 100, 512, 4096, 40000} {
			p := fmt.Sprintf("%s/f%d.bin", tmp, L)
			if name == "mem" {
				p = fmt.Sprintf("/f%d.bin", L)
			}
			data := pattern(L, L)
			if err := fs.WriteFile(p, data, 0o644); err != nil {
				r.Note("write failed: " + err.Error())
				continue
			}
			for _, m := range []int64{0, int64(L) - 1, int64(L), int64(L) + 1} {
				r.Eval()
				r.Count("io-file-limited-read:" + name)
				c, err := fs.ReadFileWithContextAndLimits(context.Background(), p, filesystem.NewLimits(m, 1<<40, 1<<20, 64, false))
				sc := map[string]any{"backend": name, "size": L, "max": m}
				if int64(L) > m {
					if kindOf(err) != "toolarge" {
						r.Fail("large-file-not-refused", fmt.Sprintf("%s back end: file of %d bytes read with maximum %d: kind %s, %d bytes", name, L, m, kindOf(err), len(c)), sc)
					}
				} else if err != nil || !bytes.Equal(c, data) {
					r.Fail("limited-read-wrong-content", fmt.Sprintf("%s back end: file of %d bytes, maximum %d: kind %s, %d bytes", name, L, m, kindOf(err), len(c)), sc)
				}
				ctx, cancel := context.WithCancel(context.Background())
				cancel()
				_, err = fs.ReadFileWithContextAndLimits(ctx, p, filesystem.NewLimits(m, 1<<40, 1<<20, 64, false))
				if !isCancelKind(kindOf(err)) {
					r.Fail("precancelled-wrong-kind:ReadFileLimits", fmt.Sprintf("%s back end: kind %s", name, kindOf(err)), sc)
				}
			}
		}
	}
}
