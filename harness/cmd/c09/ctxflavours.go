// Ways in which a context can be (or become) done.  Whatever the CAUSE attached to it, a cancelled context must be
// reported with the 'cancelled' kind and an expired one with the 'timeout' kind.
package main

import (
	"context"
	"errors"
	"fmt"
	"sync"
	"time"

	"github.com/ARM-software/golang-utils/utils/commonerrors"
)

var errShutdown = errors.New("service is shutting down")

// manualCtx is a deadline context whose expiry is triggered by the harness (deterministic "deadline reached
// inside the k-th operation"): Err() is context.DeadlineExceeded once expired.
type manualCtx struct {
	mu   sync.Mutex
	done chan struct{}
	err  error
	dl   time.Time
}

func newManualCtx() *manualCtx {
	return &manualCtx{done: make(chan struct{}), dl: time.Now().Add(time.Hour)}
}
func (m *manualCtx) Deadline() (time.Time, bool) { return m.dl, true }
func (m *manualCtx) Done() <-chan struct{}       { return m.done }
func (m *manualCtx) Err() error {
	m.mu.Lock()
	defer m.mu.Unlock()
	return m.err
}
func (m *manualCtx) Value(any) any { return nil }
func (m *manualCtx) expire() {
	m.mu.Lock()
	defer m.mu.Unlock()
	if m.err == nil {
		m.err = context.DeadlineExceeded
		close(m.done)
	}
}

// flavours that can be triggered at a chosen instant (used before the call and inside the k-th operation)
var instantFlavours = []string{
	"cancel",
	"cancel-cause-custom",         // WithCancelCause, cause = a custom error
	"cancel-cause-wraps-canceled", // cause wraps context.Canceled
	"cancel-cause-errtimeout",     // cause = commonerrors.ErrTimeout: still a cancellation
	"cancel-cause-wraps-exceeded", // cause wraps context.DeadlineExceeded: still a cancellation
	"cancel-cause-nil",            // WithCancelCause, cancel(nil)
	"cancel-parent-cause",         // parent cancelled with a cause, child without
	"deadline-manual",             // harness-controlled deadline context
	"deadline-child-of-manual",    // stdlib child (WithCancelCause) of an expired parent
}

// flavours driven by a real timer: done before the call (deadline in the past) or expiring while the k-th operation waits for it
var timerFlavours = []string{
	"deadline",
	"deadline-cause-custom",         // WithDeadlineCause, custom cause
	"deadline-cause-errcancelled",   // cause = commonerrors.ErrCancelled: still a timeout
	"deadline-cause-wraps-canceled", // cause wraps context.Canceled: still a timeout
	"timeout-cause-custom",          // WithTimeoutCause
	"deadline-parent-cause",         // parent with deadline+cause, child WithCancel
}

const timerDelay = 300 * time.Millisecond

func isTimerFlavour(f string) bool {
	for _, t := range timerFlavours {
		if t == f {
			return true
		}
	}
	return false
}

// wantKind is the kind the property demands for a context ended this way
func wantKind(flavour string) string {
	if len(flavour) >= 8 && (flavour[:8] == "deadline" || flavour[:7] == "timeout") {
		return "timeout"
	}
	return "cancelled"
}

// newCtx returns a live context, the function that ends it (blocking until it is done), and a release function.
// For timer flavours with past=true the deadline already lies in the past; otherwise it is timerDelay ahead and
// end() waits for it.
func newCtx(flavour string, past bool) (ctx context.Context, end func(), release func()) {
	bg := context.Background()
	switch flavour {
	case "", "cancel":
		c, cancel := context.WithCancel(bg)
		return c, cancel, cancel
	case "cancel-cause-custom":
		c, cancel := context.WithCancelCause(bg)
		return c, func() { cancel(errShutdown) }, func() { cancel(nil) }
	case "cancel-cause-wraps-canceled":
		c, cancel := context.WithCancelCause(bg)
		return c, func() { cancel(fmt.Errorf("request dropped: %w", context.Canceled)) }, func() { cancel(nil) }
	case "cancel-cause-errtimeout":
		c, cancel := context.WithCancelCause(bg)
		return c, func() { cancel(commonerrors.ErrTimeout) }, func() { cancel(nil) }
	case "cancel-cause-wraps-exceeded":
		c, cancel := context.WithCancelCause(bg)
		return c, func() { cancel(fmt.Errorf("upstream: %w", context.DeadlineExceeded)) }, func() { cancel(nil) }
	case "cancel-cause-nil":
		c, cancel := context.WithCancelCause(bg)
		return c, func() { cancel(nil) }, func() { cancel(nil) }
	case "cancel-parent-cause":
		p, pcancel := context.WithCancelCause(bg)
		c, cancel := context.WithCancel(p)
		return c, func() { pcancel(errShutdown); <-c.Done() }, func() { cancel(); pcancel(nil) }
	case "deadline-manual":
		m := newManualCtx()
		return m, m.expire, m.expire
	case "deadline-child-of-manual":
		m := newManualCtx()
		c, cancel := context.WithCancelCause(m)
		return c, func() { m.expire(); <-c.Done() }, func() { cancel(nil); m.expire() }
	}
	// timer flavours
	at := time.Now().Add(timerDelay)
	if past {
		at = time.Now().Add(-time.Second)
	}
	var c context.Context
	var cancel context.CancelFunc
	switch flavour {
	case "deadline":
		c, cancel = context.WithDeadline(bg, at)
	case "deadline-cause-custom":
		c, cancel = context.WithDeadlineCause(bg, at, errShutdown)
	case "deadline-cause-errcancelled":
		c, cancel = context.WithDeadlineCause(bg, at, commonerrors.ErrCancelled)
	case "deadline-cause-wraps-canceled":
		c, cancel = context.WithDeadlineCause(bg, at, fmt.Errorf("gave up: %w", context.Canceled))
	case "timeout-cause-custom":
		c, cancel = context.WithTimeoutCause(bg, time.Until(at), errShutdown)
	case "deadline-parent-cause":
		p, pcancel := context.WithDeadlineCause(bg, at, errShutdown)
		ch, ccancel := context.WithCancel(p)
		c, cancel = ch, func() { ccancel(); pcancel() }
	default:
		c, cancel = context.WithDeadline(bg, at)
	}
	return c, func() { <-c.Done() }, cancel
}
