// C09 part (b), OS back end with symbolic links.  The same entry-point table is driven on a real directory
// (os.MkdirTemp) whose tree CONTAINS links (to a file, to a directory, dangling, to a directory outside the tree),
// and with the path ARGUMENT itself being a link (to a file / to a directory / dangling).  Oracle for a context
// already done at the call: no mutating backend operation, the snapshot of the whole scratch directory (links
// recorded as links, the outside directory included) unchanged, kind cancelled/timeout.
package main

import (
	"crypto/sha256"
	"errors"
	"fmt"
	"os"
	"path/filepath"
	"strings"
	"sync/atomic"
	"syscall"

	"github.com/ARM-software/golang-utils/utils/filesystem"

	"verif/harness/internal/shim"
)

var osScratch string // per-run scratch root, removed at exit
var osSeq atomic.Int64

func osScratchInit() error {
	d, err := os.MkdirTemp("", "verif-c09-os-*")
	if err != nil {
		return err
	}
	osScratch = d
	return nil
}

func osScratchCleanup() {
	if osScratch != "" {
		_ = os.RemoveAll(osScratch)
	}
}

// argument decorations
const (
	argPlain    = "plain"           // the argument is the tree itself (which contains links)
	argLink     = "arg-is-link"     // the argument is a symbolic link to the file / directory / archive
	argDangling = "arg-is-dangling" // the argument is a dangling symbolic link
)

// newOSEnv builds  base/src (the tree of [spec] + links), base/outside/o.txt, base/empty, base/a.zip and the links
// base/L_dir -> src, base/L_file -> src/big.bin, base/L_leaf -> src/a/b/c.txt, base/L_empty -> empty,
// base/L_zip -> a.zip, base/L_dang -> (nothing).
func newOSEnv(spec treeSpec, withZip bool, arg string) (*fsEnv, error) {
	if osScratch == "" {
		return nil, errors.New("no scratch directory")
	}
	base := filepath.Join(osScratch, fmt.Sprintf("e%06d", osSeq.Add(1)))
	if err := os.MkdirAll(base, 0o755); err != nil {
		return nil, err
	}
	inner := filesystem.NewExtendedOsFs()
	sh := shim.New(inner, nil)
	sh.Rec = false
	vfs, ok := filesystem.NewVirtualFileSystem(sh, filesystem.StandardFS, filesystem.IdentityPathConverterFunc).(*filesystem.VFS)
	if !ok {
		return nil, errors.New("NewVirtualFileSystem is not a *VFS")
	}
	src := filepath.Join(base, "src")
	w := func(p string, b []byte) error {
		if err := os.MkdirAll(filepath.Dir(p), 0o755); err != nil {
			return err
		}
		return os.WriteFile(p, b, 0o644)
	}
	for d := 0; d < spec.Dirs; d++ {
		dir := filepath.Join(src, fmt.Sprintf("d%03d", d))
		if err := os.MkdirAll(dir, 0o755); err != nil {
			return nil, err
		}
		for f := 0; f < spec.Files; f++ {
			if err := w(filepath.Join(dir, fmt.Sprintf("f%03d.txt", f)), pattern(5+(d*7+f*3)%40, d+f)); err != nil {
				return nil, err
			}
		}
	}
	for d := 0; d < spec.Empty; d++ {
		if err := os.MkdirAll(filepath.Join(src, fmt.Sprintf("e%03d", d)), 0o755); err != nil {
			return nil, err
		}
	}
	deep := src
	for d := 0; d < spec.Deep; d++ {
		deep = filepath.Join(deep, "zzz")
		if err := w(filepath.Join(deep, "a.txt"), pattern(9+d, d)); err != nil {
			return nil, err
		}
	}
	if err := w(filepath.Join(src, "a", "b", "c.txt"), []byte("chain")); err != nil {
		return nil, err
	}
	big := spec.Big
	if big == 0 {
		big = 100
	}
	if err := w(filepath.Join(src, "big.bin"), pattern(big, 3)); err != nil {
		return nil, err
	}
	if err := w(filepath.Join(base, "outside", "o.txt"), []byte("outside the tree")); err != nil {
		return nil, err
	}
	if err := os.MkdirAll(filepath.Join(base, "outside", "sub"), 0o755); err != nil {
		return nil, err
	}
	if err := os.MkdirAll(filepath.Join(base, "empty"), 0o755); err != nil {
		return nil, err
	}
	if withZip {
		z, err := zipOf(spec)
		if err != nil {
			return nil, err
		}
		if err := w(filepath.Join(base, "a.zip"), z); err != nil {
			return nil, err
		}
	}
	links := [][2]string{
		// inside the tree
		{"big.bin", filepath.Join(src, "l_file")},
		{"d000", filepath.Join(src, "l_dir")},
		{"nothing-here", filepath.Join(src, "l_dangling")},
		{filepath.Join("..", "outside"), filepath.Join(src, "l_outside")},
		{filepath.Join("..", "..", "outside", "o.txt"), filepath.Join(src, "a", "l_outfile")},
		// usable as arguments
		{"src", filepath.Join(base, "L_dir")},
		{filepath.Join("src", "big.bin"), filepath.Join(base, "L_file")},
		{filepath.Join("src", "a", "b", "c.txt"), filepath.Join(base, "L_leaf")},
		{"empty", filepath.Join(base, "L_empty")},
		{"a.zip", filepath.Join(base, "L_zip")},
		{"nowhere", filepath.Join(base, "L_dang")},
	}
	for _, l := range links {
		if spec.Dirs == 0 && l[0] == "d000" {
			l[0] = "a"
		}
		if err := os.Symlink(l[0], l[1]); err != nil {
			return nil, err
		}
	}
	e := &fsEnv{sh: sh, inner: inner, fs: vfs, spec: spec, base: base}
	e.pmap = func(p string) string {
		rel := strings.TrimPrefix(p, "/t")
		if arg != argPlain {
			var l string
			switch rel {
			case "/src":
				l = "L_dir"
			case "/src/big.bin":
				l = "L_file"
			case "/src/a/b/c.txt":
				l = "L_leaf"
			case "/empty":
				l = "L_empty"
			case "/a.zip":
				l = "L_zip"
			}
			if l != "" {
				if arg == argDangling {
					l = "L_dang"
				}
				return filepath.Join(base, l)
			}
		}
		return filepath.Join(base, filepath.FromSlash(rel))
	}
	return e, nil
}

// osSnapshot records every entry below root without following links
func osSnapshot(root string) map[string]string {
	out := map[string]string{}
	_ = filepath.Walk(root, func(p string, info os.FileInfo, err error) error {
		if err != nil || info == nil {
			return nil
		}
		rel, _ := filepath.Rel(root, p)
		switch {
		case info.Mode()&os.ModeSymlink != 0:
			t, _ := os.Readlink(p)
			out[rel] = "l:" + t
		case info.IsDir():
			out[rel] = fmt.Sprintf("d:%o", info.Mode().Perm())
		default:
			b, _ := os.ReadFile(p)
			out[rel] = fmt.Sprintf("f:%x:%o", sha256.Sum256(b), info.Mode().Perm())
		}
		return nil
	})
	return out
}

// runOS executes one entry point once on the OS back end. mode os-cancel-at with k<0: no cancellation.
func runOS(ep *entryPoint, spec treeSpec, mode, arg string, k int64, flavour string) (res fsResult, err error) {
	e, err := newOSEnv(spec, ep.Zip, arg)
	if err != nil {
		return res, err
	}
	defer func() {
		if e.open != nil {
			_ = e.open.Close()
		}
		_ = filepath.Walk(e.base, func(p string, info os.FileInfo, err error) error { // chmod sweeps may have removed permissions
			if err == nil && info != nil && info.Mode()&os.ModeSymlink == 0 {
				_ = os.Chmod(p, 0o755)
			}
			return nil
		})
		_ = os.RemoveAll(e.base)
	}()
	if ep.Prep != nil {
		if err := ep.Prep(e); err != nil {
			return res, fmt.Errorf("prep: %w", err)
		}
	}
	before := osSnapshot(e.base)
	flavour = defaultFlavour(mode, flavour)
	ctx, endCtx, release := newCtx(flavour, mode != "os-cancel-at")
	defer release()
	if mode != "os-cancel-at" {
		endCtx()
	}
	var fired atomic.Bool
	var removes, lstats atomic.Int64
	base := e.sh.Count()
	e.sh.ResetLog()
	e.sh.Rec = true
	e.sh.SetHook(func(op *shim.Op) error {
		if mode == "os-cancel-at" && op.Seq-base == k && ctx.Err() == nil {
			fired.Store(true)
			endCtx()
		}
		if ep.RenameFails && op.Name == "Rename" {
			return &os.LinkError{Op: "rename", Old: op.Path, New: op.Path2, Err: errCrossDevice}
		}
		if ep.RemoveFault > 0 && op.Name == "Remove" && removes.Add(1) == int64(ep.RemoveFault) {
			return &os.PathError{Op: "remove", Path: op.Path, Err: syscall.EPERM}
		}
		if ep.LstatFault > 0 && op.Name == "Lstat" && lstats.Add(1) == int64(ep.LstatFault) {
			return &os.PathError{Op: "lstat", Path: op.Path, Err: syscall.EIO}
		}
		return nil
	})
	rerr := ep.Run(ctx, e)
	if ep.Concurrent {
		quiesce(e.sh)
	}
	e.sh.SetHook(nil)
	res.Kind = kindOf(rerr)
	if rerr != nil {
		res.Err = rerr.Error()
		if len(res.Err) > 200 {
			res.Err = res.Err[:200]
		}
	}
	res.Total = e.sh.Count() - base
	res.Fired = fired.Load()
	lim := k
	if mode != "os-cancel-at" {
		lim = 0
	}
	if mode != "os-cancel-at" || res.Fired {
		for _, op := range e.sh.Log() {
			if op.Seq-base > lim {
				res.After++
				if op.Mutating {
					res.MutAfter++
				}
				if len(res.OpsAfter) < 40 {
					res.OpsAfter = append(res.OpsAfter, op.Name)
				}
				if op.Name == "ForceRemove" || op.Name == "RemoveAll" {
					res.ForcedAfter++
				}
			}
		}
	}
	after := osSnapshot(e.base)
	if mode != "os-cancel-at" {
		res.Diff = snapDiff(before, after)
	}
	res.Final = after
	res.Result = append([]string{}, e.result...)
	return res, nil
}

func checkOSPre(c fsCase, res fsResult) (fs []failure) {
	tag := c.EP
	if res.MutAfter > 0 || len(res.Diff) > 0 {
		fs = append(fs, failure{"precancelled-mutates:" + tag, fmt.Sprintf("%s on the OS back end (%s) with a context already done issued %d mutating backend operations %v; changes %v (kind returned: %s)",
			c.EP, c.Arg, res.MutAfter, res.OpsAfter, res.Diff, res.Kind), c})
	}
	want := wantKind(c.flavour())
	switch {
	case res.Kind == want:
	case c.Arg == argDangling && res.Kind != "nil" && !isCancelKind(res.Kind):
		// a dangling argument may legitimately be refused as invalid / not found before anything else happens
	default:
		fs = append(fs, failure{"precancelled-wrong-kind:" + tag, fmt.Sprintf("%s on the OS back end (%s) with a context already done returned kind %s (%s), not %s (context: %s)", c.EP, c.Arg, res.Kind, res.Err, want, c.flavour()), c})
	}
	if res.After > opsAfterBound {
		fs = append(fs, failure{"precancelled-unbounded:" + tag, fmt.Sprintf("%s on the OS back end (%s) with a context already done issued %d backend operations", c.EP, c.Arg, res.After), c})
	}
	return
}
