// C09 part (b): every context-accepting entry point of the filesystem API, driven over an in-memory back end
// wrapped in the recording shim.  Oracles (stated on the implementation's observations only):
//   - context already done at the call  => kind cancelled/timeout, no mutating backend operation, tree unchanged
//   - context cancelled from inside the k-th backend operation, for every k => the number of further backend
//     operations is below a constant that does not depend on the size of the tree; kind cancelled/timeout
//     (or the operation had already finished its work).
package main

import (
	"archive/zip"
	"bytes"
	"context"
	"crypto/sha256"
	"errors"
	"fmt"
	"io"
	"os"
	"os/user"
	"reflect"
	"regexp"
	"sort"
	"strings"
	"sync"
	"sync/atomic"
	"syscall"
	"time"

	"github.com/spf13/afero"

	"github.com/ARM-software/golang-utils/utils/commonerrors"
	"github.com/ARM-software/golang-utils/utils/filesystem"

	"verif/harness/internal/h"
	"verif/harness/internal/shim"
)

// treeSpec describes a deterministic tree: /t/src/dXX/fYY (+ one nested chain and one multi-chunk file).
type treeSpec struct {
	Dirs  int `json:"dirs"`
	Files int `json:"files"` // files per directory
	Big   int `json:"big"`   // size of /t/src/big.bin (0: absent)
	Empty int `json:"empty"` // empty directories /t/src/eXXX
	Deep  int `json:"deep"`  // levels of /t/src/zzz/zzz/...: each holds a.txt and then, as its LAST entry, the next level
}

func (t treeSpec) entries() int {
	n := t.Dirs*(t.Files+1) + 3 + t.Empty + 2*t.Deep // + chain a/b/c.txt
	if t.Big > 0 {
		n++
	}
	return n
}

type fsEnv struct {
	sh     *shim.Fs
	inner  afero.Fs
	fs     *filesystem.VFS
	spec   treeSpec
	open   filesystem.File     // a handle some entry points need (opened before the hook is armed)
	result []string            // what the call handed back (see setResult)
	pmap   func(string) string // canonical path ("/t/...") -> path on this back end (nil: identity)
	base   string              // OS back end: the scratch directory of this environment
}

// setResult records what the call handed back (listing, content, digest, ...) in a form comparable between runs
func (e *fsEnv) setResult(v any) {
	var out []string
	switch x := v.(type) {
	case []string:
		out = append(out, x...)
	case []byte:
		out = []string{fmt.Sprintf("%d bytes %x", len(x), sha256.Sum256(x))}
	default:
		out = []string{fmt.Sprint(x)}
	}
	for i := range out {
		if e.base != "" {
			out[i] = strings.ReplaceAll(out[i], e.base, "")
		}
	}
	e.result = out
}

func (e *fsEnv) recWalk(p string, _ os.FileInfo, err error) error {
	if err == nil {
		if e.base != "" {
			p = strings.ReplaceAll(p, e.base, "")
		}
		e.result = append(e.result, p)
	}
	return err
}

// zipResult: the entries (name, size) of the archive the call produced
func (e *fsEnv) zipResult(err error) error {
	b, rerr := afero.ReadFile(e.inner, e.P("/t/out.zip"))
	if rerr != nil {
		e.result = []string{"no archive"}
		return err
	}
	zr, zerr := zip.NewReader(bytes.NewReader(b), int64(len(b)))
	if zerr != nil {
		e.result = []string{"unreadable archive"}
		return err
	}
	var out []string
	for _, f := range zr.File {
		out = append(out, fmt.Sprintf("%s:%d", f.Name, f.UncompressedSize64))
	}
	e.result = out
	return err
}

// P maps a canonical path of the entry-point table to the path to use on this environment's back end
func (e *fsEnv) P(p string) string {
	if e.pmap == nil {
		return p
	}
	return e.pmap(p)
}

func pattern(n int, salt int) []byte {
	b := make([]byte, n)
	for i := range b {
		b[i] = byte((i*31 + salt*7 + i/251) % 253)
	}
	return b
}

var zipCache sync.Map // treeSpec -> []byte

func populate(fs filesystem.FS, spec treeSpec) error {
	if err := fs.MkDir("/t/src"); err != nil {
		return err
	}
	for d := 0; d < spec.Dirs; d++ {
		dir := fmt.Sprintf("/t/src/d%03d", d)
		if err := fs.MkDir(dir); err != nil {
			return err
		}
		for f := 0; f < spec.Files; f++ {
			if err := fs.WriteFile(fmt.Sprintf("%s/f%03d.txt", dir, f), pattern(5+(d*7+f*3)%40, d+f), 0o644); err != nil {
				return err
			}
		}
	}
	for d := 0; d < spec.Empty; d++ {
		if err := fs.MkDir(fmt.Sprintf("/t/src/e%03d", d)); err != nil {
			return err
		}
	}
	deep := "/t/src"
	for d := 0; d < spec.Deep; d++ {
		deep += "/zzz"
		if err := fs.MkDir(deep); err != nil {
			return err
		}
		if err := fs.WriteFile(deep+"/a.txt", pattern(9+d, d), 0o644); err != nil {
			return err
		}
	}
	if err := fs.MkDir("/t/src/a/b"); err != nil {
		return err
	}
	if err := fs.WriteFile("/t/src/a/b/c.txt", []byte("chain"), 0o644); err != nil {
		return err
	}
	if spec.Big > 0 {
		if err := fs.WriteFile("/t/src/big.bin", pattern(spec.Big, 3), 0o644); err != nil {
			return err
		}
	}
	return nil
}

// archive of the tree, produced once per spec by the library itself on a private back end
func zipOf(spec treeSpec) ([]byte, error) {
	if v, ok := zipCache.Load(spec); ok {
		return v.([]byte), nil
	}
	fs := filesystem.NewInMemoryFileSystem()
	if err := populate(fs, spec); err != nil {
		return nil, err
	}
	if err := fs.Zip("/t/src", "/t/a.zip"); err != nil {
		return nil, err
	}
	b, err := fs.ReadFile("/t/a.zip")
	if err != nil {
		return nil, err
	}
	zipCache.Store(spec, b)
	return b, nil
}

func newEnv(spec treeSpec, withZip bool) (*fsEnv, error) {
	inner := afero.NewMemMapFs()
	sh := shim.New(inner, nil)
	sh.Rec = false
	vfs, ok := filesystem.NewVirtualFileSystem(sh, filesystem.InMemoryFS, filesystem.IdentityPathConverterFunc).(*filesystem.VFS)
	if !ok {
		return nil, errors.New("NewVirtualFileSystem is not a *VFS")
	}
	plain := filesystem.NewVirtualFileSystem(inner, filesystem.InMemoryFS, filesystem.IdentityPathConverterFunc)
	if err := populate(plain, spec); err != nil {
		return nil, err
	}
	if err := plain.MkDir("/t/empty"); err != nil {
		return nil, err
	}
	if withZip {
		z, err := zipOf(spec)
		if err != nil {
			return nil, err
		}
		if err := plain.WriteFile("/t/a.zip", z, 0o644); err != nil {
			return nil, err
		}
	}
	return &fsEnv{sh: sh, inner: inner, fs: vfs, spec: spec}, nil
}

// snapshot of the inner back end: path -> "d" | "f:<sha of content>:<mode>"
func snapshot(inner afero.Fs) map[string]string {
	out := map[string]string{}
	_ = afero.Walk(inner, "/", func(p string, info os.FileInfo, err error) error {
		if err != nil || info == nil {
			return nil
		}
		if info.IsDir() {
			out[p] = fmt.Sprintf("d:%o", info.Mode().Perm())
			return nil
		}
		if strings.HasSuffix(p, "out.zip") { // compared through its entries (zipResult): the bytes embed modification times
			out[p] = "f:archive"
			return nil
		}
		b, _ := afero.ReadFile(inner, p)
		out[p] = fmt.Sprintf("f:%x:%o", sha256.Sum256(b), info.Mode().Perm())
		return nil
	})
	return out
}

func snapDiff(a, b map[string]string) []string {
	var d []string
	for k, v := range a {
		if w, ok := b[k]; !ok {
			d = append(d, "-"+k)
		} else if w != v {
			d = append(d, "~"+k)
		}
	}
	for k := range b {
		if _, ok := a[k]; !ok {
			d = append(d, "+"+k)
		}
	}
	sort.Strings(d)
	if len(d) > 6 {
		d = append(d[:6], fmt.Sprintf("… %d more", len(d)-6))
	}
	return d
}

type entryPoint struct {
	Name        string
	Zip         bool // needs /t/a.zip
	RenameFails bool // the back end refuses Rename (cross-device), which sends Move down its copy-and-delete path
	LstatFault  int  // the j-th Lstat fails once with EIO (read-side fault: it is then unknown whether the path is a link); 0: never
	RemoveFault int  // the back end refuses its j-th Remove once with EPERM (steers RemoveWithPrivileges into its escalation path); 0: never
	Concurrent  bool // fans out goroutines that may outlive the call: wait for the back end to go quiet before counting
	Prep        func(e *fsEnv) error
	Run         func(ctx context.Context, e *fsEnv) error
	Methods     []string // *VFS methods (or package functions) covered
}

var errCrossDevice = errors.New("invalid cross-device link")

func noopWalk(string, os.FileInfo, error) error         { return nil }
func passWalk(_ string, _ os.FileInfo, err error) error { return err }

func entryPoints() []entryPoint {
	me, _ := user.Current()
	lim := func() filesystem.ILimits { return filesystem.NewLimits(1<<30, 1<<40, 1<<20, 64, false) }
	openDir := func(e *fsEnv) (err error) { e.open, err = e.fs.GenericOpen(e.P("/t/src")); return }
	openFile := func(e *fsEnv) (err error) { e.open, err = e.fs.GenericOpen(e.P("/t/src/a/b/c.txt")); return }
	return []entryPoint{
		{Name: "Walk", Methods: []string{"WalkWithContext"}, Run: func(ctx context.Context, e *fsEnv) error { return e.fs.WalkWithContext(ctx, e.P("/t/src"), e.recWalk) }},
		{Name: "WalkExcl", Methods: []string{"WalkWithContextAndExclusionPatterns"}, Run: func(ctx context.Context, e *fsEnv) error {
			return e.fs.WalkWithContextAndExclusionPatterns(ctx, e.P("/t/src"), e.recWalk, "f000.*")
		}},
		{Name: "ReadFile", Methods: []string{"ReadFileWithContext"}, Run: func(ctx context.Context, e *fsEnv) error {
			res, err := e.fs.ReadFileWithContext(ctx, e.P("/t/src/big.bin"))
			e.setResult(res)
			return err
		}},
		{Name: "ReadFileLimits", Methods: []string{"ReadFileWithContextAndLimits"}, Run: func(ctx context.Context, e *fsEnv) error {
			res, err := e.fs.ReadFileWithContextAndLimits(ctx, e.P("/t/src/big.bin"), lim())
			e.setResult(res)
			return err
		}},
		{Name: "ReadFileContent", Methods: []string{"ReadFileContent"}, Prep: openFile, Run: func(ctx context.Context, e *fsEnv) error {
			res, err := e.fs.ReadFileContent(ctx, e.open, lim())
			e.setResult(res)
			return err
		}},
		{Name: "WriteFile", Methods: []string{"WriteFileWithContext"}, Run: func(ctx context.Context, e *fsEnv) error {
			return e.fs.WriteFileWithContext(ctx, e.P("/t/new.bin"), pattern(100000, 9), 0o644)
		}},
		{Name: "WriteToFile", Methods: []string{"WriteToFile"}, Run: func(ctx context.Context, e *fsEnv) error {
			res, err := e.fs.WriteToFile(ctx, e.P("/t/new2.bin"), bytes.NewReader(pattern(100000, 5)), 0o644)
			e.setResult(res)
			return err
		}},
		{Name: "CleanDir", Methods: []string{"CleanDirWithContext"}, Run: func(ctx context.Context, e *fsEnv) error { return e.fs.CleanDirWithContext(ctx, e.P("/t/src")) }},
		{Name: "CleanDirExcl", Methods: []string{"CleanDirWithContextAndExclusionPatterns"}, Run: func(ctx context.Context, e *fsEnv) error {
			return e.fs.CleanDirWithContextAndExclusionPatterns(ctx, e.P("/t/src"), "d000")
		}},
		{Name: "Remove", Methods: []string{"RemoveWithContext"}, Run: func(ctx context.Context, e *fsEnv) error { return e.fs.RemoveWithContext(ctx, e.P("/t/src")) }},
		{Name: "RemoveFile", Methods: []string{"RemoveWithContext"}, Run: func(ctx context.Context, e *fsEnv) error { return e.fs.RemoveWithContext(ctx, e.P("/t/src/a/b/c.txt")) }},
		{Name: "RemoveEmptyDir", Methods: []string{"RemoveWithContext"}, Run: func(ctx context.Context, e *fsEnv) error { return e.fs.RemoveWithContext(ctx, e.P("/t/empty")) }},
		{Name: "RemoveExcl", Methods: []string{"RemoveWithContextAndExclusionPatterns"}, Run: func(ctx context.Context, e *fsEnv) error {
			return e.fs.RemoveWithContextAndExclusionPatterns(ctx, e.P("/t/src"), "d000")
		}},
		{Name: "RemoveWithPrivileges", Methods: []string{"RemoveWithPrivileges"}, Run: func(ctx context.Context, e *fsEnv) error { return e.fs.RemoveWithPrivileges(ctx, e.P("/t/src")) }},
		{Name: "RemoveWithPrivilegesFault1", RemoveFault: 1, Methods: []string{"RemoveWithPrivileges"}, Run: func(ctx context.Context, e *fsEnv) error { return e.fs.RemoveWithPrivileges(ctx, e.P("/t/src")) }},
		{Name: "RemoveWithPrivilegesLstatFault3", LstatFault: 3, Methods: []string{"RemoveWithPrivileges"}, Run: func(ctx context.Context, e *fsEnv) error { return e.fs.RemoveWithPrivileges(ctx, e.P("/t/src")) }},
		{Name: "RemoveWithPrivilegesFault4", RemoveFault: 4, Methods: []string{"RemoveWithPrivileges"}, Run: func(ctx context.Context, e *fsEnv) error { return e.fs.RemoveWithPrivileges(ctx, e.P("/t/src")) }},
		{Name: "Chmod", Methods: []string{"ChmodRecursively"}, Run: func(ctx context.Context, e *fsEnv) error { return e.fs.ChmodRecursively(ctx, e.P("/t/src"), 0o700) }},
		{Name: "ChmodFile", Methods: []string{"ChmodRecursively"}, Run: func(ctx context.Context, e *fsEnv) error {
			return e.fs.ChmodRecursively(ctx, e.P("/t/src/a/b/c.txt"), 0o700)
		}},
		{Name: "Chown", Methods: []string{"ChownRecursively"}, Run: func(ctx context.Context, e *fsEnv) error {
			return e.fs.ChownRecursively(ctx, e.P("/t/src"), 1234, 1234)
		}},
		{Name: "ChangeOwnership", Methods: []string{"ChangeOwnershipRecursively"}, Run: func(ctx context.Context, e *fsEnv) error {
			return e.fs.ChangeOwnershipRecursively(ctx, e.P("/t/src"), me)
		}},
		{Name: "LsRecursive", Methods: []string{"LsRecursive"}, Run: func(ctx context.Context, e *fsEnv) error {
			res, err := e.fs.LsRecursive(ctx, e.P("/t/src"), true)
			e.setResult(res)
			return err
		}},
		{Name: "LsRecursiveExcl", Methods: []string{"LsRecursiveWithExclusionPatterns"}, Run: func(ctx context.Context, e *fsEnv) error {
			res, err := e.fs.LsRecursiveWithExclusionPatterns(ctx, e.P("/t/src"), false, "f000.*")
			e.setResult(res)
			return err
		}},
		{Name: "LsRecursiveLimits", Methods: []string{"LsRecursiveWithExclusionPatternsAndLimits"}, Run: func(ctx context.Context, e *fsEnv) error {
			res, err := e.fs.LsRecursiveWithExclusionPatternsAndLimits(ctx, e.P("/t/src"), lim(), true)
			e.setResult(res)
			return err
		}},
		{Name: "LsRecursiveOpened", Methods: []string{"LsRecursiveFromOpenedDirectory"}, Prep: openDir, Run: func(ctx context.Context, e *fsEnv) error {
			res, err := e.fs.LsRecursiveFromOpenedDirectory(ctx, e.open, true)
			e.setResult(res)
			return err
		}},
		{Name: "Move", Methods: []string{"MoveWithContext"}, Run: func(ctx context.Context, e *fsEnv) error {
			return e.fs.MoveWithContext(ctx, e.P("/t/src"), e.P("/t/moved/dst"))
		}},
		{Name: "MoveNoRename", RenameFails: true, Methods: []string{"MoveWithContext"}, Run: func(ctx context.Context, e *fsEnv) error {
			return e.fs.MoveWithContext(ctx, e.P("/t/src"), e.P("/t/moved/dst"))
		}},
		{Name: "MoveFileNoRename", RenameFails: true, Methods: []string{"MoveWithContext"}, Run: func(ctx context.Context, e *fsEnv) error {
			return e.fs.MoveWithContext(ctx, e.P("/t/src/big.bin"), e.P("/t/moved/big.bin"))
		}},
		{Name: "FileHash", Methods: []string{"FileHashWithContext"}, Run: func(ctx context.Context, e *fsEnv) error {
			res, err := e.fs.FileHashWithContext(ctx, "SHA256", e.P("/t/src/big.bin"))
			e.setResult(res)
			return err
		}},
		{Name: "CopyToFile", Methods: []string{"CopyToFileWithContext"}, Run: func(ctx context.Context, e *fsEnv) error {
			return e.fs.CopyToFileWithContext(ctx, e.P("/t/src/big.bin"), e.P("/t/out/copy.bin"))
		}},
		{Name: "CopyToDirectory", Methods: []string{"CopyToDirectoryWithContext"}, Run: func(ctx context.Context, e *fsEnv) error {
			return e.fs.CopyToDirectoryWithContext(ctx, e.P("/t/src"), e.P("/t/outdir"))
		}},
		{Name: "Copy", Methods: []string{"CopyWithContext"}, Run: func(ctx context.Context, e *fsEnv) error {
			return e.fs.CopyWithContext(ctx, e.P("/t/src"), e.P("/t/copy"))
		}},
		{Name: "CopyExcl", Methods: []string{"CopyWithContextAndExclusionPatterns"}, Run: func(ctx context.Context, e *fsEnv) error {
			return e.fs.CopyWithContextAndExclusionPatterns(ctx, e.P("/t/src"), e.P("/t/copy"), "f000.*")
		}},
		{Name: "MoveBetweenFS", Methods: []string{"pkg.MoveBetweenFS"}, Run: func(ctx context.Context, e *fsEnv) error {
			return filesystem.MoveBetweenFS(ctx, e.fs, e.P("/t/src"), e.fs, e.P("/t/mv2"))
		}},
		{Name: "CopyBetweenFS", Methods: []string{"pkg.CopyBetweenFS"}, Run: func(ctx context.Context, e *fsEnv) error {
			return filesystem.CopyBetweenFS(ctx, e.fs, e.P("/t/src"), e.fs, e.P("/t/cp2"))
		}},
		{Name: "CopyBetweenFSExcl", Methods: []string{"pkg.CopyBetweenFSWithExclusionPatterns"}, Run: func(ctx context.Context, e *fsEnv) error {
			return filesystem.CopyBetweenFSWithExclusionPatterns(ctx, e.fs, e.P("/t/src"), e.fs, e.P("/t/cp3"), "d000")
		}},
		{Name: "CopyBetweenFSRegexes", Methods: []string{"pkg.CopyBetweenFSWithExclusionRegexes"}, Run: func(ctx context.Context, e *fsEnv) error {
			return filesystem.CopyBetweenFSWithExclusionRegexes(ctx, e.fs, e.P("/t/src"), e.fs, e.P("/t/cp4"), []*regexp.Regexp{}, []*regexp.Regexp{})
		}},
		{Name: "SubDirectories", Methods: []string{"SubDirectoriesWithContext"}, Run: func(ctx context.Context, e *fsEnv) error {
			res, err := e.fs.SubDirectoriesWithContext(ctx, e.P("/t/src"))
			e.setResult(res)
			return err
		}},
		{Name: "SubDirectoriesExcl", Methods: []string{"SubDirectoriesWithContextAndExclusionPatterns"}, Run: func(ctx context.Context, e *fsEnv) error {
			res, err := e.fs.SubDirectoriesWithContextAndExclusionPatterns(ctx, e.P("/t/src"), "d000")
			e.setResult(res)
			return err
		}},
		{Name: "ListDirTree", Methods: []string{"ListDirTreeWithContext"}, Run: func(ctx context.Context, e *fsEnv) error {
			var l []string
			err := e.fs.ListDirTreeWithContext(ctx, e.P("/t/src"), &l)
			e.setResult(l)
			return err
		}},
		{Name: "ListDirTreeExcl", Methods: []string{"ListDirTreeWithContextAndExclusionPatterns", "pkg.ListDirTreeWithContextAndExclusionPatterns"}, Run: func(ctx context.Context, e *fsEnv) error {
			var l []string
			err := e.fs.ListDirTreeWithContextAndExclusionPatterns(ctx, e.P("/t/src"), &l, "f000.*")
			e.setResult(l)
			return err
		}},
		{Name: "GarbageCollect", Concurrent: true, Methods: []string{"GarbageCollectWithContext"}, Run: func(ctx context.Context, e *fsEnv) error {
			return e.fs.GarbageCollectWithContext(ctx, e.P("/t/src"), -time.Hour)
		}},
		{Name: "Zip", Methods: []string{"ZipWithContext"}, Run: func(ctx context.Context, e *fsEnv) error {
			return e.zipResult(e.fs.ZipWithContext(ctx, e.P("/t/src"), e.P("/t/out.zip")))
		}},
		{Name: "ZipLimits", Methods: []string{"ZipWithContextAndLimits"}, Run: func(ctx context.Context, e *fsEnv) error {
			return e.zipResult(e.fs.ZipWithContextAndLimits(ctx, e.P("/t/src"), e.P("/t/out.zip"), lim()))
		}},
		{Name: "ZipExcl", Methods: []string{"ZipWithContextAndLimitsAndExclusionPatterns"}, Run: func(ctx context.Context, e *fsEnv) error {
			return e.zipResult(e.fs.ZipWithContextAndLimitsAndExclusionPatterns(ctx, e.P("/t/src"), e.P("/t/out.zip"), filesystem.NoLimits(), "d000"))
		}},
		{Name: "Unzip", Zip: true, Methods: []string{"UnzipWithContext"}, Run: func(ctx context.Context, e *fsEnv) error {
			res, err := e.fs.UnzipWithContext(ctx, e.P("/t/a.zip"), e.P("/t/unz"))
			e.setResult(res)
			return err
		}},
		{Name: "UnzipLimits", Zip: true, Methods: []string{"UnzipWithContextAndLimits"}, Run: func(ctx context.Context, e *fsEnv) error {
			res, err := e.fs.UnzipWithContextAndLimits(ctx, e.P("/t/a.zip"), e.P("/t/unz"), lim())
			e.setResult(res)
			return err
		}},
		{Name: "IsZip", Zip: true, Methods: []string{"IsZipWithContext"}, Run: func(ctx context.Context, e *fsEnv) error {
			res, err := e.fs.IsZipWithContext(ctx, e.P("/t/a.zip"))
			e.setResult(res)
			return err
		}},
	}
}

// context-accepting methods of *VFS, by reflection: the table above must cover them all
func vfsContextMethods() []string {
	var out []string
	t := reflect.TypeOf(&filesystem.VFS{})
	ctxT := reflect.TypeOf((*context.Context)(nil)).Elem()
	for i := 0; i < t.NumMethod(); i++ {
		m := t.Method(i)
		if m.Type.NumIn() > 1 && m.Type.In(1).Implements(ctxT) && m.Type.In(1).Kind() == reflect.Interface {
			out = append(out, m.Name)
		}
	}
	return out
}

func kindOf(err error) string {
	switch {
	case err == nil:
		return "nil"
	case commonerrors.Any(err, commonerrors.ErrCancelled):
		return "cancelled"
	case commonerrors.Any(err, commonerrors.ErrTimeout):
		return "timeout"
	case commonerrors.Any(err, commonerrors.ErrEOF):
		return "eof"
	case commonerrors.Any(err, commonerrors.ErrTooLarge):
		return "toolarge"
	case commonerrors.Any(err, commonerrors.ErrEmpty):
		return "empty"
	case commonerrors.Any(err, context.Canceled, context.DeadlineExceeded):
		return "raw-context-error"
	case commonerrors.Any(err, io.EOF, io.ErrUnexpectedEOF):
		return "raw-eof"
	}
	return "other"
}

func isCancelKind(k string) bool { return k == "cancelled" || k == "timeout" }

type fsResult struct {
	Kind        string
	Err         string
	Total       int64 // backend operations issued by the call
	After       int64 // issued after the k-th (the cancelling) one
	MutAfter    int   // mutating ones among those
	Fired       bool
	Diff        []string
	OpsAfter    []string
	Final       map[string]string
	Result      []string
	ForcedAfter int // recursive / forced removals (one backend operation, unbounded work) issued after the context ended
}

type fsCase struct {
	EP      string   `json:"entry_point"`
	Spec    treeSpec `json:"tree"`
	Mode    string   `json:"mode"` // pre-cancelled | pre-deadline | cancel-at | gc-barrier
	K       int64    `json:"k,omitempty"`
	Fanout  int      `json:"fanout,omitempty"`
	Arg     string   `json:"argument,omitempty"` // OS back end: plain | arg-is-link | arg-is-dangling
	Backend string   `json:"backend,omitempty"`  // "" (in-memory) | os
	Ctx     string   `json:"context,omitempty"`  // how the context ends (ctxflavours.go); "": cancel(), or a past deadline for pre-deadline
}

func (c fsCase) flavour() string { return defaultFlavour(c.Mode, c.Ctx) }

func defaultFlavour(mode, flavour string) string {
	if flavour != "" {
		return flavour
	}
	if strings.HasSuffix(mode, "pre-deadline") {
		return "deadline"
	}
	return "cancel"
}

func findEP(name string) *entryPoint {
	for _, ep := range entryPoints() {
		if ep.Name == name {
			e := ep
			return &e
		}
	}
	return nil
}

func quiesce(sh *shim.Fs) {
	stable := 0
	last := sh.Count()
	for i := 0; i < 4000 && stable < 3; i++ {
		time.Sleep(300 * time.Microsecond)
		c := sh.Count()
		if c == last && sh.OpenHandles() >= 0 {
			stable++
		} else {
			stable = 0
		}
		last = c
	}
}

// runFS executes one entry point once. mode cancel-at with k<0: no cancellation; pre-*: context done before the call.
func runFS(ep *entryPoint, spec treeSpec, mode string, k int64, wantFinal bool, flavour string) (res fsResult, err error) {
	e, err := newEnv(spec, ep.Zip)
	if err != nil {
		return res, err
	}
	if ep.Prep != nil {
		if err := ep.Prep(e); err != nil {
			return res, err
		}
	}
	var before map[string]string
	if mode != "cancel-at" {
		before = snapshot(e.inner)
	}
	flavour = defaultFlavour(mode, flavour)
	ctx, endCtx, release := newCtx(flavour, mode != "cancel-at")
	defer release()
	if mode != "cancel-at" {
		endCtx()
	}
	var fired atomic.Bool
	var removes, lstats atomic.Int64
	base := e.sh.Count()
	e.sh.ResetLog()
	e.sh.Rec = true
	e.sh.SetHook(func(op *shim.Op) error {
		if mode == "cancel-at" && op.Seq-base == k {
			if ctx.Err() == nil { // (a timer-driven deadline may have expired before the k-th operation on a stalled machine: then nothing is claimed)
				fired.Store(true)
				endCtx()
			}
		}
		if ep.RenameFails && op.Name == "Rename" {
			return &os.LinkError{Op: "rename", Old: op.Path, New: op.Path2, Err: errCrossDevice}
		}
		if ep.RemoveFault > 0 && op.Name == "Remove" && removes.Add(1) == int64(ep.RemoveFault) {
			return &os.PathError{Op: "remove", Path: op.Path, Err: syscall.EPERM}
		}
		if ep.LstatFault > 0 && op.Name == "Lstat" && lstats.Add(1) == int64(ep.LstatFault) {
			return &os.PathError{Op: "lstat", Path: op.Path, Err: syscall.EIO}
		}
		return nil
	})
	rerr := ep.Run(ctx, e)
	if ep.Concurrent {
		quiesce(e.sh)
	}
	e.sh.SetHook(nil)
	res.Kind = kindOf(rerr)
	if rerr != nil {
		res.Err = rerr.Error()
		if len(res.Err) > 200 {
			res.Err = res.Err[:200]
		}
	}
	res.Total = e.sh.Count() - base
	res.Fired = fired.Load()
	lg := e.sh.Log()
	lim := k
	if mode != "cancel-at" {
		lim = 0
	}
	if mode != "cancel-at" || res.Fired {
		for _, op := range lg {
			if op.Seq-base > lim {
				res.After++
				if op.Mutating {
					res.MutAfter++
				}
				if len(res.OpsAfter) < 40 {
					res.OpsAfter = append(res.OpsAfter, op.Name)
				}
				if op.Name == "ForceRemove" || op.Name == "RemoveAll" {
					res.ForcedAfter++
				}
			}
		}
	}
	if before != nil {
		res.Diff = snapDiff(before, snapshot(e.inner))
	}
	if wantFinal || (mode == "cancel-at" && res.Fired && res.Kind == "nil") {
		res.Final = snapshot(e.inner)
	}
	res.Result = append([]string{}, e.result...)
	return res, nil
}

// The bound on backend operations after the end of the context: a constant, whatever the tree.  The longest
// check-free stretch of the current code is RemoveWithContext on a directory (Exists, IsDir, IsEmpty, IsEmpty:
// 39 primitive operations before its context test on /repo HEAD (38 before the Lstat link block was added), 55 when reached from the end of moveFile/moveFolder).
const opsAfterBound = 80

type failure struct {
	sig, what string
	replay    any
}

func checkPre(c fsCase, res fsResult) (fs []failure) {
	if want := wantKind(c.flavour()); res.Kind != want {
		fs = append(fs, failure{"precancelled-wrong-kind:" + c.EP, fmt.Sprintf("%s with a context already done (%s) returned kind %s (%s), not %s", c.EP, c.flavour(), res.Kind, res.Err, want), c})
	}
	if res.MutAfter > 0 || len(res.Diff) > 0 {
		fs = append(fs, failure{"precancelled-mutates:" + c.EP, fmt.Sprintf("%s with a context already done issued %d mutating backend operations %v; tree changes %v", c.EP, res.MutAfter, res.OpsAfter, res.Diff), c})
	}
	if res.After > opsAfterBound {
		fs = append(fs, failure{"precancelled-unbounded:" + c.EP, fmt.Sprintf("%s with a context already done issued %d backend operations", c.EP, res.After), c})
	}
	return
}

func sameSnap(a, b map[string]string) bool { return len(snapDiff(a, b)) == 0 }

func sameResult(a, b []string) bool { // order-insensitive (garbage collection and maps have no order)
	if len(a) != len(b) {
		return false
	}
	x, y := append([]string{}, a...), append([]string{}, b...)
	sort.Strings(x)
	sort.Strings(y)
	for i := range x {
		if x[i] != y[i] {
			return false
		}
	}
	return true
}

func checkCancelAt(c fsCase, res fsResult, full fsResult) (fs []failure) {
	if !res.Fired {
		return
	}
	if res.After > opsAfterBound {
		fs = append(fs, failure{"ops-after-cancel-unbounded:" + c.EP, fmt.Sprintf("%s on %d entries, context cancelled inside backend operation %d: %d further backend operations (%d mutating), bound %d; first ones %v",
			c.EP, c.Spec.entries(), c.K, res.After, res.MutAfter, opsAfterBound, res.OpsAfter), c})
	}
	if res.ForcedAfter > 0 {
		fs = append(fs, failure{"forced-removal-after-context-end:" + c.EP, fmt.Sprintf("%s, context ended (%s) inside backend operation %d: %d forced / recursive removal(s) issued afterwards (kind returned: %s)", c.EP, c.flavour(), c.K, res.ForcedAfter, res.Kind), c})
	}
	if want := wantKind(c.flavour()); res.Kind != want {
		// the only other acceptable outcome: the work was finished anyway (the context ended at the very end) — then the
		// result handed back and the state left behind are those of an uncancelled run on a twin tree
		if res.Kind == "nil" {
			if !sameResult(res.Result, full.Result) || !sameSnap(res.Final, full.Final) {
				fs = append(fs, failure{"cancel-during-incomplete-success:" + c.EP, fmt.Sprintf("%s, context ended (%s) inside backend operation %d of %d: the call returned no error, yet its result is not that of a complete run (%d result items instead of %d; state differences %v)",
					c.EP, c.flavour(), c.K, full.Total, len(res.Result), len(full.Result), snapDiff(full.Final, res.Final)), c})
			}
		} else {
			fs = append(fs, failure{"cancel-during-wrong-kind:" + c.EP, fmt.Sprintf("%s, context ended (%s) inside backend operation %d of %d: result kind %s (%s), expected %s", c.EP, c.flavour(), c.K, full.Total, res.Kind, res.Err, want), c})
		}
	}
	return
}

type sweepStat struct {
	EP       string  `json:"entry_point"`
	Entries  int     `json:"entries"`
	Total    int64   `json:"total_ops"`
	Runs     int     `json:"runs"`
	MaxAfter int64   `json:"max_ops_after_cancel"`
	ArgK     int64   `json:"at_k"`
	MaxMut   int     `json:"max_mutating_after_cancel"`
	Ks       []int64 `json:"-"`
	Afters   []int64 `json:"-"`
	Errored  []bool  `json:"-"`
	fails    []failure
	notes    []string
	ok       bool
}

// sweep cancels from inside the k-th backend operation, for every k (stride 1) or for the first/last 30 and a
// seeded selection in between.  Safe to call from several goroutines (touches no shared state).
func fsSweep(seed int64, ep *entryPoint, spec treeSpec, stride int64) (st sweepStat) {
	full, err := runFS(ep, spec, "cancel-at", -1, true, "")
	st = sweepStat{EP: ep.Name, Entries: spec.entries(), Total: full.Total}
	if err != nil {
		st.notes = append(st.notes, "setup failed for "+ep.Name+": "+err.Error())
		return st
	}
	if full.Kind != "nil" {
		st.fails = append(st.fails, failure{"uncancelled-run-fails:" + ep.Name, fmt.Sprintf("%s without cancellation returned %s (%s)", ep.Name, full.Kind, full.Err), fsCase{EP: ep.Name, Spec: spec, Mode: "cancel-at", K: -1}})
		return st
	}
	st.ok = true
	for k := int64(1); k <= full.Total; k++ {
		if stride > 1 && k > 30 && k < full.Total-30 && (k*2654435761+seed*40503)%stride != 0 {
			continue
		}
		flavour := instantFlavours[int(k+seed)%len(instantFlavours)] // every way of ending the context, in rotation
		res, err := runFS(ep, spec, "cancel-at", k, false, flavour)
		if err != nil {
			continue
		}
		st.Runs++
		c := fsCase{EP: ep.Name, Spec: spec, Mode: "cancel-at", K: k, Ctx: flavour}
		st.fails = append(st.fails, checkCancelAt(c, res, full)...)
		if res.Fired {
			st.Ks = append(st.Ks, k)
			st.Afters = append(st.Afters, res.After)
			st.Errored = append(st.Errored, res.Kind != "nil")
		}
		if res.After > st.MaxAfter {
			st.MaxAfter, st.ArgK = res.After, k
		}
		if res.MutAfter > st.MaxMut {
			st.MaxMut = res.MutAfter
		}
	}
	return st
}

// D22.  Deterministic adversarial schedule for garbage collection: a flat directory of [fanout] files; the shim
// holds the first backend operation of every per-entry goroutine (each has just passed its only context test,
// files.go:1908) until all of them have arrived, then cancels and releases them.  Returns the backend operations
// issued after the cancellation.  If the goroutines never all arrive (the code no longer fans out), the barrier
// opens after a generous delay and the count is whatever it is.
func gcBarrier(fanout int) (after int64, kind string, arrived int, err error) {
	inner := afero.NewMemMapFs()
	plain := filesystem.NewVirtualFileSystem(inner, filesystem.InMemoryFS, filesystem.IdentityPathConverterFunc)
	for i := 0; i < fanout; i++ {
		if err := plain.WriteFile(fmt.Sprintf("/g/f%04d.txt", i), []byte("x"), 0o644); err != nil {
			return 0, "", 0, err
		}
	}
	sh := shim.New(inner, nil)
	vfs := filesystem.NewVirtualFileSystem(sh, filesystem.InMemoryFS, filesystem.IdentityPathConverterFunc)
	ctx, cancel := context.WithCancel(context.Background())
	defer cancel()
	var mu sync.Mutex
	waiting := 0
	release := make(chan struct{})
	var once sync.Once
	var cancelSeq atomic.Int64
	open := func() {
		once.Do(func() {
			cancelSeq.Store(sh.Count())
			cancel()
			close(release)
		})
	}
	sh.SetHook(func(op *shim.Op) error {
		if op.Name == "Stat" && strings.HasPrefix(op.Path, "/g/f") {
			select {
			case <-release:
				return nil
			default:
			}
			mu.Lock()
			waiting++
			all := waiting >= fanout
			mu.Unlock()
			if all {
				open()
			}
			select {
			case <-release:
			case <-time.After(3 * time.Second):
				open()
			}
		}
		return nil
	})
	rerr := vfs.GarbageCollectWithContext(ctx, "/g", -time.Hour)
	quiesce(sh)
	sh.SetHook(nil)
	mu.Lock()
	arrived = waiting
	mu.Unlock()
	for _, op := range sh.Log() {
		if op.Seq > cancelSeq.Load() {
			after++
		}
	}
	return after, kindOf(rerr), arrived, nil
}

func coverageNote(r *h.Run) {
	covered := map[string]bool{}
	for _, ep := range entryPoints() {
		for _, m := range ep.Methods {
			covered[m] = true
		}
	}
	var missing []string
	for _, m := range vfsContextMethods() {
		if !covered[m] {
			missing = append(missing, m)
		}
	}
	if len(missing) > 0 {
		r.Note("context-accepting *VFS methods not in the entry-point table: " + strings.Join(missing, ", "))
	} else {
		r.Note(fmt.Sprintf("entry-point table covers all %d context-accepting *VFS methods found by reflection", len(vfsContextMethods())))
	}
}

// Coq term of the tree /t/src of a spec (Model.v spec_tree)
func coqTree(spec treeSpec) string {
	return fmt.Sprintf("(spec_tree %d %d %d %d %d)", spec.Dirs, spec.Files, (spec.Big+32767)/32768, spec.Empty, spec.Deep)
}

func dumpOps(ep *entryPoint, spec treeSpec) {
	e, err := newEnv(spec, ep.Zip)
	if err != nil {
		return
	}
	e.sh.ResetLog()
	e.sh.Rec = true
	e.sh.SetHook(func(op *shim.Op) error {
		if ep.RenameFails && op.Name == "Rename" {
			return &os.LinkError{Op: "rename", Old: op.Path, New: op.Path2, Err: errCrossDevice}
		}
		return nil
	})
	rerr := ep.Run(context.Background(), e)
	for i, op := range e.sh.Log() {
		fmt.Printf("%4d %-14s %s %s\n", i+1, op.Name, op.Path, op.Path2)
	}
	fmt.Println("result:", rerr)
}
