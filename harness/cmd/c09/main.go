// C09 harness — cancellation is honoured everywhere; context-aware I/O yields exact prefixes.
//
//	part (a) safeio.go : instrumented streams against ReadAtMost / ReadAll / CopyDataWithContext / CopyNWithContext /
//	                     WriteString / ReadFileContent
//	part (b) fsops.go  : every context-accepting entry point of the filesystem API on the recording shim:
//	                     context done before the call; context cancelled from inside the k-th backend operation
//
// The oracles are stated on the implementation's observations; the Coq model (coq/C09/Model.v) is evaluated on the
// same observations by the correspondence cases.
package main

import (
	"fmt"
	"os"
	"sort"
	"sync"

	"verif/harness/internal/h"
)

type replayObj struct {
	ioScenario
	fsCase
}

const gcSig = "ops-after-cancel-grow-with-fanout:GarbageCollect"

// deterministic replays of the defects known for this property; run first on every invocation
func corpus(r *h.Run) {
	ioCorpus(r) // D14
	// D31: CopyToDirectoryWithContext created the destination before looking at the context
	if ep := findEP("CopyToDirectory"); ep != nil {
		for _, mode := range []string{"pre-cancelled", "pre-deadline"} {
			r.Eval()
			spec := treeSpec{Dirs: 1, Files: 1}
			if res, err := runFS(ep, spec, mode, 0, false, ""); err == nil {
				report(r, checkPre(fsCase{EP: ep.Name, Spec: spec, Mode: mode}, res))
			}
		}
	}
	gcReplay(r, 40, 160)
}

// D22: garbage collection, every per-entry goroutine past its context test when the context ends
func gcReplay(r *h.Run, small, large int) {
	r.Eval()
	a1, k1, n1, err1 := gcBarrier(small)
	a2, k2, n2, err2 := gcBarrier(large)
	if err1 != nil || err2 != nil {
		r.Note(fmt.Sprintf("gc barrier setup failed: %v %v", err1, err2))
		return
	}
	r.Note(fmt.Sprintf("gc barrier schedule: fan-out %d -> %d goroutines held, %d backend operations after cancellation (%s); fan-out %d -> %d held, %d after (%s)", small, n1, a1, k1, large, n2, a2, k2))
	r.Case(fmt.Sprintf("(mkCase (OpGcAfter %d %d) false None [] [] [] KNil 0 [] [] KCancelled)", large, a2), map[string]any{"gc_barrier_fanout": large, "after": a2})
	if a2 > opsAfterBound && a2 > a1 {
		r.Fail(gcSig, fmt.Sprintf("garbage collection of a directory of %d files, all per-entry goroutines past their context test when the context ends: %d further backend operations (%d for %d files) — grows with the fan-out, bound %d",
			large, a2, a1, small, opsAfterBound), fsCase{EP: "GarbageCollect", Mode: "gc-barrier", Fanout: large})
	}
	if !isCancelKind(k2) {
		r.Fail("cancel-during-wrong-kind:GarbageCollect", "garbage collection cancelled while running returned kind "+k2, fsCase{EP: "GarbageCollect", Mode: "gc-barrier", Fanout: large})
	}
}

func report(r *h.Run, fs []failure) {
	for _, f := range fs {
		r.Fail(f.sig, f.what, f.replay)
	}
}

func allFlavours() []string { return append(append([]string{}, instantFlavours...), timerFlavours...) }

// context done before the call, in every way a context can be done (cancel / deadline, with and without causes)
func fsPreCancelled(r *h.Run, spec treeSpec) {
	for _, ep := range entryPoints() {
		ep := ep
		for _, fl := range allFlavours() {
			r.Eval()
			r.Count("fs-pre-done:" + wantKind(fl))
			res, err := runFS(&ep, spec, "pre-cancelled", 0, false, fl)
			if err != nil {
				r.Note("setup failed for " + ep.Name + ": " + err.Error())
				continue
			}
			report(r, checkPre(fsCase{EP: ep.Name, Spec: spec, Mode: "pre-cancelled", Ctx: fl}, res))
			r.Distinct("pre|" + ep.Name + "|" + fl)
		}
	}
}

// a real deadline (with a cause) expiring while the k-th backend operation is in progress: kind timeout
func fsTimerMidRun(r *h.Run) {
	spec := treeSpec{Dirs: 2, Files: 2, Big: 70000, Empty: 1, Deep: 2}
	type job struct {
		ep *entryPoint
		k  int64
		fl string
	}
	var jobs []job
	for i, name := range []string{"Walk", "LsRecursive", "ListDirTree", "Chmod", "Remove", "CleanDir", "Copy", "MoveNoRename", "Zip", "Unzip", "ReadFile", "WriteFile", "CopyToFile", "FileHash", "SubDirectories", "GarbageCollect"} {
		ep := findEP(name)
		if ep == nil {
			continue
		}
		full, err := runFS(ep, spec, "cancel-at", -1, true, "")
		if err != nil || full.Total == 0 {
			continue
		}
		for j, k := range []int64{1, (full.Total + 1) / 2, full.Total - 1} {
			if k < 1 {
				continue
			}
			jobs = append(jobs, job{ep, k, timerFlavours[(i+j+int(r.Seed))%len(timerFlavours)]})
		}
	}
	type out struct {
		c    fsCase
		res  fsResult
		full fsResult
		ok   bool
	}
	outs := make([]out, len(jobs))
	var wg sync.WaitGroup
	sem := make(chan struct{}, 16)
	for i := range jobs {
		wg.Add(1)
		go func(i int) {
			defer wg.Done()
			sem <- struct{}{}
			defer func() { <-sem }()
			j := jobs[i]
			full, err := runFS(j.ep, spec, "cancel-at", -1, true, "")
			res, err2 := runFS(j.ep, spec, "cancel-at", j.k, false, j.fl)
			outs[i] = out{fsCase{EP: j.ep.Name, Spec: spec, Mode: "cancel-at", K: j.k, Ctx: j.fl}, res, full, err == nil && err2 == nil}
		}(i)
	}
	wg.Wait()
	for _, o := range outs {
		if !o.ok || !o.res.Fired {
			continue
		}
		r.Eval()
		r.Count("fs-deadline-expiring-mid-run")
		fs := checkCancelAt(o.c, o.res, o.full)
		for i := range fs {
			if o.c.EP == "GarbageCollect" && fs[i].sig == "ops-after-cancel-unbounded:GarbageCollect" {
				fs[i].sig = gcSig
			}
		}
		report(r, fs)
		r.Distinct("timer|" + o.c.EP + "|" + o.c.Ctx)
	}
}

// entry points whose exact sequence of backend operations and check points is in the Coq model (Model.v epk)
var modelled = map[string]string{
	"Walk": "(EWalk 0)", "LsRecursive": "(EWalk 0)", "LsRecursiveLimits": "(EWalk 0)", "LsRecursiveOpened": "(EWalk 0)",
	"Chmod": "EChmod", "Chown": "EChmod", "ChangeOwnership": "EChmod",
	"ListDirTree": "EListTree",
	"Remove":      "ERemove", "RemoveWithPrivileges": "ERemove", "CleanDir": "EClean",
	"Copy": "ECopy", "CopyBetweenFS": "ECopy", "MoveNoRename": "EMoveNoRename",
}

// entry points with a full set of after-cancellation cases (the others of the same family get a thinned set)
var fullCases = map[string]bool{"Walk": true, "Chmod": true, "ListDirTree": true, "Remove": true, "CleanDir": true, "Copy": true, "MoveNoRename": true}

func fsSweeps(r *h.Run) {
	small := treeSpec{Dirs: 3, Files: 3, Big: 70000, Deep: 3}
	specs := []treeSpec{small, {Dirs: 2, Files: 1, Big: 3000, Empty: 2, Deep: 4}, {Dirs: 3, Files: 60, Big: 70000, Empty: 85, Deep: 5}}
	if r.Thorough() && !r.Deep { // a deepened run after a broken tie keeps to the three trees: it must stay within minutes
		specs = append(specs, treeSpec{Dirs: 9, Files: 60, Big: 200000, Empty: 120, Deep: 6})
	}
	type job struct {
		ep   entryPoint
		spec treeSpec
		i    int
	}
	var jobs []job
	for _, ep := range entryPoints() {
		for i, s := range specs {
			jobs = append(jobs, job{ep, s, i})
		}
	}
	results := make([]sweepStat, len(jobs))
	var wg sync.WaitGroup
	sem := make(chan struct{}, 12)
	for ji := range jobs {
		wg.Add(1)
		go func(ji int) {
			defer wg.Done()
			sem <- struct{}{}
			defer func() { <-sem }()
			j := jobs[ji]
			stride := int64(1)
			if j.i >= 2 {
				// every k in the thorough tier for the first big tree; a seeded selection otherwise
				full, err := runFS(&j.ep, j.spec, "cancel-at", -1, false, "")
				if err == nil && !(r.Thorough() && !r.Deep && j.i == 2 && full.Total < 3000) {
					budget := r.N(30, 600)
					if r.Deep {
						budget = 120
					}
					stride = full.Total/int64(budget) + 1
				}
			}
			results[ji] = fsSweep(r.Seed, &j.ep, j.spec, stride)
		}(ji)
	}
	wg.Wait()
	var stats []sweepStat
	for ji, st := range results {
		j := jobs[ji]
		for _, n := range st.notes {
			r.Note(n)
		}
		for i := range st.fails {
			if j.ep.Concurrent && st.fails[i].sig == "ops-after-cancel-unbounded:"+j.ep.Name {
				st.fails[i].sig = gcSig
			}
		}
		report(r, st.fails)
		r.Evals(st.Runs)
		r.CountN("fs-cancel-at:"+fmt.Sprintf("tree-of-%d", st.Entries), st.Runs)
		if !st.ok {
			continue
		}
		r.Distinct(fmt.Sprintf("sweep|%s|%v", st.EP, j.spec))
		stats = append(stats, st)
		if e, ok := modelled[st.EP]; ok {
			t := coqTree(j.spec)
			empty := "false None [] [] [] KNil 0 [] [] KCancelled"
			r.Case(fmt.Sprintf("(mkCase (OpEpTotal %s %s %d) %s)", e, t, st.Total, empty), map[string]any{"entry_point": st.EP, "tree": j.spec, "total_ops": st.Total})
			budget := 50 // correspondence cases per entry point and tree (every k is still run and judged by the oracle)
			if j.i >= 2 {
				budget = 30
			}
			if !fullCases[st.EP] {
				budget = 12
			}
			step := len(st.Ks)/budget + 1
			if step > 1 && step%2 == 0 {
				step++ // odd stride: visits both parities of k
			}
			for i := 0; i < len(st.Ks); i += step {
				r.Case(fmt.Sprintf("(mkCase (OpEpAfter %s %s %d %d) %s)", e, t, st.Ks[i], st.Afters[i], empty),
					map[string]any{"entry_point": st.EP, "tree": j.spec, "k": st.Ks[i], "ops_after_cancel": st.Afters[i]})
				r.Case(fmt.Sprintf("(mkCase (OpEpOutcome %s %s %d %s) %s)", e, t, st.Ks[i], h.Bool(st.Errored[i]), empty),
					map[string]any{"entry_point": st.EP, "tree": j.spec, "k": st.Ks[i], "errored": st.Errored[i]})
			}
			r.Case(fmt.Sprintf("(mkCase (OpEpBound %s %d) %s)", e, st.MaxAfter, empty), map[string]any{"entry_point": st.EP, "tree": j.spec, "max_ops_after_cancel": st.MaxAfter})
		}
	}
	sort.Slice(stats, func(a, b int) bool {
		if stats[a].EP != stats[b].EP {
			return stats[a].EP < stats[b].EP
		}
		return stats[a].Entries < stats[b].Entries
	})
	// growth table: max over k of the operations after cancellation, per entry point and tree size
	byEP := map[string][]sweepStat{}
	for _, s := range stats {
		byEP[s.EP] = append(byEP[s.EP], s)
	}
	var names []string
	for n := range byEP {
		names = append(names, n)
	}
	sort.Strings(names)
	line := ""
	for _, n := range names {
		line += n + ":"
		for _, s := range byEP[n] {
			line += fmt.Sprintf(" %d@%d", s.MaxAfter, s.Entries)
		}
		line += "; "
	}
	r.Note("max backend operations after cancellation (value@entries of the tree): " + line)
	for i, s := range stats {
		if i%9 == 0 {
			r.Sample(s)
		}
	}
}

func main() {
	r := h.Init("C09")
	r.Imports = []string{"GU.C09.Model"}
	r.Rule("(a) safeio helpers x source length (0..700 with Coq cases; 2^15, 2^16 boundaries and up to 2^20 oracle-only) x maximum/n (negative, 0, <, =, >, MaxInt64) x reader scripts " +
		"(chunk sizes, zero-length reads, EOF / unexpected EOF / failure at read j, context ending during read j, WriterTo) x writer scripts (short write, failure, context ending during write j, ReaderFrom) " +
		"x context done before the call (cancelled, deadline); non-trivial = non-empty source and a scripted stream, distinct by the whole scenario. " +
		"(b) every context-accepting entry point of the filesystem API (table checked against reflection over *VFS) on in-memory trees of 16, 10 and ~270 entries (thorough: also ~670): context done before the call " +
		"(cancelled, deadline), and context cancelled from inside the k-th backend operation for every k (small trees) or a seeded selection of k (large trees; every k in the thorough tier); distinct by entry point and tree.")
	var ro replayObj
	if _, ok := r.ReplayObject(&ro); ok {
		switch {
		case ro.Op != "":
			doIO(r, ro.ioScenario, false)
		case ro.Mode == "gc-barrier":
			gcReplay(r, 40, ro.Fanout)
		case ro.EP != "" && ro.Backend == "os":
			if ep := findEP(ro.EP); ep != nil && osScratchInit() == nil {
				defer osScratchCleanup()
				r.Eval()
				if ro.Mode == "os-cancel-at" {
					full, err := runOS(ep, ro.Spec, "os-cancel-at", ro.Arg, -1, "")
					res, err2 := runOS(ep, ro.Spec, "os-cancel-at", ro.Arg, ro.K, ro.Ctx)
					if err == nil && err2 == nil {
						report(r, checkCancelAt(ro.fsCase, res, full))
					}
				} else if res, err := runOS(ep, ro.Spec, ro.Mode, ro.Arg, 0, ro.Ctx); err == nil {
					report(r, checkOSPre(ro.fsCase, res))
				}
				osScratchCleanup()
			}
		case ro.EP != "":
			if ep := findEP(ro.EP); ep != nil {
				r.Eval()
				if ro.Mode == "cancel-at" {
					full, err := runFS(ep, ro.Spec, "cancel-at", -1, true, "")
					res, err2 := runFS(ep, ro.Spec, "cancel-at", ro.K, false, ro.Ctx)
					if err == nil && err2 == nil {
						report(r, checkCancelAt(ro.fsCase, res, full))
					}
				} else if res, err := runFS(ep, ro.Spec, ro.Mode, 0, false, ro.Ctx); err == nil {
					report(r, checkPre(ro.fsCase, res))
				}
			}
		}
		r.NoCases = true
		r.Finish()
		return
	}
	if name := os.Getenv("C09_DUMP"); name != "" { // debugging aid: backend operations of one uncancelled run
		if ep := findEP(name); ep != nil {
			dumpOps(ep, treeSpec{Dirs: 1, Files: 1, Big: 3000, Empty: 1})
		}
		return
	}
	corpus(r)
	ioHugeFiles(r)
	ioDeterministic(r)
	ioRandom(r, r.N(200, 3000), false)
	ioRandom(r, r.N(60, 1500), true) // oracle only
	ioFiles(r)
	coverageNote(r)
	fsPreCancelled(r, treeSpec{Dirs: 4, Files: 3, Big: 100000, Empty: 2, Deep: 2})
	fsSweeps(r)
	fsTimerMidRun(r)
	osLinks(r)
	r.Finish()
}

// OS back end, trees with symbolic links and link arguments
func osLinks(r *h.Run) {
	if err := osScratchInit(); err != nil {
		r.Note("OS back end skipped: " + err.Error())
		return
	}
	defer osScratchCleanup()
	spec := treeSpec{Dirs: 2, Files: 2, Big: 40000, Empty: 1, Deep: 3}
	osRot := int(r.Seed)
	for _, ep := range entryPoints() {
		ep := ep
		for _, arg := range []string{argPlain, argLink, argDangling} {
			all := allFlavours()
			for fi, fl := range []string{"cancel", "deadline", all[(osRot+1)%len(all)], all[(osRot+8)%len(all)]} {
				if fi >= 2 {
					osRot++
				}
				mode := "os-pre-cancelled"
				r.Eval()
				r.Count("fs-os-pre-done:" + arg + ":" + wantKind(fl))
				res, err := runOS(&ep, spec, mode, arg, 0, fl)
				c := fsCase{EP: ep.Name, Spec: spec, Mode: mode, Arg: arg, Backend: "os", Ctx: fl}
				if err != nil {
					if arg == argPlain {
						r.Note("OS setup failed for " + ep.Name + ": " + err.Error())
					}
					continue // e.g. a handle cannot be opened on a dangling link: nothing to call
				}
				report(r, checkOSPre(c, res))
				r.Distinct("ospre|" + ep.Name + "|" + fl + "|" + arg)
			}
		}
	}
	// cancellation from inside the k-th backend operation, every k, on the tree with links
	for _, name := range []string{"Remove", "RemoveExcl", "RemoveWithPrivileges", "RemoveWithPrivilegesFault1", "RemoveWithPrivilegesFault4", "RemoveWithPrivilegesLstatFault3", "CleanDir", "Walk", "LsRecursive", "ListDirTree", "Chmod"} {
		ep := findEP(name)
		if ep == nil {
			continue
		}
		for _, arg := range []string{argPlain, argLink} {
			full, err := runOS(ep, spec, "os-cancel-at", arg, -1, "")
			if err != nil || full.Kind != "nil" {
				r.Note(fmt.Sprintf("OS %s (%s) without cancellation: kind %s %s %v — sweep skipped", name, arg, full.Kind, full.Err, err))
				continue
			}
			maxAfter := int64(0)
			for k := int64(1); k <= full.Total; k++ {
				if (r.Thorough() || full.Total <= 60 || k <= 15 || (k+r.Seed)%5 == 0) == false {
					continue
				}
				fl := instantFlavours[int(k+r.Seed)%len(instantFlavours)]
				res, err := runOS(ep, spec, "os-cancel-at", arg, k, fl)
				if err != nil {
					continue
				}
				r.Eval()
				r.Count("fs-os-cancel-at")
				report(r, checkCancelAt(fsCase{EP: name, Spec: spec, Mode: "os-cancel-at", Arg: arg, K: k, Backend: "os", Ctx: fl}, res, full))
				if res.After > maxAfter {
					maxAfter = res.After
				}
			}
			r.Distinct("ossweep|" + name + "|" + arg)
			r.Note(fmt.Sprintf("OS back end, tree with links, %s (%s): %d backend operations, max %d after cancellation", name, arg, full.Total, maxAfter))
		}
	}
}
