package main

// faultFs injects faults on the READ side of the backend (below the recording shim): a directory read that fails part-way
// while still returning some names, Open / Stat / Lstat failing once or for good.  It forwards the optional interfaces
// of the extended OS file system (Lstat, Symlink, Readlink, Link, Chown, ForceRemove) so that the library sees the same
// capabilities as without it.

import (
	"os"
	"sync"
	"syscall"

	"github.com/spf13/afero"
)

// readFault describes one injected read-side fault (part of the replay object).
type readFault struct {
	Op     string `json:"op"`               // listing (Readdirnames(-1)/Readdir(-1): partial result + error) | readdir (any directory read: error, no names) | open | stat | lstat
	Nth    int    `json:"nth"`              // the Nth call of that kind fails (1-based)
	Always bool   `json:"always,omitempty"` // every later call of that kind on the same path fails too
	Err    string `json:"err,omitempty"`    // EIO | ESTALE | EACCES
	Keep   int    `json:"keep,omitempty"`   // listing: number of names still returned (clamped so that at least one is lost); -1 = half
}

func (rf *readFault) errno() syscall.Errno {
	switch rf.Err {
	case "ESTALE":
		return syscall.ESTALE
	case "EACCES":
		return syscall.EACCES
	}
	return syscall.EIO
}

type faultFs struct {
	afero.Fs
	rf    *readFault
	mu    sync.Mutex
	n     int
	stuck string
	fired int
}

func newFaultFs(inner afero.Fs, rf *readFault) *faultFs { return &faultFs{Fs: inner, rf: rf} }

// hit says whether this call (of kind op on path) must fail.
func (f *faultFs) hit(op, path string) bool {
	if f.rf == nil || f.rf.Op != op {
		return false
	}
	f.mu.Lock()
	defer f.mu.Unlock()
	f.n++
	if f.n == f.rf.Nth {
		f.stuck = path
		f.fired++
		return true
	}
	if f.rf.Always && f.stuck != "" && path == f.stuck && f.n > f.rf.Nth {
		f.fired++
		return true
	}
	return false
}

func (f *faultFs) Fired() int {
	f.mu.Lock()
	defer f.mu.Unlock()
	return f.fired
}

func (f *faultFs) perr(op, path string) error {
	return &os.PathError{Op: op, Path: path, Err: f.rf.errno()}
}

func (f *faultFs) Stat(name string) (os.FileInfo, error) {
	if f.hit("stat", name) {
		return nil, f.perr("stat", name)
	}
	return f.Fs.Stat(name)
}

func (f *faultFs) LstatIfPossible(name string) (os.FileInfo, bool, error) {
	if f.hit("lstat", name) {
		return nil, true, f.perr("lstat", name)
	}
	if l, ok := f.Fs.(afero.Lstater); ok {
		return l.LstatIfPossible(name)
	}
	fi, err := f.Fs.Stat(name)
	return fi, false, err
}

func (f *faultFs) Open(name string) (afero.File, error) {
	if f.hit("open", name) {
		return nil, f.perr("open", name)
	}
	h, err := f.Fs.Open(name)
	if err != nil || h == nil {
		return h, err
	}
	return &faultFile{File: h, fs: f, path: name}, nil
}

func (f *faultFs) OpenFile(name string, flag int, perm os.FileMode) (afero.File, error) {
	if flag&(os.O_WRONLY|os.O_RDWR) == 0 && f.hit("open", name) {
		return nil, f.perr("open", name)
	}
	h, err := f.Fs.OpenFile(name, flag, perm)
	if err != nil || h == nil {
		return h, err
	}
	return &faultFile{File: h, fs: f, path: name}, nil
}

func (f *faultFs) SymlinkIfPossible(oldname, newname string) error {
	if l, ok := f.Fs.(afero.Linker); ok {
		return l.SymlinkIfPossible(oldname, newname)
	}
	return &os.LinkError{Op: "symlink", Old: oldname, New: newname, Err: afero.ErrNoSymlink}
}

func (f *faultFs) ReadlinkIfPossible(name string) (string, error) {
	if l, ok := f.Fs.(afero.LinkReader); ok {
		return l.ReadlinkIfPossible(name)
	}
	return "", &os.PathError{Op: "readlink", Path: name, Err: afero.ErrNoReadlink}
}

func (f *faultFs) LinkIfPossible(oldname, newname string) error {
	if l, ok := f.Fs.(interface{ LinkIfPossible(string, string) error }); ok {
		return l.LinkIfPossible(oldname, newname)
	}
	return os.Link(oldname, newname)
}

func (f *faultFs) ForceRemoveIfPossible(name string) error {
	if l, ok := f.Fs.(interface{ ForceRemoveIfPossible(string) error }); ok {
		return l.ForceRemoveIfPossible(name)
	}
	return f.Fs.RemoveAll(name)
}

func (f *faultFs) ChownIfPossible(name string, uid, gid int) error {
	if l, ok := f.Fs.(interface{ ChownIfPossible(string, int, int) error }); ok {
		return l.ChownIfPossible(name, uid, gid)
	}
	return f.Fs.Chown(name, uid, gid)
}

type faultFile struct {
	afero.File
	fs   *faultFs
	path string
}

func (h *faultFile) keep(n int) int {
	k := h.fs.rf.Keep
	if k < 0 {
		k = n / 2
	}
	if k >= n {
		k = n - 1
	}
	if k < 0 {
		k = 0
	}
	return k
}

func (h *faultFile) Readdirnames(n int) ([]string, error) {
	if n <= 0 && h.fs.hit("listing", h.path) {
		names, err := h.File.Readdirnames(n)
		if err != nil {
			return names, err
		}
		return names[:h.keep(len(names))], h.fs.perr("readdirent", h.path)
	}
	if h.fs.hit("readdir", h.path) {
		return nil, h.fs.perr("readdirent", h.path)
	}
	return h.File.Readdirnames(n)
}

func (h *faultFile) Readdir(n int) ([]os.FileInfo, error) {
	if n <= 0 && h.fs.hit("listing", h.path) {
		fis, err := h.File.Readdir(n)
		if err != nil {
			return fis, err
		}
		return fis[:h.keep(len(fis))], h.fs.perr("readdirent", h.path)
	}
	if h.fs.hit("readdir", h.path) {
		return nil, h.fs.perr("readdirent", h.path)
	}
	return h.File.Readdir(n)
}

// Fd keeps the descriptor visible to the library's File interface.
func (h *faultFile) Fd() uintptr {
	if x, ok := h.File.(interface{ Fd() uintptr }); ok {
		return x.Fd()
	}
	return ^uintptr(0)
}
