// C04 harness: recursive removal / cleaning / garbage collection of directory trees decorated with symbolic links,
// on the OS back end (links exist only there), inside a per-run sandbox under os.MkdirTemp.
//
// Oracle (independent of the Coq model), evaluated on full sandbox snapshots taken with Lstat before and after the call:
//   - nothing outside the tree given by the caller is deleted, created or modified (kind, content, link target, mode);
//   - no mutating backend operation is issued on a path that leaves the tree or passes THROUGH a symbolic link;
//   - success without exclusion patterns: the tree (CleanDir: its content) is really gone, dangling links included;
//   - entries matching an exclusion pattern survive unchanged, together with their ancestors.
//
// Correspondence: (tree before, call, result, tree after) is emitted as a Coq case for coq/C04/Model.v.
package main

import (
	"context"
	"errors"
	"regexp"
	"sync"
	"syscall"
	"crypto/sha256"
	"encoding/hex"
	"fmt"
	"os"
	"path/filepath"
	"sort"
	"strings"
	"time"

	"github.com/ARM-software/golang-utils/utils/filesystem"

	"verif/harness/internal/h"
	"verif/harness/internal/shim"
)

// ---- scenario description (also the replay object) ----

type entry struct {
	Path    string `json:"path"`              // sandbox-relative, '/'-separated
	Kind    string `json:"kind"`              // d | f | l
	Content string `json:"content,omitempty"` // f
	Target  string `json:"target,omitempty"`  // l: sandbox-relative path the link points to ("" = the sandbox root itself)
	Abs     bool   `json:"abs,omitempty"`     // l: created with an absolute target string (else relative to the link's directory)
	RO      bool   `json:"ro,omitempty"`      // read-only mode bits
	Old     bool   `json:"old,omitempty"`     // f: access/modification time two days in the past (garbage collection)
}

type scenario struct {
	Entries   []entry  `json:"entries"`
	Root      string   `json:"root"` // path handed to the library (sandbox-relative)
	Op        string   `json:"op"`
	Patterns  []string `json:"patterns,omitempty"`
	Cancelled bool     `json:"cancelled,omitempty"`
	GC        string   `json:"gc,omitempty"` // all | none | mixed
	Global    bool     `json:"global,omitempty"`
	// fault injection at the backend (recording shim): the FailNth-th Remove fails with EPERM / EBUSY; with FailAlways every
	// later Remove of that same path fails too (an entry that ordinary means cannot remove)
	// how the path handed to the library is SPELLED (same file-system object, different string): "" = cleaned absolute path,
	// trail "p/", trail2 "p//", dottrail "p/.", inner2 "a//b", innerdot "a/./b", updown "outside/../p", rel "./p" (cwd = sandbox), reltrail "./p/"
	Spelling   string `json:"spelling,omitempty"`
	// read-side fault (faultfs.go) and HISTORY: calls made earlier in the same process (the library must judge every call by
	// its own arguments, whatever was asked before)
	// SIZE: BulkDir (sandbox-relative) gets Bulk flat entries (files, a few links to outside and dangling links among them);
	// Mem: the same call on the in-memory back end (no links there)
	Bulk       int        `json:"bulk,omitempty"`
	BulkDir    string     `json:"bulk_dir,omitempty"`
	Mem        bool       `json:"mem,omitempty"`
	Read       *readFault `json:"read,omitempty"`
	Before     []scenario `json:"before,omitempty"`
	FailNth    int    `json:"fail_nth,omitempty"`
	FailAlways bool   `json:"fail_always,omitempty"`
	FailErr    string `json:"fail_err,omitempty"`
}

const foreignID = 4242 // owner given to everything outside the tree (and to some entries inside) when running as root

var rmOps = []string{"Rm", "RemoveWithContext", "RemoveWithContextAndExclusionPatterns", "RemoveWithPrivileges"}
var cleanOps = []string{"CleanDir", "CleanDirWithContext", "CleanDirWithContextAndExclusionPatterns"}
var gcOps = []string{"GarbageCollect", "GarbageCollectWithContext"}

func opClass(op string) string {
	switch {
	case strings.HasPrefix(op, "R"):
		return "rm"
	case strings.HasPrefix(op, "C"):
		return "clean"
	}
	return "gc"
}

func takesPatterns(op string) bool { return strings.HasSuffix(op, "ExclusionPatterns") }

// ---- snapshots ----

type snapEntry struct {
	Kind   string // d f l
	Data   string // f: sha256 of content; l: raw target string
	Perm   os.FileMode
	Target string // l: canonical sandbox-relative target ("<outside-sandbox>" if it leaves the sandbox)
	Size   int64
	Uid    uint32
	Gid    uint32
	MTime  int64 // modification time (ns) as reported by Lstat
}

// core is what must stay the same for an entry that is kept: kind, content, link target, permission bits, size.
func (e snapEntry) core() snapEntry {
	e.Uid, e.Gid, e.MTime = 0, 0, 0
	return e
}

// meta is the rest: ownership and modification time.
func (e snapEntry) meta(withMTime bool) string {
	if withMTime {
		return fmt.Sprintf("%d:%d mtime=%d", e.Uid, e.Gid, e.MTime)
	}
	return fmt.Sprintf("%d:%d", e.Uid, e.Gid)
}

func withMeta(e snapEntry, fi os.FileInfo) snapEntry {
	if st, ok := fi.Sys().(*syscall.Stat_t); ok {
		e.Uid, e.Gid = st.Uid, st.Gid
	}
	e.MTime = fi.ModTime().UnixNano()
	return e
}

func snapshot(sandbox string) (map[string]snapEntry, error) {
	out := map[string]snapEntry{}
	err := filepath.WalkDir(sandbox, func(p string, d os.DirEntry, err error) error {
		if err != nil {
			return err
		}
		rel, _ := filepath.Rel(sandbox, p)
		rel = filepath.ToSlash(rel)
		if rel == "." {
			rel = ""
		}
		fi, err := os.Lstat(p)
		if err != nil {
			return err
		}
		switch {
		case fi.Mode()&os.ModeSymlink != 0:
			t, err := os.Readlink(p)
			if err != nil {
				return err
			}
			out[rel] = withMeta(snapEntry{Kind: "l", Data: t, Target: canonTarget(sandbox, p, t), Perm: fi.Mode().Perm()}, fi)
		case fi.IsDir():
			out[rel] = withMeta(snapEntry{Kind: "d", Perm: fi.Mode().Perm()}, fi)
		default:
			bs, err := os.ReadFile(p)
			if err != nil {
				return err
			}
			s := sha256.Sum256(bs)
			out[rel] = withMeta(snapEntry{Kind: "f", Data: hex.EncodeToString(s[:]), Perm: fi.Mode().Perm(), Size: int64(len(bs))}, fi)
		}
		return nil
	})
	return out, err
}

func canonTarget(sandbox, linkPath, t string) string {
	abs := t
	if !filepath.IsAbs(t) {
		abs = filepath.Join(filepath.Dir(linkPath), t)
	}
	abs = filepath.Clean(abs)
	if abs == sandbox {
		return ""
	}
	if strings.HasPrefix(abs, sandbox+"/") {
		return filepath.ToSlash(abs[len(sandbox)+1:])
	}
	return "<outside-sandbox>"
}

func under(root, p string) bool { // p is root or below root (component-wise)
	return p == root || root == "" || strings.HasPrefix(p, root+"/")
}

// ---- building the sandbox ----

func build(sandbox string, sc scenario, old time.Time) error {
	if err := os.MkdirAll(sandbox, 0o755); err != nil {
		return err
	}
	// directories first (parents before children: sort by path), then files, then links, then modes
	es := append([]entry{}, sc.Entries...)
	sort.SliceStable(es, func(i, j int) bool { return es[i].Path < es[j].Path })
	for _, e := range es {
		if e.Kind == "d" {
			if err := os.MkdirAll(filepath.Join(sandbox, e.Path), 0o755); err != nil {
				return err
			}
		}
	}
	if sc.BulkDir != "" {
		bd := filepath.Join(sandbox, sc.BulkDir)
		if err := os.MkdirAll(bd, 0o755); err != nil {
			return err
		}
		toOutside, err := filepath.Rel(bd, filepath.Join(sandbox, "outside"))
		if err != nil {
			return err
		}
		for i := 0; i < sc.Bulk; i++ {
			p := filepath.Join(bd, fmt.Sprintf("e%05d", i))
			switch {
			case i%97 == 5:
				err = os.Symlink(toOutside, p)
			case i%89 == 7:
				err = os.Symlink("nowhere", p)
			default:
				err = os.WriteFile(p, []byte("b"), 0o644)
			}
			if err != nil {
				return err
			}
		}
	}
	for _, e := range es {
		p := filepath.Join(sandbox, e.Path)
		switch e.Kind {
		case "f":
			if err := os.WriteFile(p, []byte(e.Content), 0o644); err != nil {
				return err
			}
		case "l":
			t := filepath.Join(sandbox, e.Target)
			if !e.Abs {
				r, err := filepath.Rel(filepath.Dir(p), t)
				if err != nil {
					return err
				}
				t = r
			}
			if err := os.Symlink(t, p); err != nil {
				return err
			}
		}
	}
	for _, e := range es {
		p := filepath.Join(sandbox, e.Path)
		if e.Kind == "f" && e.Old {
			if err := os.Chtimes(p, old, old); err != nil {
				return err
			}
		}
	}
	if os.Geteuid() == 0 {
		for i, e := range es {
			if !under(sc.Root, e.Path) || i%3 == 0 {
				if err := os.Lchown(filepath.Join(sandbox, e.Path), foreignID, foreignID); err != nil {
					return err
				}
			}
		}
	}
	for i := len(es) - 1; i >= 0; i-- {
		e := es[i]
		p := filepath.Join(sandbox, e.Path)
		if e.RO && e.Kind == "f" {
			_ = os.Chmod(p, 0o444)
		}
		if e.RO && e.Kind == "d" && os.Geteuid() == 0 { // a read-only directory blocks removal for ordinary users; as root it is only a decoration
			_ = os.Chmod(p, 0o555)
		}
	}
	return nil
}

// ---- running one scenario ----

type outcome struct {
	ReadFaults int // read-side faults that actually fired
	ErrNil  bool
	ErrText string
	Before  map[string]snapEntry
	After   map[string]snapEntry
	Log     []shim.Op
}

var tmpRoot string
var errNoReturn = errors.New("call did not return")

const callDeadline = 20 * time.Second
var caseNo int

func execute(sc scenario) (*outcome, string, error) {
	caseNo++
	sandbox := filepath.Join(tmpRoot, fmt.Sprintf("s%d", caseNo))
	defer func() {
		_ = filepath.WalkDir(sandbox, func(p string, d os.DirEntry, err error) error {
			if err == nil && d.IsDir() {
				_ = os.Chmod(p, 0o755)
			}
			return nil
		})
		_ = os.RemoveAll(sandbox)
	}()
	old := time.Now().Add(-48 * time.Hour).Truncate(time.Second)
	if err := build(sandbox, sc, old); err != nil {
		return nil, sandbox, err
	}
	before, err := snapshot(sandbox)
	if err != nil {
		return nil, sandbox, err
	}
	// re-apply the old times: reading the files for the snapshot may have refreshed their access time
	for _, e := range sc.Entries {
		if e.Kind == "f" && e.Old {
			_ = os.Chtimes(filepath.Join(sandbox, e.Path), old, old)
		}
	}
	var hook shim.Hook
	if sc.FailNth > 0 {
		var mu sync.Mutex
		n, stuck := 0, ""
		errno := syscall.EPERM
		if sc.FailErr == "EBUSY" {
			errno = syscall.EBUSY
		}
		hook = func(op *shim.Op) error {
			if op.Name != "Remove" {
				return nil
			}
			mu.Lock()
			defer mu.Unlock()
			n++
			if n == sc.FailNth {
				stuck = op.Path
				return &os.PathError{Op: "remove", Path: op.Path, Err: errno}
			}
			if sc.FailAlways && stuck != "" && op.Path == stuck {
				return &os.PathError{Op: "remove", Path: op.Path, Err: errno}
			}
			return nil
		}
	}
	ffs := newFaultFs(filesystem.NewExtendedOsFs(), sc.Read)
	sh := shim.New(ffs, hook)
	var fs filesystem.FS = filesystem.NewVirtualFileSystem(sh, filesystem.StandardFS, filesystem.IdentityPathConverterFunc)
	if sc.Global {
		fs = filesystem.GetGlobalFileSystem()
	}
	ctx, cancel := context.WithCancel(context.Background())
	defer cancel()
	if sc.Cancelled {
		cancel()
	}
	target := filepath.Join(sandbox, sc.Root)
	if !strings.HasPrefix(target, tmpRoot+"/") || target == tmpRoot {
		return nil, sandbox, fmt.Errorf("refusing to operate outside the scratch directory: %s", target)
	}
	switch sc.Spelling {
	case "":
	case "trail":
		target += "/"
	case "trail2":
		target += "//"
	case "dottrail":
		target += "/."
	case "inner2":
		target = sandbox + "//" + strings.ReplaceAll(sc.Root, "/", "//")
	case "innerdot":
		target = sandbox + "/./" + strings.ReplaceAll(sc.Root, "/", "/./")
	case "updown":
		target = sandbox + "/outside/../" + sc.Root // "outside" is a real directory in every scenario
	case "rel", "reltrail":
		wd, err := os.Getwd()
		if err != nil {
			return nil, sandbox, err
		}
		if err := os.Chdir(sandbox); err != nil {
			return nil, sandbox, err
		}
		defer func() { _ = os.Chdir(wd) }()
		target = "./" + sc.Root
		if sc.Spelling == "reltrail" {
			target += "/"
		}
	default:
		return nil, sandbox, fmt.Errorf("unknown spelling %q", sc.Spelling)
	}
	var dur time.Duration
	switch sc.GC {
	case "all":
		dur = -time.Hour
	case "none":
		dur = 10000 * time.Hour
	default:
		dur = time.Hour
	}
	call := func() error {
		switch sc.Op {
		case "Rm":
			return fs.Rm(target)
		case "RemoveWithContext":
			return fs.RemoveWithContext(ctx, target)
		case "RemoveWithContextAndExclusionPatterns":
			return fs.RemoveWithContextAndExclusionPatterns(ctx, target, sc.Patterns...)
		case "RemoveWithPrivileges":
			return fs.RemoveWithPrivileges(ctx, target)
		case "CleanDir":
			return fs.CleanDir(target)
		case "CleanDirWithContext":
			return fs.CleanDirWithContext(ctx, target)
		case "CleanDirWithContextAndExclusionPatterns":
			return fs.CleanDirWithContextAndExclusionPatterns(ctx, target, sc.Patterns...)
		case "GarbageCollect":
			return fs.GarbageCollect(target, dur)
		case "GarbageCollectWithContext":
			return fs.GarbageCollectWithContext(ctx, target, dur)
		}
		return fmt.Errorf("unknown op %q", sc.Op)
	}
	// watchdog: a removal that walks through links to ancestors can take exponential time; trees here have < 100 entries
	done := make(chan error, 1)
	go func() { done <- call() }()
	var callErr error
	select {
	case callErr = <-done:
	case <-time.After(callDeadline):
		return nil, sandbox, errNoReturn
	}
	after, err := snapshot(sandbox)
	for try := 0; err != nil && try < 5; try++ {
		// goroutines of a garbage collection that returned early may still be deleting: let them finish
		time.Sleep(100 * time.Millisecond)
		after, err = snapshot(sandbox)
	}
	if err != nil {
		return nil, sandbox, err
	}
	o := &outcome{ErrNil: callErr == nil, Before: before, After: after, Log: sh.Log(), ReadFaults: ffs.Fired()}
	if callErr != nil {
		o.ErrText = callErr.Error()
	}
	return o, sandbox, nil
}

func usesCtx(op string) bool { return strings.Contains(op, "WithContext") || op == "RemoveWithPrivileges" }

func effectivePatterns(sc scenario) []string {
	if !takesPatterns(sc.Op) {
		return nil
	}
	var out []string
	for _, p := range sc.Patterns {
		if p != "" {
			out = append(out, p)
		}
	}
	return out
}

// matches: some component of the sandbox-relative path matches one of the (separator-free) patterns, judged with Go's
// regexp on the pattern AS GIVEN IN THIS CALL (a literal matches as a substring)
var reCache = map[string]*regexp.Regexp{}

func matches(p string, pats []string) bool {
	for _, pat := range pats {
		re, ok := reCache[pat]
		if !ok {
			re, _ = regexp.Compile(pat)
			reCache[pat] = re
		}
		if re == nil {
			continue
		}
		for _, c := range strings.Split(p, "/") {
			if re.MatchString(c) {
				return true
			}
		}
	}
	return false
}

func literal(pats []string) bool {
	for _, p := range pats {
		if regexp.QuoteMeta(p) != p {
			return false
		}
	}
	return true
}

// oracle evaluates the property on the observations; it never looks at the model.
func oracle(r *h.Run, sc scenario, o *outcome, sandbox string) {
	cls := opClass(sc.Op)
	// 1. outside unchanged
	for p, b := range o.Before {
		if under(sc.Root, p) {
			continue
		}
		a, ok := o.After[p]
		if !ok {
			r.Fail("outside-deleted:"+cls, fmt.Sprintf("%s(%q) deleted %q, which is outside the tree", sc.Op, sc.Root, p), sc)
		} else if a.core() != b.core() {
			r.Fail("outside-modified:"+cls, fmt.Sprintf("%s(%q) modified %q, which is outside the tree (%v -> %v)", sc.Op, sc.Root, p, b.core(), a.core()), sc)
		} else {
			// ownership of everything outside; modification time too, except for the ancestors of the root handed in
			// (removing the root legitimately updates its parent directory)
			withMTime := !(under(p, sc.Root) && p != sc.Root)
			if a.meta(withMTime) != b.meta(withMTime) {
				r.Fail("outside-metadata-modified:"+cls, fmt.Sprintf("%s(%q) changed owner / modification time of %q, which is outside the tree (%s -> %s)", sc.Op, sc.Root, p, b.meta(withMTime), a.meta(withMTime)), sc)
			}
		}
	}
	for p := range o.After {
		if _, ok := o.Before[p]; !ok {
			r.Fail("entry-created:"+cls, fmt.Sprintf("%s(%q) created %q", sc.Op, sc.Root, p), sc)
		}
	}
	// inside the tree nothing may be modified either: an entry is deleted or left exactly as it was
	for p, a := range o.After {
		if b, ok := o.Before[p]; ok && under(sc.Root, p) && a.core() != b.core() {
			r.Fail("inside-modified:"+cls, fmt.Sprintf("%s(%q) modified %q instead of deleting or keeping it (%v -> %v)", sc.Op, sc.Root, p, b.core(), a.core()), sc)
		}
	}
	// 2. no mutating backend operation outside the tree or through a link
	for _, op := range o.Log {
		if !op.Mutating {
			continue
		}
		for _, pp := range []string{op.Path, op.Path2} {
			if pp == "" {
				continue
			}
			rel := ""
			cp := filepath.Clean(pp)
			if !filepath.IsAbs(cp) {
				cp = filepath.Join(sandbox, cp) // relative spellings are run with the sandbox as working directory
			}
			if cp != sandbox {
				if !strings.HasPrefix(cp, sandbox+"/") {
					r.Fail("mutation-outside-sandbox:"+cls, fmt.Sprintf("%s on %q", op.Name, pp), sc)
					continue
				}
				rel = filepath.ToSlash(cp[len(sandbox)+1:])
			}
			if !under(sc.Root, rel) {
				r.Fail("mutation-outside-tree:"+cls, fmt.Sprintf("%s(%q): backend %s on %q", sc.Op, sc.Root, op.Name, rel), sc)
				continue
			}
			// a proper prefix that is a symbolic link (below the root handed in by the caller) means the link was followed
			parts := strings.Split(rel, "/")
			for i := 1; i < len(parts); i++ {
				pre := strings.Join(parts[:i], "/")
				if len(pre) < len(sc.Root) {
					continue
				}
				if b, ok := o.Before[pre]; ok && b.Kind == "l" {
					r.Fail("mutation-through-link:"+cls, fmt.Sprintf("%s(%q): backend %s on %q goes through the symbolic link %q", sc.Op, sc.Root, op.Name, rel, pre), sc)
					break
				}
			}
		}
	}
	pats := effectivePatterns(sc)
	cancelled := sc.Cancelled && usesCtx(sc.Op)
	// 3. success without exclusion patterns: really gone
	if o.ErrNil && len(pats) == 0 && !cancelled {
		// known finding: VFS.Exists answers "does not exist" when Stat / Open fail with an I/O error, so the call returns nil
		// without having removed anything; kept apart from every other way of reporting success with entries left
		remSig, contSig := "tree-remains-after-success:rm", "content-remains-after-success:clean"
		if sc.Read != nil && o.ReadFaults > 0 && (sc.Read.Op == "stat" || sc.Read.Op == "open") {
			remSig, contSig = "io-error-read-as-absent:rm", "io-error-read-as-absent:clean"
		}
		switch cls {
		case "rm":
			for p := range o.After {
				if under(sc.Root, p) {
					r.Fail(remSig, fmt.Sprintf("%s(%q) returned nil but %q (%s) is still there", sc.Op, sc.Root, p, o.After[p].Kind), sc)
					break
				}
			}
		case "clean":
			if b, ok := o.Before[sc.Root]; ok && b.Kind == "d" {
				for p := range o.After {
					if p != sc.Root && under(sc.Root, p) {
						r.Fail(contSig, fmt.Sprintf("%s(%q) returned nil but %q (%s) is still there", sc.Op, sc.Root, p, o.After[p].Kind), sc)
						break
					}
				}
				if a, ok := o.After[sc.Root]; !ok || a.Kind != "d" {
					r.Fail("cleaned-directory-removed:clean", fmt.Sprintf("%s(%q) removed the directory itself", sc.Op, sc.Root), sc)
				}
			}
		}
	}
	// 4. excluded entries survive with their ancestors.  "Matching" is judged on the part of the path the call is
	// responsible for: the base name of the root itself and every component below it (the repository's own test
	// TestRemoveWithExclusion pins that a pattern matching only the root's name does not protect the root's content).
	if len(pats) > 0 {
		for p, b := range o.Before {
			if !under(sc.Root, p) {
				continue
			}
			if p != sc.Root && !matches(strings.TrimPrefix(p, sc.Root+"/"), pats) {
				continue
			}
			if p == sc.Root && !matches(filepath.Base(sc.Root), pats) {
				continue
			}
			a, ok := o.After[p]
			if !ok || a.core() != b.core() {
				r.Fail("excluded-entry-lost:"+cls, fmt.Sprintf("%s(%q, %q): %q matches an exclusion pattern but did not survive", sc.Op, sc.Root, pats, p), sc)
				continue
			}
			for q := filepath.ToSlash(filepath.Dir(p)); q != "." && q != "/"; q = filepath.ToSlash(filepath.Dir(q)) {
				if a, ok := o.After[q]; !ok || a.Kind != "d" {
					r.Fail("excluded-ancestor-lost:"+cls, fmt.Sprintf("%s(%q, %q): ancestor %q of the excluded %q was removed", sc.Op, sc.Root, pats, q, p), sc)
				}
			}
		}
	}
}

// ---- Coq case ----

// interner gives every distinct path component of one case a short let-bound identifier (the literal lists of
// numbers dominate the time Coq needs to read a case file)
type interner struct {
	ids   map[string]string
	order []string
}

func (in *interner) name(c string) string {
	if id, ok := in.ids[c]; ok {
		return id
	}
	id := fmt.Sprintf("n%d", len(in.order))
	in.ids[c] = id
	in.order = append(in.order, c)
	return id
}

func (in *interner) path(p string) string {
	if p == "" {
		return "[]"
	}
	parts := strings.Split(p, "/")
	ts := make([]string, len(parts))
	for i, c := range parts {
		ts[i] = in.name(c)
	}
	return h.List(ts)
}

func (in *interner) wrap(term string) string {
	var b strings.Builder
	b.WriteString("(")
	for _, c := range in.order {
		fmt.Fprintf(&b, "let %s := %s in ", in.ids[c], h.Str(c))
	}
	b.WriteString(term + ")")
	return b.String()
}

// gcDeterministic: garbage collection handles the entries of a directory concurrently, so whether a link whose target
// lies INSIDE the collected tree still resolves when it is examined depends on the schedule.  Such cases are judged by
// the oracle only; the (sequential) model is compared on the others.
func gcDeterministic(sc scenario, before map[string]snapEntry) bool {
	for p, e := range before {
		if e.Kind != "l" || !under(sc.Root, p) {
			continue
		}
		if e.Target == "<outside-sandbox>" {
			return false
		}
		t := e.Target
		if under(sc.Root, t) {
			// harmless only if it can never resolve: the first component below the root that is looked up does not exist
			rest := strings.TrimPrefix(strings.TrimPrefix(t, sc.Root), "/")
			first := sc.Root
			if rest != "" {
				first = sc.Root + "/" + strings.Split(rest, "/")[0]
			}
			if _, ok := before[first]; ok || rest == "" {
				return false
			}
			continue
		}
		parts := strings.Split(t, "/")
		for i := 1; i <= len(parts); i++ {
			if b, ok := before[strings.Join(parts[:i], "/")]; ok && b.Kind == "l" {
				return false
			}
		}
	}
	return true
}

func emitCase(r *h.Run, sc scenario, o *outcome) {
	if opClass(sc.Op) == "gc" && !gcDeterministic(sc, o.Before) {
		r.Count("gc-case-schedule-dependent(oracle only)")
		return
	}
	if matches(sc.Root, effectivePatterns(sc)) {
		r.Count("root-matches-pattern")
	}
	in := &interner{ids: map[string]string{}}
	cids := map[string]int{}
	keys := make([]string, 0, len(o.Before))
	for k := range o.Before {
		keys = append(keys, k)
	}
	sort.Strings(keys)
	ts := make([]string, 0, len(keys))
	var removed []string
	same := true
	for i, k := range keys {
		e := o.Before[k]
		var t string
		switch e.Kind {
		case "d":
			t = "EDir"
		case "f":
			id := 0
			if e.Size > 0 {
				var ok bool
				if id, ok = cids[e.Data]; !ok {
					id = len(cids) + 1
					cids[e.Data] = id
				}
			}
			t = fmt.Sprintf("(EFile %d)", id)
		default:
			if e.Target == "<outside-sandbox>" {
				return
			}
			t = "(ELink " + in.path(e.Target) + ")"
		}
		ts = append(ts, "("+in.path(k)+", "+t+")")
		if a, ok := o.After[k]; !ok {
			removed = append(removed, fmt.Sprintf("%d%%N", i))
		} else if a.core() != e.core() {
			same = false
		}
	}
	for k := range o.After {
		if _, ok := o.Before[k]; !ok {
			same = false
		}
	}
	op := map[string]string{"rm": "OpRm", "clean": "OpClean", "gc": "OpGc"}[opClass(sc.Op)]
	pats := effectivePatterns(sc)
	pts := make([]string, len(pats))
	for i, p := range pats {
		pts[i] = h.Str(p)
	}
	var olds []string
	if sc.GC == "mixed" {
		for _, e := range sc.Entries {
			if e.Kind == "f" && e.Old {
				olds = append(olds, in.path(e.Path))
			}
		}
	}
	trailing := sc.Spelling == "trail" || sc.Spelling == "trail2" || sc.Spelling == "dottrail" || sc.Spelling == "reltrail"
	term := fmt.Sprintf("mkCase %s %s %s %s %s %s %s %s %s %s %s", h.List(ts), in.path(sc.Root), h.Bool(trailing), op, h.List(pts),
		h.Bool(sc.Cancelled && usesCtx(sc.Op)), h.List(olds), h.Bool(sc.GC == "all"), h.Bool(o.ErrNil), h.List(removed), h.Bool(same))
	r.Case(in.wrap(term), sc)
}

func runScenario(r *h.Run, sc scenario, emit bool) {
	if sc.Mem {
		runMem(r, sc)
		return
	}
	r.Eval()
	for _, b := range sc.Before {
		b.Before = nil
		_, _, _ = execute(b) // history only: judged when it ran as a scenario of its own
	}
	o, sandbox, err := execute(sc)
	if errors.Is(err, errNoReturn) {
		// the library call is still running (and still deleting): report and stop the whole run now
		r.Fail("call-does-not-return:"+opClass(sc.Op), fmt.Sprintf("%s(%q) on a tree of %d entries did not return within %v", sc.Op, sc.Root, len(sc.Entries), callDeadline), sc)
		r.Note("run aborted after a call that did not return")
		r.Finish()
		_ = os.RemoveAll(tmpRoot)
		os.Exit(0)
	}
	if err != nil {
		r.Note("scenario could not be set up: " + err.Error())
		r.Count("setup-failed")
		return
	}
	oracle(r, sc, o, sandbox)
	cls := opClass(sc.Op)
	r.Count("op=" + sc.Op)
	nl, kinds := 0, map[string]bool{}
	for _, e := range sc.Entries {
		if e.Kind == "l" && under(sc.Root, e.Path) {
			nl++
			kinds[linkKind(sc, e)] = true
			r.Count("link:" + linkKind(sc, e))
		}
	}
	r.Count(fmt.Sprintf("links-in-tree=%d", min(nl, 6)))
	r.Count(fmt.Sprintf("patterns=%d", len(effectivePatterns(sc))))
	if sc.Spelling != "" {
		r.Count("spelling=" + sc.Spelling)
	}
	if o.ErrNil {
		r.Count("result=nil:" + cls)
	} else {
		r.Count("result=error:" + cls)
	}
	if nl > 0 {
		ks := make([]string, 0, len(kinds))
		for k := range kinds {
			ks = append(ks, k)
		}
		sort.Strings(ks)
		r.Distinct(fmt.Sprintf("%s|%s|%v|%d|%v", sc.Op, strings.Join(ks, ","), effectivePatterns(sc), len(sc.Entries), sc.Root))
	}
	removed := 0
	for p := range o.Before {
		if _, ok := o.After[p]; !ok {
			removed++
		}
	}
	r.Sample(map[string]any{"op": sc.Op, "root": sc.Root, "entries": len(sc.Entries), "links_in_tree": nl, "patterns": effectivePatterns(sc),
		"cancelled": sc.Cancelled, "gc": sc.GC, "spelling": sc.Spelling, "read_fault": sc.Read, "history": len(sc.Before), "err": o.ErrText, "entries_removed": removed, "backend_ops": len(o.Log)})
	if sc.FailNth > 0 {
		r.Count("fault-injected(oracle only):" + cls)
		if !o.ErrNil {
			r.Count("fault-injected:error-reported")
		}
	}
	if sc.Read != nil {
		r.Count("read-fault(oracle only):" + sc.Read.Op)
		if o.ReadFaults > 0 {
			r.Count("read-fault:fired")
			if !o.ErrNil {
				r.Count("read-fault:error-reported")
			}
		}
	}
	if len(sc.Before) > 0 {
		r.Count("with-history")
	}
	if sc.BulkDir != "" {
		r.Count(fmt.Sprintf("directory-size=%d", sc.Bulk))
	}
	if emit && !sc.Global && sc.FailNth == 0 && sc.Read == nil && sc.Bulk <= 64 && literal(effectivePatterns(sc)) {
		emitCase(r, sc, o)
	}
}

func linkKind(sc scenario, e entry) string {
	var t *entry
	for i := range sc.Entries {
		if sc.Entries[i].Path == e.Target {
			t = &sc.Entries[i]
		}
	}
	in := under(sc.Root, e.Target)
	where := map[bool]string{true: "inside", false: "outside"}[in]
	switch {
	case e.Target == e.Path:
		return "self-loop"
	case under(e.Target, e.Path):
		return "to-ancestor"
	case t == nil:
		return "dangling"
	case t.Kind == "d":
		return "to-dir-" + where
	case t.Kind == "f":
		return "to-file-" + where
	}
	return "to-link-" + where
}

// ---- deterministic corner cases ----

func d(p string) entry             { return entry{Path: p, Kind: "d"} }
func f(p, c string) entry          { return entry{Path: p, Kind: "f", Content: c} }
func l(p, t string, abs bool) entry { return entry{Path: p, Kind: "l", Target: t, Abs: abs} }

func base() []entry {
	return []entry{d("outside"), f("outside/precious.txt", "precious"), d("outside/deep"), f("outside/deep/gold", "gold"), d("outside/empty"),
		d("tree2"), f("tree2/sibling", "sibling"), f("tree.bak", "bak"), l("outside/back", "tree/sub", false)}
}

func corpus() []scenario {
	var out []scenario
	// D10 witness: tree/sub/link -> outside, plus a dangling link
	w := append(base(), d("tree"), d("tree/sub"), l("tree/sub/link", "outside", false), l("tree/dangling", "nowhere", false), f("tree/a", "a"))
	for _, op := range append(append([]string{}, rmOps...), cleanOps...) {
		out = append(out, scenario{Entries: w, Root: "tree", Op: op})
	}
	for _, gc := range []string{"all", "mixed", "none"} {
		out = append(out, scenario{Entries: w, Root: "tree", Op: "GarbageCollect", GC: gc})
	}
	out = append(out, scenario{Entries: w, Root: "tree", Op: "Rm", Global: true})
	// every link kind alone, absolute and relative, at the top of the tree and one level down, for the three families
	kinds := map[string]string{"file-out": "outside/precious.txt", "dir-out": "outside", "dir-out-deep": "outside/deep", "dir-out-empty": "outside/empty",
		"file-in": "tree/a", "dir-in": "tree/sub", "dir-in-sibling": "tree/other", "ancestor-tree": "tree", "ancestor-parent": "tree/sub", "sandbox-root": "",
		"dangling": "tree/nothing", "self": "tree/sub/lnk", "to-link": "tree/l2", "prefix-sibling": "tree2"}
	names := make([]string, 0, len(kinds))
	for k := range kinds {
		names = append(names, k)
	}
	sort.Strings(names)
	for _, k := range names {
		for _, abs := range []bool{false, true} {
			es := append(base(), d("tree"), d("tree/sub"), d("tree/other"), f("tree/other/x", "x"), f("tree/a", "a"), f("tree/sub/b", ""),
				l("tree/l2", "outside/deep", abs), l("tree/sub/lnk", kinds[k], abs))
			for _, op := range []string{"Rm", "CleanDir", "GarbageCollect"} {
				out = append(out, scenario{Entries: es, Root: "tree", Op: op, GC: "all"})
			}
			out = append(out, scenario{Entries: es, Root: "tree/sub", Op: "RemoveWithContext"})
			out = append(out, scenario{Entries: es, Root: "tree/sub/lnk", Op: "Rm"}) // the root handed in IS a link: removed as a link
			out = append(out, scenario{Entries: es, Root: "tree", Op: "RemoveWithContextAndExclusionPatterns", Patterns: []string{"lnk"}})
			out = append(out, scenario{Entries: es, Root: "tree", Op: "CleanDirWithContextAndExclusionPatterns", Patterns: []string{"KEEP", ""}})
			out = append(out, scenario{Entries: es, Root: "tree", Op: "RemoveWithContext", Cancelled: true})
			out = append(out, scenario{Entries: es, Root: "tree/sub/lnk", Op: "RemoveWithContext", Cancelled: true}) // a cancelled removal of a link removes nothing
			out = append(out, scenario{Entries: es, Root: "tree/sub/lnk", Op: "RemoveWithContextAndExclusionPatterns", Patterns: []string{"lnk"}})
			out = append(out, scenario{Entries: es, Root: "tree/sub", Op: "CleanDirWithContextAndExclusionPatterns", Patterns: []string{"b"}})
		}
	}
	// a backend Remove that fails (EPERM / EBUSY), once or for good: the error paths, and for RemoveWithPrivileges the
	// "take ownership, retry, force" escalation; everything outside the tree belongs to another user
	fw := append(base(), d("tree"), d("tree/sub"), l("tree/sub/link", "outside", false), l("tree/tofile", "outside/precious.txt", true), l("tree/dangling", "nowhere", false),
		f("tree/a", "a"), d("tree/sub/deep"), f("tree/sub/deep/x", "x"), l("tree/sub/deep/up", "tree", false))
	for _, op := range append(append([]string{}, rmOps...), cleanOps...) {
		for k := 1; k <= 8; k++ {
			out = append(out, scenario{Entries: fw, Root: "tree", Op: op, FailNth: k, FailErr: []string{"EPERM", "EBUSY"}[k%2]})
		}
	}
	for k := 1; k <= 8; k++ {
		out = append(out, scenario{Entries: fw, Root: "tree", Op: "RemoveWithPrivileges", FailNth: k, FailAlways: true})
	}
	for _, root := range []string{"tree/sub/link", "tree/tofile", "tree/dangling", "tree/sub/deep/up", "tree/a", "tree/sub"} {
		for _, always := range []bool{false, true} {
			out = append(out, scenario{Entries: fw, Root: root, Op: "RemoveWithPrivileges", FailNth: 1, FailAlways: always})
			out = append(out, scenario{Entries: fw, Root: root, Op: "Rm", FailNth: 1, FailAlways: always})
		}
	}
	// the same object under different SPELLINGS of its path: a trailing separator (or "/.") makes the OS follow a link
	spellings := []string{"trail", "trail2", "dottrail", "inner2", "innerdot", "updown", "rel", "reltrail"}
	for _, sp := range spellings {
		tr := sp == "trail" || sp == "trail2" || sp == "dottrail" || sp == "reltrail"
		for _, op := range rmOps {
			for _, root := range []string{"tree/sub/link", "tree/tofile", "tree/dangling", "tree/sub/deep/up", "tree", "tree/sub", "tree/a", "tree/absent"} {
				if tr && (root == "tree/a" || root == "tree/tofile") {
					continue // "file/" names nothing (ENOTDIR): no demand
				}
				out = append(out, scenario{Entries: fw, Root: root, Op: op, Spelling: sp})
			}
		}
		out = append(out, scenario{Entries: fw, Root: "tree/sub/link", Op: "RemoveWithPrivileges", Spelling: sp, FailNth: 1})
		out = append(out, scenario{Entries: fw, Root: "tree/sub/link", Op: "RemoveWithPrivileges", Spelling: sp, FailNth: 1, FailAlways: true})
		out = append(out, scenario{Entries: fw, Root: "tree/sub/link", Op: "RemoveWithContextAndExclusionPatterns", Spelling: sp, Patterns: []string{"link"}})
		for _, op := range append(append([]string{}, cleanOps...), gcOps...) {
			out = append(out, scenario{Entries: fw, Root: "tree", Op: op, Spelling: sp, GC: "all"})
			out = append(out, scenario{Entries: fw, Root: "tree/sub", Op: op, Spelling: sp, GC: "all"})
		}
	}
	out = append(out, sizeScenarios(thoroughRun)...)
	out = append(out, historySequences()...)
	out = append(out, readFaultScenarios(fw)...)
	// mutual loop, link chain, links only, empty tree, missing root, file root
	loop := append(base(), d("tree"), l("tree/p", "tree/q", false), l("tree/q", "tree/p", true), l("tree/c1", "tree/c2", false), l("tree/c2", "tree/c3", false), l("tree/c3", "outside", false))
	for _, op := range []string{"Rm", "CleanDir", "GarbageCollect", "RemoveWithPrivileges"} {
		out = append(out, scenario{Entries: loop, Root: "tree", Op: op, GC: "all"})
	}
	out = append(out, scenario{Entries: append(base(), d("tree")), Root: "tree", Op: "Rm"})
	out = append(out, scenario{Entries: append(base(), d("tree")), Root: "tree", Op: "CleanDir"})
	out = append(out, scenario{Entries: base(), Root: "tree", Op: "Rm"})
	out = append(out, scenario{Entries: base(), Root: "tree", Op: "CleanDir"})
	out = append(out, scenario{Entries: base(), Root: "tree", Op: "GarbageCollect", GC: "all"})
	out = append(out, scenario{Entries: base(), Root: "tree.bak", Op: "Rm"})
	out = append(out, scenario{Entries: base(), Root: "tree.bak", Op: "CleanDir"})
	out = append(out, scenario{Entries: append(base(), f("empty", "")), Root: "empty", Op: "CleanDir"})
	out = append(out, scenario{Entries: base(), Root: "outside/back", Op: "Rm"}) // dangling link as root
	// exclusions at depth, with links around them
	ex := append(base(), d("tree"), d("tree/a"), d("tree/a/b"), f("tree/a/b/KEEPme", "k"), f("tree/a/b/drop", "d"), l("tree/a/KEEPlink", "outside", false),
		l("tree/a/b/out", "outside", true), d("tree/KEEPdir"), f("tree/KEEPdir/inner", "i"), l("tree/KEEPdir/lnk", "outside/deep", false), f("tree/z", "z"), l("tree/dang", "void", false))
	for _, pats := range [][]string{{"KEEP"}, {"KEEP", "drop"}, {"nomatch"}, {""}, {"z", "out"}, {"tree"}, {"a"}, {"tree", "KEEP"}} {
		out = append(out, scenario{Entries: ex, Root: "tree", Op: "RemoveWithContextAndExclusionPatterns", Patterns: pats})
		out = append(out, scenario{Entries: ex, Root: "tree", Op: "CleanDirWithContextAndExclusionPatterns", Patterns: pats})
		out = append(out, scenario{Entries: ex, Root: "tree/a", Op: "RemoveWithContextAndExclusionPatterns", Patterns: pats})
	}
	// garbage collection with ages
	g := append(base(), d("tree"), d("tree/d1"), entry{Path: "tree/d1/old", Kind: "f", Content: "o", Old: true}, f("tree/d1/fresh", "n"), d("tree/d2"),
		entry{Path: "tree/d2/old2", Kind: "f", Content: "o2", Old: true}, d("tree/d3"), l("tree/d3/out", "outside", false), l("tree/toold", "tree/d1/old", false),
		l("tree/tofresh", "tree/d1/fresh", true), l("tree/dang", "void", false), entry{Path: "outside/ancient", Kind: "f", Content: "anc", Old: true}, l("tree/toancient", "outside/ancient", false))
	for _, gc := range []string{"all", "mixed", "none"} {
		for _, op := range gcOps {
			out = append(out, scenario{Entries: g, Root: "tree", Op: op, GC: gc})
			out = append(out, scenario{Entries: g, Root: "tree/d3", Op: op, GC: gc})
		}
	}
	out = append(out, scenario{Entries: g, Root: "tree", Op: "GarbageCollectWithContext", GC: "all", Cancelled: true})
	return out
}

// sizeScenarios: directories of 0, 1, 255/256/257, 1023/1024/1025, ~1500 (thorough: ~5000) flat entries — the boundaries of
// chunked directory reads — as the root handed in and one level below it, for every rm / clean entry point, on the OS back
// end (a few links among the entries) and on the in-memory back end.  Same oracle.
func sizeScenarios(thorough bool) []scenario {
	var out []scenario
	sizes := []int{0, 1, 255, 256, 257, 1023, 1024, 1025, 1500}
	if thorough {
		sizes = append(sizes, 2047, 2048, 2049, 5000)
	}
	all := append(append([]string{}, rmOps...), cleanOps...)
	for _, n := range sizes {
		ops := all
		if n != 1025 && n != 1500 && n != 2049 {
			ops = []string{"Rm", "CleanDir", "RemoveWithContextAndExclusionPatterns"} // every entry point just above a boundary, three below / at it
		}
		for _, op := range ops {
			out = append(out, scenario{Entries: append(base(), d("tree"), f("tree/a", "a")), Root: "tree/big", Op: op, Bulk: n, BulkDir: "tree/big"})
			out = append(out, scenario{Root: "tree/big", Op: op, Bulk: n, BulkDir: "tree/big", Mem: true})
		}
		for _, op := range []string{"Rm", "CleanDirWithContext"} {
			out = append(out, scenario{Entries: append(base(), d("tree"), f("tree/a", "a")), Root: "tree", Op: op, Bulk: n, BulkDir: "tree/big"})
			out = append(out, scenario{Root: "tree", Op: op, Bulk: n, BulkDir: "tree/big", Mem: true})
		}
	}
	return out
}

// runMem: the in-memory back end (no links): only the size clause and the outside file are judged
func runMem(r *h.Run, sc scenario) {
	r.Eval()
	caseNo++
	fs := filesystem.NewInMemoryFileSystem()
	sandbox := fmt.Sprintf("/sb%d", caseNo)
	cls := opClass(sc.Op)
	fail := func(sig, what string) { r.Fail(sig+":"+cls+":in-memory", what, sc) }
	if err := fs.MkDir(filepath.Join(sandbox, sc.BulkDir)); err != nil {
		r.Note("in-memory set-up failed: " + err.Error())
		return
	}
	_ = fs.MkDir(filepath.Join(sandbox, "outside"))
	_ = fs.WriteFile(filepath.Join(sandbox, "outside/precious.txt"), []byte("precious"), 0o644)
	_ = fs.WriteFile(filepath.Join(sandbox, "tree/a"), []byte("a"), 0o644)
	for i := 0; i < sc.Bulk; i++ {
		if err := fs.WriteFile(filepath.Join(sandbox, sc.BulkDir, fmt.Sprintf("e%05d", i)), []byte("b"), 0o644); err != nil {
			r.Note("in-memory set-up failed: " + err.Error())
			return
		}
	}
	target := filepath.Join(sandbox, sc.Root)
	ctx := context.Background()
	var err error
	switch sc.Op {
	case "Rm":
		err = fs.Rm(target)
	case "RemoveWithContext":
		err = fs.RemoveWithContext(ctx, target)
	case "RemoveWithContextAndExclusionPatterns":
		err = fs.RemoveWithContextAndExclusionPatterns(ctx, target)
	case "RemoveWithPrivileges":
		err = fs.RemoveWithPrivileges(ctx, target)
	case "CleanDir":
		err = fs.CleanDir(target)
	case "CleanDirWithContext":
		err = fs.CleanDirWithContext(ctx, target)
	case "CleanDirWithContextAndExclusionPatterns":
		err = fs.CleanDirWithContextAndExclusionPatterns(ctx, target)
	default:
		return
	}
	r.Count("op=" + sc.Op + ":in-memory")
	r.Count(fmt.Sprintf("directory-size=%d:in-memory", sc.Bulk))
	if bs, e := fs.ReadFile(filepath.Join(sandbox, "outside/precious.txt")); e != nil || string(bs) != "precious" {
		fail("outside-deleted", fmt.Sprintf("%s(%q) touched outside/precious.txt", sc.Op, sc.Root))
	}
	if err != nil {
		r.Count("result=error:" + cls + ":in-memory")
		return
	}
	var left []string
	_ = fs.ListDirTree(target, &left)
	switch cls {
	case "rm":
		if fs.Exists(target) {
			fail("tree-remains-after-success", fmt.Sprintf("%s(%q) on a directory of %d entries returned nil but %d entries are still there", sc.Op, sc.Root, sc.Bulk, len(left)))
		}
	case "clean":
		if len(left) > 0 {
			fail("content-remains-after-success", fmt.Sprintf("%s(%q) on a directory of %d entries returned nil but %d entries are still there", sc.Op, sc.Root, sc.Bulk, len(left)))
		}
		if !fs.Exists(target) {
			fail("cleaned-directory-removed", fmt.Sprintf("%s(%q) removed the directory itself", sc.Op, sc.Root))
		}
	}
}

// historySequences: pairs of calls in the same process whose pattern LISTS are textually close (same concatenation, same
// %v / %s / Join rendering, a permutation, a prefix, blanks, commas, brackets).  Each call is judged by its own list.
var histNo int
var thoroughRun bool

func historySequences() []scenario {
	var out []scenario
	for _, op := range []string{"RemoveWithContextAndExclusionPatterns", "CleanDirWithContextAndExclusionPatterns"} {
		for fam := 0; fam < 7; fam++ {
			for order := 0; order < 2; order++ {
				histNo++
				u, v := fmt.Sprintf("rel%dz", histNo), fmt.Sprintf("not%dy", histNo) // fresh tokens: no list was ever used before
				var l1, l2 []string
				switch fam {
				case 0:
					l1, l2 = []string{u + " " + v}, []string{u, v} // %v, %s, Join(" ")
				case 1:
					l1, l2 = []string{u + v}, []string{u, v} // Join("")
				case 2:
					l1, l2 = []string{u + "," + v}, []string{u, v} // Join(",")
				case 3:
					l1, l2 = []string{u, v}, []string{v, u} // sorted key
				case 4:
					l1, l2 = []string{u}, []string{u, v} // first pattern only / prefix
				case 5:
					l1, l2 = []string{"[" + u + " " + v + "]"}, []string{u + " " + v} // %v of the second renders the first
				default:
					l1, l2 = []string{u + " " + v, "other"}, []string{u, v + " other"}
				}
				if order == 1 {
					l1, l2 = l2, l1
				}
				tree := append(base(), d("tree"), d("tree/docs"), f("tree/docs/"+u+".txt", "r"), f("tree/docs/"+v+".md", "n"), f("tree/docs/"+u+" "+v, "rn"),
					f("tree/docs/"+u+","+v, "c"), f("tree/docs/"+u+v, "j"), f("tree/docs/other", "o"), f("tree/docs/"+v+" other", "vo"), d("tree/"+u), f("tree/"+u+"/inner", "i"),
					d("tree/sub"), f("tree/sub/"+v, "v"), l("tree/sub/"+u+"lnk", "outside", false), f("tree/plain", "p"))
				first := scenario{Entries: tree, Root: "tree", Op: op, Patterns: l1}
				second := scenario{Entries: tree, Root: "tree", Op: op, Patterns: l2, Before: []scenario{first}}
				out = append(out, first, second)
			}
		}
	}
	return out
}

// readFaultScenarios: a directory read that fails part-way (still returning some names), Open / Stat / Lstat failing once or
// for good, at every position of the walk.  Oracle unchanged: nil => nothing left, nothing outside touched.
func readFaultScenarios(tree []entry) []scenario {
	var out []scenario
	errs := []string{"EIO", "ESTALE", "EACCES"}
	k := 0
	add := func(op string, rf readFault) {
		k++
		rf.Err = errs[k%3]
		out = append(out, scenario{Entries: tree, Root: "tree", Op: op, Read: &rf})
	}
	for _, op := range []string{"Rm", "RemoveWithContext", "RemoveWithContextAndExclusionPatterns", "RemoveWithPrivileges", "CleanDir", "CleanDirWithContext", "CleanDirWithContextAndExclusionPatterns"} {
		for nth := 1; nth <= 4; nth++ {
			for _, keep := range []int{0, 1, -1} {
				add(op, readFault{Op: "listing", Nth: nth, Keep: keep})
				add(op, readFault{Op: "listing", Nth: nth, Keep: keep, Always: true})
			}
		}
		for nth := 1; nth <= 8; nth++ {
			add(op, readFault{Op: "readdir", Nth: nth, Always: nth%2 == 0})
			add(op, readFault{Op: "open", Nth: nth, Always: nth%2 == 1})
			add(op, readFault{Op: "stat", Nth: nth, Always: nth%3 == 0})
			add(op, readFault{Op: "lstat", Nth: nth, Always: nth%2 == 0})
		}
	}
	for _, op := range gcOps {
		for nth := 1; nth <= 6; nth++ {
			k++
			out = append(out, scenario{Entries: tree, Root: "tree", Op: op, GC: "all", Read: &readFault{Op: "lstat", Nth: nth, Always: nth%2 == 0, Err: errs[k%3]}})
		}
	}
	return out
}

// ---- seeded generator ----

var nameParts = []string{"a", "b", "c", "d1", "e.txt", "f-2", "KEEP", "X1", "my file", "Q", "zz", "n0", "log", "é", "aX1b", "KEEPme", "t"}
var patternPool = []string{"KEEP", "X1", "Q", "", "ZZ", "zz", "log", "sub", "my file", "my", "file", "f-2", "e.txt", "KEEP X1", "zz,log"}

var lastPats []string // the pattern list of the previous generated call that took patterns: the next one is often textually close to it

func gen(r *h.Run, thoroughShape bool) scenario {
	rng := r.Rng
	rootName := []string{"tree", "t", "tree", "root dir", "KEEPtree"}[rng.Intn(5)]
	es := []entry{d("outside"), f("outside/precious.txt", "precious"), d("outside/deep"), f("outside/deep/gold", "gold"), d("outside/empty"),
		d(rootName + "2"), f(rootName+"2/sibling", "sibling"), f(rootName+".bak", "bak"), entry{Path: "outside/ancient", Kind: "f", Content: "anc", Old: true}}
	maxDepth := 1 + rng.Intn(5)
	maxFan := 1 + rng.Intn(4)
	if rng.Intn(12) == 0 {
		maxDepth, maxFan = 0, 0
	}
	dirs := []string{rootName}
	files := []string{}
	es = append(es, entry{Path: rootName, Kind: "d", RO: rng.Intn(10) == 0})
	used := map[string]bool{rootName: true}
	var grow func(dir string, depth int)
	fresh := func(dir string) string {
		for {
			n := nameParts[rng.Intn(len(nameParts))]
			if rng.Intn(3) == 0 {
				n += fmt.Sprint(rng.Intn(10))
			}
			p := dir + "/" + n
			if !used[p] {
				used[p] = true
				return p
			}
		}
	}
	budget := 28
	if thoroughShape {
		budget = 60
	}
	grow = func(dir string, depth int) {
		n := rng.Intn(maxFan + 1)
		for i := 0; i < n && budget > 0; i++ {
			budget--
			p := fresh(dir)
			if depth < maxDepth && rng.Intn(5) < 2 {
				es = append(es, entry{Path: p, Kind: "d", RO: rng.Intn(8) == 0})
				dirs = append(dirs, p)
				grow(p, depth+1)
			} else {
				c := ""
				if rng.Intn(4) > 0 {
					c = fmt.Sprintf("content-%d", rng.Intn(5))
				}
				es = append(es, entry{Path: p, Kind: "f", Content: c, RO: rng.Intn(6) == 0, Old: rng.Intn(2) == 0})
				files = append(files, p)
			}
		}
	}
	grow(rootName, 1)
	if maxDepth > 0 && len(dirs) == 1 && rng.Intn(2) == 0 {
		p := fresh(rootName)
		es = append(es, d(p))
		dirs = append(dirs, p)
	}
	// decorate with links
	nl := rng.Intn(6)
	if rng.Intn(6) == 0 {
		nl = 0
	}
	var links []string
	for i := 0; i < nl; i++ {
		where := dirs[rng.Intn(len(dirs))]
		p := fresh(where)
		var t string
		switch rng.Intn(11) {
		case 0:
			t = "outside"
		case 1:
			t = []string{"outside/deep", "outside/empty", rootName + "2"}[rng.Intn(3)]
		case 2:
			t = []string{"outside/precious.txt", "outside/ancient", rootName + ".bak"}[rng.Intn(3)]
		case 3:
			t = dirs[rng.Intn(len(dirs))] // inside (possibly an ancestor)
		case 4:
			if len(files) > 0 {
				t = files[rng.Intn(len(files))]
			} else {
				t = "outside/precious.txt"
			}
		case 5:
			t = filepath.ToSlash(filepath.Dir(p)) // parent: loop
		case 6:
			t = []string{"", rootName}[rng.Intn(2)] // sandbox root / tree root
		case 7:
			t = where + "/missing" + fmt.Sprint(rng.Intn(3)) // dangling
		case 8:
			t = p // self loop
		case 9:
			if len(links) > 0 {
				t = links[rng.Intn(len(links))]
			} else {
				t = "outside/nothing"
			}
		default:
			t = "outside"
		}
		es = append(es, entry{Path: p, Kind: "l", Target: t, Abs: rng.Intn(2) == 0})
		links = append(links, p)
	}
	if rng.Intn(3) == 0 {
		es = append(es, l("outside/back", dirs[rng.Intn(len(dirs))], rng.Intn(2) == 0))
	}
	sc := scenario{Entries: es}
	switch k := rng.Intn(10); {
	case k < 4:
		sc.Op = rmOps[rng.Intn(len(rmOps))]
	case k < 7:
		sc.Op = cleanOps[rng.Intn(len(cleanOps))]
	default:
		sc.Op = gcOps[rng.Intn(len(gcOps))]
		sc.GC = []string{"all", "mixed", "none", "all"}[rng.Intn(4)]
	}
	sc.Root = rootName
	switch rng.Intn(12) {
	case 0:
		sc.Root = dirs[rng.Intn(len(dirs))]
	case 1:
		if len(files) > 0 && opClass(sc.Op) != "clean" {
			sc.Root = files[rng.Intn(len(files))]
		}
	case 2:
		if len(links) > 0 && opClass(sc.Op) == "rm" {
			sc.Root = links[rng.Intn(len(links))]
		}
	case 3:
		if rng.Intn(3) == 0 {
			sc.Root = rootName + "/absent"
		}
	}
	if takesPatterns(sc.Op) {
		np := rng.Intn(4)
		for i := 0; i < np; i++ {
			sc.Patterns = append(sc.Patterns, patternPool[rng.Intn(len(patternPool))])
		}
		if len(lastPats) > 0 && rng.Intn(3) == 0 {
			// a list that renders like the previous one: joined, split at blanks / commas, permuted, or a prefix of it
			switch rng.Intn(5) {
			case 0:
				sc.Patterns = []string{strings.Join(lastPats, " ")}
			case 1:
				sc.Patterns = []string{strings.Join(lastPats, "")}
			case 2:
				sc.Patterns = nil
				for _, p := range lastPats {
					sc.Patterns = append(sc.Patterns, strings.FieldsFunc(p, func(c rune) bool { return c == ' ' || c == ',' })...)
				}
			case 3:
				sc.Patterns = nil
				for i := len(lastPats) - 1; i >= 0; i-- {
					sc.Patterns = append(sc.Patterns, lastPats[i])
				}
			default:
				sc.Patterns = append([]string{}, lastPats[:1+rng.Intn(len(lastPats))]...)
			}
		}
		if eff := effectivePatterns(sc); len(eff) > 0 {
			lastPats = eff
		}
	}
	if usesCtx(sc.Op) && rng.Intn(12) == 0 {
		sc.Cancelled = true
	}
	if rng.Intn(15) == 0 && !sc.Cancelled {
		sc.Global = true
	}
	if rng.Intn(4) == 0 {
		sp := []string{"trail", "trail2", "dottrail", "inner2", "innerdot", "updown", "rel", "reltrail"}[rng.Intn(8)]
		tr := sp == "trail" || sp == "trail2" || sp == "dottrail" || sp == "reltrail"
		isFile := false
		for _, e := range es {
			if e.Path == sc.Root && e.Kind == "f" {
				isFile = true
			}
			if e.Path == sc.Root && e.Kind == "l" {
				for _, t := range es {
					if t.Path == e.Target && t.Kind == "f" {
						isFile = true
					}
				}
			}
		}
		if !(tr && isFile) {
			sc.Spelling = sp
		}
	}
	if !sc.Global && opClass(sc.Op) != "gc" && rng.Intn(8) == 0 {
		sc.Read = &readFault{Op: []string{"listing", "listing", "readdir", "open", "stat", "lstat"}[rng.Intn(6)], Nth: 1 + rng.Intn(8), Always: rng.Intn(3) == 0,
			Err: []string{"EIO", "ESTALE", "EACCES"}[rng.Intn(3)], Keep: rng.Intn(4) - 1}
	} else if !sc.Global && opClass(sc.Op) != "gc" && rng.Intn(6) == 0 {
		sc.FailNth = 1 + rng.Intn(6)
		sc.FailAlways = rng.Intn(3) == 0
		sc.FailErr = []string{"EPERM", "EBUSY"}[rng.Intn(2)]
	}
	return sc
}

func main() {
	r := h.Init("C04")
	r.Imports = []string{"GU.C04.Model"}
	r.ShardSize = 150
	r.Rule("OS back end, sandbox under os.MkdirTemp; trees of depth 0..5, fan-out 0..4, empty directories and files, read-only entries, decorated with 0..5 symbolic links " +
		"(to files/directories inside and outside the tree, to ancestors incl. the sandbox root, dangling, self and mutual loops, chains; absolute and relative targets) x 9 entry points " +
		"(Rm, RemoveWith*, CleanDir*, GarbageCollect*) x 0..3 literal exclusion patterns x root = tree / sub-directory / file / link / missing; " +
		"non-trivial = at least one link inside the tree handed to the library; distinct by (entry point, set of link kinds, patterns, size, root)")
	var err error
	tmpRoot, err = os.MkdirTemp("", "verif-c04-*")
	if err != nil {
		fmt.Fprintln(os.Stderr, "cannot create scratch directory:", err)
		os.Exit(2)
	}
	tmpRoot, _ = filepath.EvalSymlinks(tmpRoot)
	defer os.RemoveAll(tmpRoot)
	r.Note(fmt.Sprintf("euid=%d (as root, read-only directories do not block removal and are only a decoration)", os.Geteuid()))

	thoroughRun = r.Thorough() || r.Deep
	var sc scenario
	if _, ok := r.ReplayObject(&sc); ok {
		runScenario(r, sc, false)
		r.Finish()
		_ = os.RemoveAll(tmpRoot)
		return
	}
	cp := corpus()
	for _, sc := range cp {
		runScenario(r, sc, true)
	}
	n := r.N(900, 4000)
	nCases := r.N(650, 2500)
	for i := 0; i < n; i++ {
		runScenario(r, gen(r, i%3 == 2), r.NCases() < nCases+len(cp))
	}
	r.Finish()
	_ = os.RemoveAll(tmpRoot)
}
