package main

import (
	"archive/tar"
	"archive/zip"
	"fmt"
	"os"
	"path/filepath"

	"github.com/ARM-software/golang-utils/utils/filesystem"

	"verif/harness/internal/h"
)

// archiveBackendScenarios: "Hashing a file returns the value of hashing its bytes, on EVERY filesystem backend" — the
// read-only backends of the library that present an archive as a file system (tar, zip) — and "independently of any earlier
// calculation": every file of the archive is hashed several times, by the same IFileHash object and by fresh ones, with
// reads of the same file through the file-system API in between (a history on the BACKEND's side: handles of a file that
// share state). Each digest must be the reference digest of the bytes that were put into the archive.
func archiveBackendScenarios(r *h.Run) {
	tmp, err := os.MkdirTemp("", "verif-c20-arch-*")
	if err != nil {
		r.Note("cannot create temp dir: " + err.Error())
		return
	}
	defer os.RemoveAll(tmp)
	type member struct {
		name    string
		content []byte
	}
	sizes := []int{0, 1, 36, 513, 32768, 32769, r.N(70000, 300000)}
	var members []member
	for i, n := range sizes {
		name := fmt.Sprintf("dir/f%d_%d.bin", i, n)
		if i%3 == 0 {
			name = fmt.Sprintf("top%d_%d.bin", i, n)
		}
		members = append(members, member{name, randBytes(r, n)})
	}
	tarPath := filepath.Join(tmp, "a.tar")
	zipPath := filepath.Join(tmp, "a.zip")
	{
		f, err := os.Create(tarPath)
		if err != nil {
			r.Note("cannot create tar: " + err.Error())
			return
		}
		tw := tar.NewWriter(f)
		_ = tw.WriteHeader(&tar.Header{Name: "dir/", Typeflag: tar.TypeDir, Mode: 0o755})
		for _, m := range members {
			_ = tw.WriteHeader(&tar.Header{Name: m.name, Typeflag: tar.TypeReg, Mode: 0o644, Size: int64(len(m.content))})
			_, _ = tw.Write(m.content)
		}
		_ = tw.Close()
		_ = f.Close()
	}
	{
		f, err := os.Create(zipPath)
		if err != nil {
			r.Note("cannot create zip: " + err.Error())
			return
		}
		zw := zip.NewWriter(f)
		for i, m := range members {
			method := zip.Deflate
			if i%2 == 0 {
				method = zip.Store
			}
			w, err := zw.CreateHeader(&zip.FileHeader{Name: m.name, Method: method})
			if err == nil {
				_, _ = w.Write(m.content)
			}
		}
		_ = zw.Close()
		_ = f.Close()
	}
	type backend struct {
		name string
		open func() (filesystem.ICloseableFS, filesystem.File, error)
	}
	backends := []backend{
		{"tar", func() (filesystem.ICloseableFS, filesystem.File, error) {
			return filesystem.NewTarFileSystemFromStandardFileSystem(tarPath, filesystem.NoLimits())
		}},
		{"zip", func() (filesystem.ICloseableFS, filesystem.File, error) {
			return filesystem.NewZipFileSystemFromStandardFileSystem(zipPath, filesystem.NoLimits())
		}},
	}
	for _, b := range backends {
		fs, af, err := b.open()
		if err != nil || fs == nil {
			r.Fail("archive-backend-unavailable:"+b.name, fmt.Sprintf("cannot open the %s archive as a file system: %v", b.name, err), nil)
			continue
		}
		for _, algo := range algos {
			shared, err := filesystem.NewFileHash(algo)
			if err != nil {
				continue
			}
			for _, m := range members {
				want := ref(algo, m.content)
				for round := 0; round < 4; round++ {
					r.Eval()
					r.Count("file-hash:" + b.name)
					fh := shared
					how := "the same IFileHash"
					if round == 2 {
						fh, _ = filesystem.NewFileHash(algo)
						how = "a fresh IFileHash"
					}
					var d string
					var err error
					if round%2 == 0 {
						d, err = fh.CalculateFile(fs, m.name)
					} else {
						d, err = fs.FileHash(algo, m.name)
						how = "fs.FileHash(algo, path)"
						_ = fh
					}
					detail := map[string]any{"algo": algo, "backend": b.name, "size": len(m.content), "round": round, "how": how}
					if err != nil {
						r.Fail("file-hash-error:"+b.name, fmt.Sprintf("hashing %s (%d bytes) of a %s file system, calculation %d on this file (%s): %v", m.name, len(m.content), b.name, round+1, how, err), detail)
						continue
					}
					if d != want {
						sig := "file-hash-differs:" + b.name + ":" + algo
						if round > 0 {
							sig = "file-hash-not-repeatable:" + b.name + ":" + algo
						}
						what := ""
						if d == ref(algo, nil) && len(m.content) > 0 {
							what = " (it is the digest of the EMPTY content)"
						}
						r.Fail(sig, fmt.Sprintf("hashing %s (%d bytes) of a %s file system, calculation %d on this file (%s): digest differs from the digest of the file's bytes%s", m.name, len(m.content), b.name, round+1, how, what), detail)
					}
					// a read of the same file through the file-system API between two calculations
					if round == 1 && len(m.content) > 0 {
						if c, err := fs.ReadFile(m.name); err == nil && string(c) != string(m.content) {
							r.Note(fmt.Sprintf("%s backend: ReadFile(%s) after two hash calculations returns %d bytes instead of %d", b.name, m.name, len(c), len(m.content)))
						}
					}
				}
			}
		}
		_ = fs.Close()
		if af != nil {
			_ = af.Close()
		}
	}
}

// concurrentFileHashScenarios: independent callers hashing DIFFERENT files with the same algorithm at the same time, each
// through the file system's own FileHash entry point (every call builds its hasher): each digest must be the reference
// digest of that file's bytes. (The property's histories on ONE hasher object are sequential; this is about callers that
// share nothing but the library.)
func concurrentFileHashScenarios(r *h.Run) {
	tmp, err := os.MkdirTemp("", "verif-c20-conc-*")
	if err != nil {
		r.Note("cannot create temp dir: " + err.Error())
		return
	}
	defer os.RemoveAll(tmp)
	const n = 8
	size := r.N(200000, 2000000)
	for bname, fs := range map[string]filesystem.FS{"os": filesystem.NewStandardFileSystem(), "mem": filesystem.NewInMemoryFileSystem()} {
		contents := make([][]byte, n)
		paths := make([]string, n)
		for i := range contents {
			contents[i] = randBytes(r, size+i*4099)
			paths[i] = filepath.Join(tmp, fmt.Sprintf("c%d.bin", i))
			if bname == "mem" {
				paths[i] = fmt.Sprintf("/c%d.bin", i)
			}
			if err := fs.WriteFile(paths[i], contents[i], 0o644); err != nil {
				r.Note("write failed: " + err.Error())
				return
			}
		}
		for _, algo := range algos {
			want := make([]string, n)
			for i := range want {
				want[i] = ref(algo, contents[i])
			}
			bad := 0
			firstBad := ""
			for round := 0; round < 3 && bad == 0; round++ {
				got := make([]string, n)
				errs := make([]error, n)
				start := make(chan struct{})
				done := make(chan int, n)
				for i := 0; i < n; i++ {
					go func(i int) {
						defer func() {
							if p := recover(); p != nil { // a hash object used by two callers at once may also blow up
								errs[i] = fmt.Errorf("panic: %v", p)
							}
							done <- i
						}()
						<-start
						got[i], errs[i] = fs.FileHash(algo, paths[i])
					}(i)
				}
				close(start)
				for i := 0; i < n; i++ {
					<-done
				}
				for i := 0; i < n; i++ {
					if errs[i] != nil || got[i] != want[i] {
						bad++
						if firstBad == "" {
							firstBad = fmt.Sprintf("file %d of %d (%d bytes): got %q err %v", i, n, len(contents[i]), got[i], errs[i])
						}
					}
				}
			}
			r.Eval()
			r.Count("file-hash:concurrent-callers:" + bname)
			if bad > 0 {
				r.Fail("file-hash-differs:concurrent-callers:"+bname+":"+algo, fmt.Sprintf("%d independent callers hashed %d different files with %s at the same time through fs.FileHash: %d digest(s) are not the digest of the file's bytes (%s)", n, n, algo, bad, firstBad), map[string]any{"algo": algo, "backend": bname, "callers": n})
			}
		}
	}
}
