// C20 harness: histories of calculations on one hasher object (six algorithms), scripted readers
// (chunk sizes, zero-length reads, error at byte k, cancellation at byte k), file hashing on both back ends.
// Oracle: digest == reference digest of the content, computed with fresh standard/reference hash objects.
package main

import (
	"bytes"
	"context"
	"crypto/md5"
	"crypto/sha1"
	"crypto/sha256"
	"encoding/hex"
	"errors"
	"fmt"
	"hash"
	"io"
	"os"
	"path/filepath"
	"sync/atomic"
	"time"

	"github.com/OneOfOne/xxhash"
	"github.com/spaolacci/murmur3"
	"golang.org/x/crypto/blake2b"

	"github.com/ARM-software/golang-utils/utils/filesystem"
	"github.com/ARM-software/golang-utils/utils/hashing"

	"verif/harness/internal/h"
	"verif/harness/internal/shim"

	"github.com/spf13/afero"
)

var algos = []string{hashing.HashMd5, hashing.HashSha1, hashing.HashSha256, hashing.HashBlake2256, hashing.HashXXHash, hashing.HashMurmur}

func refHash(algo string) hash.Hash {
	switch algo {
	case hashing.HashMd5:
		return md5.New()
	case hashing.HashSha1:
		return sha1.New()
	case hashing.HashSha256:
		return sha256.New()
	case hashing.HashBlake2256:
		x, _ := blake2b.New256(nil)
		return x
	case hashing.HashXXHash:
		return xxhash.New64()
	case hashing.HashMurmur:
		return murmur3.New64()
	}
	panic("algo")
}

func ref(algo string, data []byte) string {
	x := refHash(algo)
	_, _ = x.Write(data)
	return hex.EncodeToString(x.Sum(nil))
}

// ev mirrors the Coq type: kind 0 Data, 1 DataErr, 2 CancelDuring
type ev struct {
	Kind int    `json:"kind"`
	B    []byte `json:"b"`
	E    int    `json:"e,omitempty"` // DataErr: which error value the reader fails with (index into injectedErrs)
}

type scenario struct {
	Algo  string `json:"algo"`
	Hist  [][]ev `json:"hist"`
	Final []ev   `json:"final"`
	// EOFWithData: the readers return io.EOF together with their last non-empty chunk (n > 0, io.EOF), as
	// iotest.DataErrReader and decompressing readers do, instead of (0, io.EOF) on a further call
	EOFWithData bool `json:"eof_with_data,omitempty"`
	// Via: the entry point of the final calculation — "" CalculateWithContext(ctx, reader), "calculate" Calculate(reader),
	// "string" hashing.CalculateStringHash(hasher, string(content)) (the chunking of Final is then immaterial)
	Via string `json:"via,omitempty"`
}

type scriptReader struct {
	evs         []ev
	i           int
	off         int
	cancel      context.CancelFunc
	eofWithData bool
}

// lastData reports whether every event after index i delivers nothing more (so event i is the last data of a
// successful script)
func (r *scriptReader) lastData(i int) bool {
	for _, e := range r.evs[i+1:] {
		if e.Kind != 0 || len(e.B) > 0 {
			return false
		}
	}
	return true
}

var errInjected = errors.New("harness: injected read failure")

// error values a failing reader may return: an opaque one and the ones the I/O error converter knows about
// (a truncated stream reports io.ErrUnexpectedEOF; a wrapped io.EOF is not the end-of-stream signal of io.Reader)
var injectedErrs = []error{errInjected, io.ErrUnexpectedEOF, io.ErrClosedPipe, io.ErrNoProgress, fmt.Errorf("harness: wrapped: %w", io.EOF),
	os.ErrDeadlineExceeded, os.ErrClosed, io.ErrShortBuffer}

func (r *scriptReader) Read(p []byte) (int, error) {
	for {
		if r.i >= len(r.evs) {
			return 0, io.EOF
		}
		e := r.evs[r.i]
		rest := e.B[r.off:]
		switch e.Kind {
		case 0:
			if len(rest) == 0 && r.off > 0 { // chunk fully delivered
				r.i++
				r.off = 0
				continue
			}
			n := copy(p, rest)
			r.off += n
			if r.off >= len(e.B) {
				if r.eofWithData && n > 0 && r.lastData(r.i) {
					r.i = len(r.evs)
					r.off = 0
					return n, io.EOF
				}
				r.i++
				r.off = 0
			}
			return n, nil // may be a zero-length read when the chunk is empty
		case 1:
			n := copy(p, rest)
			r.off += n
			if r.off >= len(e.B) {
				return n, injectedErrs[e.E%len(injectedErrs)]
			}
			return n, nil
		default:
			r.cancel()
			n := copy(p, rest)
			r.i = len(r.evs)
			return n, nil
		}
	}
}

func delivered(s []ev) []byte {
	var out []byte
	for _, e := range s {
		switch e.Kind {
		case 0:
			out = append(out, e.B...)
		case 1:
			out = append(out, e.B...)
			return out
		default:
			return out
		}
	}
	return out
}

func outcome(s []ev) string {
	for _, e := range s {
		if e.Kind == 1 {
			return "failed"
		}
		if e.Kind == 2 {
			return "cancelled"
		}
	}
	return "success"
}

var eofWithData bool // reader behaviour of the scenario being run

func runCalc(hs hashing.IHash, s []ev) (string, error) {
	ctx, cancel := context.WithCancel(context.Background())
	defer cancel()
	return hs.CalculateWithContext(ctx, &scriptReader{evs: s, cancel: cancel, eofWithData: eofWithData})
}

func coqEvs(s []ev) string {
	ts := make([]string, len(s))
	for i, e := range s {
		ts[i] = "(" + []string{"Data", "DataErr", "CancelDuring"}[e.Kind] + " " + h.Bytes(e.B) + ")"
	}
	return h.List(ts)
}

func runScenario(r *h.Run, sc scenario, emit bool) {
	r.Eval()
	eofWithData = sc.EOFWithData
	if sc.EOFWithData {
		r.Count("reader:eof-with-last-data")
	}
	hs, err := hashing.NewHashingAlgorithm(sc.Algo)
	if err != nil {
		r.Fail("constructor:"+sc.Algo, "NewHashingAlgorithm failed: "+err.Error(), sc)
		return
	}
	var prev []byte
	for i, s := range sc.Hist {
		d, e := runCalc(hs, s)
		prev = append(prev, delivered(s)...)
		switch outcome(s) {
		case "success":
			if e != nil {
				r.Fail("history-success-errors:"+sc.Algo, fmt.Sprintf("calculation %d of the history failed: %v", i, e), sc)
			} else if d != ref(sc.Algo, delivered(s)) && i == 0 {
				r.Fail("digest-mismatch-fresh:"+sc.Algo, "first calculation on a fresh hasher differs from the reference digest", sc)
			}
		default:
			if e == nil {
				r.Fail("failure-not-reported:"+sc.Algo, fmt.Sprintf("calculation %d (%s) returned digest %q and no error", i, outcome(s), d), sc)
			}
		}
	}
	content := delivered(sc.Final)
	var d string
	var e error
	switch sc.Via {
	case "calculate":
		d, e = hs.Calculate(&scriptReader{evs: sc.Final, cancel: func() {}, eofWithData: eofWithData})
	case "string":
		d = hashing.CalculateStringHash(hs, string(content))
		if d == "" {
			e = errors.New("CalculateStringHash returned the empty string")
		}
		// the helpers that build their own hasher
		r.Count("entry=fresh-hasher-helpers")
		if x := hashing.CalculateHash(string(content), sc.Algo); x != ref(sc.Algo, content) {
			r.Fail("digest-mismatch-fresh:"+sc.Algo+":CalculateHash", fmt.Sprintf("CalculateHash(text of %d bytes, %s) differs from the reference digest", len(content), sc.Algo), sc)
		}
		if sc.Algo == hashing.HashMd5 {
			if x := hashing.CalculateMD5Hash(string(content)); x != ref(sc.Algo, content) {
				r.Fail("digest-mismatch-fresh:"+sc.Algo+":CalculateMD5Hash", fmt.Sprintf("CalculateMD5Hash(text of %d bytes) differs from the reference digest", len(content)), sc)
			}
		}
	default:
		d, e = runCalc(hs, sc.Final)
	}
	r.Count("entry=" + map[string]string{"": "CalculateWithContext", "calculate": "Calculate", "string": "CalculateStringHash"}[sc.Via])
	hist := "none"
	for _, s := range sc.Hist {
		if o := outcome(s); o != "success" {
			hist = o
		} else if hist == "none" {
			hist = "success"
		}
	}
	r.Count("algo=" + sc.Algo)
	r.Count("history=" + hist)
	r.Count(fmt.Sprintf("content_len<=2^%d", bitlen(len(content))))
	obsL := -1
	if e != nil {
		r.Fail("final-calc-error:"+sc.Algo, "successful reader script but Calculate returned "+e.Error(), sc)
	} else {
		if d != ref(sc.Algo, content) {
			via := ""
			if sc.Via != "" {
				via = ":" + sc.Via
			}
			r.Fail("digest-depends-on-history:"+sc.Algo+":after-"+hist+via, fmt.Sprintf("digest of %d bytes after a history (%s) differs from the reference digest (entry point %q)", len(content), hist, sc.Via), sc)
		}
		// smallest L with digest == ref(last L bytes delivered before ++ content)
		if emit {
			for L := 0; L <= len(prev); L++ {
				if d == ref(sc.Algo, append(append([]byte{}, prev[len(prev)-L:]...), content...)) {
					obsL = L
					break
				}
			}
		}
	}
	if emit {
		hs := make([]string, len(sc.Hist))
		for i, s := range sc.Hist {
			hs[i] = coqEvs(s)
		}
		r.Case(fmt.Sprintf("(mkCase %s %s %s)", h.List(hs), coqEvs(sc.Final), h.Opt(h.Z(int64(obsL)), obsL >= 0)), sc)
	}
	if len(sc.Hist) > 0 && len(content) > 0 {
		r.Distinct(fmt.Sprintf("%s|%v|%x", sc.Algo, sc.Hist, sha256.Sum256(content)))
	}
	r.Sample(map[string]any{"algo": sc.Algo, "history_outcomes": histOutcomes(sc.Hist), "content_len": len(content), "chunks": len(sc.Final), "digest": d})
}

func histOutcomes(hh [][]ev) []string {
	var o []string
	for _, s := range hh {
		o = append(o, fmt.Sprintf("%s@%d", outcome(s), len(delivered(s))))
	}
	return o
}

func bitlen(n int) int {
	b := 0
	for n > 0 {
		b++
		n >>= 1
	}
	return b
}

func genChunks(r *h.Run, content []byte) []ev {
	var out []ev
	i := 0
	for i < len(content) {
		var n int
		switch r.Rng.Intn(6) {
		case 0:
			n = 0
		case 1:
			n = 1
		case 2:
			n = len(content) - i
		case 3:
			n = 1 + r.Rng.Intn(64)
		default:
			n = 1 + r.Rng.Intn(len(content)-i)
		}
		if n > len(content)-i {
			n = len(content) - i
		}
		out = append(out, ev{Kind: 0, B: content[i : i+n]})
		i += n
	}
	if r.Rng.Intn(4) == 0 {
		out = append(out, ev{Kind: 0, B: nil})
	}
	return out
}

func randBytes(r *h.Run, n int) []byte {
	b := make([]byte, n)
	r.Rng.Read(b)
	return b
}

func genScript(r *h.Run, maxLen int, forceOutcome int) []ev {
	n := r.Rng.Intn(maxLen + 1)
	s := genChunks(r, randBytes(r, n))
	switch forceOutcome {
	case 1, 2:
		k := r.Rng.Intn(len(s) + 1)
		s = append(s[:k:k], ev{Kind: forceOutcome, B: randBytes(r, r.Rng.Intn(9))})
		if forceOutcome == 1 {
			s[k].E = r.Rng.Intn(len(injectedErrs))
		}
	}
	return s
}

func fileScenarios(r *h.Run) {
	tmp, err := os.MkdirTemp("", "verif-c20-*")
	if err != nil {
		r.Note("cannot create temp dir: " + err.Error())
		return
	}
	defer os.RemoveAll(tmp)
	backends := map[string]filesystem.FS{"os": filesystem.NewStandardFileSystem(), "mem": filesystem.NewInMemoryFileSystem()}
	sizes := []int{0, 1, 511, 512, 513, 32767, 32768, 32769, r.N(100000, 1<<20)}
	for bname, fs := range backends {
		for _, algo := range algos {
			fh, err := filesystem.NewFileHash(algo)
			if err != nil {
				r.Fail("filehash-constructor:"+algo, err.Error(), nil)
				continue
			}
			for _, n := range sizes {
				content := randBytes(r, n)
				p := filepath.Join(tmp, fmt.Sprintf("f_%s_%d", algo, n))
				if bname == "mem" {
					p = "/" + filepath.Base(p)
				}
				if err := fs.WriteFile(p, content, 0o644); err != nil && n > 0 {
					r.Note("write failed: " + err.Error())
					continue
				} else if err != nil {
					// the library reports writing an empty file as an 'empty' condition; create it through Touch instead
					_ = fs.Touch(p)
				}
				r.Eval()
				r.Count("file-hash:" + bname)
				// same IFileHash object reused across files: history of successful calculations
				d, err := fh.CalculateFile(fs, p)
				if err != nil {
					r.Fail("file-hash-error:"+bname, fmt.Sprintf("CalculateFile(%d bytes): %v", n, err), map[string]any{"algo": algo, "size": n, "backend": bname})
					continue
				}
				if d != ref(algo, content) {
					r.Fail("file-hash-differs:"+bname+":"+algo, fmt.Sprintf("hash of a %d-byte file differs from the hash of its bytes", n), map[string]any{"algo": algo, "size": n, "backend": bname})
				}
				d2, err := fh.CalculateFileWithContext(context.Background(), fs, p)
				if err != nil || d2 != d {
					r.Fail("file-hash-ctx-differs:"+bname+":"+algo, "CalculateFileWithContext differs from CalculateFile", map[string]any{"algo": algo, "size": n, "backend": bname})
				}
				if x := filesystem.NewFileHash; x != nil && bytes.Equal(content, nil) {
					_ = x
				}
			}
			// files whose reported size is not their length (procfs reports 0): the hash is that of the bytes read
			if bname == "os" {
				for _, pf := range []string{"/proc/version", "/proc/sys/kernel/ostype", "/proc/filesystems"} {
					content, rerr := os.ReadFile(pf)
					if rerr != nil || len(content) == 0 {
						continue
					}
					r.Eval()
					r.Count("file-hash:procfs")
					d, err := fh.CalculateFile(fs, pf)
					if err != nil {
						r.Fail("file-hash-error:"+bname, fmt.Sprintf("CalculateFile(%s): %v", pf, err), map[string]any{"algo": algo, "path": pf, "backend": bname})
					} else if d != ref(algo, content) {
						r.Fail("file-hash-differs:"+bname+":"+algo, fmt.Sprintf("hash of %s (%d bytes, reported size 0) differs from the hash of its bytes", pf, len(content)), map[string]any{"algo": algo, "path": pf, "backend": bname})
					}
				}
			}
			// hashing a directory / missing path must fail and must not poison the next calculation
			if _, err := fh.CalculateFile(fs, filepath.Join(tmp, "missing")); err == nil {
				r.Fail("file-hash-missing-no-error:"+bname, "CalculateFile on a missing path returned no error", nil)
			}
		}
	}
}

// shortFs is a backend whose files legally return SHORT reads (fewer bytes than asked for, nil error) before the end of
// the file, as network / FUSE / procfs / io/fs-adapted backends do; a short read is not the end of the data.
type shortFs struct {
	afero.Fs
	max int
}

type shortFile struct {
	afero.File
	max int
}

func (f *shortFile) Read(p []byte) (int, error) {
	if len(p) > f.max {
		p = p[:f.max]
	}
	return f.File.Read(p)
}

func (s *shortFs) Open(name string) (afero.File, error) {
	f, err := s.Fs.Open(name)
	if err != nil {
		return nil, err
	}
	return &shortFile{File: f, max: s.max}, nil
}

func (s *shortFs) OpenFile(name string, flag int, perm os.FileMode) (afero.File, error) {
	f, err := s.Fs.OpenFile(name, flag, perm)
	if err != nil {
		return nil, err
	}
	return &shortFile{File: f, max: s.max}, nil
}

// fileHistoryScenarios: the same IFileHash object over a history of files — a path whose content is replaced by
// different bytes of the same size with its modification time restored (cp -p, unzip, Chtimes) must hash to the NEW
// bytes ("hashing a file returns the value of hashing its bytes"); and a calculation that fails after the file was
// opened (read error at byte k, context cancelled at byte k) must report an error, never a digest, and must not
// poison the next calculation.
func fileHistoryScenarios(r *h.Run) {
	tmp, err := os.MkdirTemp("", "verif-c20h-*")
	if err != nil {
		r.Note("cannot create temp dir: " + err.Error())
		return
	}
	defer os.RemoveAll(tmp)
	type backend struct {
		name string
		mk   func(hook shim.Hook) (filesystem.FS, *shim.Fs)
		dir  string
	}
	backends := []backend{
		{"os", func(hk shim.Hook) (filesystem.FS, *shim.Fs) {
			sh := shim.New(afero.NewOsFs(), hk)
			return filesystem.NewVirtualFileSystem(sh, filesystem.StandardFS, filesystem.IdentityPathConverterFunc), sh
		}, tmp},
		{"mem", func(hk shim.Hook) (filesystem.FS, *shim.Fs) {
			sh := shim.New(afero.NewMemMapFs(), hk)
			return filesystem.NewVirtualFileSystem(sh, filesystem.InMemoryFS, filesystem.IdentityPathConverterFunc), sh
		}, "/h"},
		{"mem-short-reads", func(hk shim.Hook) (filesystem.FS, *shim.Fs) {
			sh := shim.New(&shortFs{Fs: afero.NewMemMapFs(), max: 1000}, hk)
			return filesystem.NewVirtualFileSystem(sh, filesystem.InMemoryFS, filesystem.IdentityPathConverterFunc), sh
		}, "/h"},
		{"os-short-reads", func(hk shim.Hook) (filesystem.FS, *shim.Fs) {
			sh := shim.New(&shortFs{Fs: afero.NewOsFs(), max: 333}, hk)
			return filesystem.NewVirtualFileSystem(sh, filesystem.StandardFS, filesystem.IdentityPathConverterFunc), sh
		}, tmp},
	}
	for _, b := range backends {
		for _, algo := range algos {
			fs, sh := b.mk(nil)
			_ = fs.MkDir(b.dir)
			fh, err := filesystem.NewFileHash(algo)
			if err != nil {
				continue
			}
			// (a) same path, same size, same mtime, different bytes
			for _, n := range []int{1, 64, 4096, 40000} {
				p := filepath.Join(b.dir, fmt.Sprintf("r_%s_%d", algo, n))
				c1, c2 := randBytes(r, n), randBytes(r, n)
				if bytes.Equal(c1, c2) {
					c2[0] ^= 0xff
				}
				if fs.WriteFile(p, c1, 0o644) != nil {
					continue
				}
				old := time.Now().Add(-48 * time.Hour).Truncate(time.Second)
				_ = fs.Chtimes(p, old, old)
				d1, e1 := fh.CalculateFile(fs, p)
				_ = fs.WriteFile(p, c2, 0o644)
				_ = fs.Chtimes(p, old, old)
				d2, e2 := fh.CalculateFile(fs, p)
				r.Eval()
				r.Count("file-hash:replaced-same-size-same-mtime:" + b.name)
				r.Distinct(fmt.Sprintf("replaced|%s|%s|%d", b.name, algo, n))
				if e1 != nil || e2 != nil {
					r.Fail("file-hash-error:"+b.name, fmt.Sprintf("CalculateFile failed: %v / %v", e1, e2), map[string]any{"algo": algo, "size": n, "backend": b.name})
				} else if d1 != ref(algo, c1) || d2 != ref(algo, c2) {
					r.Fail("file-hash-stale-after-replace:"+b.name+":"+algo, fmt.Sprintf("a %d-byte file was replaced by different content of the same size and modification time; the same IFileHash then returned a digest that is not the digest of the file's bytes", n), map[string]any{"algo": algo, "size": n, "backend": b.name})
				}
			}
			// (b) faults after the file has been opened: read error / cancellation at the k-th read of the file
			content := randBytes(r, 100000)
			p := filepath.Join(b.dir, "f_"+algo)
			if fs.WriteFile(p, content, 0o644) != nil {
				continue
			}
			for _, mode := range []string{"read-error", "cancel"} {
				for _, k := range []int{0, 1, 2} {
					ctx, cancel := context.WithCancel(context.Background())
					var reads int32
					sh.SetHook(func(op *shim.Op) error {
						if op.Name == "f.Read" && op.Path == p {
							i := int(atomic.AddInt32(&reads, 1)) - 1
							if i == k {
								if mode == "cancel" {
									cancel()
									return nil
								}
								return errors.New("harness: injected read failure on the file")
							}
						}
						return nil
					})
					d, err := fh.CalculateFileWithContext(ctx, fs, p)
					sh.SetHook(func(*shim.Op) error { return nil })
					cancel()
					r.Eval()
					r.Count("file-hash:fault-after-open:" + mode + ":" + b.name)
					r.Distinct(fmt.Sprintf("fault|%s|%s|%s|%d", b.name, algo, mode, k))
					if err == nil && d != ref(algo, content) {
						r.Fail("file-hash-failure-not-reported:"+b.name+":"+mode, fmt.Sprintf("hashing a file whose %s happened at read %d returned digest %q and no error", mode, k, d), map[string]any{"algo": algo, "backend": b.name, "mode": mode, "k": k})
					}
					if n := sh.OpenHandles(); n != 0 {
						r.Fail("file-hash-handle-leak:"+b.name, fmt.Sprintf("%d file handle(s) left open after a failed file hash", n), map[string]any{"algo": algo, "backend": b.name, "mode": mode, "k": k})
					}
					// the next calculation on the same object must be right
					if d2, e2 := fh.CalculateFile(fs, p); e2 != nil || d2 != ref(algo, content) {
						r.Fail("file-hash-poisoned-by-failure:"+b.name+":"+algo, "the calculation following a failed file hash is wrong", map[string]any{"algo": algo, "backend": b.name, "mode": mode, "k": k})
					}
				}
			}
		}
	}
}

func main() {
	r := h.Init("C20")
	r.Imports = []string{"GU.C20.Model"}
	r.Rule("six algorithms x histories of 0..4 earlier calculations on the same hasher (success / read error at byte k / cancellation at byte k) x contents (quick 0..2^16, thorough 0..2^20, buffer boundaries) x chunkings incl. zero-length reads; " +
		"non-trivial = non-empty history and non-empty content; distinct by (algo, history, content hash). Final calculation through CalculateWithContext, Calculate or CalculateStringHash (+ the fresh-hasher helpers CalculateHash / CalculateMD5Hash). File hashing on the OS and in-memory back ends, and (repeatedly, with reads in between) on the tar and zip archive back ends.")
	var sc scenario
	if _, ok := r.ReplayObject(&sc); ok {
		runScenario(r, sc, false)
		r.Finish()
		return
	}
	// corpus: the D1 witness and its variants, every algorithm
	for _, a := range algos {
		runScenario(r, scenario{Algo: a, Hist: [][]ev{{{Kind: 0, B: []byte("partial")}, {Kind: 1}}}, Final: []ev{{Kind: 0, B: []byte("hello world")}}}, true)
		runScenario(r, scenario{Algo: a, Hist: [][]ev{{{Kind: 1, B: []byte("x")}}}, Final: []ev{{Kind: 0, B: []byte("hello")}, {Kind: 0, B: nil}, {Kind: 0, B: []byte(" world")}}}, true)
		runScenario(r, scenario{Algo: a, Hist: [][]ev{{{Kind: 0, B: []byte("abc")}, {Kind: 2, B: []byte("zz")}}}, Final: []ev{{Kind: 0, B: []byte("hello world")}}}, true)
		runScenario(r, scenario{Algo: a, Hist: [][]ev{{{Kind: 0, B: []byte("ok")}}, {{Kind: 0, B: []byte("abc")}, {Kind: 1, B: []byte("d")}}, {{Kind: 0, B: []byte("fine")}}}, Final: []ev{{Kind: 0, B: []byte("hello world")}}}, true)
		runScenario(r, scenario{Algo: a, Hist: nil, Final: nil}, true)
		for _, via := range []string{"calculate", "string"} {
			runScenario(r, scenario{Algo: a, Via: via, Hist: [][]ev{{{Kind: 0, B: []byte("partial")}, {Kind: 1}}}, Final: []ev{{Kind: 0, B: []byte("hello world")}}}, true)
			runScenario(r, scenario{Algo: a, Via: via, Hist: [][]ev{{{Kind: 0, B: []byte("abc")}, {Kind: 2, B: []byte("zz")}}}, Final: []ev{{Kind: 0, B: []byte("hello world")}}}, true)
			runScenario(r, scenario{Algo: a, Via: via, Hist: [][]ev{{{Kind: 0, B: []byte("fine")}}}, Final: []ev{{Kind: 0, B: []byte("hello ")}, {Kind: 0, B: []byte("world")}}}, true)
			runScenario(r, scenario{Algo: a, Via: via, Hist: nil, Final: nil}, true)
		}
		runScenario(r, scenario{Algo: a, Hist: [][]ev{{{Kind: 0, B: []byte("abc")}}}, Final: []ev{{Kind: 0, B: []byte("hello ")}, {Kind: 0, B: []byte("world")}}, EOFWithData: true}, true)
		// a stream that breaks off midway is a failure whatever error value the reader uses (truncated stream = io.ErrUnexpectedEOF, ...)
		for e := range injectedErrs {
			runScenario(r, scenario{Algo: a, Hist: [][]ev{{{Kind: 0, B: []byte("partial ")}, {Kind: 1, B: []byte("da"), E: e}}, {{Kind: 1, E: e}}}, Final: []ev{{Kind: 0, B: []byte("hello world")}}}, e < 2)
		}
	}
	n := r.N(900, 12000)
	nCases := r.N(700, 3000)
	for i := 0; i < n; i++ {
		a := algos[r.Rng.Intn(len(algos))]
		small := i < nCases
		maxLen := 48
		if !small {
			maxLen = r.N(1<<16, 1<<20)
			if r.Rng.Intn(3) > 0 {
				maxLen = 70000
			}
		}
		nh := r.Rng.Intn(5)
		var hist [][]ev
		for j := 0; j < nh; j++ {
			hl := maxLen
			if hl > 4096 {
				hl = 4096
			}
			hist = append(hist, genScript(r, hl, r.Rng.Intn(3)))
		}
		var content []byte
		switch r.Rng.Intn(8) {
		case 0:
			content = nil
		case 1:
			if !small {
				content = randBytes(r, []int{511, 512, 513, 32767, 32768, 32769, 65536}[r.Rng.Intn(7)])
			} else {
				content = randBytes(r, 1)
			}
		default:
			content = randBytes(r, r.Rng.Intn(maxLen+1))
		}
		runScenario(r, scenario{Algo: a, Hist: hist, Final: genChunks(r, content), EOFWithData: r.Rng.Intn(3) == 0, Via: []string{"", "", "calculate", "string"}[r.Rng.Intn(4)]}, small)
	}
	fileScenarios(r)
	fileHistoryScenarios(r)
	archiveBackendScenarios(r)
	concurrentFileHashScenarios(r)
	r.Finish()
}
