// C01 harness: the real RemoteLockFile under a cooperative scheduler.
//
// Every contender of a scenario owns a lock object created for the same id and directory through its own
// scheduling wrapper (internal/lsched) around ONE shared backend (OS directory or afero MemMapFs).  Each backend
// operation on the lock directory / heartbeat file of each thread (API threads and heartbeat writers) blocks until
// the scenario's schedule releases it, so an interleaving at filesystem-operation granularity is replayed
// deterministically.  Staleness verdicts are inputs of the schedule (fabricated ModTime).
//
// Oracle (independent of the Coq model, evaluated on what the implementation did):
//   - a Remove of the lock directory that destroys a directory whose creator has acquired (or is acquiring) the
//     lock, has not begun to release it and is alive;
//   - two live holders at the same instant (an acquire returning success while another live contender holds).
//
// Correspondence: every scenario on the OS back end is emitted as a Coq case (schedule + the observation of every
// step + final number of live holders + the harness's own "bad removal" ghost); coq/C01/Model.v must reproduce it.
package main

import (
	"context"
	"errors"
	"fmt"
	"math/rand"
	"os"
	"path/filepath"
	"sort"
	"strings"
	"sync"
	"sync/atomic"
	"syscall"
	"time"

	"github.com/ARM-software/golang-utils/utils/commonerrors"
	"github.com/ARM-software/golang-utils/utils/filesystem"
	"github.com/spf13/afero"

	"verif/harness/internal/h"
	"verif/harness/internal/lsched"
)

const waitT = 8 * time.Second

type Item struct {
	K     string `json:"k"` // call | step | kill
	C     int    `json:"c"`
	HB    int    `json:"hb,omitempty"` // step: 0 = API thread, k+1 = heartbeat writer k
	Api   string `json:"api,omitempty"`
	Stale bool   `json:"stale,omitempty"`
	SilentAge int `json:"silent_age,omitempty"` // age used instead of Age when the holder's heartbeat writer has been found gone
	Fault string `json:"fault,omitempty"` // backend fault injected on the read-side operation(s) of the step / macro: eacces | eperm | eio | enoent (the lie "does not exist"); the operation is not executed
	FaultOp string `json:"fault_op,omitempty"` // macros: only operations of this kind are faulted (Stat | Lstat | Open | Readdir); empty = all read-side ones
	Age   int    `json:"age,omitempty"` // step on a Stat: logical age (ms) of the time stamp presented; 0 with Stale = one hour
	// macros (expanded into steps while running; the executed steps are what is recorded and replayed):
	// K = "until": step C's API thread until it is blocked at operation Op on Class (the Skip+1-th time), without executing it;
	// K = "finish": step C's API thread until its call returns.  Stale = verdict given to every Stat on the way (when allowed).
	Op    string `json:"op,omitempty"`
	Class string `json:"class,omitempty"`
	Skip  int    `json:"skip,omitempty"`
}

type Scenario struct {
	Tag     string `json:"tag"`
	Backend string `json:"backend"` // os | mem
	Ovr     []bool `json:"ovr"`
	Objs    []int  `json:"objs,omitempty"` // lock object used by each API thread (default: one object each); threads sharing an object share its cancel store
	Items   []Item `json:"items"`
	Faults  []FaultAt `json:"faults,omitempty"` // one-off faults at given read-side positions, persistent faults on one kind of operation
	FaultPm int    `json:"fault_pm,omitempty"` // generator: probability (per mille) of a one-off fault on each read-side operation
	NoParent bool  `json:"noparent,omitempty"` // the directory the lock lives in does not exist (oracle only, no Coq case)
	Short   bool   `json:"short,omitempty"` // the generator may issue LockWithTimeout calls whose deadline fires
	Atomic  bool   `json:"atomic,omitempty"` // generate under the atomic-release restriction (no Mkdir of another contender succeeds inside a release window)
	Sys     *SysSpec `json:"sys,omitempty"` // systematic (preemption-bounded) schedule: scripts + the preemption decisions
	Seed    int64  `json:"seed,omitempty"` // >0: items are generated online from this seed (MaxItems of them)
	Max     int    `json:"max,omitempty"`
}

// SysSpec: every contender runs its script of calls; scheduling is non-preemptive (a thread runs until its script is
// exhausted; a blocking Lock that keeps polling yields) except at the preemption points listed in Dec: point number ->
// thread to switch to.  Preemption points: before a Mkdir / Remove / Stat / Readdirnames of a thread and before the
// operation that follows a Mkdir / Remove.
type SysSpec struct {
	Scripts [][]string  `json:"scripts"`
	Prefix  []Item      `json:"prefix,omitempty"`
	Dec     map[int]int `json:"dec,omitempty"`
}

// FaultAt: thread C's N-th read-side backend operation (counted from the start of the scenario) fails with Kind; with
// Persist, every read-side operation Op of thread C does.
type FaultAt struct {
	C       int    `json:"c"`
	N       int    `json:"n"`
	Kind    string `json:"kind"`
	Persist bool   `json:"persist,omitempty"`
	Op      string `json:"op,omitempty"`
}

var faultErr = map[string]error{"eacces": syscall.EACCES, "eperm": syscall.EPERM, "eio": syscall.EIO, "enoent": syscall.ENOENT}

func isReadOp(op string) bool { return op == "Stat" || op == "Lstat" || op == "Open" || op == "Readdir" }

type StepObs struct {
	Fl  int `json:"fl"` // injected fault: 0 none, 1 an error other than "does not exist", 2 "does not exist"
	Op  int `json:"op"`
	Res int `json:"res"`
	Ret int `json:"ret"`
}

type fail struct {
	Sig, What string
}

type Outcome struct {
	Items   []Item
	Obs     []*StepObs
	Holders int
	Reads   []int // read-side backend operations executed by each API thread
	Bad     bool
	Fails   []fail
	Stuck   string
	Unreliable string // the wall clock interfered with a logical age / a deadline: the scenario is discarded
	Invalid string // an item of a fixed schedule was not executable (replay of a foreign tree)
	Zombies int    // heartbeat writers that came back although their lock object's cancel store had been cancelled
	Acq     int    // successful acquires
	Rel     int    // successful unlocks
	Kinds   map[string]int
	Points  int           // systematic runs: preemption points met
	Alts    map[int][]int // systematic runs: threads that could have been switched to at each point
}

var apis = []string{"TryLock", "Lock", "LockWithTimeout", "Unlock"}

// LockWithTimeout with a deadline that fires during the scenario (item "deadline")
const shortAPI = "LockWithTimeoutShort"
const shortT = 400 * time.Millisecond

// the library's staleness threshold in ms (2 heartbeat periods, strict): an age is stale iff age > staleMs
const staleMs = 100

func apiCode(a string) int {
	if a == shortAPI {
		return 2
	}
	for i, x := range apis {
		if x == a {
			return i
		}
	}
	return 3
}

func opCode(op, class string, n int) int {
	switch op + ":" + class {
	case "Mkdir:dir":
		return 0
	case "Remove:dir":
		return 1
	case "Remove:hb":
		return 2
	case "Stat:dir":
		return 3
	case "Stat:hb":
		return 4
	case "Open:dir":
		return 5
	case "Readdir:dir":
		if n == 1 {
			return 6
		}
		if n < 0 {
			return 7
		}
	case "Readdir:hb":
		if n == 1 {
			return 12
		}
		if n < 0 {
			return 13
		}
	case "Open:hb":
		return 11
	case "Lstat:dir":
		return 14
	case "Lstat:hb":
		return 15
	case "OpenFile:hb":
		return 8
	case "Chtimes:dir":
		return 9
	case "Chtimes:hb":
		return 10
	}
	return 99
}

func resCode(res string) int {
	switch res {
	case "ok":
		return 0
	case "exist":
		return 1
	case "notexist":
		return 2
	case "notempty":
		return 3
	case "isdir":
		return 5
	case "isfile":
		return 6
	case "eof:0":
		return 7
	case "ok:0":
		return 8
	case "ok:1":
		return 9
	case "eof:1":
		return 10
	}
	return 4
}

func retCode(err error) int {
	switch {
	case err == nil:
		return 1
	case commonerrors.Any(err, commonerrors.ErrLocked):
		return 2
	case commonerrors.Any(err, commonerrors.ErrStaleLock):
		return 3
	case commonerrors.Any(err, commonerrors.ErrCancelled, commonerrors.ErrTimeout) || errors.Is(err, context.Canceled):
		return 4
	}
	return 5
}

// ---------------- engine ----------------

type contender struct {
	lock    filesystem.ILock
	obj     int         // lock object it uses
	wrap    *lsched.Fs  // the scheduling wrapper of that object
	silent  bool        // oracle: its heartbeat writer is gone although it holds, is alive and nothing was released
	inCall  bool
	api     string
	ret     atomic.Pointer[int]
	holds   bool
	alive   bool
	eng     int // generation created and not yet begun to release, -1 none
	mkThis  bool
	nRead   int  // read-side backend operations of its API thread so far
	awaitCheck bool // Unlock call: it has just removed a lock directory: its next Stat of the directory is Unlock's existence re-check
	checkSeen, checkSaw, checkFault bool // that re-check happened / found a directory / was answered by an injected fault
	relGen  int  // Unlock call: the generation this contender is releasing
	rmOwn   bool // Unlock call: it has itself removed that generation
	judged  int  // acquire call: generation present at its latest stale verdict (-2 none)
	callStart time.Time
	expired bool // the deadline of the LockWithTimeoutShort call in progress has fired (item "deadline" executed)
	nShort  int
	win     bool // release window of the call in progress is open (Unlock, or a stale time stamp read, no own Mkdir since)
	hbDoneAt []time.Time
	hbPC    []int  // per heartbeat writer: 0 at OpenFile, 1 at Chtimes, 2 done
	hbCanc  []bool // cancelled
	done    chan struct{}
}

type engine struct {
	sc      *Scenario
	s       *lsched.Sched
	cs      []*contender
	ctx     context.Context
	cancel  context.CancelFunc
	root    string
	curGen  int
	nextGen int
	creator map[int]int
	badGen  map[int]string // generation destroyed while its creator held it -> signature
	out     *Outcome
	wg      sync.WaitGroup
}

func newEngine(sc *Scenario, runRoot string) (*engine, error) {
	e := &engine{sc: sc, curGen: -1, creator: map[int]int{}, badGen: map[int]string{}, out: &Outcome{Kinds: map[string]int{}}}
	var inner afero.Fs
	var base string
	var kind filesystem.FilesystemType
	switch sc.Backend {
	case "mem":
		inner = afero.NewMemMapFs()
		base = "/locks"
		_ = inner.MkdirAll(base, 0o755)
		kind = filesystem.InMemoryFS
	default:
		d, err := os.MkdirTemp(runRoot, "s")
		if err != nil {
			return nil, err
		}
		e.root = d
		base = d
		inner = filesystem.NewExtendedOsFs()
		kind = filesystem.StandardFS
	}
	if sc.NoParent {
		base = filepath.Join(base, "missing")
	}
	dirPath := filepath.Join(base, "lockfile-x")
	e.s = lsched.New(dirPath, filepath.Join(dirPath, "x.lock"))
	e.ctx, e.cancel = context.WithCancel(context.Background())
	for c, ov := range sc.Ovr {
		obj := c
		if c < len(sc.Objs) && sc.Objs[c] < c && sc.Objs[c] >= 0 {
			obj = sc.Objs[c] // shares the lock object of an earlier thread
		}
		if obj != c {
			o := e.cs[obj]
			e.cs = append(e.cs, &contender{lock: o.lock, wrap: o.wrap, obj: o.obj, alive: true, eng: -1})
			continue
		}
		w := e.s.Wrap(inner, c)
		vfs, ok := filesystem.NewVirtualFileSystem(w, kind, filesystem.IdentityPathConverterFunc).(*filesystem.VFS)
		if !ok {
			return nil, errors.New("not a VFS")
		}
		e.cs = append(e.cs, &contender{lock: filesystem.NewGenericRemoteLockFile(vfs, "x", base, ov), wrap: w, obj: c, alive: true, eng: -1})
	}
	return e, nil
}

func (e *engine) liveOwner() bool {
	if e.curGen < 0 {
		return false
	}
	y := e.cs[e.creator[e.curGen]]
	return y.alive && y.eng == e.curGen && !y.silent
}

// cancelObj: l.cancelStore.Cancel() on a lock object — every heartbeat writer started through it is cancelled
func (e *engine) cancelObj(obj int) {
	for _, y := range e.cs {
		if y.obj == obj {
			for k := range y.hbCanc {
				y.hbCanc[k] = true
			}
		}
	}
}

// heldLive: the creator of the present directory holds (or is acquiring) it and is alive — whether or not its heartbeat
// writer is still there (the removal oracle; liveOwner is the proviso on the ages presented)
func (e *engine) heldLive() bool {
	if e.curGen < 0 {
		return false
	}
	y := e.cs[e.creator[e.curGen]]
	return y.alive && y.eng == e.curGen
}

// another API thread is inside a call on the lock object of c
func (e *engine) objBusy(c int) bool {
	for d, y := range e.cs {
		if d != c && y.obj == e.cs[c].obj && y.inCall {
			return true
		}
	}
	return false
}

func (e *engine) shared(c int) bool {
	for d, y := range e.cs {
		if d != c && y.obj == e.cs[c].obj {
			return true
		}
	}
	return false
}

func (e *engine) fail(sig, what string) {
	e.out.Fails = append(e.out.Fails, fail{sig, what})
}

// available items in the present state (for the online generator)
func (e *engine) avail() (calls, steps, hbs, kills []Item) {
	for c, x := range e.cs {
		if !x.alive {
			continue
		}
		if x.inCall {
			steps = append(steps, Item{K: "step", C: c})
		} else if e.objBusy(c) {
			// one API thread at a time inside a call on one lock object
		} else if x.holds {
			calls = append(calls, Item{K: "call", C: c, Api: "Unlock"})
			if !e.shared(c) {
				kills = append(kills, Item{K: "kill", C: c})
			}
		} else {
			for _, a := range apis[:3] {
				calls = append(calls, Item{K: "call", C: c, Api: a})
			}
			if e.sc.Short && x.nShort < 2 {
				calls = append(calls, Item{K: "call", C: c, Api: shortAPI})
			}
		}
		if x.inCall && x.api == shortAPI && !x.expired {
			calls = append(calls, Item{K: "deadline", C: c})
		}
		for k, pc := range x.hbPC {
			if pc != 2 {
				hbs = append(hbs, Item{K: "step", C: c, HB: k + 1})
			}
		}
	}
	return
}

func (e *engine) returned(c int) func() bool {
	x := e.cs[c]
	return func() bool { return x.ret.Load() != nil }
}

// exec runs one item; returns false if the scenario cannot go on (stuck / invalid).
func (e *engine) exec(it Item) bool {
	if it.C < 0 || it.C >= len(e.cs) {
		e.out.Invalid = "no such contender"
		return false
	}
	x := e.cs[it.C]
	switch it.K {
	case "kill":
		if !x.alive || !x.holds || x.inCall || e.shared(it.C) {
			e.out.Invalid = "kill not enabled"
			return false
		}
		x.alive = false
		e.out.Items = append(e.out.Items, it)
		e.out.Obs = append(e.out.Obs, nil)
		e.out.Kinds["kill"]++
		return true
	case "call":
		if !x.alive || x.inCall || (it.Api == "Unlock") != x.holds || e.objBusy(it.C) {
			e.out.Invalid = "call not enabled"
			return false
		}
		x.wrap.SetActor(it.C)
		if it.Api == "Unlock" {
			// the live heartbeat writer must be at its OpenFile (not asleep) when the cancel store is cancelled, so that
			// what it does afterwards is determined by the schedule and not by the wall clock
			if k := len(x.hbPC) - 1; k >= 0 && x.hbPC[k] != 2 && !x.hbCanc[k] {
				if p, _ := e.s.WaitPending(lsched.Actor{C: it.C, HB: k}, nil, waitT); p == nil {
					e.out.Stuck = "heartbeat writer did not come back"
					return false
				}
			}
			e.cancelObj(x.obj)
			x.holds = false
			x.relGen, x.rmOwn = x.eng, false
			x.awaitCheck, x.checkSeen, x.checkSaw, x.checkFault = false, false, false, false
			x.eng = -1
		}
		x.judged = -2
		x.callStart, x.expired = time.Now(), false
		if it.Api == shortAPI {
			x.nShort++
		}
		x.win = it.Api == "Unlock"
		x.inCall, x.api, x.mkThis = true, it.Api, false
		x.ret.Store(nil)
		x.done = make(chan struct{})
		e.wg.Add(1)
		go func(api string, done chan struct{}) {
			defer e.wg.Done()
			var err error
			switch api {
			case "TryLock":
				err = x.lock.TryLock(e.ctx)
			case "Lock":
				err = x.lock.Lock(e.ctx)
			case "LockWithTimeout":
				err = x.lock.LockWithTimeout(e.ctx, time.Hour)
			case shortAPI:
				err = x.lock.LockWithTimeout(e.ctx, shortT)
			default:
				err = x.lock.Unlock(e.ctx)
			}
			rc := retCode(err)
			if api == "Unlock" && rc != 1 {
				rc = 5 // Unlock: success or failure (the joined retry errors contain every kind)
			}
			x.ret.Store(&rc)
			close(done)
			e.s.Notify()
		}(it.Api, x.done)
		if p, ok := e.s.WaitPending(lsched.Main(it.C), e.returned(it.C), waitT); p == nil && !ok {
			e.out.Stuck = "call did not reach a backend operation"
			return false
		}
		e.out.Items = append(e.out.Items, it)
		e.out.Obs = append(e.out.Obs, nil)
		e.out.Kinds["call:"+it.Api]++
		if x.ret.Load() != nil { // returned without any backend operation (not expected)
			e.finishCall(it.C, nil)
		}
		return true
	case "probe":
		if k := it.HB - 1; k >= 0 && k < len(x.hbPC) {
			e.hbGone(it.C, k)
		}
		return true
	case "deadline":
		if !x.inCall || x.api != shortAPI {
			e.out.Invalid = "deadline not enabled"
			return false
		}
		if x.expired {
			return true // already inserted by the engine
		}
		return e.deadline(it.C)
	case "until", "finish":
		skip := it.Skip
		for n := 0; n < 1500; n++ {
			if !x.inCall {
				if it.K == "until" {
					e.out.Invalid = "call returned before reaching " + it.Op + " " + it.Class
					return false
				}
				return true
			}
			p, _ := e.s.WaitPending(lsched.Main(it.C), e.returned(it.C), waitT)
			if p == nil {
				e.out.Stuck = "API thread neither pending nor returned"
				return false
			}
			if it.K == "until" && p.Op == it.Op && p.Class == it.Class {
				if skip == 0 {
					return true
				}
				skip--
			}
			if !e.stepMain(Item{K: "step", C: it.C, Stale: it.Stale && !e.liveOwner() && e.curGen >= 0, Age: it.Age, SilentAge: it.SilentAge, Fault: it.Fault, FaultOp: it.FaultOp}) {
				return false
			}
		}
		for _, f := range e.sc.Faults {
			if f.Persist {
				// a persistent backend fault legitimately keeps a call retrying for ever (every Rm fails, the override recurses)
				e.out.Invalid = "macro did not end under a persistent fault"
				return false
			}
		}
		e.out.Stuck = "macro did not end"
		return false
	case "step":
		if !x.alive {
			e.out.Invalid = "step of a dead contender"
			return false
		}
		if it.HB > 0 {
			return e.stepHb(it)
		}
		return e.stepMain(it)
	}
	e.out.Invalid = "unknown item"
	return false
}

// hbGone is the oracle "heartbeat-writer-gone-while-holder-alive": writer k of contender c belongs to a live holder, its
// lock object has not been unlocked, the contexts the harness passed are live — so it must come back to the scheduler
// within a period (50 ms); it is given 30 periods.
func (e *engine) hbGone(c, k int) bool {
	x := e.cs[c]
	// (holder_heartbeat_keeps_running: in histories WITHOUT a destroyed lock.  After a destruction — the known findings —
	// a user of the same lock object can legitimately judge the left-over directory stale, and its ReleaseIfStale -> Unlock
	// cancels the store of the object, the destroyed holder's writer included.)
	if !(x.holds && x.alive && !x.inCall && k == len(x.hbPC)-1 && x.hbPC[k] != 2 && !x.hbCanc[k] && !e.out.Bad) {
		return false
	}
	if p, _ := e.s.WaitPending(lsched.Actor{C: c, HB: k}, nil, 1500*time.Millisecond); p != nil {
		return false
	}
	x.silent = true
	x.hbPC[k] = 2
	// recorded, so that a replay looks for the writer at the same point of the schedule (not an item of the model)
	e.out.Items = append(e.out.Items, Item{K: "probe", C: c, HB: k + 1})
	e.out.Obs = append(e.out.Obs, nil)
	e.fail("heartbeat-writer-gone-while-holder-alive", fmt.Sprintf("the heartbeat writer of contender %d has stopped although the contender holds the lock, is alive and no Unlock was issued on its lock object", c))
	return true
}

func (e *engine) stepHb(it Item) bool {
	x := e.cs[it.C]
	k := it.HB - 1
	if k < len(x.hbPC) && x.hbPC[k] == 2 && x.silent {
		return true // the writer was found gone (reported): its remaining turns are void
	}
	if k >= len(x.hbPC) || x.hbPC[k] == 2 {
		e.out.Invalid = "heartbeat step not enabled"
		return false
	}
	a := lsched.Actor{C: it.C, HB: k}
	if e.hbGone(it.C, k) {
		return true // reported by the oracle; the schedule goes on without this writer
	}
	wait := waitT
	if x.hbCanc[k] || e.out.Bad {
		wait = 400 * time.Millisecond // a cancelled writer that was asleep when its store was cancelled just ends
	}
	p, _ := e.s.WaitPending(a, nil, wait)
	if p == nil {
		if x.hbCanc[k] || e.out.Bad {
			x.hbPC[k] = 2
			return true
		}
		e.out.Stuck = "heartbeat writer not pending"
		return false
	}
	res := e.s.Release(p, 0)
	o := &StepObs{Op: opCode(p.Op, p.Class, p.N), Res: resCode(res)}
	it.Stale = false
	e.out.Items = append(e.out.Items, it)
	e.out.Obs = append(e.out.Obs, o)
	e.out.Kinds["hb:"+p.Op+":"+res]++
	if p.Op == "OpenFile" {
		x.hbPC[k] = 1
		if q, _ := e.s.WaitPending(a, nil, waitT); q == nil {
			e.out.Stuck = "heartbeat writer did not reach Chtimes"
			return false
		}
	} else {
		if x.hbCanc[k] {
			x.hbPC[k] = 2
			for len(x.hbDoneAt) <= k {
				x.hbDoneAt = append(x.hbDoneAt, time.Time{})
			}
			x.hbDoneAt[k] = time.Now()
		} else {
			x.hbPC[k] = 0 // asleep for one period, then at OpenFile again
		}
	}
	return true
}

// deadline lets the deadline of c's LockWithTimeoutShort call fire: the API thread is blocked at a backend operation, the
// engine sleeps until the real deadline has passed; from then on the call is an expired one (model: LockWTX).
func (e *engine) deadline(c int) bool {
	x := e.cs[c]
	if d := shortT + 40*time.Millisecond - time.Since(x.callStart); d > 0 {
		time.Sleep(d)
	}
	x.expired = true
	e.out.Items = append(e.out.Items, Item{K: "deadline", C: c})
	e.out.Obs = append(e.out.Obs, nil)
	e.out.Kinds["deadline"]++
	return true
}

func (e *engine) stepMain(it Item) bool {
	c := it.C
	x := e.cs[c]
	if !x.inCall {
		e.out.Invalid = "step outside a call"
		return false
	}
	if x.api == shortAPI && !x.expired && time.Since(x.callStart) > shortT-150*time.Millisecond {
		// the schedule has not fired the deadline yet and the real one is approaching (or has passed while the thread was
		// blocked at its backend operation, where nothing can be observed): fire it now, so that what the call does never
		// depends on the wall clock
		if !e.deadline(c) {
			return false
		}
	}
	p, _ := e.s.WaitPending(lsched.Main(c), e.returned(c), waitT)
	if p == nil {
		e.out.Stuck = "API thread neither pending nor returned"
		return false
	}
	// ---- backend fault on a read-side operation?
	kind := ""
	if isReadOp(p.Op) {
		if it.Fault != "" && (it.FaultOp == "" || it.FaultOp == p.Op) {
			kind = it.Fault
		}
		for _, f := range e.sc.Faults {
			if f.C == c && ((!f.Persist && f.N == x.nRead) || (f.Persist && (f.Op == "" || f.Op == p.Op))) {
				kind = f.Kind
			}
		}
		x.nRead++
	}
	it.Fault, it.FaultOp = kind, ""
	age := 0
	if p.Op == "Stat" && kind == "" {
		if it.SilentAge > 0 && e.curGen >= 0 && e.cs[e.creator[e.curGen]].silent {
			it.Age = it.SilentAge
		}
		it.SilentAge = 0
		age = it.Age
		if age == 0 && it.Stale {
			age = 3600000
		}
	}
	if age > staleMs && e.liveOwner() {
		// "as long as the holder's heartbeat keeps running": a live holder's time stamps are never older than two periods
		e.out.Invalid = "stale age on a live holder"
		age = 0
	}
	stale := age > staleMs
	it.Stale, it.Age = stale, age
	if x.api != "Unlock" && p.Op == "Lstat" && p.Class == "dir" {
		// first operation of the Rm of an Unlock issued from inside an acquire (ReleaseIfStale): its store was cancelled
		e.cancelObj(x.obj)
	}
	res := e.s.ReleaseFault(p, time.Duration(age)*time.Millisecond, faultErr[kind])
	if p.Op == "Stat" && p.Class == "dir" && x.api == "Unlock" && x.awaitCheck {
		// the first look at the lock path after a removal: the existence re-check of Unlock (lockfile.go:208)
		x.awaitCheck, x.checkSeen, x.checkSaw, x.checkFault = false, true, res == "isdir", kind != ""
	}
	if stale && (res == "isdir" || res == "isfile") {
		x.judged = e.curGen
		x.win = true
	}
	if p.Op == "Mkdir" {
		x.win = false
	}
	o := &StepObs{Op: opCode(p.Op, p.Class, p.N), Res: resCode(res)}
	switch kind {
	case "":
	case "enoent":
		o.Fl = 2
		e.out.Kinds["fault:"+kind+":"+p.Op]++
	default:
		o.Fl = 1
		e.out.Kinds["fault:"+kind+":"+p.Op]++
	}
	e.out.Kinds[fmt.Sprintf("%s:%s:%s:%s", x.api, p.Op, p.Class, res)]++
	// ---- the harness's own ghost + oracle ----
	switch {
	case p.Op == "Mkdir" && res == "ok":
		e.curGen = e.nextGen
		e.nextGen++
		e.creator[e.curGen] = c
		x.eng = e.curGen
		x.mkThis = true
	case p.Op == "Remove" && p.Class == "dir" && res == "ok":
		if e.heldLive() {
			y := e.creator[e.curGen]
			e.out.Bad = true
			sig := ""
			switch {
			case x.api == "Unlock" && y != c && x.rmOwn && x.checkSeen && x.checkFault:
				// the re-check after the removal was answered by an injected fault while the directory was ABSENT, Unlock
				// retried all the same, and the successor's Mkdir came after the check: not K1 (where the check told the truth)
				sig = "live-lock-removed:after-faulty-existence-check"
				e.fail(sig, fmt.Sprintf("contender %d, inside Unlock, could not examine the lock path after removing its directory (injected fault), retried, and removed the directory contender %d had created after that check and still holds", c, y))
			case x.api == "Unlock" && y != c && x.rmOwn && !(x.checkSeen && x.checkSaw):
				sig = "live-lock-removed:retry-after-absent-existence-check"
				e.fail(sig, fmt.Sprintf("contender %d, inside Unlock, retried although its existence re-check had found nothing, and removed the directory contender %d holds", c, y))
			case x.api == "Unlock" && y != c && x.rmOwn:
				// Unlock had removed its own directory; its existence re-check saw the successor's; the retry removed it
				sig = "K1-unlock-retry-destroys-successor-lock"
				e.fail(sig, fmt.Sprintf("contender %d, inside Unlock, after removing its own lock directory, removed the one contender %d had created afterwards and still holds", c, y))
			case x.api == "Unlock" && y != c && e.curGen != x.relGen:
				// a slow Unlock (heartbeat already cancelled) whose lock was taken over as stale meanwhile removes the taker's lock
				sig = "K1b-slow-unlock-destroys-takeover-lock"
				e.fail(sig, fmt.Sprintf("contender %d, inside Unlock, removed the lock directory of contender %d, who had taken the lock over (judged stale) while the Unlock was in progress", c, y))
			case x.api != "Unlock" && y != c && x.judged >= 0 && x.judged != e.curGen && !x.expired:
				sig = "K2-stale-takeover-destroys-fresh-lock"
				e.fail(sig, fmt.Sprintf("contender %d, releasing generation %d which it had judged stale, removed the fresh lock directory (generation %d) of contender %d", c, x.judged, e.curGen, y))
			default:
				sig = "live-lock-removed"
				e.fail(sig, fmt.Sprintf("contender %d (in %s) removed the lock directory that contender %d holds, alive, without any of the known race patterns", c, x.api, y))
			}
			e.badGen[e.curGen] = sig
		}
		if x.api == "Unlock" && e.curGen == x.relGen {
			x.rmOwn = true
		}
		if x.api == "Unlock" {
			x.awaitCheck = true
		}
		e.curGen = -1
	}
	e.out.Items = append(e.out.Items, it)
	e.out.Obs = append(e.out.Obs, o)
	q, ok := e.s.WaitPending(lsched.Main(c), e.returned(c), waitT)
	if x.api == shortAPI && !x.expired && time.Since(x.callStart) > shortT-5*time.Millisecond {
		e.out.Unreliable = "the real deadline came too close during a step (stall of > 145 ms)"
	}
	if p.Op == "Stat" && !stale && !p.StatAt.IsZero() {
		// the library computes time.Since(ModTime) a little later than the wrapper's "now": if that delay could have
		// carried a fresh age over the threshold the outcome depended on the wall clock
		if time.Duration(age)*time.Millisecond+time.Since(p.StatAt) >= (staleMs+1)*time.Millisecond {
			e.out.Unreliable = fmt.Sprintf("age %d ms + scheduling delay reached the staleness threshold", age)
		}
	}
	if q == nil && !ok {
		e.out.Stuck = "API thread lost after " + p.Op
		return false
	}
	if q == nil {
		return e.finishCall(c, o)
	}
	return true
}

func (e *engine) finishCall(c int, o *StepObs) bool {
	x := e.cs[c]
	<-x.done
	rc := *x.ret.Load()
	if o != nil {
		o.Ret = rc
	}
	x.inCall = false
	x.win = false
	if (x.api == "LockWithTimeout" || x.api == shortAPI) && rc == 4 && x.judged >= 0 {
		// LockWithTimeout's own override path: ReleaseIfStale -> Unlock cancelled the store of the object (and with it the
		// action's context: "cancelled") without any backend operation
		e.cancelObj(x.obj)
	}
	e.out.Kinds[fmt.Sprintf("ret:%s:%d", x.api, rc)]++
	if x.api == "Unlock" {
		if rc == 1 {
			e.out.Rel++
		}
		return true
	}
	if rc != 1 {
		return true
	}
	e.out.Acq++
	if !x.mkThis {
		e.fail("acquire-success-without-mkdir", fmt.Sprintf("contender %d: %s returned success although no Mkdir of the call succeeded", c, x.api))
	}
	x.holds = true
	for d, y := range e.cs {
		if d != c && y.holds && y.alive {
			cause := "unexplained"
			// one of the two directories must have been destroyed while its creator held it
			if sg, ok := e.badGen[y.eng]; ok {
				cause = "after-" + strings.SplitN(sg, "-", 2)[0]
			} else if sg, ok := e.badGen[x.eng]; ok {
				cause = "after-" + strings.SplitN(sg, "-", 2)[0]
			}
			e.fail("overlap:"+cause, fmt.Sprintf("contender %d acquired the lock while contender %d holds it, alive, and has not begun to release", c, d))
		}
	}
	// the new heartbeat writer arrives at its first OpenFile
	k := len(x.hbPC)
	x.hbPC = append(x.hbPC, 0)
	x.hbCanc = append(x.hbCanc, false)
	if !x.mkThis {
		x.hbPC[k] = 2 // success was reported without an acquisition: no writer was started
		return true
	}
	if p, _ := e.s.WaitPending(lsched.Actor{C: c, HB: k}, nil, 4*time.Second); p == nil {
		e.out.Stuck = "heartbeat writer did not start"
		return false
	}
	return true
}

func (e *engine) finish() {
	for _, x := range e.cs {
		e.out.Reads = append(e.out.Reads, x.nRead)
	}
	for _, x := range e.cs {
		if x.holds && x.alive {
			e.out.Holders++
		}
	}
	// the heartbeat writer of every live holder must still be running
	if e.out.Stuck == "" && e.out.Invalid == "" {
		for c, x := range e.cs {
			if k := len(x.hbPC) - 1; k >= 0 {
				e.hbGone(c, k)
			}
		}
	}
	// a heartbeat writer that was cancelled must not come back after its last Chtimes (one period = 50 ms)
	var latest time.Time
	for _, x := range e.cs {
		for _, t := range x.hbDoneAt {
			if t.After(latest) {
				latest = t
			}
		}
	}
	if !latest.IsZero() && e.out.Stuck == "" {
		if d := 150*time.Millisecond - time.Since(latest); d > 0 {
			time.Sleep(d)
		}
		for c, x := range e.cs {
			for k, pc := range x.hbPC {
				if pc == 2 && x.alive && e.s.Peek(lsched.Actor{C: c, HB: k}) != nil {
					e.out.Zombies++
				}
			}
		}
	}
	if n := atomic.LoadInt64(&e.s.Panics); n > 0 {
		e.out.Kinds["backend-panic-converted"] += int(n)
	}
	e.cancel()
	e.s.Free()
	ch := make(chan struct{})
	go func() { e.wg.Wait(); close(ch) }()
	select {
	case <-ch:
	case <-time.After(waitT):
		if e.out.Stuck == "" {
			e.out.Stuck = "API calls did not return after cancellation"
		}
	}
	if e.root != "" {
		time.Sleep(2 * time.Millisecond)
		_ = os.RemoveAll(e.root)
	}
}

// ---------------- online generator ----------------

func (e *engine) generate(rng *rand.Rand, max int) {
	cur := -1 // API thread being run
	for n := 0; n < max; n++ {
		calls, steps, hbs, kills := e.avail()
		var it Item
		cont := false
		if cur >= 0 && e.cs[cur].inCall && e.cs[cur].alive && rng.Intn(100) < 93 {
			it = Item{K: "step", C: cur}
			cont = true
		}
		if !cont {
			type w struct {
				it Item
				w  int
			}
			var ws []w
			for _, i := range steps {
				ws = append(ws, w{i, 8})
			}
			for _, i := range calls {
				wt := 3
				if i.Api == "Unlock" {
					wt = 6
				}
				ws = append(ws, w{i, wt})
			}
			for _, i := range hbs {
				ws = append(ws, w{i, 2})
			}
			for _, i := range kills {
				ws = append(ws, w{i, 1})
			}
			if len(ws) == 0 {
				return
			}
			tot := 0
			for _, x := range ws {
				tot += x.w
			}
			r := rng.Intn(tot)
			for _, x := range ws {
				if r < x.w {
					it = x.it
					break
				}
				r -= x.w
			}
		}
		if e.sc.Atomic && it.K == "step" && it.HB == 0 {
			// atomic-release restriction: a Mkdir that would succeed is not scheduled while another contender's window is open
			if p := e.s.Peek(lsched.Main(it.C)); p != nil && p.Op == "Mkdir" && e.curGen < 0 {
				for d, y := range e.cs {
					if d == it.C || !y.inCall || !y.win || !y.alive {
						continue
					}
					// a contender whose next operation is its own Mkdir has finished its release: its window is closed
					if q := e.s.Peek(lsched.Main(d)); q != nil && q.Op != "Mkdir" {
						it = Item{K: "step", C: d} // let the releaser go on instead
						break
					}
				}
			}
		}
		if it.K == "step" && it.HB == 0 && e.sc.FaultPm > 0 {
			if p := e.s.Peek(lsched.Main(it.C)); p != nil && isReadOp(p.Op) && rng.Intn(1000) < e.sc.FaultPm {
				it.Fault = []string{"eacces", "eperm", "eio", "enoent"}[rng.Intn(4)]
			}
		}
		if it.K == "step" && it.HB == 0 {
			cur = it.C
			if p := e.s.Peek(lsched.Main(it.C)); p != nil && p.Op == "Stat" && e.curGen >= 0 {
				// logical age of the time stamp: a live holder's is at most two periods old; around every threshold the
				// code could use (99 and 100 ms only in the deterministic scenarios: they are the most clock-sensitive)
				fresh := []int{0, 0, 0, 5, 10, 11, 19, 20, 21, 30, 49, 50, 51, 75}
				old := []int{101, 110, 150, 199, 200, 201, 500, 3600000, 3600000, 3600000}
				if e.liveOwner() || rng.Intn(100) < 35 {
					it.Age = fresh[rng.Intn(len(fresh))]
				} else {
					it.Age = old[rng.Intn(len(old))]
				}
			}
		} else if it.K == "call" {
			cur = it.C
		}
		if !e.exec(it) {
			return
		}
	}
}

// ---------------- systematic, preemption-bounded schedules ----------------

func (e *engine) systematic(sp *SysSpec, max int) {
	for _, it := range sp.Prefix {
		if !e.exec(it) {
			return
		}
	}
	n := len(e.cs)
	pos := make([]int, n)
	afterMut := make([]bool, n) // the thread's previous operation was a Mkdir / Remove
	resumed := make([]bool, n)  // the thread has just been switched to: its pending operation is not a new point
	polls := make([]int, n)
	e.out.Alts = map[int][]int{}
	hasWork := func(c int) bool {
		x := e.cs[c]
		if !x.alive || c >= len(sp.Scripts) {
			return false
		}
		if x.inCall {
			return true
		}
		for pos[c] < len(sp.Scripts[c]) {
			if (sp.Scripts[c][pos[c]] == "Unlock") == x.holds {
				return true
			}
			pos[c]++ // an Unlock without holding / an acquire while holding is skipped
		}
		return false
	}
	others := func(c int) (out []int) {
		for d := 0; d < n; d++ {
			if d != c && hasWork(d) {
				out = append(out, d)
			}
		}
		return
	}
	cur := -1
	for len(e.out.Items) < max {
		if cur < 0 || !hasWork(cur) {
			cur = -1
			for d := 0; d < n; d++ {
				if hasWork(d) {
					cur = d
					break
				}
			}
			if cur < 0 {
				return
			}
			resumed[cur] = true
		}
		x := e.cs[cur]
		if !x.inCall {
			api := sp.Scripts[cur][pos[cur]]
			pos[cur]++
			polls[cur] = 0
			if !e.exec(Item{K: "call", C: cur, Api: api}) {
				return
			}
			continue
		}
		p := e.s.Peek(lsched.Main(cur))
		if p == nil {
			return
		}
		mut := p.Op == "Mkdir" || p.Op == "Remove"
		// preemption points: before a mutating operation, before the operation that follows one, and before every
		// observation of the lock directory / heartbeat file that decides something (Stat, Readdirnames)
		if (mut || afterMut[cur] || p.Op == "Stat" || p.Op == "Readdir") && !resumed[cur] {
			idx := e.out.Points
			e.out.Points++
			alts := others(cur)
			e.out.Alts[idx] = alts
			if t, ok := sp.Dec[idx]; ok {
				for _, a := range alts {
					if a == t {
						cur = t
						resumed[cur] = true
						break
					}
				}
				if cur == t {
					continue
				}
			}
		}
		resumed[cur] = false
		it := Item{K: "step", C: cur}
		if p.Op == "Stat" && e.curGen >= 0 && !e.liveOwner() {
			it.Stale = true // the most permissive sound oracle: whatever is not a live holder's is stale
		}
		wasMkdirOnExisting := p.Op == "Mkdir" && e.curGen >= 0
		if !e.exec(it) {
			return
		}
		afterMut[cur] = mut
		if wasMkdirOnExisting && e.cs[cur].inCall && (x.api == "Lock" || x.api == "LockWithTimeout") {
			// a blocking acquire that keeps polling yields to the others (not a counted preemption)
			polls[cur]++
			if polls[cur] >= 2 {
				o := others(cur)
				if len(o) == 0 {
					if polls[cur] >= 4 {
						return
					}
				} else {
					polls[cur] = 0
					cur = o[0]
					resumed[cur] = true
				}
			}
		}
	}
}

// enumerate runs every schedule of the configuration with at most depth preemptions (breadth first, capped).
func enumerate(tag string, ovr []bool, sp SysSpec, depth, capRuns int, runRoot string, each func(*job)) int {
	type node struct {
		dec  map[int]int
		last int
	}
	level := []node{{dec: map[int]int{}, last: -1}}
	total := 0
	for d := 0; d <= depth && len(level) > 0 && total < capRuns; d++ {
		if total+len(level) > capRuns {
			level = level[:capRuns-total]
		}
		jobs := make([]*job, len(level))
		for i, nd := range level {
			spec := sp
			spec.Dec = nd.dec
			jobs[i] = &job{sc: &Scenario{Tag: fmt.Sprintf("%s:d%d", tag, d), Backend: "os", Ovr: ovr, Sys: &spec}}
		}
		runAll(jobs, runRoot, 24, time.Hour)
		total += len(jobs)
		var next []node
		for i, j := range jobs {
			each(j)
			if d == depth || j.out == nil {
				continue
			}
			for pt := level[i].last + 1; pt < j.out.Points; pt++ {
				for _, t := range j.out.Alts[pt] {
					dec := map[int]int{pt: t}
					for k, v := range level[i].dec {
						dec[k] = v
					}
					next = append(next, node{dec: dec, last: pt})
				}
			}
		}
		level = next
	}
	return total
}

func runScenario(sc *Scenario, runRoot string) *Outcome {
	e, err := newEngine(sc, runRoot)
	if err != nil {
		return &Outcome{Stuck: "setup: " + err.Error(), Kinds: map[string]int{}}
	}
	if sc.Sys != nil {
		e.systematic(sc.Sys, 900)
	} else if sc.Seed > 0 {
		e.generate(rand.New(rand.NewSource(sc.Seed)), sc.Max)
	} else {
		for _, it := range sc.Items {
			if !e.exec(it) {
				break
			}
		}
	}
	e.finish()
	return e.out
}

// ---------------- Coq term ----------------

func coqCase(sc *Scenario, o *Outcome) string {
	var b strings.Builder
	b.WriteString("(mkCase [")
	for i, v := range sc.Ovr {
		if i > 0 {
			b.WriteString(";")
		}
		b.WriteString(h.Bool(v))
	}
	b.WriteString("]%list [")
	for i := range sc.Ovr {
		if i > 0 {
			b.WriteString(";")
		}
		obj := i
		if i < len(sc.Objs) && sc.Objs[i] >= 0 && sc.Objs[i] < i {
			obj = sc.Objs[i]
		}
		fmt.Fprintf(&b, "%d", obj)
	}
	b.WriteString("]%list [")
	first := true
	for i, it := range o.Items {
		if it.K == "probe" {
			continue // the oracle's look for a heartbeat writer: not an event of the model
		}
		if !first {
			b.WriteString(";")
		}
		first = false
		switch it.K {
		case "call":
			fmt.Fprintf(&b, "C_ %d %d", it.C, apiCode(it.Api))
		case "kill":
			fmt.Fprintf(&b, "K_ %d", it.C)
		case "deadline":
			fmt.Fprintf(&b, "D_ %d", it.C)
		default:
			st := it.Age // logical age in ms (capped: the model only compares it with small thresholds)
			if st > 1000 {
				st = 1000
			}
			ob := o.Obs[i]
			fmt.Fprintf(&b, "S_ %d %d %d %d %d %d %d", it.C, it.HB, st, ob.Fl, ob.Op, ob.Res, ob.Ret)
		}
	}
	fmt.Fprintf(&b, "]%%list %d %s %d %s)", o.Holders, h.Bool(o.Bad), o.Zombies, h.Bool(sc.Atomic))
	s := b.String()
	// numbers are nat: the case files open Z_scope
	return "(" + s + ")%nat"
}

// ---------------- deterministic scenarios ----------------

func call(c int, api string) Item { return Item{K: "call", C: c, Api: api} }
func step(c int) Item             { return Item{K: "step", C: c} }
func stale(c int) Item            { return Item{K: "step", C: c, Stale: true} }
func hb(c, k int) Item            { return Item{K: "step", C: c, HB: k + 1} }
func kill(c int) Item             { return Item{K: "kill", C: c} }
func rep(it Item, n int) []Item {
	out := make([]Item, n)
	for i := range out {
		out[i] = it
	}
	return out
}
func cat(xs ...[]Item) []Item {
	var out []Item
	for _, x := range xs {
		out = append(out, x...)
	}
	return out
}
func one(xs ...Item) []Item { return xs }
func until(c int, op, class string, st bool) Item {
	return Item{K: "until", C: c, Op: op, Class: class, Stale: st}
}
func untilN(c int, op, class string, skip int, st bool) Item {
	return Item{K: "until", C: c, Op: op, Class: class, Skip: skip, Stale: st}
}
func fin(c int, st bool) Item { return Item{K: "finish", C: c, Stale: st} }
func finAge(c, age int) Item  { return Item{K: "finish", C: c, Age: age} }
func deadline(c int) Item     { return Item{K: "deadline", C: c} }

// K1 (DESIGN D19): A holds and unlocks; after A's rmdir, B acquires; A's post-removal existence check sees B's
// directory, A retries Rm and destroys B's lock; C acquires while B holds.
func scK1(backend string) *Scenario {
	return &Scenario{Tag: "K1", Backend: backend, Ovr: []bool{false, false, false}, Items: one(
		call(0, "TryLock"), fin(0, false),
		call(0, "Unlock"), until(0, "Remove", "dir", false), step(0), // A is now at the Stat of Unlock's Exists
		call(1, "TryLock"), fin(1, false), // B holds
		fin(0, false), // A: "still exists" -> retry -> removes B's directory
		call(2, "TryLock"), fin(2, false), // C holds as well
	)}
}

// K2 (DESIGN D20): A died holding; B and C (override) both judge A's lock stale; B releases it and re-acquires;
// C's pending rmdir removes B's fresh directory; C acquires as well.
func scK2(backend string) *Scenario {
	return &Scenario{Tag: "K2", Backend: backend, Ovr: []bool{false, true, true}, Items: one(
		call(0, "TryLock"), fin(0, false), kill(0),
		call(1, "TryLock"), until(1, "Remove", "dir", true),
		call(2, "TryLock"), until(2, "Remove", "dir", true),
		fin(1, false), // B removes A's directory and acquires
		step(2),       // C removes B's directory
		fin(2, false), // C acquires
	)}
}

// K1b: A holds and begins to unlock (heartbeat cancelled); before A's Rm has removed anything B (override) judges A's
// lock stale, releases it and acquires; A's Rm then removes B's directory; C acquires while B holds.
func scK1b(backend string) *Scenario {
	return &Scenario{Tag: "K1b", Backend: backend, Ovr: []bool{false, true, false}, Items: one(
		call(0, "TryLock"), fin(0, false),
		call(0, "Unlock"), until(0, "Remove", "dir", false), // A is about to remove its own directory
		call(1, "TryLock"), fin(1, true), // B takes the (released, silent) lock over
		fin(0, false), // A removes B's directory
		call(2, "TryLock"), fin(2, false),
	)}
}

// Base schedules for the fault campaign (macros only, so that they survive the divergence a fault causes).
func faultBases(quick bool) []*Scenario {
	fff := []bool{false, false, false}
	bases := []*Scenario{
		// release, THEN acquire: A's Unlock runs up to and including its existence re-check before B acquires; A is then
		// run to the end (in the unmodified code it has already returned), C tries, B releases, C acquires
		{Tag: "faults:release-then-acquire", Backend: "os", Ovr: fff, Items: one(
			call(0, "TryLock"), fin(0, false), hb(0, 0), hb(0, 0),
			call(0, "Unlock"), until(0, "Remove", "dir", false), step(0), step(0),
			call(1, "TryLock"), fin(1, false), fin(0, false), call(2, "TryLock"), fin(2, false),
			call(1, "Unlock"), fin(1, false), call(2, "TryLock"), fin(2, false))},
		// a dead holder, an overrider takes over, a third contender tries
		{Tag: "faults:override", Backend: "os", Ovr: []bool{false, true, false}, Items: one(
			call(0, "TryLock"), fin(0, false), hb(0, 0), hb(0, 0), kill(0),
			call(1, "TryLock"), fin(1, true), call(2, "TryLock"), fin(2, false), call(1, "Unlock"), fin(1, false),
			call(2, "TryLock"), fin(2, false))},
		// live holder, contender and overrider look at it (fresh ages), holder releases, they acquire in turn
		{Tag: "faults:contended", Backend: "os", Ovr: []bool{false, false, true}, Items: one(
			call(0, "TryLock"), fin(0, false), hb(0, 0), hb(0, 0), call(1, "TryLock"), finAge(1, 30), call(2, "TryLock"), finAge(2, 60),
			call(0, "Unlock"), fin(0, false), call(2, "TryLock"), fin(2, false), call(1, "TryLock"), fin(1, false),
			call(2, "Unlock"), fin(2, false), call(1, "TryLock"), fin(1, false))},
	}
	k1 := scK1("os")
	k1.Tag = "faults:K1"
	bases = append(bases, k1)
	if !quick {
		k2, k1b := scK2("os"), scK1b("os")
		k2.Tag, k1b.Tag = "faults:K2", "faults:K1b"
		bases = append(bases, k2, k1b)
	}
	return bases
}

// faultCampaign: every base schedule with a ONE-OFF fault at every read-side position of every thread (releaser,
// contender, overrider), and with a PERSISTENT fault on each kind of read-side operation of each thread.
func faultCampaign(quick bool, runRoot string) []*job {
	var jobs []*job
	for bi, base := range faultBases(quick) {
		clean := runScenario(base, runRoot)
		kinds := []string{"eacces", "enoent"}
		if bi == 0 || !quick {
			kinds = []string{"eacces", "eperm", "eio", "enoent"}
		}
		for c, n := range clean.Reads {
			for i := 0; i < n; i++ {
				for _, k := range kinds {
					sc := *base
					sc.Tag = fmt.Sprintf("%s:%s@%d.%d", base.Tag, k, c, i)
					sc.Faults = []FaultAt{{C: c, N: i, Kind: k}}
					jobs = append(jobs, &job{sc: &sc})
				}
			}
			if n == 0 {
				continue
			}
			for _, op := range []string{"Stat", "Lstat", "Open", "Readdir"} {
				for _, k := range []string{"eacces", "enoent"} {
					sc := *base
					sc.Tag = fmt.Sprintf("%s:persistent-%s-%s@%d", base.Tag, k, op, c)
					sc.Faults = []FaultAt{{C: c, Kind: k, Persist: true, Op: op}}
					jobs = append(jobs, &job{sc: &sc})
				}
			}
		}
	}
	return jobs
}

func corners() []*Scenario {
	var out []*Scenario
	add := func(tag string, ovr []bool, items ...Item) {
		out = append(out, &Scenario{Tag: tag, Backend: "os", Ovr: ovr, Items: items})
	}
	ff, tt := []bool{false, false}, []bool{true, true}
	for ai, a := range apis[:3] {
		// plain cycle, twice, with a heartbeat in between
		add("cycle:"+a, ff, call(0, a), fin(0, false), hb(0, 0), hb(0, 0), call(0, "Unlock"), fin(0, false),
			call(1, a), fin(1, false), call(1, "Unlock"), fin(1, false), call(0, a), fin(0, false), call(0, "Unlock"), fin(0, false))
		// contended: second contender fails / polls while the first holds, succeeds after the release
		if a == "TryLock" {
			add("contended:"+a, ff, call(0, a), fin(0, false), hb(0, 0), hb(0, 0), call(1, a), fin(1, false),
				call(0, "Unlock"), fin(0, false), call(1, a), fin(1, false))
		} else {
			add("contended:"+a, ff, call(0, "TryLock"), fin(0, false), hb(0, 0), hb(0, 0), call(1, a), untilN(1, "Mkdir", "dir", 2, false),
				call(0, "Unlock"), fin(0, false), fin(1, false), call(1, "Unlock"), fin(1, false))
		}
		// dead holder: without override -> stale-lock error; with override -> taken over (LockWithTimeout: cancelled)
		add("dead-noovr:"+a, ff, call(0, "TryLock"), fin(0, false), kill(0), call(1, a), fin(1, true))
		if a == "LockWithTimeout" {
			// the Unlock inside ReleaseIfStale cancels the action's own context: "cancelled", nothing removed; a TryLock takes over
			add("dead-ovr:"+a, tt, call(0, "TryLock"), fin(0, false), hb(0, 0), hb(0, 0), kill(0), call(1, a), fin(1, true),
				call(1, "TryLock"), fin(1, true), call(1, "Unlock"), fin(1, false))
		} else {
			add("dead-ovr:"+a, tt, call(0, "TryLock"), fin(0, false), hb(0, 0), hb(0, 0), kill(0), call(1, a), fin(1, true),
				call(1, "Unlock"), fin(1, false), call(1, a), fin(1, false))
		}
		_ = ai
	}
	// dead holder whose heartbeat file is judged stale but the second look says fresh (ReleaseIfStale does nothing)
	add("stale-then-fresh", tt, call(0, "TryLock"), fin(0, false), hb(0, 0), hb(0, 0), kill(0),
		call(1, "TryLock"), untilN(1, "Stat", "hb", 0, false), stale(1), fin(1, false))
	// a heartbeat write lands between the releaser's listing and its rmdir: rmdir fails (not empty) / file reappears
	add("hb-reappears", ff, call(0, "TryLock"), fin(0, false), hb(0, 0), hb(0, 0), hb(0, 0), call(0, "Unlock"),
		until(0, "Remove", "hb", false), step(0), hb(0, 0), fin(0, false))
	add("hb-before-rmdir", ff, call(0, "TryLock"), fin(0, false), call(0, "Unlock"),
		until(0, "Remove", "dir", false), hb(0, 0), fin(0, false), hb(0, 0))
	// a cancelled heartbeat writer of the previous holder writes into the successor's directory
	add("old-hb-into-new-dir", ff, call(0, "TryLock"), fin(0, false), call(0, "Unlock"), fin(0, false),
		call(1, "TryLock"), fin(1, false), hb(0, 0), hb(0, 0), hb(1, 0), call(1, "Unlock"), fin(1, false))
	// release interleaved with an acquire that fails at every point before the rmdir
	add("acquire-during-release", ff, call(0, "TryLock"), fin(0, false), hb(0, 0), hb(0, 0), call(0, "Unlock"),
		until(0, "Remove", "hb", false), call(1, "TryLock"), fin(1, false), step(0), call(1, "TryLock"), fin(1, false),
		until(0, "Remove", "dir", false), call(1, "TryLock"), fin(1, false), fin(0, false), call(1, "TryLock"), fin(1, false))
	// two stale-releasers, serialised (A2 respected): exactly one takes over
	add("two-overriders-serial", []bool{false, true, true}, call(0, "TryLock"), fin(0, false), kill(0),
		call(1, "TryLock"), fin(1, true), call(2, "TryLock"), fin(2, false))
	// the non-vacuity example of lock_mutex_under_atomic_release (coq/C01/Witness.v ex_entries): dead holder, override,
	// a poller; no Mkdir of another contender is scheduled inside a release window; each contender holds once
	add("restricted-example", []bool{false, true, true}, call(0, "TryLock"), fin(0, false), hb(0, 0), hb(0, 0), kill(0),
		call(1, "TryLock"), fin(1, true), call(2, "Lock"), untilN(2, "Mkdir", "dir", 1, false), hb(1, 0), hb(1, 0),
		call(1, "Unlock"), fin(1, false), hb(1, 0), hb(1, 0), fin(2, false))
	// Unlock exhausts its 10 attempts: after every removal another contender re-creates the directory before the check
	{
		items := one(call(0, "TryLock"), fin(0, false), call(0, "Unlock"))
		for i := 0; i < 10; i++ {
			items = append(items, until(0, "Remove", "dir", false), step(0))
			if i > 0 {
				items = append(items, call(1, "Unlock"), fin(1, false))
			}
			items = append(items, call(1, "TryLock"), fin(1, false))
		}
		items = append(items, fin(0, false), call(0, "TryLock"), fin(0, false))
		add("unlock-exhausts-retries", ff, items...)
	}
	// the directory the lock lives in is missing: Mkdir fails with something else than "exists": no acquire may succeed
	for _, b := range []string{"os", "mem-skip"} {
		if b == "os" {
			out = append(out, &Scenario{Tag: "missing-parent", Backend: b, Ovr: tt, NoParent: true, Items: one(
				call(0, "TryLock"), fin(0, false), call(0, "Lock"), fin(0, false), call(1, "LockWithTimeout"), fin(1, false))})
		}
	}
	// ---- deadlines: a LockWithTimeout that times out performs no mutating operation on the lock path; the live holder's
	// directory and heartbeat file stay, a third contender still gets "locked"
	fff := []bool{false, false, false}
	for _, ov := range [][]bool{fff, {false, true, true}} {
		add("timeout-live-holder", ov, call(0, "TryLock"), fin(0, false), hb(0, 0), hb(0, 0),
			call(1, shortAPI), untilN(1, "Mkdir", "dir", 1, false), deadline(1), fin(1, false),
			call(2, "TryLock"), fin(2, false), hb(0, 0), hb(0, 0), call(0, "Unlock"), fin(0, false), call(2, "TryLock"), fin(2, false))
		// the holder has not written its first heartbeat yet (empty lock directory)
		add("timeout-live-holder-no-hb-yet", ov, call(0, "Lock"), fin(0, false),
			call(1, shortAPI), step(1), step(1), step(1), deadline(1), fin(1, false), call(2, "TryLock"), fin(2, false))
	}
	add("timeout-before-first-op", fff, call(0, "TryLock"), fin(0, false), call(1, shortAPI), deadline(1), fin(1, false),
		call(2, "Lock"), untilN(2, "Mkdir", "dir", 1, false), call(0, "Unlock"), fin(0, false), fin(2, false))
	// the deadline fires between the Mkdir that succeeds and the return: "timeout" is reported, the directory stays behind
	add("timeout-at-acquire", fff, call(1, shortAPI), step(1), deadline(1), fin(1, false), call(2, "TryLock"), fin(2, false),
		call(0, "LockWithTimeout"), untilN(0, "Mkdir", "dir", 1, false))
	add("timeout-free-lock", fff, call(1, shortAPI), deadline(1), fin(1, false), call(2, "TryLock"), fin(2, false))

	// ---- several API threads share ONE lock object (one cancel store): thread 0 holds, thread 1 uses the same object,
	// thread 2 is an overriding contender with its own object.  Nothing thread 1 does may stop the holder's heartbeat
	// writer (it must keep getting its turns), and thread 2 must keep getting "locked"
	{
		sh := func(tag string, ovr []bool, items ...Item) {
			out = append(out, &Scenario{Tag: tag, Backend: "os", Ovr: ovr, Objs: []int{0, 0, 2}, Items: items})
		}
		over := func(c int) []Item { // the overriding contender looks at the lock: a live holder's time stamps are fresh;
			// if the holder's writer has been found gone they are as old as they would really be
			return one(call(c, "TryLock"), Item{K: "finish", C: c, Age: 40, SilentAge: 150})
		}
		hold := one(call(0, "TryLock"), fin(0, false), hb(0, 0), hb(0, 0))
		beat := one(hb(0, 0), hb(0, 0), hb(0, 0), hb(0, 0))
		for _, ov := range [][]bool{{false, false, true}, {true, true, true}} {
			sh("shared-trylock-fails", ov, cat(hold, one(call(1, "TryLock"), fin(1, false)), beat, over(2),
				one(call(1, "LockWithTimeout"), untilN(1, "Mkdir", "dir", 2, false)), beat, over(2))...)
			sh("shared-second-user-acquires-later", ov, cat(hold, one(call(1, "TryLock"), fin(1, false)), beat,
				one(call(0, "Unlock"), fin(0, false), call(1, "Lock"), fin(1, false), hb(1, 0), hb(1, 0)), over(2),
				one(call(0, "TryLock"), fin(0, false), hb(1, 0), hb(1, 0), call(1, "Unlock"), fin(1, false)), over(2))...)
			sh("shared-lwt-times-out", ov, cat(hold, one(call(1, shortAPI), untilN(1, "Mkdir", "dir", 1, false), deadline(1), fin(1, false)),
				beat, over(2), beat, one(call(1, "TryLock"), fin(1, false)), over(2), one(call(0, "Unlock"), fin(0, false)))...)
			sh("shared-lwt-times-out-before-first-beat", ov, cat(one(call(0, "Lock"), fin(0, false)),
				one(call(1, shortAPI), step(1), step(1), deadline(1), fin(1, false)), beat, over(2), one(call(0, "Unlock"), fin(0, false)), over(2))...)
			sh("shared-lwt-times-out-twice", ov, cat(hold, one(call(1, shortAPI), deadline(1), fin(1, false)), beat,
				one(call(1, shortAPI), untilN(1, "Mkdir", "dir", 2, false), deadline(1), fin(1, false)), beat, over(2))...)
		}
	}

	// ---- logical ages around every threshold the code could use (heartbeat period 50 ms, poll 10 ms; stale iff > 100 ms)
	// live holder parked before its first heartbeat write (empty lock directory) / with its heartbeat file: never stale
	for _, withHb := range []bool{false, true} {
		tag := "live-empty-dir-aged"
		pre := one(call(0, "TryLock"), fin(0, false))
		if withHb {
			tag = "live-hb-file-aged"
			pre = append(pre, hb(0, 0), hb(0, 0))
		}
		items := append([]Item{}, pre...)
		for _, d := range []int{1, 9, 10, 11, 19, 20, 21, 25, 40, 49, 50, 51, 60, 75} {
			items = append(items, call(1, "TryLock"), finAge(1, d))
		}
		items = append(items, call(2, "Lock"), untilN(2, "Mkdir", "dir", 0, false), Item{K: "until", C: 2, Op: "Mkdir", Class: "dir", Skip: 1, Age: 45})
		add(tag, []bool{false, true, true}, items...)
		for _, d := range []int{90, 99, 100} { // the most clock-sensitive ones on their own (discarded when the machine stalls)
			add(fmt.Sprintf("%s:%d", tag, d), []bool{false, true, false}, append(append([]Item{}, pre...),
				call(1, "TryLock"), finAge(1, d), call(2, "TryLock"), finAge(2, d))...)
		}
		// dead holder: stale exactly from 101 ms on
		dtag := "dead-empty-dir-aged"
		if withHb {
			dtag = "dead-hb-file-aged"
		}
		for _, d := range []int{100, 101, 102, 150, 199, 200, 201} {
			add(fmt.Sprintf("%s:%d", dtag, d), []bool{false, true, false}, append(append([]Item{}, pre...), kill(0),
				call(2, "TryLock"), finAge(2, d), // no override: "stale lock" from 101 ms on, "locked" before
				call(1, "TryLock"), finAge(1, d), // override: taken over from 101 ms on
				call(2, "TryLock"), finAge(2, 0))...)
		}
	}
	// four contenders in turn
	add("four", []bool{false, true, false, true}, call(0, "Lock"), fin(0, false), call(1, "TryLock"), fin(1, false),
		call(2, "LockWithTimeout"), untilN(2, "Mkdir", "dir", 1, false), call(0, "Unlock"), fin(0, false), fin(2, false),
		call(3, "TryLock"), fin(3, false), call(2, "Unlock"), fin(2, false), call(3, "Lock"), fin(3, false))
	return out
}

// ---------------- main ----------------

type job struct {
	sc  *Scenario
	out *Outcome
}

func runAll(jobs []*job, runRoot string, par int, budget time.Duration) (skipped int) {
	start := time.Now()
	var wg sync.WaitGroup
	ch := make(chan *job)
	for i := 0; i < par; i++ {
		wg.Add(1)
		go func() {
			defer wg.Done()
			for j := range ch {
				j.out = runScenario(j.sc, runRoot)
			}
		}()
	}
	for _, j := range jobs {
		if time.Since(start) > budget {
			j.out = nil
			skipped++
			continue
		}
		ch <- j
	}
	close(ch)
	wg.Wait()
	return
}

func replayOf(sc *Scenario, o *Outcome) *Scenario {
	return &Scenario{Tag: sc.Tag, Backend: sc.Backend, Ovr: sc.Ovr, Objs: sc.Objs, Items: o.Items, NoParent: sc.NoParent, Atomic: sc.Atomic, Short: sc.Short}
}

func main() {
	r := h.Init("C01")
	r.Imports = []string{"GU.C01.Model", "GU.C01.Gen"}
	r.CheckFn = "check_case_gen" // check_case of the model instantiated with the facts regenerated from lockfile.go
	r.ShardSize = 40
	r.Rule("scheduled scenarios on the real RemoteLockFile (2..4 lock objects for one id/directory, OS directory and in-memory back ends, with/without stale override, dead holders, TryLock/Lock/LockWithTimeout/Unlock cycles), one backend operation per step; " +
		"distinct = distinct sequences of (thread, operation, result class, return kind) with at least two acquire attempts")
	runRoot, err := os.MkdirTemp("", "verif-c01-*")
	if err != nil {
		r.Note("cannot create scratch directory: " + err.Error())
		r.Finish()
		return
	}
	defer os.RemoveAll(runRoot)

	stuckChecked := 0
	process := func(j *job, emitCase bool) {
		sc, o := j.sc, j.out
		r.Eval()
		r.Count("scenario:" + strings.SplitN(sc.Tag, ":", 2)[0] + ":" + sc.Backend)
		r.CountN("steps", len(o.Items))
		keys := make([]string, 0, len(o.Kinds))
		for k := range o.Kinds {
			keys = append(keys, k)
		}
		sort.Strings(keys)
		for _, k := range keys {
			r.CountN("obs:"+k, o.Kinds[k])
		}
		if o.Unreliable != "" {
			// the wall clock interfered (stall of the machine): nothing of this scenario is used
			r.Count("timing-unreliable-discarded")
			r.Note("scenario " + sc.Tag + " discarded: " + o.Unreliable)
			return
		}
		for _, f := range o.Fails {
			if f.Sig == "heartbeat-writer-gone-while-holder-alive" {
				// timing-dependent observation (a goroutine that does not come back): confirmed 3 of 3 before it is reported
				confirmed := true
				for i := 0; i < 2 && confirmed; i++ {
					o2 := runScenario(replayOf(sc, o), runRoot)
					found := false
					for _, g := range o2.Fails {
						found = found || g.Sig == f.Sig
					}
					confirmed = found
				}
				if !confirmed {
					r.Note("scenario " + sc.Tag + ": heartbeat writer seen gone once, not confirmed; scenario discarded")
					r.Count("timing-unreliable-discarded")
					return
				}
				break
			}
		}
		for _, f := range o.Fails {
			sig := f.Sig
			if sc.Atomic {
				// under the atomic-release restriction NOTHING may fail (lock_mutex_under_atomic_release): not a known finding
				sig = "under-atomic-release:" + sig
			}
			r.Fail(sig, f.What, replayOf(sc, o))
		}
		if o.Stuck != "" {
			// confirm 3 of 3 before reporting (a stall of the machine must not raise an alarm); only the first two stuck
			// scenarios are re-run, the others are counted
			r.Count("stuck")
			if stuckChecked < 2 {
				stuckChecked++
				again := 0
				for i := 0; i < 2; i++ {
					if o2 := runScenario(replayOf(sc, o), runRoot); o2.Stuck != "" {
						again++
					}
				}
				if again == 2 {
					r.Fail("scenario-stuck", "scheduled scenario does not make progress: "+o.Stuck, replayOf(sc, o))
				} else {
					r.Note("scenario " + sc.Tag + " stalled once (" + o.Stuck + "), not confirmed")
				}
			}
			return
		}
		if o.Invalid != "" {
			r.Count("invalid-item")
			if !strings.HasPrefix(sc.Tag, "faults:") { // a fault may legitimately cut a schedule short
				r.Note("scenario " + sc.Tag + "/" + sc.Backend + ": " + o.Invalid)
			}
		}
		if emitCase && sc.Backend == "os" && !sc.NoParent {
			term := coqCase(sc, o)
			r.Case(term, map[string]any{"tag": sc.Tag, "ovr": sc.Ovr, "items": len(o.Items)})
			if o.Kinds["call:TryLock"]+o.Kinds["call:Lock"]+o.Kinds["call:LockWithTimeout"] >= 2 {
				r.Distinct(term)
			}
		}
		r.Sample(map[string]any{"tag": sc.Tag, "backend": sc.Backend, "contenders": len(sc.Ovr), "steps": len(o.Items),
			"acquired": o.Acq, "released": o.Rel, "live_holders_at_end": o.Holders, "failures": len(o.Fails)})
	}

	var rsc Scenario
	if _, ok := r.ReplayObject(&rsc); ok {
		j := &job{sc: &rsc}
		j.out = runScenario(&rsc, runRoot)
		process(j, true)
		r.Finish()
		return
	}

	// 1. the two known findings, replayed first on every run, on both back ends
	var jobs []*job
	for _, b := range []string{"os", "mem"} {
		jobs = append(jobs, &job{sc: scK1(b)}, &job{sc: scK2(b)}, &job{sc: scK1b(b)})
	}
	// 2. deterministic corner cases
	for _, sc := range corners() {
		jobs = append(jobs, &job{sc: sc})
	}
	// 2b. backend faults on every read-side operation of deterministic schedules
	jobs = append(jobs, faultCampaign(!(r.Thorough() || r.Deep), runRoot)...)
	// 3. seeded random schedules
	nOs, nMem := r.N(300, 4000), r.N(40, 400)
	for i := 0; i < nOs+nMem; i++ {
		n := 2 + r.Rng.Intn(3)
		ovr := make([]bool, n)
		for k := range ovr {
			ovr[k] = r.Rng.Intn(100) < 60
		}
		b := "os"
		if i >= nOs {
			b = "mem"
		}
		atomic := r.Rng.Intn(100) < 35 && b == "os" // the theorem is about POSIX directory semantics
		tag := "random"
		if atomic {
			tag = "random-atomic"
		}
		short := r.Rng.Intn(100) < 20
		faultPm := 0
		if r.Rng.Intn(100) < 30 {
			faultPm = 5 + r.Rng.Intn(25) // one-off backend faults on 0.5 .. 3 % of the read-side operations
		}
		var objs []int
		if n >= 3 && r.Rng.Intn(100) < 25 {
			// threads 0 and 1 use one lock object
			objs = make([]int, n)
			for k := range objs {
				objs[k] = k
			}
			objs[1] = 0
			ovr[1] = ovr[0]
		}
		jobs = append(jobs, &job{sc: &Scenario{Tag: fmt.Sprintf("%s:%d", tag, i), Backend: b, Ovr: ovr, Objs: objs, Atomic: atomic, Short: short, FaultPm: faultPm, Seed: 1 + r.Rng.Int63n(1<<40), Max: 200 + r.Rng.Intn(250)}})
	}
	budget := 100 * time.Second
	if r.Thorough() || r.Deep {
		budget = 20 * time.Minute
	}
	if skipped := runAll(jobs, runRoot, 24, budget); skipped > 0 {
		r.Note(fmt.Sprintf("time budget exhausted: %d scenarios not run", skipped))
		r.Count("skipped-for-time")
	}
	for i, j := range jobs {
		if j.out != nil {
			// a deepened run (a tie broke) searches with the oracle; only the first scenarios go to the model as well
			process(j, !r.Deep || i < 400)
		}
	}
	// 4. thorough tier: systematic preemption-bounded enumeration (2 contenders: <= 3 preemptions, 3 contenders: <= 2)
	if r.Thorough() || r.Deep {
		each := func(j *job) {
			if j.out != nil {
				process(j, !r.Deep)
			}
		}
		cyc := []string{"TryLock", "Unlock"}
		n := 0
		n += enumerate("sys2", []bool{false, true}, SysSpec{Scripts: [][]string{{"TryLock", "Unlock", "TryLock", "Unlock"}, cyc}}, 3, 2000, runRoot, each)
		n += enumerate("sys2-lock", []bool{true, false}, SysSpec{Scripts: [][]string{cyc, {"Lock", "Unlock"}}}, 3, 2000, runRoot, each)
		n += enumerate("sys3", []bool{false, true, false}, SysSpec{Scripts: [][]string{cyc, cyc, {"Lock", "Unlock"}}}, 2, 2000, runRoot, each)
		n += enumerate("sys3-dead", []bool{false, true, true}, SysSpec{Scripts: [][]string{nil, cyc, cyc},
			Prefix: one(call(0, "TryLock"), fin(0, false), kill(0))}, 2, 2000, runRoot, each)
		n += enumerate("sys3-dead-hb", []bool{false, true, true}, SysSpec{Scripts: [][]string{nil, cyc, {"LockWithTimeout", "Unlock"}},
			Prefix: one(call(0, "TryLock"), fin(0, false), hb(0, 0), hb(0, 0), kill(0))}, 2, 2000, runRoot, each)
		r.CountN("systematic-schedules", n)
	}
	r.Finish()
}
