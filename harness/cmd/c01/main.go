package main

import (
	"context"
	"fmt"
	"time"

	"github.com/ARM-software/golang-utils/utils/filesystem"
	"github.com/spf13/afero"

	"verif/harness/internal/shim"
)

func main() {
	mem := afero.NewMemMapFs()
	_ = mem.MkdirAll("/locks", 0o755)
	sh := shim.New(mem, func(op *shim.Op) error { return nil })
	vfs := filesystem.NewVirtualFileSystem(sh, filesystem.InMemoryFS, filesystem.IdentityPathConverterFunc).(*filesystem.VFS)
	l := filesystem.NewGenericRemoteLockFile(vfs, "x", "/locks", true)
	dump := func(tag string) {
		fmt.Println("==", tag)
		for _, o := range sh.Log() {
			fmt.Printf("  %-14s %-28s flag=%x err=%v\n", o.Name, o.Path, o.Flag, o.Err)
		}
		sh.ResetLog()
	}
	ctx := context.Background()
	fmt.Println(l.TryLock(ctx))
	time.Sleep(20 * time.Millisecond)
	dump("TryLock ok (+hb)")
	l2 := filesystem.NewGenericRemoteLockFile(vfs, "x", "/locks", true)
	fmt.Println(l2.TryLock(ctx))
	dump("TryLock contended")
	fmt.Println(l2.(*filesystem.RemoteLockFile).IsStale())
	dump("IsStale")
	fmt.Println(l.Unlock(ctx))
	dump("Unlock")
	fmt.Println(l.Unlock(ctx))
	dump("Unlock absent")
	fmt.Println(l2.(*filesystem.RemoteLockFile).IsStale())
	dump("IsStale absent")
	_ = mem.Mkdir("/locks/lockfile-x", 0o755)
	fmt.Println(l2.(*filesystem.RemoteLockFile).IsStale())
	dump("IsStale empty dir")
	fmt.Println(l2.Unlock(ctx))
	dump("Unlock empty dir")
}
