// C10 harness: the ten generic conversions of utils/safecast, instantiated for all 12 numeric kinds and for a named
// type over each of them (24 source types x 10 targets = 240 instantiations compiled into this binary).
//
// Oracle (independent of the Coq model): the returned value must equal the arbitrary-precision reference
// "drop the fraction, clamp to the target's range" computed with math/big from the raw bits of the input
// (integers: the value; floats: sign/exponent/mantissa decoded by hand, no floating-point instruction involved);
// outputs must be non-decreasing along inputs sorted by value; no call may panic.  NaN: only "no panic".
// Bulk sweeps (exhaustive 8/16-bit always, 32-bit strided in the quick tier and exhaustive in the thorough tier)
// use a fast reference in machine arithmetic, which is itself cross-checked against the math/big reference on
// every sampled input of every run.
//
// Correspondence: for every (source type, target) a list of (input bits, observed output) pairs around every
// boundary + specials + random values is emitted as a Coq case (CPairs); the exhaustive 8-bit and 16-bit sweeps
// are emitted run-length compressed (CRun) and re-evaluated by the model on EVERY input of the run.
package main

import (
	"fmt"
	"math"
	"math/big"
	"os"
	"runtime"
	"sort"
	"strings"
	"sync"

	"github.com/ARM-software/golang-utils/utils/safecast"

	"verif/harness/internal/h"
)

// kinds, in the order of GU.C10.GoNum.gkind
const (
	kInt = iota
	kInt8
	kInt16
	kInt32
	kInt64
	kUint
	kUint8
	kUint16
	kUint32
	kUint64
	kFloat32
	kFloat64
	nKinds
)

const nTargets = 10 // the first ten kinds

var kindName = [nKinds]string{"int", "int8", "int16", "int32", "int64", "uint", "uint8", "uint16", "uint32", "uint64", "float32", "float64"}
var coqKind = [nKinds]string{"Kint", "Kint8", "Kint16", "Kint32", "Kint64", "Kuint", "Kuint8", "Kuint16", "Kuint32", "Kuint64", "Kfloat32", "Kfloat64"}
var kindBits = [nKinds]uint{64, 8, 16, 32, 64, 64, 8, 16, 32, 64, 32, 64}

func isSigned(k int) bool { return k <= kInt64 }
func isFloat(k int) bool  { return k >= kFloat32 }

// named types over every kind (the property covers them explicitly; D6 was about MyFloat64)
type (
	MyInt     int
	MyInt8    int8
	MyInt16   int16
	MyInt32   int32
	MyInt64   int64
	MyUint    uint
	MyUint8   uint8
	MyUint16  uint16
	MyUint32  uint32
	MyUint64  uint64
	MyFloat32 float32
	MyFloat64 float64
)

// all ten conversions of one value; results as 64-bit patterns (signed results sign-extended)
func all[C safecast.IConvertable](v C, o *[nTargets]uint64) {
	o[kInt] = uint64(int64(safecast.ToInt(v)))
	o[kInt8] = uint64(int64(safecast.ToInt8(v)))
	o[kInt16] = uint64(int64(safecast.ToInt16(v)))
	o[kInt32] = uint64(int64(safecast.ToInt32(v)))
	o[kInt64] = uint64(safecast.ToInt64(v))
	o[kUint] = uint64(safecast.ToUint(v))
	o[kUint8] = uint64(safecast.ToUint8(v))
	o[kUint16] = uint64(safecast.ToUint16(v))
	o[kUint32] = uint64(safecast.ToUint32(v))
	o[kUint64] = safecast.ToUint64(v)
}

// call runs the real library on the value of kind k (named type or not) whose canonical 64-bit pattern is bits:
// integers sign-/zero-extended, float32/float64 IEEE-754 bits.
func call(k int, named bool, bits uint64, o *[nTargets]uint64) {
	if named {
		switch k {
		case kInt:
			all(MyInt(int64(bits)), o)
			return
		case kInt8:
			all(MyInt8(bits), o)
			return
		case kInt16:
			all(MyInt16(bits), o)
			return
		case kInt32:
			all(MyInt32(bits), o)
			return
		case kInt64:
			all(MyInt64(bits), o)
			return
		case kUint:
			all(MyUint(bits), o)
			return
		case kUint8:
			all(MyUint8(bits), o)
			return
		case kUint16:
			all(MyUint16(bits), o)
			return
		case kUint32:
			all(MyUint32(bits), o)
			return
		case kUint64:
			all(MyUint64(bits), o)
			return
		case kFloat32:
			all(MyFloat32(math.Float32frombits(uint32(bits))), o)
			return
		case kFloat64:
			all(MyFloat64(math.Float64frombits(bits)), o)
			return
		}
	}
	switch k {
	case kInt:
		all(int(int64(bits)), o)
		return
	case kInt8:
		all(int8(bits), o)
		return
	case kInt16:
		all(int16(bits), o)
		return
	case kInt32:
		all(int32(bits), o)
		return
	case kInt64:
		all(int64(bits), o)
		return
	case kUint:
		all(uint(bits), o)
		return
	case kUint8:
		all(uint8(bits), o)
		return
	case kUint16:
		all(uint16(bits), o)
		return
	case kUint32:
		all(uint32(bits), o)
		return
	case kUint64:
		all(bits, o)
		return
	case kFloat32:
		all(math.Float32frombits(uint32(bits)), o)
		return
	case kFloat64:
		all(math.Float64frombits(bits), o)
		return
	}
	panic("kind")
}

func callSafe(k int, named bool, bits uint64) (o [nTargets]uint64, panicked any) {
	defer func() {
		if p := recover(); p != nil {
			panicked = p
		}
	}()
	call(k, named, bits, &o)
	return o, nil
}

// ---------- references ----------

var (
	bigMin [nTargets]*big.Int
	bigMax [nTargets]*big.Int
)

func pow2(k uint) *big.Int { return new(big.Int).Lsh(big.NewInt(1), k) }

func init() {
	for t := 0; t < nTargets; t++ {
		b := kindBits[t]
		if isSigned(t) {
			bigMin[t] = new(big.Int).Neg(pow2(b - 1))
			bigMax[t] = new(big.Int).Sub(pow2(b-1), big.NewInt(1))
		} else {
			bigMin[t] = big.NewInt(0)
			bigMax[t] = new(big.Int).Sub(pow2(b), big.NewInt(1))
		}
	}
}

// refValue: the source value with its fraction dropped, exact.  inf = -1/+1 for the infinities, nan for NaN.
func refValue(k int, bits uint64) (v *big.Int, inf int, nan bool) {
	switch {
	case !isFloat(k) && isSigned(k):
		return big.NewInt(int64(bits)), 0, false
	case !isFloat(k):
		return new(big.Int).SetUint64(bits), 0, false
	}
	var ebits, fbits uint = 11, 52
	var bias int = 1023
	if k == kFloat32 {
		ebits, fbits, bias = 8, 23, 127
	}
	frac := bits & (1<<fbits - 1)
	ex := int(bits >> fbits & (1<<ebits - 1))
	neg := bits>>(fbits+ebits)&1 == 1
	if ex == 1<<ebits-1 {
		if frac != 0 {
			return nil, 0, true
		}
		if neg {
			return nil, -1, false
		}
		return nil, 1, false
	}
	m := new(big.Int).SetUint64(frac)
	e := 1 - bias - int(fbits)
	if ex != 0 {
		m.SetUint64(frac | 1<<fbits)
		e = ex - bias - int(fbits)
	}
	if e >= 0 {
		m.Lsh(m, uint(e))
	} else {
		m.Rsh(m, uint(-e)) // magnitude: truncation toward zero
	}
	if neg {
		m.Neg(m)
	}
	return m, 0, false
}

func refClamp(v *big.Int, inf int, t int) *big.Int {
	switch {
	case inf < 0:
		return bigMin[t]
	case inf > 0:
		return bigMax[t]
	case v.Cmp(bigMin[t]) < 0:
		return bigMin[t]
	case v.Cmp(bigMax[t]) > 0:
		return bigMax[t]
	}
	return v
}

func outBig(t int, o uint64) *big.Int {
	if isSigned(t) {
		return big.NewInt(int64(o))
	}
	return new(big.Int).SetUint64(o)
}

// bigToBits: 64-bit pattern of an in-range result of target t
func bigToBits(t int, v *big.Int) uint64 {
	if isSigned(t) {
		return uint64(v.Int64())
	}
	return v.Uint64()
}

// per-target constants of the fast reference
var (
	fLo, fHi  [nTargets]float64 // lowest value / first value above the range, as float64 (exact powers of two)
	sLo, sHi  [nTargets]int64   // range of the signed targets
	uHi       [nTargets]uint64  // upper bound (all targets)
	loBits    [nTargets]uint64  // minimum as a 64-bit pattern
	tgtSigned [nTargets]bool
)

func init() {
	for t := 0; t < nTargets; t++ {
		b := kindBits[t]
		tgtSigned[t] = isSigned(t)
		if isSigned(t) {
			fLo[t], fHi[t] = -math.Ldexp(1, int(b-1)), math.Ldexp(1, int(b-1))
			sLo[t], sHi[t] = int64(-1)<<(b-1), int64(1)<<(b-1)-1
			uHi[t] = uint64(sHi[t])
			loBits[t] = uint64(sLo[t])
		} else {
			fLo[t], fHi[t] = 0, math.Ldexp(1, int(b))
			uHi[t] = math.MaxUint64 >> (64 - b)
		}
	}
}

// fastRef: the same reference in machine arithmetic (used for the bulk sweeps; cross-checked against refClamp on
// every sampled input).  Float sources: math.Trunc is exact, the bounds are exact powers of two, and the final
// conversion is applied to an in-range value only (defined by the language).
func fastRef(k int, bits uint64) (o [nTargets]uint64, nan bool) {
	nan = fastRefInto(k, bits, &o)
	return
}

func fastRefInto(k int, bits uint64, o *[nTargets]uint64) (nan bool) {
	if isFloat(k) {
		var f float64
		if k == kFloat32 {
			f = float64(math.Float32frombits(uint32(bits))) // exact
		} else {
			f = math.Float64frombits(bits)
		}
		if f != f {
			return true
		}
		tr := math.Trunc(f)
		for t := 0; t < nTargets; t++ {
			switch {
			case tr < fLo[t]:
				o[t] = loBits[t]
			case tr >= fHi[t]:
				o[t] = uHi[t]
			case tgtSigned[t]:
				o[t] = uint64(int64(tr))
			case tr <= 0: // -0
				o[t] = 0
			default:
				o[t] = uint64(tr)
			}
		}
		return false
	}
	if isSigned(k) {
		v := int64(bits)
		for t := 0; t < nTargets; t++ {
			switch {
			case tgtSigned[t] && v < sLo[t]:
				o[t] = loBits[t]
			case !tgtSigned[t] && v < 0:
				o[t] = 0
			case v > 0 && uint64(v) > uHi[t]:
				o[t] = uHi[t]
			default:
				o[t] = uint64(v)
			}
		}
		return false
	}
	for t := 0; t < nTargets; t++ {
		if bits > uHi[t] {
			o[t] = uHi[t]
		} else {
			o[t] = bits
		}
	}
	return false
}

// ---------- ordering of inputs by value ----------

// ordKey maps the canonical pattern to a uint64 whose unsigned order is the order of the values (NaN excluded).
func ordKey(k int, bits uint64) uint64 {
	switch {
	case isFloat(k):
		w := kindBits[k]
		sign := uint64(1) << (w - 1)
		if bits&sign != 0 {
			return (^bits) & (sign<<1 - 1) // negative: reversed
		}
		return bits | sign
	case isSigned(k):
		return bits ^ (1 << 63)
	}
	return bits
}

func ordKeyInv32(key uint32) uint32 {
	if key&0x80000000 != 0 {
		return key &^ 0x80000000
	}
	return ^key
}

func isNaN(k int, bits uint64) bool {
	switch k {
	case kFloat32:
		return bits&0x7f800000 == 0x7f800000 && bits&0x007fffff != 0
	case kFloat64:
		return bits&0x7ff0000000000000 == 0x7ff0000000000000 && bits&0x000fffffffffffff != 0
	}
	return false
}

// ---------- failures ----------

type replayCase struct {
	Kind   string `json:"source_kind"`
	Named  bool   `json:"named"`
	Bits   uint64 `json:"input_bits"` // integers: the value (two's complement, extended to 64 bits); floats: IEEE bits
	Target string `json:"target"`
	Input  string `json:"input,omitempty"`
}

func srcClass(k int, named bool) string {
	c := "unsigned"
	switch {
	case isFloat(k):
		c = "float"
	case isSigned(k):
		c = "signed"
	}
	if named {
		return "named-" + c
	}
	return c
}

func inputString(k int, bits uint64) string {
	switch {
	case k == kFloat32:
		return fmt.Sprintf("%g (0x%08x)", math.Float32frombits(uint32(bits)), uint32(bits))
	case k == kFloat64:
		return fmt.Sprintf("%g (0x%016x)", math.Float64frombits(bits), bits)
	case isSigned(k):
		return fmt.Sprint(int64(bits))
	}
	return fmt.Sprint(bits)
}

func typeName(k int, named bool) string {
	if named {
		return "My" + strings.ToUpper(kindName[k][:1]) + kindName[k][1:]
	}
	return kindName[k]
}

type pendingCase struct {
	term   string
	desc   any
	weight uint64 // estimated cost of evaluating the case in Coq
}

type checker struct {
	r       *h.Run
	mu      sync.Mutex
	seen    map[string]int
	samples int
	pending []pendingCase
}

func (c *checker) addCase(term string, desc any, weight uint64) {
	c.pending = append(c.pending, pendingCase{term, desc, weight})
}

// flushCases hands the cases to h in an order that balances the estimated cost over the shards (files) that
// h.Finish cuts every ShardSize cases: heaviest first, each into the currently lightest shard that has room.
func (c *checker) flushCases() {
	n := len(c.pending)
	if n == 0 {
		return
	}
	size := c.r.ShardSize
	shards := (n + size - 1) / size
	idx := make([]int, n)
	for i := range idx {
		idx[i] = i
	}
	sort.SliceStable(idx, func(a, b int) bool { return c.pending[idx[a]].weight > c.pending[idx[b]].weight })
	load := make([]uint64, shards)
	members := make([][]int, shards)
	for _, i := range idx {
		best := -1
		for s := 0; s < shards; s++ {
			capacity := size
			if s == shards-1 {
				capacity = n - size*(shards-1)
			}
			if len(members[s]) < capacity && (best < 0 || load[s] < load[best]) {
				best = s
			}
		}
		members[best] = append(members[best], i)
		load[best] += c.pending[i].weight
	}
	for s := 0; s < shards; s++ {
		sort.Ints(members[s])
		for _, i := range members[s] {
			c.r.Case(c.pending[i].term, c.pending[i].desc)
		}
	}
	c.pending = nil
}

// fail records a failure; the message is built lazily and only for the first few failures of a signature
// (a badly broken library fails on billions of inputs of a sweep).
func (c *checker) fail(sig string, what func() string, k int, named bool, bits uint64, t int) {
	c.mu.Lock()
	defer c.mu.Unlock()
	if c.seen == nil {
		c.seen = map[string]int{}
	}
	c.seen[sig]++
	if c.seen[sig] > 3 {
		return
	}
	c.r.Fail(sig, what(), replayCase{Kind: kindName[k], Named: named, Bits: bits, Target: kindName[t], Input: inputString(k, bits)})
}

func toName(t int) string { return "To" + strings.ToUpper(kindName[t][:1]) + kindName[t][1:] }

// checkBig evaluates one input against the math/big reference on all ten targets; returns the outputs.
func (c *checker) checkBig(k int, named bool, bits uint64) ([nTargets]uint64, bool) {
	o, p := callSafe(k, named, bits)
	if p != nil {
		c.fail("panic:"+srcClass(k, named), func() string {
			return fmt.Sprintf("conversion of %s(%s) panicked: %v", typeName(k, named), inputString(k, bits), p)
		}, k, named, bits, 0)
		return o, false
	}
	v, inf, nan := refValue(k, bits)
	if nan {
		return o, true // no demand beyond "no panic"
	}
	fr, _ := fastRef(k, bits)
	for t := 0; t < nTargets; t++ {
		want := refClamp(v, inf, t)
		if bigToBits(t, want) != fr[t] {
			fmt.Fprintf(os.Stderr, "INTERNAL: fast reference disagrees with math/big reference: %s(%s) -> %s: %v vs %d\n", kindName[k], inputString(k, bits), kindName[t], want, fr[t])
			os.Exit(3)
		}
		if got := outBig(t, o[t]); got.Cmp(want) != 0 {
			c.fail("wrong-value:"+srcClass(k, named),
				func() string {
					return fmt.Sprintf("%s(%s(%s)) = %v, the property demands %v", toName(t), typeName(k, named), inputString(k, bits), got, want)
				}, k, named, bits, t)
		}
	}
	return o, true
}

// less on outputs of target t
func outLess(t int, a, b uint64) bool {
	if isSigned(t) {
		return int64(a) < int64(b)
	}
	return a < b
}

// ---------- sample sets ----------

type sample struct {
	bits uint64
	core bool // goes into the Coq correspondence cases
}

func representable(k int, v *big.Int) (uint64, bool) {
	b := kindBits[k]
	if isSigned(k) {
		if v.Cmp(new(big.Int).Neg(pow2(b-1))) < 0 || v.Cmp(pow2(b-1)) >= 0 {
			return 0, false
		}
		return uint64(v.Int64()), true
	}
	if v.Sign() < 0 || v.Cmp(pow2(b)) >= 0 {
		return 0, false
	}
	return v.Uint64(), true
}

// the range boundaries of the ten targets
func boundaries() []*big.Int {
	var bs []*big.Int
	seen := map[string]bool{}
	for t := 0; t < nTargets; t++ {
		for _, b := range []*big.Int{bigMin[t], bigMax[t]} {
			if !seen[b.String()] {
				seen[b.String()] = true
				bs = append(bs, b)
			}
		}
	}
	return bs
}

func intSamples(r *h.Run, k int, window int64, nRandom int) []sample {
	coreRandom := r.N(24, 300)
	m := map[uint64]bool{} // bits -> core
	add := func(v *big.Int, core bool) {
		if bits, ok := representable(k, v); ok {
			m[bits] = m[bits] || core
		}
	}
	for _, b := range boundaries() {
		for d := -window; d <= window; d++ {
			add(new(big.Int).Add(b, big.NewInt(d)), d >= -2 && d <= 2)
		}
	}
	for e := uint(0); e <= 64; e++ {
		for d := int64(-1); d <= 1; d++ {
			p := pow2(e)
			add(new(big.Int).Add(p, big.NewInt(d)), false)
			add(new(big.Int).Add(new(big.Int).Neg(p), big.NewInt(d)), false)
		}
	}
	for i := 0; i < nRandom; i++ {
		// random magnitude: random bit length, random bits
		x := r.Rng.Uint64() >> uint(r.Rng.Intn(64))
		v := new(big.Int).SetUint64(x)
		if r.Rng.Intn(2) == 0 {
			v.Neg(v)
		}
		if _, ok := representable(k, v); !ok {
			v = new(big.Int).SetUint64(x & (1<<(kindBits[k]-1) - 1))
		}
		add(v, i < coreRandom)
	}
	return sorted(k, m)
}

func sorted(k int, m map[uint64]bool) []sample {
	out := make([]sample, 0, len(m))
	for b, c := range m {
		out = append(out, sample{b, c})
	}
	sort.Slice(out, func(i, j int) bool {
		ni, nj := isNaN(k, out[i].bits), isNaN(k, out[j].bits)
		if ni != nj {
			return nj // NaNs last
		}
		if ni {
			return out[i].bits < out[j].bits
		}
		ki, kj := ordKey(k, out[i].bits), ordKey(k, out[j].bits)
		if ki != kj {
			return ki < kj
		}
		return out[i].bits < out[j].bits // -0 before +0
	})
	return out
}

func floatSamples(r *h.Run, k int, ulps int, window int64, nRandom int) []sample {
	coreRandom := r.N(36, 600)
	m := map[uint64]bool{}
	w := kindBits[k]
	mask := uint64(math.MaxUint64) >> (64 - w)
	toBits := func(f float64) uint64 {
		if k == kFloat32 {
			return uint64(math.Float32bits(float32(f)))
		}
		return math.Float64bits(f)
	}
	add := func(bits uint64, core bool) { bits &= mask; m[bits] = m[bits] || core }
	// neighbours in value order through the ordered key
	sign := uint64(1) << (w - 1)
	fromKey := func(key uint64) uint64 {
		if key&sign != 0 {
			return key &^ sign
		}
		return (^key) & mask
	}
	around := func(bits uint64, n int, coreN int) {
		if isNaN(k, bits) {
			return
		}
		key := ordKey(k, bits)
		for d := -n; d <= n; d++ {
			kk := int64(key) + int64(d)
			if w == 32 && (kk < 0 || kk > int64(mask)) {
				continue
			}
			b := fromKey(uint64(kk))
			if isNaN(k, b) {
				continue
			}
			add(b, d >= -coreN && d <= coreN)
		}
	}
	for _, b := range boundaries() {
		for _, off := range []int64{-1, 0, 1} {
			x := new(big.Int).Add(b, big.NewInt(off))
			f, _ := new(big.Float).SetInt(x).Float64()
			around(toBits(f), ulps, 1)
			if x.BitLen() < 40 {
				for _, fr := range []float64{0.5, -0.5, 0.25, -0.25, 0.999, -0.999} {
					coreN := -1
					if off == 0 && (fr == 0.5 || fr == -0.5) {
						coreN = 0
					}
					around(toBits(f+fr), 1, coreN)
				}
			}
		}
	}
	// integral and half-integral values around every boundary (a comparison through a narrower float type, or a
	// guard that is off by a few units, shows here and not within a few ulps of the boundary)
	for _, b := range boundaries() {
		for d := int64(-window); d <= window; d++ {
			x := new(big.Int).Add(b, big.NewInt(d))
			f, _ := new(big.Float).SetInt(x).Float64()
			add(toBits(f), false)
			add(toBits(f+0.5), false)
		}
	}
	minExp, maxExp := -1074, 1023
	if k == kFloat32 {
		minExp, maxExp = -149, 127
	}
	for e := minExp; e <= maxExp; e++ {
		f := math.Ldexp(1, e)
		core := e == minExp || e == maxExp || e == 0 || e == -1 || e == 23 || e == 24 || e == 52 || e == 53
		around(toBits(f), 1, map[bool]int{true: 0, false: -1}[core])
		around(toBits(-f), 1, map[bool]int{true: 0, false: -1}[core])
	}
	// specials: zeros, infinities, NaNs (quiet, signalling, negative, all ones), extremes
	specials := []uint64{0, sign, toBits(math.Inf(1)), toBits(math.Inf(-1)), mask, mask &^ sign}
	if k == kFloat32 {
		specials = append(specials, 0x7fc00000, 0x7f800001, 0xffc00000, 0x7f7fffff, 0xff7fffff, 0x00000001, 0x80000001, 0x007fffff, 0x00800000)
	} else {
		specials = append(specials, 0x7ff8000000000000, 0x7ff0000000000001, 0xfff8000000000000, 0x7fefffffffffffff, 0xffefffffffffffff,
			1, 0x8000000000000001, 0x000fffffffffffff, 0x0010000000000000)
	}
	for _, s := range specials {
		add(s, true)
	}
	for i := 0; i < nRandom; i++ {
		switch i % 3 {
		case 0: // any bit pattern (all exponents)
			add(r.Rng.Uint64(), i < coreRandom)
		case 1: // an integer of random magnitude plus a fraction
			x := float64(r.Rng.Uint64()>>uint(r.Rng.Intn(64))) + r.Rng.Float64()
			if r.Rng.Intn(2) == 0 {
				x = -x
			}
			add(toBits(x), i < coreRandom)
		default: // integral value of random magnitude up to 2^70
			x := math.Ldexp(float64(r.Rng.Uint64()), r.Rng.Intn(72)-64)
			if r.Rng.Intn(2) == 0 {
				x = -x
			}
			add(toBits(math.Trunc(x)), i < coreRandom)
		}
	}
	return sorted(k, m)
}

// ---------- Coq case output ----------

func zstr(signed bool, bits uint64) string {
	if signed {
		return h.Z(int64(bits))
	}
	return fmt.Sprint(bits)
}

func inputZ(k int, bits uint64) string {
	if isFloat(k) {
		return fmt.Sprint(bits)
	}
	return zstr(isSigned(k), bits)
}

// ---------- sampled evaluation of one source type ----------

func (c *checker) runSamples(k int, named bool, ss []sample, emit bool) {
	r := c.r
	var prev [nTargets]uint64
	havePrev := false
	var prevBits uint64
	pairs := make([][]string, nTargets)
	for _, s := range ss {
		o, ok := c.checkBig(k, named, s.bits)
		r.Evals(nTargets)
		if !ok {
			continue
		}
		if isNaN(k, s.bits) {
			r.Count("nan-input")
		} else {
			// monotonicity along the value order (independent of the reference)
			if havePrev {
				for t := 0; t < nTargets; t++ {
					if outLess(t, o[t], prev[t]) {
						c.fail("not-monotonic:"+srcClass(k, named),
							func() string {
								return fmt.Sprintf("%s(%s(%s)) = %v is smaller than the result %v for the smaller input %s", toName(t), typeName(k, named), inputString(k, s.bits),
									outBig(t, o[t]), outBig(t, prev[t]), inputString(k, prevBits))
							}, k, named, s.bits, t)
					}
				}
			}
			prev, havePrev, prevBits = o, true, s.bits
		}
		if s.core && emit {
			for t := 0; t < nTargets; t++ {
				pairs[t] = append(pairs[t], "("+inputZ(k, s.bits)+", "+zstr(isSigned(t), o[t])+")")
				r.Distinct(fmt.Sprintf("%s/%v/%s/%x", kindName[k], named, kindName[t], s.bits))
			}
		}
	}
	r.CountN("sampled:"+srcClass(k, named), len(ss)*nTargets)
	if emit {
		for t := 0; t < nTargets; t++ {
			if len(pairs[t]) == 0 {
				continue
			}
			// chunks keep one case small enough to be read back from case_index.json
			const chunk = 120
			for i := 0; i < len(pairs[t]); i += chunk {
				j := i + chunk
				if j > len(pairs[t]) {
					j = len(pairs[t])
				}
				c.addCase(fmt.Sprintf("(CPairs %s %s %s %s)", coqKind[k], h.Bool(named), coqKind[t], h.List(pairs[t][i:j])),
					map[string]any{"source": typeName(k, named), "target": kindName[t], "pairs_input_output": pairs[t][i:j]}, uint64(60*(j-i)))
			}
		}
	}
}

// ---------- sweeps over consecutive values (in value order) with the fast reference ----------

// sweep evaluates idx = from .. to-1; bitsOf gives the canonical pattern of the idx-th value in value order.
// It checks every output against the fast reference and against the previous output (monotonicity).
// runs (optional): run-length compression of the outputs of integer sources for the Coq CRun cases.
type run struct {
	lo    int64 // first input (value)
	n     uint64
	ident bool
	c     uint64 // constant output bits
}

func (c *checker) sweep(k int, named bool, from, to uint64, stride uint64, bitsOf func(uint64) uint64, wantRuns bool) [nTargets][]run {
	var runs [nTargets][]run
	var prev, o, want [nTargets]uint64
	havePrev := false
	var prevBits uint64
	defer func() {
		if p := recover(); p != nil {
			c.fail("panic:"+srcClass(k, named), func() string {
				return fmt.Sprintf("a conversion of a %s value panicked during a sweep: %v", typeName(k, named), p)
			}, k, named, prevBits, 0)
		}
	}()
	for idx := from; idx < to; idx += stride {
		bits := bitsOf(idx)
		if isNaN(k, bits) {
			continue
		}
		call(k, named, bits, &o)
		fastRefInto(k, bits, &want)
		if o != want {
			for t := 0; t < nTargets; t++ {
				if o[t] != want[t] {
					c.fail("wrong-value:"+srcClass(k, named),
						func() string {
							return fmt.Sprintf("%s(%s(%s)) = %v, the property demands %v", toName(t), typeName(k, named), inputString(k, bits), outBig(t, o[t]), outBig(t, want[t]))
						}, k, named, bits, t)
				}
			}
		}
		if havePrev {
			for t := 0; t < nTargets; t++ {
				if outLess(t, o[t], prev[t]) {
					c.fail("not-monotonic:"+srcClass(k, named),
						func() string {
							return fmt.Sprintf("%s(%s(%s)) = %v is smaller than the result %v for the smaller input %s", toName(t), typeName(k, named), inputString(k, bits),
								outBig(t, o[t]), outBig(t, prev[t]), inputString(k, prevBits))
						}, k, named, bits, t)
				}
			}
		}
		if wantRuns {
			for t := 0; t < nTargets; t++ {
				ident := o[t] == bits // same 64-bit pattern <=> same value when both are in range of a common kind
				if isSigned(k) != isSigned(t) && int64(bits) < 0 {
					ident = false
				}
				rs := runs[t]
				if n := len(rs); n > 0 {
					last := &rs[n-1]
					if last.ident && ident {
						last.n++
						continue
					}
					if !last.ident && !ident && last.c == o[t] {
						last.n++
						continue
					}
					// a one-element constant run whose constant equals its input may turn into an identity run
					if !last.ident && last.n == 1 && ident && uint64(last.lo) == last.c && (isSigned(k) == isSigned(t) || last.lo >= 0) {
						last.ident = true
						last.n++
						continue
					}
				}
				runs[t] = append(rs, run{lo: int64(bits), n: 1, ident: false, c: o[t]})
			}
		}
		prev, havePrev, prevBits = o, true, bits
	}
	return runs
}

func (c *checker) emitRuns(k int, named bool, runs [nTargets][]run) {
	for t := 0; t < nTargets; t++ {
		for _, ru := range runs[t] {
			mode := "RIdent"
			if !ru.ident {
				mode = "(RConst " + zstr(isSigned(t), ru.c) + ")"
			}
			lo := zstr(isSigned(k), uint64(ru.lo))
			c.addCase(fmt.Sprintf("(CRun %s %s %s %s %d%%N %s)", coqKind[k], h.Bool(named), coqKind[t], lo, ru.n, mode),
				map[string]any{"source": typeName(k, named), "target": kindName[t], "first_input": lo, "count": ru.n, "outputs": mode}, ru.n)
			c.r.Distinct(fmt.Sprintf("run/%s/%v/%s/%s", kindName[k], named, kindName[t], lo))
		}
	}
}

// value-ordered enumeration of all patterns of a kind of width <= 32
func bitsOfOrdered(k int) func(uint64) uint64 {
	w := kindBits[k]
	switch {
	case isFloat(k):
		return func(i uint64) uint64 { return uint64(ordKeyInv32(uint32(i))) }
	case isSigned(k):
		return func(i uint64) uint64 { return uint64(int64(i) - int64(1)<<(w-1)) }
	}
	return func(i uint64) uint64 { return i }
}

// parallel sweep of the whole 32-bit space of kind k (stride 1 = exhaustive)
func (c *checker) sweep32(k int, named bool, stride uint64) uint64 {
	workers := runtime.GOMAXPROCS(0)
	total := uint64(1) << 32
	chunk := total / uint64(workers*8)
	chunk -= chunk % stride
	if chunk == 0 {
		chunk = stride
	}
	var wg sync.WaitGroup
	jobs := make(chan uint64)
	for w := 0; w < workers; w++ {
		wg.Add(1)
		go func() {
			defer wg.Done()
			for from := range jobs {
				to := from + chunk + stride // overlap by one element: monotonicity across chunk borders
				if to > total {
					to = total
				}
				c.sweep(k, named, from, to, stride, bitsOfOrdered(k), false)
			}
		}()
	}
	for from := uint64(0); from < total; from += chunk {
		jobs <- from
	}
	close(jobs)
	wg.Wait()
	return total / stride * nTargets
}

func main() {
	r := h.Init("C10")
	r.Imports = []string{"GU.C10.Model"}
	r.ShardSize = 30
	c := &checker{r: r}
	r.Rule("24 source types (12 kinds, plain and named) x 10 targets. Every 8- and 16-bit source value exhaustively; 32-bit sources (int32, uint32, float32): " +
		"every 4093rd value in the quick tier, every value in the thorough tier, every 61st in a deepened run after a broken tie; all sources: every value within 2^12 of each range boundary of each target " +
		"(floats: 2^12 next-up/next-down steps around each boundary and boundary+-1, fractions beside them), every power of two and its neighbours, zeros, subnormals, " +
		"infinities, NaNs, seeded random values of random magnitude. evaluations = (input, target) pairs compared with the reference; " +
		"distinct_nontrivial counts only the (source type, target, input) triples and sweep runs that were ALSO re-evaluated by the Coq model (correspondence cases).")

	var rc replayCase
	if _, ok := r.ReplayObject(&rc); ok {
		k, t := -1, 0
		for i, n := range kindName {
			if n == rc.Kind {
				k = i
			}
			if n == rc.Target && i < nTargets {
				t = i
			}
		}
		if k >= 0 {
			o, ok := c.checkBig(k, rc.Named, rc.Bits)
			r.Evals(nTargets)
			if ok {
				r.Case(fmt.Sprintf("(CPairs %s %s %s [(%s, %s)])", coqKind[k], h.Bool(rc.Named), coqKind[t], inputZ(k, rc.Bits), zstr(isSigned(t), o[t])), rc)
			}
		}
		r.Finish()
		return
	}

	// 0. the D6 witnesses first (named float types, values at and above 2^63): deterministic on every run
	for _, w := range []struct {
		k int
		f float64
	}{{kFloat64, 2e19}, {kFloat64, 1e30}, {kFloat64, 9223372036854775808}, {kFloat64, -1e30}, {kFloat32, 2e19}, {kFloat32, 1e30}, {kFloat32, -1e30}} {
		bits := math.Float64bits(w.f)
		if w.k == kFloat32 {
			bits = uint64(math.Float32bits(float32(w.f)))
		}
		c.checkBig(w.k, true, bits)
		r.Evals(nTargets)
		r.Count("d6-witness")
	}

	window := int64(4096)
	nRandom := r.N(3000, 200000)
	emit := !r.NoCases
	// 1. sampled sets, math/big reference, all 24 source types
	for k := 0; k < nKinds; k++ {
		var ss []sample
		if isFloat(k) {
			ss = floatSamples(r, k, 4096, window, nRandom)
		} else {
			ss = intSamples(r, k, window, nRandom)
		}
		if c.samples < 12 && len(ss) > 0 {
			c.samples++
			s := ss[len(ss)/3]
			o, _ := callSafe(k, false, s.bits)
			r.Sample(map[string]any{"source": kindName[k], "input": inputString(k, s.bits), "ToInt8": int64(o[kInt8]), "ToUint64": o[kUint64]})
		}
		for _, named := range []bool{false, true} {
			c.runSamples(k, named, ss, emit)
		}
	}

	// 2. exhaustive 8- and 16-bit sources (sweeps in value order), run-length compressed for the model
	for _, k := range []int{kInt8, kUint8, kInt16, kUint16} {
		for _, named := range []bool{false, true} {
			n := uint64(1) << kindBits[k]
			runs := c.sweep(k, named, 0, n, 1, bitsOfOrdered(k), emit)
			r.Evals(int(n) * nTargets)
			r.CountN(fmt.Sprintf("exhaustive-%d-bit:%s", kindBits[k], srcClass(k, named)), int(n)*nTargets)
			// the model re-evaluates every input of these runs
			if emit {
				c.emitRuns(k, named, runs)
			}
		}
	}
	// every 16-bit source value also against the math/big reference (once per run, plain types)
	for _, k := range []int{kInt16, kUint16} {
		bo := bitsOfOrdered(k)
		for i := uint64(0); i < 1<<16; i++ {
			c.checkBig(k, false, bo(i))
		}
		r.Evals(nTargets << 16)
	}

	// 3. 32-bit sources: strided (quick) or exhaustive (thorough / deepened)
	// quick: every 4093rd value; thorough: every value; deepened search after a broken tie: every 61st value
	// (the deepened run has to finish in seconds; the boundary neighbourhoods above are complete in every mode)
	stride := uint64(4093)
	switch {
	case r.Deep:
		stride = 61
	case r.Thorough():
		stride = 1
	}
	for _, k := range []int{kInt32, kUint32, kFloat32} {
		for _, named := range []bool{false, true} {
			st := stride
			if named && !isFloat(k) && st < 61 {
				st = 61 // same compiled code (one GC shape) as the plain type, which is swept completely
			}
			n := c.sweep32(k, named, st)
			r.Evals(int(n))
			r.CountN(fmt.Sprintf("sweep-32-bit-stride-%d:%s", st, srcClass(k, named)), int(n))
		}
	}
	c.flushCases()
	if stride == 1 {
		r.Exhaustive(true)
		r.Note("every value of every 8- and 16-bit source type, of int32, uint32, float32 and of the named float32 type was evaluated on all ten targets (named int32/uint32: every 61st value)")
	}
	r.Finish()
}
