// C13 harness: every logger constructor of utils/logs driven by 2..32 concurrent producers mixing Log, LogError,
// SetLogSource and Append, under the race detector.
//
// Process structure.  The pipeline starts this binary once ("parent").  The parent re-executes itself once per logger
// kind ("worker", flag -worker) with GORACE=log_path=... so that race reports are captured per kind, and with the
// worker's stdout/stderr redirected to files (they are the sinks of the std / pipe / asynchronous-std loggers).
// A worker builds the loggers, runs the producers, reads every sink back, parses it into messages and evaluates the
// ORACLE directly on that (independently of the Coq model):
//   - every line of a sink is one intact message in the sink's format (or a known foreign line): never a torn,
//     truncated or interleaved line                                                     -> corrupt:<kind>
//   - no message twice                                                                  -> duplicate:<kind>
//   - every message the sink must hold is there (composite: in every member)            -> lost:<kind>
//   - nothing the sink must not hold (quiet: output stream; wrong stream/severity)      -> unexpected:<kind>
//   - asynchronous: sent - delivered <= reported-missed (3 of 3 runs)                   -> silent-drop:<kind>
//   - no data race report                                                               -> data-race:<functions>
//   - no panic, no hang                                                                 -> worker-crash / hang:<kind>
//
// and emits correspondence cases for the Coq model (coq/C13/Model.v, check_case).
package main

import (
	"bytes"
	"context"
	"encoding/json"
	"errors"
	"flag"
	"fmt"
	"io"
	stdlog "log"
	"math/rand"
	"os"
	"os/exec"
	"path/filepath"
	"regexp"
	"sort"
	"strconv"
	"strings"
	"sync"
	"sync/atomic"
	"time"
	"unicode/utf8"

	"github.com/hashicorp/go-hclog"
	"github.com/sirupsen/logrus"
	"go.uber.org/zap"
	"go.uber.org/zap/zapcore"
	"golang.org/x/exp/slog"

	"github.com/go-logr/logr"

	"github.com/ARM-software/golang-utils/utils/logs"
	"github.com/ARM-software/golang-utils/utils/logs/logrimp"

	"verif/harness/internal/h"
)

var (
	workerSpec = flag.String("worker", "", "worker mode: JSON file with the scenarios to run")
	workerOut  = flag.String("wout", "", "worker mode: result file")
)

// ---------------------------------------------------------------------------------------------------------------
// scenarios

type Scenario struct {
	Kind      string   `json:"kind"`
	Producers int      `json:"producers"`
	Msgs      int      `json:"msgs"`              // messages per producer
	Mix       string   `json:"mix"`               // log | both | all (both + SetLogSource) | append (all + Append)
	Members   []string `json:"members,omitempty"` // composites: kinds of the initial members
	Ring      int      `json:"ring,omitempty"`
	PollMs    int      `json:"poll_ms,omitempty"`
	SlowUs    int      `json:"slow_us,omitempty"` // delay of the slow writer per write
	Seed      int64    `json:"seed"`
	Case      bool     `json:"case,omitempty"`    // small scenario: emit a Coq correspondence case
	Script    []int    `json:"script,omitempty"`  // scripted ring run: 1 = Set, 0 = Release
	Level     string   `json:"level,omitempty"`   // logr adapters: level of the back end (debug | info | warn | error)
	Ctor      string   `json:"ctor,omitempty"`    // membership script: combined | multi | writers
	Init      int      `json:"init,omitempty"`    // membership script: length of the caller's slice
	Cap       int      `json:"cap,omitempty"`     // ... and its capacity
	AScript   [][3]int `json:"ascript,omitempty"` // (op, a, b): 0 New c | 1 Append c id | 2 caller backing[a] = id b | 3 caller append id | 4 Log c m
	Stdout    string   `json:"stdout,omitempty"`
	Stderr    string   `json:"stderr,omitempty"`
	Dir       string   `json:"dir,omitempty"`
}

type caseOut struct {
	Term string `json:"term"`
	Desc any    `json:"desc"`
}

type WResult struct {
	Failures []h.Failure    `json:"failures"`
	Cases    []caseOut      `json:"cases"`
	Evals    int            `json:"evals"`
	Counts   map[string]int `json:"counts"`
	Distinct []string       `json:"distinct"`
	Samples  []any          `json:"samples"`
	Notes    []string       `json:"notes"`
}

func (w *WResult) fail(sig, what string, sc Scenario) {
	for _, f := range w.Failures {
		if f.Signature == sig {
			return
		}
	}
	w.Failures = append(w.Failures, h.Failure{Signature: sig, What: what, Replay: sc})
}

// ---------------------------------------------------------------------------------------------------------------
// messages

type mid struct {
	P int
	S byte // 'o' output stream, 'e' error stream
	K int
}

const alphabet = "abcdefghijklmnopqrstuvwxyz0123456789"

// hostile pieces a message is assembled from: every logger kind must deliver them INTACT (a back end that escapes —
// JSON — is compared through its own escaping rule, see jsonRule).  No line endings here (sinks are parsed line by
// line; line endings are covered by the rendering scenarios) and never the text "{p" (start of a message header).
var hostilePieces = []string{
	"%", "%d", "%s", "%!", "%%", "%v%v", "100% done", "%", "%+v", "%[1]d", "%!(EXTRA", "50%",
	"\\", "\\n", "\\\\", "\"", "'", "`", "\"quoted\"", "{", "}", "{}", "{\"a\":1,\"b\":[true,null]}", "[1,2]", "\":\"",
	"\t", "\t\t", "\x00", "\xff", "\xfe\xff", "\xc3", "\xe2\x82", "é", "日本語", " x", "�",
	" ", "  ", "   lead", "trail   ", ": ", "): ", "] ", "[x] Output: ", "|", "=", "<>&", "&amp;", "\x1b[31m", "\x7f", "\x01\x02",
}

func hostile(seed int64, m mid, salt uint64) string {
	x := uint64(seed)*0x9E3779B97F4A7C15 + uint64(m.P)*0xBF58476D1CE4E5B9 + uint64(m.K)*0x94D049BB133111EB + uint64(m.S) + salt*0xD6E8FEB86659FD93
	next := func() uint64 {
		x ^= x << 13
		x ^= x >> 7
		x ^= x << 17
		return x
	}
	next()
	word := func(n int) string {
		b := make([]byte, n)
		for i := range b {
			b[i] = alphabet[next()%uint64(len(alphabet))]
		}
		return string(b)
	}
	var sb strings.Builder
	switch next() % 16 {
	case 0: // empty
	case 1:
		sb.WriteString(hostilePieces[next()%uint64(len(hostilePieces))])
	case 13:
		sb.WriteString(word(440 + int(next()%80))) // very long word, around the 500-byte buffers pooled by the diode writer
	case 14:
		sb.WriteString(word(600 + int(next()%300)))
	default:
		n := 1 + int(next()%10)
		for i := 0; i < n; i++ {
			if next()%3 == 0 {
				sb.WriteString(word(1 + int(next()%12)))
			} else {
				sb.WriteString(hostilePieces[next()%uint64(len(hostilePieces))])
			}
		}
	}
	return strings.ReplaceAll(sb.String(), "{p", "{q")
}

func header(m mid) string { return fmt.Sprintf("{p%02d.%c.%04d|", m.P, m.S, m.K) }

// token: the message as ONE string argument
func token(seed int64, m mid) string { return header(m) + hostile(seed, m, 0) + "}" }

// msgArgs: the arguments of the Log / LogError call for message m: one string, or (every 5th message) several
// arguments mixing hostile strings with an int and an error
func msgArgs(seed int64, m mid) []interface{} {
	if m.K%5 != 3 {
		return []interface{}{token(seed, m)}
	}
	return []interface{}{header(m) + hostile(seed, m, 1), 40 + m.K, errors.New(hostile(seed, m, 2)), m.P, hostile(seed, m, 3) + "}"}
}

// expectedText: what a back end must render for message m.  println: operands separated by blanks (log.Println,
// fmt.Sprintln: string / std / logr-based loggers); sprint: fmt.Sprint (JSON and asynchronous loggers)
func expectedText(seed int64, m mid, sprint, single bool) string {
	if single {
		return token(seed, m)
	}
	if sprint {
		return fmt.Sprint(msgArgs(seed, m)...)
	}
	return strings.TrimSuffix(fmt.Sprintln(msgArgs(seed, m)...), "\n")
}

// jsonRule: what a JSON back end makes of a string once its line is decoded again: every byte that is not part of a
// valid UTF-8 sequence becomes U+FFFD (encoding/json, zerolog, zap, slog all do this); everything else round-trips
func jsonRule(t string) string {
	var sb strings.Builder
	for i := 0; i < len(t); {
		r, size := utf8.DecodeRuneInString(t[i:])
		if r == utf8.RuneError && size == 1 {
			sb.WriteString("�")
		} else {
			sb.WriteString(t[i : i+size])
		}
		i += size
	}
	return sb.String()
}

var headerRe = regexp.MustCompile(`\{p(\d{2})\.([oe])\.(\d{4})\|`)

func parseHeader(t string) (mid, bool) {
	m := headerRe.FindStringSubmatch(t)
	if m == nil {
		return mid{}, false
	}
	p, _ := strconv.Atoi(m[1])
	k, _ := strconv.Atoi(m[3])
	return mid{P: p, S: m[2][0], K: k}, true
}

// ---------------------------------------------------------------------------------------------------------------
// harness-side sinks

// recWriter is a WriterWithSource / io.Writer that records what it is given.  It serialises its writers itself (the
// synchronisation of a client-supplied writer is the client's business) and counts overlapping calls.
type recWriter struct {
	mu        sync.Mutex
	buf       bytes.Buffer
	delay     time.Duration
	inside    int32
	overlap   int32
	closeErr  bool // Close fails
	closes    int32
	failEvery int32 // k > 0: every k-th Write fails (returns an error, records nothing); 1 = behaves like a closed writer
	writes    int32
}

var errSinkFailed = fmt.Errorf("harness: this writer fails")

func (w *recWriter) Write(p []byte) (int, error) {
	if atomic.AddInt32(&w.inside, 1) > 1 {
		atomic.AddInt32(&w.overlap, 1)
	}
	if w.delay > 0 {
		time.Sleep(w.delay)
	}
	if w.failEvery > 0 && atomic.AddInt32(&w.writes, 1)%w.failEvery == 0 {
		atomic.AddInt32(&w.inside, -1)
		return 0, errSinkFailed
	}
	w.mu.Lock()
	w.buf.Write(p)
	w.mu.Unlock()
	atomic.AddInt32(&w.inside, -1)
	return len(p), nil
}
func (w *recWriter) Close() error {
	atomic.AddInt32(&w.closes, 1)
	if w.closeErr {
		return errSinkFailed
	}
	return nil
}
func (w *recWriter) SetSource(string) error { return nil }
func (w *recWriter) Sync() error            { return nil }
func (w *recWriter) bytes() []byte {
	w.mu.Lock()
	defer w.mu.Unlock()
	return append([]byte(nil), w.buf.Bytes()...)
}

// User-defined Loggers implementations (members of composites).
// lazyRec: a pointer to an ALL-ZERO struct that records into its own fields lazily.
type lazyRec struct {
	mu    sync.Mutex
	lines []byte
}

func (l *lazyRec) Close() error                 { return nil }
func (l *lazyRec) Check() error                 { return nil }
func (l *lazyRec) SetLogSource(string) error    { return nil }
func (l *lazyRec) SetLoggerSource(string) error { return nil }
func (l *lazyRec) Log(a ...interface{}) {
	l.mu.Lock()
	l.lines = append(l.lines, fmt.Sprintln(a...)...)
	l.mu.Unlock()
}
func (l *lazyRec) LogError(a ...interface{}) { l.Log(a...) }
func (l *lazyRec) bytes() []byte {
	l.mu.Lock()
	defer l.mu.Unlock()
	return append([]byte(nil), l.lines...)
}

// panicRec: a member that PANICS on chosen records (every 7th) instead of recording them
type panicRec struct{ lazyRec }

func panicsOn(m mid) bool { return m.K%7 == 2 }

func (l *panicRec) Log(a ...interface{}) {
	if id, ok := parseHeader(fmt.Sprint(a...)); ok && panicsOn(id) {
		panic("harness member: I refuse this record")
	}
	l.lazyRec.Log(a...)
}
func (l *panicRec) LogError(a ...interface{}) { l.Log(a...) }

// bufWriter: a writer that BUFFERS: what it is given reaches the recording part only when it is closed (or synced)
type bufWriter struct {
	recWriter
	pmu     sync.Mutex
	pending bytes.Buffer
}

func (w *bufWriter) Write(p []byte) (int, error) {
	w.pmu.Lock()
	w.pending.Write(p)
	w.pmu.Unlock()
	return len(p), nil
}
func (w *bufWriter) Close() error {
	w.pmu.Lock()
	defer w.pmu.Unlock()
	_, _ = w.recWriter.Write(w.pending.Bytes())
	w.pending.Reset()
	return nil
}
func (w *bufWriter) SetSource(string) error { return nil }

// statelessLogger: no fields at all; writes to a package-level sink
type statelessLogger struct{}

var statelessSink lazyRec

func (statelessLogger) Close() error                 { return nil }
func (statelessLogger) Check() error                 { return nil }
func (statelessLogger) SetLogSource(string) error    { return nil }
func (statelessLogger) SetLoggerSource(string) error { return nil }
func (statelessLogger) Log(a ...interface{})         { statelessSink.Log(a...) }
func (statelessLogger) LogError(a ...interface{})    { statelessSink.Log(a...) }

// work to do once the composite that contains a member has been built (an empty composite is filled afterwards)
var deferredFill []func()

// dropRec is the droppedMessagesLogger: it sums what the diode reports
type dropRec struct {
	mu     sync.Mutex
	alerts []int
	other  int
}

var dropRe = regexp.MustCompile(`Logger dropped (\d+) messages`)

func (d *dropRec) Close() error                 { return nil }
func (d *dropRec) Check() error                 { return nil }
func (d *dropRec) SetLogSource(string) error    { return nil }
func (d *dropRec) SetLoggerSource(string) error { return nil }
func (d *dropRec) Log(...interface{})           {}
func (d *dropRec) LogError(a ...interface{}) {
	d.mu.Lock()
	defer d.mu.Unlock()
	m := dropRe.FindStringSubmatch(fmt.Sprint(a...))
	if m == nil {
		d.other++
		return
	}
	n, _ := strconv.Atoi(m[1])
	d.alerts = append(d.alerts, n)
}
func (d *dropRec) total() (int, []int) {
	d.mu.Lock()
	defer d.mu.Unlock()
	t := 0
	for _, a := range d.alerts {
		t += a
	}
	return t, append([]int(nil), d.alerts...)
}

// ---------------------------------------------------------------------------------------------------------------
// a sink as the oracle sees it

type sink struct {
	name   string
	format string // plain | std | async | json | embedded
	read   func() []byte
	// which messages this sink must hold (required) and may hold (allowed)
	required  func(mid) bool
	allowed   func(mid) bool
	foreign   *regexp.Regexp // lines that are not messages but legitimate
	src       string         // logger source expected in the prefix (std / async formats)
	sprint    bool           // the back end renders the arguments with fmt.Sprint (else: Println rule)
	single    bool           // messages were sent as ONE string argument (scripts)
	atClose   bool           // the content is taken the moment Close returns (no grace period)
	snap      []byte         // that content
	snapped   bool
	lineCheck func(ln string, m mid) string // extra per-line demand (e.g. the line carries its own logger's source); "" = fine
	noLevel   bool                          // the severity label is not checked (hclogr maps logr's V(0) to hclog's Error level)
	obs       []mid                         // filled by parse
}

var (
	stdLineRe   = regexp.MustCompile(`^\[([^\]]*)\] (Output|Error): \d{4}/\d{2}/\d{2} \d{2}:\d{2}:\d{2} (\{p.*\})$`)
	asyncLineRe = regexp.MustCompile(`^\[([^\]]*)\] (Output|Error) \(.*?\): (\{p.*\})$`)
)

// parse splits the sink into lines and recognises the messages; returns descriptions of corrupt / unexpected lines
func (s *sink) parse(seed int64) (corrupt []string, unexpected []string) {
	raw := s.read()
	if s.snapped {
		raw = s.snap
	}
	s.obs = nil
	if len(raw) == 0 {
		return
	}
	if raw[len(raw)-1] != '\n' {
		corrupt = append(corrupt, "sink does not end with a newline (truncated last line): ..."+tail(string(raw), 60))
	}
	lines := strings.Split(strings.TrimSuffix(string(raw), "\n"), "\n")
	for _, ln := range lines {
		if ln == "" {
			continue
		}
		if s.foreign != nil && s.foreign.MatchString(ln) && !strings.Contains(ln, "{p") {
			continue
		}
		var tok, stream string
		switch s.format {
		case "plain":
			tok = ln
		case "std":
			m := stdLineRe.FindStringSubmatch(ln)
			if m == nil || m[1] != s.src {
				corrupt = append(corrupt, "not a '[src] Output|Error: date time message' line: "+clip(ln))
				continue
			}
			stream, tok = m[2], m[3]
		case "async":
			m := asyncLineRe.FindStringSubmatch(ln)
			if m == nil {
				corrupt = append(corrupt, "not a '[src] Output|Error (time): message' line: "+clip(ln))
				continue
			}
			stream, tok = m[2], m[3]
		case "json":
			var obj map[string]any
			if err := json.Unmarshal([]byte(ln), &obj); err != nil {
				corrupt = append(corrupt, "not a JSON object: "+clip(ln))
				continue
			}
			found := false
			for _, k := range []string{"message", "msg", "@message"} {
				if v, ok := obj[k].(string); ok {
					tok, found = strings.TrimSpace(v), true
					break
				}
			}
			if !found {
				corrupt = append(corrupt, "JSON line without a message field: "+clip(ln))
				continue
			}
			for _, k := range []string{"severity", "level", "@level"} {
				if v, ok := obj[k].(string); ok {
					switch strings.ToLower(v) {
					case "info":
						stream = "Output"
					case "error":
						stream = "Error"
					default:
						stream = "?" + v
					}
					break
				}
			}
		case "embedded":
			tok = ln
		}
		id, ok := parseHeader(tok)
		if !ok || strings.Count(tok, "{p") != 1 {
			corrupt = append(corrupt, "not exactly one message: "+clip(ln))
			continue
		}
		exp := expectedText(seed, id, s.sprint, s.single)
		switch s.format {
		case "json":
			exp = jsonRule(exp)
		case "embedded":
			// funcr renders the message (which ends with the newline of Sprintln) with strconv.Quote
			if strings.Count(ln, strconv.Quote(exp+"\n")) != 1 {
				corrupt = append(corrupt, "message altered: "+clip(ln))
				continue
			}
			tok = exp
		}
		if tok != exp {
			corrupt = append(corrupt, fmt.Sprintf("message altered: got %s want %s", clip(tok), clip(exp)))
			continue
		}
		if stream != "" && !s.noLevel {
			want := "Output"
			if id.S == 'e' {
				want = "Error"
			}
			if stream != want {
				unexpected = append(unexpected, fmt.Sprintf("message of the %c stream delivered as %s: %s", id.S, stream, clip(ln)))
				continue
			}
		}
		if s.lineCheck != nil {
			if msg := s.lineCheck(ln, id); msg != "" {
				unexpected = append(unexpected, msg+": "+clip(ln))
			}
		}
		s.obs = append(s.obs, id)
	}
	return
}

func clip(s string) string {
	s = strings.Trim(strconv.QuoteToASCII(s), "\"")
	if len(s) > 160 {
		return s[:100] + " ... " + s[len(s)-50:]
	}
	return s
}
func tail(s string, n int) string {
	if len(s) > n {
		return s[len(s)-n:]
	}
	return s
}

// ---------------------------------------------------------------------------------------------------------------
// producers' programs

const (
	opLog = iota
	opErr
	opSetSource
	opAppend
)

type pop struct {
	Op int
	K  int // message index (opLog/opErr) or index into the appendable members (opAppend)
}

func genPrograms(sc Scenario, rng *rand.Rand, nAppend int) [][]pop {
	progs := make([][]pop, sc.Producers)
	appendLeft := nAppend
	for p := range progs {
		var ops []pop
		for k := 0; k < sc.Msgs; k++ {
			switch sc.Mix {
			case "log":
				ops = append(ops, pop{opLog, k})
			case "err":
				ops = append(ops, pop{opErr, k})
			default:
				// the first two producers start on different streams: two fronts inside the sink at once
				if (k == 0 && p%2 == 1) || (k > 0 && rng.Intn(2) == 0) {
					ops = append(ops, pop{opErr, k})
				} else {
					ops = append(ops, pop{opLog, k})
				}
			}
		}
		if sc.Mix == "all" || sc.Mix == "append" {
			n := 1 + rng.Intn(4)
			for i := 0; i < n; i++ {
				at := rng.Intn(len(ops) + 1)
				ops = append(ops[:at], append([]pop{{opSetSource, i}}, ops[at:]...)...)
			}
		}
		progs[p] = ops
	}
	if sc.Mix == "append" {
		for i := 0; appendLeft > 0; i++ {
			p := rng.Intn(sc.Producers)
			at := rng.Intn(len(progs[p]) + 1)
			progs[p] = append(progs[p][:at], append([]pop{{opAppend, nAppend - appendLeft}}, progs[p][at:]...)...)
			appendLeft--
		}
	}
	return progs
}

// ---------------------------------------------------------------------------------------------------------------
// building the loggers

type built struct {
	L         logs.Loggers
	multi     logs.IMultipleLoggers
	sinks     []*sink
	appendL   []logs.Loggers // members that producers append during the run
	appendS   []*sink
	closeFn   func()
	drops     *dropRec
	async     bool
	noSink    bool
	overlaps  func() int
	skip      func(mid) bool        // records on which a member panics: the loop over the members is aborted there, so nothing is demanded for them
	postCheck func() []string       // further demands after Close (e.g. every writer was closed)
	srcFor    func(p, k int) string // the log source a producer sets (default: srcA / srcB)
	Ls        []logs.Loggers        // several instances of the same constructor alive at once: producer p uses Ls[p % len(Ls)]
}

func all(mid) bool       { return true }
func onlyErr(m mid) bool { return m.S == 'e' }
func onlyOut(m mid) bool { return m.S == 'o' }
func none(mid) bool      { return false }

// byLevel: what a sink behind a levelled back end must hold, given what the BACK END ITSELF says it emits
func byLevel(s *sink, outEmitted, errEmitted bool) *sink {
	f := func(m mid) bool { return (m.S == 'o' && outEmitted) || (m.S == 'e' && errEmitted) }
	s.required, s.allowed = f, f
	return s
}

func jsonSinkFromRec(name string, w *recWriter) *sink {
	return &sink{name: name, format: "json", read: w.bytes, required: all, allowed: all}
}

func fileReader(path string) func() []byte {
	return func() []byte {
		b, _ := os.ReadFile(path)
		return b
	}
}

// member of a composite (also used stand-alone)
func buildSimple(kind string, sc Scenario, idx int) (logs.Loggers, []*sink, error) {
	switch kind {
	case "plainstring":
		l, err := logs.NewPlainStringLogger()
		if err != nil {
			return nil, nil, err
		}
		return l, []*sink{{name: fmt.Sprintf("plainstring#%d", idx), format: "plain", read: func() []byte { return []byte(l.GetLogContent()) }, required: all, allowed: all}}, nil
	case "string":
		l, err := logs.NewStringLogger("lsrc")
		if err != nil {
			return nil, nil, err
		}
		return l, []*sink{{name: fmt.Sprintf("string#%d", idx), format: "std", src: "lsrc", read: func() []byte { return []byte(l.GetLogContent()) }, required: all, allowed: all}}, nil
	case "quiet":
		inner, err := logs.NewStringLogger("lsrc")
		if err != nil {
			return nil, nil, err
		}
		l, err := logs.NewQuietLogger(inner)
		if err != nil {
			return nil, nil, err
		}
		return l, []*sink{{name: fmt.Sprintf("quiet#%d", idx), format: "std", src: "lsrc", read: func() []byte { return []byte(inner.GetLogContent()) }, required: onlyErr, allowed: onlyErr}}, nil
	case "quietplain":
		inner, err := logs.NewPlainStringLogger()
		if err != nil {
			return nil, nil, err
		}
		l, err := logs.NewQuietLogger(inner)
		if err != nil {
			return nil, nil, err
		}
		return l, []*sink{{name: fmt.Sprintf("quietplain#%d", idx), format: "plain", read: func() []byte { return []byte(inner.GetLogContent()) }, required: onlyErr, allowed: onlyErr}}, nil
	case "json":
		w := &recWriter{}
		l, err := logs.NewJSONLogger(w, "lsrc", "src0")
		if err != nil {
			return nil, nil, err
		}
		return l, []*sink{jsonSinkFromRec(fmt.Sprintf("json#%d", idx), w)}, nil
	case "jsonfail1", "jsonfail2", "jsonfail5", "jsonslowm":
		// a member whose writer fails every k-th write (k = 1: always, like a closed writer) / is slow
		w := &recWriter{}
		switch kind {
		case "jsonfail1":
			w.failEvery = 1
		case "jsonfail2":
			w.failEvery = 2
		case "jsonfail5":
			w.failEvery = 5
		default:
			w.delay = 30 * time.Microsecond
		}
		l, err := logs.NewJSONLogger(w, "lsrc", "src0")
		if err != nil {
			return nil, nil, err
		}
		sk := jsonSinkFromRec(fmt.Sprintf("%s#%d", kind, idx), w)
		if w.failEvery > 0 {
			sk.required = none
		}
		return l, []*sink{sk}, nil
	case "jsonmultifail":
		// JSON logger over MultipleWritersWithSource; sc.Members describes the writers: ok | slow | fail1 | fail2 | fail5
		var ws []logs.WriterWithSource
		var ss []*sink
		for i, mk := range sc.Members {
			w := &recWriter{}
			switch mk {
			case "slow":
				w.delay = 30 * time.Microsecond
			case "fail1":
				w.failEvery = 1
			case "fail2":
				w.failEvery = 2
			case "fail5":
				w.failEvery = 5
			}
			sk := jsonSinkFromRec(fmt.Sprintf("writer#%d(%s)", i, mk), w)
			if w.failEvery > 0 {
				sk.required = none
			}
			ws = append(ws, w)
			ss = append(ss, sk)
		}
		mw, err := logs.NewMultipleWritersWithSource(ws...)
		if err != nil {
			return nil, nil, err
		}
		l, err := logs.NewJSONLogger(mw, "lsrc", "src0")
		if err != nil {
			return nil, nil, err
		}
		return l, ss, nil
	case "jsonmulti":
		w1, w2 := &recWriter{}, &recWriter{}
		mw, err := logs.NewMultipleWritersWithSource(w1, w2)
		if err != nil {
			return nil, nil, err
		}
		l, err := logs.NewJSONLogger(mw, "lsrc", "src0")
		if err != nil {
			return nil, nil, err
		}
		return l, []*sink{jsonSinkFromRec("jsonmulti-w1", w1), jsonSinkFromRec("jsonmulti-w2", w2)}, nil
	case "zap":
		w := &recWriter{}
		lvl := map[string]zapcore.Level{"": zap.DebugLevel, "debug": zap.DebugLevel, "info": zap.InfoLevel, "warn": zap.WarnLevel, "error": zap.ErrorLevel}[sc.Level]
		core := zapcore.NewCore(zapcore.NewJSONEncoder(zap.NewProductionEncoderConfig()), zapcore.Lock(zapcore.AddSync(w)), lvl)
		l, err := logs.NewZapLogger(zap.New(core), "lsrc")
		if err != nil {
			return nil, nil, err
		}
		// logr's Info(V=0) is zap's Info level, logr's Error is zap's Error level: ask the core what it emits
		return l, []*sink{byLevel(jsonSinkFromRec(fmt.Sprintf("zap#%d@%s", idx, sc.Level), w), core.Enabled(zapcore.InfoLevel), core.Enabled(zapcore.ErrorLevel))}, nil
	case "logrus":
		w := &recWriter{}
		ll := logrus.New()
		ll.SetOutput(w)
		ll.SetFormatter(&logrus.JSONFormatter{})
		ll.SetLevel(map[string]logrus.Level{"": logrus.DebugLevel, "debug": logrus.DebugLevel, "info": logrus.InfoLevel, "warn": logrus.WarnLevel, "error": logrus.ErrorLevel}[sc.Level])
		l, err := logs.NewLogrusLogger(ll, "lsrc")
		if err != nil {
			return nil, nil, err
		}
		return l, []*sink{byLevel(jsonSinkFromRec(fmt.Sprintf("logrus#%d@%s", idx, sc.Level), w), ll.IsLevelEnabled(logrus.InfoLevel), ll.IsLevelEnabled(logrus.ErrorLevel))}, nil
	case "hclog":
		w := &recWriter{}
		hl := hclog.New(&hclog.LoggerOptions{Output: w, JSONFormat: true, Level: map[string]hclog.Level{"": hclog.Debug, "debug": hclog.Debug, "info": hclog.Info, "warn": hclog.Warn, "error": hclog.Error}[sc.Level]})
		l, err := logs.NewHclogLogger(hl, "lsrc")
		if err != nil {
			return nil, nil, err
		}
		hs := jsonSinkFromRec(fmt.Sprintf("hclog#%d@%s", idx, sc.Level), w)
		hs.noLevel = true
		// hclogr sends logr's V(0) at hclog's ERROR level (and errors at Error level): both streams are emitted
		// whenever hclog emits errors
		return l, []*sink{byLevel(hs, hl.IsError(), hl.IsError())}, nil
	case "slog":
		w := &recWriter{}
		sl := slog.New(slog.NewJSONHandler(w, &slog.HandlerOptions{Level: map[string]slog.Level{"": slog.LevelDebug, "debug": slog.LevelDebug, "info": slog.LevelInfo, "warn": slog.LevelWarn, "error": slog.LevelError}[sc.Level]}))
		l, err := logs.NewSlogLogger(sl, "lsrc")
		if err != nil {
			return nil, nil, err
		}
		return l, []*sink{byLevel(jsonSinkFromRec(fmt.Sprintf("slog#%d@%s", idx, sc.Level), w), sl.Enabled(context.Background(), slog.LevelInfo), sl.Enabled(context.Background(), slog.LevelError))}, nil
	case "userpanic":
		l := &panicRec{}
		return l, []*sink{{name: fmt.Sprintf("userpanic#%d", idx), format: "plain", read: l.bytes, required: all, allowed: all}}, nil
	case "nestedpanic":
		leaf, err := logs.NewPlainStringLogger()
		if err != nil {
			return nil, nil, err
		}
		pl := &panicRec{}
		inner, err := logs.NewCombinedLoggers(leaf, pl)
		if err != nil {
			return nil, nil, err
		}
		return inner, []*sink{
			{name: fmt.Sprintf("nestedpanic-leaf#%d", idx), format: "plain", read: func() []byte { return []byte(leaf.GetLogContent()) }, required: all, allowed: all},
			{name: fmt.Sprintf("nestedpanic-member#%d", idx), format: "plain", read: pl.bytes, required: all, allowed: all},
		}, nil
	case "zapbuffered":
		// zap over a BUFFERING core: nothing reaches the writer before Sync, which Loggers.Close must trigger
		w := &recWriter{}
		ws := &zapcore.BufferedWriteSyncer{WS: zapcore.AddSync(w), Size: 4 << 20, FlushInterval: time.Hour}
		core := zapcore.NewCore(zapcore.NewJSONEncoder(zap.NewProductionEncoderConfig()), ws, zap.DebugLevel)
		l, err := logs.NewZapLogger(zap.New(core), "lsrc")
		if err != nil {
			return nil, nil, err
		}
		return l, []*sink{jsonSinkFromRec(fmt.Sprintf("zapbuffered#%d", idx), w)}, nil
	case "jsonbuffered":
		w := &bufWriter{}
		l, err := logs.NewJSONLogger(w, "lsrc", "src0")
		if err != nil {
			return nil, nil, err
		}
		return l, []*sink{jsonSinkFromRec(fmt.Sprintf("jsonbuffered#%d", idx), &w.recWriter)}, nil
	case "jsonmultibuffered":
		w1, w2 := &bufWriter{}, &bufWriter{}
		mw, err := logs.NewMultipleWritersWithSource(w1, w2)
		if err != nil {
			return nil, nil, err
		}
		l, err := logs.NewJSONLogger(mw, "lsrc", "src0")
		if err != nil {
			return nil, nil, err
		}
		return l, []*sink{jsonSinkFromRec("jsonmultibuffered-w1", &w1.recWriter), jsonSinkFromRec("jsonmultibuffered-w2", &w2.recWriter)}, nil
	case "asyncbuffered":
		ow, ew := &bufWriter{}, &bufWriter{}
		l, err := logs.NewAsynchronousLoggers(ow, ew, 4096, 0, "lsrc", "src0", &dropRec{})
		if err != nil {
			return nil, nil, err
		}
		return l, []*sink{
			{name: fmt.Sprintf("asyncbuffered-out#%d", idx), format: "async", read: ow.recWriter.bytes, required: onlyOut, allowed: onlyOut},
			{name: fmt.Sprintf("asyncbuffered-err#%d", idx), format: "async", read: ew.recWriter.bytes, required: onlyErr, allowed: onlyErr},
		}, nil
	case "userlazy":
		l := &lazyRec{}
		return l, []*sink{{name: fmt.Sprintf("userlazy#%d", idx), format: "plain", read: l.bytes, required: all, allowed: all}}, nil
	case "userstateless":
		statelessSink.mu.Lock()
		statelessSink.lines = nil
		statelessSink.mu.Unlock()
		return &statelessLogger{}, []*sink{{name: "userstateless", format: "plain", read: statelessSink.bytes, required: all, allowed: all}}, nil
	case "emptycomposite":
		// an EMPTY composite is added as a member and filled afterwards
		inner := &logs.MultipleLogger{}
		leaf, err := logs.NewPlainStringLogger()
		if err != nil {
			return nil, nil, err
		}
		deferredFill = append(deferredFill, func() { _ = inner.Append(leaf) })
		return inner, []*sink{{name: fmt.Sprintf("emptycomposite#%d", idx), format: "plain", read: func() []byte { return []byte(leaf.GetLogContent()) }, required: all, allowed: all}}, nil
	case "nested":
		leaf, err := logs.NewPlainStringLogger()
		if err != nil {
			return nil, nil, err
		}
		ul := &lazyRec{}
		inner, err := logs.NewCombinedLoggers(leaf, ul)
		if err != nil {
			return nil, nil, err
		}
		return inner, []*sink{
			{name: fmt.Sprintf("nested-leaf#%d", idx), format: "plain", read: func() []byte { return []byte(leaf.GetLogContent()) }, required: all, allowed: all},
			{name: fmt.Sprintf("nested-userlazy#%d", idx), format: "plain", read: ul.bytes, required: all, allowed: all},
		}, nil
	case "logrquiet":
		// logr adapter over logrimp's quiet logr logger (errors only) over zap
		w := &recWriter{}
		core := zapcore.NewCore(zapcore.NewJSONEncoder(zap.NewProductionEncoderConfig()), zapcore.Lock(zapcore.AddSync(w)), zap.DebugLevel)
		l, err := logs.NewLogrLogger(logrimp.NewQuietLogger(logrimp.NewZapLogger(zap.New(core))), "lsrc")
		if err != nil {
			return nil, nil, err
		}
		return l, []*sink{byLevel(jsonSinkFromRec(fmt.Sprintf("logrquiet#%d", idx), w), false, true)}, nil
	case "noop":
		l, err := logs.NewNoopLogger("lsrc")
		return l, nil, err
	case "fileonly":
		path := filepath.Join(sc.Dir, fmt.Sprintf("fileonly-%d-%d.log", sc.Seed, idx))
		_ = os.Remove(path)
		l, err := logs.NewFileOnlyLogger(path, "lsrc")
		if err != nil {
			return nil, nil, err
		}
		return l, []*sink{{name: "fileonly", format: "json", read: fileReader(path), required: all, allowed: all}}, nil
	case "file":
		// NewFileLogger also prints to the process's stderr through its own logrus instance (not checked here)
		path := filepath.Join(sc.Dir, fmt.Sprintf("file-%d-%d.log", sc.Seed, idx))
		_ = os.Remove(path)
		l, err := logs.NewFileLogger(path, "lsrc")
		if err != nil {
			return nil, nil, err
		}
		return l, []*sink{{name: fmt.Sprintf("file#%d", idx), format: "json", read: fileReader(path), required: all, allowed: all}}, nil
	case "asyncm":
		// an asynchronous logger that cannot overflow (ring larger than the traffic): everything must arrive
		ow, ew := &recWriter{}, &recWriter{}
		l, err := logs.NewAsynchronousLoggers(ow, ew, 4096, 0, "lsrc", "src0", &dropRec{})
		if err != nil {
			return nil, nil, err
		}
		return l, []*sink{
			{name: fmt.Sprintf("asyncm-out#%d", idx), format: "async", read: ow.bytes, required: onlyOut, allowed: onlyOut},
			{name: fmt.Sprintf("asyncm-err#%d", idx), format: "async", read: ew.bytes, required: onlyErr, allowed: onlyErr},
		}, nil
	case "fromloggers":
		// Loggers -> logr.Logger -> Loggers round trip over a plain string logger
		inner, err := logs.NewPlainStringLogger()
		if err != nil {
			return nil, nil, err
		}
		l, err := logs.NewLogrLogger(logs.NewPlainLogrLoggerFromLoggers(inner), "lsrc")
		if err != nil {
			return nil, nil, err
		}
		return l, []*sink{{name: "fromloggers", format: "plain", read: func() []byte { return []byte(inner.GetLogContent()) }, required: all, allowed: all}}, nil
	case "stdrfromloggers":
		inner, err := logs.NewStringLogger("lsrc")
		if err != nil {
			return nil, nil, err
		}
		l, err := logs.NewLogrLogger(logs.NewLogrLoggerFromLoggers(inner), "lsrc2")
		if err != nil {
			return nil, nil, err
		}
		return l, []*sink{{name: "stdrfromloggers", format: "embedded", read: func() []byte { return []byte(inner.GetLogContent()) }, required: all, allowed: all}}, nil
	}
	return nil, nil, fmt.Errorf("unknown kind %q", kind)
}

// the JSON logger and the asynchronous loggers render their arguments with fmt.Sprint, everything else with the
// Println rule (log.Println / fmt.Sprintln)
func usesSprint(name string) bool {
	return strings.HasPrefix(name, "json") || strings.HasPrefix(name, "writer#") || strings.HasPrefix(name, "async")
}

func build(sc Scenario) (*built, error) {
	b, err := build0(sc)
	if err == nil {
		for _, sk := range b.sinks {
			sk.sprint = usesSprint(sk.name)
		}
		for _, sk := range b.appendS {
			sk.sprint = usesSprint(sk.name)
		}
	}
	return b, err
}

func build0(sc Scenario) (*built, error) {
	b := &built{closeFn: func() {}}
	deferredFill = nil
	switch sc.Kind {
	case "std", "pipe":
		var l logs.Loggers
		var err error
		format := "std"
		if sc.Kind == "std" {
			l, err = logs.NewStdLogger("lsrc")
		} else {
			l, err = logs.NewPipeLogger()
			format = "plain"
		}
		if err != nil {
			return nil, err
		}
		b.L = l
		b.sinks = []*sink{
			{name: sc.Kind + "-stdout", format: format, src: "lsrc", read: fileReader(sc.Stdout), required: onlyOut, allowed: onlyOut},
			{name: sc.Kind + "-stderr", format: format, src: "lsrc", read: fileReader(sc.Stderr), required: onlyErr, allowed: onlyErr},
		}
	case "asyncstd":
		l, err := logs.NewAsynchronousStdLogger("lsrc", sc.Ring, time.Duration(sc.PollMs)*time.Millisecond, "src0")
		if err != nil {
			return nil, err
		}
		b.L, b.async = l, true
		sourceLine := regexp.MustCompile(`^Source: `)
		collision := regexp.MustCompile(`Diode set collision`)
		b.sinks = []*sink{
			{name: "asyncstd-stdout", format: "async", read: fileReader(sc.Stdout), required: none, allowed: onlyOut, foreign: sourceLine},
			{name: "asyncstd-stderr", format: "async", read: fileReader(sc.Stderr), required: none, allowed: onlyErr, foreign: collision},
		}
		b.closeFn = func() { _ = l.Close() }
	case "async", "asyncone":
		ow, ew := &recWriter{delay: time.Duration(sc.SlowUs) * time.Microsecond}, &recWriter{delay: time.Duration(sc.SlowUs) * time.Microsecond}
		b.drops = &dropRec{}
		var l logs.Loggers
		var err error
		if sc.Kind == "asyncone" {
			// both rings drain into ONE slow writer (two reader goroutines, one sink)
			l, err = logs.NewAsynchronousLoggers(ow, ow, sc.Ring, time.Duration(sc.PollMs)*time.Millisecond, "lsrc", "src0", b.drops)
			b.sinks = []*sink{{name: "asyncone", format: "async", read: ow.bytes, required: none, allowed: all}}
		} else {
			l, err = logs.NewAsynchronousLoggers(ow, ew, sc.Ring, time.Duration(sc.PollMs)*time.Millisecond, "lsrc", "src0", b.drops)
			b.sinks = []*sink{
				{name: "async-out", format: "async", read: ow.bytes, required: none, allowed: onlyOut},
				{name: "async-err", format: "async", read: ew.bytes, required: none, allowed: onlyErr},
			}
		}
		if err != nil {
			return nil, err
		}
		b.L, b.async = l, true
		b.closeFn = func() { _ = l.Close() }
	case "asyncclosefail":
		// the Close of one (or both) of the slow writers FAILS while messages are still queued; the rings cannot
		// overflow (ring >= traffic): after Close — whatever it returns — a side whose writer closed properly must
		// have been drained completely, and Close must have been called on BOTH writers
		ow, ew := &recWriter{delay: time.Duration(sc.SlowUs) * time.Microsecond}, &recWriter{delay: time.Duration(sc.SlowUs) * time.Microsecond}
		ew.closeErr = sc.Members[0] == "err" || sc.Members[0] == "both"
		ow.closeErr = sc.Members[0] == "out" || sc.Members[0] == "both"
		l, err := logs.NewAsynchronousLoggers(ow, ew, sc.Ring, time.Duration(sc.PollMs)*time.Millisecond, "lsrc", "src0", &dropRec{})
		if err != nil {
			return nil, err
		}
		b.L, b.async = l, true
		// (a side whose own writer failed to close: DiodeWriter.Close returns before closing the diode, its ring is
		// emptied later by the reader that keeps running — nothing is demanded of that side here)
		reqOut, reqErr := onlyOut, onlyErr
		if ow.closeErr {
			reqOut = none
		}
		if ew.closeErr {
			reqErr = none
		}
		b.sinks = []*sink{
			{name: "asyncclosefail-out", format: "async", read: ow.bytes, required: reqOut, allowed: onlyOut, atClose: !ow.closeErr},
			{name: "asyncclosefail-err", format: "async", read: ew.bytes, required: reqErr, allowed: onlyErr, atClose: !ew.closeErr},
		}
		b.closeFn = func() { _ = l.Close() }
		b.postCheck = func() []string {
			var bad []string
			if atomic.LoadInt32(&ow.closes) == 0 {
				bad = append(bad, "Close was never called on the OUTPUT writer")
			}
			if atomic.LoadInt32(&ew.closes) == 0 {
				bad = append(bad, "Close was never called on the ERROR writer")
			}
			return bad
		}
	case "jsonslow":
		w := &recWriter{delay: time.Duration(sc.SlowUs) * time.Microsecond}
		b.drops = &dropRec{}
		l, err := logs.NewJSONLoggerForSlowWriter(w, sc.Ring, time.Duration(sc.PollMs)*time.Millisecond, "lsrc", "src0", b.drops)
		if err != nil {
			return nil, err
		}
		b.L, b.async = l, true
		s := jsonSinkFromRec("jsonslow", w)
		s.required = none
		b.sinks = []*sink{s}
		b.closeFn = func() { _ = l.Close() }
	case "shared":
		// TWO adapters with different logger sources built from ONE underlying logr.Logger: no source may leak from
		// one into the other's messages
		w := &recWriter{}
		var x logr.Logger
		quiet, isHclog := false, false
		backend := sc.Members[0]
		if strings.HasPrefix(backend, "quiet") {
			quiet, backend = true, strings.TrimPrefix(backend, "quiet")
		}
		switch backend {
		case "zap":
			x = logrimp.NewZapLogger(zap.New(zapcore.NewCore(zapcore.NewJSONEncoder(zap.NewProductionEncoderConfig()), zapcore.Lock(zapcore.AddSync(w)), zap.DebugLevel)))
		case "logrus":
			ll := logrus.New()
			ll.SetOutput(w)
			ll.SetFormatter(&logrus.JSONFormatter{})
			ll.SetLevel(logrus.DebugLevel)
			x = logrimp.NewLogrusLogger(ll)
		case "hclog":
			isHclog = true
			x = logrimp.NewHclogLogger(hclog.New(&hclog.LoggerOptions{Output: w, JSONFormat: true, Level: hclog.Debug}))
		case "slog":
			x = logrimp.NewSlogLogger(slog.New(slog.NewJSONHandler(w, &slog.HandlerOptions{Level: slog.LevelDebug})))
		default:
			return nil, fmt.Errorf("unknown shared back end %q", backend)
		}
		if quiet {
			x = logrimp.NewQuietLogger(x)
		}
		markers := []string{"ALPHA#", "BETA#"}
		for _, mk := range markers {
			l, err := logs.NewLogrLogger(x, mk)
			if err != nil {
				return nil, err
			}
			b.Ls = append(b.Ls, l)
		}
		b.L = b.Ls[0]
		b.srcFor = func(p, k int) string { return fmt.Sprintf("%ssrc%d", markers[p%2], k%2) }
		sk := byLevel(jsonSinkFromRec("shared-"+sc.Members[0], w), !quiet, true)
		sk.noLevel = isHclog
		sk.lineCheck = func(ln string, m mid) string {
			if strings.Contains(ln, markers[1-m.P%2]) {
				return fmt.Sprintf("message of logger %s carries the source of logger %s", markers[m.P%2], markers[1-m.P%2])
			}
			if !quiet && !strings.Contains(ln, markers[m.P%2]) { // (logrimp's quiet logger attaches no values at all)
				return fmt.Sprintf("message of logger %s does not carry its source", markers[m.P%2])
			}
			return ""
		}
		b.sinks = []*sink{sk}
	case "twin", "twincomp":
		// two instances of the SAME constructor alive at once; twin: producer p uses instance p%2 and each sink must
		// hold exactly the messages sent to ITS logger; twincomp: both are members of one composite and each sink
		// holds every message exactly once
		base := sc.Members[0]
		var inst []logs.Loggers
		var closers []logs.Loggers
		for i := 0; i < 2; i++ {
			var l logs.Loggers
			var ss []*sink
			var err error
			if base == "std" {
				l, err = logs.NewStdLogger("lsrc")
				if i == 0 {
					ss = []*sink{
						{name: "std-stdout", format: "std", src: "lsrc", read: fileReader(sc.Stdout), required: onlyOut, allowed: onlyOut},
						{name: "std-stderr", format: "std", src: "lsrc", read: fileReader(sc.Stderr), required: onlyErr, allowed: onlyErr},
					}
				}
			} else {
				l, ss, err = buildSimple(base, sc, i)
			}
			if err != nil {
				return nil, err
			}
			if sc.Kind == "twin" && base != "std" {
				i := i
				for _, sk := range ss {
					req, alw := sk.required, sk.allowed
					sk.required = func(m mid) bool { return m.P%2 == i && req(m) }
					sk.allowed = func(m mid) bool { return m.P%2 == i && alw(m) }
				}
			}
			inst = append(inst, l)
			b.sinks = append(b.sinks, ss...)
			if base == "asyncm" {
				closers = append(closers, l)
			}
		}
		b.closeFn = func() {
			for _, c := range closers {
				_ = c.Close()
			}
		}
		if sc.Kind == "twin" {
			b.Ls = inst
			b.L = inst[0]
		} else {
			m, err := logs.NewCombinedLoggers(inst...)
			if err != nil {
				return nil, err
			}
			b.L, b.multi = m, m
		}
	case "multi", "combined":
		var members []logs.Loggers
		for i, mk := range sc.Members {
			l, ss, err := buildSimple(mk, sc, i)
			if err != nil {
				return nil, err
			}
			members = append(members, l)
			b.sinks = append(b.sinks, ss...)
		}
		var m logs.IMultipleLoggers
		var err error
		if sc.Kind == "multi" {
			m, err = logs.NewMultipleLoggers("lsrc", members...)
		} else {
			m, err = logs.NewCombinedLoggers(members...)
		}
		if err != nil {
			return nil, err
		}
		b.L, b.multi = m, m
		for _, mk := range sc.Members {
			if strings.Contains(mk, "panic") {
				b.skip = panicsOn
			}
		}
		for _, f := range deferredFill {
			f()
		}
		deferredFill = nil
		if sc.Mix == "append" {
			kinds := []string{"plainstring", "userlazy", "string"}
			for i, mk := range kinds {
				l, ss, err := buildSimple(mk, sc, 100+i)
				if err != nil {
					return nil, err
				}
				b.appendL = append(b.appendL, l)
				b.appendS = append(b.appendS, ss[0])
			}
		}
	default:
		l, ss, err := buildSimple(sc.Kind, sc, 0)
		if err != nil {
			return nil, err
		}
		b.L, b.sinks = l, ss
		b.noSink = len(ss) == 0
		if strings.HasSuffix(sc.Kind, "buffered") {
			// the history ends in Close(); delivery is judged after it
			b.closeFn = func() { _ = l.Close() }
		}
	}
	return b, nil
}

// ---------------------------------------------------------------------------------------------------------------
// one concurrent run

type runObs struct {
	corrupt, unexpected, dup, lost []string
	sent, delivered, reported      int
	panicMsg                       string
	hang                           bool
	collisions                     int64
	notClosed                      []string
}

// guarded: the caller of a logger recovers from a panic raised by a member and goes on
func guarded(recoverPanics bool, f func()) {
	if recoverPanics {
		defer func() { _ = recover() }()
	}
	f()
}

// watchdog: no producer may block; 120 s by default, 10 s where a blocked composite is the failure looked for
func watchdog(sc Scenario) time.Duration {
	for _, m := range sc.Members {
		if strings.Contains(m, "panic") {
			return 10 * time.Second
		}
	}
	return 120 * time.Second
}

func truncateStd(sc Scenario) {
	if sc.Stdout != "" {
		_ = os.Truncate(sc.Stdout, 0)
		_ = os.Truncate(sc.Stderr, 0)
	}
}

func runOnce(sc Scenario, res *WResult, emitCase bool) (ob runObs) {
	rng := rand.New(rand.NewSource(sc.Seed))
	truncateStd(sc)
	coll0 := atomic.LoadInt64(&collisions.n)
	b, err := build(sc)
	if err != nil {
		ob.panicMsg = "constructor failed: " + err.Error()
		return
	}
	progs := genPrograms(sc, rng, len(b.appendL))
	// required messages of appended members: those the appending producer logs after its own Append returned
	appendedBy := map[int]int{}
	appendedAt := map[int]int{}
	for p, ops := range progs {
		for i, o := range ops {
			if o.Op == opAppend {
				appendedBy[o.K], appendedAt[o.K] = p, i
			}
		}
	}
	start := make(chan struct{})
	var wg sync.WaitGroup
	var panics atomic.Value
	for p := range progs {
		wg.Add(1)
		go func(p int) {
			defer wg.Done()
			defer func() {
				if e := recover(); e != nil {
					panics.Store(fmt.Sprintf("producer %d: %v", p, e))
				}
			}()
			<-start
			L := b.L
			if len(b.Ls) > 0 {
				L = b.Ls[p%len(b.Ls)]
			}
			for _, o := range progs[p] {
				switch o.Op {
				case opLog:
					guarded(b.skip != nil, func() { L.Log(msgArgs(sc.Seed, mid{p, 'o', o.K})...) })
				case opErr:
					guarded(b.skip != nil, func() { L.LogError(msgArgs(sc.Seed, mid{p, 'e', o.K})...) })
				case opSetSource:
					src := []string{"srcA", "srcB"}[(p+o.K)%2]
					if b.srcFor != nil {
						src = b.srcFor(p, o.K)
					}
					_ = L.SetLogSource(src)
				case opAppend:
					_ = b.multi.Append(b.appendL[o.K])
				}
			}
		}(p)
	}
	done := make(chan struct{})
	go func() { wg.Wait(); close(done) }()
	close(start)
	select {
	case <-done:
	case <-time.After(watchdog(sc)):
		ob.hang = true
		return
	}
	closed := make(chan struct{})
	go func() { b.closeFn(); close(closed) }()
	select {
	case <-closed:
	case <-time.After(60 * time.Second):
		ob.hang = true
		return
	}
	if v := panics.Load(); v != nil {
		ob.panicMsg = v.(string)
	}
	for _, sk := range b.sinks {
		if sk.atClose {
			sk.snap, sk.snapped = sk.read(), true
		}
	}
	if b.postCheck != nil {
		ob.notClosed = b.postCheck()
	}

	// what was sent
	sent := map[mid]bool{}
	for p, ops := range progs {
		for _, o := range ops {
			if o.Op == opLog {
				sent[mid{p, 'o', o.K}] = true
			} else if o.Op == opErr {
				sent[mid{p, 'e', o.K}] = true
			}
		}
	}
	sinks := append([]*sink(nil), b.sinks...)
	for i, s := range b.appendS {
		i := i
		p, at := appendedBy[i], appendedAt[i]
		after := map[mid]bool{}
		for j, o := range progs[p] {
			if j > at && (o.Op == opLog || o.Op == opErr) {
				st := byte('o')
				if o.Op == opErr {
					st = 'e'
				}
				after[mid{p, st, o.K}] = true
			}
		}
		s.required = func(m mid) bool { return after[m] }
		s.name = fmt.Sprintf("appended#%d(%s)", i, s.name)
		sinks = append(sinks, s)
	}
	evaluate := func() {
		ob.corrupt, ob.unexpected, ob.dup, ob.lost = nil, nil, nil, nil
		totalDelivered := 0
		for _, s := range sinks {
			c, u := s.parse(sc.Seed)
			for _, x := range c {
				ob.corrupt = append(ob.corrupt, s.name+": "+x)
			}
			for _, x := range u {
				ob.unexpected = append(ob.unexpected, s.name+": "+x)
			}
			seen := map[mid]int{}
			for _, m := range s.obs {
				seen[m]++
				if !sent[m] {
					ob.corrupt = append(ob.corrupt, fmt.Sprintf("%s: message %v was never sent", s.name, m))
				} else if !s.allowed(m) {
					ob.unexpected = append(ob.unexpected, fmt.Sprintf("%s: holds message p%d.%c.%d which it must not hold", s.name, m.P, m.S, m.K))
				}
			}
			for m, n := range seen {
				if n > 1 {
					ob.dup = append(ob.dup, fmt.Sprintf("%s: message p%d.%c.%d delivered %d times", s.name, m.P, m.S, m.K, n))
				}
			}
			missing := 0
			var first mid
			for m := range sent {
				if s.required(m) && !(b.skip != nil && b.skip(m)) && seen[m] == 0 {
					if missing == 0 || m.K < first.K {
						first = m
					}
					missing++
				}
			}
			if missing > 0 {
				req := 0
				for m := range sent {
					if s.required(m) && !(b.skip != nil && b.skip(m)) {
						req++
					}
				}
				ob.lost = append(ob.lost, fmt.Sprintf("%s: %d of %d messages missing (e.g. p%d.%c.%d); %d lines found", s.name, missing, req, first.P, first.S, first.K, len(s.obs)))
			}
			totalDelivered += len(seen)
		}
		ob.sent, ob.delivered = len(sent), totalDelivered
		if b.drops != nil {
			ob.reported, _ = b.drops.total()
		}
	}
	evaluate()
	ob.collisions = atomic.LoadInt64(&collisions.n) - coll0
	if b.async && ob.sent-ob.delivered-ob.reported > 0 {
		// only what is still missing after a grace period counts as lost
		time.Sleep(50 * time.Millisecond)
		evaluate()
	}
	sort.Strings(ob.corrupt)
	sort.Strings(ob.lost)
	sort.Strings(ob.dup)
	sort.Strings(ob.unexpected)

	if emitCase && len(ob.corrupt)+len(ob.dup)+len(ob.unexpected) == 0 && ob.panicMsg == "" {
		emitCases(sc, b, progs, sinks, ob, res)
	}
	return
}

// ---------------------------------------------------------------------------------------------------------------
// Coq terms

func coqMsg(m mid) string {
	s := 0
	if m.S == 'e' {
		s = 1
	}
	return fmt.Sprintf("[%d; %d; %d]", m.P, s, m.K)
}
func coqNat(n int) string { return fmt.Sprintf("%d%%nat", n) }

func emitCases(sc Scenario, b *built, progs [][]pop, sinks []*sink, ob runObs, res *WResult) {
	switch {
	case sc.Kind == "string" || sc.Kind == "plainstring" || sc.Kind == "fromloggers":
		if len(ob.lost) > 0 {
			return // the oracle reports it; the model has nothing to say about an incomplete sink
		}
		var ps []string
		for p, ops := range progs {
			var os_ []string
			for _, o := range ops {
				switch o.Op {
				case opLog:
					os_ = append(os_, fmt.Sprintf("(%s, %s)", coqNat(0), coqMsg(mid{p, 'o', o.K})))
				case opErr:
					os_ = append(os_, fmt.Sprintf("(%s, %s)", coqNat(1), coqMsg(mid{p, 'e', o.K})))
				}
			}
			ps = append(ps, h.List(os_))
		}
		var obs []string
		for _, m := range sinks[0].obs {
			obs = append(obs, fmt.Sprintf("(%s, %s)", coqNat(m.P), coqMsg(m)))
		}
		res.Cases = append(res.Cases, caseOut{Term: fmt.Sprintf("(CSink %s %s)", h.List(ps), h.List(obs)), Desc: sc})
	case sc.Kind == "multi" || sc.Kind == "combined" || sc.Kind == "jsonmultifail":
		if len(ob.lost) > 0 {
			return
		}
		emitMultiCase(sc, b, progs, sinks, res)
	case sc.Kind == "async" && sc.Mix == "log":
		// one ring in use: what each producer sent, what reached the slow writer, what was reported
		var ps []string
		for p, ops := range progs {
			var ms []string
			for _, o := range ops {
				if o.Op == opLog {
					ms = append(ms, coqMsg(mid{p, 'o', o.K}))
				}
			}
			ps = append(ps, h.List(ms))
		}
		var del []string
		for _, m := range sinks[0].obs {
			del = append(del, coqMsg(m))
		}
		if un := ob.sent - ob.delivered - ob.reported; un > 0 {
			// messages neither delivered nor reported: this run is judged by the oracle below (the known diode defect
			// stuck-in-ring-at-close, or a silent drop to be confirmed 3 of 3) — the model of the ring has no such run,
			// so it is not handed to the correspondence as well (a rare collision must not break the tie by itself)
			res.Counts["async-case-skipped:unaccounted-messages"]++
		} else {
			res.Cases = append(res.Cases, caseOut{Term: fmt.Sprintf("(CRingStress %s %s %s %s)", coqNat(sc.Ring), h.List(ps), h.List(del), coqNat(ob.reported)), Desc: sc})
		}
	}
}

// memberSpec: (quiet, every k-th write fails, usable in a correspondence case)
func memberSpec(kind string) (bool, int, bool) {
	switch kind {
	case "plainstring", "string", "ok", "slow", "jsonslowm", "userlazy", "userstateless":
		return false, 0, true
	case "quiet", "quietplain":
		return true, 0, true
	case "fail1", "jsonfail1":
		return false, 1, true
	case "fail2", "jsonfail2":
		return false, 2, true
	case "fail5", "jsonfail5":
		return false, 5, true
	}
	return false, 0, false
}

// composite: member 0 must be an unfiltered synchronous member (its order is the order in which Log calls obtained
// the composite's lock); an appended member joined just before the first message it holds.
func emitMultiCase(sc Scenario, b *built, progs [][]pop, sinks []*sink, res *WResult) {
	// member 0 must be healthy and unfiltered: its order is the order of acceptance
	if len(sc.Members) == 0 || (sc.Members[0] != "plainstring" && sc.Members[0] != "ok") {
		return
	}
	for _, mk := range sc.Members {
		if _, _, ok := memberSpec(mk); !ok {
			return
		}
	}
	G := sinks[0].obs
	nInit := len(sc.Members)
	// position in G before which each appended member joined
	joinBefore := map[int]int{} // appended index -> index in G (len(G) = never saw anything)
	for i := range b.appendS {
		s := sinks[nInit+i]
		joinBefore[i] = len(G)
		if len(s.obs) > 0 {
			for gi, m := range G {
				if m == s.obs[0] {
					joinBefore[i] = gi
					break
				}
			}
		}
	}
	next := make([]int, len(progs)) // next op of each producer
	members := nInit
	var sched []string
	var order []int // appended indices in the order in which they join
	runNonLog := func(p int, upto int) {
		// run the pending non-log operations of producer p, up to and including program index upto (or all pending ones before its next log when upto < 0)
		for next[p] < len(progs[p]) {
			o := progs[p][next[p]]
			if o.Op == opLog || o.Op == opErr {
				return
			}
			sched = append(sched, coqNat(p), coqNat(p))
			if o.Op == opAppend {
				members++
				order = append(order, o.K)
			}
			next[p]++
			if upto >= 0 && next[p] > upto {
				return
			}
		}
	}
	appendOwner := map[int][2]int{}
	for p, ops := range progs {
		for i, o := range ops {
			if o.Op == opAppend {
				appendOwner[o.K] = [2]int{p, i}
			}
		}
	}
	joined := map[int]bool{}
	for gi, m := range G {
		// members that joined just before this message, in the order of their first messages... several may share gi
		for i := range b.appendS {
			if !joined[i] && joinBefore[i] == gi {
				ow := appendOwner[i]
				runNonLog(ow[0], ow[1])
				joined[i] = true
			}
		}
		runNonLog(m.P, -1)
		if next[m.P] >= len(progs[m.P]) {
			return // inconsistent observation: the oracle decides, no case
		}
		for j := 0; j < members+2; j++ {
			sched = append(sched, coqNat(m.P))
		}
		next[m.P]++
	}
	for p := range progs {
		runNonLog(p, -1)
	}
	for p := range progs {
		if next[p] != len(progs[p]) {
			return
		}
	}
	// programs
	var ps []string
	for p, ops := range progs {
		var os_ []string
		for _, o := range ops {
			switch o.Op {
			case opLog:
				os_ = append(os_, "MLog SOut "+coqMsg(mid{p, 'o', o.K}))
			case opErr:
				os_ = append(os_, "MLog SErr "+coqMsg(mid{p, 'e', o.K}))
			case opSetSource:
				os_ = append(os_, "MSetSource")
			case opAppend:
				os_ = append(os_, "MAppend false")
			}
		}
		ps = append(ps, h.List(os_))
	}
	var quiets []string
	for _, mk := range sc.Members {
		q, k, _ := memberSpec(mk)
		quiets = append(quiets, fmt.Sprintf("(%s, %s)", h.Bool(q), coqNat(k)))
	}
	sinkTerm := func(s *sink) string {
		var ms []string
		for _, m := range s.obs {
			ms = append(ms, fmt.Sprintf("(%s, %s)", coqNat(m.P), coqMsg(m)))
		}
		return h.List(ms)
	}
	var ss []string
	for i := 0; i < nInit; i++ {
		ss = append(ss, sinkTerm(sinks[i]))
	}
	for _, i := range order {
		ss = append(ss, sinkTerm(sinks[nInit+i]))
	}
	res.Cases = append(res.Cases, caseOut{Term: fmt.Sprintf("(CMulti %s %s %s %s)", h.List(quiets), h.List(ps), h.List(sched), h.List(ss)), Desc: sc})
}

// ---------------------------------------------------------------------------------------------------------------
// scripted ring run: the reader goroutine of the diode is held inside the slow writer

type gateWriter struct {
	arrived chan mid
	release chan struct{}
	seed    int64
	bad     atomic.Value
}

func (g *gateWriter) Write(p []byte) (int, error) {
	id, ok := parseHeader(string(p))
	if !ok {
		g.bad.Store("slow writer received something that is not a message: " + clip(string(p)))
		return len(p), nil
	}
	if !bytes.HasSuffix(p, []byte(token(g.seed, id)+"\n")) || !asyncLineRe.Match(bytes.TrimSuffix(p, []byte("\n"))) {
		g.bad.Store("slow writer received an altered message: " + clip(string(p)))
	}
	g.arrived <- id
	<-g.release
	return len(p), nil
}
func (g *gateWriter) Close() error           { return nil }
func (g *gateWriter) SetSource(string) error { return nil }

func runScript(sc Scenario, res *WResult) {
	res.Evals++
	coll0 := atomic.LoadInt64(&collisions.n)
	gw := &gateWriter{arrived: make(chan mid, 4), release: make(chan struct{}), seed: sc.Seed}
	ew := &recWriter{}
	drops := &dropRec{}
	l, err := logs.NewAsynchronousLoggers(gw, ew, sc.Ring, time.Duration(sc.PollMs)*time.Millisecond, "lsrc", "src0", drops)
	if err != nil {
		res.fail("worker-crash:ring-script", "constructor failed: "+err.Error(), sc)
		return
	}
	seqOf := map[mid]int{}
	var sentIDs, taken []mid
	w, r := 0, 0
	busy := false
	stuck := false
	wait := func() bool {
		select {
		case id := <-gw.arrived:
			taken = append(taken, id)
			r = seqOf[id] + 1
			busy = true
			return true
		case <-time.After(3 * time.Second): // the poller looks every millisecond
			stuck = true
			return false
		}
	}
	var script []string
	step := func(ev int) bool {
		if ev == 1 {
			id := mid{0, 'o', w}
			seqOf[id] = w
			sentIDs = append(sentIDs, id)
			script = append(script, "SSet "+coqMsg(id))
			l.Log(token(sc.Seed, id))
			w++
			if !busy {
				return wait()
			}
			return true
		}
		if !busy {
			return true // nothing to release: not part of the script
		}
		script = append(script, "SRelease")
		busy = false
		gw.release <- struct{}{}
		if r < w {
			return wait()
		}
		return true
	}
	for _, ev := range sc.Script {
		if !step(ev) {
			break
		}
	}
	// drain
	for !stuck && busy {
		if !step(0) {
			break
		}
	}
	closed := make(chan struct{})
	go func() { _ = l.Close(); close(closed) }()
	select {
	case <-closed:
	case <-time.After(5 * time.Second):
		stuck = true
	}
	if stuck && atomic.LoadInt64(&collisions.n) > coll0 {
		// the known diode defect hit this scripted run: a Set collided with the polling reader on a stale bucket and
		// the reader is stuck behind the emptied slot (see runGap); not scriptable, no case
		res.Counts["ring-script-hit-by-gap"]++
		res.fail("stuck-in-ring-at-close", fmt.Sprintf("scripted ring %d: after a Set collision the reader stayed behind an emptied slot (sent %d, readIndex %d)", sc.Ring, w, r), sc)
		return
	}
	if stuck {
		res.fail("hang:ring-script", fmt.Sprintf("ring %d: the reader did not deliver a message that was in the ring (sent %d, readIndex %d)", sc.Ring, w, r), sc)
		return
	}
	if v := gw.bad.Load(); v != nil {
		res.fail("corrupt:ring-script", v.(string), sc)
	}
	reported, alerts := drops.total()
	// oracle: delivered messages are distinct sent messages; nothing is lost silently
	seen := map[mid]bool{}
	for _, m := range taken {
		if _, ok := seqOf[m]; !ok {
			res.fail("corrupt:ring-script", fmt.Sprintf("delivered message %v was never sent", m), sc)
		}
		if seen[m] {
			res.fail("duplicate:ring-script", fmt.Sprintf("message %v delivered twice", m), sc)
		}
		seen[m] = true
	}
	if w-len(seen) > reported {
		res.fail("silent-drop:ring-script", fmt.Sprintf("ring %d: %d sent, %d delivered, but only %d reported as dropped", sc.Ring, w, len(seen), reported), sc)
	}
	res.Counts["ring-script"]++
	if w-len(seen) > 0 {
		res.Counts["ring-script-with-drops"]++
	}
	res.Distinct = append(res.Distinct, fmt.Sprintf("ringscript|%d|%d|%v", sc.Ring, sc.PollMs, sc.Script))
	var tk, al []string
	for _, m := range taken {
		tk = append(tk, coqMsg(m))
	}
	for _, a := range alerts {
		al = append(al, coqNat(a))
	}
	res.Cases = append(res.Cases, caseOut{Term: fmt.Sprintf("(CRing %s %s %s %s)", coqNat(sc.Ring), h.List(script), h.List(tk), h.List(al)), Desc: sc})
	if len(res.Samples) < 3 {
		res.Samples = append(res.Samples, map[string]any{"kind": "ring-script", "ring": sc.Ring, "sent": w, "delivered": len(taken), "alerts": alerts})
	}
}

// ---------------------------------------------------------------------------------------------------------------
// Known finding (third-party diode, many_to_one.go): a producer's Set loads the bucket of its slot, the reader swaps
// that slot to nil (it held a STALE bucket left behind by an earlier fast-forward), the producer's compare-and-swap
// fails ("Diode set collision") and the producer re-sends under the NEXT sequence number.  The slot at readIndex is
// now empty and nobody will fill it before the writers have gone round the whole ring again: the reader is stuck,
// and everything sent from then on stays in the ring.  Close() ends the reader: those messages are neither delivered
// nor reported.  The interleaving cannot be forced from outside (no hook between the load and the CAS), so this
// replay ARMS the precondition deterministically (scripted reader, see runScript) and then races one Set against the
// reader's TryNext with a swept delay, until the reader is observed stuck or the budget is used up.

type spinGate struct {
	arrived chan mid
	release chan int // spin count before returning; <0 = return at once
	goFlag  *int32
	seed    int64
}

func (g *spinGate) Write(p []byte) (int, error) {
	id, ok := parseHeader(string(p))
	if !ok {
		id = mid{-1, 'o', -1}
	}
	g.arrived <- id
	d := <-g.release
	if d >= 0 {
		for atomic.LoadInt32(g.goFlag) == 0 {
		}
		for i := 0; i < d; i++ {
			_ = atomic.LoadInt32(g.goFlag)
		}
	}
	return len(p), nil
}
func (g *spinGate) Close() error           { return nil }
func (g *spinGate) SetSource(string) error { return nil }

var gapStart time.Time

func runGap(sc Scenario, res *WResult) {
	res.Evals++
	n := sc.Ring
	var goFlag int32
	gw := &spinGate{arrived: make(chan mid, 4), release: make(chan int), goFlag: &goFlag, seed: sc.Seed}
	ew := &recWriter{}
	drops := &dropRec{}
	l, err := logs.NewAsynchronousLoggers(gw, ew, n, time.Millisecond, "lsrc", "src0", drops)
	if err != nil {
		return
	}
	sent, delivered := 0, 0
	send := func() { l.Log(token(sc.Seed, mid{0, 'o', sent})); sent++ }
	arrive := func(d time.Duration) bool {
		select {
		case <-gw.arrived:
			delivered++
			return true
		case <-time.After(d):
			return false
		}
	}
	deadline := time.Now().Add(time.Duration(sc.Msgs) * time.Millisecond)
	if cap := gapStart.Add(4 * time.Second); !gapStart.IsZero() && cap.Before(deadline) {
		deadline = cap
	}
	attempts := 0
	stuck := false
	busy := false
	for !stuck && time.Now().Before(deadline) {
		attempts++
		// 1. fill: the reader takes the first message and is held; n-1 more fill the ring behind it
		if busy { // (left over from the previous attempt)
			gw.release <- -1
			busy = false
		}
		send()
		if !arrive(100 * time.Millisecond) {
			stuck = true
			break
		}
		busy = true
		for i := 0; i < n-1; i++ {
			send()
		}
		// 2. lap the reader by one slot
		send()
		send()
		// 3. the reader fast-forwards; readIndex now points at a slot holding a stale bucket, and readIndex = writeIndex
		gw.release <- -1
		if !arrive(100 * time.Millisecond) {
			stuck = true
			break
		}
		// 4. race one Set against the reader's TryNext on that slot
		atomic.StoreInt32(&goFlag, 0)
		ready := make(chan struct{})
		fin := make(chan struct{})
		go func() {
			close(ready)
			for atomic.LoadInt32(&goFlag) == 0 {
			}
			send()
			close(fin)
		}()
		<-ready
		gw.release <- (attempts * 53) % 4000
		time.Sleep(20 * time.Microsecond)
		atomic.StoreInt32(&goFlag, 1)
		<-fin
		// 5. did the message arrive?
		if !arrive(40 * time.Millisecond) {
			stuck = true
			busy = false
			break
		}
		busy = true
	}
	if busy {
		gw.release <- -1
	}
	// let the reader settle, then close: whatever is still in the ring is gone
	go func() {
		for range gw.arrived {
			delivered++
			gw.release <- -1
		}
	}()
	time.Sleep(5 * time.Millisecond)
	closed := make(chan struct{})
	go func() { _ = l.Close(); close(closed) }()
	select {
	case <-closed:
	case <-time.After(10 * time.Second):
	}
	time.Sleep(2 * time.Millisecond)
	reported, _ := drops.total()
	res.Counts["ring-gap-attempts"] += attempts
	if stuck && sent-delivered > reported {
		res.Counts["ring-gap-reproduced"]++
		res.fail("stuck-in-ring-at-close", fmt.Sprintf("ring %d: after %d attempts the reader was stuck on an emptied slot; %d sent, %d delivered, %d reported as dropped: %d message(s) lost silently at Close",
			n, attempts, sent, delivered, reported, sent-delivered-reported), sc)
	} else {
		res.Notes = append(res.Notes, fmt.Sprintf("known finding 'stuck-in-ring-at-close' not reproduced in %d attempts (stuck=%v sent=%d delivered=%d reported=%d)", attempts, stuck, sent, delivered, reported))
	}
}

// ---------------------------------------------------------------------------------------------------------------
// membership scripts (sequential): composites built from a slice the CALLER owns (spare capacity) and keeps using.
// Oracle by member identity: each composite's members are exactly those given at construction plus its own Appends;
// each of them receives each message exactly once; nobody else receives anything.

const aliasUniverse = 12

func runAlias(sc Scenario, res *WResult) {
	res.Evals++
	type pair struct{ c, m int }
	content := make([]func() []byte, aliasUniverse+1)
	var lg []logs.Loggers
	var wr []logs.WriterWithSource
	if sc.Ctor == "writers" {
		wr = make([]logs.WriterWithSource, aliasUniverse+1)
		for id := 1; id <= aliasUniverse; id++ {
			w := &recWriter{}
			wr[id], content[id] = w, w.bytes
		}
	} else {
		lg = make([]logs.Loggers, aliasUniverse+1)
		for id := 1; id <= aliasUniverse; id++ {
			l, err := logs.NewPlainStringLogger()
			if err != nil {
				res.fail("worker-crash:alias", err.Error(), sc)
				return
			}
			lg[id], content[id] = l, func() []byte { return []byte(l.GetLogContent()) }
		}
	}
	backing := make([]int, sc.Init, sc.Cap) // the oracle's own view of the caller's slice (identities)
	var backL []logs.Loggers
	var backW []logs.WriterWithSource
	if sc.Ctor == "writers" {
		backW = make([]logs.WriterWithSource, sc.Init, sc.Cap)
	} else {
		backL = make([]logs.Loggers, sc.Init, sc.Cap)
	}
	for i := 0; i < sc.Init; i++ {
		backing[i] = i + 1
		if sc.Ctor == "writers" {
			backW[i] = wr[i+1]
		} else {
			backL[i] = lg[i+1]
		}
	}
	compL := map[int]logs.IMultipleLoggers{}
	compW := map[int]*logs.MultipleWritersWithSource{}
	own := map[int][]int{}
	expect := map[int][]pair{}
	exists := func(c int) bool { _, ok := own[c]; return ok }
	for _, o := range sc.AScript {
		switch o[0] {
		case 0:
			var err error
			switch sc.Ctor {
			case "writers":
				compW[o[1]], err = logs.NewMultipleWritersWithSource(backW...)
			case "multi":
				compL[o[1]], err = logs.NewMultipleLoggers("lsrc", backL...)
			default:
				compL[o[1]], err = logs.NewCombinedLoggers(backL...)
			}
			if err != nil {
				res.fail("worker-crash:alias", "constructor failed: "+err.Error(), sc)
				return
			}
			own[o[1]] = append([]int(nil), backing...)
		case 1:
			if !exists(o[1]) {
				continue
			}
			if sc.Ctor == "writers" {
				_ = compW[o[1]].AddWriters(wr[o[2]])
			} else {
				_ = compL[o[1]].Append(lg[o[2]])
			}
			own[o[1]] = append(own[o[1]], o[2])
		case 2:
			if o[1] < len(backing) {
				backing[o[1]] = o[2]
				if sc.Ctor == "writers" {
					backW[o[1]] = wr[o[2]]
				} else {
					backL[o[1]] = lg[o[2]]
				}
			}
		case 3:
			backing = append(backing, o[1])
			if sc.Ctor == "writers" {
				backW = append(backW, wr[o[1]])
			} else {
				backL = append(backL, lg[o[1]])
			}
		case 4:
			if !exists(o[1]) {
				continue
			}
			tok := token(sc.Seed, mid{o[1], 'o', o[2]})
			if sc.Ctor == "writers" {
				_, _ = compW[o[1]].Write([]byte(tok + "\n"))
			} else {
				compL[o[1]].Log(tok)
			}
			for _, id := range own[o[1]] {
				expect[id] = append(expect[id], pair{o[1], o[2]})
			}
		}
	}
	// observations, by identity
	var obsTerms []string
	for id := 1; id <= aliasUniverse; id++ {
		sk := &sink{name: fmt.Sprintf("logger#%d", id), format: "plain", read: content[id], single: true}
		corrupt, _ := sk.parse(sc.Seed)
		if len(corrupt) > 0 {
			res.fail("corrupt:alias", sk.name+": "+corrupt[0], sc)
		}
		var got []pair
		var ts []string
		for _, m := range sk.obs {
			got = append(got, pair{m.P, m.K})
			ts = append(ts, fmt.Sprintf("(%s, %s)", coqNat(m.P), coqNat(m.K)))
		}
		obsTerms = append(obsTerms, fmt.Sprintf("(%s, %s)", coqNat(id), h.List(ts)))
		want := expect[id]
		cnt := map[pair]int{}
		for _, x := range want {
			cnt[x]++
		}
		for _, x := range got {
			cnt[x]--
		}
		for x, n := range cnt {
			if n > 0 {
				res.fail("lost:alias", fmt.Sprintf("%s constructor: logger #%d is a member of composite %d but did not receive message %d", sc.Ctor, id, x.c, x.m), sc)
			} else if n < 0 {
				res.fail("unexpected:alias", fmt.Sprintf("%s constructor: logger #%d received message %d of composite %d %d time(s) too many (it is not a member, or not that often)", sc.Ctor, id, x.m, x.c, -n), sc)
			}
		}
	}
	res.Counts["alias-script:"+sc.Ctor]++
	res.Distinct = append(res.Distinct, fmt.Sprintf("alias|%s|%d|%d|%v", sc.Ctor, sc.Init, sc.Cap, sc.AScript))
	var init, script []string
	for i := 1; i <= sc.Init; i++ {
		init = append(init, coqNat(i))
	}
	for _, o := range sc.AScript {
		switch o[0] {
		case 0:
			script = append(script, "ANew "+coqNat(o[1]))
		case 1:
			script = append(script, "AAppend "+coqNat(o[1])+" "+coqNat(o[2]))
		case 2:
			script = append(script, "ACallerSet "+coqNat(o[1])+" "+coqNat(o[2]))
		case 3:
			script = append(script, "ACallerAppend "+coqNat(o[1]))
		case 4:
			script = append(script, "ALog "+coqNat(o[1])+" "+coqNat(o[2]))
		}
	}
	res.Cases = append(res.Cases, caseOut{Term: fmt.Sprintf("(CAlias %s %s %s %s)", h.List(init), coqNat(sc.Cap), h.List(script), h.List(obsTerms)), Desc: sc})
}

// ---------------------------------------------------------------------------------------------------------------
// composite rendering (sequential): members must not influence each other.  Messages whose arguments contain / end
// with line endings, several arguments, error values; members of different kinds in a given ORDER.  Oracle: the
// content of every member of the composite = the content of a fresh logger of the same kind used ALONE with the
// same original arguments (time stamps removed).

type renderMsg struct {
	err  bool
	args []interface{}
}

func renderMessages() []renderMsg {
	return []renderMsg{
		{false, []interface{}{"m1 first line", "second line\n"}},
		{false, []interface{}{"m2 progress: 10%\r\n"}},
		{true, []interface{}{"m3 boom\n\n"}},
		{false, []interface{}{"m4 multi\nline\nbody"}},
		{false, []interface{}{"m5 a", 1, "b\n", 2.5}},
		{false, []interface{}{"\n"}},
		{true, []interface{}{"m7 trailing cr\r"}},
		{true, []interface{}{errors.New("m8 failure\n"), ": context\n"}},
		{false, []interface{}{"m9 plain"}},
		{true, []interface{}{"m10 last\r\n", "tail\n"}},
	}
}

var dateRe = regexp.MustCompile(`\d{4}/\d{2}/\d{2} \d{2}:\d{2}:\d{2}`)

func normaliseSink(sk *sink) string {
	raw := string(sk.read())
	if sk.format != "json" {
		return dateRe.ReplaceAllString(raw, "<T>")
	}
	var out []string
	for _, ln := range strings.Split(raw, "\n") {
		var obj map[string]any
		if json.Unmarshal([]byte(ln), &obj) != nil {
			out = append(out, ln)
			continue
		}
		for _, k := range []string{"ts", "time", "ctime", "@timestamp"} {
			delete(obj, k)
		}
		bs, _ := json.Marshal(obj)
		out = append(out, string(bs))
	}
	return strings.Join(out, "\n")
}

func runRender(sc Scenario, res *WResult) {
	res.Evals++
	feed := func(l logs.Loggers) {
		for _, m := range renderMessages() {
			args := append([]interface{}(nil), m.args...)
			if m.err {
				l.LogError(args...)
			} else {
				l.Log(args...)
			}
		}
	}
	var members []logs.Loggers
	var msinks [][]*sink
	for i, k := range sc.Members {
		l, ss, err := buildSimple(k, sc, i)
		if err != nil {
			res.fail("worker-crash:render", err.Error(), sc)
			return
		}
		members = append(members, l)
		msinks = append(msinks, ss)
	}
	var comp logs.Loggers
	var err error
	if sc.Ctor == "multi" {
		comp, err = logs.NewMultipleLoggers("lsrc", members...)
	} else {
		comp, err = logs.NewCombinedLoggers(members...)
	}
	if err != nil {
		res.fail("worker-crash:render", err.Error(), sc)
		return
	}
	feed(comp)
	for i, k := range sc.Members {
		solo, ss, err := buildSimple(k, sc, 100+i)
		if err != nil {
			res.fail("worker-crash:render", err.Error(), sc)
			return
		}
		if sc.Ctor == "multi" {
			_ = solo.SetLoggerSource("lsrc")
		}
		feed(solo)
		for j := range ss {
			want, got := normaliseSink(ss[j]), normaliseSink(msinks[i][j])
			if want != got {
				res.fail("corrupt:composite-render", fmt.Sprintf("%s of %v: member %d (%s) holds %q but the same logger used alone holds %q", sc.Ctor, sc.Members, i, k, clip(got), clip(want)), sc)
			}
		}
	}
	res.Counts["render:"+sc.Ctor]++
	res.Distinct = append(res.Distinct, fmt.Sprintf("render|%s|%v", sc.Ctor, sc.Members))
}

// ---------------------------------------------------------------------------------------------------------------
// worker

func runScenario(sc Scenario, res *WResult) {
	if sc.Kind == "ringscript" {
		runScript(sc, res)
		return
	}
	if sc.Kind == "alias" {
		runAlias(sc, res)
		return
	}
	if sc.Kind == "render" {
		runRender(sc, res)
		return
	}
	if sc.Kind == "ringgap" {
		// the whole replay group is capped at 4 s of wall time: a missing KNOWN-FINDING line is acceptable, a slow check is not
		if gapStart.IsZero() {
			gapStart = time.Now()
		}
		if res.Counts["ring-gap-reproduced"] == 0 && time.Since(gapStart) < 4*time.Second {
			runGap(sc, res)
		}
		return
	}
	res.Evals++
	ob := runOnce(sc, res, sc.Case)
	kind := sc.Kind
	if kind == "twin" || kind == "twincomp" {
		kind += "-" + sc.Members[0]
	}
	res.Counts["run:"+kind]++
	res.Counts["messages"] += ob.sent
	if ob.hang {
		res.fail("hang:"+kind, "producers or Close did not return within the time limit", sc)
		return
	}
	if ob.panicMsg != "" {
		res.fail("worker-crash:"+kind, ob.panicMsg, sc)
	}
	if len(ob.corrupt) > 0 {
		res.fail("corrupt:"+kind, fmt.Sprintf("%d bad lines, e.g. %s", len(ob.corrupt), ob.corrupt[0]), sc)
	}
	if len(ob.dup) > 0 {
		res.fail("duplicate:"+kind, ob.dup[0], sc)
	}
	if len(ob.unexpected) > 0 {
		res.fail("unexpected:"+kind, ob.unexpected[0], sc)
	}
	if len(ob.lost) > 0 {
		res.fail("lost:"+kind, ob.lost[0], sc)
	}
	if len(ob.notClosed) > 0 {
		res.fail("writer-not-closed:"+kind, ob.notClosed[0], sc)
	}
	isAsync := sc.Kind == "async" || sc.Kind == "asyncone" || sc.Kind == "jsonslow"
	if isAsync {
		if ob.sent-ob.delivered > 0 {
			res.Counts["async-runs-with-drops"]++
		} else {
			res.Counts["async-runs-without-drops"]++
		}
		nrings := 2
		if sc.Kind == "jsonslow" {
			nrings = 1
		}
		gapBound := nrings * (sc.Ring - 1) // what the known diode defect (stuck-in-ring-at-close) can strand: < one lap per ring
		if un := ob.sent - ob.delivered - ob.reported; un > 0 && un <= gapBound && ob.collisions > 0 {
			// an observed fact, not a timing judgement: these messages were sent, never delivered, never reported
			res.Counts["async-stuck-at-close"]++
			res.fail("stuck-in-ring-at-close", fmt.Sprintf("%s, ring %d: %d sent, %d delivered, %d reported as dropped: %d message(s) lost silently at Close", kind, sc.Ring, ob.sent, ob.delivered, ob.reported, un), sc)
		} else if un > 0 {
			// timing dependent: confirm 3 of 3 before reporting
			confirmed := 1
			last := ob
			for i := 0; i < 2; i++ {
				o2 := runOnce(sc, res, false)
				if u2 := o2.sent - o2.delivered - o2.reported; u2 > gapBound || (u2 > 0 && o2.collisions == 0) {
					confirmed++
					last = o2
				}
			}
			res.Counts["async-accounting-suspects"]++
			if confirmed == 3 {
				res.fail("silent-drop:"+kind, fmt.Sprintf("ring %d: %d sent, %d delivered, only %d reported as dropped (3 of 3 runs)", sc.Ring, last.sent, last.delivered, last.reported), sc)
			} else {
				res.Notes = append(res.Notes, fmt.Sprintf("async accounting suspect not confirmed (%d of 3): ring %d sent %d delivered %d reported %d", confirmed, sc.Ring, ob.sent, ob.delivered, ob.reported))
			}
		}
	}
	res.Distinct = append(res.Distinct, fmt.Sprintf("%s|%d|%d|%s|%v|%d|%d", sc.Kind, sc.Producers, sc.Msgs, sc.Mix, sc.Members, sc.Ring, sc.PollMs))
	if len(res.Samples) < 2 {
		res.Samples = append(res.Samples, map[string]any{"scenario": sc, "sent": ob.sent, "delivered_total_over_sinks": ob.delivered, "reported_dropped": ob.reported})
	}
}

// the diode announces a failed Set attempt on the standard logger ("Diode set collision: ...")
type collisionCounter struct{ n int64 }

func (c *collisionCounter) Write(p []byte) (int, error) {
	if bytes.Contains(p, []byte("Diode set collision")) {
		atomic.AddInt64(&c.n, 1)
	}
	return len(p), nil
}

var collisions collisionCounter

func workerMain() {
	stdlog.SetOutput(&collisions)
	bs, err := os.ReadFile(*workerSpec)
	if err != nil {
		os.Exit(3)
	}
	var scs []Scenario
	if json.Unmarshal(bs, &scs) != nil {
		os.Exit(3)
	}
	res := &WResult{Counts: map[string]int{}}
	for _, sc := range scs {
		runScenario(sc, res)
		hung := false
		for _, f := range res.Failures {
			hung = hung || strings.HasPrefix(f.Signature, "hang:")
		}
		if hung {
			break // blocked goroutines of that run are still alive: what follows in this process would not be a clean observation
		}
	}
	out, _ := json.Marshal(res)
	_ = os.WriteFile(*workerOut, out, 0o644)
}

// ---------------------------------------------------------------------------------------------------------------
// parent

func scenarios(r *h.Run) map[string][]Scenario {
	rng := r.Rng
	groups := map[string][]Scenario{}
	add := func(sc Scenario) {
		sc.Seed = rng.Int63n(1 << 40)
		g := sc.Kind
		groups[g] = append(groups[g], sc)
	}
	big := r.N(1, 3)
	prodChoices := []int{2, 3, 8, 32}
	// synchronous kinds: deterministic corner (2 producers, one per stream), then larger mixes
	for _, k := range []string{"string", "plainstring"} {
		add(Scenario{Kind: k, Producers: 2, Msgs: 400, Mix: "both"})
		add(Scenario{Kind: k, Producers: 8, Msgs: 150, Mix: "all"})
		add(Scenario{Kind: k, Producers: 32, Msgs: 40, Mix: "all"})
		add(Scenario{Kind: k, Producers: 4, Msgs: 200, Mix: "log"})
		for i := 0; i < big; i++ {
			add(Scenario{Kind: k, Producers: prodChoices[rng.Intn(4)], Msgs: 50 + rng.Intn(150), Mix: "all"})
		}
		// small runs for the correspondence with the Coq model
		for i := 0; i < r.N(40, 120); i++ {
			add(Scenario{Kind: k, Producers: 2 + rng.Intn(5), Msgs: 1 + rng.Intn(10), Mix: []string{"both", "all", "log", "err"}[rng.Intn(4)], Case: true})
		}
	}
	for _, k := range []string{"std", "pipe", "quiet", "json", "jsonmulti", "zap", "logrus", "hclog", "slog", "fileonly", "noop", "fromloggers", "stdrfromloggers"} {
		add(Scenario{Kind: k, Producers: 2, Msgs: 150, Mix: "both"})
		add(Scenario{Kind: k, Producers: 8, Msgs: 60, Mix: "all"})
		add(Scenario{Kind: k, Producers: 32, Msgs: 15, Mix: "all"})
		for i := 0; i < big; i++ {
			add(Scenario{Kind: k, Producers: prodChoices[rng.Intn(4)], Msgs: 20 + rng.Intn(80), Mix: "all"})
		}
	}
	for i := 0; i < r.N(15, 40); i++ {
		add(Scenario{Kind: "fromloggers", Producers: 2 + rng.Intn(4), Msgs: 1 + rng.Intn(8), Mix: "both", Case: true})
	}
	// composites of 1..4 members
	memberKinds := []string{"plainstring", "string", "quiet", "quietplain", "json", "zap", "noop", "slog"}
	for _, k := range []string{"multi", "combined"} {
		for n := 1; n <= 4; n++ {
			ms := []string{"plainstring"}
			for len(ms) < n {
				ms = append(ms, memberKinds[rng.Intn(len(memberKinds))])
			}
			add(Scenario{Kind: k, Producers: prodChoices[rng.Intn(4)], Msgs: 40 + rng.Intn(60), Mix: "append", Members: ms})
			add(Scenario{Kind: k, Producers: 2 + rng.Intn(6), Msgs: 30 + rng.Intn(60), Mix: "all", Members: ms})
		}
		add(Scenario{Kind: k, Producers: 32, Msgs: 12, Mix: "append", Members: []string{"plainstring", "string", "quiet", "zap"}})
		for i := 0; i < r.N(40, 120); i++ {
			n := 1 + rng.Intn(4)
			ms := []string{"plainstring"}
			for len(ms) < n {
				ms = append(ms, []string{"plainstring", "quietplain", "string", "quiet"}[rng.Intn(4)])
			}
			add(Scenario{Kind: k, Producers: 2 + rng.Intn(4), Msgs: 1 + rng.Intn(8), Mix: []string{"append", "append", "all", "both"}[rng.Intn(4)], Members: ms, Case: true})
		}
	}
	// composites with a member that FAILS some / all of its writes or is slow, in every position: the healthy members
	// must still receive everything
	failKinds := []string{"fail1", "fail2", "fail5", "slow"}
	fi := 0
	for n := 2; n <= 4; n++ {
		for pos := 0; pos < n; pos++ {
			ws := make([]string, n)
			ms := make([]string, n)
			for i := range ws {
				ws[i] = "ok"
				ms[i] = []string{"plainstring", "string", "plainstring", "json"}[i]
			}
			ws[pos] = failKinds[fi%len(failKinds)]
			ms[pos] = "json" + ws[pos]
			if ws[pos] == "slow" {
				ms[pos] = "jsonslowm"
			}
			fi++
			add(Scenario{Kind: "jsonmultifail", Producers: 2 + rng.Intn(7), Msgs: 30 + rng.Intn(30), Mix: "all", Members: ws})
			add(Scenario{Kind: "multi", Producers: 2 + rng.Intn(7), Msgs: 30 + rng.Intn(30), Mix: "append", Members: ms})
			add(Scenario{Kind: "combined", Producers: 2 + rng.Intn(7), Msgs: 30 + rng.Intn(30), Mix: "all", Members: ms})
		}
	}
	add(Scenario{Kind: "jsonmultifail", Producers: 32, Msgs: 12, Mix: "all", Members: []string{"fail5", "ok", "fail2", "ok"}})
	for i := 0; i < r.N(40, 120); i++ {
		n := 2 + rng.Intn(3)
		ws := make([]string, n)
		ms := make([]string, n)
		for j := range ws {
			ws[j], ms[j] = "ok", "plainstring"
			if j > 0 && rng.Intn(2) == 0 {
				ws[j] = failKinds[rng.Intn(len(failKinds))]
				ms[j] = "json" + ws[j]
				if ws[j] == "slow" {
					ms[j] = "jsonslowm"
				}
			}
		}
		add(Scenario{Kind: "jsonmultifail", Producers: 2 + rng.Intn(4), Msgs: 1 + rng.Intn(8), Mix: []string{"both", "all"}[rng.Intn(2)], Members: ws, Case: true})
		add(Scenario{Kind: []string{"multi", "combined"}[rng.Intn(2)], Producers: 2 + rng.Intn(4), Msgs: 1 + rng.Intn(8), Mix: []string{"append", "all"}[rng.Intn(2)], Members: ms, Case: true})
	}
	// asynchronous: ring sizes 1..1024, waiter (poll 0) and poller
	rings := []int{1, 2, 3, 4, 7, 16, 64, 1024}
	for _, k := range []string{"async", "asyncone", "jsonslow", "asyncstd"} {
		for i, ring := range rings {
			poll := 0
			if i%3 == 1 {
				poll = 1
			}
			// overflow forced: slow writer, many messages
			add(Scenario{Kind: k, Producers: prodChoices[rng.Intn(4)], Msgs: 60 + rng.Intn(60), Mix: "all", Ring: ring, PollMs: poll, SlowUs: 50})
		}
		// no overflow possible: fewer messages than slots -> everything must arrive
		add(Scenario{Kind: k, Producers: 4, Msgs: 50, Mix: "both", Ring: 1024, PollMs: 0})
		add(Scenario{Kind: k, Producers: 8, Msgs: 30, Mix: "both", Ring: 1024, PollMs: 1})
		for i := 0; i < big; i++ {
			add(Scenario{Kind: k, Producers: 2 + rng.Intn(31), Msgs: 20 + rng.Intn(100), Mix: "all", Ring: 1 + rng.Intn(1024), PollMs: rng.Intn(2), SlowUs: rng.Intn(100)})
		}
	}
	for i := 0; i < r.N(30, 90); i++ {
		add(Scenario{Kind: "async", Producers: 2 + rng.Intn(4), Msgs: 2 + rng.Intn(12), Mix: "log", Ring: []int{1, 2, 3, 4, 8, 64}[rng.Intn(6)], PollMs: rng.Intn(2), SlowUs: rng.Intn(200), Case: true})
	}
	// logr adapters over back ends at every level: what must arrive follows from the back end's own level
	for _, k := range []string{"zap", "logrus", "hclog", "slog"} {
		for _, lvl := range []string{"debug", "info", "warn", "error"} {
			add(Scenario{Kind: k, Producers: 2 + rng.Intn(5), Msgs: 20 + rng.Intn(20), Mix: "all", Level: lvl})
		}
	}
	// user-defined members: a pointer to an all-zero struct, a stateless struct, an empty composite filled later, a
	// nested composite — in every position of combined / multiple loggers, and appended during the run
	userSets := [][]string{{"userlazy"}, {"userstateless"}, {"emptycomposite"}, {"plainstring", "userlazy"}, {"userlazy", "plainstring"},
		{"userlazy", "plainstring", "userstateless"}, {"emptycomposite", "plainstring"}, {"plainstring", "emptycomposite", "userlazy"},
		{"plainstring", "nested", "userstateless", "emptycomposite"}, {"nested", "userlazy", "string", "json"}}
	for _, k := range []string{"multi", "combined"} {
		for i, ms := range userSets {
			mix := []string{"all", "append"}[i%2]
			add(Scenario{Kind: k, Producers: 2 + rng.Intn(7), Msgs: 15 + rng.Intn(25), Mix: mix, Members: ms})
		}
		for i := 0; i < r.N(10, 30); i++ {
			ms := []string{"plainstring"}
			for len(ms) < 2+rng.Intn(3) {
				ms = append(ms, []string{"userlazy", "plainstring", "quietplain"}[rng.Intn(3)])
			}
			add(Scenario{Kind: k, Producers: 2 + rng.Intn(4), Msgs: 1 + rng.Intn(8), Mix: "append", Members: ms, Case: true})
		}
	}
	// a member that PANICS on some records (the producer recovers): later records must still reach every member and
	// no producer may block
	for _, k := range []string{"multi", "combined"} {
		for _, ms := range [][]string{{"userpanic"}, {"plainstring", "userpanic"}, {"userpanic", "plainstring"}, {"string", "userpanic", "userlazy"},
			{"plainstring", "nestedpanic", "json"}, {"nestedpanic"}} {
			add(Scenario{Kind: k, Producers: 1, Msgs: 30, Mix: "both", Members: ms})
			add(Scenario{Kind: k, Producers: 2 + rng.Intn(7), Msgs: 20 + rng.Intn(20), Mix: "all", Members: ms})
		}
	}
	// buffering back ends: the history ends in Close(), delivery is judged after it
	for _, k := range []string{"zapbuffered", "jsonbuffered", "jsonmultibuffered", "asyncbuffered"} {
		add(Scenario{Kind: k, Producers: 1, Msgs: 60, Mix: "both"})
		add(Scenario{Kind: k, Producers: 2 + rng.Intn(7), Msgs: 30 + rng.Intn(30), Mix: "all"})
	}
	// asynchronous loggers whose writers fail to Close, with messages still queued at Close
	for _, side := range []string{"err", "out", "both", "none"} {
		for _, poll := range []int{0, 1} {
			add(Scenario{Kind: "asyncclosefail", Producers: 4, Msgs: 25, Mix: "both", Ring: 1024, PollMs: poll, SlowUs: 150, Members: []string{side}})
		}
		add(Scenario{Kind: "asyncclosefail", Producers: 2, Msgs: 50, Mix: []string{"log", "err", "both"}[rng.Intn(3)], Ring: 256, PollMs: 0, SlowUs: 100, Members: []string{side}})
	}
	// two adapters over ONE shared underlying logr.Logger
	for _, be := range []string{"zap", "logrus", "hclog", "slog", "quietzap", "quietlogrus", "quietslog"} {
		add(Scenario{Kind: "shared", Producers: 2, Msgs: 40, Mix: "all", Members: []string{be}})
		add(Scenario{Kind: "shared", Producers: 4 + 2*rng.Intn(3), Msgs: 20 + rng.Intn(20), Mix: "all", Members: []string{be}})
	}
	for _, mx := range []string{"both", "all"} {
		add(Scenario{Kind: "logrquiet", Producers: 2 + rng.Intn(7), Msgs: 30 + rng.Intn(30), Mix: mx})
	}
	// composite rendering: members of different kinds in every order
	for _, triple := range [][]string{{"json", "string", "plainstring"}, {"json", "zap", "quiet"}, {"logrus", "json", "slog"}, {"hclog", "json", "fileonly"}, {"json", "string"}, {"logrquiet", "json", "string"}} {
		var perm func(cur, rest []string)
		perm = func(cur, rest []string) {
			if len(rest) == 0 {
				for _, ctor := range []string{"combined", "multi"} {
					sc := Scenario{Kind: "render", Ctor: ctor, Members: append([]string(nil), cur...)}
					sc.Seed = rng.Int63n(1 << 40)
					groups["render"] = append(groups["render"], sc)
				}
				return
			}
			for i := range rest {
				nr := append(append([]string(nil), rest[:i]...), rest[i+1:]...)
				perm(append(cur, rest[i]), nr)
			}
		}
		perm(nil, triple)
	}
	// several instances of the same constructor alive at once, used side by side and inside one composite
	for _, base := range []string{"file", "fileonly", "json", "string", "plainstring", "std", "zap", "logrus", "hclog", "slog", "asyncm", "quiet", "fromloggers", "logrquiet"} {
		add(Scenario{Kind: "twin", Producers: 4 + 2*rng.Intn(3), Msgs: 20 + rng.Intn(20), Mix: "all", Members: []string{base}})
		if base != "std" { // two std loggers in one composite legitimately write every line twice to the one stdout
			add(Scenario{Kind: "twincomp", Producers: 2 + rng.Intn(5), Msgs: 20 + rng.Intn(20), Mix: "all", Members: []string{base}})
		}
	}
	// membership scripts: caller-owned slices with spare capacity, mutated / reused / appended to after construction
	for _, ctor := range []string{"combined", "multi", "writers"} {
		al := func(init, cap int, ops ...[3]int) {
			sc := Scenario{Kind: "alias", Ctor: ctor, Init: init, Cap: cap, AScript: ops}
			sc.Seed = rng.Int63n(1 << 40)
			groups["alias"] = append(groups["alias"], sc)
		}
		al(2, 8, [3]int{0, 0}, [3]int{2, 0, 9}, [3]int{4, 0, 1})                                                                  // the caller overwrites an element
		al(2, 8, [3]int{0, 0}, [3]int{0, 1}, [3]int{1, 0, 3}, [3]int{1, 1, 4}, [3]int{4, 0, 1}, [3]int{4, 1, 2})                  // two composites, one Append each
		al(2, 8, [3]int{0, 0}, [3]int{1, 0, 3}, [3]int{3, 5}, [3]int{4, 0, 1})                                                    // the caller appends after the composite did
		al(2, 8, [3]int{0, 0}, [3]int{3, 5}, [3]int{1, 0, 3}, [3]int{4, 0, 1}, [3]int{0, 1}, [3]int{4, 1, 2})                     // ... and before; then a second composite
		al(3, 3, [3]int{0, 0}, [3]int{0, 1}, [3]int{1, 0, 4}, [3]int{1, 1, 5}, [3]int{2, 1, 6}, [3]int{4, 0, 1}, [3]int{4, 1, 2}) // no spare capacity
		al(1, 2, [3]int{0, 0}, [3]int{1, 0, 2}, [3]int{0, 1}, [3]int{1, 1, 3}, [3]int{1, 0, 4}, [3]int{4, 0, 1}, [3]int{4, 1, 2})
		for i := 0; i < r.N(25, 80); i++ {
			init := 1 + rng.Intn(4)
			cap := init + rng.Intn(7)
			n := 6 + rng.Intn(16)
			ops := [][3]int{{0, 0}}
			for j := 0; j < n; j++ {
				switch rng.Intn(10) {
				case 0, 1:
					ops = append(ops, [3]int{0, rng.Intn(3)})
				case 2, 3, 4:
					ops = append(ops, [3]int{1, rng.Intn(3), 1 + rng.Intn(aliasUniverse)})
				case 5:
					ops = append(ops, [3]int{2, rng.Intn(init + 2), 1 + rng.Intn(aliasUniverse)})
				case 6:
					ops = append(ops, [3]int{3, 1 + rng.Intn(aliasUniverse)})
				default:
					ops = append(ops, [3]int{4, rng.Intn(3), j})
				}
			}
			for c := 0; c < 3; c++ {
				ops = append(ops, [3]int{4, c, n + c})
			}
			al(init, cap, ops...)
		}
	}
	// replay of the known finding (runs in its own worker from the start of every run)
	for i, ring := range []int{4, 4, 2, 4, 3, 4} {
		groups["ringgap"] = append(groups["ringgap"], Scenario{Kind: "ringgap", Ring: ring, Msgs: 1500, Seed: int64(7 + i)})
	}
	// scripted ring runs (deterministic): boundary scripts first, then random ones
	script := func(ring, poll int, evs []int) {
		sc := Scenario{Kind: "ringscript", Ring: ring, PollMs: poll, Script: evs}
		sc.Seed = rng.Int63n(1 << 40)
		groups["ringscript"] = append(groups["ringscript"], sc)
	}
	rep := func(v, n int) []int {
		o := make([]int, n)
		for i := range o {
			o[i] = v
		}
		return o
	}
	// (poller mode only: with the waiter, a Set that falls between the reader's failed TryNext and its Wait is not
	// noticed before the next Set or Close — delivery is delayed, not lost, but the run is not scriptable)
	for _, ring := range []int{1, 2, 3, 4, 5, 8} {
		for poll := 1; poll < 2; poll++ {
			script(ring, poll, rep(1, ring))                                                           // exactly full
			script(ring, poll, rep(1, ring+1))                                                         // one lap
			script(ring, poll, rep(1, ring+2))                                                         // lap + 1
			script(ring, poll, rep(1, 2*ring+3))                                                       // two laps
			script(ring, poll, append(append(rep(1, ring+2), rep(0, 2)...), rep(1, 2*ring+1)...))      // lap, read, lap again
			script(ring, poll, append(append(rep(1, 3*ring+1), rep(0, ring+3)...), rep(1, ring+1)...)) // stale buckets behind a jump
		}
	}
	for i := 0; i < r.N(60, 300); i++ {
		ring := 1 + rng.Intn(6)
		if rng.Intn(5) == 0 {
			ring = 7 + rng.Intn(10)
		}
		n := 5 + rng.Intn(50)
		evs := make([]int, n)
		bias := 2 + rng.Intn(3)
		for j := range evs {
			if rng.Intn(bias) != 0 {
				evs[j] = 1
			}
		}
		script(ring, 1, evs)
	}
	return groups
}

type raceReport struct {
	sig  string
	text string
}

var frameRe = regexp.MustCompile(`^  (\S+)\(\)$`)

func parseRaceLogs(dir string) []raceReport {
	var out []raceReport
	files, _ := filepath.Glob(filepath.Join(dir, "race.*"))
	sort.Strings(files)
	for _, f := range files {
		bs, _ := os.ReadFile(f)
		for _, blk := range strings.Split(string(bs), "==================") {
			if !strings.Contains(blk, "WARNING: DATA RACE") {
				continue
			}
			var stacks [][]string
			var cur []string
			in := false
			for _, ln := range strings.Split(blk, "\n") {
				switch {
				case strings.HasPrefix(ln, "Read at ") || strings.HasPrefix(ln, "Write at ") || strings.HasPrefix(ln, "Previous ") || strings.HasPrefix(ln, "Atomic "):
					if in {
						stacks = append(stacks, cur)
					}
					cur, in = nil, true
				case strings.HasPrefix(ln, "Goroutine "):
					if in {
						stacks = append(stacks, cur)
					}
					cur, in = nil, false
				default:
					if in {
						if m := frameRe.FindStringSubmatch(ln); m != nil {
							cur = append(cur, m[1])
						}
					}
				}
			}
			if in {
				stacks = append(stacks, cur)
			}
			var names []string
			for _, st := range stacks {
				name := ""
				for _, fr := range st {
					if i := strings.Index(fr, "golang-utils/utils/logs."); i >= 0 {
						name = fr[i+len("golang-utils/utils/logs."):]
						break
					}
				}
				if name == "" {
					for _, fr := range st {
						if i := strings.Index(fr, "golang-utils/utils/"); i >= 0 {
							name = fr[i+len("golang-utils/utils/"):]
							break
						}
					}
				}
				if name == "" && len(st) > 0 {
					name = "outside-library:" + st[0]
				}
				if name != "" {
					names = append(names, name)
				}
			}
			// the signature names the receiver TYPES involved (stable across the many pairs of methods that can collide)
			for i, n := range names {
				if strings.HasPrefix(n, "(*") {
					if j := strings.Index(n, ")"); j > 0 {
						names[i] = n[2:j]
					}
				} else if j := strings.Index(n, "."); j > 0 && !strings.HasPrefix(n, "outside-library:") {
					names[i] = n[:j]
				}
			}
			sort.Strings(names)
			var uniq []string
			for i, n := range names {
				if i == 0 || n != names[i-1] {
					uniq = append(uniq, n)
				}
			}
			out = append(out, raceReport{sig: "data-race:" + strings.Join(uniq, "|"), text: clipBlock(blk)})
		}
	}
	return out
}

func clipBlock(s string) string {
	lines := strings.Split(strings.TrimSpace(s), "\n")
	if len(lines) > 24 {
		lines = lines[:24]
	}
	return strings.Join(lines, "\n")
}

func runWorker(tmp, kind string, scs []Scenario, self string) (*WResult, []raceReport, string) {
	dir := filepath.Join(tmp, kind)
	_ = os.MkdirAll(dir, 0o755)
	for i := range scs {
		scs[i].Stdout = filepath.Join(dir, "stdout.txt")
		scs[i].Stderr = filepath.Join(dir, "stderr.txt")
		scs[i].Dir = dir
	}
	spec := filepath.Join(dir, "spec.json")
	bs, _ := json.Marshal(scs)
	_ = os.WriteFile(spec, bs, 0o644)
	wout := filepath.Join(dir, "result.json")
	so, _ := os.OpenFile(filepath.Join(dir, "stdout.txt"), os.O_CREATE|os.O_WRONLY|os.O_APPEND|os.O_TRUNC, 0o644)
	se, _ := os.OpenFile(filepath.Join(dir, "stderr.txt"), os.O_CREATE|os.O_WRONLY|os.O_APPEND|os.O_TRUNC, 0o644)
	defer so.Close()
	defer se.Close()
	cmd := exec.Command(self, "-worker", spec, "-wout", wout, "-out", dir)
	cmd.Stdout, cmd.Stderr = so, se
	cmd.Env = append(os.Environ(), "GORACE=log_path="+filepath.Join(dir, "race")+" halt_on_error=0 history_size=3")
	done := make(chan error, 1)
	if err := cmd.Start(); err != nil {
		return nil, nil, "cannot start worker: " + err.Error()
	}
	go func() { done <- cmd.Wait() }()
	crash := ""
	select {
	case err := <-done:
		if err != nil {
			// exit status 66 = the race detector reported something; the result file is still there
			if ee, ok := err.(*exec.ExitError); !ok || ee.ExitCode() != 66 {
				eb, _ := os.ReadFile(filepath.Join(dir, "stderr.txt"))
				crash = fmt.Sprintf("worker ended with %v: %s", err, tail(string(eb), 1500))
			}
		}
	case <-time.After(15 * time.Minute):
		_ = cmd.Process.Kill()
		crash = "worker did not finish within 15 minutes"
	}
	var res *WResult
	if rb, err := os.ReadFile(wout); err == nil {
		res = &WResult{}
		if json.Unmarshal(rb, res) != nil {
			res = nil
		}
	}
	return res, parseRaceLogs(dir), crash
}

func main() {
	r := h.Init("C13")
	if *workerSpec != "" {
		workerMain()
		return
	}
	r.Imports = []string{"GU.C13.Model"}
	r.ShardSize = 120
	r.Rule("one evaluation = one concurrent run of one logger (or one scripted ring run); distinct = distinct (kind, producers, messages, op mix, members, ring size, poll mode) resp. distinct ring scripts. " +
		"Kinds: string, plain string, std, pipe, file-only, JSON (recording writer, multiple writers, slow writer), logr adapters over zap/logrus/hclog/slog/noop, Loggers->logr->Loggers round trips, quiet, " +
		"multiple/combined of 1..4 members with concurrent Append, asynchronous with rings 1..1024 (waiter and poller). 2..32 producers mixing Log, LogError, SetLogSource, Append.")
	if !raceEnabled {
		r.Note("WARNING: harness built WITHOUT -race: data races are not observed in this run")
	}
	self, err := os.Executable()
	if err != nil {
		fmt.Fprintln(os.Stderr, err)
		os.Exit(2)
	}
	tmp, err := os.MkdirTemp("", "verif-c13-*")
	if err != nil {
		fmt.Fprintln(os.Stderr, err)
		os.Exit(2)
	}
	defer os.RemoveAll(tmp)

	groups := map[string][]Scenario{}
	var sc Scenario
	if _, ok := r.ReplayObject(&sc); ok {
		groups[sc.Kind] = []Scenario{sc, sc, sc}
	} else {
		groups = scenarios(r)
	}
	// split large groups so that the workers run in parallel
	{
		split := map[string][]Scenario{}
		for k, scs := range groups {
			const chunk = 24
			if len(scs) <= chunk {
				split[k] = scs
				continue
			}
			for i := 0; i*chunk < len(scs); i++ {
				hi := (i + 1) * chunk
				if hi > len(scs) {
					hi = len(scs)
				}
				split[fmt.Sprintf("%s~%02d", k, i)] = scs[i*chunk : hi]
			}
		}
		groups = split
	}
	var kinds []string
	for k := range groups {
		kinds = append(kinds, k)
	}
	sort.Strings(kinds)

	type wr struct {
		kind  string
		res   *WResult
		races []raceReport
		crash string
		secs  float64
	}
	results := make([]wr, len(kinds))
	sem := make(chan struct{}, 12)
	var wg sync.WaitGroup
	for i, k := range kinds {
		wg.Add(1)
		go func(i int, k string) {
			defer wg.Done()
			sem <- struct{}{}
			defer func() { <-sem }()
			t0 := time.Now()
			res, races, crash := runWorker(tmp, k, groups[k], self)
			results[i] = wr{k, res, races, crash, time.Since(t0).Seconds()}
		}(i, k)
	}
	wg.Wait()

	var timing []string
	for _, w := range results {
		timing = append(timing, fmt.Sprintf("%s=%.1fs", w.kind, w.secs))
	}
	r.Note("worker wall times: " + strings.Join(timing, " "))
	for _, w := range results {
		first := groups[w.kind][0]
		if w.crash != "" {
			r.Fail("worker-crash:"+baseKind(w.kind), w.crash, first)
		}
		for _, rc := range w.races {
			r.Fail(rc.sig, "race detector report while driving the "+w.kind+" logger:\n"+rc.text, firstWithMix(groups[w.kind]))
			r.Count("race-reports")
		}
		if w.res == nil {
			if w.crash == "" {
				r.Fail("worker-crash:"+baseKind(w.kind), "worker produced no result", first)
			}
			continue
		}
		for _, f := range w.res.Failures {
			r.Fail(f.Signature, f.What, f.Replay)
		}
		r.Evals(w.res.Evals)
		for k, n := range w.res.Counts {
			r.CountN(k, n)
		}
		for _, d := range w.res.Distinct {
			r.Distinct(d)
		}
		for _, s := range w.res.Samples {
			r.Sample(s)
		}
		for _, n := range w.res.Notes {
			r.Note(w.kind + ": " + n)
		}
		for _, c := range w.res.Cases {
			r.Case(c.Term, c.Desc)
			r.Count("case:" + strings.Fields(strings.TrimPrefix(c.Term, "("))[0])
		}
	}
	r.Finish()
}

func baseKind(k string) string {
	if i := strings.Index(k, "~"); i >= 0 {
		return k[:i]
	}
	return k
}

func firstWithMix(scs []Scenario) Scenario {
	for _, s := range scs {
		if s.Mix == "all" || s.Mix == "append" {
			return s
		}
	}
	return scs[0]
}

var _ = io.Discard
