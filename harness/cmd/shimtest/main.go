// shimtest: smoke test of the afero shim under the real VFS (not a property check).
package main

import (
	"fmt"

	"github.com/spf13/afero"

	"github.com/ARM-software/golang-utils/utils/filesystem"

	"verif/harness/internal/shim"
)

func main() {
	s := shim.New(afero.NewMemMapFs(), nil)
	fs := filesystem.NewVirtualFileSystem(s, filesystem.InMemoryFS, filesystem.IdentityPathConverterFunc)
	_ = fs.MkDir("/a/b")
	_ = fs.WriteFile("/a/b/f.txt", []byte("hello"), 0o644)
	_ = fs.Rm("/a")
	for _, op := range s.Log() {
		fmt.Println(op.Seq, op.Name, op.Path, op.Mutating, op.Err)
	}
	fmt.Println("open handles:", s.OpenHandles())
	_, isVFS := fs.(*filesystem.VFS)
	fmt.Println("is *VFS:", isVFS)
}
