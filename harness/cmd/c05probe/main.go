// temporary probe (deleted after use): Stop();Start() back to back, then is the object still tracking its process?
package main

import (
	"context"
	"fmt"
	"time"

	"github.com/ARM-software/golang-utils/utils/subprocess"
)

type ql struct{}

func (ql) Close() error                 { return nil }
func (ql) Check() error                 { return nil }
func (ql) SetLogSource(string) error    { return nil }
func (ql) SetLoggerSource(string) error { return nil }
func (ql) Log(...interface{})           {}
func (ql) LogError(...interface{})      {}

func main() {
	lost, deadOnArrival := 0, 0
	n := 200
	for i := 0; i < n; i++ {
		p, err := subprocess.New(context.Background(), ql{}, "", "", "", "sleep", "30")
		if err != nil {
			panic(err)
		}
		_ = p.Start()
		time.Sleep(5 * time.Millisecond)
		_ = p.Stop()
		_ = p.Start()
		time.Sleep(30 * time.Millisecond)
		if !p.IsOn() {
			lost++
		}
		_ = p.Stop()
		p.Cancel()
		_ = deadOnArrival
	}
	fmt.Printf("IsOn()==false 30ms after Stop();Start(): %d of %d\n", lost, n)
}
