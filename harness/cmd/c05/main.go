// C05 harness: cancelling a subprocess terminates its whole process tree, promptly.
//
// Drives the REAL utils/subprocess (+ supervisor) with real process trees (sh scripts: chains, fans,
// background pipe holders, TERM-ignoring descendants, parents that exit early, descendants that leave
// the group), every start mode x stop mode x stop instant, and evaluates the property's oracle directly
// on what the operating system shows afterwards (/proc), independently of the Coq model:
//   - the blocking call (Execute / Stop / Restart / supervisor Run) returned within the bound,
//   - no process of the tree that stayed in the child's process group (same session) is alive,
//   - IsOn() is false.
//
// It then emits Coq correspondence cases for GU.C05.Model.check_case.
//
// Process hygiene: every spawned tree carries VERIF_C05_RUN=<harness pid>.<nonce> and
// VERIF_C05_CASE=<run>-<n> in its environment; survivors are killed by marker after each scenario, at
// exit, and on SIGINT/SIGTERM; strays of dead harness runs are reaped at start.
package main

import (
	"bytes"
	"context"
	"encoding/json"
	"fmt"
	"os"
	"os/signal"
	"path/filepath"
	"regexp"
	"sort"
	"strconv"
	"strings"
	"sync"
	"sync/atomic"
	"syscall"
	"time"

	deadlock "github.com/sasha-s/go-deadlock"

	"github.com/ARM-software/golang-utils/utils/logs"
	"github.com/ARM-software/golang-utils/utils/subprocess"
	commandUtils "github.com/ARM-software/golang-utils/utils/subprocess/command"
	"github.com/ARM-software/golang-utils/utils/subprocess/supervisor"

	"verif/harness/internal/h"
)

// ---------------------------------------------------------------------------------------------
// scenarios

type node struct {
	Ign    bool   `json:"ign,omitempty"`    // trap '' TERM (inherited by what it execs)
	NoPipe bool   `json:"nopipe,omitempty"` // started with output redirected: does not hold the inherited pipes
	Setsid bool   `json:"setsid,omitempty"` // started through setsid: leaves the process group (exempt from the kill requirement)
	Exit   bool   `json:"exit,omitempty"`   // exits right after spawning its children (parent exits before its children)
	Kids   []node `json:"kids,omitempty"`   // background children
}

type scenario struct {
	Tree    node   `json:"tree"`
	Start   string `json:"start"`           // execute | start | supervisor
	Stop    string `json:"stop"`            // ctx | deadline | cancel | stop | restart
	DelayMs int    `json:"delay_ms"`        // stop instant, ms after the subprocess reported running; -1: once the whole tree is spawned (+20ms)
	As      string `json:"as,omitempty"`    // how the library builds the command: "" (Me), sudo, gosu, su, gosu+sudo (stand-ins first on PATH)
	Wrap    string `json:"wrap,omitempty"`  // style of the stand-in wrapper: exec (exec "$@") | fork ("$@" & wait)
	World   string `json:"world,omitempty"` // what happens to the world between the start and the stop request: "" | delete | rename (the started program file) | chdir (started by a relative path) | path (started by a bare name found on PATH, entry removed)
}

type result struct {
	Returned     bool   `json:"returned"`             // the blocking call came back within the bound (or, without a blocking call, IsOn went false within it)
	ReturnMs     int64  `json:"return_ms"`            // latency of that return after the stop request
	Survivors    int    `json:"survivors"`            // in-group processes of the tree alive after the settle time
	Exempt       int    `json:"exempt"`               // alive processes that left the group (setsid)
	IsOn         bool   `json:"is_on"`                // IsOn() after the return / after the bound
	SpawnedAt    int    `json:"spawned_at"`           // processes of the tree seen just before the stop request
	NotLeader    bool   `json:"not_leader,omitempty"` // the direct child was seen and does not lead its own process group
	Running      bool   `json:"running"`              // the subprocess was observed running before the stop request
	StartErr     string `json:"start_err,omitempty"`
	Inconclusive string `json:"inconclusive,omitempty"`
}

const (
	leafSleep   = 60 // seconds a leaf lives if nobody kills it
	returnBound = 10 * time.Second
	settleBound = 5 * time.Second
	slowBound   = 1500 * time.Millisecond // WaitDelay in the repaired code is 2 s; a prompt kill returns in 10-50 ms
)

var (
	runID   string
	mySid   int
	caseSeq int
	seqMu   sync.Mutex
	tmpDir  string
	probe   = os.Getenv("VERIF_C05_PROBE") != ""
)

// exits: the node ends by itself once its children are spawned — it is told to (Exit), or it waits for
// children that all end by themselves.
func exits(n node) bool {
	if len(n.Kids) == 0 {
		return false
	}
	if n.Exit {
		return true
	}
	for _, k := range n.Kids {
		if !exits(k) {
			return false
		}
	}
	return true
}

func countNodes(n node) (all, longLived, inGroupLong int) {
	var rec func(n node, out bool)
	rec = func(n node, out bool) {
		out = out || n.Setsid
		all++
		if !exits(n) {
			longLived++
			if !out {
				inGroupLong++
			}
		}
		for _, k := range n.Kids {
			rec(k, out)
		}
	}
	rec(n, false)
	return
}

// asWrapper returns the library's command translator for a scenario, and how many wrapper processes it puts in front.
func asWrapper(kind string) (*commandUtils.CommandAsDifferentUser, int) {
	switch kind {
	case "sudo":
		return commandUtils.Sudo(), 1
	case "gosu":
		return commandUtils.Gosu("verif"), 1
	case "su":
		return commandUtils.Su("verif"), 1
	case "gosu+sudo":
		return commandUtils.Gosu("verif").Prepend(commandUtils.Sudo()), 2
	}
	return commandUtils.Me(), 0
}

// eff is the process tree as the operating system sees it: a forking wrapper adds one leader level per wrapper
// (the wrapper waits for the command it started); an exec'ing wrapper becomes the command.
func eff(sc scenario) node {
	t := sc.Tree
	if _, n := asWrapper(sc.As); n > 0 && sc.Wrap == "fork" {
		for i := 0; i < n; i++ {
			t = node{Kids: []node{t}}
		}
	}
	return t
}

// installWrappers writes the stand-ins sudo / gosu / su into dir and puts dir first on PATH (of this process only).
func installWrappers(dir string) error {
	body := func(shift string) string {
		return "#!/bin/sh\n" + shift + "if [ \"$VERIF_C05_WRAP\" = fork ]; then \"$@\" & wait; else exec \"$@\"; fi\n"
	}
	for name, sh := range map[string]string{"sudo": body(""), "gosu": body("shift\n"), "su": body("shift\n")} {
		if err := os.WriteFile(dir+"/"+name, []byte(sh), 0o755); err != nil {
			return err
		}
	}
	return os.Setenv("PATH", dir+":"+os.Getenv("PATH"))
}

// inTmp: the only place where this harness ever deletes, renames or creates files is its own temp dir
func inTmp(path string) bool {
	return tmpDir != "" && strings.HasPrefix(filepath.Clean(path), filepath.Clean(tmpDir)+string(os.PathSeparator))
}

func removeInTmp(path string) {
	if inTmp(path) {
		_ = os.RemoveAll(path)
	}
}

var (
	pathMu  sync.Mutex // PATH of this process (read-modify-write)
	chdirMu sync.Mutex // the working directory of this process: one chdir scenario at a time
)

func addPath(dir string) {
	pathMu.Lock()
	defer pathMu.Unlock()
	_ = os.Setenv("PATH", os.Getenv("PATH")+":"+dir)
}

func dropPath(dir string) {
	pathMu.Lock()
	defer pathMu.Unlock()
	var keep []string
	for _, e := range strings.Split(os.Getenv("PATH"), ":") {
		if e != dir {
			keep = append(keep, e)
		}
	}
	_ = os.Setenv("PATH", strings.Join(keep, ":"))
}

// script renders the tree as sh function definitions n0, n1, ... (n0 is the root).
func script(t node) string {
	var b strings.Builder
	id := 0
	var rec func(n node) string
	rec = func(n node) string {
		name := fmt.Sprintf("n%d", id)
		id++
		var kids []string
		for _, k := range n.Kids {
			kn := rec(k)
			call := kn
			if k.Setsid {
				call = "setsid sh -c 'eval \"$VERIF_C05_SCRIPT\"; " + kn + "'"
			}
			if k.NoPipe {
				call += " >/dev/null 2>&1 </dev/null"
			}
			kids = append(kids, call+" &")
		}
		body := ""
		if n.Ign {
			body += "trap '' TERM; "
		}
		switch {
		case len(n.Kids) == 0:
			body += fmt.Sprintf("exec sleep %d", leafSleep)
		case n.Exit:
			body += strings.Join(kids, " ") + " exit 0"
		default:
			body += strings.Join(kids, " ") + " wait"
		}
		fmt.Fprintf(&b, "%s() { %s; }\n", name, body)
		return name
	}
	rec(t)
	return b.String()
}

// ---------------------------------------------------------------------------------------------
// /proc scanning (one shared scanner; scenarios ask for a snapshot taken after a given instant)

type pinfo struct {
	Pid, PPid, Pgrp, Sid int
	State                byte
	Case                 string
}

type snapshot struct {
	at    time.Time // when the scan STARTED
	procs []pinfo
}

var (
	scanMu   sync.Mutex
	scanCond = sync.NewCond(&scanMu)
	lastSnap snapshot
	scanWant bool
	scanStop bool
)

func readStat(pid int) (ppid, pgrp, sid int, state byte, ok bool) {
	bs, err := os.ReadFile(fmt.Sprintf("/proc/%d/stat", pid))
	if err != nil {
		return
	}
	i := bytes.LastIndexByte(bs, ')')
	if i < 0 || i+2 >= len(bs) {
		return
	}
	f := strings.Fields(string(bs[i+2:]))
	if len(f) < 4 {
		return
	}
	state = f[0][0]
	ppid, _ = strconv.Atoi(f[1])
	pgrp, _ = strconv.Atoi(f[2])
	sid, _ = strconv.Atoi(f[3])
	return ppid, pgrp, sid, state, true
}

// scanProcs lists the live (non-zombie) processes whose environment carries marker (a "KEY=value-prefix").
func scanProcs(marker string) []pinfo {
	ents, err := os.ReadDir("/proc")
	if err != nil {
		return nil
	}
	mk := []byte(marker)
	var out []pinfo
	for _, e := range ents {
		pid, err := strconv.Atoi(e.Name())
		if err != nil || pid == os.Getpid() {
			continue
		}
		env, err := os.ReadFile(fmt.Sprintf("/proc/%d/environ", pid))
		if err != nil || len(env) == 0 {
			continue
		}
		i := bytes.Index(env, mk)
		if i < 0 || (i > 0 && env[i-1] != 0) {
			continue
		}
		rest := env[i+len(mk):]
		if j := bytes.IndexByte(rest, 0); j >= 0 {
			rest = rest[:j]
		}
		ppid, pgrp, sid, st, ok := readStat(pid)
		if !ok || st == 'Z' || st == 'X' {
			continue
		}
		out = append(out, pinfo{Pid: pid, PPid: ppid, Pgrp: pgrp, Sid: sid, State: st, Case: string(rest)})
	}
	return out
}

func scanner() {
	for {
		scanMu.Lock()
		for !scanWant && !scanStop {
			scanCond.Wait()
		}
		if scanStop {
			scanMu.Unlock()
			return
		}
		scanWant = false
		scanMu.Unlock()
		t0 := time.Now()
		ps := scanProcs("VERIF_C05_CASE=" + runID + "-")
		scanMu.Lock()
		lastSnap = snapshot{at: t0, procs: ps}
		scanCond.Broadcast()
		scanMu.Unlock()
		time.Sleep(2 * time.Millisecond)
	}
}

// procsOf returns the live processes of one case from a scan started at or after `after`.
func procsOf(caseTag string, after time.Time) []pinfo {
	scanMu.Lock()
	for lastSnap.at.Before(after) {
		scanWant = true
		scanCond.Broadcast()
		scanCond.Wait()
	}
	ps := lastSnap.procs
	scanMu.Unlock()
	var out []pinfo
	for _, p := range ps {
		if p.Case == caseTag {
			out = append(out, p)
		}
	}
	return out
}

func killCase(caseTag string) {
	for i := 0; i < 50; i++ {
		ps := procsOf(caseTag, time.Now())
		if len(ps) == 0 {
			return
		}
		for _, p := range ps {
			_ = syscall.Kill(p.Pid, syscall.SIGKILL)
		}
		time.Sleep(10 * time.Millisecond)
	}
}

// killRun kills every process carrying this run's marker (direct scan, usable when the scanner is gone).
func killRun() {
	for i := 0; i < 100; i++ {
		ps := scanProcs("VERIF_C05_RUN=" + runID)
		if len(ps) == 0 {
			return
		}
		for _, p := range ps {
			_ = syscall.Kill(p.Pid, syscall.SIGKILL)
		}
		time.Sleep(20 * time.Millisecond)
	}
}

// reapStrays kills trees left by harness runs whose process no longer exists.
func reapStrays() {
	for _, p := range scanProcs("VERIF_C05_RUN=") {
		owner, _ := strconv.Atoi(strings.SplitN(p.Case, ".", 2)[0])
		if owner > 0 && owner != os.Getpid() {
			if err := syscall.Kill(owner, 0); err == syscall.ESRCH {
				_ = syscall.Kill(p.Pid, syscall.SIGKILL)
			}
		}
	}
}

func split(ps []pinfo) (inGroup, exempt []pinfo) {
	for _, p := range ps {
		if p.Sid == mySid {
			inGroup = append(inGroup, p)
		} else {
			exempt = append(exempt, p)
		}
	}
	return
}

// ---------------------------------------------------------------------------------------------
// driving the real library

type quietLoggers struct{}

func (quietLoggers) Close() error                 { return nil }
func (quietLoggers) Check() error                 { return nil }
func (quietLoggers) SetLogSource(string) error    { return nil }
func (quietLoggers) SetLoggerSource(string) error { return nil }
func (quietLoggers) Log(...interface{})           {}
func (quietLoggers) LogError(...interface{})      {}

var _ logs.Loggers = quietLoggers{}

func execute(sc scenario) (res result) {
	seqMu.Lock()
	caseSeq++
	tag := fmt.Sprintf("%d", caseSeq)
	seqMu.Unlock()
	caseTag := tag // value after "VERIF_C05_CASE=<run>-"
	env := []string{
		"VERIF_C05_RUN=" + runID,
		"VERIF_C05_CASE=" + runID + "-" + tag,
		"VERIF_C05_SCRIPT=" + script(sc.Tree),
		"VERIF_C05_WRAP=" + sc.Wrap,
	}
	as, _ := asWrapper(sc.As)
	defer killCase(caseTag)
	cmdName, cmdArgs := "sh", []string{"-c", `eval "$VERIF_C05_SCRIPT"; n0`, "c05-" + runID + "-" + tag}
	worldEvent := func() {}
	if sc.World != "" {
		// the command is a program FILE of this case, in the harness's temp dir; the world event takes it away
		dir := filepath.Join(tmpDir, "case-"+tag)
		name := "run.sh"
		if sc.World == "path" {
			name = "c05run" + tag
		}
		file := filepath.Join(dir, name)
		if !inTmp(file) || os.Mkdir(dir, 0o755) != nil || os.WriteFile(file, []byte("#!/bin/sh\neval \"$VERIF_C05_SCRIPT\"; n0\n"), 0o755) != nil {
			res.Inconclusive = "cannot prepare the program file"
			return
		}
		defer removeInTmp(dir)
		cmdArgs = []string{"c05-" + runID + "-" + tag}
		switch sc.World {
		case "delete":
			cmdName = file
			worldEvent = func() { removeInTmp(file) }
		case "rename":
			cmdName = file
			worldEvent = func() {
				if inTmp(file) {
					_ = os.Rename(file, file+".moved")
				}
			}
		case "path":
			cmdName = name
			addPath(dir)
			defer dropPath(dir)
			worldEvent = func() { dropPath(dir) }
		case "chdir":
			cmdName = "./" + name
			chdirMu.Lock()
			orig, werr := os.Getwd()
			released := false
			release := func() {
				if !released {
					released = true
					if werr == nil {
						_ = os.Chdir(orig)
					}
					chdirMu.Unlock()
				}
			}
			defer release()
			if werr != nil || os.Chdir(dir) != nil {
				res.Inconclusive = "cannot change the working directory"
				return
			}
			worldEvent = release
		}
	}

	parent, cancelParent := context.WithCancel(context.Background())
	defer cancelParent()
	// deadline mode: a genuine deadline context, set so that it falls at the requested instant after the spawn
	dlCtx := parent
	var deadlineAt time.Time
	if sc.Stop == "deadline" {
		d := 500 * time.Millisecond
		if sc.DelayMs >= 0 {
			d = time.Duration(40+sc.DelayMs) * time.Millisecond
		}
		deadlineAt = time.Now().Add(d)
		var c context.CancelFunc
		dlCtx, c = context.WithDeadline(parent, deadlineAt)
		defer c()
	}
	newP := func(ctx context.Context) (*subprocess.Subprocess, error) {
		q := new(subprocess.Subprocess)
		e := q.SetupAsWithEnvironment(ctx, quietLoggers{}, env, "", "", "", as, cmdName, cmdArgs...)
		return q, e
	}
	var p *subprocess.Subprocess
	var pMu sync.Mutex
	getP := func() *subprocess.Subprocess { pMu.Lock(); defer pMu.Unlock(); return p }
	callDone := make(chan struct{}) // closed when the blocking start call (Execute / supervisor Run) returns
	hasBlockingStart := false
	var err error
	switch sc.Start {
	case "execute":
		p, err = newP(dlCtx)
		if err != nil {
			res.StartErr = err.Error()
			return
		}
		hasBlockingStart = true
		go func() { _ = p.Execute(); close(callDone) }()
	case "start":
		p, err = newP(dlCtx)
		if err != nil {
			res.StartErr = err.Error()
			return
		}
		if err = p.Start(); err != nil {
			res.StartErr = err.Error()
			return
		}
	case "supervisor":
		hasBlockingStart = true
		sup := supervisor.NewSupervisor(func(ctx context.Context) (*subprocess.Subprocess, error) {
			q, e := newP(ctx)
			pMu.Lock()
			p = q
			pMu.Unlock()
			return q, e
		}, supervisor.WithRestartDelay(50*time.Millisecond))
		go func() { _ = sup.Run(dlCtx); close(callDone) }()
	}
	// wait until the subprocess reports running
	t0 := time.Now()
	for {
		q := getP()
		if q != nil && q.IsOn() {
			res.Running = true
			break
		}
		if time.Since(t0) > 5*time.Second {
			break
		}
		time.Sleep(200 * time.Microsecond)
	}
	if !res.Running {
		res.Inconclusive = "subprocess never reported running"
		cancelParent()
		if q := getP(); q != nil {
			q.Cancel()
		}
		killCase(caseTag)
		if hasBlockingStart {
			select {
			case <-callDone:
			case <-time.After(5 * time.Second):
			}
		}
		return
	}
	_, longLived, _ := countNodes(eff(sc))
	if sc.Stop == "deadline" {
		if w := time.Until(deadlineAt) - 4*time.Millisecond; w > 0 {
			time.Sleep(w)
		}
	} else if sc.DelayMs < 0 {
		t1 := time.Now()
		for {
			ps := procsOf(caseTag, time.Now())
			if len(ps) >= longLived {
				break
			}
			if time.Since(t1) > 8*time.Second {
				res.Inconclusive = fmt.Sprintf("tree not fully spawned (%d of %d)", len(ps), longLived)
				break
			}
			time.Sleep(5 * time.Millisecond)
		}
		time.Sleep(20 * time.Millisecond)
	} else if sc.DelayMs > 0 {
		time.Sleep(time.Duration(sc.DelayMs) * time.Millisecond)
	}
	before := procsOf(caseTag, time.Now())
	res.SpawnedAt = len(before)
	for _, q := range before {
		if q.PPid == os.Getpid() && q.Pgrp != q.Pid {
			res.NotLeader = true // structural: the command must lead its own process group, whatever wrapper it is run through
		}
	}
	oldPids := map[int]bool{}
	for _, q := range before {
		oldPids[q.Pid] = true
	}
	target := getP()
	if hasBlockingStart && (sc.Stop != "deadline" || time.Now().Before(deadlineAt)) {
		select {
		case <-callDone:
			res.Inconclusive = "the call returned by itself before the stop request"
			return
		default:
		}
	}

	worldEvent() // the program file disappears / the working directory or PATH changes; the tree keeps running

	// ---- the stop request
	stopDone := make(chan struct{})
	hasBlockingStop := false
	tStop := time.Now()
	switch sc.Stop {
	case "ctx":
		cancelParent()
	case "deadline":
		if w := time.Until(deadlineAt); w > 0 {
			time.Sleep(w)
		}
		tStop = deadlineAt
	case "cancel":
		target.Cancel()
	case "stop":
		hasBlockingStop = true
		go func() { _ = target.Stop(); close(stopDone) }()
	case "restart":
		hasBlockingStop = true
		go func() { _ = target.Restart(); close(stopDone) }()
	}
	// ---- bounded return
	deadline := time.After(returnBound)
	res.Returned = true
	if hasBlockingStop {
		select {
		case <-stopDone:
		case <-deadline:
			res.Returned = false
		}
	}
	if res.Returned && hasBlockingStart && sc.Stop != "restart" {
		select {
		case <-callDone:
		case <-deadline:
			res.Returned = false
		}
	}
	if res.Returned && !hasBlockingStart && !hasBlockingStop {
		// Start + ctx/deadline/Cancel: nothing blocks; the object must report off within the bound
		for target.IsOn() {
			if time.Since(tStop) > returnBound {
				res.Returned = false
				break
			}
			time.Sleep(time.Millisecond)
		}
	}
	res.ReturnMs = time.Since(tStop).Milliseconds()
	res.IsOn = target.IsOn()
	if sc.Stop == "restart" {
		// the restarted instance is legitimately on; what must be gone is the OLD tree
		res.IsOn = false
		if !res.Returned {
			res.IsOn = target.IsOn()
		}
	}
	// ---- survivors: in-group processes of the (old) tree still alive after the settle time
	tSettle := time.Now()
	for {
		ps := procsOf(caseTag, time.Now())
		in, ex := split(ps)
		n := 0
		for _, q := range in {
			if sc.Stop != "restart" || !res.Returned || oldPids[q.Pid] {
				n++
			}
		}
		res.Survivors, res.Exempt = n, len(ex)
		if n == 0 || !res.Returned || time.Since(tSettle) > settleBound {
			break
		}
		time.Sleep(10 * time.Millisecond)
	}
	if sc.Stop == "restart" && res.Returned && res.Survivors == 0 {
		// generation-independent cross-check: once the new tree is up, the group may hold at most one tree
		_, _, inLong := countNodes(eff(sc))
		time.Sleep(150 * time.Millisecond)
		in, _ := split(procsOf(caseTag, time.Now()))
		if len(in) > inLong {
			res.Survivors = len(in) - inLong
		}
	}
	// ---- clean up: stop everything, kill by marker, let blocked calls come back
	cancelParent()
	target.Cancel()
	killCase(caseTag)
	if hasBlockingStop {
		select {
		case <-stopDone:
		case <-time.After(5 * time.Second):
		}
	}
	if sc.Stop == "restart" || sc.Start == "start" {
		cdone := make(chan struct{})
		go func() { _ = target.Stop(); close(cdone) }()
		select {
		case <-cdone:
		case <-time.After(5 * time.Second):
		}
		killCase(caseTag)
	}
	if hasBlockingStart {
		select {
		case <-callDone:
		case <-time.After(5 * time.Second):
		}
	}
	return
}

// ---------------------------------------------------------------------------------------------
// runs that are NOT cancelled must be left alone by the repair: Execute / Output wait for a descendant that still
// writes to the inherited pipes after the direct child has exited, return nil, and deliver its late output.

type collectLoggers struct {
	mu    sync.Mutex
	lines []string
}

func (l *collectLoggers) Close() error                 { return nil }
func (l *collectLoggers) Check() error                 { return nil }
func (l *collectLoggers) SetLogSource(string) error    { return nil }
func (l *collectLoggers) SetLoggerSource(string) error { return nil }
func (l *collectLoggers) Log(o ...interface{}) {
	l.mu.Lock()
	l.lines = append(l.lines, fmt.Sprint(o...))
	l.mu.Unlock()
}
func (l *collectLoggers) LogError(o ...interface{}) { l.Log(o...) }
func (l *collectLoggers) text() string {
	l.mu.Lock()
	defer l.mu.Unlock()
	return strings.Join(l.lines, "\n")
}

type plainRun struct {
	Script string `json:"script"`
	Via    string `json:"via"`     // execute | output
	LateMs int    `json:"late_ms"` // the descendant writes its last line this long after the start
	Late   string `json:"late"`    // that line
}

type plainResult struct {
	Err       string `json:"err,omitempty"`
	ElapsedMs int64  `json:"elapsed_ms"`
	SawEarly  bool   `json:"saw_early"`
	SawLate   bool   `json:"saw_late"`
}

func runPlain(pr plainRun) (res plainResult) {
	seqMu.Lock()
	caseSeq++
	tag := fmt.Sprintf("%d", caseSeq)
	seqMu.Unlock()
	defer killCase(tag)
	env := []string{"VERIF_C05_RUN=" + runID, "VERIF_C05_CASE=" + runID + "-" + tag}
	lg := &collectLoggers{}
	ctx, cancel := context.WithCancel(context.Background())
	defer cancel()
	t0 := time.Now()
	var err error
	out := ""
	switch pr.Via {
	case "output":
		out, err = subprocess.OutputWithEnvironment(ctx, lg, env, "sh", "-c", pr.Script, "c05-"+runID+"-"+tag)
	default:
		var p *subprocess.Subprocess
		p, err = subprocess.NewWithEnvironment(ctx, lg, env, "", "", "", "sh", "-c", pr.Script, "c05-"+runID+"-"+tag)
		if err == nil {
			err = p.Execute()
		}
	}
	res.ElapsedMs = time.Since(t0).Milliseconds()
	if err != nil {
		res.Err = err.Error()
	}
	all := out + "\n" + lg.text()
	res.SawEarly = strings.Contains(all, "early")
	res.SawLate = strings.Contains(all, pr.Late)
	return
}

func plainVerdict(pr plainRun, res plainResult) (sig, what string) {
	switch {
	case res.Err != "":
		return "uncancelled-run-cut-short", "an Execute/Output that nobody cancelled returned an error although the command and its descendants succeeded: " + res.Err
	case res.ElapsedMs < int64(pr.LateMs)-100:
		return "uncancelled-run-cut-short", fmt.Sprintf("an Execute/Output that nobody cancelled returned after %d ms, before its descendant (which holds the output pipe) had finished at %d ms", res.ElapsedMs, pr.LateMs)
	case !res.SawEarly || !res.SawLate:
		return "uncancelled-run-cut-short", fmt.Sprintf("output of an un-cancelled run is incomplete: early line seen=%v, descendant's late line seen=%v", res.SawEarly, res.SawLate)
	}
	return "", ""
}

var plainRuns = []plainRun{
	{Script: "(sleep 0.7; echo late) & echo early", Via: "execute", LateMs: 700, Late: "late"},
	{Script: "(sleep 0.7; echo late) & echo early", Via: "output", LateMs: 700, Late: "late"},
	{Script: "( (sleep 0.9; echo latest) & sleep 0.3; echo late1 ) & echo early", Via: "execute", LateMs: 900, Late: "latest"},
	{Script: "(trap '' TERM; sleep 0.5; echo late >&2) & echo early; exit 0", Via: "execute", LateMs: 500, Late: "late"},
	{Script: "(sleep 2.6; echo late) & echo early", Via: "execute", LateMs: 2600, Late: "late"}, // longer than any plausible WaitDelay of a repair
}

// ---------------------------------------------------------------------------------------------
// concurrent API calls on ONE object: the object's mutex serialises them, so at most one instance of the command is
// tracked and alive at any time; after Stop nothing is alive, nothing is left unreaped, IsOn is false.

type concRun struct {
	Kind string `json:"conc"` // start||start | start||stop | stop||stop | restart||start
}

type concObs struct {
	Steps     []string `json:"steps"` // "<step>: <instances alive>"
	IsOnAfter bool     `json:"is_on_after"`
}

// gated runs the calls so that they enter together; false if one of them has not returned within the bound
func gated(calls ...func()) bool {
	gate := make(chan struct{})
	var wg sync.WaitGroup
	for _, c := range calls {
		wg.Add(1)
		go func(c func()) { defer wg.Done(); <-gate; c() }(c)
	}
	close(gate)
	done := make(chan struct{})
	go func() { wg.Wait(); close(done) }()
	select {
	case <-done:
		return true
	case <-time.After(returnBound):
		return false
	}
}

func runConc(cr concRun) (sig, what string, obs concObs) {
	seqMu.Lock()
	caseSeq++
	tag := fmt.Sprintf("%d", caseSeq)
	seqMu.Unlock()
	defer killCase(tag)
	env := []string{
		"VERIF_C05_RUN=" + runID,
		"VERIF_C05_CASE=" + runID + "-" + tag,
		"VERIF_C05_SCRIPT=" + script(fan(leaf(), leaf())),
		"VERIF_C05_WRAP=",
	}
	ctx, cancel := context.WithCancel(context.Background())
	defer cancel()
	p := new(subprocess.Subprocess)
	if err := p.SetupAsWithEnvironment(ctx, quietLoggers{}, env, "", "", "", commandUtils.Me(), "sh", "-c", `eval "$VERIF_C05_SCRIPT"; n0`, "c05-"+runID+"-"+tag); err != nil {
		return "", "", obs
	}
	defer p.Cancel()
	seen := map[int]bool{} // every instance (direct child leading its group) ever observed
	instances := func() int {
		n := 0
		for _, q := range procsOf(tag, time.Now()) {
			if q.PPid == os.Getpid() && q.Pid == q.Pgrp {
				n++
				seen[q.Pid] = true
			}
		}
		return n
	}
	// settled: the instance count once every started tree has finished spawning (3 processes per instance)
	settled := func() int {
		n := 0
		for i := 0; i < 100; i++ {
			n = instances()
			if len(procsOf(tag, time.Now())) >= 3*n {
				break
			}
			time.Sleep(10 * time.Millisecond)
		}
		time.Sleep(30 * time.Millisecond)
		return instances()
	}
	fail := func(k, w string) {
		if sig == "" {
			sig, what = k+":"+cr.Kind, w
		}
	}
	step := func(name string, max int) {
		n := settled()
		obs.Steps = append(obs.Steps, fmt.Sprintf("%s: %d", name, n))
		if n > max {
			fail("multiple-instances", fmt.Sprintf("after %s, %d instances of the command are alive at once on one Subprocess object (at most %d can be tracked): the others can never be stopped through the object", name, n, max))
		}
	}
	start := func() { _ = p.Start() }
	stop := func() { _ = p.Stop() }
	restart := func() { _ = p.Restart() }
	ok := true
	switch cr.Kind {
	case "start||start":
		ok = gated(start, start)
		step("Start||Start", 1)
		ok = ok && gated(restart)
		step("Restart", 1)
	case "start||stop":
		ok = gated(start)
		step("Start", 1)
		ok = ok && gated(start, stop)
		step("Start||Stop", 1)
	case "stop||stop":
		ok = gated(start)
		step("Start", 1)
		ok = ok && gated(stop, stop)
		step("Stop||Stop", 0)
	case "restart||start":
		ok = gated(start)
		step("Start", 1)
		ok = ok && gated(restart, start)
		step("Restart||Start", 1)
	}
	ok = ok && gated(stop)
	if !ok {
		fail("no-return:conc", "a call did not return within the bound")
	}
	// after Stop: nothing of any instance alive, nothing unreaped, IsOn false
	alive := 0
	for t0 := time.Now(); ; {
		alive = len(procsOf(tag, time.Now()))
		instances()
		if alive == 0 || time.Since(t0) > settleBound {
			break
		}
		time.Sleep(10 * time.Millisecond)
	}
	obs.Steps = append(obs.Steps, fmt.Sprintf("Stop: %d processes alive", alive))
	obs.IsOnAfter = p.IsOn()
	if alive > 0 {
		fail("instance-survives-stop", fmt.Sprintf("%d processes of the command are alive %v after Stop() returned", alive, settleBound))
	}
	if obs.IsOnAfter {
		fail("ison-true:conc", "IsOn() is true after Stop() returned")
	}
	time.Sleep(50 * time.Millisecond)
	for pid := range seen {
		if pp, _, _, st, okk := readStat(pid); okk && st == 'Z' && pp == os.Getpid() {
			fail("unreaped-instance", fmt.Sprintf("instance %d of the command has been killed but never waited for: it was not tracked by the object any more", pid))
		}
	}
	return
}

var concKinds = []string{"start||start", "start||stop", "stop||stop", "restart||start"}

// ---------------------------------------------------------------------------------------------
// histories: sequences of API calls on ONE object, issued back to back (no pause unless "settle"), with the world's other
// input — the loggers — possibly becoming invalid in between.  Oracle: (a) whenever the object has been quiescent for a
// moment and reports IsOn() == false, nothing of the command's trees is alive (a tree the object no longer admits to can
// never be stopped through it); (b) after the final Stop()/Cancel(): nothing alive, IsOn() false, nothing unreaped.

type historyRun struct {
	Ops []string `json:"history"` // start | stop | restart | cancel | execute | closelog | settle
}

type flakyLoggers struct {
	closed atomic.Bool
	mu     sync.Mutex
	pids   []int // from the library's own "Started process [pid]" messages
}

var reStarted = regexp.MustCompile(`Started process \[(\d+)\]`)

func (l *flakyLoggers) Close() error                 { l.closed.Store(true); return nil }
func (l *flakyLoggers) SetLogSource(string) error    { return nil }
func (l *flakyLoggers) SetLoggerSource(string) error { return nil }
func (l *flakyLoggers) LogError(...interface{})      {}
func (l *flakyLoggers) Log(o ...interface{}) {
	if m := reStarted.FindStringSubmatch(fmt.Sprint(o...)); m != nil {
		if pid, err := strconv.Atoi(m[1]); err == nil {
			l.mu.Lock()
			l.pids = append(l.pids, pid)
			l.mu.Unlock()
		}
	}
}
func (l *flakyLoggers) Check() error {
	if l.closed.Load() {
		return fmt.Errorf("loggers are closed")
	}
	return nil
}

func runHistory(hr historyRun) (sig, what string, trace []string) {
	seqMu.Lock()
	caseSeq++
	tag := fmt.Sprintf("%d", caseSeq)
	seqMu.Unlock()
	defer killCase(tag)
	dir := filepath.Join(tmpDir, "hist-"+tag)
	if !inTmp(dir) || os.Mkdir(dir, 0o755) != nil {
		return
	}
	defer removeInTmp(dir)
	// the first run of the command (the one Execute() waits for, when the history begins with it) ends at once;
	// every other run is the usual long-lived tree
	first := "true"
	if len(hr.Ops) > 0 && hr.Ops[0] == "execute" {
		first = `if mkdir "$VERIF_C05_DIR/first" 2>/dev/null; then exit 0; fi`
	}
	env := []string{
		"VERIF_C05_RUN=" + runID,
		"VERIF_C05_CASE=" + runID + "-" + tag,
		"VERIF_C05_SCRIPT=" + script(fan(leaf(), leaf())),
		"VERIF_C05_WRAP=",
		"VERIF_C05_DIR=" + dir,
	}
	lg := &flakyLoggers{}
	ctx, cancel := context.WithCancel(context.Background())
	defer cancel()
	p := new(subprocess.Subprocess)
	if err := p.SetupAsWithEnvironment(ctx, lg, env, "", "", "", commandUtils.Me(), "sh", "-c", first+`; eval "$VERIF_C05_SCRIPT"; n0`, "c05-"+runID+"-"+tag); err != nil {
		return
	}
	defer p.Cancel()
	seen := map[int]bool{}
	alive := func() int {
		ps := procsOf(tag, time.Now())
		for _, q := range ps {
			if q.PPid == os.Getpid() {
				seen[q.Pid] = true
			}
		}
		return len(ps)
	}
	fail := func(k, w string) {
		if sig == "" {
			sig, what = k, w+" — history "+strings.Join(hr.Ops, ";")
		}
	}
	// quiescent: IsOn() false, stable for 100 ms, while processes of the command are still there after the settle time
	consistent := func(at string) {
		t0 := time.Now()
		for {
			if p.IsOn() {
				return // the object admits to a running process: Stop()/Cancel() can still reach it
			}
			n := alive()
			if n == 0 {
				return
			}
			if time.Since(t0) > settleBound {
				if !p.IsOn() {
					trace = append(trace, fmt.Sprintf("%s: IsOn=false with %d processes alive", at, n))
					fail("untracked-tree", fmt.Sprintf("after %s the object reports IsOn() == false while %d processes of its command are alive (%v later): nothing can stop them through the object", at, n, settleBound))
				}
				return
			}
			time.Sleep(10 * time.Millisecond)
		}
	}
	call := func(name string, f func() error) {
		done := make(chan error, 1)
		go func() { done <- f() }()
		select {
		case err := <-done:
			trace = append(trace, fmt.Sprintf("%s -> err=%v IsOn=%v", name, err != nil, p.IsOn()))
		case <-time.After(returnBound):
			trace = append(trace, name+" -> did not return")
			fail("no-return:history", name+" did not return within the bound")
		}
	}
	for i, op := range hr.Ops {
		if sig != "" {
			break
		}
		switch op {
		case "start":
			call("Start", p.Start)
		case "stop":
			call("Stop", p.Stop)
		case "restart":
			call("Restart", p.Restart)
		case "execute":
			call("Execute", p.Execute)
		case "cancel":
			p.Cancel()
			trace = append(trace, "Cancel")
		case "closelog":
			_ = lg.Close()
			trace = append(trace, "loggers closed")
		case "settle":
			time.Sleep(150 * time.Millisecond)
			consistent(fmt.Sprintf("step %d", i))
		}
	}
	if sig != "" {
		return
	}
	// the history ends with Stop() or Cancel(): nothing may be left
	t0 := time.Now()
	n := 0
	for {
		n = alive()
		if (n == 0 && !p.IsOn()) || time.Since(t0) > settleBound {
			break
		}
		time.Sleep(10 * time.Millisecond)
	}
	trace = append(trace, fmt.Sprintf("end: %d processes alive, IsOn=%v", n, p.IsOn()))
	if n > 0 {
		fail("survivor:history", fmt.Sprintf("%d processes of the command are alive %v after the final stop request returned", n, settleBound))
	} else if p.IsOn() {
		fail("ison-true:history", "IsOn() is true after the final stop request")
	}
	time.Sleep(30 * time.Millisecond)
	lg.mu.Lock()
	for _, pid := range lg.pids {
		seen[pid] = true
	}
	lg.mu.Unlock()
	for pid := range seen {
		if pp, _, _, st, ok := readStat(pid); ok && st == 'Z' && pp == os.Getpid() {
			fail("unreaped:history", fmt.Sprintf("instance %d has been killed but never waited for", pid))
		}
	}
	return
}

func rep(ops []string, k int) []string {
	var out []string
	for i := 0; i < k; i++ {
		out = append(out, ops...)
	}
	return out
}

// the deterministic histories (run several times each: what happens between two calls is the scheduler's)
func histories() []historyRun {
	cat := func(l ...[]string) []string {
		var out []string
		for _, x := range l {
			out = append(out, x...)
		}
		return out
	}
	return []historyRun{
		{Ops: cat([]string{"start"}, rep([]string{"stop", "start"}, 4), []string{"settle", "stop"})}, // Stop;Start loops without pause
		{Ops: cat([]string{"start"}, rep([]string{"stop", "start", "settle"}, 3), []string{"stop"})}, // ... with the consistency oracle after each round
		{Ops: cat([]string{"start"}, rep([]string{"restart"}, 4), []string{"settle", "stop"})},       // Restart loops
		{Ops: []string{"execute", "start", "settle", "stop"}},                                        // Execute();Start()
		{Ops: []string{"execute", "start", "stop", "start", "settle", "cancel"}},                     //
		{Ops: []string{"start", "closelog", "stop"}},                                                 // the loggers become invalid between start and stop
		{Ops: []string{"start", "closelog", "restart", "settle", "stop"}},                            //
		{Ops: []string{"start", "closelog", "cancel"}},                                               //
		{Ops: []string{"start", "execute", "settle", "stop"}},                                        // a refused Execute() on a started subprocess
		{Ops: []string{"start", "cancel", "start", "settle", "stop"}},                                // Cancel();Start()
		{Ops: []string{"start", "stop", "stop", "start", "start", "settle", "cancel"}},               // idempotence mixes
	}
}

// ---------------------------------------------------------------------------------------------
// oracle (independent of the Coq model)

func shapeClass(t node) string {
	if exits(t) {
		return "leader-exited"
	}
	return "leader-alive"
}

// verdict returns the failure signature of one observation ("" = property holds on it).
func verdict(sc scenario, res result) (sig, what string) {
	if res.Inconclusive != "" || res.StartErr != "" || !res.Running {
		return "", ""
	}
	mode := sc.Start + ":" + sc.Stop
	if res.NotLeader {
		return "child-not-group-leader", "after the start, the direct child does not lead its own process group (getpgid(child) != child pid): no kill of the group can reach the tree (command kind '" + sc.As + "')"
	}
	switch {
	case !res.Returned && res.Survivors == 0 && outsideHolder(eff(sc)):
		return "no-return:outside-holder", fmt.Sprintf("the whole process group is dead but the call did not return within %v: it waits for a descendant that left the group and holds the output pipes (no WaitDelay)", returnBound)
	case !res.Returned:
		return "no-return:" + mode, fmt.Sprintf("the call did not return (IsOn did not go false) within %v of the stop request; %d in-group processes of the tree alive, IsOn=%v", returnBound, res.Survivors, res.IsOn)
	case res.Survivors > 0:
		return "survivor:" + mode + ":" + shapeClass(eff(sc)), fmt.Sprintf("%d processes of the tree, still in the child's process group, are alive %v after the stop returned", res.Survivors, settleBound)
	case res.IsOn:
		return "ison-true:" + mode, "IsOn() is true after the stop returned"
	case res.ReturnMs > slowBound.Milliseconds() && res.Exempt == 0 && !(exits(eff(sc)) && sc.Start != "start"):
		// nothing outside the group holds the pipes: the return must come from the kill, not from the WaitDelay fallback
		// (except under Execute when the direct child had exited before the request: Wait is then already past the watcher)
		return "slow-return:" + mode, fmt.Sprintf("the call returned only %d ms after the stop request (the tree was not killed promptly; typical is 10-50 ms)", res.ReturnMs)
	}
	return "", ""
}

// ---------------------------------------------------------------------------------------------
// Coq terms

func coqTree(n node) string {
	ks := make([]string, len(n.Kids))
	for i, k := range n.Kids {
		ks[i] = coqTree(k)
	}
	return fmt.Sprintf("(T %s %s %s %s %s)", h.Bool(n.Ign), h.Bool(!n.NoPipe), h.Bool(n.Setsid), h.Bool(exits(n)), h.List(ks))
}

func coqCase(sc scenario, res result) string {
	start := map[string]string{"execute": "SExecute", "start": "SStart", "supervisor": "SSupervisor"}[sc.Start]
	stop := map[string]string{"ctx": "KCtx", "deadline": "KDeadline", "cancel": "KCancel", "stop": "KStop", "restart": "KRestart"}[sc.Stop]
	return fmt.Sprintf("(mkCase %s %s %s %s %s %s %s)", coqTree(eff(sc)), start, stop, h.Nat(res.SpawnedAt),
		h.Bool(res.Returned), h.Nat(res.Survivors), h.Bool(res.IsOn))
}

// ---------------------------------------------------------------------------------------------

type outcome struct {
	sc  scenario
	res result
	sig string
	wh  string
}

func runOne(sc scenario) outcome {
	res := execute(sc)
	sig, wh := verdict(sc, res)
	if probe {
		js, _ := json.Marshal(sc)
		jr, _ := json.Marshal(res)
		fmt.Fprintf(os.Stderr, "PROBE %s -> %s  [%s]\n", js, jr, sig)
	}
	return outcome{sc, res, sig, wh}
}

// runAll runs scenarios `width`-wide, keeping their order.
func runAll(scs []scenario, width int) []outcome {
	out := make([]outcome, len(scs))
	sem := make(chan struct{}, width)
	var wg sync.WaitGroup
	for i := range scs {
		wg.Add(1)
		sem <- struct{}{}
		go func(i int) {
			defer wg.Done()
			defer func() { <-sem }()
			out[i] = runOne(scs[i])
		}(i)
	}
	wg.Wait()
	return out
}

// confirm re-runs a suspected failure twice more, alone; it is reported only if it fails 3 of 3 with the same signature.
func confirm(o outcome) bool {
	for i := 0; i < 2; i++ {
		again := runOne(o.sc)
		if again.sig != o.sig {
			return false
		}
	}
	return true
}

// confirmTogether runs a scenario three times at once (used for the deterministic replays of known findings, whose
// failure is a blocked call and not a race) and reports the common signature, or "" if the three runs disagree.
func confirmTogether(sc scenario) (outcome, bool) {
	outs := runAll([]scenario{sc, sc, sc}, 3)
	if outs[0].sig == outs[1].sig && outs[1].sig == outs[2].sig {
		return outs[0], true
	}
	return outs[0], false
}

func leaf() node                      { return node{} }
func fan(kids ...node) node           { return node{Kids: kids} }
func with(n node, f func(*node)) node { f(&n); return n }

func genTree(r *h.Run, depth int) node {
	n := node{}
	if depth > 0 && r.Rng.Intn(3) != 0 {
		nk := 1 + r.Rng.Intn(3)
		for i := 0; i < nk; i++ {
			k := genTree(r, depth-1)
			k.NoPipe = r.Rng.Intn(4) == 0
			k.Setsid = r.Rng.Intn(12) == 0
			if k.Setsid {
				k.NoPipe = true // an outside pipe holder is the known finding no-return:outside-holder, replayed separately
			}
			n.Kids = append(n.Kids, k)
		}
		n.Exit = r.Rng.Intn(5) == 0
	}
	n.Ign = r.Rng.Intn(3) == 0
	return n
}

// holdsPipeInGroup: some descendant that does not end by itself holds the inherited pipes (so Execute stays blocked in Wait
// after the direct child has exited)
func holdsPipeInGroup(n node) bool {
	for _, k := range n.Kids {
		if k.NoPipe {
			continue
		}
		if !exits(k) || holdsPipeInGroup(k) {
			return true
		}
	}
	return false
}

// outsideHolder: some process that does not end by itself has left the group (setsid, or below a setsid) and still holds
// the inherited output pipes. Without a WaitDelay, Wait then outlives the group (known finding no-return:outside-holder).
func outsideHolder(n node) bool {
	var rec func(n node, holds, out bool) bool
	rec = func(n node, holds, out bool) bool {
		if holds && out && !exits(n) {
			return true
		}
		for _, k := range n.Kids {
			if rec(k, holds && !k.NoPipe, out || k.Setsid) {
				return true
			}
		}
		return false
	}
	return rec(n, true, false)
}

// admissible: combinations in which the subprocess is running (in the sense of the API) when the stop comes.
func admissible(sc scenario) bool {
	if sc.World != "" && sc.As != "" {
		return false
	}
	exits := exits(eff(sc))
	if exits && sc.Start == "supervisor" {
		return false // the supervisor would legitimately restart the command again and again
	}
	if exits && sc.Start == "execute" && !holdsPipeInGroup(eff(sc)) {
		return false // Execute returns by itself: nothing is running when the stop comes
	}
	if sc.Start == "supervisor" && (sc.Stop == "stop" || sc.Stop == "restart" || sc.Stop == "cancel") {
		return false // the supervisor's own API is its context; stopping the inner command makes it restart it, by design
	}
	if outsideHolder(eff(sc)) {
		return false // known finding (no WaitDelay: Wait outlives the group), replayed first on every run
	}
	if sc.Start == "execute" && (sc.Stop == "stop" || sc.Stop == "restart") {
		return false // known finding (Stop/Restart wait for the lock Execute holds): replayed first on every run, see findingReplays
	}
	return true
}

func key(sc scenario) string { b, _ := json.Marshal(sc); return string(b) }

func main() {
	r := h.Init("C05")
	// The library's mutexes are go-deadlock mutexes, which terminate the PROCESS (os.Exit(2)) when a lock has been awaited
	// for 30 s. Blocked calls are exactly what this harness provokes and observes (on a changed tree many at once, under
	// load): the time-based detection is switched off so that the harness survives to report them and to clean up.
	deadlock.Opts.DeadlockTimeout = 0
	r.Imports = []string{"GU.C05.Model", "GU.C05.Gen"}
	r.CheckFn = "(check_case gen_facts)" // the model instantiated with the facts regenerated from the source
	r.Rule("real process trees (sh): shapes = chains/fans up to depth 3, any node TERM-ignoring / not holding the pipes / leaving the group / exiting before its children; " +
		"start in {Execute, Start, supervisor} x stop in {context cancel, deadline, Cancel, Stop, Restart} x stop instant in {0,1,3,10,30 ms after running, fully spawned}; " +
		"non-trivial = tree with at least one descendant; distinct by full scenario")
	runID = fmt.Sprintf("%d.%d", os.Getpid(), time.Now().UnixNano()%1000000007)
	_, _, mySid, _, _ = readStat(os.Getpid())
	reapStrays()
	tmp, terr := os.MkdirTemp("", "verif-c05-*")
	tmpDir = tmp
	if terr != nil || installWrappers(tmp) != nil {
		fmt.Fprintln(os.Stderr, "cannot install the wrapper stand-ins")
		os.Exit(2)
	}
	defer os.RemoveAll(tmp)
	go scanner()
	sigc := make(chan os.Signal, 2)
	signal.Notify(sigc, syscall.SIGINT, syscall.SIGTERM, syscall.SIGHUP)
	go func() { <-sigc; killRun(); _ = os.RemoveAll(tmpDir); os.Exit(130) }()
	defer killRun()

	finish := func() {
		killRun()
		r.Finish()
	}

	var hrp historyRun
	if _, ok := r.ReplayObject(&hrp); ok && len(hrp.Ops) > 0 {
		bad := map[string]int{}
		whats := map[string]string{}
		for a := 0; a < 6; a++ {
			r.Eval()
			if sig, wh, _ := runHistory(hrp); sig != "" {
				bad[sig]++
				whats[sig] = wh
			}
		}
		for sg, c := range bad {
			if c >= 2 { // seen, and seen again
				r.Fail(sg, whats[sg], hrp)
			}
		}
		finish()
		return
	}
	var cr concRun
	if _, ok := r.ReplayObject(&cr); ok && cr.Kind != "" {
		counts, whats := map[string]int{}, map[string]string{}
		for a := 0; a < 6; a++ {
			r.Eval()
			if sig, wh, _ := runConc(cr); sig != "" {
				counts[sig]++
				whats[sig] = wh
			}
		}
		for sg, c := range counts {
			if c >= 3 {
				r.Fail(sg, whats[sg], cr)
			}
		}
		finish()
		return
	}
	var pl struct {
		Plain *plainRun `json:"plain"`
	}
	if _, ok := r.ReplayObject(&pl); ok && pl.Plain != nil {
		bad := 0
		var sig, wh string
		for a := 0; a < 3; a++ {
			res := runPlain(*pl.Plain)
			r.Eval()
			if sig, wh = plainVerdict(*pl.Plain, res); sig != "" {
				bad++
			}
		}
		if bad == 3 {
			r.Fail(sig, wh, pl)
		}
		finish()
		return
	}
	var sc scenario
	if _, ok := r.ReplayObject(&sc); ok {
		o := runOne(sc)
		r.Eval()
		if o.sig != "" && confirm(o) {
			r.Fail(o.sig, o.wh, o.sc)
		}
		finish()
		return
	}

	// deterministic replays of the known findings run first, on every invocation
	d17r := fan(leaf(), leaf())
	exitR := with(fan(leaf(), fan(leaf())), func(n *node) { n.Exit = true })
	var replays []scenario
	for _, t := range []node{leaf(), d17r, exitR} {
		for _, sp := range []string{"stop", "restart"} {
			replays = append(replays, scenario{Tree: t, Start: "execute", Stop: sp, DelayMs: -1})
		}
	}
	awayPipe := fan(leaf(), with(leaf(), func(n *node) { n.Setsid = true })) // a descendant leaves the group, holding the pipes
	replays = append(replays, scenario{Tree: awayPipe, Start: "execute", Stop: "ctx", DelayMs: -1},
		scenario{Tree: awayPipe, Start: "start", Stop: "stop", DelayMs: -1})
	type plainOut struct {
		res      plainResult
		sig, wh  string
		attempts int
	}
	pOut := make([]plainOut, len(plainRuns))
	var pwg sync.WaitGroup
	for i := range plainRuns {
		pwg.Add(1)
		go func(i int) {
			defer pwg.Done()
			for a := 1; a <= 3; a++ { // reported only if it fails 3 of 3
				res := runPlain(plainRuns[i])
				sig, wh := plainVerdict(plainRuns[i], res)
				pOut[i] = plainOut{res, sig, wh, a}
				if sig == "" {
					return
				}
			}
		}(i)
	}
	var rwg sync.WaitGroup
	rOut := make([]outcome, len(replays))
	rOK := make([]bool, len(replays))
	for i := range replays {
		rwg.Add(1)
		go func(i int) { defer rwg.Done(); rOut[i], rOK[i] = confirmTogether(replays[i]) }(i)
	}

	var scs []scenario
	seen := map[string]bool{}
	add := func(s scenario) {
		if admissible(s) && !seen[key(s)] {
			seen[key(s)] = true
			scs = append(scs, s)
		}
	}
	starts := []string{"execute", "start", "supervisor"}
	stops := []string{"ctx", "deadline", "cancel", "stop", "restart"}
	// deterministic corpus: the shapes named in the property, every start x stop, fully spawned
	d17 := fan(leaf(), leaf())                                                                             // sh -c "sleep & sleep & wait" (D17)
	ign := fan(with(leaf(), func(n *node) { n.Ign = true }), with(leaf(), func(n *node) { n.Ign = true })) // TERM-ignoring pipe holders
	ign.Ign = true
	chain := fan(fan(fan(leaf())))
	exitP := with(fan(leaf(), fan(leaf())), func(n *node) { n.Exit = true }) // parent exits before its children
	noPipe := fan(with(leaf(), func(n *node) { n.NoPipe = true }), with(fan(leaf()), func(n *node) { n.NoPipe = true }))
	exitNoPipe := with(fan(with(leaf(), func(n *node) { n.NoPipe = true })), func(n *node) { n.Exit = true })
	midExit := fan(with(fan(leaf(), leaf()), func(n *node) { n.Exit = true }))
	away := fan(leaf(), with(leaf(), func(n *node) { n.Setsid = true })) // one descendant leaves the group, holding the pipe
	shapes := []node{leaf(), d17, ign, chain, exitP, noPipe, exitNoPipe, midExit, away}
	for _, t := range shapes {
		for _, st := range starts {
			for _, sp := range stops {
				add(scenario{Tree: t, Start: st, Stop: sp, DelayMs: -1})
			}
		}
	}
	// every way the library builds a command (Me, sudo, gosu, su, gosu behind sudo; stand-ins that exec or fork the
	// command) x every start x stop, on the D17 shape; plus the parent-exits-first shape through sudo
	for _, as := range []string{"sudo", "gosu", "su", "gosu+sudo"} {
		for _, w := range []string{"exec", "fork"} {
			for _, st := range starts {
				for _, sp := range stops {
					add(scenario{Tree: d17, Start: st, Stop: sp, DelayMs: -1, As: as, Wrap: w})
					if as == "sudo" {
						add(scenario{Tree: exitP, Start: st, Stop: sp, DelayMs: -1, As: as, Wrap: w})
					}
				}
			}
		}
	}
	// the world changes between the start and the stop request: every event x every start x stop, on the D17 shape
	for _, w := range []string{"delete", "rename", "chdir", "path"} {
		for _, st := range starts {
			for _, sp := range stops {
				add(scenario{Tree: d17, Start: st, Stop: sp, DelayMs: -1, World: w})
			}
		}
	}
	nCorpus := len(scs)
	// stop instants swept relative to the spawn, on the D17 shape and the TERM-ignoring one
	for _, t := range []node{d17, ign, exitP} {
		for _, d := range []int{0, 1, 3, 10, 30} {
			for _, st := range starts {
				for _, sp := range stops {
					add(scenario{Tree: t, Start: st, Stop: sp, DelayMs: d})
				}
			}
		}
	}
	// seeded random
	n := r.N(60, 600)
	delays := []int{-1, -1, -1, 0, 1, 3, 10, 30}
	for i := 0; i < n*3 && len(scs) < nCorpus+150+n; i++ {
		sc := scenario{Tree: genTree(r, 3), Start: starts[r.Rng.Intn(3)], Stop: stops[r.Rng.Intn(5)], DelayMs: delays[r.Rng.Intn(len(delays))]}
		if r.Rng.Intn(5) == 0 {
			sc.World = []string{"delete", "rename", "chdir", "path"}[r.Rng.Intn(4)]
			if sc.DelayMs >= 0 && sc.DelayMs < 10 {
				sc.DelayMs = 10 // the event needs the program to have been started
			}
		} else if r.Rng.Intn(3) == 0 {
			sc.As = []string{"sudo", "gosu", "su", "gosu+sudo"}[r.Rng.Intn(4)]
			sc.Wrap = []string{"exec", "fork"}[r.Rng.Intn(2)]
		}
		add(sc)
	}
	if lim := os.Getenv("VERIF_C05_LIMIT"); lim != "" {
		if k, e := strconv.Atoi(lim); e == nil && k < len(scs) {
			scs = scs[:k]
		}
	}

	// concurrent calls on one object: several attempts per kind (the interleaving is the scheduler's). An anomaly is a failure
	// when 2 further attempts of the same scenario show it too; an isolated one is recorded as a note.
	type concOut struct {
		sig, wh string
		obs     concObs
		n, bad  int
	}
	concAttempts := func(kind string, n int) concOut {
		out := concOut{n: 0}
		for a := 0; a < n; a++ {
			sig, wh, ob := runConc(concRun{Kind: kind})
			out.n++
			out.obs = ob
			if sig == "" {
				continue
			}
			// an anomaly is reported when 2 further attempts of the same scenario show it too
			out.bad++
			same := 0
			for k := 0; k < 2; k++ {
				s2, _, ob2 := runConc(concRun{Kind: kind})
				out.n++
				if s2 == sig {
					same++
					out.obs = ob2
				}
			}
			if same == 2 {
				out.sig, out.wh = sig, wh+" (confirmed by 2 further attempts)"
				return out
			}
		}
		return out
	}
	cOut := make([]concOut, len(concKinds))
	var cwg sync.WaitGroup
	for i := range concKinds {
		cwg.Add(1)
		go func(i int) {
			defer cwg.Done()
			n := r.N(5, 15)
			if v, e := strconv.Atoi(os.Getenv("VERIF_C05_CONC_N")); e == nil && v > 0 {
				n = v
			}
			cOut[i] = concAttempts(concKinds[i], n)
		}(i)
	}
	// histories: each several times; an anomaly is reported when it is seen and then seen again in 2 further runs of the
	// same history out of up to 6 (what happens between two back-to-back calls is the scheduler's)
	hs := histories()
	type histOut struct {
		sig, wh string
		trace   []string
		n, bad  int
	}
	hOut := make([]histOut, len(hs))
	var hwg sync.WaitGroup
	hsem := make(chan struct{}, 4)
	for i := range hs {
		hwg.Add(1)
		go func(i int) {
			defer hwg.Done()
			hsem <- struct{}{}
			defer func() { <-hsem }()
			n := r.N(4, 12)
			counts, whats := map[string]int{}, map[string]string{}
			var lastTrace []string
			for a := 0; a < n; a++ {
				sig, wh, tr := runHistory(hs[i])
				hOut[i].n++
				if sig != "" {
					counts[sig]++
					whats[sig] = wh
					lastTrace = tr
					hOut[i].bad++
					if counts[sig] == 1 && n-a-1 < 5 {
						n = a + 1 + 5 // confirmation runs
					}
					if counts[sig] >= 3 {
						hOut[i].sig, hOut[i].wh = sig, fmt.Sprintf("%s (in %d of %d runs)", wh, counts[sig], hOut[i].n)
						break
					}
				} else if lastTrace == nil {
					hOut[i].trace = tr
				}
			}
			if lastTrace != nil {
				hOut[i].trace = lastTrace
			}
		}(i)
	}
	outs := runAll(scs, 8)
	hwg.Wait()
	for i, o := range hOut {
		r.Evals(o.n)
		r.CountN("history", o.n)
		r.Distinct("history:" + strings.Join(hs[i].Ops, ";"))
		r.Sample(map[string]any{"history": hs[i].Ops, "trace": o.trace})
		if o.sig != "" {
			r.Fail(o.sig, o.wh, hs[i])
		} else if o.bad > 0 {
			r.Count("history-isolated-anomaly")
			r.Note(fmt.Sprintf("history %s: %d of %d runs showed an anomaly that was not confirmed", strings.Join(hs[i].Ops, ";"), o.bad, o.n))
		}
		if probe {
			fmt.Fprintf(os.Stderr, "PROBE history %v -> %v [%s] bad=%d/%d\n", hs[i].Ops, o.trace, o.sig, o.bad, o.n)
		}
	}
	cwg.Wait()
	for i, o := range cOut {
		r.Evals(o.n)
		r.CountN("concurrent="+concKinds[i], o.n)
		r.Distinct("conc:" + concKinds[i])
		r.Sample(map[string]any{"concurrent_calls": concKinds[i], "observed": o.obs})
		if o.sig != "" {
			r.Fail(o.sig, o.wh, concRun{Kind: concKinds[i]})
		} else if o.bad > 0 {
			r.Count("concurrent-isolated-anomaly")
			r.Note(fmt.Sprintf("%s: %d of %d attempts showed an anomaly that 2 further attempts did not confirm", concKinds[i], o.bad, o.n))
		}
		if probe {
			fmt.Fprintf(os.Stderr, "PROBE conc %s -> %+v [%s]\n", concKinds[i], o.obs, o.sig)
		}
	}
	pwg.Wait()
	for i, o := range pOut {
		r.Evals(o.attempts)
		r.Count("uncancelled-run")
		js, _ := json.Marshal(plainRuns[i])
		r.Distinct("plain:" + string(js))
		r.Sample(map[string]any{"uncancelled_run": plainRuns[i], "observed": o.res})
		if o.sig != "" {
			r.Fail(o.sig, o.wh, map[string]any{"plain": plainRuns[i]})
		}
		if probe {
			fmt.Fprintf(os.Stderr, "PROBE plain %s -> %+v [%s]\n", js, o.res, o.sig)
		}
	}
	rwg.Wait()
	for i, o := range rOut {
		r.Evals(3)
		r.Count("finding-replay")
		r.Distinct(key(o.sc))
		if !rOK[i] {
			r.Note("finding replay did not behave the same 3 times: " + key(o.sc))
			continue
		}
		if o.sig != "" {
			r.Fail(o.sig, o.wh, o.sc)
		}
		if o.res.Inconclusive == "" && o.res.StartErr == "" {
			r.Case(coqCase(o.sc, o.res), o.sc)
		}
	}
	var suspects []outcome
	for i, o := range outs {
		r.Eval()
		r.Count("start=" + o.sc.Start)
		r.Count("stop=" + o.sc.Stop)
		r.Count("command=" + map[bool]string{true: "plain", false: o.sc.As + "/" + o.sc.Wrap}[o.sc.As == ""])
		if o.sc.World != "" {
			r.Count("world=" + o.sc.World)
		}
		all, _, _ := countNodes(o.sc.Tree)
		r.Count(fmt.Sprintf("tree-size=%d", min(all, 12)/3*3))
		r.Count(fmt.Sprintf("delay=%d", o.sc.DelayMs))
		if o.res.Inconclusive != "" || o.res.StartErr != "" {
			r.Count("inconclusive")
			continue
		}
		if all > 1 {
			r.Distinct(key(o.sc))
		}
		r.Sample(map[string]any{"scenario": o.sc, "observed": o.res})
		if o.sig != "" {
			suspects = append(suspects, o)
			continue
		}
		if i < r.N(400, 1500) {
			r.Case(coqCase(o.sc, o.res), o.sc)
		}
	}
	// 3-of-3 confirmation, alone (at most 3 per signature are kept anyway)
	perSig := map[string]int{}
	sort.SliceStable(suspects, func(i, j int) bool { return suspects[i].sig < suspects[j].sig })
	for _, o := range suspects {
		if perSig[o.sig] >= 2 {
			r.Count("suspect-not-reconfirmed(same signature already confirmed)")
			continue
		}
		if confirm(o) {
			perSig[o.sig]++
			r.Fail(o.sig, o.wh, o.sc)
			r.Case(coqCase(o.sc, o.res), o.sc)
		} else {
			r.Count("suspect-not-confirmed")
			r.Note("not confirmed 3 of 3: " + o.sig + " " + key(o.sc))
		}
	}
	finish()
}
