// C02 harness: zip extraction never leaves the destination (zip-slip).
//
// Drives the REAL filesystem.Unzip* on generated archives (entry names over '.', '..', '/', '\\', letters, control,
// non-UTF-8 and ISO-2022 escape bytes; files, directories, nested archives; any order) and destinations (absolute,
// relative, trailing / doubled separators, "." elements, archive-like names) on both back ends, through the recording
// afero shim.  The oracle is evaluated on the implementation's observations only (it never consults the Coq model):
//
//	O1  every mutating back-end call (MkdirAll, OpenFile with write flags, Chtimes, Remove, writes, ...) has a path that
//	    lexically resolves to the destination or below it (MkdirAll of an ancestor of the destination is tolerated);
//	O2  a snapshot (kind, size, mtime, content hash) of everything in the sandbox outside the destination, including the
//	    working directory, is unchanged;
//	O3  an entry that resolves outside the destination makes the call fail, with the 'suspected malicious intent' kind
//	    (checked on the archive reduced to the chain leading to that entry, so that no earlier failure can mask it);
//	O4  a path accepted by sanitiseZipExtractPath (hook) is clean, is the destination or starts with destination+"/",
//	    and has no ".." element; an escaping join is refused with the malicious kind.
//
// It then emits correspondence cases for GU.C02.Model.check_case (CPath: path/filepath vs the Coq Path model,
// CSan: the sanitiser hook vs [sanitise], CUnzip: error kind, returned file list, opened paths in order and the set of
// mutating operations vs [unzip]).
package main

import (
	"archive/zip"
	"bytes"
	"context"
	"crypto/sha256"
	"encoding/hex"
	"encoding/json"
	"fmt"
	"os"
	"path/filepath"
	"sort"
	"strings"
	"time"
	"unicode/utf8"

	"github.com/gogs/chardet"
	"github.com/spf13/afero"

	"github.com/ARM-software/golang-utils/utils/commonerrors"
	"github.com/ARM-software/golang-utils/utils/filesystem"

	"verif/harness/internal/h"
	"verif/harness/internal/shim"
)

type entry struct {
	Name  []byte  `json:"name"`
	Inner []entry `json:"inner,omitempty"` // content is a zip archive with these entries
	IsZip bool    `json:"is_zip,omitempty"`
	// Mode, when not 0, is the os.FileMode stored in the entry's external attributes: every kind the format can carry
	// (directory without trailing slash, symbolic link, named pipe, socket, devices, setuid/setgid/sticky, any permission).
	Mode uint32 `json:"mode,omitempty"`
	// Target, when not nil, is the entry's content (the link target of a symlink-kind entry); a leading /V is the sandbox root.
	Target []byte `json:"target,omitempty"`
}

// archive/zip: FileInfo().IsDir() is true for a trailing slash or for the directory bit in the mode
func (e entry) isDir() bool {
	return (len(e.Name) > 0 && e.Name[len(e.Name)-1] == '/') || os.FileMode(e.Mode)&os.ModeDir != 0
}

type scenario struct {
	Kind       string  `json:"kind"`    // unzip | san | path
	Backend    string  `json:"backend"` // mem | os
	Dest       []byte  `json:"dest"`    // virtual: absolute below /V, or relative to the working directory /V/cwd
	DestExists bool    `json:"dest_exists"`
	Recursive  bool    `json:"recursive"`
	Entries    []entry `json:"entries,omitempty"`
	// san / path
	Fn   string `json:"fn,omitempty"`
	A    []byte `json:"a,omitempty"`
	B    []byte `json:"b,omitempty"`
	Note string `json:"note,omitempty"`
}

const vroot = "/V"

var fixedTime = time.Date(2021, 3, 4, 5, 6, 8, 0, time.UTC)

func buildZip(es []entry, root string) []byte {
	var b bytes.Buffer
	w := zip.NewWriter(&b)
	for _, e := range es {
		hd := &zip.FileHeader{Name: string(e.Name), Method: zip.Deflate, Modified: fixedTime}
		if e.Mode != 0 {
			hd.SetMode(os.FileMode(e.Mode))
		}
		f, err := w.CreateHeader(hd)
		if err != nil {
			continue
		}
		if e.isDir() {
			continue
		}
		if e.Target != nil {
			t := string(e.Target)
			if strings.HasPrefix(t, vroot) {
				t = root + t[len(vroot):]
			}
			_, _ = f.Write([]byte(t))
		} else if e.IsZip {
			_, _ = f.Write(buildZip(e.Inner, root))
		} else {
			_, _ = f.Write([]byte("content of " + hex.EncodeToString(e.Name)))
		}
	}
	_ = w.Close()
	return b.Bytes()
}

func errKind(err error) string {
	switch {
	case err == nil:
		return "nil"
	case commonerrors.Any(err, commonerrors.ErrMalicious):
		return "malicious"
	default:
		return "other"
	}
}

// under: p is d or lexically below it (both cleaned, same rootedness)
func under(d, p string) bool {
	if filepath.IsAbs(d) != filepath.IsAbs(p) {
		return false
	}
	if p == d {
		return true
	}
	if d == "/" {
		return true
	}
	if d == "." {
		return p != ".." && !strings.HasPrefix(p, "../")
	}
	return strings.HasPrefix(p, d+"/")
}

type world struct {
	backend string
	root    string // real root (os: temp dir; mem: /V)
	cwd     string // real working directory
	sh      *shim.Fs
	inner   afero.Fs
	fs      filesystem.FS
}

func (w *world) real(v string) string { // virtual -> real
	if strings.HasPrefix(v, vroot) {
		return w.root + v[len(vroot):]
	}
	return v
}
func (w *world) virt(r string) string { // real -> virtual
	if w.root != vroot && strings.HasPrefix(r, w.root) {
		return vroot + r[len(w.root):]
	}
	return r
}
func (w *world) abs(p string) string {
	if filepath.IsAbs(p) {
		return filepath.Clean(p)
	}
	return filepath.Join(w.cwd, p)
}

var tmpBase string
var worldCounter int

func newWorld(backend string) *world {
	w := &world{backend: backend}
	if backend == "os" {
		worldCounter++
		w.root = filepath.Join(tmpBase, fmt.Sprintf("w%d", worldCounter))
		if err := os.MkdirAll(w.root, 0o755); err != nil {
			panic(err)
		}
		w.inner = filesystem.NewExtendedOsFs()
	} else {
		w.root = vroot
		w.inner = afero.NewMemMapFs()
	}
	w.cwd = w.root + "/cwd"
	w.sh = shim.New(w.inner, nil)
	w.sh.Rec = false
	ft := filesystem.InMemoryFS
	if backend == "os" {
		ft = filesystem.StandardFS
	}
	w.fs = filesystem.NewVirtualFileSystem(w.sh, ft, filesystem.IdentityPathConverterFunc)
	for _, d := range []string{"/cwd", "/in", "/s/a/b/c", "/s/a/b/sib", "/s/a/b/outside/sub", "/cwd/rel/q"} {
		_ = w.inner.MkdirAll(w.root+d, 0o755)
	}
	// bystanders whose fate the snapshot watches
	for _, f := range []string{"/s/a/b/c/evil", "/s/a/b/evil", "/s/a/evil", "/s/a/b/sib/keep.txt", "/cwd/keep.txt", "/s/a/b/c/dest.txt", "/s/a/b/c/out", "/s/a/b/outside/victim.txt", "/s/a/b/outside/sub/victim.txt"} {
		_ = afero.WriteFile(w.inner, w.root+f, []byte("bystander "+f), 0o644)
		_ = w.inner.Chtimes(w.root+f, fixedTime, fixedTime)
	}
	if backend == "os" {
		_ = os.Symlink("outside", w.root+"/s/a/b/bylink") // a bystander link: its target text is part of the snapshot
		for _, d := range []string{"/s/a/b/outside/sub", "/s/a/b/outside", "/s/a/b/sib", "/s/a/b/c", "/s/a/b", "/s/a", "/s", "/cwd/rel/q", "/cwd/rel", "/cwd", "/in"} {
			_ = os.Chtimes(w.root+d, fixedTime, fixedTime)
		}
	}
	return w
}

// physical resolves an absolute path the way the kernel does: element by element through the ACTUAL file system,
// following symbolic links (the last element only when followLast), ".." stepping to the physical parent.
// Elements that do not exist are kept as they are.
func physical(p string, followLast bool) string {
	todo := strings.Split(p, "/")
	cur := "/"
	hops := 0
	for len(todo) > 0 {
		c := todo[0]
		todo = todo[1:]
		switch c {
		case "", ".":
			continue
		case "..":
			cur = filepath.Dir(cur)
			continue
		}
		next := filepath.Join(cur, c)
		if fi, err := os.Lstat(next); err == nil && fi.Mode()&os.ModeSymlink != 0 && (len(todo) > 0 || followLast) && hops < 64 {
			hops++
			t, _ := os.Readlink(next)
			if strings.HasPrefix(t, "/") {
				cur = "/"
			}
			todo = append(strings.Split(t, "/"), todo...)
			continue
		}
		cur = next
	}
	return cur
}

// operations that act on what the last path element points to (the others act on the element itself)
var followsLast = map[string]bool{"OpenFile": true, "Create": true, "Open": true, "MkdirAll": true, "Mkdir": false, "Chtimes": true, "Chmod": true, "Chown": true}

func (w *world) close() {
	if w.backend == "os" {
		_ = os.RemoveAll(w.root)
	}
}

// snapshot of everything under the root except the subtree of skip (absolute real path)
func (w *world) snapshot(skip string) map[string]string {
	out := map[string]string{}
	_ = afero.Walk(w.inner, w.root, func(p string, fi os.FileInfo, err error) error {
		if err != nil || fi == nil {
			return nil
		}
		if p == skip || strings.HasPrefix(p, skip+"/") {
			if fi.IsDir() && p == skip {
				return filepath.SkipDir
			}
			return nil
		}
		if fi.IsDir() {
			// the modification time of an ancestor of the destination may legitimately change (the destination is created in it)
			if under(p, skip) || w.backend == "mem" {
				out[p] = "dir"
			} else {
				out[p] = fmt.Sprintf("dir %d", fi.ModTime().UnixNano())
			}
			return nil
		}
		if fi.Mode()&os.ModeSymlink != 0 {
			t, _ := os.Readlink(p)
			out[p] = "link -> " + t
			return nil
		}
		if !fi.Mode().IsRegular() {
			out[p] = "special " + fi.Mode().String()
			return nil
		}
		c, _ := afero.ReadFile(w.inner, p)
		s := sha256.Sum256(c)
		out[p] = fmt.Sprintf("file %s %d %d %s", fi.Mode().String(), fi.Size(), fi.ModTime().UnixNano(), hex.EncodeToString(s[:8]))
		return nil
	})
	return out
}

type obs struct {
	Kind    string   `json:"kind"`
	List    []string `json:"list"`
	Ops     []string `json:"ops"`   // "Name path" of mutating ops, virtual paths, in order
	Opens   []string `json:"opens"` // OpenFile-for-writing paths in order
	Outside []string `json:"outside,omitempty"`
	Phys    []string `json:"physically_outside,omitempty"` // OS: the operation's path resolved through the actual file system at the time of the call
	Changed []string `json:"changed,omitempty"`
}

func limitsFor(rec bool) filesystem.ILimits {
	if rec {
		return filesystem.NewLimits(1<<30, 10<<30, 1000000, -1, true)
	}
	return filesystem.NoLimits()
}

// execute runs one extraction in a fresh world.
func execute(sc scenario) (o obs, w *world, destExists bool) {
	defer func() { destExists = sc.DestExists }()
	w = newWorld(sc.Backend)
	destReal := w.real(string(sc.Dest))
	if sc.Backend == "os" {
		_ = os.Chdir(w.cwd)
	}
	absDest := w.abs(destReal)
	if sc.Backend == "os" && !(absDest == w.root || strings.HasPrefix(absDest, w.root+"/")) {
		panic("harness bug: destination outside the sandbox: " + absDest)
	}
	if filepath.Clean(destReal) == "." {
		sc.DestExists = true // the working directory always exists
	}
	if sc.DestExists {
		if sc.Backend == "mem" {
			_ = w.inner.MkdirAll(destReal, 0o755) // MemMapFs has no working directory: relative names are keys of their own
		} else {
			_ = w.inner.MkdirAll(absDest, 0o755)
		}
	}
	zipPath := w.root + "/in/a.zip"
	_ = afero.WriteFile(w.inner, zipPath, buildZip(sc.Entries, w.root), 0o644)
	before := w.snapshot(absDest)
	w.sh.ResetLog()
	w.sh.Rec = true
	if sc.Backend == "os" {
		// physical side of the oracle: once an archive can put links inside the destination, the text of a path says nothing
		w.sh.SetHook(func(op *shim.Op) error {
			if !op.Mutating || strings.HasPrefix(op.Name, "f.") {
				return nil
			}
			raw := op.Path
			if !filepath.IsAbs(raw) {
				raw = w.cwd + "/" + raw
			}
			ph := physical(raw, followsLast[op.Name])
			dph := physical(absDest, true)
			if !under(dph, ph) && !(op.Name == "MkdirAll" && under(ph, dph)) {
				o.Phys = append(o.Phys, fmt.Sprintf("%s %s => %s", op.Name, w.virt(op.Path), w.virt(ph)))
				if !under(w.root, ph) {
					return fmt.Errorf("harness: operation outside the sandbox refused: %s", ph)
				}
			}
			return nil
		})
	}
	list, err := w.fs.UnzipWithContextAndLimits(context.Background(), zipPath, destReal, limitsFor(sc.Recursive))
	w.sh.Rec = false
	w.sh.SetHook(nil)
	after := w.snapshot(absDest)
	o.Kind = errKind(err)
	for _, l := range list {
		o.List = append(o.List, w.virt(l))
	}
	for _, op := range w.sh.Log() {
		if !op.Mutating {
			continue
		}
		vp := w.virt(op.Path)
		o.Ops = append(o.Ops, op.Name+" "+vp)
		if op.Name == "OpenFile" {
			o.Opens = append(o.Opens, vp)
		}
		ap := w.abs(op.Path)
		if !under(absDest, ap) {
			if op.Name == "MkdirAll" && under(ap, absDest) {
				continue // creating the destination's own ancestors
			}
			o.Outside = append(o.Outside, op.Name+" "+vp)
		}
	}
	keys := map[string]bool{}
	for k := range before {
		keys[k] = true
	}
	for k := range after {
		keys[k] = true
	}
	for k := range keys {
		if before[k] != after[k] {
			if before[k] == "" && strings.HasPrefix(after[k], "dir") && under(k, absDest) {
				continue // an ancestor of the destination was created
			}
			o.Changed = append(o.Changed, fmt.Sprintf("%s: %q -> %q", w.virt(k), before[k], after[k]))
		}
	}
	sort.Strings(o.Changed)
	return
}

// ---- independent escape analysis (Go's own path/filepath) ----

func isZipName(name string) bool {
	ext := strings.ToLower(filepath.Ext(name))
	for _, e := range filesystem.ZipFileExtensions {
		if e == ext {
			return true
		}
	}
	return false
}

// firstEscape finds an entry (possibly nested, only where nesting is followed) whose joined path lies outside top;
// it returns the archive reduced to the chain leading to it.
func firstEscape(es []entry, dest, top string, rec bool) ([]entry, bool) {
	for _, e := range es {
		p := filepath.Join(dest, string(e.Name))
		if !under(top, p) {
			return []entry{{Name: e.Name}}, true
		}
		// a file entry whose path leaves the destination once it has been converted to UTF-8 (stable detections only)
		if !e.isDir() && !utf8.ValidString(p) && !detectionTied(p) {
			if q, err := filesystem.VerifDetermineUnzippedFilepath(p); err == nil && q != p && !under(top, filepath.Clean(q)) {
				return []entry{{Name: e.Name}}, true
			}
		}
		if rec && e.IsZip && !e.isDir() && len(e.Inner) > 0 && isZipName(p) && p != dest {
			nd := filepath.Join(filepath.Dir(p), filesystem.FilepathStem(p))
			if !under(top, nd) {
				return []entry{e}, true
			}
			if sub, ok := firstEscape(e.Inner, nd, top, rec); ok {
				return []entry{{Name: e.Name, IsZip: true, Inner: sub}}, true
			}
		}
	}
	return nil, false
}

// ---- Coq printers ----

func coqArchive(es []entry) string {
	var b strings.Builder
	for _, e := range es {
		switch {
		case e.isDir():
			b.WriteString("(AEntry " + h.Bytes(e.Name) + " KDir ")
		case e.IsZip:
			b.WriteString("(ANested " + h.Bytes(e.Name) + " " + coqArchive(e.Inner) + " ")
		default:
			b.WriteString("(AEntry " + h.Bytes(e.Name) + " KFile ")
		}
	}
	b.WriteString("ANil")
	for range es {
		b.WriteString(")")
	}
	return b.String()
}

func coqOp(s string) string {
	i := strings.IndexByte(s, ' ')
	name, p := s[:i], s[i+1:]
	switch name {
	case "MkdirAll":
		return "(OMkdirAll " + h.Str(p) + ")"
	case "OpenFile":
		return "(OOpenTrunc " + h.Str(p) + ")"
	case "Chtimes":
		return "(OChtimes " + h.Str(p) + ")"
	case "Remove":
		return "(ORemove " + h.Str(p) + ")"
	}
	return "(OOther " + h.Str(p) + ")"
}

var cvShape bool // shape of the ".." test in the tree under test (detected through the hook)

// transcoding table: every non-ASCII candidate extraction path -> hook result (virtual paths)
// The charset detection the library relies on (gogs/chardet) runs its recognisers concurrently and sorts their
// answers by confidence with an unstable sort: when the two best answers have the same confidence the detected charset
// (hence the converted path) varies from call to call.  Such paths cannot be predicted by any function of the input;
// scenarios containing one are judged by the oracle only (no correspondence case).
func detectionTied(p string) bool {
	res, err := chardet.NewTextDetector().DetectAll([]byte(p))
	if err != nil || len(res) < 2 {
		return false
	}
	best, second := -1, -1
	for _, x := range res {
		if x.Confidence > best {
			best, second = x.Confidence, best
		} else if x.Confidence > second {
			second = x.Confidence
		}
	}
	return best == second
}

func trTable(w *world, es []entry, dest string, rec bool, tbl map[string]string) {
	for _, e := range es {
		if e.isDir() {
			continue
		}
		p := filepath.Join(dest, string(e.Name))
		ascii := true
		for i := 0; i < len(p); i++ {
			if p[i] >= 128 {
				ascii = false
			}
		}
		if !ascii {
			if !utf8.ValidString(p) && detectionTied(p) {
				tbl["unstable"] = "yes"
			}
			q, err := filesystem.VerifDetermineUnzippedFilepath(p)
			if err != nil {
				tbl[w.virt(p)] = "None"
			} else {
				tbl[w.virt(p)] = "(Some " + h.Str(w.virt(q)) + ")"
			}
		}
		if rec && e.IsZip && isZipName(p) {
			trTable(w, e.Inner, filepath.Join(filepath.Dir(p), filesystem.FilepathStem(p)), rec, tbl)
		}
	}
}

func runUnzip(r *h.Run, sc scenario, emit bool) {
	o, w, destExists := execute(sc)
	defer w.close()
	r.Eval()
	r.Count("backend=" + sc.Backend)
	r.Count("result=" + o.Kind)
	if sc.Recursive {
		r.Count("recursive")
	}
	// O1 / O2
	if len(o.Outside) > 0 {
		r.Fail("outside-op:"+sc.Backend, fmt.Sprintf("mutating back-end call outside the destination %q: %q (result %s)", sc.Dest, o.Outside, o.Kind), sc)
	}
	if len(o.Phys) > 0 {
		r.Fail("outside-physical:"+sc.Backend, fmt.Sprintf("mutating back-end call whose path, resolved through the actual file system (links inside the destination), lies outside the destination %q: %q (result %s)", sc.Dest, o.Phys, o.Kind), sc)
	}
	if len(o.Changed) > 0 {
		r.Fail("outside-change:"+sc.Backend, fmt.Sprintf("file system entry outside the destination %q created/changed/removed: %v (result %s)", sc.Dest, o.Changed, o.Kind), sc)
	}
	// O3
	destReal := w.real(string(sc.Dest))
	top := filepath.Clean(destReal)
	if red, ok := firstEscape(sc.Entries, top, top, sc.Recursive); ok {
		r.Count("has-escaping-entry")
		if o.Kind == "nil" {
			r.Fail("escape-not-refused:"+sc.Backend, fmt.Sprintf("an entry resolves outside the destination %q but the call succeeded", sc.Dest), sc)
		} else if o.Kind != "malicious" {
			sc2 := sc
			sc2.Entries = red
			o2, w2, _ := execute(sc2)
			w2.close()
			r.Eval()
			if o2.Kind != "malicious" {
				r.Fail("escape-wrong-kind:"+sc.Backend, fmt.Sprintf("an entry resolving outside the destination %q fails with kind %s, not 'suspected malicious intent'", sc.Dest, o2.Kind), sc2)
			}
			if len(o2.Outside) > 0 || len(o2.Changed) > 0 {
				r.Fail("outside-op:"+sc.Backend, fmt.Sprintf("reduced archive writes outside %q: %q %v", sc.Dest, o2.Outside, o2.Changed), sc2)
			}
		}
	}
	nontrivial := false
	for _, e := range sc.Entries {
		if e.Mode != 0 {
			r.Count("entry-kind=" + kindName(e.Mode))
		}
		if bytes.Contains(e.Name, []byte("..")) || bytes.ContainsAny(e.Name, "\\\x1b") || e.IsZip || !isASCII(e.Name) || e.Mode != 0 {
			nontrivial = true
		}
	}
	if nontrivial {
		r.Distinct(fmt.Sprintf("%s|%q|%v|%v|%v", sc.Backend, sc.Dest, sc.DestExists, sc.Recursive, sc.Entries))
	}
	r.Sample(map[string]any{"scenario": descr(sc), "obs": o})
	if emit {
		tbl := map[string]string{}
		trTable(w, sc.Entries, top, sc.Recursive, tbl)
		if tbl["unstable"] != "" {
			r.Count("transcoding-tie:oracle-only")
			return
		}
		keys := make([]string, 0, len(tbl))
		for k := range tbl {
			keys = append(keys, k)
		}
		sort.Strings(keys)
		ts := make([]string, len(keys))
		for i, k := range keys {
			ts[i] = "(" + h.Str(k) + ", " + tbl[k] + ")"
		}
		res := map[string]string{"nil": "RNil", "malicious": "RMalicious", "other": "ROther"}[o.Kind]
		fl := make([]string, len(o.List))
		for i, l := range o.List {
			fl[i] = h.Str(l)
		}
		opens := make([]string, len(o.Opens))
		for i, l := range o.Opens {
			opens[i] = h.Str(l)
		}
		var ops []string
		seen := map[string]bool{}
		for _, s := range o.Ops {
			if strings.HasPrefix(s, "f.") { // writes / closes / truncations on an opened handle: same path as its OpenFile
				continue
			}
			if !seen[s] {
				seen[s] = true
				ops = append(ops, coqOp(s))
			}
		}
		r.Case(fmt.Sprintf("(CUnzip %s %s %s %s %s %s %s %s %s %s %s)", h.Bool(cvShape), h.Bool(sc.Recursive), h.Bool(sc.Backend == "mem"),
			h.Bool(destExists), h.Bytes(sc.Dest), coqArchive(sc.Entries), h.List(ts), res, h.List(fl), h.List(opens), h.List(ops)), descr(sc))
	}
}

func kindName(m uint32) string {
	fm := os.FileMode(m)
	switch {
	case fm&os.ModeSymlink != 0:
		return "symlink"
	case fm&os.ModeDir != 0:
		return "dir-by-mode"
	case fm&os.ModeNamedPipe != 0:
		return "fifo"
	case fm&os.ModeSocket != 0:
		return "socket"
	case fm&os.ModeDevice != 0:
		return "device"
	case fm&(os.ModeSetuid|os.ModeSetgid|os.ModeSticky) != 0:
		return "setid"
	}
	return "perm"
}

func isASCII(b []byte) bool {
	for _, c := range b {
		if c >= 128 {
			return false
		}
	}
	return true
}

func descr(sc scenario) map[string]any {
	var names func(es []entry) []any
	names = func(es []entry) []any {
		var out []any
		for _, e := range es {
			if e.Mode != 0 {
				out = append(out, fmt.Sprintf("%q %s -> %q", e.Name, os.FileMode(e.Mode).String(), e.Target))
			} else if e.IsZip {
				out = append(out, map[string]any{fmt.Sprintf("%q", e.Name): names(e.Inner)})
			} else {
				out = append(out, fmt.Sprintf("%q", e.Name))
			}
		}
		return out
	}
	return map[string]any{"kind": sc.Kind, "backend": sc.Backend, "dest": fmt.Sprintf("%q", sc.Dest), "dest_exists": sc.DestExists,
		"recursive": sc.Recursive, "entries": names(sc.Entries), "fn": sc.Fn, "a": fmt.Sprintf("%q", sc.A), "b": fmt.Sprintf("%q", sc.B), "note": sc.Note}
}

// ---- sanitiser hook ----

func runSan(r *h.Run, sc scenario, emit bool) {
	fs := filesystem.NewStandardFileSystem()
	d := filepath.Clean(string(sc.A)) // unzip cleans the destination before anything else (zip.go:275)
	p, err := filesystem.VerifSanitiseZipExtractPath(fs, string(sc.B), d)
	r.Eval()
	k := errKind(err)
	r.Count("san=" + k)
	joined := filepath.Join(d, string(sc.B))
	if err == nil {
		hasDD := false
		for _, el := range strings.Split(p, "/") {
			if el == ".." {
				hasDD = true
			}
		}
		ok := p == filepath.Clean(p) && (p == d || (strings.HasPrefix(p, d+"/") && !hasDD))
		if !ok {
			r.Fail("sanitise-accepts-outside", fmt.Sprintf("sanitiseZipExtractPath(%q, dest %q) accepted %q which is not the destination or below it", sc.B, d, p), sc)
		}
	} else if k != "malicious" {
		r.Fail("sanitise-wrong-kind", fmt.Sprintf("sanitiseZipExtractPath(%q, dest %q) failed with kind %s", sc.B, d, k), sc)
	}
	if !under(d, joined) && err == nil {
		r.Fail("sanitise-accepts-outside", fmt.Sprintf("sanitiseZipExtractPath(%q, dest %q): the join %q is outside and was accepted", sc.B, d, joined), sc)
	}
	if bytes.Contains(sc.B, []byte("..")) || bytes.ContainsAny(sc.B, "\\") {
		r.Distinct(fmt.Sprintf("san|%q|%q", d, sc.B))
	}
	if emit {
		out := "None"
		if err == nil {
			out = "(Some " + h.Str(p) + ")"
		}
		r.Case(fmt.Sprintf("(CSan %s %s %s %s)", h.Bool(cvShape), h.Str(d), h.Bytes(sc.B), out), descr(sc))
	}
}

// ---- path/filepath differential ----

func runPath(r *h.Run, sc scenario, emit bool) {
	a, b := string(sc.A), string(sc.B)
	var out, fn string
	switch sc.Fn {
	case "clean":
		out, fn = filepath.Clean(a), "FClean"
	case "join":
		out, fn = filepath.Join(a, b), "FJoin"
	case "dir":
		out, fn = filepath.Dir(a), "FDir"
	case "base":
		out, fn = filepath.Base(a), "FBase"
	case "ext":
		out, fn = filepath.Ext(a), "FExt"
	default:
		out, fn = filesystem.FilepathStem(a), "FStem"
	}
	r.Eval()
	r.Count("path=" + sc.Fn)
	if emit {
		r.Case(fmt.Sprintf("(CPath %s %s %s %s)", fn, h.Str(a), h.Str(b), h.Str(out)), descr(sc))
	}
}

func runScenario(r *h.Run, sc scenario, emit bool) {
	switch sc.Kind {
	case "san":
		runSan(r, sc, emit)
	case "path":
		runPath(r, sc, emit)
	default:
		runUnzip(r, sc, emit)
	}
}

// ---- generators ----

var dirElems = []string{"a", "b", "d0", "d1", "sub", ".", "..", "", "...", "a..b", "..a", "d.zip", "\x01", "dir\xe9", "\xe6\x97\xa5", ".\x1b(B.", "c\\d", "..\\"}
var fileElems = []string{"f", "g.txt", "x.zip", "y.JAR", "z.gz", "t.tar.gz", "h..i", "..zip", "...zip", ".zip", "..\\evil", "a\\..\\b", "k\x7f", "n\xff", "\xe9t\xe9.txt", "u\xc3\xa9", "evil", "evil\xff", ".\x1b(B.", "m\x1b$B./\x1b(Bq\xff", ".", "..", "...", "dest.txt", "out"}

var benignDirs = []string{"a", "b", "d0", "d1", "sub"}
var benignFiles = []string{"f", "g.txt", "x.zip", "y.JAR", "z.gz", "dest.txt", "out", "k\x7f", "u\xc3\xa9", "n\xff"}

func pick(r *h.Run, l []string) string { return l[r.Rng.Intn(len(l))] }

// three quarters of the elements are ordinary so that most archives get past their first entries
func pickDir(r *h.Run) string {
	if r.Rng.Intn(4) > 0 {
		return pick(r, benignDirs)
	}
	return pick(r, dirElems)
}
func pickFile(r *h.Run) string {
	if r.Rng.Intn(4) > 0 {
		return pick(r, benignFiles)
	}
	return pick(r, fileElems)
}

func genName(r *h.Run, dir bool) []byte {
	var b []byte
	if r.Rng.Intn(12) == 0 {
		b = append(b, '/')
	}
	n := r.Rng.Intn(4)
	for i := 0; i < n; i++ {
		b = append(b, pickDir(r)...)
		b = append(b, '/')
		if r.Rng.Intn(10) == 0 {
			b = append(b, '/')
		}
	}
	if dir {
		b = append(b, pickDir(r)...)
		b = append(b, '/')
	} else {
		b = append(b, pickFile(r)...)
		if len(b) > 0 && b[len(b)-1] == '/' {
			b = append(b, 'f')
		}
	}
	return b
}

var linkTargets = []string{"/V/s/a/b/outside", "/V/s/a/b/sib", "/V/s/a/b/c", "/V/cwd", "../outside", "../../outside", "../../../outside", "../../../../outside",
	"..", "../..", "../../..", ".", "a", "sub/x", "/V/s/a/b/c/dest/a", "../dest.txt", "../../evil", "nowhere/at/all"}
var belowNames = []string{"/victim.txt", "/created.txt", "/sub/victim.txt", "/evil", "/newdir/", "/keep.txt", "/a/b/new.txt"}
var specialModes = []os.FileMode{os.ModeSymlink | 0o777, os.ModeSymlink | 0o777, os.ModeSymlink | 0o777, os.ModeDir | 0o755, os.ModeDir | 0o700, os.ModeNamedPipe | 0o644, os.ModeSocket | 0o644,
	os.ModeDevice | 0o660, os.ModeDevice | os.ModeCharDevice | 0o666, os.ModeSetuid | 0o755, os.ModeSetgid | 0o750, os.ModeSticky | 0o777, os.ModeSetuid | os.ModeSetgid | 0o4, 0o600, 0o444, 0o200, 0o777}

// genSpecial: an entry of any kind the mode bits can express (a symlink-kind entry carries an arbitrary target as its
// content) together with ordinary entries BELOW it, in either order.
func genSpecial(r *h.Run) []entry {
	var name []byte
	if r.Rng.Intn(2) == 0 {
		name = append(name, pick(r, benignDirs)...)
		name = append(name, '/')
	}
	name = append(name, pick(r, []string{"latest", "lnk", "docs", "cur", "d1"})...)
	m := specialModes[r.Rng.Intn(len(specialModes))]
	sp := entry{Name: name, Mode: uint32(m)}
	if m&os.ModeDir == 0 {
		sp.Target = []byte(pick(r, linkTargets))
	}
	var below []entry
	for i, n := 0, r.Rng.Intn(3); i < n; i++ {
		below = append(below, entry{Name: append(append([]byte{}, name...), pick(r, belowNames)...)})
	}
	if r.Rng.Intn(3) == 0 {
		return append(below, sp)
	}
	return append([]entry{sp}, below...)
}

func genEntries(r *h.Run, depth int) []entry {
	n := 1 + r.Rng.Intn(5)
	var es []entry
	for i := 0; i < n; i++ {
		if r.Rng.Intn(6) == 0 {
			es = append(es, genSpecial(r)...)
			continue
		}
		switch x := r.Rng.Intn(10); {
		case x < 2:
			es = append(es, entry{Name: genName(r, true)})
		case x < 4 && depth > 0:
			nm := genName(r, false)
			if r.Rng.Intn(3) > 0 && !isZipName(string(nm)) {
				nm = append(nm, pick(r, []string{".zip", ".ZIP", ".jar", ".7z", ".gz"})...)
			}
			var inner []entry
			if r.Rng.Intn(8) > 0 {
				inner = genEntries(r, depth-1)
			}
			es = append(es, entry{Name: nm, IsZip: true, Inner: inner})
		default:
			es = append(es, entry{Name: genName(r, false)})
		}
	}
	return es
}

var destShapes = []string{"/V/s/a/b/c/dest", "/V/s/a/b/c/dest/", "/V/s/a/b//c/dest", "/V/s/a/b/./c/dest", "/V/s/a/x/../b/c/dest", "/V/s/a/b/c/new/dest",
	"/V/s/a/b/c/out.zip", "/V/s/a/b/c/d..e", "rel/q/dest", "rel/q/dest/", "./rel/q/dest", "rel/q/../q/dest", ".", "../cwd/rel/q/dest", "/V/s/a/b/c/dest\xe9"}

func genDest(r *h.Run) string { return pick(r, destShapes) }

// Texts the error converters on unzip's error path match against error MESSAGES, and the messages of the other error
// kinds, regenerated from the source by translator-c02 (coq/C02/triggers.json): the malicious error quotes the
// attacker-chosen entry name, so an escaping name that contains such a text must still be refused as malicious.
var converterTexts = []string{"i/o timeout", "file exists", "file already exists", "bad file descriptor", "not supported"}
var kindMessages = []string{"timeout", "cancelled", "not found", "already exists", "conflict", "unsupported", "not implemented", "invalid", "end of file"}

func loadTriggers(r *h.Run) {
	root := os.Getenv("VERIF_ROOT")
	if root == "" {
		root = "/verif"
	}
	bs, err := os.ReadFile(filepath.Join(root, "coq", "C02", "triggers.json"))
	var t struct {
		Conv  []string `json:"converter_texts"`
		Kinds []string `json:"kind_messages"`
	}
	if err != nil || json.Unmarshal(bs, &t) != nil || len(t.Conv) == 0 {
		r.Note("triggers.json not readable: built-in converter texts used")
	} else {
		converterTexts, kindMessages = t.Conv, t.Kinds
	}
	for i, c := range converterTexts {
		fileElems = append(fileElems, c)
		if i%2 == 0 {
			dirElems = append(dirElems, c)
		} else {
			dirElems = append(dirElems, strings.ToUpper(c))
		}
	}
	for i, k := range kindMessages {
		if i%3 == 0 {
			fileElems = append(fileElems, k)
		}
	}
}

type trigScenario struct {
	sc   scenario
	emit bool
}

// triggerCorpus: every text as part of an escaping file / directory / nested-archive / converted name, alone in its archive
func triggerCorpus() []trigScenario {
	var out []trigScenario
	one := func(be string, rec bool, emit bool, es ...entry) {
		out = append(out, trigScenario{scenario{Kind: "unzip", Backend: be, Dest: []byte("/V/s/a/b/c/dest"), Recursive: rec, Entries: es, Note: "error-text in an escaping name"}, emit})
	}
	for _, be := range []string{"mem", "os"} {
		for ti, t := range append(append([]string{}, converterTexts...), kindMessages...) {
			conv := ti < len(converterTexts)
			variants := []string{t}
			if conv {
				variants = append(variants, strings.ToUpper(t), "x "+t+" y")
			}
			for _, v := range variants {
				one(be, false, conv, entry{Name: []byte("../" + v)})
				one(be, true, conv, entry{Name: []byte("ok.txt")}, entry{Name: []byte("a/../../" + v + "/f.txt")})
				one(be, false, false, entry{Name: []byte("../" + v + "/")})
				one(be, true, false, entry{Name: []byte("../" + v), Mode: uint32(os.ModeDir | 0o755)})
				// nested archive whose inner entry leaves the (outer) destination, and one whose own name escapes
				one(be, true, conv, entry{Name: []byte("n.zip"), IsZip: true, Inner: []entry{{Name: []byte("in.txt")}, {Name: []byte("../../" + v)}}})
				one(be, true, false, entry{Name: []byte("../" + v + ".zip"), IsZip: true, Inner: []entry{{Name: []byte("in.txt")}}})
				// escapes only once converted to UTF-8 (ISO-2022-JP escape sequences vanish)
				one(be, false, conv, entry{Name: []byte(".\x1b(B./.\x1b(B./" + v + "\xff")})
				one(be, true, false, entry{Name: []byte("sub/.\x1b(B./.\x1b(B./.\x1b(B./" + v + "/evil\xff")})
			}
		}
	}
	return out
}

func corpus() []scenario {
	var out []scenario
	f := func(names ...string) []entry {
		var es []entry
		for _, n := range names {
			es = append(es, entry{Name: []byte(n)})
		}
		return es
	}
	singles := []string{"../evil", "a/../../evil", "..", "..\\evil", "/abs/evil", "a/../b", "./x", "a//b", "a..b", "...", ".../x", "a/", "a/b/", "../", "", ".",
		"a/../../../../evil", "/../evil", "../dest.txt", "../destx/evil", "../dest", "./", "a/../", "sub/../../dest.txt/", "../sib/keep.txt", "//evil", "a/./../..//evil", "..zip", "...zip", "x/..", "x/../..", "\xff/../../evil",
		// transcoding after sanitisation: ISO-2022 escape sequences vanish in the conversion (D31)
		".\x1b(B./.\x1b(B./evil\xff", ".\x1b(B./evil\xff", "sub/.\x1b(B./.\x1b(B./.\x1b(B./evil\xff", ".\x1b$)C./x\xff", "\x1b$B./\x1b(Bx\xff", "ok\xff", "d\xe9/f", "\xe9t\xe9"}
	for _, be := range []string{"mem", "os"} {
		for _, rec := range []bool{false, true} {
			for _, n := range singles {
				out = append(out, scenario{Kind: "unzip", Backend: be, Dest: []byte("/V/s/a/b/c/dest"), Recursive: rec, Entries: append(f("ok.txt"), f(n)...)})
			}
			// nested archives: escaping inner entry, stem "..", stem "", archive-like directory
			inner := f("in.txt", "../up.txt")
			out = append(out,
				scenario{Kind: "unzip", Backend: be, Dest: []byte("/V/s/a/b/c/dest"), Recursive: rec, Entries: []entry{{Name: []byte("n.zip"), IsZip: true, Inner: inner}}},
				scenario{Kind: "unzip", Backend: be, Dest: []byte("/V/s/a/b/c/dest"), Recursive: rec, Entries: []entry{{Name: []byte("sub/n.zip"), IsZip: true, Inner: f("in.txt", "d/", "d/e.txt")}, {Name: []byte("after.txt")}}},
				scenario{Kind: "unzip", Backend: be, Dest: []byte("/V/s/a/b/c/dest"), Recursive: rec, Entries: []entry{{Name: []byte("...zip"), IsZip: true, Inner: f("evil")}}},
				scenario{Kind: "unzip", Backend: be, Dest: []byte("/V/s/a/b/c/dest"), Recursive: rec, Entries: []entry{{Name: []byte("sub/...jar"), IsZip: true, Inner: f("evil")}}},
				scenario{Kind: "unzip", Backend: be, Dest: []byte("/V/s/a/b/c/dest"), Recursive: rec, Entries: []entry{{Name: []byte(".zip"), IsZip: true, Inner: f("in.txt")}}},
				scenario{Kind: "unzip", Backend: be, Dest: []byte("/V/s/a/b/c/dest"), Recursive: rec, Entries: []entry{{Name: []byte("..zip"), IsZip: true, Inner: f("in.txt")}}},
				scenario{Kind: "unzip", Backend: be, Dest: []byte("/V/s/a/b/c/dest"), Recursive: rec, Entries: []entry{{Name: []byte("o.zip"), IsZip: true, Inner: []entry{{Name: []byte("i.zip"), IsZip: true, Inner: f("deep.txt", "../../evil")}}}}},
				scenario{Kind: "unzip", Backend: be, Dest: []byte("/V/s/a/b/c/dest"), Recursive: rec, Entries: []entry{{Name: []byte("plain.zip")}, {Name: []byte("d.zip/")}, {Name: []byte("e.zip"), IsZip: true}}},
				// the destination itself looks like an archive and an entry resolves to it
				scenario{Kind: "unzip", Backend: be, Dest: []byte("/V/s/a/b/c/out.zip"), DestExists: true, Recursive: rec, Entries: []entry{{Name: []byte("."), IsZip: true, Inner: f("evil")}}},
				scenario{Kind: "unzip", Backend: be, Dest: []byte("/V/s/a/b/c/out.zip"), Recursive: rec, Entries: f("x", "../out")},
			)
			// every entry kind of the mode bits, with entries below it, before and after it
			lnk := func(name, target string) entry {
				return entry{Name: []byte(name), Mode: uint32(os.ModeSymlink | 0o777), Target: []byte(target)}
			}
			for _, t := range []string{"/V/s/a/b/outside", "../../../outside", "../..", "/V/s/a/b/c/dest/inside", "nowhere"} {
				below := f("docs/latest/victim.txt", "docs/latest/created.txt", "docs/latest/sub/victim.txt")
				out = append(out,
					scenario{Kind: "unzip", Backend: be, Dest: []byte("/V/s/a/b/c/dest"), Recursive: rec, Entries: append([]entry{{Name: []byte("inside/")}, lnk("docs/latest", t)}, below...)},
					scenario{Kind: "unzip", Backend: be, Dest: []byte("/V/s/a/b/c/dest"), Recursive: rec, Entries: append(append([]entry{}, below...), lnk("docs/latest", t))},
					scenario{Kind: "unzip", Backend: be, Dest: []byte("rel/q/dest"), DestExists: true, Recursive: rec, Entries: []entry{lnk("lnk", t), {Name: []byte("lnk/newdir/")}, {Name: []byte("lnk/evil")}}},
				)
			}
			out = append(out,
				scenario{Kind: "unzip", Backend: be, Dest: []byte("/V/s/a/b/c/dest"), Recursive: rec, Entries: []entry{lnk("up", ".."), {Name: []byte("up/evil")}, {Name: []byte("up/dest.txt")}}},
				scenario{Kind: "unzip", Backend: be, Dest: []byte("/V/s/a/b/c/dest"), Recursive: rec, Entries: []entry{lnk("l1", "/V/s/a/b/outside"), lnk("l1/sub/l2", "../.."), {Name: []byte("l1/sub/l2/sib/keep.txt")}}},
				scenario{Kind: "unzip", Backend: be, Dest: []byte("/V/s/a/b/c/dest"), Recursive: rec, Entries: []entry{{Name: []byte("n.zip"), IsZip: true, Inner: []entry{lnk("cur", "/V/s/a/b/outside"), {Name: []byte("cur/victim.txt")}}}}},
			)
			for _, m := range specialModes {
				if m&os.ModeSymlink != 0 {
					continue
				}
				sp := entry{Name: []byte("k/special"), Mode: uint32(m)}
				if m&os.ModeDir == 0 {
					sp.Target = []byte("/V/s/a/b/outside")
				}
				out = append(out, scenario{Kind: "unzip", Backend: be, Dest: []byte("/V/s/a/b/c/dest"), Recursive: rec, Entries: []entry{sp, {Name: []byte("k/special/victim.txt")}, {Name: []byte("after.txt")}}})
			}
			for _, d := range destShapes {
				out = append(out, scenario{Kind: "unzip", Backend: be, Dest: []byte(d), DestExists: len(d)%2 == 0, Recursive: rec,
					Entries: append(f("ok.txt", "d/", "d/f.txt", "../evil"), entry{Name: []byte("n.zip"), IsZip: true, Inner: f("i.txt")})})
				out = append(out, scenario{Kind: "unzip", Backend: be, Dest: []byte(d), DestExists: len(d)%2 == 1, Recursive: rec,
					Entries: append(f("d/e/", "d/e/f.txt"), entry{Name: []byte("m/n.zip"), IsZip: true, Inner: f("i.txt", "j/")})})
				out = append(out, scenario{Kind: "unzip", Backend: be, Dest: []byte(d), Recursive: rec, Entries: f(".\x1b(B./.\x1b(B./evil\xff")})
			}
		}
	}
	// sanitiser: destination shapes x names
	sanDests := []string{"/d", "/d/", "/", ".", "", "rel/x/", "../r", "/a..b", "//d/e", "..", "/d\xff"}
	sanNames := append(append([]string{}, singles...), "x", "a/b/c", "a/b/../c", "/", "//", "./", "a\\b", "..a", "a..", ". .", ".. ", " ..", "..\x00", "e/..f/g", "e/f../g", "d", "../d", "../d/x", "../dx", "../d/../d/x")
	for _, d := range sanDests {
		for _, n := range sanNames {
			out = append(out, scenario{Kind: "san", A: []byte(d), B: []byte(n)})
		}
	}
	// path functions: fixed corner cases
	pc := []string{"", ".", "..", "/", "//", "///a", "a", "a/", "a//", "/a", "/a/", "a/b", "a//b", "a/./b", "a/../b", "a/..", "a/../..", "../a", "../../a/..", "/..", "/../a", "/a/../..", "./a", "a/.",
		"a/b/../../..", "a.b", ".a", "a.", "a.b.c", "a/.b", "a.b/c", "a.b/", "...", "...zip", "..zip", ".zip", "x.zip/", "x.tar.gz", "a\\b", "a/b\\..\\c", "\xff.\xfe", "a/ /b", "/.", "/./", "./", "./.", "../", "..//", "a/b/c/../../d", "abc/def/../../../ghi"}
	for _, a := range pc {
		for _, fn := range []string{"clean", "dir", "base", "ext", "stem"} {
			out = append(out, scenario{Kind: "path", Fn: fn, A: []byte(a)})
		}
		for _, b := range []string{"", "../b", "/b", ".."} {
			out = append(out, scenario{Kind: "path", Fn: "join", A: []byte(a), B: []byte(b)})
		}
	}
	return out
}

func randBytes(r *h.Run, alphabet string, maxLen int) []byte {
	n := r.Rng.Intn(maxLen + 1)
	b := make([]byte, n)
	for i := range b {
		b[i] = alphabet[r.Rng.Intn(len(alphabet))]
	}
	return b
}

func main() {
	r := h.Init("C02")
	r.Imports = []string{"GU.C02.Path", "GU.C02.Model", "GU.C02.Gen", "GU.C02.Inst"} // check_case = the model instantiated with the regenerated facts
	r.ShardSize = 150
	r.Rule("unzip scenarios: back end x destination shape (absolute/relative/trailing or doubled separators/./..-elements/archive-like/non-UTF-8) x recursive x " +
		"archives of 1..5 entries per level (files, directories, nested archives to depth 2; names from a grammar over ., .., ..., /, //, \\, letters, control, " +
		"non-UTF-8, UTF-8 and ISO-2022 escape bytes); sanitiser hook: destination shapes x names; path functions vs path/filepath. " +
		"non-trivial = some name contains '..', a backslash, an escape byte, a non-ASCII byte or is a nested archive; distinct by full scenario")
	var err error
	// a sandbox whose name depends on the seed only: the charset detection sees the whole path, random names would make runs differ
	tmpBase = filepath.Join(os.TempDir(), fmt.Sprintf("verif-c02-s%d", r.Seed))
	_ = os.RemoveAll(tmpBase)
	if err = os.MkdirAll(tmpBase, 0o755); err != nil {
		panic(err)
	}
	defer os.RemoveAll(tmpBase)
	orig, _ := os.Getwd()
	defer os.Chdir(orig)

	_, e := filesystem.VerifSanitiseZipExtractPath(filesystem.NewStandardFileSystem(), "a..b", "/d")
	cvShape = e == nil
	r.Note(fmt.Sprintf("shape of the '..' test in the tree under test: element test = %v", cvShape))

	loadTriggers(r)
	var sc scenario
	if _, ok := r.ReplayObject(&sc); ok {
		runScenario(r, sc, false)
		_ = os.Chdir(orig)
		r.Finish()
		return
	}
	for _, c := range corpus() {
		runScenario(r, c, true)
	}
	for _, c := range triggerCorpus() {
		runScenario(r, c.sc, c.emit)
	}
	nUnzip := r.N(350, 6000)
	emitUnzip := r.N(350, 1500)
	for i := 0; i < nUnzip; i++ {
		be := "mem"
		if r.Rng.Intn(2) == 0 {
			be = "os"
		}
		depth := 2
		if r.Thorough() {
			depth = 3
		}
		sc := scenario{Kind: "unzip", Backend: be, Dest: []byte(genDest(r)), DestExists: r.Rng.Intn(2) == 0, Recursive: r.Rng.Intn(3) > 0, Entries: genEntries(r, depth)}
		runScenario(r, sc, i < emitUnzip)
	}
	nSan := r.N(300, 20000)
	for i := 0; i < nSan; i++ {
		var d []byte
		if r.Rng.Intn(2) == 0 {
			d = []byte(pick(r, []string{"/d", "/d/e", "rel", ".", "/", "/a..b", "../r", "rel/x"}))
		} else {
			d = randBytes(r, "ab./..//", 8)
		}
		var n []byte
		if r.Rng.Intn(2) == 0 {
			n = genName(r, r.Rng.Intn(4) == 0)
		} else {
			n = randBytes(r, "ab../\\\xff.", 10)
		}
		runScenario(r, scenario{Kind: "san", A: d, B: n}, i < r.N(300, 3000))
	}
	nPath := r.N(400, 50000)
	fns := []string{"clean", "join", "dir", "base", "ext", "stem"}
	for i := 0; i < nPath; i++ {
		runScenario(r, scenario{Kind: "path", Fn: fns[r.Rng.Intn(len(fns))], A: randBytes(r, "ab../.\\\xe9z/.", 12), B: randBytes(r, "ab../", 6)}, i < r.N(400, 6000))
	}
	_ = os.Chdir(orig)
	r.Finish()
}
