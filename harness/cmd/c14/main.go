// C14 harness: retries are bounded and back-off waits stay in range.
//
// Three families of scenarios are run on the REAL library:
//
//	wait   — BackOffPolicyFactory(cfg).Apply(min, max, n, resp) over policy x (min, max) x attempt number x
//	         response status x Retry-After header value (seconds, dates, garbage);
//	retry  — retry.RetryIf / retry.RetryOnError with an instrumented function following an outcome script
//	         (success / retriable / non-retriable, context ending before the call, during attempt k, during the wait);
//	client — NewConfigurableRetryableClient against a local test server answering `fails` times with a retriable
//	         status and then 200 (request count and arrival times).
//
// The oracle states the property directly on the observations (it does not use the Coq model); every scenario is also
// emitted as a correspondence case for GU.C14.Model.check_case.
package main

import (
	"context"
	"encoding/json"
	"errors"
	"fmt"
	"math"
	"math/big"
	"net"
	"net/http"
	"net/http/httptest"
	"os"
	"sort"
	"strconv"
	"strings"
	"sync"
	"syscall"
	"time"

	"github.com/go-logr/logr"
	"github.com/hashicorp/go-cleanhttp"
	"golang.org/x/oauth2"

	"github.com/ARM-software/golang-utils/utils/commonerrors"
	httpu "github.com/ARM-software/golang-utils/utils/http"
	"github.com/ARM-software/golang-utils/utils/retry"

	"verif/harness/internal/h"
)

// ------------------------------------------------------------------------------------------------
// scenarios

type waitSc struct {
	Enabled    bool   `json:"enabled"`
	BackOff    bool   `json:"backoff"`
	Linear     bool   `json:"linear"`
	RADisabled bool   `json:"retry_after_disabled"`
	Min        int64  `json:"min_ns"`
	Max        int64  `json:"max_ns"`
	N          int    `json:"attempt"`
	HasResp    bool   `json:"has_response"`
	Status     int    `json:"status"`
	HasHeader  bool   `json:"has_header"`
	Header     string `json:"header"`
	// when DateFormat != "" the header is the date now+DateOffsetMs printed in that layout (computed at run time)
	DateFormat   string `json:"date_format,omitempty"`
	DateOffsetMs int64  `json:"date_offset_ms,omitempty"`
}

type attemptSc struct {
	Out           string `json:"out"`      // succ | retry | fatal
	ErrKind       string `json:"err_kind"` // canceled | deadline (the error Is a context error) or one of errShapes (it is not)
	CtxEndsIn     bool   `json:"ctx_ends_in,omitempty"`
	CtxEndsInWait bool   `json:"ctx_ends_in_wait,omitempty"`
}

type retrySc struct {
	API         string      `json:"api"` // if | onerror
	Enabled     bool        `json:"enabled"`
	RetryMax    int         `json:"retry_max"`
	Delay       string      `json:"delay"`   // fixed | linear | backoff
	WaitNs      int64       `json:"wait_ns"` // RetryWaitMin = RetryWaitMax
	RetryCtxErr bool        `json:"retry_ctx_err"`
	CtxKind     string      `json:"ctx_kind"` // cancel | deadline
	Ctx0        bool        `json:"ctx_done_on_entry"`
	Script      []attemptSc `json:"script"`
	// Preset names one of the library's Default*RetryPolicyConfiguration constructors (its waits are overridden by WaitNs);
	// Enabled / RetryMax / Delay are then filled in from it
	Preset string `json:"preset,omitempty"`
	// Flavor: "" = the script-controlled context; otherwise a real context of package context:
	// cancel | cancel-cause | parent-cause (parent WithCancelCause, child WithCancel) | timeout | timeout-cause | deadline-cause |
	// parent-timeout-cause (parent WithTimeoutCause, child WithCancel).  The timeout flavours end by themselves after TimeoutMs
	// (an attempt marked ctx_ends_in blocks until then).  Cause: the value handed to the ...Cause constructor / cancel function.
	Flavor    string `json:"flavor,omitempty"`
	Cause     string `json:"cause,omitempty"` // custom | wraps-deadline | wraps-canceled | common-timeout | common-cancelled | nil
	TimeoutMs int    `json:"timeout_ms,omitempty"`
}

type causeErr struct {
	msg  string
	wrap error
}

func (e *causeErr) Error() string { return e.msg }
func (e *causeErr) Unwrap() error { return e.wrap }

var causeNames = []string{"", "custom", "wraps-deadline", "wraps-canceled", "common-timeout", "common-cancelled", "nil"}

func causeCode(name string) int64 {
	for i, n := range causeNames {
		if n == name {
			return int64(i)
		}
	}
	return 0
}

func causeValue(name string) error {
	switch name {
	case "custom", "":
		return &causeErr{msg: "service is shutting down"}
	case "wraps-deadline":
		return &causeErr{msg: "budget exhausted", wrap: context.DeadlineExceeded}
	case "wraps-canceled":
		return &causeErr{msg: "caller went away", wrap: context.Canceled}
	case "common-timeout":
		return commonerrors.ErrTimeout
	case "common-cancelled":
		return commonerrors.ErrCancelled
	}
	return nil
}

func timeoutFlavor(f string) bool {
	return f == "timeout" || f == "timeout-cause" || f == "deadline-cause" || f == "parent-timeout-cause"
}

// ctxKindOf: what ctx.Err() is once the context has ended
func ctxKindOf(sc *retrySc) string {
	switch {
	case sc.Flavor == "":
		return sc.CtxKind
	case timeoutFlavor(sc.Flavor):
		return "deadline"
	}
	return "cancel"
}

type ctxHandle struct {
	ctx     context.Context
	end     func() // ends the context now (cancel flavours) or waits until it has ended by itself (timeout flavours)
	cleanup func()
}

func makeCtx(sc *retrySc) ctxHandle {
	bg := context.Background()
	d := time.Duration(sc.TimeoutMs) * time.Millisecond
	if sc.Ctx0 {
		d = 0
	}
	cause := causeValue(sc.Cause)
	waitDone := func(c context.Context) func() { return func() { <-c.Done() } }
	switch sc.Flavor {
	case "cancel":
		c, cancel := context.WithCancel(bg)
		return ctxHandle{c, cancel, cancel}
	case "cancel-cause":
		c, cancel := context.WithCancelCause(bg)
		return ctxHandle{c, func() { cancel(cause) }, func() { cancel(nil) }}
	case "parent-cause":
		p, pc := context.WithCancelCause(bg)
		c, cc := context.WithCancel(p)
		return ctxHandle{c, func() { pc(cause) }, func() { cc(); pc(nil) }}
	case "timeout":
		c, cancel := context.WithTimeout(bg, d)
		return ctxHandle{c, waitDone(c), cancel}
	case "timeout-cause":
		c, cancel := context.WithTimeoutCause(bg, d, cause)
		return ctxHandle{c, waitDone(c), cancel}
	case "deadline-cause":
		c, cancel := context.WithDeadlineCause(bg, time.Now().Add(d), cause)
		return ctxHandle{c, waitDone(c), cancel}
	case "parent-timeout-cause":
		p, pc := context.WithTimeoutCause(bg, d, cause)
		c, cc := context.WithCancel(p)
		return ctxHandle{c, waitDone(c), func() { cc(); pc() }}
	}
	sx := newSctx()
	return ctxHandle{sx, func() { sx.end(sc.CtxKind) }, func() {}}
}

var presets = []struct {
	name string
	mk   func() *retry.RetryPolicyConfiguration
}{
	{"no-retry", retry.DefaultNoRetryPolicyConfiguration}, {"basic", retry.DefaultBasicRetryPolicyConfiguration}, {"robust", retry.DefaultRobustRetryPolicyConfiguration},
	{"exponential", retry.DefaultExponentialBackoffRetryPolicyConfiguration}, {"linear", retry.DefaultLinearBackoffRetryPolicyConfiguration},
}

func presetPolicy(name string) *retry.RetryPolicyConfiguration {
	for _, p := range presets {
		if p.name == name {
			return p.mk()
		}
	}
	return nil
}

type clientSc struct {
	Kind       string `json:"kind"` // basic | linear | exponential
	RetryMax   int    `json:"retry_max"`
	Fails      int    `json:"fails"`
	Status     int    `json:"status"`
	MinMs      int64  `json:"min_ms"`
	MaxMs      int64  `json:"max_ms"`
	RetryAfter string `json:"retry_after"`
	RADisabled bool   `json:"retry_after_disabled"`
	// Ctor names the public constructor of utils/http the client is built with ("" = NewConfigurableRetryableClient);
	// Variant says where the policy of this scenario is put: cfg (client-level configuration) | request (request-level
	// RequestConfiguration.Retries, the client-level configuration holding ANOTHER policy that must not win) |
	// request-empty (client-level, with an empty request-level policy) | request-nil | default (constructor without
	// configuration: the scenario's policy is the library's default)
	Ctor    string `json:"ctor,omitempty"`
	Variant string `json:"variant,omitempty"`
	Custom  bool   `json:"custom_http_client,omitempty"`
	Auth    bool   `json:"authorisation_enforced,omitempty"`
	Inspect bool   `json:"inspect_only,omitempty"` // no request: the underlying retryablehttp client is inspected
}

type scenario struct {
	Kind   string    `json:"kind"`
	Wait   *waitSc   `json:"wait,omitempty"`
	Retry  *retrySc  `json:"retry,omitempty"`
	Client *clientSc `json:"client,omitempty"`
}

// ------------------------------------------------------------------------------------------------
// wait policies

const maxSeconds = int64(math.MaxInt64 / int64(time.Second))
const quantifierMax = int64(1000 * time.Hour) // "0 <= min <= max from 0 to hours"
const dateSlack = int64(20 * time.Millisecond)

var dateLayouts = []string{http.TimeFormat, time.RFC850, time.ANSIC, time.RFC1123, time.RFC1123Z, time.RFC3339, time.RFC3339Nano}

// headerMeaning is the harness's own reading of a Retry-After value: a decimal number of seconds, an HTTP date
// (or one of the extra layouts the library documents), or garbage.
func headerMeaning(s string) (kind string, secs int64, t time.Time) {
	if v, err := strconv.ParseInt(s, 10, 64); err == nil {
		return "seconds", v, time.Time{}
	}
	for _, l := range dateLayouts {
		if tt, err := time.Parse(l, s); err == nil {
			return "date", 0, tt
		}
	}
	return "garbage", 0, time.Time{}
}

func policyKind(sc *waitSc) string {
	if sc.Enabled && sc.BackOff {
		if sc.Linear {
			return "linear"
		}
		return "exponential"
	}
	return "constant"
}

type waitObs struct {
	W        int64
	Lo, Hi   int64 // bracket of time.Until(date) around the call (unclamped, saturating), when the header is a date
	IsDate   bool
	Header   string
	HintKind string // none | seconds | date
}

func subSat(a, b int64) int64 {
	r := new(big.Int).Sub(big.NewInt(a), big.NewInt(b))
	if !r.IsInt64() {
		if r.Sign() < 0 {
			return math.MinInt64
		}
		return math.MaxInt64
	}
	return r.Int64()
}

func execWait(sc *waitSc) (o waitObs) {
	cfg := &httpu.RetryPolicyConfiguration{Enabled: sc.Enabled, RetryMax: 4, RetryAfterDisabled: sc.RADisabled,
		RetryWaitMin: time.Duration(sc.Min), RetryWaitMax: time.Duration(sc.Max), BackOffEnabled: sc.BackOff, LinearBackOffEnabled: sc.Linear}
	pol := httpu.BackOffPolicyFactory(cfg)
	var resp *http.Response
	o.Header = sc.Header
	if sc.DateFormat != "" {
		o.Header = time.Now().Add(time.Duration(sc.DateOffsetMs) * time.Millisecond).UTC().Format(sc.DateFormat)
	}
	if sc.HasResp {
		resp = &http.Response{StatusCode: sc.Status, Header: http.Header{}}
		if sc.HasHeader {
			resp.Header.Set("Retry-After", o.Header)
		}
	}
	var t time.Time
	kind := "garbage"
	if sc.HasResp && sc.HasHeader {
		kind, _, t = headerMeaning(o.Header)
	}
	before := time.Now()
	o.W = int64(pol.Apply(time.Duration(sc.Min), time.Duration(sc.Max), sc.N, resp))
	after := time.Now()
	if kind == "date" {
		o.IsDate = true
		o.Hi = int64(t.Sub(before))
		o.Lo = int64(t.Sub(after))
	}
	o.HintKind = "none"
	if !sc.RADisabled && sc.HasResp && (sc.Status == 429 || sc.Status == 503) && sc.HasHeader && kind != "garbage" {
		o.HintKind = kind
	}
	return
}

func inQuantifier(sc *waitSc) bool {
	return 0 <= sc.Min && sc.Min <= sc.Max && sc.Max <= quantifierMax && sc.N >= 0 && int64(sc.N) <= 1<<31
}

// oracleWait: the property on one observation.
func oracleWait(r *h.Run, sc *waitSc, o waitObs) {
	rep := scenario{Kind: "wait", Wait: sc}
	pk := policyKind(sc)
	if !inQuantifier(sc) {
		return
	}
	if o.W < 0 {
		where := pk
		if o.HintKind != "none" {
			where = "retry-after"
		}
		r.Fail("negative-wait:"+where, fmt.Sprintf("Apply returned a negative wait %v (policy %s, min %v, max %v, attempt %d, status %d, Retry-After %q)",
			time.Duration(o.W), pk, time.Duration(sc.Min), time.Duration(sc.Max), sc.N, sc.Status, o.Header), rep)
		return
	}
	switch o.HintKind {
	case "seconds":
		_, v, _ := headerMeaning(o.Header)
		ok := false
		switch {
		case v < 0:
			ok = o.W == 0
		case v <= maxSeconds:
			ok = o.W == v*int64(time.Second)
		default:
			ok = o.W >= maxSeconds*int64(time.Second)
		}
		if !ok {
			r.Fail("retry-after-not-honoured:seconds", fmt.Sprintf("Retry-After %q on %d with the header enabled: wait is %v (policy %s)", o.Header, sc.Status, time.Duration(o.W), pk), rep)
		}
		return
	case "date":
		lo, hi := subSat(o.Lo, dateSlack), subSat(o.Hi, -dateSlack)
		if lo < 0 {
			lo = 0
		}
		if hi < 0 {
			hi = 0
		}
		if o.W < lo || o.W > hi {
			r.Fail("retry-after-not-honoured:date", fmt.Sprintf("Retry-After %q on %d with the header enabled: wait is %v, expected within [%v, %v] (policy %s)", o.Header, sc.Status, time.Duration(o.W), time.Duration(lo), time.Duration(hi), pk), rep)
		}
		return
	}
	// no server hint applies: the plain policy
	switch pk {
	case "constant":
		if o.W != sc.Min {
			r.Fail("wait-out-of-range:constant", fmt.Sprintf("constant policy without applicable server hint: wait %v, min %v (status %d, Retry-After %q, disabled=%v)", time.Duration(o.W), time.Duration(sc.Min), sc.Status, o.Header, sc.RADisabled), rep)
		}
	case "linear":
		n1 := big.NewInt(int64(sc.N) + 1)
		lo := new(big.Int).Mul(n1, big.NewInt(sc.Min))
		hi := new(big.Int).Mul(n1, big.NewInt(sc.Max))
		if hi.IsInt64() {
			w := big.NewInt(o.W)
			if w.Cmp(lo) < 0 || w.Cmp(hi) > 0 {
				r.Fail("wait-out-of-range:linear", fmt.Sprintf("linear policy: wait %v not within [(n+1)*min, (n+1)*max] = [%v, %v] (attempt %d)", time.Duration(o.W), lo, hi, sc.N), rep)
			}
		}
	case "exponential":
		if o.W < sc.Min || o.W > sc.Max {
			r.Fail("wait-out-of-range:exponential", fmt.Sprintf("exponential policy: wait %v not within [%v, %v] (attempt %d)", time.Duration(o.W), time.Duration(sc.Min), time.Duration(sc.Max), sc.N), rep)
		}
	}
}

func coqResp(sc *waitSc, header string) string {
	if !sc.HasResp {
		return "None"
	}
	return "(Some (mkResp " + h.Z(int64(sc.Status)) + " " + h.Opt(h.Str(header), sc.HasHeader) + "))"
}

func outOfRangeConv(f float64) int64 { return int64(f) } // implementation-defined when f is NaN, Inf or out of range

func coqWait(sc *waitSc, o waitObs) string {
	date := "None"
	if o.IsDate {
		lo, hi := subSat(o.Lo, dateSlack), subSat(o.Hi, -dateSlack)
		u := lo
		if o.HintKind == "date" {
			switch {
			case o.W > 0:
				u = o.W
			case lo <= 0:
				u = lo
			default:
				u = 0
			}
		}
		date = fmt.Sprintf("(Some (%s, %s, %s))", h.Z(lo), h.Z(hi), h.Z(u))
	}
	rfc := false
	if sc.HasResp && sc.HasHeader {
		_, err := time.Parse(time.RFC1123, o.Header)
		rfc = err == nil
	}
	var jitter int64
	if policyKind(sc) == "linear" && sc.Max > sc.Min && sc.N >= 0 {
		j := new(big.Int).Div(big.NewInt(o.W), big.NewInt(int64(sc.N)+1))
		j.Sub(j, big.NewInt(sc.Min))
		if j.Sign() >= 0 && j.Cmp(big.NewInt(sc.Max-sc.Min)) <= 0 {
			jitter = j.Int64()
		}
	}
	var impl int64
	f := math.Pow(2, float64(sc.N)) * float64(sc.Min)
	if math.IsNaN(f) || math.IsInf(f, 0) || f >= 9223372036854775808.0 || f < -9223372036854775808.0 {
		impl = outOfRangeConv(f)
	}
	return fmt.Sprintf("(CWait %s %s %s %s %s %s %s %s %s %s %s %s %s)", h.Bool(sc.Enabled), h.Bool(sc.BackOff), h.Bool(sc.Linear), h.Bool(sc.RADisabled),
		h.Z(sc.Min), h.Z(sc.Max), h.Z(int64(sc.N)), coqResp(sc, o.Header), date, h.Bool(rfc), h.Z(jitter), h.Z(impl), h.Z(o.W))
}

func runWait(r *h.Run, sc waitSc, emit bool) waitObs {
	o := execWait(&sc)
	r.Eval()
	oracleWait(r, &sc, o)
	if emit {
		r.Case(coqWait(&sc, o), scenario{Kind: "wait", Wait: &sc})
	}
	pk := policyKind(&sc)
	r.Count("wait:policy=" + pk)
	r.Count("wait:hint=" + o.HintKind)
	switch {
	case sc.N == 0:
		r.Count("wait:n=0")
	case sc.N <= 64:
		r.Count("wait:n=1..64")
	case sc.N < 1024:
		r.Count("wait:n=65..1023")
	default:
		r.Count("wait:n>=1024")
	}
	if sc.HasResp && sc.HasHeader && sc.N > 0 && (sc.Status == 429 || sc.Status == 500) {
		r.Sample(map[string]any{"scenario": sc, "observed_wait_ns": o.W, "hint": o.HintKind})
	}
	if sc.HasResp || sc.N > 0 {
		r.Distinct(fmt.Sprintf("w|%v|%v|%v|%v|%d|%d|%d|%v|%d|%v|%s|%s|%d", sc.Enabled, sc.BackOff, sc.Linear, sc.RADisabled, sc.Min, sc.Max, sc.N, sc.HasResp, sc.Status, sc.HasHeader, sc.Header, sc.DateFormat, sc.DateOffsetMs))
	}
	return o
}

// monotone: exponential policy without applicable hint, one (min, max), increasing attempt numbers
func runMonotone(r *h.Run, base waitSc, ns []int, emit bool) {
	sort.Ints(ns)
	prev := int64(-1)
	prevN := 0
	for _, n := range ns {
		sc := base
		sc.N = n
		o := runWait(r, sc, emit)
		if o.HintKind == "none" && inQuantifier(&sc) && policyKind(&sc) == "exponential" {
			if prev >= 0 && o.W < prev {
				r.Fail("wait-not-monotone:exponential", fmt.Sprintf("exponential policy (min %v, max %v): wait %v at attempt %d, then %v at attempt %d", time.Duration(sc.Min), time.Duration(sc.Max), time.Duration(prev), prevN, time.Duration(o.W), n),
					scenario{Kind: "wait", Wait: &sc})
			}
			prev, prevN = o.W, n
		}
	}
}

var configs = []struct{ enabled, backoff, linear bool }{
	{true, false, false}, {true, true, false}, {true, true, true}, {false, false, false}, {false, true, true}, {true, false, true}, {false, true, false},
}

var cornerNs = []int{0, 1, 2, 3, 4, 5, 7, 8, 15, 16, 29, 30, 31, 32, 33, 40, 52, 53, 54, 61, 62, 63, 64, 65, 100, 1000, 1021, 1022, 1023, 1024, 1025, 2000, 1 << 20, 1<<31 - 1, 1 << 31}

var cornerPairs = [][2]int64{{0, 0}, {0, 1}, {1, 1}, {1, 2}, {0, int64(time.Second)}, {int64(time.Millisecond), int64(time.Millisecond)}, {int64(time.Second), int64(30 * time.Second)},
	{int64(time.Second), int64(time.Second)}, {int64(800 * time.Millisecond), int64(1200 * time.Millisecond)}, {int64(time.Hour), int64(time.Hour)}, {int64(time.Hour), int64(24 * time.Hour)},
	{3, int64(100 * time.Hour)}, {int64(100 * time.Millisecond), int64(20 * time.Second)}, {1, quantifierMax}, {quantifierMax, quantifierMax}}

// beyond the property's quantifier (correspondence only): values that float64 cannot represent, extreme ranges
var beyondPairs = [][2]int64{{1<<53 + 1, 1 << 62}, {1, math.MaxInt64}, {math.MaxInt64, math.MaxInt64}, {1<<62 + 1, math.MaxInt64}, {0, math.MaxInt64}, {1 << 53, 1<<53 + 2}}

var cornerHeaders = []string{"0", "1", "120", "-1", "-0", "+5", "007", "-9223372036854775808", "9223372036", "9223372037", "9223372038", "18446744073", "18446744074",
	"4611686018427387904", "9223372036854775807", "9223372036854775808", "-9223372036854775809", "99999999999999999999", " 5", "5 ", "1_0", "0x10", "1e3", "1.5", "", "abc", "-", "+",
	"Fri, 31 Dec 1999 23:59:59 GMT", "Fri, 01 Jan 2100 00:00:00 GMT", "Wed, 01 Jan 2200 00:00:00 GMT", "Sat, 01 Jan 2400 00:00:00 GMT", "Friday, 01-Jan-00 00:00:00 GMT",
	"Fri Jan  1 00:00:00 2100", "Fri, 01 Jan 2100 00:00:00 UTC", "Fri, 01 Jan 2100 00:00:00 +0100", "2100-01-01T00:00:00Z", "2100-01-01T00:00:00.5+02:00", "1999-01-01T00:00:00Z",
	"Fri, 01 Jan 2100 00:00:00", "01 Jan 2100", "Fri, 32 Jan 2100 00:00:00 GMT"}

var relDates = []struct {
	layout string
	offMs  int64
}{{http.TimeFormat, 3600_000}, {http.TimeFormat, 10_000}, {http.TimeFormat, 0}, {http.TimeFormat, -5_000}, {time.RFC3339Nano, 1_500}, {time.RFC1123Z, 90_000}, {time.RFC3339, 86_400_000}}

var statuses = []int{429, 503, 200, 500, 502, 504, 428, 430, 404, 0}

func randDuration(r *h.Run) int64 {
	switch r.Rng.Intn(6) {
	case 0:
		return 0
	case 1:
		return int64(r.Rng.Intn(1000))
	case 2:
		return int64(r.Rng.Intn(1000)) * int64(time.Millisecond)
	case 3:
		return int64(r.Rng.Intn(3600)) * int64(time.Second)
	case 4:
		return r.Rng.Int63n(quantifierMax + 1)
	default:
		return int64(1) << uint(r.Rng.Intn(52))
	}
}

func randN(r *h.Run) int {
	switch r.Rng.Intn(6) {
	case 0:
		return r.Rng.Intn(4)
	case 1, 2:
		return r.Rng.Intn(66)
	case 3:
		return 1000 + r.Rng.Intn(50)
	case 4:
		return r.Rng.Intn(1 << 31)
	default:
		return cornerNs[r.Rng.Intn(len(cornerNs))]
	}
}

func randHeader(r *h.Run) string {
	switch r.Rng.Intn(8) {
	case 0:
		return strconv.FormatInt(int64(r.Rng.Intn(100000)), 10)
	case 1:
		return strconv.FormatInt(r.Rng.Int63(), 10)
	case 2:
		return strconv.FormatInt(-r.Rng.Int63(), 10)
	case 3:
		return strconv.FormatInt(maxSeconds-5+int64(r.Rng.Intn(11)), 10)
	case 4:
		return strconv.FormatUint(uint64(math.MaxInt64)-5+uint64(r.Rng.Intn(11)), 10)
	case 5:
		bs := make([]byte, 1+r.Rng.Intn(6))
		for i := range bs {
			bs[i] = "0123456789+-_ .eEx:TZGMT,"[r.Rng.Intn(25)]
		}
		return string(bs)
	case 6:
		return time.Unix(r.Rng.Int63n(8_000_000_000), 0).UTC().Format(dateLayouts[r.Rng.Intn(len(dateLayouts))])
	default:
		return cornerHeaders[r.Rng.Intn(len(cornerHeaders))]
	}
}

func waitSweeps(r *h.Run) {
	// per-section budgets of correspondence cases (every scenario is judged by the oracle, a selection reaches the model)
	secStart, secBudget := r.NCases(), 0
	section := func(quick, thorough int) { secStart, secBudget = r.NCases(), r.N(quick, thorough) }
	emit := func() bool { return r.NCases()-secStart < secBudget }
	section(240, 1500)
	// 1. deterministic corners without response: every configuration x corner pair x corner attempt numbers
	//    (all evaluated by the oracle; the model sees every configuration on a rotating selection)
	i := 0
	for ci, c := range configs {
		for pi, p := range cornerPairs {
			for _, ra := range []bool{false, true} {
				base := waitSc{Enabled: c.enabled, BackOff: c.backoff, Linear: c.linear, RADisabled: ra, Min: p[0], Max: p[1]}
				i++
				runMonotone(r, base, append([]int(nil), cornerNs...), ci < 3 && (pi == 6 || pi == 3+ci) && !ra && emit())
			}
		}
	}
	// emit a diagonal of (policy, pair, n) so that every corner n and pair reaches the model
	section(300, 1600)
	for ci := 0; ci < 3; ci++ {
		c := configs[ci]
		for pi, p := range cornerPairs {
			for ni, n := range cornerNs {
				if (pi+ni+ci)%6 != 0 {
					continue
				}
				runWait(r, waitSc{Enabled: c.enabled, BackOff: c.backoff, Linear: c.linear, RADisabled: (pi+ni)%3 == 0, Min: p[0], Max: p[1], N: n}, emit())
			}
		}
	}
	section(140, 400)
	// the linear policy at the edge of what int64 can hold: n = MaxInt64/wait is the first attempt number whose product overflows
	for _, wv := range []int64{int64(time.Hour), int64(time.Minute), int64(5 * time.Second), 4294967298, 4294967297, 4294967296, 1 << 33, quantifierMax, int64(7 * time.Hour)} {
		edge := math.MaxInt64 / wv
		for _, d := range []int64{-2, -1, 0, 1, 2} {
			n := edge + d
			if n < 0 || n > 1<<31 {
				continue
			}
			runWait(r, waitSc{Enabled: true, BackOff: true, Linear: true, RADisabled: d%2 == 0, Min: wv, Max: wv, N: int(n)}, emit())
			runWait(r, waitSc{Enabled: true, BackOff: true, Linear: true, RADisabled: d%2 == 0, Min: wv / 3, Max: wv, N: int(n)}, emit())
			runWait(r, waitSc{Enabled: true, BackOff: true, Linear: true, RADisabled: true, Min: 0, Max: wv, N: int(n)}, emit())
		}
	}
	// 2. headers: the three policies x enabled/disabled x statuses x corner headers
	section(620, 3000)
	for ci := 0; ci < 3; ci++ {
		c := configs[ci]
		for _, ra := range []bool{false, true} {
			for si, st := range statuses {
				for hi, hd := range cornerHeaders {
					n := []int{0, 1, 3, 70, 1024}[(hi+si)%5]
					p := cornerPairs[(hi+si+ci)%len(cornerPairs)]
					em := (st == 429 || st == 503 || hi%9 == si%9) && (!ra || hi%4 == 0)
					runWait(r, waitSc{Enabled: c.enabled, BackOff: c.backoff, Linear: c.linear, RADisabled: ra, Min: p[0], Max: p[1], N: n, HasResp: true, Status: st, HasHeader: true, Header: hd}, em && emit())
				}
				runWait(r, waitSc{Enabled: c.enabled, BackOff: c.backoff, Linear: c.linear, RADisabled: ra, Min: int64(time.Second), Max: int64(3 * time.Second), N: si, HasResp: true, Status: st}, emit())
			}
			for _, rd := range relDates {
				for _, st := range []int{429, 503, 500} {
					runWait(r, waitSc{Enabled: c.enabled, BackOff: c.backoff, Linear: c.linear, RADisabled: ra, Min: int64(time.Second), Max: int64(2 * time.Second), N: 1, HasResp: true, Status: st, HasHeader: true,
						DateFormat: rd.layout, DateOffsetMs: rd.offMs}, emit())
				}
			}
		}
	}
	// disabled policy / inconsistent flags still select a policy and still look at the header
	section(60, 60)
	for ci := 3; ci < len(configs); ci++ {
		c := configs[ci]
		for hi, hd := range []string{"7", "9223372037", "Fri, 01 Jan 2100 00:00:00 GMT", "abc"} {
			for _, ra := range []bool{false, true} {
				runWait(r, waitSc{Enabled: c.enabled, BackOff: c.backoff, Linear: c.linear, RADisabled: ra, Min: int64(time.Second), Max: int64(5 * time.Second), N: hi + 1, HasResp: true, Status: 429, HasHeader: true, Header: hd}, emit())
			}
		}
	}
	// 3. beyond the quantifier: correspondence only
	section(90, 200)
	for ci := 0; ci < 3; ci++ {
		c := configs[ci]
		for _, p := range beyondPairs {
			for ni, n := range []int{0, 1, 2, 9, 10, 62, 63, 1023, 1024} {
				runWait(r, waitSc{Enabled: c.enabled, BackOff: c.backoff, Linear: c.linear, RADisabled: n%2 == 0, Min: p[0], Max: p[1], N: n}, (ni+ci)%2 == 0 && emit())
			}
		}
	}
	// 4. seeded random
	section(260, 3000)
	n := r.N(6000, 200000)
	for k := 0; k < n; k++ {
		c := configs[r.Rng.Intn(3)]
		if r.Rng.Intn(10) == 0 {
			c = configs[r.Rng.Intn(len(configs))]
		}
		a, b := randDuration(r), randDuration(r)
		if a > b {
			a, b = b, a
		}
		if r.Rng.Intn(5) == 0 {
			b = a
		}
		sc := waitSc{Enabled: c.enabled, BackOff: c.backoff, Linear: c.linear, RADisabled: r.Rng.Intn(3) == 0, Min: a, Max: b, N: randN(r)}
		if r.Rng.Intn(2) == 0 {
			sc.HasResp = true
			sc.Status = statuses[r.Rng.Intn(len(statuses))]
			if r.Rng.Intn(3) > 0 {
				sc.Status = []int{429, 503}[r.Rng.Intn(2)]
			}
			if r.Rng.Intn(8) > 0 {
				sc.HasHeader = true
				sc.Header = randHeader(r)
			}
		}
		if !sc.HasResp && policyKind(&sc) == "exponential" && r.Rng.Intn(3) == 0 {
			ns := []int{randN(r), randN(r), randN(r), sc.N, sc.N + 1}
			runMonotone(r, sc, ns, k%6 == 0 && emit())
			continue
		}
		runWait(r, sc, k%6 == 0 && emit())
	}
}

// ------------------------------------------------------------------------------------------------
// the retry loop

// sctx is a context whose end the script controls (no timers: deterministic).
type sctx struct {
	mu   sync.Mutex
	done chan struct{}
	err  error
}

func newSctx() *sctx                        { return &sctx{done: make(chan struct{})} }
func (c *sctx) Deadline() (time.Time, bool) { return time.Time{}, false }
func (c *sctx) Done() <-chan struct{}       { return c.done }
func (c *sctx) Value(any) any               { return nil }
func (c *sctx) Err() error                  { c.mu.Lock(); defer c.mu.Unlock(); return c.err }
func (c *sctx) end(kind string) {
	c.mu.Lock()
	defer c.mu.Unlock()
	if c.err != nil {
		return
	}
	if kind == "deadline" {
		c.err = context.DeadlineExceeded
	} else {
		c.err = context.Canceled
	}
	close(c.done)
}

var errRetriable = errors.New("harness: retriable")

// errShapes: what an attempt's error looks like when it is NOT a context error.  Whatever the shape, the caller must
// receive this very error when it is the last one and the context is alive.
var errShapes = []string{"plain", "common-timeout", "common-cancelled", "common-notfound", "timeout-method", "path-deadline", "syscall-eagain",
	"path-etimedout", "net-op", "joined-deadline", "wrapped-timeout",
	// related to a retriable error by their TEXT only (errors.Is says no): starts with / equals / contains the text of an
	// error on RetryOnError's list; sentinel kinds whose text extends that of a listed one
	"text-prefix", "text-equal", "text-contains", "common-invalid-destination", "common-no-logger-source", "unknown-flag",
	// listed (retriable by errors.Is) although the text does not start with the listed error's: always scripted as retriable
	"wrapped-invalid"}

// the errors RetryOnError is told to retry on (besides the per-attempt marker's own sentinel)
var retriableList = []error{errRetriable, commonerrors.ErrInvalid, commonerrors.ErrNoLogger, commonerrors.ErrUnknown}

// alwaysRetriable: shapes that are on the list by errors.Is
func alwaysRetriable(kind string) bool { return kind == "wrapped-invalid" }

func shapeCode(kind string) int64 {
	for i, s := range errShapes {
		if s == kind {
			return int64(i)
		}
	}
	return 0
}

// shapes whose identity marker is a string inside a standard error type: they cannot be matched by RetryOnError's list
func markerless(kind string) bool {
	return kind == "path-deadline" || kind == "syscall-eagain" || kind == "path-etimedout"
}

// scriptErr is the per-attempt marker (identity = id)
type scriptErr struct {
	id        int
	kind      string
	retriable bool
	timeout   bool    // Timeout() and Temporary(), like a net.Error
	inner     []error // what the error wraps
	text      string  // Error(), when the shape prescribes it
}

func (e *scriptErr) Error() string {
	if e.text != "" {
		return e.text
	}
	return fmt.Sprintf("harness: attempt %d failed (%s)", e.id, e.kind)
}
func (e *scriptErr) Unwrap() []error { return e.inner }
func (e *scriptErr) Timeout() bool   { return e.timeout }
func (e *scriptErr) Temporary() bool { return e.timeout }
func (e *scriptErr) Is(t error) bool { return t == errRetriable && e.retriable }

func markerString(id int, retriable bool) string {
	return fmt.Sprintf("harness-attempt-%d-%v", id, retriable)
}

func mkErr(id int, kind string, retriable bool) error {
	se := &scriptErr{id: id, kind: kind, retriable: retriable}
	switch kind {
	case "canceled":
		se.inner = []error{context.Canceled}
	case "deadline":
		se.inner = []error{context.DeadlineExceeded}
	case "common-timeout": // the operation itself reports a timeout of its own while the context is alive
		se.inner = []error{commonerrors.ErrTimeout}
	case "common-cancelled":
		se.inner = []error{commonerrors.ErrCancelled}
	case "common-notfound":
		se.inner = []error{commonerrors.ErrNotFound}
	case "timeout-method":
		se.timeout = true
	case "text-prefix":
		se.text = fmt.Sprintf("%s, or so it reads (attempt %d)", errRetriable.Error(), id)
	case "text-equal":
		se.text = errRetriable.Error()
	case "text-contains":
		se.text = fmt.Sprintf("attempt %d: %s", id, errRetriable.Error())
	case "common-invalid-destination": // ErrInvalid is listed, ErrInvalidDestination is not
		se.inner, se.text = []error{commonerrors.ErrInvalidDestination}, fmt.Sprintf("%s (attempt %d)", commonerrors.ErrInvalidDestination.Error(), id)
	case "common-no-logger-source": // ErrNoLogger is listed
		se.inner, se.text = []error{commonerrors.ErrNoLoggerSource}, fmt.Sprintf("%s (attempt %d)", commonerrors.ErrNoLoggerSource.Error(), id)
	case "unknown-flag": // ErrUnknown is listed
		se.text = fmt.Sprintf("unknown flag --attempt-%d", id)
	case "wrapped-invalid":
		se.inner, se.text = []error{commonerrors.ErrInvalid}, fmt.Sprintf("attempt %d: bad value: %s", id, commonerrors.ErrInvalid.Error())
	case "path-deadline": // an expired i/o deadline
		return &os.PathError{Op: "read", Path: markerString(id, retriable), Err: os.ErrDeadlineExceeded}
	case "syscall-eagain":
		return &os.SyscallError{Syscall: markerString(id, retriable), Err: syscall.EAGAIN}
	case "path-etimedout":
		return &os.PathError{Op: "connect", Path: markerString(id, retriable), Err: syscall.ETIMEDOUT}
	case "net-op":
		se.timeout = true
		return &net.OpError{Op: "dial", Net: "tcp", Err: se}
	case "joined-deadline":
		return errors.Join(se, os.ErrDeadlineExceeded)
	case "wrapped-timeout":
		se.timeout = true
		return fmt.Errorf("operation failed: %w", se)
	}
	return se
}

// markerOf finds the attempt an error comes from
func markerOf(err error) (id int, retriable bool, ok bool) {
	var se *scriptErr
	if errors.As(err, &se) {
		return se.id, se.retriable, true
	}
	var m string
	var pe *os.PathError
	var sy *os.SyscallError
	switch {
	case errors.As(err, &pe):
		m = pe.Path
	case errors.As(err, &sy):
		m = sy.Syscall
	default:
		return 0, false, false
	}
	if n, _ := fmt.Sscanf(m, "harness-attempt-%d-%t", &id, &retriable); n == 2 {
		return id, retriable, true
	}
	return 0, false, false
}

type call struct {
	K         int  `json:"k"`
	CtxDone   bool `json:"ctx_done_at_start"`
	DoneAtEnd bool `json:"ctx_done_at_end"`
}

type retryObs struct {
	Calls   []call `json:"calls"`
	Res     string `json:"result"` // nil | plain | rawcanceled | rawdeadline | cancelled | timeout | other
	ResID   int    `json:"result_id"`
	Hung    bool   `json:"hung"`
	CtxDone bool   `json:"ctx_done_at_return"`
	// the retry condition was asked about an error that no attempt returned: the wrapper's context error, i.e. the
	// select between delay timer and ctx.Done() took the timer branch after the context had ended (RetryIf only)
	CondOnForeignErr int `json:"cond_on_foreign_err"`
}

func attemptAt(sc *retrySc, k int) attemptSc {
	if k < len(sc.Script) {
		return sc.Script[k]
	}
	return attemptSc{Out: "succ"}
}

func execRetry(sc *retrySc) (o retryObs) {
	hd := makeCtx(sc)
	defer hd.cleanup()
	ctx := hd.ctx
	if sc.Ctx0 {
		hd.end()
	}
	var mu sync.Mutex
	var wg sync.WaitGroup
	fn := func() error {
		mu.Lock()
		k := len(o.Calls)
		o.Calls = append(o.Calls, call{K: k, CtxDone: ctx.Err() != nil})
		mu.Unlock()
		a := attemptAt(sc, k)
		if a.CtxEndsIn {
			hd.end()
		}
		if a.CtxEndsInWait && !timeoutFlavor(sc.Flavor) {
			wg.Add(1)
			go func() {
				defer wg.Done()
				time.Sleep(2 * time.Millisecond)
				hd.end()
			}()
		}
		mu.Lock()
		o.Calls[k].DoneAtEnd = ctx.Err() != nil
		mu.Unlock()
		if a.Out == "succ" {
			return nil
		}
		return mkErr(k, a.ErrKind, a.Out == "retry")
	}
	pol := &retry.RetryPolicyConfiguration{Enabled: sc.Enabled, RetryMax: sc.RetryMax, RetryWaitMin: time.Duration(sc.WaitNs), RetryWaitMax: time.Duration(sc.WaitNs),
		BackOffEnabled: sc.Delay != "fixed", LinearBackOffEnabled: sc.Delay == "linear"}
	if pp := presetPolicy(sc.Preset); pp != nil {
		pol = pp
		pol.RetryWaitMin, pol.RetryWaitMax = time.Duration(sc.WaitNs), time.Duration(sc.WaitNs)
	}
	resCh := make(chan error, 1)
	go func() {
		switch sc.API {
		case "onerror":
			resCh <- retry.RetryOnError(ctx, logr.Discard(), pol, fn, "harness", retriableList...)
			return
		case "http-onerror": // the alias in utils/http
			resCh <- httpu.RetryOnError(ctx, logr.Discard(), pol, fn, "harness", retriableList...)
			return
		}
		resCh <- retry.RetryIf(ctx, logr.Discard(), pol, fn, "harness", func(err error) bool {
			if _, retriable, ok := markerOf(err); ok {
				return retriable
			}
			mu.Lock()
			o.CondOnForeignErr++
			mu.Unlock()
			return sc.RetryCtxErr
		})
	}()
	var err error
	select {
	case err = <-resCh:
	case <-time.After(20 * time.Second):
		o.Hung = true
		if !timeoutFlavor(sc.Flavor) {
			hd.end()
		}
		mu.Lock()
		o.Calls = append([]call(nil), o.Calls...)
		mu.Unlock()
		return
	}
	o.CtxDone = ctx.Err() != nil
	wg.Wait()
	mid, _, marked := markerOf(err)
	switch {
	case err == nil:
		o.Res = "nil"
	case marked: // the very error of attempt mid
		o.ResID = mid
		switch attemptAt(sc, mid).ErrKind {
		case "canceled":
			o.Res = "rawcanceled"
		case "deadline":
			o.Res = "rawdeadline"
		default:
			o.Res = "plain"
		}
	case commonerrors.Any(err, commonerrors.ErrCancelled):
		o.Res = "cancelled"
	case commonerrors.Any(err, commonerrors.ErrTimeout):
		o.Res = "timeout"
	case errors.Is(err, context.Canceled):
		o.Res = "rawcanceled"
		o.ResID = -1
	case errors.Is(err, context.DeadlineExceeded):
		o.Res = "rawdeadline"
		o.ResID = -1
	default:
		o.Res = "other"
	}
	return
}

func oracleRetry(r *h.Run, sc *retrySc, o retryObs) {
	rep := scenario{Kind: "retry", Retry: sc}
	tag := ":" + sc.API
	if o.Hung {
		r.Fail("retry-does-not-return"+tag, "the retried operation did not return within 20s although its script ends", rep)
		return
	}
	limit := sc.RetryMax
	if !sc.Enabled {
		limit = 1
	}
	if len(o.Calls) > limit {
		r.Fail("too-many-attempts"+tag, fmt.Sprintf("%d attempts made, %d configured (enabled=%v)", len(o.Calls), sc.RetryMax, sc.Enabled), rep)
	}
	if len(o.Calls) == 0 && !sc.Ctx0 && !(timeoutFlavor(sc.Flavor) && o.CtxDone) {
		r.Fail("no-attempt"+tag, "the operation was never attempted although the context was live", rep)
	}
	success := false
	ctxEnded := sc.Ctx0 || o.CtxDone
	for i, c := range o.Calls {
		a := attemptAt(sc, c.K)
		if i > 0 {
			p := attemptAt(sc, o.Calls[i-1].K)
			if p.Out == "succ" {
				r.Fail("attempt-after-success"+tag, fmt.Sprintf("attempt %d made after attempt %d succeeded", i+1, i), rep)
			}
			if p.Out == "fatal" {
				r.Fail("attempt-after-non-retriable"+tag, fmt.Sprintf("attempt %d made after attempt %d failed with a non-retriable error (shape %q: not one of the listed retriable errors by errors.Is)", i+1, i, p.ErrKind), rep)
			}
			if c.CtxDone {
				r.Fail("attempt-after-context-done"+tag, fmt.Sprintf("attempt %d was made although the context was already done", i+1), rep)
			}
		}
		if a.Out == "succ" {
			success = true
		}
		if a.CtxEndsIn || a.CtxEndsInWait || c.DoneAtEnd {
			ctxEnded = true
		}
	}
	if success != (o.Res == "nil") {
		if success {
			r.Fail("error-despite-success"+tag, "an attempt succeeded but the caller received "+o.Res, rep)
		} else {
			r.Fail("nil-without-success"+tag, "no attempt succeeded but the caller received nil", rep)
		}
		return
	}
	if success {
		return
	}
	// acceptable errors: the last error (context errors as cancelled/timeout; a disabled policy hands fn's error through),
	// or the kind of the context's end once it has ended
	okRes := false
	if len(o.Calls) > 0 {
		last := attemptAt(sc, o.Calls[len(o.Calls)-1].K)
		lastK := o.Calls[len(o.Calls)-1].K
		switch last.ErrKind {
		case "canceled":
			okRes = o.Res == "cancelled" || (!sc.Enabled && o.Res == "rawcanceled" && o.ResID == lastK)
		case "deadline":
			okRes = o.Res == "timeout" || (!sc.Enabled && o.Res == "rawdeadline" && o.ResID == lastK)
		default: // not a context error, whatever its shape: this very error
			okRes = o.Res == "plain" && o.ResID == lastK
		}
	}
	if !okRes && ctxEnded {
		okRes = (sc.CtxKind == "cancel" && o.Res == "cancelled") || (sc.CtxKind == "deadline" && o.Res == "timeout")
	}
	if !okRes {
		what := fmt.Sprintf("the caller received %s (id %d), which is neither the last attempt's error nor the context's end", o.Res, o.ResID)
		if n := len(o.Calls); n > 0 && !ctxEnded {
			what += fmt.Sprintf(" — the context is alive and the last attempt failed with an error of shape %q, which is not a context error", attemptAt(sc, o.Calls[n-1].K).ErrKind)
		}
		if ctxEnded && sc.Flavor != "" {
			what += fmt.Sprintf(" — context flavour %s with cause %q ended as %s: the result must be of that kind whatever the cause", sc.Flavor, sc.Cause, sc.CtxKind)
		}
		r.Fail("wrong-error"+tag, what, rep)
	}
}

func coqErr(kind string, id int) string {
	switch kind {
	case "canceled":
		return "(ECtx CtxCancel)"
	case "deadline":
		return "(ECtx CtxDeadline)"
	}
	return "(EPlain " + h.Z(int64(id)) + " " + h.Z(shapeCode(kind)) + ")"
}

func coqRetry(sc *retrySc, o retryObs) string {
	ck := "CtxCancel"
	if sc.CtxKind == "deadline" {
		ck = "CtxDeadline"
	}
	cfg := fmt.Sprintf("(mkCfg %s %s %s %s %s)", h.Bool(sc.Enabled), h.Nat(sc.RetryMax), h.Bool(sc.RetryCtxErr), ck, h.Z(causeCode(sc.Cause)))
	script := append([]attemptSc(nil), sc.Script...)
	if sc.Flavor != "" {
		// real contexts: WHEN the context ended is an input from the environment; it is taken from what was observed
		// (done at the start / at the end of each invocation, at return), so that a late timer cannot desynchronise the script
		for len(script) < len(o.Calls) {
			script = append(script, attemptSc{Out: "succ"})
		}
		endedInside := false
		for i := range script {
			script[i].CtxEndsIn, script[i].CtxEndsInWait = false, false
			if i < len(o.Calls) && !o.Calls[i].CtxDone && o.Calls[i].DoneAtEnd {
				script[i].CtxEndsIn, endedInside = true, true
			}
		}
		if n := len(o.Calls); n > 0 && o.CtxDone && !endedInside && !sc.Ctx0 {
			script[n-1].CtxEndsInWait = true
		}
	}
	as := make([]string, len(script))
	for i, a := range script {
		out := "OSucc"
		switch a.Out {
		case "retry":
			out = "(ORetriable " + coqErr(a.ErrKind, i) + ")"
		case "fatal":
			out = "(OFatal " + coqErr(a.ErrKind, i) + ")"
		}
		as[i] = fmt.Sprintf("(mkAtt %s %s %s)", out, h.Bool(a.CtxEndsIn), h.Bool(a.CtxEndsInWait))
	}
	cs := make([]string, len(o.Calls))
	for i, c := range o.Calls {
		cs[i] = h.Bool(c.CtxDone)
	}
	res := "(RErr (EPlain (-1) 0))"
	switch o.Res {
	case "nil":
		res = "RNil"
	case "plain":
		res = "(RErr " + coqErr(attemptAt(sc, o.ResID).ErrKind, o.ResID) + ")"
	case "rawcanceled":
		res = "(RErr (ECtx CtxCancel))"
	case "rawdeadline":
		res = "(RErr (ECtx CtxDeadline))"
	case "cancelled":
		res = "RCancelled"
	case "timeout":
		res = "RTimeout"
	}
	ctx0 := sc.Ctx0 || (timeoutFlavor(sc.Flavor) && len(o.Calls) == 0 && o.CtxDone && sc.Enabled) // a timer that fired before the first attempt
	return fmt.Sprintf("(CRetry %s %s %s %s %s)", cfg, h.Bool(ctx0), h.List(as), h.List(cs), res)
}

func genRetry(r *h.Run) retrySc {
	sc := retrySc{API: []string{"if", "onerror", "if", "http-onerror"}[r.Rng.Intn(4)], Enabled: r.Rng.Intn(8) > 0, RetryMax: 1 + r.Rng.Intn(8), Delay: "fixed",
		CtxKind: []string{"cancel", "deadline"}[r.Rng.Intn(2)], Ctx0: r.Rng.Intn(20) == 0}
	switch r.Rng.Intn(10) {
	case 0:
		sc.Delay = "linear"
	case 1, 2:
		sc.Delay = "backoff"
	}
	if sc.API == "if" {
		sc.RetryCtxErr = r.Rng.Intn(2) == 0
	}
	if r.Rng.Intn(2) == 0 {
		sc.Flavor = []string{"cancel", "cancel-cause", "parent-cause"}[r.Rng.Intn(3)]
		if sc.Flavor != "cancel" {
			sc.Cause = causeNames[1+r.Rng.Intn(len(causeNames)-1)]
		}
	}
	style := r.Rng.Intn(5)
	ln := r.Rng.Intn(11)
	ctxAt := -1
	if r.Rng.Intn(3) == 0 {
		ctxAt = r.Rng.Intn(sc.RetryMax + 1)
	}
	for k := 0; k < ln; k++ {
		a := attemptSc{Out: "retry", ErrKind: "plain"}
		x := r.Rng.Intn(100)
		switch style {
		case 0: // all retriable
		case 1: // mostly retriable, then a success
			if x < 15 {
				a.Out = "succ"
			}
		case 2:
			if x < 15 {
				a.Out = "fatal"
			}
		default:
			switch {
			case x < 12:
				a.Out = "succ"
			case x < 24:
				a.Out = "fatal"
			}
		}
		if a.Out != "succ" {
			switch x := r.Rng.Intn(10); {
			case x == 0:
				a.ErrKind = "canceled"
			case x == 1:
				a.ErrKind = "deadline"
			case x < 6:
				a.ErrKind = errShapes[r.Rng.Intn(len(errShapes))]
				if sc.API != "if" && markerless(a.ErrKind) && a.Out == "retry" {
					a.ErrKind = "net-op"
				}
			}
		} else {
			a.ErrKind = ""
		}
		if k == ctxAt {
			a.CtxEndsIn = true
		}
		sc.Script = append(sc.Script, a)
	}
	return sc
}

// normaliseScript makes the script say what RetryOnError's list says by errors.Is: an error that IS a listed one is
// retriable; an error whose marker lives in a string of a standard error type cannot be matched by the list.
func normaliseScript(sc *retrySc) {
	if sc.API == "if" {
		return
	}
	for i := range sc.Script {
		a := &sc.Script[i]
		if a.Out == "fatal" && alwaysRetriable(a.ErrKind) {
			a.Out = "retry"
		}
		if a.Out == "retry" && markerless(a.ErrKind) {
			a.ErrKind = "net-op"
		}
	}
}

func retryKey(sc *retrySc) string {
	return fmt.Sprintf("r|%s|%v|%d|%s|%d|%v|%s|%v|%v|%s|%s|%s", sc.API, sc.Enabled, sc.RetryMax, sc.Delay, sc.WaitNs, sc.RetryCtxErr, sc.CtxKind, sc.Ctx0, sc.Script, sc.Preset, sc.Flavor, sc.Cause)
}

func runRetries(r *h.Run, scs []retrySc, emit bool) {
	obs := make([]retryObs, len(scs))
	var wg sync.WaitGroup
	sem := make(chan struct{}, 8)
	for i := range scs {
		wg.Add(1)
		sem <- struct{}{}
		go func(i int) {
			defer wg.Done()
			scs[i].CtxKind = ctxKindOf(&scs[i])
			normaliseScript(&scs[i])
			obs[i] = execRetry(&scs[i])
			<-sem
		}(i)
	}
	wg.Wait()
	for i := range scs {
		sc := scs[i]
		r.Eval()
		oracleRetry(r, &sc, obs[i])
		if emit {
			r.Case(coqRetry(&sc, obs[i]), scenario{Kind: "retry", Retry: &sc})
		}
		r.Count(fmt.Sprintf("retry:attempts-made=%d", len(obs[i].Calls)))
		r.Count("retry:result=" + obs[i].Res)
		r.Count("retry:api=" + sc.API)
		if sc.Flavor != "" {
			r.Count("retry:context=" + sc.Flavor)
			if sc.Cause != "" {
				r.Count("retry:cause=" + sc.Cause)
			}
		}
		if sc.API == "if" && sc.Enabled && sc.WaitNs == 0 {
			// the context ended during an attempt that failed retriably with budget left, no delay: both channels of
			// retry-go's select are ready — which branch did the runtime take?
			for j, c := range obs[i].Calls {
				if !c.CtxDone && c.DoneAtEnd && attemptAt(&sc, c.K).Out == "retry" && j+1 < sc.RetryMax {
					if obs[i].CondOnForeignErr > 0 {
						r.Count("retry:select-both-ready=timer-branch")
					} else {
						r.Count("retry:select-both-ready=done-branch")
					}
				}
			}
		}
		if !sc.Enabled {
			r.Count("retry:disabled")
		}
		if len(sc.Script) > 1 && sc.Enabled && sc.RetryMax > 1 {
			r.Distinct(retryKey(&sc))
		}
		if i < 4 {
			r.Sample(map[string]any{"scenario": sc, "observed": obs[i]})
		}
	}
}

func retrySweeps(r *h.Run) {
	var scs []retrySc
	rt := func(kind string) attemptSc { return attemptSc{Out: "retry", ErrKind: kind} }
	// D4: the context ends during attempt 1, zero delay: timer and Done() are both ready — repeated, because the
	// unfixed code picks at random
	for i := 0; i < 24; i++ {
		a := rt("plain")
		a.CtxEndsIn = true
		scs = append(scs, retrySc{API: []string{"if", "onerror"}[i%2], Enabled: true, RetryMax: 2 + i%7, Delay: []string{"fixed", "backoff"}[i/2%2], RetryCtxErr: i%4 < 2,
			CtxKind: []string{"cancel", "deadline"}[i/4%2], Script: []attemptSc{a, rt("plain"), rt("plain"), rt("plain"), rt("plain"), rt("plain"), rt("plain"), rt("plain")}})
	}
	// the context ends during the wait (long delay: the timer cannot be ready), also after some retries with a short delay
	for i := 0; i < 4; i++ {
		a := rt("plain")
		a.CtxEndsInWait = true
		scs = append(scs, retrySc{API: []string{"if", "onerror"}[i%2], Enabled: true, RetryMax: 3, Delay: []string{"fixed", "backoff", "linear", "fixed"}[i], WaitNs: int64(time.Hour), RetryCtxErr: i < 2,
			CtxKind: []string{"cancel", "deadline"}[i%2], Script: []attemptSc{a, rt("plain"), rt("plain")}})
	}
	{
		a := rt("plain")
		a.CtxEndsInWait = true
		scs = append(scs, retrySc{API: "if", Enabled: true, RetryMax: 4, Delay: "fixed", WaitNs: int64(1500 * time.Millisecond), CtxKind: "cancel", Script: []attemptSc{rt("plain"), a, rt("plain"), rt("plain")}})
		// last allowed attempt: no wait follows, the last error is returned
		scs = append(scs, retrySc{API: "if", Enabled: true, RetryMax: 1, Delay: "fixed", WaitNs: int64(time.Hour), CtxKind: "cancel", Script: []attemptSc{a}})
	}
	// boundaries of the attempt budget, every position of the first success / fatal error, for every RetryMax
	for m := 1; m <= 8; m++ {
		for pos := 0; pos <= m; pos++ {
			for _, end := range []string{"succ", "fatal", "none"} {
				var s []attemptSc
				for k := 0; k < pos; k++ {
					s = append(s, rt("plain"))
				}
				switch end {
				case "succ":
					s = append(s, attemptSc{Out: "succ"})
				case "fatal":
					s = append(s, attemptSc{Out: "fatal", ErrKind: "plain"})
				default:
					for k := 0; k < 4; k++ {
						s = append(s, rt("plain"))
					}
				}
				s = append(s, rt("plain"), attemptSc{Out: "succ"})
				scs = append(scs, retrySc{API: []string{"if", "onerror"}[(m+pos)%2], Enabled: true, RetryMax: m, Delay: "fixed", CtxKind: "cancel", Script: s})
			}
		}
	}
	// disabled policy: one attempt whatever happens, error handed through
	for _, a := range []attemptSc{{Out: "succ"}, rt("plain"), {Out: "fatal", ErrKind: "plain"}, rt("canceled"), rt("deadline")} {
		for _, c0 := range []bool{false, true} {
			scs = append(scs, retrySc{API: "if", Enabled: false, RetryMax: 5, Delay: "fixed", CtxKind: "cancel", Ctx0: c0, Script: []attemptSc{a, {Out: "succ"}}})
		}
	}
	// real contexts with and without custom causes: the kind of the result is that of ctx.Err(), whatever context.Cause says
	rtEnds := func() attemptSc { a := rt("plain"); a.CtxEndsIn = true; return a }
	for fi, fl := range []string{"cancel", "cancel-cause", "parent-cause", "timeout", "timeout-cause", "deadline-cause", "parent-timeout-cause"} {
		causes := []string{"custom", "wraps-deadline", "wraps-canceled", "common-timeout", "common-cancelled", "nil"}
		if fl == "cancel" || fl == "timeout" {
			causes = []string{""}
		}
		for ci, ca := range causes {
			tmo := 0
			if timeoutFlavor(fl) {
				tmo = 25
			}
			// ended during attempt k (k = 0, 1, 2), no delay: both select channels ready — repeated so that both branches occur
			reps := 10
			if timeoutFlavor(fl) {
				reps = 6
			}
			for rep := 0; rep < reps; rep++ {
				k := rep % 3
				var s []attemptSc
				for j := 0; j < k; j++ {
					s = append(s, rt("plain"))
				}
				s = append(s, rtEnds(), rt("plain"), rt("plain"), rt("plain"))
				api := "if"
				if rep%5 == 4 {
					api = "onerror"
				}
				scs = append(scs, retrySc{API: api, Enabled: true, RetryMax: 4 + rep%4, Delay: []string{"fixed", "backoff"}[rep/3%2], RetryCtxErr: api == "if" && rep%2 == 0,
					Flavor: fl, Cause: ca, TimeoutMs: tmo, Script: s})
			}
			// ended during attempt k with a non-zero delay (the timer cannot be ready), during the wait, before the first attempt,
			// during the last allowed attempt, during an attempt that fails for good / succeeds
			endsWait := rt("plain")
			endsWait.CtxEndsInWait = true
			fatalEnds := attemptSc{Out: "fatal", ErrKind: "plain", CtxEndsIn: true}
			succEnds := attemptSc{Out: "succ", CtxEndsIn: true}
			api := []string{"if", "onerror"}[(fi+ci)%2]
			scs = append(scs,
				retrySc{API: api, Enabled: true, RetryMax: 3, Delay: "fixed", WaitNs: int64(time.Hour), Flavor: fl, Cause: ca, TimeoutMs: tmo, Script: []attemptSc{rtEnds(), rt("plain")}},
				retrySc{API: api, Enabled: true, RetryMax: 3, Delay: "fixed", WaitNs: int64(time.Millisecond), Flavor: fl, Cause: ca, TimeoutMs: tmo, Script: []attemptSc{rt("plain"), rtEnds(), rt("plain")}},
				retrySc{API: api, Enabled: true, RetryMax: 3, Delay: "backoff", WaitNs: int64(time.Hour), RetryCtxErr: api == "if", Flavor: fl, Cause: ca, TimeoutMs: tmo, Script: []attemptSc{endsWait, rt("plain")}},
				retrySc{API: api, Enabled: true, RetryMax: 3, Delay: "fixed", Ctx0: true, Flavor: fl, Cause: ca, TimeoutMs: tmo, Script: []attemptSc{rt("plain")}},
				retrySc{API: api, Enabled: true, RetryMax: 2, Delay: "fixed", Flavor: fl, Cause: ca, TimeoutMs: tmo, Script: []attemptSc{rt("plain"), rtEnds()}},
				retrySc{API: api, Enabled: true, RetryMax: 3, Delay: "fixed", Flavor: fl, Cause: ca, TimeoutMs: tmo, Script: []attemptSc{rt("plain"), fatalEnds, rt("plain")}},
				retrySc{API: api, Enabled: true, RetryMax: 3, Delay: "fixed", Flavor: fl, Cause: ca, TimeoutMs: tmo, Script: []attemptSc{rt("plain"), succEnds}},
				retrySc{API: api, Enabled: false, RetryMax: 3, Delay: "fixed", Flavor: fl, Cause: ca, TimeoutMs: tmo, Script: []attemptSc{rtEnds()}},
			)
		}
	}
	// the shapes of the operation's own errors, context alive: last error after the budget is exhausted, non-retriable
	// error, disabled policy — the caller must receive that very error (only the context's end becomes cancelled / timeout)
	for si, shp := range errShapes {
		for ai, api := range []string{"if", "onerror", "http-onerror"} {
			r1 := rt(shp)
			if api != "if" && markerless(shp) {
				r1 = rt("net-op")
			}
			ft := attemptSc{Out: "fatal", ErrKind: shp}
			scs = append(scs,
				retrySc{API: api, Enabled: true, RetryMax: 1 + (si+ai)%3, Delay: "fixed", CtxKind: "cancel", Script: []attemptSc{r1, r1, r1, r1}},
				retrySc{API: api, Enabled: true, RetryMax: 4, Delay: "fixed", CtxKind: "deadline", Script: []attemptSc{rt("plain"), ft, rt("plain")}},
				retrySc{API: api, Enabled: true, RetryMax: 8, Delay: "backoff", CtxKind: "cancel", Script: []attemptSc{ft, rt("plain"), rt("plain")}},
				retrySc{API: api, Enabled: true, RetryMax: 3, Delay: "backoff", Flavor: "timeout-cause", Cause: "custom", TimeoutMs: 60000, Script: []attemptSc{r1, ft}},
				retrySc{API: api, Enabled: false, RetryMax: 3, Delay: "fixed", CtxKind: "cancel", Script: []attemptSc{ft}},
			)
		}
	}
	// the library's preset policies (waits overridden), an operation that never succeeds
	for i, ps := range presets {
		pp := ps.mk()
		d := "fixed"
		if pp.BackOffEnabled {
			d = "backoff"
			if pp.LinearBackOffEnabled {
				d = "linear"
			}
		}
		var s []attemptSc
		for k := 0; k < 12; k++ {
			s = append(s, rt("plain"))
		}
		scs = append(scs, retrySc{API: []string{"if", "onerror"}[i%2], Preset: ps.name, Enabled: pp.Enabled, RetryMax: pp.RetryMax, Delay: d, CtxKind: "cancel", Script: s})
	}
	// fn's own context-like errors, context done on entry
	scs = append(scs, retrySc{API: "if", Enabled: true, RetryMax: 3, Delay: "fixed", CtxKind: "cancel", Script: []attemptSc{rt("plain"), rt("canceled"), rt("deadline")}})
	scs = append(scs, retrySc{API: "onerror", Enabled: true, RetryMax: 3, Delay: "fixed", CtxKind: "cancel", Script: []attemptSc{rt("plain"), {Out: "fatal", ErrKind: "deadline"}}})
	scs = append(scs, retrySc{API: "if", Enabled: true, RetryMax: 3, Delay: "fixed", CtxKind: "deadline", Ctx0: true, Script: []attemptSc{rt("plain")}})
	scs = append(scs, retrySc{API: "onerror", Enabled: true, RetryMax: 3, Delay: "linear", CtxKind: "cancel", Ctx0: true, Script: []attemptSc{{Out: "succ"}}})
	n := r.N(260, 6000)
	for k := 0; k < n; k++ {
		scs = append(scs, genRetry(r))
	}
	runRetries(r, scs, true)
}

// ------------------------------------------------------------------------------------------------
// the retryable HTTP client

func (sc *clientSc) policy() httpu.RetryPolicyConfiguration {
	return httpu.RetryPolicyConfiguration{Enabled: true, RetryMax: sc.RetryMax, RetryAfterDisabled: sc.RADisabled, RetryWaitMin: time.Duration(sc.MinMs) * time.Millisecond,
		RetryWaitMax: time.Duration(sc.MaxMs) * time.Millisecond, BackOffEnabled: sc.Kind != "basic", LinearBackOffEnabled: sc.Kind == "linear"}
}

// otherPolicy is a policy that differs from the scenario's in every respect the oracle can see
func (sc *clientSc) otherPolicy() httpu.RetryPolicyConfiguration {
	return httpu.RetryPolicyConfiguration{Enabled: true, RetryMax: sc.RetryMax + 2, RetryAfterDisabled: !sc.RADisabled, RetryWaitMin: time.Duration(sc.MinMs+7) * time.Millisecond,
		RetryWaitMax: time.Duration(sc.MaxMs+11) * time.Millisecond, BackOffEnabled: sc.Kind == "basic", LinearBackOffEnabled: false}
}

type getter interface {
	Get(url string) (*http.Response, error)
	Close() error
}

// the two configurations a constructor may be handed, prepared according to the scenario's variant
func (sc *clientSc) configs() (cfg *httpu.HTTPClientConfiguration, req *httpu.RequestConfiguration) {
	cfg = httpu.DefaultHTTPClientConfiguration()
	cfg.RetryPolicy = sc.policy()
	switch sc.Variant {
	case "request":
		cfg.RetryPolicy = sc.otherPolicy()
		req = &httpu.RequestConfiguration{UserAgent: "verif-c14", Retries: sc.policy()}
	case "request-empty":
		req = &httpu.RequestConfiguration{UserAgent: "verif-c14"}
	case "request-nil":
	default:
		req = &httpu.RequestConfiguration{UserAgent: "verif-c14"}
	}
	if req != nil && sc.Auth {
		req.Authorisation = httpu.Auth{Enforced: true, Scheme: "Bearer", AccessToken: "verif"}
	}
	return
}

func (sc *clientSc) httpClient() *http.Client {
	if sc.Custom {
		return &http.Client{Transport: &http.Transport{}}
	}
	return nil
}

type ctorDriver struct {
	sig       string
	retryable bool
	variants  []string // where a policy can be put
	build     func(sc *clientSc) getter
}

const (
	tCfg    = "cfg *HTTPClientConfiguration"
	tReq    = "requestCfg *RequestConfiguration"
	tLogger = "logger github.com/go-logr/logr.Logger"
	tClient = "client *net/http.Client"
	tTok    = "t *golang.org/x/oauth2.Token"
)

func fsig(ret string, ps ...string) string {
	return "func(" + strings.Join(ps, ", ") + ") " + ret
}

func orDefault(c *http.Client) *http.Client {
	if c == nil {
		return cleanhttp.DefaultPooledClient()
	}
	return c
}

// every public client constructor of utils/http (the list is checked against the one the translator extracts from the source)
var ctorDrivers = map[string]ctorDriver{
	"NewConfigurableRetryableClient": {fsig("IRetryableClient", tCfg), true, []string{"cfg"}, func(sc *clientSc) getter {
		c, _ := sc.configs()
		return httpu.NewConfigurableRetryableClient(c)
	}},
	"NewConfigurableRetryableClientFromClient": {fsig("IRetryableClient", tCfg, tClient), true, []string{"cfg"}, func(sc *clientSc) getter {
		c, _ := sc.configs()
		return httpu.NewConfigurableRetryableClientFromClient(c, orDefault(sc.httpClient()))
	}},
	"NewConfigurableRetryableClientWithLogger": {fsig("IRetryableClient", tCfg, tLogger), true, []string{"cfg"}, func(sc *clientSc) getter {
		c, _ := sc.configs()
		return httpu.NewConfigurableRetryableClientWithLogger(c, logr.Discard())
	}},
	"NewConfigurableRetryableClientWithLoggerFromClient": {fsig("IRetryableClient", tCfg, tLogger, tClient), true, []string{"cfg"}, func(sc *clientSc) getter {
		c, _ := sc.configs()
		return httpu.NewConfigurableRetryableClientWithLoggerFromClient(c, logr.Discard(), orDefault(sc.httpClient()))
	}},
	"NewConfigurableRetryableClientWithLoggerAndCustomClient": {fsig("IRetryableClient", tCfg, tReq, tLogger, tClient), true, []string{"cfg", "request", "request-empty", "request-nil"}, func(sc *clientSc) getter {
		c, q := sc.configs()
		return httpu.NewConfigurableRetryableClientWithLoggerAndCustomClient(c, q, logr.Discard(), sc.httpClient())
	}},
	"NewRetryableClientWithLogger": {fsig("IRetryableClient", tCfg, tReq, tLogger), true, []string{"cfg", "request", "request-empty", "request-nil"}, func(sc *clientSc) getter {
		c, q := sc.configs()
		return httpu.NewRetryableClientWithLogger(c, q, logr.Discard())
	}},
	"NewRetryableClientWithAuthorisation": {fsig("IRetryableClient", tCfg, tReq), true, []string{"cfg", "request", "request-empty", "request-nil"}, func(sc *clientSc) getter {
		c, q := sc.configs()
		return httpu.NewRetryableClientWithAuthorisation(c, q)
	}},
	"NewClientWithAuthorisation": {fsig("IRetryableClient", tReq), true, []string{"request", "default"}, func(sc *clientSc) getter {
		_, q := sc.configs()
		if sc.Variant == "default" {
			q.Retries = httpu.RetryPolicyConfiguration{}
		}
		return httpu.NewClientWithAuthorisation(q)
	}},
	"NewConfigurableRetryableOauthClient": {fsig("IRetryableClient", tCfg, "token string"), true, []string{"cfg"}, func(sc *clientSc) getter {
		c, _ := sc.configs()
		return httpu.NewConfigurableRetryableOauthClient(c, "verif")
	}},
	"NewConfigurableRetryableOauthClientWithLogger": {fsig("IRetryableClient", tCfg, tLogger, "token string"), true, []string{"cfg"}, func(sc *clientSc) getter {
		c, _ := sc.configs()
		return httpu.NewConfigurableRetryableOauthClientWithLogger(c, logr.Discard(), "verif")
	}},
	"NewConfigurableRetryableOauthClientWithLoggerAndCustomClient": {fsig("IRetryableClient", tCfg, tClient, tLogger, "token string"), true, []string{"cfg"}, func(sc *clientSc) getter {
		c, _ := sc.configs()
		return httpu.NewConfigurableRetryableOauthClientWithLoggerAndCustomClient(c, sc.httpClient(), logr.Discard(), "verif")
	}},
	"NewConfigurableRetryableOauthClientWithToken": {fsig("IRetryableClient", tCfg, tTok), true, []string{"cfg"}, func(sc *clientSc) getter {
		c, _ := sc.configs()
		return httpu.NewConfigurableRetryableOauthClientWithToken(c, &oauth2.Token{AccessToken: "verif"})
	}},
	"NewConfigurableRetryableOauthClientWithTokenAndLogger": {fsig("IRetryableClient", tCfg, tLogger, tTok), true, []string{"cfg"}, func(sc *clientSc) getter {
		c, _ := sc.configs()
		return httpu.NewConfigurableRetryableOauthClientWithTokenAndLogger(c, logr.Discard(), &oauth2.Token{AccessToken: "verif"})
	}},
	"NewPooledClient": {fsig("IClient", tCfg), false, []string{"cfg"}, func(sc *clientSc) getter {
		c, _ := sc.configs()
		return httpu.NewPooledClient(c)
	}},
	"NewRetryableClient":      {fsig("IRetryableClient"), true, []string{"default"}, func(sc *clientSc) getter { return httpu.NewRetryableClient() }},
	"NewRetryableOauthClient": {fsig("IRetryableClient", "token string"), true, []string{"default"}, func(sc *clientSc) getter { return httpu.NewRetryableOauthClient("verif") }},
	"NewRetryableOauthClientWithToken": {fsig("IRetryableClient", tTok), true, []string{"default"}, func(sc *clientSc) getter {
		return httpu.NewRetryableOauthClientWithToken(&oauth2.Token{AccessToken: "verif"})
	}},
}

func (sc *clientSc) driver() ctorDriver {
	if sc.Ctor == "" {
		return ctorDrivers["NewConfigurableRetryableClient"]
	}
	return ctorDrivers[sc.Ctor]
}

// effective RetryMax: a client that is not a retrying one sends one request whatever the policy says
func (sc *clientSc) effRetryMax() int {
	if d := sc.driver(); d.build != nil && !d.retryable {
		return 0
	}
	return sc.RetryMax
}

type clientObs struct {
	// inspection of the underlying retryablehttp client
	UMax         int     `json:"underlying_retry_max,omitempty"`
	UMinNs       int64   `json:"underlying_wait_min_ns,omitempty"`
	UMaxNs       int64   `json:"underlying_wait_max_ns,omitempty"`
	Waits        []int64 `json:"backoff_samples_ns,omitempty"`
	Ref          []int64 `json:"reference_samples_ns,omitempty"`
	NoUnderlying bool    `json:"no_underlying_client,omitempty"`

	Requests int     `json:"requests"`
	GapsNs   []int64 `json:"gaps_ns"`
	Err      bool    `json:"error"`
	Status   int     `json:"final_status"`
}

var inspectSamples = []struct {
	n      int
	status int
	header string
}{{0, 0, ""}, {1, 0, ""}, {2, 500, ""}, {3, 429, "7"}, {1, 503, "9223372037"}, {4, 200, "7"}, {1, 429, "abc"}}

func sampleResp(status int, header string) *http.Response {
	if status == 0 {
		return nil
	}
	r := &http.Response{StatusCode: status, Header: http.Header{}}
	if header != "" {
		r.Header.Set("Retry-After", header)
	}
	return r
}

// inspectClient: the retryablehttp client a constructor built must carry the scenario's policy
func inspectClient(sc *clientSc) (o clientObs) {
	cl := sc.driver().build(sc)
	defer func() { _ = cl.Close() }()
	rc, ok := cl.(httpu.IRetryableClient)
	if !ok || rc.UnderlyingClient() == nil {
		o.NoUnderlying = true
		return
	}
	uc := rc.UnderlyingClient()
	o.UMax, o.UMinNs, o.UMaxNs = uc.RetryMax, int64(uc.RetryWaitMin), int64(uc.RetryWaitMax)
	pol := sc.policy()
	ref := httpu.BackOffPolicyFactory(&pol)
	for _, sm := range inspectSamples {
		if sc.Variant == "default" && sc.Ctor == "NewRetryableClient" && sm.header != "" {
			continue // retryablehttp's own default back-off reads the header in its own way
		}
		o.Waits = append(o.Waits, int64(uc.Backoff(uc.RetryWaitMin, uc.RetryWaitMax, sm.n, sampleResp(sm.status, sm.header))))
		o.Ref = append(o.Ref, int64(ref.Apply(pol.RetryWaitMin, pol.RetryWaitMax, sm.n, sampleResp(sm.status, sm.header))))
	}
	return
}

func judgeInspection(sc *clientSc, o clientObs) (string, string) {
	if o.NoUnderlying {
		if sc.driver().retryable {
			return "client-policy-not-applied:no-retryablehttp-client", "the constructor did not return a retryable client"
		}
		return "", ""
	}
	pol := sc.policy()
	where := fmt.Sprintf("%s (policy given through: %s)", sc.Ctor, sc.Variant)
	switch {
	case o.UMax != pol.RetryMax:
		return "client-policy-not-applied:retry-max", fmt.Sprintf("%s: the client retries %d times, the policy it was built with says %d", where, o.UMax, pol.RetryMax)
	case o.UMinNs != int64(pol.RetryWaitMin) || o.UMaxNs != int64(pol.RetryWaitMax):
		return "client-policy-not-applied:waits", fmt.Sprintf("%s: the client waits between %v and %v, the policy it was built with says %v and %v", where, time.Duration(o.UMinNs), time.Duration(o.UMaxNs), pol.RetryWaitMin, pol.RetryWaitMax)
	}
	for i := range o.Waits {
		if o.Waits[i] != o.Ref[i] {
			return "client-policy-not-applied:backoff", fmt.Sprintf("%s: the client's back-off gives %v where the policy it was built with gives %v (sample %d: kind %s, Retry-After disabled=%v)", where, time.Duration(o.Waits[i]), time.Duration(o.Ref[i]), i, sc.Kind, sc.RADisabled)
		}
	}
	return "", ""
}

func execClient(sc *clientSc) (o clientObs) {
	if sc.Inspect {
		return inspectClient(sc)
	}
	var mu sync.Mutex
	var arrivals []time.Time
	srv := httptest.NewServer(http.HandlerFunc(func(w http.ResponseWriter, req *http.Request) {
		mu.Lock()
		arrivals = append(arrivals, time.Now())
		k := len(arrivals)
		mu.Unlock()
		if k <= sc.Fails {
			if sc.RetryAfter != "" {
				w.Header().Set("Retry-After", sc.RetryAfter)
			}
			w.WriteHeader(sc.Status)
			return
		}
		w.WriteHeader(http.StatusOK)
	}))
	defer srv.Close()
	cl := sc.driver().build(sc)
	defer func() { _ = cl.Close() }()
	resp, err := cl.Get(srv.URL)
	if resp != nil {
		o.Status = resp.StatusCode
		_ = resp.Body.Close()
	}
	o.Err = err != nil
	mu.Lock()
	defer mu.Unlock()
	o.Requests = len(arrivals)
	for i := 1; i < len(arrivals); i++ {
		o.GapsNs = append(o.GapsNs, int64(arrivals[i].Sub(arrivals[i-1])))
	}
	return
}

// what the oracle asks of one client run; returns a signature or ""
func judgeClient(sc0 *clientSc, o clientObs) (string, string) {
	if sc0.Inspect {
		return judgeInspection(sc0, o)
	}
	eff := *sc0
	eff.RetryMax = sc0.effRetryMax()
	sc := &eff
	if o.Requests < 1 {
		return "client-no-request", "no request reached the server"
	}
	if o.Requests > sc.RetryMax+1 {
		return "client-too-many-requests", fmt.Sprintf("%d requests for RetryMax=%d", o.Requests, sc.RetryMax)
	}
	if o.Requests > sc.Fails+1 {
		return "client-request-after-success", fmt.Sprintf("%d requests although request %d was answered 200", o.Requests, sc.Fails+1)
	}
	served200 := o.Requests == sc.Fails+1
	if served200 && (o.Err || o.Status != 200) {
		return "client-error-despite-success", "a request was answered 200 but the caller received an error"
	}
	if !served200 && !o.Err && o.Status == 200 {
		return "client-nil-without-success", "no request was answered 200 but the caller received success"
	}
	if !served200 && o.Requests < sc.RetryMax+1 {
		return "client-gave-up-early", fmt.Sprintf("%d requests, all answered %d, RetryMax=%d", o.Requests, sc.Status, sc.RetryMax)
	}
	hint := int64(-1)
	if !sc.RADisabled && (sc.Status == 429 || sc.Status == 503) && sc.RetryAfter != "" {
		if v, err := strconv.ParseInt(sc.RetryAfter, 10, 64); err == nil && v >= 0 {
			hint = v * int64(time.Second)
		}
	}
	for i, g := range o.GapsNs {
		lower := sc.MinMs * int64(time.Millisecond)
		if sc.Kind == "linear" {
			lower *= int64(i + 1)
		}
		if hint >= 0 {
			lower = hint
		}
		if g < lower-int64(time.Millisecond) {
			return "client-wait-too-short", fmt.Sprintf("request %d arrived %v after the previous one, the policy's wait is at least %v", i+2, time.Duration(g), time.Duration(lower))
		}
		if hint < 0 && sc.RetryAfter != "" && sc.MaxMs <= 100 && g > int64(900*time.Millisecond) {
			return "client-retry-after-honoured-when-disabled", fmt.Sprintf("request %d arrived %v after the previous one although Retry-After must be ignored (max wait %dms)", i+2, time.Duration(g), sc.MaxMs)
		}
		// the constant policy waits min, not max: generous bound (20x the wait), confirmed 3 of 3
		if hint < 0 && sc.Kind == "basic" && sc.MinMs >= 50 && g > 20*sc.MinMs*int64(time.Millisecond) {
			return "client-wait-too-long", fmt.Sprintf("request %d arrived %v after the previous one, the constant policy's wait is %dms", i+2, time.Duration(g), sc.MinMs)
		}
	}
	return "", ""
}

func runClients(r *h.Run, scs []clientSc, emit bool) {
	obs := make([]clientObs, len(scs))
	var wg sync.WaitGroup
	for i := range scs {
		wg.Add(1)
		go func(i int) {
			defer wg.Done()
			obs[i] = execClient(&scs[i])
		}(i)
	}
	wg.Wait()
	for i := range scs {
		sc := scs[i]
		r.Eval()
		sig, what := judgeClient(&sc, obs[i])
		if sig != "" && (strings.Contains(sig, "wait") || strings.Contains(sig, "honoured")) {
			// timing-dependent: confirm 3 of 3 in isolation
			for k := 0; k < 2 && sig != ""; k++ {
				o2 := execClient(&sc)
				sig2, _ := judgeClient(&sc, o2)
				if sig2 != sig {
					sig = ""
				}
			}
		}
		if sig != "" {
			r.Fail(sig, what, scenario{Kind: "client", Client: &sc})
		}
		if emit && !sc.Inspect {
			r.Case(fmt.Sprintf("(CClient %d %d %d)", sc.effRetryMax(), sc.Fails, obs[i].Requests), scenario{Kind: "client", Client: &sc})
		}
		r.Count("client:policy=" + sc.Kind)
		if sc.Ctor != "" {
			r.Count("client:constructor=" + sc.Ctor)
			r.Count("client:policy-given-through=" + sc.Variant)
		}
		if sc.Fails > 0 && sc.RetryMax > 0 {
			r.Distinct(fmt.Sprintf("c|%v", sc))
		}
		if i < 2 {
			r.Sample(map[string]any{"scenario": sc, "observed": obs[i]})
		}
	}
}

func clientSweeps(r *h.Run) {
	var scs []clientSc
	for m := 0; m <= 4; m++ {
		for _, f := range []int{0, 1, m, m + 1, m + 3} {
			scs = append(scs, clientSc{Kind: []string{"basic", "linear", "exponential"}[(m+f)%3], RetryMax: m, Fails: f, Status: []int{503, 429, 500, 502}[(m+f)%4], MinMs: 0, MaxMs: 1, RADisabled: true})
		}
	}
	// the policies are wired into the client: arrival gaps
	scs = append(scs, clientSc{Kind: "basic", RetryMax: 2, Fails: 1, Status: 503, RetryAfter: "1"})
	scs = append(scs, clientSc{Kind: "basic", RetryMax: 2, Fails: 1, Status: 429, RetryAfter: "1", RADisabled: true, MinMs: 1, MaxMs: 1})
	scs = append(scs, clientSc{Kind: "exponential", RetryMax: 2, Fails: 1, Status: 429, RetryAfter: "1", MinMs: 1, MaxMs: 2})
	scs = append(scs, clientSc{Kind: "exponential", RetryMax: 3, Fails: 3, Status: 500, MinMs: 40, MaxMs: 100, RADisabled: true})
	scs = append(scs, clientSc{Kind: "linear", RetryMax: 3, Fails: 3, Status: 503, MinMs: 40, MaxMs: 40})
	scs = append(scs, clientSc{Kind: "basic", RetryMax: 3, Fails: 2, Status: 503, MinMs: 60, MaxMs: 5000, RADisabled: true})
	runClients(r, scs, true)
	constructorSweeps(r)
}

type ctorEntry struct {
	Name          string `json:"name"`
	Sig           string `json:"sig"`
	AcceptsConfig bool   `json:"accepts_config"`
	Retryable     bool   `json:"retryable"`
}

// constructorSweeps drives a distinct policy END TO END through every public client constructor of utils/http: the list
// comes from the source (coq/C14/constructors.json, written by the translator on every run); a constructor without a
// driver, or whose signature is not the one the driver was written for, is reported (fail closed).
func constructorSweeps(r *h.Run) {
	root := os.Getenv("VERIF_ROOT")
	if root == "" {
		root = "/verif"
	}
	var list []ctorEntry
	bs, err := os.ReadFile(root + "/coq/C14/constructors.json")
	if err == nil {
		err = json.Unmarshal(bs, &list)
	}
	if err != nil || len(list) == 0 {
		r.Fail("client-constructor-list-missing", fmt.Sprintf("the list of client constructors extracted from the source cannot be read (%v)", err), nil)
		return
	}
	var scs []clientSc
	idx := 0
	for _, e := range list {
		d, ok := ctorDrivers[e.Name]
		if !ok || d.sig != e.Sig || d.retryable != e.Retryable {
			r.Fail("client-constructor-not-driven:"+e.Name, fmt.Sprintf("utils/http has the public client constructor %s %s, which this check does not drive (driver signature: %q)", e.Name, e.Sig, d.sig), e)
			continue
		}
		for _, v := range d.variants {
			for rep := 0; rep < 2; rep++ {
				idx++
				kind := []string{"basic", "linear", "exponential"}[idx%3]
				base := clientSc{Ctor: e.Name, Variant: v, Kind: kind, RetryMax: 1 + idx%3, MinMs: int64(1 + idx%2), MaxMs: int64(1 + idx%2), RADisabled: idx%2 == 0, Custom: rep == 1, Auth: idx%4 < 2}
				if kind == "exponential" {
					base.MaxMs = base.MinMs + 2
				}
				if v == "default" { // the library's default: exponential, 4 retries, 1s..30s, Retry-After honoured
					base.Kind, base.RetryMax, base.MinMs, base.MaxMs, base.RADisabled = "exponential", 4, 1000, 30000, false
					ins := base
					ins.Inspect = true
					ok := base
					ok.Fails, ok.Status = 0, 503
					scs = append(scs, ins, ok)
					continue
				}
				ins := base
				ins.Inspect = true
				// always failing server: the number of requests is that of THIS policy
				cnt := base
				cnt.Status, cnt.Fails = []int{503, 429, 500}[idx%3], base.RetryMax+4
				scs = append(scs, ins, cnt)
				if rep == 0 {
					// 429 with Retry-After: 1, once: honoured or ignored as THIS policy says
					ra := base
					ra.Kind, ra.Status, ra.Fails, ra.RetryAfter, ra.MaxMs = "basic", 429, 1, "1", ra.MinMs
					scs = append(scs, ra)
				}
			}
		}
	}
	for name := range ctorDrivers {
		found := false
		for _, e := range list {
			found = found || e.Name == name
		}
		if !found {
			r.Note("driver for " + name + ", which is no longer a public client constructor of utils/http")
		}
	}
	runClients(r, scs, true)
}

// ------------------------------------------------------------------------------------------------

func main() {
	r := h.Init("C14")
	r.Imports = []string{"GU.C14.Model", "GU.C14.GenModel"}
	r.CheckFn = "check_case_gen" // the wait cases are evaluated on the definitions regenerated from retry_policy.go
	r.Rule("wait: policy configuration x (min,max) x attempt number x response status x Retry-After value, distinct by the full tuple, non-trivial = a response is present or attempt > 0; " +
		"retry: outcome scripts, distinct by (api, policy, script), non-trivial = enabled, RetryMax > 1 and a script of >= 2 attempts; client: distinct by scenario, non-trivial = at least one failure and one retry allowed")
	var sc scenario
	if _, ok := r.ReplayObject(&sc); ok {
		switch {
		case sc.Kind == "wait" && sc.Wait != nil:
			if policyKind(sc.Wait) == "exponential" {
				runMonotone(r, *sc.Wait, []int{sc.Wait.N - 1, sc.Wait.N, sc.Wait.N + 1}[func() int {
					if sc.Wait.N > 0 {
						return 0
					}
					return 1
				}():], false)
			} else {
				runWait(r, *sc.Wait, false)
			}
		case sc.Kind == "retry" && sc.Retry != nil:
			// the unfixed code decides at random: repeat
			scs := make([]retrySc, 24)
			for i := range scs {
				scs[i] = *sc.Retry
			}
			runRetries(r, scs, false)
		case sc.Kind == "client" && sc.Client != nil:
			runClients(r, []clientSc{*sc.Client}, false)
		}
		r.Finish()
		return
	}
	retrySweeps(r)
	clientSweeps(r)
	waitSweeps(r)
	r.Note("observation (not a violation of the property as written): RetryMax <= 0 with an enabled policy means 'retry for ever' in retry-go; never generated")
	r.Note("the HTTP client's RetryMax counts RE-tries: at most RetryMax+1 requests are sent")
	r.Note("observation by reading (not exercised): NewConfigurableRetryableClient* hand RetryMax to retryablehttp whatever Enabled says; DefaultNoRetryPolicyConfiguration has RetryMax 0")
	r.Finish()
}
