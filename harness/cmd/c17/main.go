// C17 harness — stale-lock detection of filesystem.RemoteLockFile (utils/filesystem/lockfile.go, filetimes.go).
//
// Every actor (the holder, each observer) has its own VFS over its own stack  shim(rec(base))  on a SHARED base
// file system (a per-run directory on the OS back end, or one afero.MemMapFs): the lock is a distributed one, the
// actors only meet on the file system.  rec timestamps every backend operation (begin/end, wall clock — the clock
// the library's time.Since(modTime) uses), keeps Chtimes arguments, Stat results and directory listings; the shim's
// hook stalls or drops the holder's operations (I/O stall, crashed holder), its ModTimeOverride fabricates clocks.
//
// Order of a run:
//  0. D30 replay (known finding, deterministic): the heartbeat writer's backend calls are stalled while the holder
//     is alive; an observer's IsStale turns true.
//  1. planted lock states x {IsStale, ReleaseIfStale, TryLock, TryLock+override} on both back ends, ages on and
//     around the 2*period boundary (fabricated clock on the in-memory back end)           -> CView / COp cases
//  2. death of the holder after each of its file-system operations (acquire path and steady state), OS back end:
//     stale within the bound, ReleaseIfStale + TryLock then succeed                         -> CTrace / CHolder cases
//  3. seeded real-time holds (1..40 periods quick, up to several hundred thorough) under CPU and I/O load with
//     0..8 observers polling IsStale / ReleaseIfStale / TryLock; ending by Unlock or by death -> CView / CTrace / CHolder
//
// Oracles (independent of the Coq model).  Never a latency judgement: a "stale" answer is a violation only when a
// heartbeat that had COMPLETELY landed before the call began was initiated at most 2*period (minus 20 ms of
// tolerance for coarse file-system clocks) before the call ended — a logic error.  "stale" answers with an
// observed gap above 2*period are D30 (counted, reported in the notes).  A dead lock must be reported stale by
// every call that begins 2*period+1ms after the holder's last operation (being late only makes it staler).
package main

import (
	"context"
	"errors"
	"fmt"
	"math/rand"
	"os"
	"path/filepath"
	"runtime"
	"sort"
	"strings"
	"sync"
	"sync/atomic"
	"syscall"
	"time"

	"github.com/spf13/afero"

	"github.com/ARM-software/golang-utils/utils/commonerrors"
	"github.com/ARM-software/golang-utils/utils/filesystem"

	"verif/harness/internal/h"
	"verif/harness/internal/shim"
)

const (
	period    = 50 * time.Millisecond // lockHeartBeatPeriod fixed by NewGenericRemoteLockFile (lockfile.go:48)
	periodNs  = int64(period)
	msNs      = int64(time.Millisecond)
	coarseTol = 20 * msNs // file systems stamp with a coarse clock (a jiffy behind the real one)

	sigD30        = "live-lock-reported-stale:heartbeat-writer-delayed>2periods"
	sigFreshStale = "stale-with-fresh-sign-of-life"
	sigSilent     = "not-stale-although-silent>2periods"
	sigReleased   = "live-lock-released-or-taken-over"
	sigNoRecover  = "dead-lock-not-recovered"
	sigHbSlow     = "heartbeat-not-refreshed-every-period"
	sigHbTime     = "sign-of-life-timestamp-not-current"
	sigUnreadable = "stale-on-unreadable-sign-of-life"
	sigHbStopped  = "heartbeat-stopped-after-transient-fault"
	sigHbUndead   = "heartbeat-continues-after-context-cancelled"
	sigHbKilled   = "heartbeat-stopped-by-another-call"
	sigUnneeded   = "stale-by-unneeded-operation"
	sigOpOutcome  = "operation-outcome-unexpected"
)

var (
	mu sync.Mutex // guards the h.Run (scenarios run concurrently)
	r  *h.Run
)

func now() int64 { return time.Now().UnixNano() }

// ------------------------------------------------------------------------------------------------
// rec: a recording afero.Fs

type recOp struct {
	Name  string
	Path  string
	B, E  int64
	T     int64 // Chtimes mtime argument / Stat result mtime
	IsDir bool
	Err   bool
	Names []string
	Data  string
	Flag  int
	N     int
	// Injected: the operation never reached the back end, the shim hook failed it (recorded by the hook itself)
	Injected bool
}

type recFs struct {
	afero.Fs
	mu  sync.Mutex
	ops []recOp
}

func (f *recFs) add(op recOp) {
	f.mu.Lock()
	f.ops = append(f.ops, op)
	f.mu.Unlock()
}
func (f *recFs) n() int {
	f.mu.Lock()
	defer f.mu.Unlock()
	return len(f.ops)
}
func (f *recFs) slice(i, j int) []recOp {
	f.mu.Lock()
	defer f.mu.Unlock()
	if j > len(f.ops) {
		j = len(f.ops)
	}
	out := make([]recOp, j-i)
	copy(out, f.ops[i:j])
	return out
}
func (f *recFs) all() []recOp { return f.slice(0, 1<<30) }

func (f *recFs) Mkdir(name string, perm os.FileMode) error {
	b := now()
	err := f.Fs.Mkdir(name, perm)
	f.add(recOp{Name: "Mkdir", Path: name, B: b, E: now(), Err: err != nil})
	return err
}
func (f *recFs) MkdirAll(name string, perm os.FileMode) error {
	b := now()
	err := f.Fs.MkdirAll(name, perm)
	f.add(recOp{Name: "MkdirAll", Path: name, B: b, E: now(), Err: err != nil})
	return err
}
func (f *recFs) Chtimes(name string, at, mt time.Time) error {
	b := now()
	err := f.Fs.Chtimes(name, at, mt)
	f.add(recOp{Name: "Chtimes", Path: name, B: b, E: now(), T: mt.UnixNano(), Err: err != nil})
	return err
}
func (f *recFs) Stat(name string) (os.FileInfo, error) {
	b := now()
	fi, err := f.Fs.Stat(name)
	op := recOp{Name: "Stat", Path: name, B: b, E: now(), Err: err != nil}
	if err == nil && fi != nil {
		op.T = fi.ModTime().UnixNano()
		op.IsDir = fi.IsDir()
	}
	f.add(op)
	return fi, err
}
func (f *recFs) Remove(name string) error {
	b := now()
	err := f.Fs.Remove(name)
	f.add(recOp{Name: "Remove", Path: name, B: b, E: now(), Err: err != nil})
	return err
}
func (f *recFs) RemoveAll(name string) error {
	b := now()
	err := f.Fs.RemoveAll(name)
	f.add(recOp{Name: "RemoveAll", Path: name, B: b, E: now(), Err: err != nil})
	return err
}
func (f *recFs) Open(name string) (afero.File, error) {
	b := now()
	fl, err := f.Fs.Open(name)
	f.add(recOp{Name: "Open", Path: name, B: b, E: now(), Err: err != nil})
	if err != nil {
		return nil, err
	}
	return &recFile{File: fl, fs: f, path: name}, nil
}
func (f *recFs) OpenFile(name string, flag int, perm os.FileMode) (afero.File, error) {
	b := now()
	fl, err := f.Fs.OpenFile(name, flag, perm)
	f.add(recOp{Name: "OpenFile", Path: name, B: b, E: now(), Err: err != nil, Flag: flag})
	if err != nil {
		return nil, err
	}
	return &recFile{File: fl, fs: f, path: name}, nil
}
func (f *recFs) Create(name string) (afero.File, error) {
	return f.OpenFile(name, os.O_RDWR|os.O_CREATE|os.O_TRUNC, 0o666)
}

type recFile struct {
	afero.File
	fs   *recFs
	path string
}

func (f *recFile) Readdirnames(n int) ([]string, error) {
	b := now()
	names, err := f.File.Readdirnames(n)
	f.fs.add(recOp{Name: "f.Readdirnames", Path: f.path, B: b, E: now(), Err: err != nil, Names: append([]string(nil), names...), N: n})
	return names, err
}
func (f *recFile) Write(p []byte) (int, error) {
	b := now()
	n, err := f.File.Write(p)
	d := string(p)
	if len(d) > 120 {
		d = d[:120]
	}
	f.fs.add(recOp{Name: "f.Write", Path: f.path, B: b, E: now(), Err: err != nil, Data: d})
	return n, err
}
func (f *recFile) WriteString(s string) (int, error) { return f.Write([]byte(s)) }
func (f *recFile) Close() error {
	b := now()
	err := f.File.Close()
	f.fs.add(recOp{Name: "f.Close", Path: f.path, B: b, E: now(), Err: err != nil})
	return err
}
func (f *recFile) Fd() uintptr {
	if x, ok := f.File.(interface{ Fd() uintptr }); ok {
		return x.Fd()
	}
	return ^uintptr(0)
}

// ------------------------------------------------------------------------------------------------
// actors

type world struct {
	base   afero.Fs
	mem    bool
	dir    string // directory holding the lock
	id     string
	lockP  string
	hbP    string
	origin int64 // instants are reported to Coq relative to this
}

func newWorld(root string, mem bool, name string) *world {
	w := &world{mem: mem, id: "L" + name, origin: now()}
	if mem {
		w.base = afero.NewMemMapFs()
		w.dir = "/locks/" + name
	} else {
		w.base = afero.NewOsFs()
		w.dir = filepath.Join(root, name)
	}
	_ = w.base.MkdirAll(w.dir, 0o755)
	w.lockP = filepath.Join(w.dir, filesystem.LockFilePrefix+"-"+w.id)
	w.hbP = filepath.Join(w.lockP, w.id+".lock")
	return w
}

type actor struct {
	w    *world
	rec  *recFs
	sh   *shim.Fs
	fs   *filesystem.VFS
	lock filesystem.ILock

	cancels []context.CancelFunc
}

func (w *world) actor(override bool) *actor {
	a := &actor{w: w}
	a.rec = &recFs{Fs: w.base}
	a.sh = shim.New(a.rec, nil)
	a.sh.Rec = false
	ft := filesystem.StandardFS
	if w.mem {
		ft = filesystem.InMemoryFS
	}
	a.fs = filesystem.NewVirtualFileSystem(a.sh, ft, filesystem.IdentityPathConverterFunc).(*filesystem.VFS)
	a.lock = filesystem.NewGenericRemoteLockFile(a.fs, w.id, w.dir, override)
	return a
}

func (w *world) rel(t int64) int64 { return t - w.origin }

// holder: an actor whose shim also keeps its own log (every backend operation kind, including those rec does not wrap)
func (w *world) holder() *actor {
	a := w.actor(false)
	a.sh.Rec = true
	return a
}

// one call of an observer
type call struct {
	Op       string // IsStale | Release | TryLock | TryLockOverride
	B, E     int64
	Stale    bool   // IsStale result
	Err      string // "", locked, stale, other:<msg>
	Ops      []recOp
	DirAfter bool
}

func errKind(err error) string {
	switch {
	case err == nil:
		return ""
	case commonerrors.Any(err, commonerrors.ErrLocked):
		return "locked"
	case commonerrors.Any(err, commonerrors.ErrStaleLock):
		return "stale"
	default:
		return "other:" + err.Error()
	}
}

func (a *actor) do(op string) (c call) {
	ctx := context.Background()
	i0 := a.rec.n()
	c = call{Op: op, B: now()}
	defer func() {
		if p := recover(); p != nil {
			c.Err = fmt.Sprintf("other:panic: %v", p)
			c.E = now()
			c.Ops = a.rec.slice(i0, 1<<30)
			fail(sigOpOutcome, fmt.Sprintf("%s panicked: %v", op, p), scenario{Kind: "panic", Op: op})
		}
	}()
	switch op {
	case "IsStale":
		c.Stale = a.lock.IsStale()
	case "Release":
		c.Err = errKind(a.lock.ReleaseIfStale(ctx))
	case "TryLock", "TryLockOverride":
		// a deadline bounds the library's recursion in TryLock (override) should a stale lock never get released;
		// observers that acquire give the lock back at once, so the deadline never cuts a heartbeat short
		tctx, cancel := context.WithTimeout(ctx, time.Second)
		a.cancels = append(a.cancels, cancel)
		c.Err = errKind(a.lock.TryLock(tctx))
	}
	c.E = now()
	c.Ops = a.rec.slice(i0, 1<<30)
	return c
}

func (w *world) dirExists() bool {
	fi, err := w.base.Stat(w.lockP)
	return err == nil && fi.IsDir()
}

// ------------------------------------------------------------------------------------------------
// what a call read: the view(s) of IsStale inside it

type viewObs struct {
	LsOK  bool
	Stats []int64 // per listed file: mtime, or -1<<62 for a failed stat
	Fail  []bool
	DirOK bool
	Dir   int64
	Lo    int64 // earliest instant at which a time.Since of this view can have been evaluated
	Seen  bool  // at least one modification time was read
	Min   int64 // oldest... newest modification time read (the one that decides "all stale")
}

// extractView reconstructs the first IsStale view of a call from the backend operations it made:
// IsStale = Ls(lockPath){ IsDir{Exists{Stat; Open; Readdirnames(1); Close}; Stat}; Open; Readdirnames(-1); Close }
// followed by one Stat per listed file, or Stat(lockPath) when the listing is empty.
func extractView(w *world, ops []recOp) (v viewObs, ok bool) {
	if len(ops) == 0 {
		return v, false
	}
	v.Lo = ops[0].B
	idx := -1
	for i, o := range ops {
		if o.Name == "f.Readdirnames" && o.Path == w.lockP && o.N < 0 {
			idx = i
			break
		}
		if o.Name == "Remove" || o.Name == "RemoveAll" {
			break
		}
	}
	if idx < 0 || ops[idx].Err {
		return v, true // Ls failed (no lock directory, not a directory, ...)
	}
	names := ops[idx].Names
	v.LsOK = true
	v.Lo = ops[idx].E
	j := idx + 1
	for j < len(ops) && ops[j].Name == "f.Close" {
		j++
	}
	if len(names) == 0 {
		if j < len(ops) && ops[j].Name == "Stat" && ops[j].Path == w.lockP {
			v.Lo = ops[j].E
			if !ops[j].Err {
				v.DirOK, v.Dir, v.Seen, v.Min = true, ops[j].T, true, ops[j].T
			}
			return v, true
		}
		return v, false
	}
	first := true
	for _, nm := range names {
		if j >= len(ops) || ops[j].Name != "Stat" || ops[j].Path != filepath.Join(w.lockP, nm) {
			return v, false
		}
		if first {
			v.Lo = ops[j].E
			first = false
		}
		if ops[j].Err {
			v.Stats = append(v.Stats, 0)
			v.Fail = append(v.Fail, true)
		} else {
			v.Stats = append(v.Stats, ops[j].T)
			v.Fail = append(v.Fail, false)
			if !v.Seen || ops[j].T > v.Min {
				v.Seen, v.Min = true, ops[j].T
			}
		}
		j++
	}
	return v, true
}

func (w *world) viewTerm(v viewObs) string {
	ls := "None"
	if v.LsOK {
		ts := make([]string, len(v.Stats))
		for i := range v.Stats {
			ts[i] = h.Opt(h.Z(w.rel(v.Stats[i])), !v.Fail[i])
		}
		ls = "(Some " + h.List(ts) + ")"
	}
	return h.App("mkView", ls, h.Opt(h.Z(w.rel(v.Dir)), v.DirOK))
}

// specStale: the property read directly on a view: stale iff the newest sign of life read is more than two periods
// old (millisecond truncation as documented by the theorem stale_threshold_exact). Returns the answers at both ends.
func specStale(v viewObs, lo, hi int64) (atLo, atHi bool) {
	if !v.LsOK {
		return false, false
	}
	f := func(t int64) bool {
		if len(v.Stats) == 0 {
			return v.DirOK && (t-v.Dir)/msNs > 2*(periodNs/msNs)
		}
		for i := range v.Stats {
			if v.Fail[i] || !((t-v.Stats[i])/msNs > 2*(periodNs/msNs)) {
				return false
			}
		}
		return true
	}
	return f(lo), f(hi)
}

// ------------------------------------------------------------------------------------------------
// bookkeeping helpers (goroutine safe)

func fail(sig, what string, replay any) {
	mu.Lock()
	r.Fail(sig, what, replay)
	mu.Unlock()
}
func count(k string) {
	mu.Lock()
	r.Count(k)
	mu.Unlock()
}
func countN(k string, n int) {
	mu.Lock()
	r.CountN(k, n)
	mu.Unlock()
}
func eval() {
	mu.Lock()
	r.Eval()
	mu.Unlock()
}
func distinct(k string) {
	mu.Lock()
	r.Distinct(k)
	mu.Unlock()
}
func addCase(term string, desc any) {
	mu.Lock()
	r.Case(term, desc)
	mu.Unlock()
}
func note(s string) {
	mu.Lock()
	r.Note(s)
	mu.Unlock()
}
func sample(x any) {
	mu.Lock()
	r.Sample(x)
	mu.Unlock()
}

// replay object
type scenario struct {
	Kind     string  `json:"kind"` // d30 | planted | death | hold
	Mem      bool    `json:"mem,omitempty"`
	Op       string  `json:"op,omitempty"`
	NoLock   bool    `json:"no_lock,omitempty"`
	DirAge   int64   `json:"dir_age_ns,omitempty"` // planted: age of the directory
	FileAges []int64 `json:"file_ages_ns,omitempty"`
	Fab      bool    `json:"fabricated_clock,omitempty"`
	K        int     `json:"death_after_op,omitempty"`
	Periods  int     `json:"periods,omitempty"`
	Obs      int     `json:"observers,omitempty"`
	Death    bool    `json:"ends_by_death,omitempty"`
	Load     bool    `json:"load,omitempty"`
	Seed     int64   `json:"seed,omitempty"`
	// faulthold: transient faults of the heartbeat writer; canceldeath: death by context cancellation
	FaultKind string `json:"fault_kind,omitempty"` // open | write | chtimes
	Errno     string `json:"errno,omitempty"`      // EIO | ENOSPC | EMFILE
	At        int    `json:"at_iteration,omitempty"`
	NFaults   int    `json:"faults,omitempty"`
	Acquire   string `json:"acquire,omitempty"` // TryLock | Lock | LockWithTimeout
	After     int    `json:"cancel_after_periods,omitempty"`
}

var root string
var worldSeq int64

func nextName(p string) string { return fmt.Sprintf("%s%d", p, atomic.AddInt64(&worldSeq, 1)) }

// ------------------------------------------------------------------------------------------------
// holder trace from its recorded operations

type hEv struct {
	Kind string // Mkdir | ChtimesDir | Create | Write | ChtimesHb
	B, E int64
	Val  int64 // explicit value (Chtimes)
	Now  int64 // the `now` of the iteration (from Chtimes or parsed from the payload), 0 if unknown
}

func parseNow(data string) int64 {
	// "alive @ 2026-10-01 18:52:25.123456789 +0000 UTC m=+0.123"
	s := strings.TrimPrefix(data, "alive @ ")
	if i := strings.Index(s, " m="); i >= 0 {
		s = s[:i]
	}
	t, err := time.Parse("2006-01-02 15:04:05.999999999 -0700 MST", s)
	if err != nil {
		return 0
	}
	return t.UnixNano()
}

// holderEvents projects the holder's recorded operations on the model's events (every recognised operation, up to
// the first removal of the lock); shapeOK is false when their order is not the holder machine's
// Mkdir, Chtimes(dir), (OpenFile(O_CREATE|O_TRUNC), Write, [Close], Chtimes(hb))*.
func holderEvents(w *world, ops []recOp) (evs []hEv, shapeOK bool, why string) {
	shapeOK = true
	bad := func(s string) {
		if shapeOK {
			shapeOK, why = false, s
		}
	}
	st := 0 // 0 expect Mkdir, 1 ChtimesDir, 2 Create, 3 Write, 4 ChtimesHb
	faulted, created := false, false
	for _, o := range ops {
		if o.Err {
			if o.Injected {
				// a transient fault injected by the hook: that sign of life is lost, the iteration goes on
				switch o.Name {
				case "OpenFile", "f.Write":
					st = 4
				case "Chtimes":
					st = 2
				}
				faulted = true
				continue
			}
			if o.Name == "Chtimes" && o.Path == w.hbP && faulted && !created {
				st = 2
				continue // Chtimes of a heartbeat file that an injected open fault never let exist
			}
			if (o.Name == "OpenFile" || o.Name == "f.Write" || o.Name == "Chtimes") && st >= 1 && len(evs) > 0 {
				return evs, shapeOK, why // the lock was removed under the holder (or similar): the hold ends here
			}
			continue // a failed Mkdir attempt, the library's deferred second Close, ...
		}
		switch {
		case o.Name == "Mkdir" && o.Path == w.lockP:
			if st != 0 {
				return evs, shapeOK, why // a re-acquisition: only the first hold is projected
			}
			evs = append(evs, hEv{Kind: "Mkdir", B: o.B, E: o.E})
			st = 1
		case o.Name == "Chtimes" && o.Path == w.lockP:
			if st != 1 {
				bad("Chtimes(dir) out of place")
			}
			evs = append(evs, hEv{Kind: "ChtimesDir", B: o.B, E: o.E, Val: o.T, Now: o.T})
			st = 2
		case o.Name == "OpenFile" && o.Path == w.hbP:
			if st == 1 {
				bad("heartbeat file created without a preceding Chtimes(dir)")
			} else if st != 2 {
				bad("OpenFile(heartbeat) out of place (previous iteration incomplete)")
			}
			if o.Flag&os.O_CREATE == 0 || o.Flag&os.O_TRUNC == 0 {
				bad("heartbeat file not opened with O_CREATE|O_TRUNC")
			}
			evs = append(evs, hEv{Kind: "Create", B: o.B, E: o.E})
			created = true
			st = 3
		case o.Name == "f.Write" && o.Path == w.hbP:
			if st != 3 {
				bad("Write out of place")
			}
			evs = append(evs, hEv{Kind: "Write", B: o.B, E: o.E, Now: parseNow(o.Data)})
			st = 4
		case o.Name == "Chtimes" && o.Path == w.hbP:
			if st != 4 {
				bad("Chtimes(heartbeat) out of place")
			}
			evs = append(evs, hEv{Kind: "ChtimesHb", B: o.B, E: o.E, Val: o.T, Now: o.T})
			st = 2
		case o.Name == "Remove" || o.Name == "RemoveAll":
			return evs, shapeOK, why // Unlock
		}
	}
	return evs, shapeOK, why
}

// iteration `now`s: for each heartbeat iteration (Create, Write, ChtimesHb) the captured instant
func fillNow(evs []hEv) {
	for i := range evs {
		if evs[i].Kind == "Create" {
			n := int64(0)
			for j := i + 1; j < len(evs) && j <= i+2; j++ {
				if evs[j].Kind == "Create" {
					break
				}
				if evs[j].Now != 0 {
					n = evs[j].Now
				}
			}
			if n == 0 {
				n = evs[i].B // unknown: the latest it can have been
			}
			for j := i; j < len(evs) && j <= i+2; j++ {
				if j > i && evs[j].Kind == "Create" {
					break
				}
				evs[j].Now = n
			}
		}
	}
}

// checkTimestamps: the modification times the holder writes are "now": captured after the previous operation of
// the same goroutine ended and before the operation that carries them began (pure ordering within one goroutine,
// no latency involved; 1 ms of tolerance for clock granularity).
func checkTimestamps(evs []hEv, sc scenario) {
	tol := msNs
	var prevEnd int64
	var payloadNow int64
	for i, e := range evs {
		switch e.Kind {
		case "Mkdir":
			prevEnd = e.E
		case "ChtimesDir":
			if e.Val < prevEnd-tol || e.Val > e.B+tol {
				fail(sigHbTime, fmt.Sprintf("Chtimes(lock directory) wrote a modification time %.3f ms away from the instant of the call (%.3f ms after Mkdir returned)", float64(e.Val-e.B)/1e6, float64(e.Val-prevEnd)/1e6), sc)
				return
			}
			prevEnd = e.E
		case "Create":
			payloadNow = 0
		case "Write":
			payloadNow = parseNow0(e)
		case "ChtimesHb":
			var createB int64
			for j := i - 1; j >= 0 && j >= i-2; j-- {
				if evs[j].Kind == "Create" {
					createB = evs[j].B
				}
			}
			if e.Val < prevEnd-tol || (createB != 0 && e.Val > createB+tol) {
				fail(sigHbTime, fmt.Sprintf("heartbeat iteration wrote a modification time that is not its own `now`: %.3f ms relative to the end of the previous operation, %.3f ms relative to the start of its own file creation", float64(e.Val-prevEnd)/1e6, float64(e.Val-createB)/1e6), sc)
				return
			}
			if payloadNow != 0 && (payloadNow-e.Val > tol || e.Val-payloadNow > tol) {
				fail(sigHbTime, fmt.Sprintf("heartbeat payload time and modification time differ by %.3f ms", float64(payloadNow-e.Val)/1e6), sc)
				return
			}
			payloadNow = 0
			prevEnd = e.E
		}
	}
}

func parseNow0(e hEv) int64 { return e.Now }

func evTerm(w *world, at int64, obj string, val, init int64) string {
	return h.App("mkEv", h.Z(w.rel(at)), obj, h.Z(w.rel(val)), h.Z(w.rel(init)))
}

// relevant cuts a holder trace down to what a call made in [cB, cE] can depend on: the directory events, and the
// heartbeat events from the last one that had completely landed before the call began (every earlier one is
// superseded whatever the landing instants) up to those that began before the call ended.
func relevant(evs []hEv, cB, cE int64) []hEv {
	start := -1
	for i, e := range evs {
		if (e.Kind == "Create" || e.Kind == "Write" || e.Kind == "ChtimesHb") && e.E <= cB {
			start = i
		}
	}
	var out []hEv
	for i, e := range evs {
		if e.B > cE {
			break
		}
		if e.Kind == "Mkdir" || e.Kind == "ChtimesDir" || i >= start {
			out = append(out, e)
		}
	}
	return out
}

// early (freshest) and late (stalest) traces consistent with the record
func traceTerms(w *world, evs []hEv) (early, late string) {
	var e, l []string
	for _, x := range evs {
		switch x.Kind {
		case "Mkdir":
			e = append(e, evTerm(w, x.B, "ODir", x.E, x.B))
			l = append(l, evTerm(w, x.E, "ODir", x.B-coarseTol, x.B))
		case "ChtimesDir":
			e = append(e, evTerm(w, x.B, "ODir", x.Val, x.Val))
			l = append(l, evTerm(w, x.E, "ODir", x.Val, x.Val))
		case "Create":
			e = append(e, evTerm(w, x.B, "OHb", x.E, x.Now))
			// POSIX: creating an entry stamps the directory too (only ever makes the directory look fresher)
			e = append(e, evTerm(w, x.B, "ODir", x.E, x.Now))
			l = append(l, evTerm(w, x.E, "OHb", x.B-coarseTol, x.Now))
		case "Write":
			e = append(e, evTerm(w, x.B, "OHb", x.E, x.Now))
			l = append(l, evTerm(w, x.E, "OHb", x.B-coarseTol, x.Now))
		case "ChtimesHb":
			e = append(e, evTerm(w, x.B, "OHb", x.Val, x.Val))
			l = append(l, evTerm(w, x.E, "OHb", x.Val, x.Val))
		}
	}
	return h.List(e), h.List(l)
}

// shapeBroken: the holder's operations are not those of the holder machine.  That is a broken TIE (the model no
// longer mirrors the code), not a verdict on the property: a deliberately failing correspondence case is emitted
// and the behavioural oracles decide whether the property still holds.
var shapeOnce sync.Map

func shapeBroken(why string, sc scenario) {
	if _, dup := shapeOnce.LoadOrStore(why, true); dup {
		return
	}
	count("holder-operations-not-those-of-the-model")
	note("holder operations differ from the model's holder machine: " + why)
	addCase(h.App("CHolder", h.Z(periodNs), "0", "(mkAcq (-1) 0 0)", "[]", h.Nat(0), "[]", "[]", "None", "[]"),
		map[string]any{"kind": "holder-shape-broken", "why": why, "scenario": sc})
}

// holderCase: the recorded operations as a run of the holder machine with the measured latencies (landing = end
// of the operation) and the injected faults.  calls: the API calls made on the lock during the hold (the model says which of them end the loop) -- was
// cancelled.  ok=false when the record cannot be expressed (then the caller reports the broken tie).
// backend operation kinds as the model names them
func bopk(name string) string {
	switch name {
	case "OpenFile", "Create":
		return "BOpenFile"
	case "f.Write", "f.WriteAt", "f.WriteString":
		return "BWrite"
	case "f.Close":
		return "BClose"
	case "Chtimes":
		return "BChtimes"
	case "f.Sync":
		return "BSync"
	case "Stat", "Lstat", "f.Stat":
		return "BStat"
	}
	return "BOther"
}

// iterShapes: the distinct sequences of backend operation kinds that the holder's complete, fault-free heartbeat
// iterations issued on the heartbeat file, from the shim's own log (nil log: no claim).  An iteration runs from one
// OpenFile of the heartbeat file to the next; the last one (possibly cut) and those in which an operation other than
// the library's second Close failed, was dropped or was injected are left out.
func iterShapes(w *world, log []shim.Op) []string {
	var out []string
	seen := map[string]bool{}
	var cur []string
	open, clean := false, true
	flush := func() {
		if open && clean && len(cur) > 0 {
			t := h.List(cur)
			if !seen[t] {
				seen[t] = true
				out = append(out, t)
			}
		}
	}
	acquired := false
	for _, o := range log {
		if o.Path == w.lockP {
			// after the acquire path (Mkdir, Chtimes) the holder's goroutines never touch the directory itself:
			// anything on it is Unlock / a re-acquisition through the same object — the hold is over
			if acquired && o.Name != "Chtimes" && o.Name != "Mkdir" {
				break
			}
			if o.Name == "Chtimes" || (o.Name == "Mkdir" && o.Err == nil) {
				acquired = true
			}
			continue
		}
		if o.Path != w.hbP {
			continue
		}
		if o.Name == "OpenFile" || o.Name == "Create" {
			flush()
			cur, open, clean = nil, true, true
		}
		if !open {
			continue
		}
		if o.Err != nil && o.Name != "f.Close" {
			clean = false
		}
		cur = append(cur, bopk(o.Name))
	}
	return out // the last iteration is never flushed
}

type apiCall struct {
	Kind string // Coq constructor: KCancelOwn | KUnlock | KTryLock | KLockDeadline | KLockWithTimeout | KIsStale | KReleaseIfStale
	Same bool   // made on the holder's own lock object
	At   int64
	Res  string
}

type hIter struct {
	now, openB, openE, writeE, chE int64
	fault                          string // "", open, write, chtimes
	created, written, stamped      bool
}

func holderCase(w *world, ops []recOp, shlog []shim.Op, calls []apiCall, aliveUntil int64) (term string, maxGap int64, minStep int64, iters int, ok bool) {
	var t0 int64
	haveMk := false
	var chDir *recOp
	var its []*hIter
	var cur *hIter
	exists := false
	stage := 0
	no := func() (string, int64, int64, int, bool) { return "", 0, 0, 0, false }
loop:
	for idx := range ops {
		o := ops[idx]
		if o.Err && !o.Injected {
			switch {
			case o.Name == "Chtimes" && o.Path == w.hbP && cur != nil && cur.fault == "open" && !exists && cur.chE == 0:
				cur.chE = o.E // Chtimes of a file that never existed
				if o.T != 0 {
					cur.now = o.T
				}
			case (o.Name == "OpenFile" || o.Name == "f.Write" || o.Name == "Chtimes") && haveMk:
				break loop // the lock was removed under the holder
			}
			continue
		}
		switch {
		case o.Name == "Mkdir" && o.Path == w.lockP:
			if haveMk {
				break loop
			}
			haveMk, t0, stage = true, o.E, 1
		case o.Name == "Chtimes" && o.Path == w.lockP:
			if stage != 1 {
				return no()
			}
			c := o
			chDir, stage = &c, 2
		case o.Name == "OpenFile" && o.Path == w.hbP:
			if stage != 2 || (cur != nil && cur.chE == 0) {
				return no()
			}
			cur = &hIter{openB: o.B, openE: o.E}
			if o.Injected {
				cur.fault = "open"
			} else {
				if o.Flag&os.O_CREATE == 0 || o.Flag&os.O_TRUNC == 0 {
					return no()
				}
				cur.created, exists = true, true
			}
			its = append(its, cur)
		case o.Name == "f.Write" && o.Path == w.hbP:
			if cur == nil || cur.writeE != 0 || cur.fault != "" || cur.chE != 0 {
				return no()
			}
			cur.writeE = o.E
			if n := parseNow(o.Data); n != 0 {
				cur.now = n
			}
			if o.Injected {
				cur.fault = "write"
			} else {
				cur.written = true
			}
		case o.Name == "Chtimes" && o.Path == w.hbP:
			if cur == nil || cur.chE != 0 || (cur.fault == "" && cur.writeE == 0) {
				return no()
			}
			cur.chE = o.E
			if o.Injected {
				if cur.fault != "" {
					return no()
				}
				cur.fault = "chtimes"
			} else {
				cur.stamped = true
				cur.now = o.T
			}
		case o.Name == "Remove" || o.Name == "RemoveAll":
			break loop
		}
	}
	if !haveMk {
		return no()
	}
	obs := []string{evTerm(w, t0, "ODir", t0, t0)}
	k := 1
	aNow, aCh, aSpawn := int64(0), int64(0), int64(0)
	prevEnd := t0
	if chDir != nil {
		aNow, aCh = chDir.T-t0, chDir.E-chDir.T
		obs = append(obs, evTerm(w, chDir.E, "ODir", chDir.T, chDir.T))
		k++
		prevEnd = chDir.E
	}
	var cycs []string
	var prevNow int64
	minStep = 1 << 62
	for i, it := range its {
		last := i == len(its)-1
		s := it.now
		if s == 0 {
			s = it.openB // unknown (the iteration died before writing it anywhere): the latest it can have been
		}
		cOpen, cWrite, cCh := it.openE-s, int64(0), int64(0)
		end := it.openE
		f := "FNone"
		switch it.fault {
		case "":
			if it.writeE != 0 {
				cWrite, end = it.writeE-it.openE, it.writeE
				if it.chE != 0 {
					cCh, end = it.chE-it.writeE, it.chE
				}
			}
			if it.chE == 0 && !last {
				return no()
			}
		case "open":
			f = "FOpen"
			if it.chE != 0 {
				cCh, end = it.chE-it.openE, it.chE
			}
		case "write":
			f = "FWrite"
			cWrite, end = it.writeE-it.openE, it.writeE
			if it.chE != 0 {
				cCh, end = it.chE-it.writeE, it.chE
			}
		case "chtimes":
			f = "FChtimes"
			cWrite, cCh, end = it.writeE-it.openE, it.chE-it.writeE, it.chE
		}
		if it.created {
			obs = append(obs, evTerm(w, it.openE, "OHb", it.openE, s))
			k++
		}
		if it.written {
			obs = append(obs, evTerm(w, it.writeE, "OHb", it.writeE, s))
			k++
		}
		if it.stamped {
			obs = append(obs, evTerm(w, it.chE, "OHb", s, s))
			k++
		}
		if i == 0 {
			aSpawn = s - prevEnd
		} else {
			sl := s - prevEnd - (periodNs - msNs)
			cycs[len(cycs)-1] = strings.Replace(cycs[len(cycs)-1], "@SLEEP@", h.Z(sl), 1)
			if s-prevNow < minStep {
				minStep = s - prevNow
			}
			if s-prevNow > maxGap {
				maxGap = s - prevNow
			}
		}
		cycs = append(cycs, h.App("mkCyc", h.Z(cOpen), h.Z(cWrite), h.Z(cCh), "@SLEEP@", f))
		prevEnd, prevNow = end, s
		iters++
	}
	if len(cycs) > 0 {
		cycs[len(cycs)-1] = strings.Replace(cycs[len(cycs)-1], "@SLEEP@", "0", 1)
	}
	cts := make([]string, len(calls))
	for i, c := range calls {
		cts[i] = h.App("mkApi", c.Kind, h.Bool(c.Same), h.Z(w.rel(c.At)))
	}
	cancel := h.List(cts)
	alive := "None"
	if aliveUntil != 0 {
		alive = "(Some " + h.Z(w.rel(aliveUntil)) + ")"
	}
	term = h.App("CHolder", h.Z(periodNs), h.Z(w.rel(t0)),
		h.App("mkAcq", h.Z(aNow), h.Z(aCh), h.Z(aSpawn)), h.List(cycs), h.Nat(k), h.List(obs), cancel, alive, h.List(iterShapes(w, shlog)))
	return term, maxGap, minStep, iters, true
}

// ------------------------------------------------------------------------------------------------
// 0. D30

func runD30(report bool) bool {
	w := newWorld(root, false, nextName("d30-"))
	H := w.holder()
	O := w.actor(false)
	ctx, cancel := context.WithCancel(context.Background())
	defer cancel()
	if err := H.lock.TryLock(ctx); err != nil {
		fail(sigOpOutcome, "TryLock on a free lock failed: "+err.Error(), scenario{Kind: "d30"})
		return false
	}
	defer func() { _ = H.lock.Unlock(context.Background()) }()
	// wait for the first complete heartbeat
	deadline := time.Now().Add(3 * time.Second)
	var lastNow int64
	for time.Now().Before(deadline) {
		evs, _, _ := holderEvents(w, H.rec.all())
		for _, e := range evs {
			if (e.Kind == "ChtimesHb" || e.Kind == "Write") && e.Now != 0 {
				lastNow = e.Now
			}
		}
		if lastNow != 0 {
			time.Sleep(2 * time.Millisecond) // let the iteration finish (Close, Chtimes)
			break
		}
		time.Sleep(time.Millisecond)
	}
	if lastNow == 0 {
		fail(sigHbSlow, "no heartbeat written within 3 s of acquiring the lock", scenario{Kind: "d30"})
		return false
	}
	// stall every backend call of the holder (an I/O stall): the holder stays alive, its context is not cancelled
	gate := make(chan struct{})
	var blocked int32
	H.sh.SetHook(func(op *shim.Op) error {
		atomic.AddInt32(&blocked, 1)
		<-gate
		return nil
	})
	stallStart := now()
	sawStale := false
	var c call
	for now()-stallStart < int64(3*time.Second) {
		c = O.do("IsStale")
		if c.Stale {
			sawStale = true
			break
		}
		time.Sleep(2 * time.Millisecond)
	}
	// latest completed heartbeat before the call
	evs, _, _ := holderEvents(w, H.rec.all())
	for _, e := range evs {
		if (e.Kind == "ChtimesHb" || e.Kind == "Write") && e.Now != 0 && e.E <= c.B {
			lastNow = e.Now
		}
	}
	gap := c.E - lastNow
	alive := ctx.Err() == nil
	stalled := atomic.LoadInt32(&blocked) > 0
	H.sh.SetHook(nil)
	close(gate)
	eval()
	count("d30-replay")
	if sawStale && alive && !stalled && gap > 2*periodNs {
		// stale before the heartbeat writer even reached the stalled file system: either it woke up > 1 period late
		// (latency) or it does not try every period (logic) — the cadence check decides
		count("d30-replay:stale-before-the-writer-was-stalled")
		cadenceCheck(scenario{Kind: "d30"})
		return false
	}
	if sawStale && alive && gap > 2*periodNs {
		if report {
			fail(sigD30, fmt.Sprintf("holder alive (context not cancelled, heartbeat goroutine blocked in a stalled backend call), last heartbeat initiated %.1f ms before the observer's IsStale returned true", float64(gap)/1e6),
				scenario{Kind: "d30"})
		}
		// once the stall ends the heartbeat resumes and the lock must be live again
		time.Sleep(2*period + 20*time.Millisecond)
		checkLiveNow(w, H, O, "after-stall")
		return true
	}
	if sawStale && gap <= 2*periodNs-coarseTol {
		fail(sigFreshStale, fmt.Sprintf("IsStale=true although the last completed heartbeat was initiated only %.1f ms before", float64(gap)/1e6), scenario{Kind: "d30"})
	}
	if !sawStale {
		note("D30 replay: IsStale never turned true during a 3 s stall of the heartbeat writer")
	}
	return false
}

// cadenceCheck: "the heartbeat is refreshed every period".  A quiet hold of 10 periods on the in-memory back end;
// passes as soon as ONE step between two consecutive heartbeat initiations is at most 1.5 periods (latency can only
// lengthen steps, so the shortest step is the robust statistic); three tries.
func cadenceCheck(sc scenario) bool {
	var best int64 = 1 << 62
	for try := 0; try < 3; try++ {
		w := newWorld(root, true, nextName("cad-"))
		H := w.holder()
		if err := H.lock.TryLock(context.Background()); err != nil {
			fail(sigOpOutcome, "TryLock on a free lock failed: "+err.Error(), sc)
			return false
		}
		time.Sleep(10*period + period/2)
		_ = H.lock.Unlock(context.Background())
		evs, _, _ := holderEvents(w, H.rec.all())
		checkTimestamps(evs, sc)
		fillNow(evs)
		var prev int64
		n := 0
		for _, e := range evs {
			if e.Kind == "Create" {
				if prev != 0 && e.Now-prev < best {
					best = e.Now - prev
				}
				prev = e.Now
				n++
			}
		}
		eval()
		count("cadence-check")
		if n >= 2 && best <= periodNs+periodNs/2 {
			return true
		}
	}
	what := fmt.Sprintf("in three quiet holds of 10 periods the SHORTEST step between two heartbeat initiations was %.1f ms (period %d ms, stale above %d ms): the heartbeat is not refreshed every period, so a live lock is reported stale without any delay of the writer",
		float64(best)/1e6, period.Milliseconds(), 2*period.Milliseconds())
	if best == 1<<62 {
		what = "in three quiet holds of 10 periods the holder wrote fewer than two heartbeats"
	}
	fail(sigHbSlow, what, scenario{Kind: "cadence"})
	return false
}

// checkLiveNow: a single IsStale on a live lock whose holder runs unhindered; a "stale" answer is judged by the
// last completed heartbeat (logic error vs latency).
func checkLiveNow(w *world, H, O *actor, tag string) {
	for try := 0; try < 3; try++ {
		c := O.do("IsStale")
		eval()
		if !c.Stale {
			return
		}
		if judgeStale(w, H, c, scenario{Kind: "d30"}) {
			return
		}
		time.Sleep(period)
	}
}

// judgeStale classifies a "stale" answer given while the holder was alive. Returns true when it was a logic error
// (reported), false when the observed gap explains it (D30 / latency, counted).
func judgeStale(w *world, H *actor, c call, sc scenario) bool {
	evs, _, _ := holderEvents(w, H.rec.all())
	var lastNow, lastE int64
	for _, e := range evs {
		if (e.Kind == "ChtimesHb" || e.Kind == "ChtimesDir" || e.Kind == "Write") && e.Now != 0 && e.E <= c.B {
			lastNow, lastE = e.Now, e.E
		}
	}
	if lastNow != 0 && c.E-lastNow <= 2*periodNs-coarseTol {
		fail(sigFreshStale, fmt.Sprintf("%s reported the lock stale although a sign of life that had completely landed %.1f ms before the call began was initiated only %.1f ms before the call ended (2*period = %d ms)",
			c.Op, float64(c.B-lastE)/1e6, float64(c.E-lastNow)/1e6, 2*period.Milliseconds()), sc)
		return true
	}
	count("live-stale-by-latency(D30)")
	return false
}

// ------------------------------------------------------------------------------------------------
// 1. planted states

func outcomeTerm(op string, c call, dirAfter bool) (string, bool) {
	switch op {
	case "IsStale":
		return h.App("OStale", h.Bool(c.Stale)), true
	case "Release":
		if c.Err != "" {
			return "", false
		}
		for _, o := range c.Ops {
			if (o.Name == "Remove" || o.Name == "RemoveAll") && !o.Err {
				return "OReleased", true
			}
		}
		return "ONoop", true
	default:
		switch c.Err {
		case "":
			return "OAcquired", true
		case "locked":
			return "OLocked", true
		case "stale":
			return "OStaleLock", true
		}
		return "", false
	}
}

func opTerm(op string) string {
	switch op {
	case "IsStale":
		return "OpIsStale"
	case "Release":
		return "OpRelease"
	case "TryLock":
		return "(OpTryLock false)"
	default:
		return "(OpTryLock true)"
	}
}

// runPlanted: returns definite=false when the evaluation interval straddled the boundary (caller may retry).
func runPlanted(sc scenario, emit bool) (definite bool) {
	w := newWorld(root, sc.Mem, nextName("pl-"))
	A := w.actor(sc.Op == "TryLockOverride")
	T := now()
	nFiles := len(sc.FileAges)
	if !sc.NoLock {
		_ = w.base.Mkdir(w.lockP, 0o755)
		for i, a := range sc.FileAges {
			p := filepath.Join(w.lockP, fmt.Sprintf("hb%d.lock", i))
			if i == 0 {
				p = w.hbP
			}
			_ = afero.WriteFile(w.base, p, []byte("alive @ planted"), 0o644)
			if !sc.Fab {
				mt := time.Unix(0, T-a)
				_ = w.base.Chtimes(p, time.Unix(0, T), mt) // fresh access time, planted modification time
			}
		}
		if !sc.Fab {
			_ = w.base.Chtimes(w.lockP, time.Unix(0, T), time.Unix(0, T-sc.DirAge))
		}
	}
	fabSeen := map[string]int64{}
	var fabFirst int64
	var fabMu sync.Mutex
	if sc.Fab {
		// fabricated clock: every Stat sees "now - age"
		A.sh.ModTimeOverride = func(path string, real time.Time) (out time.Time) {
			t := time.Now()
			defer func() {
				fabMu.Lock()
				fabSeen[path] = out.UnixNano()
				if fabFirst == 0 {
					fabFirst = t.UnixNano()
				}
				fabMu.Unlock()
			}()
			if path == w.lockP {
				return t.Add(-time.Duration(sc.DirAge))
			}
			for i := range sc.FileAges {
				p := filepath.Join(w.lockP, fmt.Sprintf("hb%d.lock", i))
				if i == 0 {
					p = w.hbP
				}
				if path == p {
					return t.Add(-time.Duration(sc.FileAges[i]))
				}
			}
			return real
		}
	}
	c := A.do(sc.Op)
	dirAfter := w.dirExists()
	if (sc.Op == "TryLock" || sc.Op == "TryLockOverride") && c.Err == "" {
		_ = A.lock.Unlock(context.Background())
	}
	eval()
	be := "os"
	if sc.Mem {
		be = "mem"
	}
	count("planted:" + sc.Op + ":" + be)

	// the property read directly: newest planted sign of life
	noLock := sc.NoLock
	newest := sc.DirAge
	if nFiles > 0 {
		newest = sc.FileAges[0]
		for _, a := range sc.FileAges {
			if a < newest {
				newest = a
			}
		}
	}
	var lo, hi int64 // elapsed since planting at the evaluation
	if sc.Fab {
		// ages are relative to each Stat: elapsed between the Stat and time.Since
		lo, hi = 0, c.E-c.B
	} else {
		lo, hi = c.B-T, c.E-T
	}
	staleLo := !noLock && (newest+lo)/msNs > 2*(periodNs/msNs)
	staleHi := !noLock && (newest+hi)/msNs > 2*(periodNs/msNs)
	definite = staleLo == staleHi
	if !definite {
		count("planted:indefinite(boundary straddled)")
		return false
	}
	exp := staleLo
	bad := ""
	switch sc.Op {
	case "IsStale":
		if c.Stale && !exp {
			bad = sigFreshStale
		} else if !c.Stale && exp {
			bad = sigSilent
		}
	case "Release":
		if c.Err != "" {
			bad = sigOpOutcome
		} else if !exp && !noLock && !dirAfter {
			bad = sigReleased
		} else if exp && dirAfter {
			bad = sigNoRecover
		}
	case "TryLock":
		switch {
		case noLock && c.Err != "":
			bad = sigNoRecover
		case !noLock && !exp && c.Err != "locked":
			bad = sigReleased
		case !noLock && exp && c.Err != "stale":
			bad = sigOpOutcome
		}
	case "TryLockOverride":
		switch {
		case noLock && c.Err != "":
			bad = sigNoRecover
		case !noLock && !exp && c.Err != "locked":
			bad = sigReleased
		case !noLock && exp && c.Err != "":
			bad = sigNoRecover
		}
	}
	if bad != "" {
		fail(bad, fmt.Sprintf("planted lock (backend %s, dir age %.3f ms, file ages %v ns, newest sign of life %.3f..%.3f ms old at the call): %s -> stale=%v err=%q lock directory afterwards=%v",
			be, float64(sc.DirAge)/1e6, sc.FileAges, float64(newest+lo)/1e6, float64(newest+hi)/1e6, sc.Op, c.Stale, c.Err, dirAfter), sc)
	}
	if emit {
		key := fmt.Sprintf("planted|%s|%s|%d|%v|%d", sc.Op, be, len(sc.FileAges), exp, (newest+lo)/msNs)
		if !noLock {
			distinct(key)
		}
		if sc.Fab {
			if v, ok := extractView(w, c.Ops); ok && sc.Op == "IsStale" {
				// the observer saw the fabricated times, not the ones rec read underneath the shim
				names := []string{}
				for _, o := range c.Ops {
					if o.Name == "f.Readdirnames" && o.N < 0 {
						names = o.Names
					}
				}
				for i := range v.Stats {
					if i < len(names) {
						v.Stats[i] = fabSeen[filepath.Join(w.lockP, names[i])]
					}
				}
				if v.DirOK {
					v.Dir = fabSeen[w.lockP]
				}
				if fabFirst != 0 {
					v.Lo = fabFirst
				}
				addCase(h.App("CView", h.Z(periodNs), w.viewTerm(v), h.Z(w.rel(v.Lo)), h.Z(w.rel(c.E)), h.Bool(c.Stale)),
					map[string]any{"kind": "view-fabricated", "scenario": sc, "stale": c.Stale})
			}
		} else {
			ot, ok := outcomeTerm(sc.Op, c, dirAfter)
			if !ok {
				fail(sigOpOutcome, fmt.Sprintf("%s on a planted lock returned an unexpected error: %s", sc.Op, c.Err), sc)
				return true
			}
			dir := "None"
			if !noLock {
				dir = "(Some " + h.Z(w.rel(T-sc.DirAge)) + ")"
			}
			fs := make([]string, nFiles)
			for i, a := range sc.FileAges {
				fs[i] = h.Z(w.rel(T - a))
			}
			addCase(h.App("COp", h.Z(periodNs), opTerm(sc.Op), h.App("mkLock", dir, h.List(fs)),
				h.Z(w.rel(c.B)), h.Z(w.rel(c.E)), ot, h.Bool(dirAfter)),
				map[string]any{"kind": "op-planted", "scenario": sc, "stale": c.Stale, "err": c.Err, "dir_after": dirAfter})
			if sc.Op == "IsStale" {
				if v, ok := extractView(w, c.Ops); ok {
					addCase(h.App("CView", h.Z(periodNs), w.viewTerm(v), h.Z(w.rel(v.Lo)), h.Z(w.rel(c.E)), h.Bool(c.Stale)),
						map[string]any{"kind": "view-planted", "scenario": sc, "stale": c.Stale})
				}
			}
		}
	}
	return true
}

// runFault: IsStale on a planted lock that would be stale, with one of its reads failing (injected by the shim
// hook): an unreadable sign of life must never be taken for a missing one.
func runFault(kind string, mem bool) {
	sc := scenario{Kind: "fault", Op: kind, Mem: mem}
	w := newWorld(root, mem, nextName("fault-"))
	A := w.actor(false)
	T := now()
	old := time.Unix(0, T-int64(500*time.Millisecond))
	_ = w.base.Mkdir(w.lockP, 0o755)
	f2 := filepath.Join(w.lockP, "second.lock")
	if kind != "dirstat" {
		_ = afero.WriteFile(w.base, w.hbP, []byte("x"), 0o644)
		_ = afero.WriteFile(w.base, f2, []byte("x"), 0o644)
		_ = w.base.Chtimes(w.hbP, old, old)
		_ = w.base.Chtimes(f2, old, old)
	}
	_ = w.base.Chtimes(w.lockP, old, old)
	listings := 0
	injected := errors.New("harness: injected I/O error")
	A.sh.SetHook(func(op *shim.Op) error {
		switch {
		case op.Name == "f.Readdirnames" && op.Path == w.lockP:
			listings++
			if kind == "ls" && listings == 2 {
				return injected
			}
		case op.Name == "Stat" && listings >= 2:
			if (kind == "dirstat" && op.Path == w.lockP) || (kind == "filestat" && op.Path == f2) {
				return injected
			}
		}
		return nil
	})
	c := A.do("IsStale")
	eval()
	count("fault:" + kind)
	distinct("fault|" + kind + fmt.Sprint(mem))
	if c.Stale {
		fail(sigUnreadable, fmt.Sprintf("IsStale=true although a read of the lock's sign of life failed (%s): an unreadable sign of life was taken for a missing one", kind), sc)
	}
	o := h.Z(w.rel(T - int64(500*time.Millisecond)))
	var v string
	switch kind {
	case "ls":
		v = "(mkView None None)"
	case "dirstat":
		v = "(mkView (Some []) None)"
	default:
		// the listing order decides which entry failed; both orders give the same answer, the model is given the real one
		names := []string{}
		for _, x := range c.Ops {
			if x.Name == "f.Readdirnames" && x.N < 0 {
				names = x.Names
			}
		}
		ts := []string{}
		for _, nm := range names {
			if filepath.Join(w.lockP, nm) == f2 {
				ts = append(ts, "None")
			} else {
				ts = append(ts, "(Some "+o+")")
			}
		}
		v = "(mkView (Some " + h.List(ts) + ") (Some " + o + "))"
	}
	addCase(h.App("CView", h.Z(periodNs), v, h.Z(w.rel(c.B)), h.Z(w.rel(c.E)), h.Bool(c.Stale)),
		map[string]any{"kind": "view-fault", "scenario": sc, "stale": c.Stale})
}

func plantedSweep() {
	for _, mem := range []bool{true, false} {
		for _, k := range []string{"ls", "dirstat", "filestat"} {
			runFault(k, mem)
		}
	}
	ops := []string{"IsStale", "Release", "TryLock", "TryLockOverride"}
	msv := func(x float64) int64 { return int64(x * 1e6) }
	// ages (ms) with a margin to the boundary that survives a slow call, plus the boundary itself (retried)
	ages := []float64{0, 1, 49, 50, 51, 90, 97, 104, 110, 149, 150, 151, 200, 1000, 3600000, -10}
	for _, mem := range []bool{true, false} {
		for _, op := range ops {
			runPlanted(scenario{Kind: "planted", Mem: mem, Op: op, NoLock: true}, true) // no lock at all
			for _, a := range ages {
				runPlanted(scenario{Kind: "planted", Mem: mem, Op: op, DirAge: msv(a)}, true)                               // directory only
				runPlanted(scenario{Kind: "planted", Mem: mem, Op: op, DirAge: msv(5000), FileAges: []int64{msv(a)}}, true) // old directory, heartbeat file
				runPlanted(scenario{Kind: "planted", Mem: mem, Op: op, DirAge: 0, FileAges: []int64{msv(a)}}, true)         // fresh directory, heartbeat file
			}
			// several files: all must be stale
			for _, fa := range [][]float64{{150, 10}, {10, 150}, {150, 160}, {300, 97, 300}, {120, 110, 130}, {0, 0}} {
				var x []int64
				for _, a := range fa {
					x = append(x, msv(a))
				}
				runPlanted(scenario{Kind: "planted", Mem: mem, Op: op, DirAge: msv(400), FileAges: x}, true)
			}
		}
	}
	// the exact boundary of the millisecond arithmetic, fabricated clock (in-memory back end): 100.0 ms is not
	// stale, 101.0 ms is; 100.x ms is not as long as the call itself takes less than (1-x) ms
	for _, a := range []float64{99.0, 100.0, 100.2, 100.5, 101.0, 101.5, 102.0, 0, 50.0, 150.0, -5} {
		for _, shape := range []int{0, 1, 2} {
			sc := scenario{Kind: "planted", Mem: true, Op: "IsStale", Fab: true}
			switch shape {
			case 0:
				sc.DirAge = msv(a)
			case 1:
				sc.DirAge, sc.FileAges = msv(1000), []int64{msv(a)}
			default:
				sc.DirAge, sc.FileAges = msv(1000), []int64{msv(500), msv(a), msv(250)}
			}
			for try := 0; try < 25; try++ {
				if runPlanted(sc, true) {
					break
				}
			}
		}
	}
	// real clock at the boundary on both back ends (retried until definite)
	for _, mem := range []bool{true, false} {
		for _, a := range []float64{99.5, 100.1, 101.05} {
			for _, op := range ops {
				sc := scenario{Kind: "planted", Mem: mem, Op: op, DirAge: msv(700), FileAges: []int64{msv(a)}}
				for try := 0; try < 25; try++ {
					// re-plant with an age that puts the call just before / after the boundary
					if runPlanted(sc, true) {
						break
					}
				}
			}
		}
	}
	// seeded random planted states
	n := r.N(120, 1500)
	for i := 0; i < n; i++ {
		sc := scenario{Kind: "planted", Mem: r.Rng.Intn(2) == 0, Op: ops[r.Rng.Intn(4)]}
		ra := func() int64 {
			switch r.Rng.Intn(4) {
			case 0:
				return msv(float64(r.Rng.Intn(97)))
			case 1:
				return msv(104 + float64(r.Rng.Intn(200)))
			case 2:
				return msv(float64(r.Rng.Intn(97))) + int64(r.Rng.Intn(1000000))
			default:
				return msv(104+float64(r.Rng.Intn(2000))) + int64(r.Rng.Intn(1000000))
			}
		}
		sc.DirAge = ra()
		for k := r.Rng.Intn(4); k > 0; k-- {
			sc.FileAges = append(sc.FileAges, ra())
		}
		runPlanted(sc, true)
	}
}

// ------------------------------------------------------------------------------------------------
// 2. death points

// killAfter installs a hook on the holder that lets exactly k mutating operations through and silently drops
// everything afterwards (a crashed client). Returns a function giving the instant of death (0 while alive).
func killAfter(H *actor, k int) (deadAt func() int64, kill func()) {
	var n int32
	var dead int64
	H.sh.SetHook(func(op *shim.Op) error {
		if atomic.LoadInt64(&dead) != 0 {
			return shim.ErrDrop
		}
		mut := op.Name == "Mkdir" || op.Name == "Chtimes" || op.Name == "f.Write" || (op.Name == "OpenFile" && op.Flag&os.O_CREATE != 0)
		if mut {
			if int(atomic.AddInt32(&n, 1)) > k {
				atomic.CompareAndSwapInt64(&dead, 0, now())
				return shim.ErrDrop
			}
		}
		return nil
	})
	return func() int64 { return atomic.LoadInt64(&dead) }, func() { atomic.CompareAndSwapInt64(&dead, 0, now()) }
}

func lastLanded(w *world, H *actor) (lastE int64, evs []hEv) {
	evs, _, _ = holderEvents(w, H.rec.all())
	for _, e := range evs {
		if e.E > lastE {
			lastE = e.E
		}
	}
	return
}

// afterDeath: polls IsStale from an independent observer until the lock is reported stale, checks the bound, then
// ReleaseIfStale + TryLock must succeed.
func afterDeath(w *world, H *actor, sc scenario, emit bool) {
	O := w.actor(false)
	td, evs := lastLanded(w, H)
	if td == 0 {
		fail(sigOpOutcome, "the holder never created the lock directory", sc)
		return
	}
	fillNow(evs)
	early, late := traceTerms(w, relevant(evs, td, 1<<62))
	bound := td + 2*periodNs + msNs
	var newestInit int64
	for _, e := range evs {
		if e.Now > newestInit {
			newestInit = e.Now
		}
		if e.Kind == "Mkdir" && e.B > newestInit {
			newestInit = e.B
		}
	}
	stale := false
	polls := 0
	for now() < bound+int64(2*time.Second) {
		c := O.do("IsStale")
		polls++
		eval()
		if emit && (polls <= 3 || c.Stale || c.B >= bound-5*msNs) {
			if v, ok := extractView(w, c.Ops); ok {
				addCase(h.App("CView", h.Z(periodNs), w.viewTerm(v), h.Z(w.rel(v.Lo)), h.Z(w.rel(c.E)), h.Bool(c.Stale)),
					map[string]any{"kind": "view-dead", "scenario": sc, "stale": c.Stale})
				addCase(h.App("CTrace", h.Z(periodNs), early, late, h.Z(w.rel(c.B)), h.Z(w.rel(v.Lo)), h.Z(w.rel(c.B)), h.Z(w.rel(c.E)), h.Z(w.rel(v.Lo)), h.Z(w.rel(c.E)), h.Bool(c.Stale)),
					map[string]any{"kind": "trace-dead", "scenario": sc, "stale": c.Stale, "since_death_ms": float64(c.B-td) / 1e6})
			}
		}
		if c.Stale {
			stale = true
			// first sentence: every landed sign of life was initiated more than two periods before
			if c.E-newestInit <= 2*periodNs-coarseTol {
				fail(sigFreshStale, fmt.Sprintf("dead holder (death after operation %d): IsStale=true %.1f ms after the newest sign of life was initiated", sc.K, float64(c.E-newestInit)/1e6), sc)
			}
			break
		}
		if c.B >= bound {
			fail(sigSilent, fmt.Sprintf("holder died after its operation %d (%s); an IsStale call that began %.1f ms after the holder's last operation landed still answered false (bound: 2*period+1ms = %d ms)",
				sc.K, evs[len(evs)-1].Kind, float64(c.B-td)/1e6, 2*period.Milliseconds()+1), sc)
			return
		}
		time.Sleep(3 * time.Millisecond)
	}
	if !stale {
		fail(sigSilent, "dead lock never reported stale", sc)
		return
	}
	count(fmt.Sprintf("death-after:%s", evs[len(evs)-1].Kind))
	distinct(fmt.Sprintf("death|%s|%d", evs[len(evs)-1].Kind, len(evs)))
	// recovery: non-overriding TryLock reports the stale lock, ReleaseIfStale removes it, TryLock then succeeds
	N := w.actor(false)
	c1 := N.do("TryLock")
	if c1.Err != "stale" {
		fail(sigNoRecover, fmt.Sprintf("TryLock (no override) on a dead holder's stale lock returned %q instead of ErrStaleLock", c1.Err), sc)
		if c1.Err == "" {
			_ = N.lock.Unlock(context.Background())
		}
		return
	}
	c2 := N.do("Release")
	if c2.Err != "" || w.dirExists() {
		fail(sigNoRecover, fmt.Sprintf("ReleaseIfStale on a dead holder's stale lock: err=%q, lock directory still there=%v", c2.Err, w.dirExists()), sc)
		return
	}
	c3 := N.do("TryLock")
	if c3.Err != "" {
		fail(sigNoRecover, fmt.Sprintf("TryLock after ReleaseIfStale of a dead holder's lock failed: %s", c3.Err), sc)
		return
	}
	// the new holder's lock is live
	c4 := O.do("IsStale")
	if c4.Stale {
		judgeStale(w, N, c4, sc)
	}
	_ = N.lock.Unlock(context.Background())
	eval()
}

func runDeath(sc scenario, emit bool) {
	w := newWorld(root, false, nextName("death-"))
	H := w.holder()
	deadAt, _ := killAfter(H, sc.K)
	ctx, cancel := context.WithCancel(context.Background())
	defer cancel()
	if err := H.lock.TryLock(ctx); err != nil {
		fail(sigOpOutcome, "TryLock on a free lock failed: "+err.Error(), sc)
		return
	}
	// wait for the death (k operations done and one more attempted)
	deadline := time.Now().Add(time.Duration(sc.K/3+4) * 4 * period)
	for deadAt() == 0 && time.Now().Before(deadline) {
		time.Sleep(time.Millisecond)
	}
	if deadAt() == 0 {
		fail(sigHbSlow, fmt.Sprintf("the holder made fewer than %d file-system operations in %d periods", sc.K+1, (sc.K/3+4)*4), sc)
		return
	}
	// the holder's recorded operations are those of the machine
	evs, ok, why := holderEvents(w, H.rec.all())
	if !ok {
		shapeBroken(why, sc)
	}
	checkTimestamps(evs, sc)
	fillNow(evs)
	if emit {
		if term, _, _, _, ok := holderCase(w, H.rec.all(), H.sh.Log(), nil, 0); ok {
			addCase(term, map[string]any{"kind": "holder-dead", "scenario": sc})
		} else {
			shapeBroken("holder operations cannot be expressed as a run of the holder machine", sc)
		}
	}
	afterDeath(w, H, sc, emit)
	cancel()
}

// ------------------------------------------------------------------------------------------------
// 2b. transient faults of the heartbeat writer: the writer must go on

func errnoOf(name string) error {
	switch name {
	case "ENOSPC":
		return syscall.ENOSPC
	case "EMFILE":
		return syscall.EMFILE
	}
	return syscall.EIO
}

// oneFaultHold: the holder acquires; from heartbeat iteration sc.At on, sc.NFaults consecutive operations of kind
// sc.FaultKind fail (the shim hook returns the error, the back end is not touched); then nothing fails any more.
// The holder stays alive, its context live.  Returns stopped=true when NO heartbeat operation at all was attempted
// during the 12 periods after the last fault while a reference goroutine sleeping period-1ms in the same process
// completed at least 5 rounds (so the silence is not latency); conclusive=false when the run could not decide.
func oneFaultHold(sc scenario, emit bool) (stopped, conclusive bool, what string) {
	w := newWorld(root, sc.Mem, nextName("fh-"))
	H := w.holder()
	O := w.actor(false)
	var iter, injected, opsAfter int32
	var lastFault int64
	inj := func(op *shim.Op) error {
		t := now()
		atomic.AddInt32(&injected, 1)
		atomic.StoreInt64(&lastFault, t)
		atomic.StoreInt32(&opsAfter, 0)
		H.rec.add(recOp{Name: op.Name, Path: op.Path, B: t, E: t, Err: true, Injected: true, Flag: op.Flag})
		return &os.PathError{Op: strings.ToLower(strings.TrimPrefix(op.Name, "f.")), Path: op.Path, Err: errnoOf(sc.Errno)}
	}
	H.sh.SetHook(func(op *shim.Op) error {
		if op.Path != w.hbP {
			return nil
		}
		if op.Name == "OpenFile" {
			atomic.AddInt32(&iter, 1)
		}
		atomic.AddInt32(&opsAfter, 1)
		it := int(atomic.LoadInt32(&iter)) - 1 // 0-based index of the current iteration
		if it >= sc.At && it < sc.At+sc.NFaults {
			switch {
			case sc.FaultKind == "open" && op.Name == "OpenFile",
				sc.FaultKind == "write" && op.Name == "f.Write",
				sc.FaultKind == "chtimes" && op.Name == "Chtimes":
				return inj(op)
			}
		}
		return nil
	})
	ctx, cancel := context.WithCancel(context.Background())
	defer cancel()
	if err := H.lock.TryLock(ctx); err != nil {
		fail(sigOpOutcome, "TryLock on a free lock failed: "+err.Error(), sc)
		return false, false, ""
	}
	defer func() { _ = H.lock.Unlock(context.Background()) }()
	// wait for the faults to have happened
	deadline := time.Now().Add(time.Duration(sc.At+sc.NFaults+8) * 3 * period)
	for int(atomic.LoadInt32(&injected)) < sc.NFaults && time.Now().Before(deadline) {
		time.Sleep(time.Millisecond)
	}
	got := int(atomic.LoadInt32(&injected))
	if got == 0 {
		return false, false, "" // the writer never reached the faulty iteration (judged by the cadence oracles)
	}
	if got < sc.NFaults {
		// the writer stopped in the middle of the fault series: the window below decides
		time.Sleep(2 * period)
	}
	// the window: 12 periods after the last fault, with a latency reference in the same process
	var ref int32
	refStop := make(chan struct{})
	go func() {
		for {
			select {
			case <-refStop:
				return
			default:
			}
			time.Sleep(period - time.Millisecond)
			atomic.AddInt32(&ref, 1)
		}
	}()
	lf := atomic.LoadInt64(&lastFault)
	var calls []call
	for now() < lf+12*periodNs {
		calls = append(calls, O.do("IsStale"))
		time.Sleep(4 * time.Millisecond)
	}
	close(refStop)
	after := int(atomic.LoadInt32(&opsAfter)) - 0
	// opsAfter was reset at each fault and counts the hook calls since, INCLUDING the rest of the faulty iteration;
	// what matters is a NEW iteration: an OpenFile attempted after the last fault
	newIter := false
	for _, o := range H.rec.all() {
		if o.Name == "OpenFile" && o.Path == w.hbP && o.B > lf {
			newIter = true
		}
	}
	_ = after
	refN := int(atomic.LoadInt32(&ref))
	eval()
	count("faulthold:" + sc.FaultKind + ":" + sc.Errno)
	distinct(fmt.Sprintf("faulthold|%s|%s|%d|%d|%v", sc.FaultKind, sc.Errno, sc.At, sc.NFaults, sc.Mem))
	staleEnd := len(calls) > 0 && calls[len(calls)-1].Stale
	if emit {
		au := int64(0)
		if refN >= 5 {
			au = lf + 12*periodNs
		}
		if term, _, _, its, ok := holderCase(w, H.rec.all(), H.sh.Log(), nil, au); ok {
			addCase(term, map[string]any{"kind": "holder-faults", "scenario": sc, "iterations": its, "new_iteration_after_last_fault": newIter})
		} else {
			shapeBroken("holder operations under transient faults cannot be expressed as a run of the holder machine", sc)
		}
	}
	if !newIter {
		if refN < 5 {
			return false, false, ""
		}
		return true, true, fmt.Sprintf("holder alive, context not cancelled: after %d transient %s fault(s) (%s) on heartbeat iteration %d the heartbeat writer attempted NO further iteration during 12 periods (a reference goroutine sleeping period-1ms completed %d rounds in the same window); IsStale at the end of the window = %v: the lock stays stale and an overriding contender takes it over",
			got, sc.FaultKind, sc.Errno, sc.At, refN, staleEnd)
	}
	// the writer went on: the lock must not stay stale (a stale answer at the end is judged like any other)
	if staleEnd {
		judgeStale(w, H, calls[len(calls)-1], sc)
	}
	if emit {
		evs, _, _ := holderEvents(w, H.rec.all())
		fillNow(evs)
		n := 0
		for i, c := range calls {
			if v, ok := extractView(w, c.Ops); ok && (i%9 == 0 || c.Stale) && n < 6 && len(evs) > 0 && c.B > evs[0].E {
				n++
				addCase(h.App("CView", h.Z(periodNs), w.viewTerm(v), h.Z(w.rel(v.Lo)), h.Z(w.rel(c.E)), h.Bool(c.Stale)),
					map[string]any{"kind": "view-faults", "scenario": sc, "stale": c.Stale})
				if !w.mem {
					ce, cl := traceTerms(w, relevant(evs, c.B, c.E))
					addCase(h.App("CTrace", h.Z(periodNs), ce, cl, h.Z(w.rel(c.B)), h.Z(w.rel(v.Lo)), h.Z(w.rel(c.B)), h.Z(w.rel(c.E)), h.Z(w.rel(v.Lo)), h.Z(w.rel(c.E)), h.Bool(c.Stale)),
						map[string]any{"kind": "trace-faults", "scenario": sc, "stale": c.Stale})
				}
			}
		}
	}
	return false, true, ""
}

func runFaultHold(sc scenario, emit bool) {
	stopped, conclusive, what := oneFaultHold(sc, emit)
	if !stopped {
		if !conclusive {
			count("faulthold:inconclusive")
		}
		return
	}
	// confirm 3 of 3
	for i := 0; i < 3; i++ {
		st, _, _ := oneFaultHold(sc, false)
		if !st {
			count("candidate-not-confirmed:" + sigHbStopped)
			return
		}
	}
	fail(sigHbStopped, what+" (confirmed 3 of 3)", sc)
}

// ------------------------------------------------------------------------------------------------
// 2d. other API calls during a live hold must not touch the holder's heartbeat

// oneBusyHold: the holder acquires (live context, never cancelled, no Unlock until the end).  For ~8 periods other
// goroutines use the SAME lock object and other objects for the same lock: TryLock (fails), Lock with a deadline
// that expires, LockWithTimeout that times out, IsStale, ReleaseIfStale (no-op).  Then 12 quiet periods: the heartbeat
// writer must start new iterations (stopped=true otherwise, provided a reference sleeper shows the process was
// responsive) and the lock must not have become stale.
func oneBusyHold(sc scenario, emit bool) (stopped, conclusive bool, what string) {
	w := newWorld(root, sc.Mem, nextName("bh-"))
	rng := newRng(sc.Seed)
	H := w.holder()
	ctx, cancel := context.WithCancel(context.Background())
	defer cancel()
	if err := H.lock.TryLock(ctx); err != nil {
		fail(sigOpOutcome, "TryLock on a free lock failed: "+err.Error(), sc)
		return false, false, ""
	}
	defer func() { _ = H.lock.Unlock(context.Background()) }()
	time.Sleep(time.Duration(1+rng.Intn(3)) * period)
	var cmu sync.Mutex
	var calls []apiCall
	kinds := []string{"KTryLock", "KLockDeadline", "KLockWithTimeout", "KIsStale", "KReleaseIfStale"}
	if sc.Op != "" {
		kinds = []string{sc.Op}
	}
	users := []*actor{H, H, w.actor(false), w.actor(false)} // two users of the holder's object, two other objects
	if sc.Obs == 1 {
		users = []*actor{H}
	}
	// latency reference in the same process over the whole scenario: rounds of period-1ms sleeps, longest round
	var ref int32
	var refMax int64
	refStop := make(chan struct{})
	go func() {
		for {
			select {
			case <-refStop:
				return
			default:
			}
			t := now()
			time.Sleep(period - time.Millisecond)
			if d := now() - t; d > atomic.LoadInt64(&refMax) {
				atomic.StoreInt64(&refMax, d)
			}
			atomic.AddInt32(&ref, 1)
		}
	}()
	var wg sync.WaitGroup
	busyEnd := now() + 8*periodNs
	for ui, u := range users {
		seed := rng.Int63()
		wg.Add(1)
		go func(ui int, u *actor) {
			defer wg.Done()
			urng := newRng(seed)
			for now() < busyEnd {
				k := kinds[urng.Intn(len(kinds))]
				if k == "KReleaseIfStale" && u == H && sc.Op == "" {
					// in the mixes the holder's own object is not used to release (Unlock on it ends the loop
					// legitimately, which would make a latency-induced release inconclusive); alone it is (Obs=1)
					k = "KIsStale"
				}
				d := time.Duration(20+urng.Intn(60)) * time.Millisecond
				var err error
				res := ""
				switch k {
				case "KTryLock":
					err = u.lock.TryLock(context.Background())
				case "KLockDeadline":
					c2, cf := context.WithTimeout(context.Background(), d)
					err = u.lock.Lock(c2)
					cf()
				case "KLockWithTimeout":
					err = u.lock.LockWithTimeout(context.Background(), d)
				case "KIsStale":
					if u.lock.IsStale() {
						res = "stale"
					}
				case "KReleaseIfStale":
					err = u.lock.ReleaseIfStale(context.Background())
				}
				if err == nil && res == "" && (k == "KTryLock" || k == "KLockDeadline" || k == "KLockWithTimeout") {
					res = "acquired" // took a held lock over: give it back, the judgement below sees the removal
					_ = u.lock.Unlock(context.Background())
				} else if err != nil {
					res = errKind(err)
					if strings.HasPrefix(res, "other:") {
						res = "other"
					}
				}
				cmu.Lock()
				calls = append(calls, apiCall{Kind: k, Same: u == H, At: now(), Res: res})
				cmu.Unlock()
				time.Sleep(time.Duration(urng.Intn(15)) * time.Millisecond)
			}
		}(ui, u)
	}
	wg.Wait()
	tEnd := now()
	sort.Slice(calls, func(i, j int) bool { return calls[i].At < calls[j].At })
	// the quiet window
	refAtEnd := atomic.LoadInt32(&ref)
	O := w.actor(false)
	var polls []call
	for now() < tEnd+12*periodNs {
		polls = append(polls, O.do("IsStale"))
		time.Sleep(4 * time.Millisecond)
	}
	close(refStop)
	refN := int(atomic.LoadInt32(&ref) - refAtEnd)
	hops := H.rec.all()
	newIter := false
	for _, o := range hops {
		if o.Name == "OpenFile" && o.Path == w.hbP && o.B > tEnd {
			newIter = true
		}
	}
	// somebody removed the lock directory during the busy phase (a latency-induced stale judgement, D30, or a logic
	// error): then the scenario says nothing about the heartbeat
	tookOver := 0
	firstRemoval := int64(1 << 62)
	for _, u := range append([]*actor{H}, users[1:]...) {
		for _, o := range u.rec.all() {
			if (o.Name == "Remove" || o.Name == "RemoveAll") && !o.Err && o.B < firstRemoval {
				firstRemoval = o.B
			}
		}
	}
	removed := firstRemoval != int64(1<<62)
	byKind := map[string]int{}
	for _, c := range calls {
		byKind[c.Kind]++
		if c.Res == "acquired" {
			tookOver++
		}
	}
	eval()
	mu.Lock()
	r.Evals(len(calls))
	for k, n := range byKind {
		r.CountN("busyhold:"+k, n)
	}
	mu.Unlock()
	distinct(fmt.Sprintf("busyhold|%s|%d|%v", sc.Op, sc.Obs, sc.Mem))
	if removed || tookOver > 0 {
		// the lock was judged stale and removed while its holder was alive (latency, D30, or a consequence of a
		// stopped heartbeat).  A live loop keeps ATTEMPTING its writes every period even when the directory is gone
		// (errors ignored) — unless the holder's own object was used to release or re-acquire (Unlock on it ends
		// the loop legitimately): then the scenario says nothing
		sameObj := false
		for _, o := range hops {
			if (o.Name == "Remove" || o.Name == "RemoveAll") && !o.Err {
				sameObj = true
			}
		}
		for _, c := range calls {
			if c.Same && c.Res == "acquired" {
				sameObj = true
			}
		}
		var lastIter int64
		for _, o := range hops {
			if o.Name == "OpenFile" && o.Path == w.hbP && o.B < firstRemoval && o.B > lastIter {
				lastIter = o.B
			}
		}
		if lastIter != 0 && firstRemoval-lastIter > 2*periodNs && atomic.LoadInt64(&refMax) < periodNs+periodNs/2 {
			// silent for more than two periods before the removal although the reference goroutine never needed
			// more than 1.5 periods for a round in the whole scenario (confirmed 3 of 3 by the caller)
			return true, true, fmt.Sprintf("holder alive, its context never cancelled, no Unlock on its object: during other calls on the lock (%v) its heartbeat writer made no iteration for %.0f ms before a contender judged the lock stale and removed it, while the reference goroutine's longest round of period-1ms took %.0f ms: the writer had been stopped, not delayed",
				kindsOf(calls), float64(firstRemoval-lastIter)/1e6, float64(atomic.LoadInt64(&refMax))/1e6)
		}
		if !sameObj && !newIter && refN >= 5 {
			return true, true, fmt.Sprintf("holder alive, its context never cancelled, no Unlock on its object: during other calls on the lock (%v) the lock was judged stale and removed by a contender, and the holder's heartbeat writer attempted NO iteration at all during the 12 periods after the calls (reference goroutine: %d rounds): it had been stopped",
				kindsOf(calls), refN)
		}
		count("busyhold:lock-removed-during-the-calls")
		return false, false, ""
	}
	if emit {
		au := int64(0)
		if refN >= 5 {
			au = tEnd + 12*periodNs
		}
		if term, _, _, its, ok := holderCase(w, hops, nil, calls, au); ok {
			addCase(term, map[string]any{"kind": "holder-busy", "scenario": sc, "iterations": its, "calls": byKind, "new_iteration_after_the_calls": newIter})
		} else {
			shapeBroken("holder operations during other API calls cannot be expressed as a run of the holder machine", sc)
		}
	}
	staleEnd := len(polls) > 0 && polls[len(polls)-1].Stale
	if !newIter {
		if refN < 5 {
			return false, false, ""
		}
		return true, true, fmt.Sprintf("holder alive, its context never cancelled, no Unlock: after other calls on the lock (%v; on the holder's own object and on other objects; none of them acquired) the heartbeat writer attempted NO further iteration during 12 periods (a reference goroutine sleeping period-1ms completed %d rounds in the same window); IsStale at the end of the window = %v: the live lock goes stale and is taken over",
			byKind, refN, staleEnd)
	}
	if staleEnd {
		judgeStale(w, H, polls[len(polls)-1], sc)
	}
	return false, true, ""
}

func kindsOf(calls []apiCall) map[string]int {
	m := map[string]int{}
	for _, c := range calls {
		m[c.Kind]++
	}
	return m
}

func runBusyHold(sc scenario, emit bool) {
	stopped, conclusive, what := oneBusyHold(sc, emit)
	if !stopped {
		if !conclusive {
			count("busyhold:inconclusive")
		}
		return
	}
	for i := 0; i < 3; i++ {
		st, _, _ := oneBusyHold(sc, false)
		if !st {
			count("candidate-not-confirmed:" + sigHbKilled)
			return
		}
	}
	fail(sigHbKilled, what+" (confirmed 3 of 3)", sc)
}

// ------------------------------------------------------------------------------------------------
// 2e. one kind of backend operation at a time is slow (60 ms, below nothing the holder can do about it)

var heartbeatNeeds = map[string]bool{"OpenFile": true, "f.Write": true, "f.Close": true, "Chtimes": true}

// oneDelayHold: a live hold of 12 periods during which every backend operation of ONE kind issued through the
// holder's file system takes 60 ms longer.  A heartbeat needs to create/truncate, write, close and stamp its file:
// a slow operation of any other kind (Sync, Stat, Open, Readdirnames ...) must not matter, because the holder has
// no reason to issue it between taking `now` and recording it.  Returns hit=true when operations of an unneeded
// kind WERE issued on the heartbeat file and delayed, and the live lock was reported stale.
func oneDelayHold(sc scenario, emit bool) (hit bool, what string) {
	w := newWorld(root, sc.Mem, nextName("dh-"))
	H := w.holder()
	O := w.actor(false)
	var delayed int32
	var on int32
	H.sh.SetHook(func(op *shim.Op) error {
		if atomic.LoadInt32(&on) == 1 && op.Name == sc.Op {
			if op.Path == w.hbP {
				atomic.AddInt32(&delayed, 1)
			}
			time.Sleep(60 * time.Millisecond)
		}
		return nil
	})
	ctx, cancel := context.WithCancel(context.Background())
	defer cancel()
	if err := H.lock.TryLock(ctx); err != nil {
		fail(sigOpOutcome, "TryLock on a free lock failed: "+err.Error(), sc)
		return false, ""
	}
	atomic.StoreInt32(&on, 1)
	start := now()
	var polls []call
	nStale := 0
	for now() < start+12*periodNs {
		c := O.do("IsStale")
		if c.Stale {
			nStale++
		}
		polls = append(polls, c)
		time.Sleep(4 * time.Millisecond)
	}
	atomic.StoreInt32(&on, 0)
	ended := now()
	hops := H.rec.all()
	shlog := H.sh.Log()
	_ = H.lock.Unlock(context.Background())
	nd := int(atomic.LoadInt32(&delayed))
	eval()
	mu.Lock()
	r.Evals(len(polls))
	r.Count("delayhold:" + sc.Op)
	mu.Unlock()
	distinct(fmt.Sprintf("delayhold|%s|%v", sc.Op, sc.Mem))
	evs, shapeOK, why := holderEvents(w, hops)
	if !shapeOK {
		shapeBroken(why, sc)
	}
	checkTimestamps(evs, sc)
	fillNow(evs)
	if emit {
		if term, _, _, its, ok := holderCase(w, hops, shlog, nil, 0); ok {
			addCase(term, map[string]any{"kind": "holder-delay", "scenario": sc, "iterations": its, "delayed_operations": nd, "stale_answers": nStale})
		} else {
			shapeBroken("holder operations under a slow "+sc.Op+" cannot be expressed as a run of the holder machine", sc)
		}
		n := 0
		for i, c := range polls {
			if v, ok := extractView(w, c.Ops); ok && (i%11 == 0 || c.Stale) && n < 8 && len(evs) > 0 && c.B > evs[0].E && c.E < ended {
				n++
				addCase(h.App("CView", h.Z(periodNs), w.viewTerm(v), h.Z(w.rel(v.Lo)), h.Z(w.rel(c.E)), h.Bool(c.Stale)),
					map[string]any{"kind": "view-delay", "scenario": sc, "stale": c.Stale})
				if !w.mem { // the trace semantics is the OS back end's (afero's in-memory files are also stamped by Close)
					ce, cl := traceTerms(w, relevant(evs, c.B, c.E))
					addCase(h.App("CTrace", h.Z(periodNs), ce, cl, h.Z(w.rel(c.B)), h.Z(w.rel(v.Lo)), h.Z(w.rel(c.B)), h.Z(w.rel(c.E)), h.Z(w.rel(v.Lo)), h.Z(w.rel(c.E)), h.Bool(c.Stale)),
						map[string]any{"kind": "trace-delay", "scenario": sc, "stale": c.Stale})
				}
			}
		}
	}
	if heartbeatNeeds[sc.Op] {
		// the instants shift; a stale answer is judged like any other (latency vs logic)
		for _, c := range polls {
			if c.Stale {
				judgeStale(w, H, c, sc)
				break
			}
		}
		return false, ""
	}
	if nd > 0 && nStale > 0 {
		return true, fmt.Sprintf("live holder, context never cancelled: the heartbeat writer issued %d %s operation(s) on the heartbeat file during a hold of 12 periods; with each %s taking 60 ms the live lock was reported stale in %d of %d polls — an operation a heartbeat does not need sits between the instant the iteration takes (`now`) and the moment it lands, so the heartbeat is born old",
			nd, sc.Op, sc.Op, nStale, len(polls))
	}
	return false, ""
}

func runDelayHold(sc scenario, emit bool) {
	hit, what := oneDelayHold(sc, emit)
	if !hit {
		return
	}
	for i := 0; i < 3; i++ {
		if h2, _ := oneDelayHold(sc, false); !h2 {
			count("candidate-not-confirmed:" + sigUnneeded)
			return
		}
	}
	fail(sigUnneeded, what+" (confirmed 3 of 3)", sc)
}

// ------------------------------------------------------------------------------------------------
// 2c. death by cancellation of the holder's context, without Unlock

func runCancelDeath(sc scenario, emit bool) {
	w := newWorld(root, false, nextName("cd-"))
	H := w.holder()
	ctx, cancel := context.WithCancel(context.Background())
	defer cancel()
	var err error
	switch sc.Acquire {
	case "Lock":
		err = H.lock.Lock(ctx)
	case "LockWithTimeout":
		err = H.lock.LockWithTimeout(ctx, 5*time.Second)
	default:
		err = H.lock.TryLock(ctx)
	}
	if err != nil {
		fail(sigOpOutcome, sc.Acquire+" on a free lock failed: "+err.Error(), sc)
		return
	}
	// whatever happens, stop the library's goroutine at the end (Unlock cancels through the cancel store)
	defer func() { _ = H.lock.Unlock(context.Background()) }()
	if sc.After > 0 {
		time.Sleep(time.Duration(sc.After)*period + time.Duration(sc.Seed%40)*time.Millisecond)
	}
	cancelAt := now()
	cancel() // the holder dies: its context is cancelled, Unlock is NOT called
	time.Sleep(5 * period)
	ops := H.rec.all()
	evs, shapeOK, why := holderEvents(w, ops)
	if !shapeOK {
		shapeBroken(why, sc)
	}
	checkTimestamps(evs, sc)
	fillNow(evs)
	// the loop checks its context before every iteration: at most one iteration (already past its check) starts
	// after the cancellation; latency can only make it fewer
	late := 0
	var lastLate int64
	for _, e := range evs {
		if e.Kind == "Create" && e.Now > cancelAt {
			late++
			lastLate = e.B
		}
	}
	eval()
	count("canceldeath:" + sc.Acquire)
	distinct(fmt.Sprintf("canceldeath|%s|%d", sc.Acquire, sc.After))
	if emit {
		if term, _, _, _, ok := holderCase(w, ops, H.sh.Log(), []apiCall{{Kind: "KCancelOwn", Same: true, At: cancelAt}}, 0); ok {
			addCase(term, map[string]any{"kind": "holder-cancelled", "scenario": sc, "iterations_after_cancel": late})
		} else {
			shapeBroken("holder operations cannot be expressed as a run of the holder machine", sc)
		}
	}
	if late >= 2 {
		fail(sigHbUndead, fmt.Sprintf("holder acquired with %s, its context was cancelled %d periods later (no Unlock): %d heartbeat iterations STARTED after the cancellation (the last one %.1f ms after it) — a dead holder keeps refreshing its lock, which is never reported stale",
			sc.Acquire, sc.After, late, float64(lastLate-cancelAt)/1e6), sc)
		return
	}
	sc2 := sc
	afterDeath(w, H, sc2, emit)
}

// ------------------------------------------------------------------------------------------------
// 3. real-time holds

type load struct {
	stop chan struct{}
	wg   sync.WaitGroup
}

func startLoad(dir string, spinners, writers int) *load {
	l := &load{stop: make(chan struct{})}
	for i := 0; i < spinners; i++ {
		l.wg.Add(1)
		go func() {
			defer l.wg.Done()
			x := 1
			for {
				select {
				case <-l.stop:
					return
				default:
				}
				for j := 0; j < 200000; j++ {
					x = x*1664525 + 1013904223
				}
				_ = x
				runtime.Gosched()
			}
		}()
	}
	for i := 0; i < writers; i++ {
		l.wg.Add(1)
		go func(i int) {
			defer l.wg.Done()
			buf := make([]byte, 1<<20)
			p := filepath.Join(dir, fmt.Sprintf("load%d.bin", i))
			for {
				select {
				case <-l.stop:
					_ = os.Remove(p)
					return
				default:
				}
				f, err := os.Create(p)
				if err != nil {
					return
				}
				for k := 0; k < 4; k++ {
					_, _ = f.Write(buf)
				}
				_ = f.Sync()
				_ = f.Close()
			}
		}(i)
	}
	return l
}
func (l *load) end() { close(l.stop); l.wg.Wait() }

type holdResult struct {
	candidates []string // timing-dependent violation candidates (signature) needing confirmation
	whats      []string
}

func runHold(sc scenario, emit bool, confirmMode bool) (res holdResult) {
	w := newWorld(root, false, nextName("hold-"))
	rng := newRng(sc.Seed)
	H := w.holder()
	ctx, cancel := context.WithCancel(context.Background())
	defer cancel()
	_, kill := killAfter(H, 1<<30)
	if err := H.lock.TryLock(ctx); err != nil {
		fail(sigOpOutcome, "TryLock on a free lock failed: "+err.Error(), sc)
		return
	}
	acquired := now()
	holdFor := time.Duration(sc.Periods) * period
	var ended int64 // instant at which the holder stopped being alive (Unlock called / killed)
	var disturbed int32
	type obsLog struct {
		calls []call
		a     *actor
	}
	logs := make([]*obsLog, sc.Obs)
	var wg sync.WaitGroup
	stopObs := make(chan struct{})
	for i := 0; i < sc.Obs; i++ {
		lg := &obsLog{a: w.actor(i%2 == 1)}
		logs[i] = lg
		seed := rng.Int63()
		wg.Add(1)
		go func(i int) {
			defer wg.Done()
			orng := newRng(seed)
			for {
				select {
				case <-stopObs:
					return
				default:
				}
				var op string
				switch x := orng.Intn(10); {
				case x < 6:
					op = "IsStale"
				case x < 8:
					op = "Release"
				default:
					op = "TryLock"
					if i%2 == 1 {
						op = "TryLockOverride"
					}
				}
				c := lg.a.do(op)
				if (op == "TryLock" || op == "TryLockOverride") && c.Err == "" {
					// took the lock over: give it back at once, the scenario is disturbed from here on
					atomic.StoreInt32(&disturbed, 1)
					_ = lg.a.lock.Unlock(context.Background())
				}
				lg.calls = append(lg.calls, c)
				time.Sleep(time.Duration(orng.Intn(8000)) * time.Microsecond)
			}
		}(i)
	}
	// latency reference in the same process and window: a goroutine that sleeps period-1ms like the heartbeat does
	var refIters int32
	var refMaxStep int64
	refStop := make(chan struct{})
	go func() {
		for {
			select {
			case <-refStop:
				return
			default:
			}
			t := now()
			time.Sleep(period - time.Millisecond)
			if d := now() - t; d > atomic.LoadInt64(&refMaxStep) {
				atomic.StoreInt64(&refMaxStep, d)
			}
			atomic.AddInt32(&refIters, 1)
		}
	}()
	time.Sleep(holdFor)
	close(refStop)
	if sc.Death {
		kill()
		ended = now()
	} else {
		ended = now()
	}
	// judge the live phase
	if sc.Death {
		// observers keep polling for a while: the lock must turn stale, somebody may release and re-acquire it
		time.Sleep(2*period + 30*time.Millisecond)
	}
	close(stopObs)
	wg.Wait()
	if !sc.Death {
		_ = H.lock.Unlock(context.Background())
	}
	cancel()

	hops := H.rec.all()
	evs, shapeOK, why := holderEvents(w, hops)
	if !shapeOK {
		shapeBroken(why, sc)
	}
	checkTimestamps(evs, sc)
	fillNow(evs)
	// completed heartbeats (instant of completion, value)
	type hb struct{ E, Now int64 }
	var hbs []hb
	for _, e := range evs {
		if (e.Kind == "ChtimesHb" || e.Kind == "ChtimesDir" || e.Kind == "Write") && e.Now != 0 {
			hbs = append(hbs, hb{e.E, e.Now})
		}
	}
	lastBefore := func(t int64) (hb, bool) {
		i := sort.Search(len(hbs), func(i int) bool { return hbs[i].E > t })
		if i == 0 {
			return hb{}, false
		}
		return hbs[i-1], true
	}
	// first removal of the lock directory by anybody but the holder's own Unlock
	firstRemoval := int64(1 << 62)
	for _, lg := range logs {
		for _, c := range lg.calls {
			for _, o := range c.Ops {
				if (o.Name == "Remove" || o.Name == "RemoveAll") && !o.Err && o.B < firstRemoval {
					firstRemoval = o.B
				}
			}
		}
	}
	nCalls, nStaleLatency, nView, nTrace := 0, 0, 0, 0
	var maxSeenAge int64
	for oi, lg := range logs {
		for _, c := range lg.calls {
			nCalls++
			live := c.E < ended && c.E < firstRemoval && c.B > acquired
			v, vok := extractView(w, c.Ops)
			if vok && v.Seen && live && c.E-v.Min > maxSeenAge {
				maxSeenAge = c.E - v.Min
			}
			if live {
				// the holder is alive and nobody has disturbed the lock yet
				took := (c.Op == "TryLock" || c.Op == "TryLockOverride") && c.Err == ""
				staleErr := (c.Op == "TryLock") && c.Err == "stale"
				removed := false
				for _, o := range c.Ops {
					if (o.Name == "Remove" || o.Name == "RemoveAll") && !o.Err {
						removed = true
					}
				}
				if c.Stale || took || staleErr || removed {
					b, has := lastBefore(c.B)
					if has && c.E-b.Now <= 2*periodNs-coarseTol {
						sig := sigFreshStale
						if took || removed {
							sig = sigReleased
						}
						res.candidates = append(res.candidates, sig)
						res.whats = append(res.whats, fmt.Sprintf("live holder (hold of %d periods, %d observers): %s by observer %d -> stale=%v err=%q removed=%v although the heartbeat that completed %.1f ms before the call began was initiated only %.1f ms before the call ended",
							sc.Periods, sc.Obs, c.Op, oi, c.Stale, c.Err, removed, float64(c.B-b.E)/1e6, float64(c.E-b.Now)/1e6))
					} else {
						nStaleLatency++
					}
				}
				if c.Op != "IsStale" && c.Err != "" && c.Err != "locked" && c.Err != "stale" {
					fail(sigOpOutcome, fmt.Sprintf("%s on a live lock returned an unexpected error: %s", c.Op, c.Err), sc)
				}
			}
			if emit && !confirmMode && c.Op == "IsStale" && vok {
				interesting := c.Stale || (v.Seen && c.E-v.Min > 90*msNs)
				if interesting || rng.Intn(12) == 0 {
					if nView < 80 {
						nView++
						addCase(h.App("CView", h.Z(periodNs), w.viewTerm(v), h.Z(w.rel(v.Lo)), h.Z(w.rel(c.E)), h.Bool(c.Stale)),
							map[string]any{"kind": "view-hold", "scenario": sc, "stale": c.Stale})
					}
					if live && nTrace < 35 && len(evs) > 0 && c.B > evs[0].E {
						ce, cl := traceTerms(w, relevant(evs, c.B, c.E))
						nTrace++
						addCase(h.App("CTrace", h.Z(periodNs), ce, cl, h.Z(w.rel(c.B)), h.Z(w.rel(v.Lo)), h.Z(w.rel(c.B)), h.Z(w.rel(c.E)), h.Z(w.rel(v.Lo)), h.Z(w.rel(c.E)), h.Bool(c.Stale)),
							map[string]any{"kind": "trace-hold", "scenario": sc, "stale": c.Stale})
					}
				}
			}
		}
	}
	mu.Lock()
	r.Evals(nCalls)
	r.CountN("hold:observer-calls", nCalls)
	r.CountN("live-stale-by-latency(D30)", nStaleLatency)
	r.Count(fmt.Sprintf("hold:periods<=%d", bucket(sc.Periods)))
	r.Count(fmt.Sprintf("hold:observers=%d", sc.Obs))
	if sc.Death {
		r.Count("hold:ends-by-death")
	} else {
		r.Count("hold:ends-by-unlock")
	}
	mu.Unlock()
	distinct(fmt.Sprintf("hold|%d|%d|%v", sc.Periods, sc.Obs, sc.Death))
	noteMax(0, maxSeenAge)

	// the heartbeat is refreshed every period: steps between consecutive `now`s
	// alive until the end of the hold — claimed only when the process was demonstrably responsive throughout
	aliveUntil := int64(0)
	if int(atomic.LoadInt32(&refIters)) >= sc.Periods/2 && atomic.LoadInt64(&refMaxStep) < 3*periodNs && sc.Periods >= 2 {
		aliveUntil = ended
	}
	term, maxGap, minStep, iters, ok := holderCase(w, hops, H.sh.Log(), nil, aliveUntil)
	if ok && firstRemoval == int64(1<<62) {
		if emit && !confirmMode {
			addCase(term, map[string]any{"kind": "holder-hold", "scenario": sc, "iterations": iters})
		}
		want := sc.Periods - 2
		_ = minStep
		if iters < want/3 && sc.Periods >= 6 && 2*iters < int(atomic.LoadInt32(&refIters)) {
			res.candidates = append(res.candidates, sigHbSlow)
			res.whats = append(res.whats, fmt.Sprintf("only %d heartbeat iterations in a hold of %d periods, while a reference goroutine sleeping period-1ms in the same process completed %d", iters, sc.Periods, atomic.LoadInt32(&refIters)))
		}
		mu.Lock()
		r.CountN("hold:heartbeat-iterations", iters)
		mu.Unlock()
		noteMax(maxGap, 0)
	} else if !ok && firstRemoval == int64(1<<62) && atomic.LoadInt32(&disturbed) == 0 {
		shapeBroken("holder operations cannot be expressed as a run of the holder machine", sc)
	}
	if sc.Death && firstRemoval == int64(1<<62) && atomic.LoadInt32(&disturbed) == 0 {
		// nobody released it during the run: an independent observer now sees it stale and recovers it
		afterDeath(w, H, sc, emit && !confirmMode)
	} else if sc.Death {
		count("hold:dead-lock-recovered-by-an-observer")
	}
	return res
}

var (
	gapMu       sync.Mutex
	maxHbGap    int64
	maxAgeSeen  int64
	schedLatMax int64
)

func noteMax(gap, age int64) {
	gapMu.Lock()
	if gap > maxHbGap {
		maxHbGap = gap
	}
	if age > maxAgeSeen {
		maxAgeSeen = age
	}
	gapMu.Unlock()
}

func bucket(p int) int {
	for _, b := range []int{1, 2, 5, 10, 20, 40, 100, 200, 400} {
		if p <= b {
			return b
		}
	}
	return 1000
}

// scheduler-latency reference: how late a 1 ms sleep wakes up in this process, measured alongside the holds
func latencyProbe(stop chan struct{}, done chan struct{}) {
	defer close(done)
	for {
		select {
		case <-stop:
			return
		default:
		}
		t := time.Now()
		time.Sleep(time.Millisecond)
		d := int64(time.Since(t)) - msNs
		gapMu.Lock()
		if d > schedLatMax {
			schedLatMax = d
		}
		gapMu.Unlock()
	}
}

func confirm(sc scenario, sig string) bool {
	// a timing-dependent candidate is reported only if it shows again 3 times out of 3 in isolation
	for i := 0; i < 3; i++ {
		res := runHold(sc, false, true)
		found := false
		for _, s := range res.candidates {
			if s == sig {
				found = true
			}
		}
		if !found {
			return false
		}
	}
	return true
}

func holds() {
	type job struct{ sc scenario }
	var jobs []job
	maxP := r.N(40, 400)
	n := r.N(20, 60)
	for i := 0; i < n; i++ {
		var p int
		switch {
		case i == 0:
			p = 1
		case i == 1:
			p = 2
		case i == 2:
			p = maxP
		default:
			p = 1 + r.Rng.Intn(maxP)
			if r.Rng.Intn(3) == 0 {
				p = 1 + r.Rng.Intn(6)
			}
		}
		sc := scenario{Kind: "hold", Periods: p, Obs: r.Rng.Intn(9), Death: r.Rng.Intn(2) == 0, Load: true, Seed: r.Rng.Int63()}
		if i == 3 {
			sc.Obs = 8
		}
		if i == 4 {
			sc.Obs = 0
		}
		jobs = append(jobs, job{sc})
	}
	ld := startLoad(root, 4, 2)
	stop, done := make(chan struct{}), make(chan struct{})
	go latencyProbe(stop, done)
	par := 6
	sem := make(chan struct{}, par)
	var wg sync.WaitGroup
	var cmu sync.Mutex
	type cand struct {
		sc   scenario
		sig  string
		what string
	}
	var cands []cand
	for _, j := range jobs {
		wg.Add(1)
		sem <- struct{}{}
		go func(sc scenario) {
			defer wg.Done()
			defer func() { <-sem }()
			res := runHold(sc, true, false)
			cmu.Lock()
			for i := range res.candidates {
				cands = append(cands, cand{sc, res.candidates[i], res.whats[i]})
			}
			cmu.Unlock()
		}(j.sc)
	}
	wg.Wait()
	close(stop)
	<-done
	ld.end()
	seen := map[string]bool{}
	for _, c := range cands {
		if seen[c.sig] {
			continue
		}
		seen[c.sig] = true
		csc := c.sc
		if confirm(csc, c.sig) {
			fail(c.sig, c.what+" (confirmed 3 of 3 in isolation)", csc)
		} else {
			count("candidate-not-confirmed:" + c.sig)
		}
	}
	note(fmt.Sprintf("measured during the holds: largest step between two heartbeat initiations %.1f ms; largest modification-time age seen by an observer of a live lock %.1f ms (stale above %d ms); scheduler-latency reference (over-sleep of a 1 ms sleep) max %.1f ms",
		float64(maxHbGap)/1e6, float64(maxAgeSeen)/1e6, 2*period.Milliseconds(), float64(schedLatMax)/1e6))
}

// ------------------------------------------------------------------------------------------------

func runScenario(sc scenario) {
	switch sc.Kind {
	case "d30":
		runD30(true)
	case "cadence":
		cadenceCheck(sc)
	case "fault":
		runFault(sc.Op, sc.Mem)
	case "faulthold":
		runFaultHold(sc, true)
	case "canceldeath":
		runCancelDeath(sc, true)
	case "busyhold":
		runBusyHold(sc, true)
	case "delayhold":
		runDelayHold(sc, true)
	case "planted":
		for try := 0; try < 25; try++ {
			if runPlanted(sc, true) {
				break
			}
		}
	case "death":
		runDeath(sc, true)
	case "hold":
		res := runHold(sc, true, false)
		for i, s := range res.candidates {
			if confirm(sc, s) {
				fail(s, res.whats[i]+" (confirmed 3 of 3)", sc)
			}
		}
	}
}

func main() {
	r = h.Init("C17")
	r.Imports = []string{"GU.C17.Facts", "GU.C17.Model"}
	r.Rule("planted lock states (no lock / directory only / 1..3 files; ages 0..1h, the 100/101 ms boundary with a fabricated clock; both back ends) x {IsStale, ReleaseIfStale, TryLock, TryLock+override}; " +
		"death of the holder after each of its first file-system operations and in steady state (OS back end); seeded real-time holds of 1..40 (thorough 400) periods with 0..8 observers under CPU+I/O load, ended by Unlock or death. " +
		"non-trivial = a lock exists; distinct by (operation, back end, number of files, expected answer, age in ms) resp. (death point) resp. (periods, observers, ending)")
	var err error
	root, err = os.MkdirTemp("", "verif-c17-*")
	if err != nil {
		fmt.Fprintln(os.Stderr, err)
		os.Exit(2)
	}
	defer os.RemoveAll(root)
	var sc scenario
	if _, ok := r.ReplayObject(&sc); ok {
		runScenario(sc)
		r.Finish()
		return
	}
	// 0. known finding D30, deterministic, first on every run
	runD30(true)
	cadenceCheck(scenario{Kind: "cadence"})
	// 1. planted states
	plantedSweep()
	// 2. death points: after each operation of the acquire path and of the first two heartbeat iterations, then steady state
	var wg sync.WaitGroup
	sem := make(chan struct{}, 4)
	ks := []int{1, 2, 3, 4, 5, 6, 7, 8}
	for i := 0; i < r.N(8, 24); i++ {
		ks = append(ks, 9+r.Rng.Intn(r.N(40, 600)))
	}
	for _, k := range ks {
		wg.Add(1)
		sem <- struct{}{}
		go func(k int) {
			defer wg.Done()
			defer func() { <-sem }()
			runDeath(scenario{Kind: "death", K: k}, true)
		}(k)
	}
	wg.Wait()
	// 2b/2c. transient faults of the heartbeat writer; death by context cancellation (no Unlock)
	var extra []scenario
	errnos := []string{"EIO", "ENOSPC", "EMFILE"}
	for i, fk := range []string{"open", "write", "chtimes"} {
		extra = append(extra, scenario{Kind: "faulthold", FaultKind: fk, Errno: errnos[i], At: 1 + i, NFaults: 1})
		extra = append(extra, scenario{Kind: "faulthold", FaultKind: fk, Errno: errnos[(i+1)%3], At: 0, NFaults: 1 + i%2, Mem: i == 1})
	}
	for i := 0; i < r.N(4, 30); i++ {
		extra = append(extra, scenario{Kind: "faulthold", FaultKind: []string{"open", "write", "chtimes"}[r.Rng.Intn(3)], Errno: errnos[r.Rng.Intn(3)],
			At: r.Rng.Intn(r.N(8, 60)), NFaults: 1 + r.Rng.Intn(3), Mem: r.Rng.Intn(4) == 0})
	}
	for i, aq := range []string{"TryLock", "Lock", "LockWithTimeout"} {
		extra = append(extra, scenario{Kind: "canceldeath", Acquire: aq, After: 0, Seed: int64(i)})
		extra = append(extra, scenario{Kind: "canceldeath", Acquire: aq, After: 2 + 3*i, Seed: r.Rng.Int63n(1000)})
	}
	for i := 0; i < r.N(3, 20); i++ {
		extra = append(extra, scenario{Kind: "canceldeath", Acquire: []string{"TryLock", "Lock", "LockWithTimeout"}[r.Rng.Intn(3)], After: 1 + r.Rng.Intn(r.N(20, 200)), Seed: r.Rng.Int63n(1000)})
	}
	// 2d. other API calls on the held lock: each kind alone on the holder's own object, then mixes
	for i, k := range []string{"KTryLock", "KLockDeadline", "KLockWithTimeout", "KIsStale", "KReleaseIfStale"} {
		extra = append(extra, scenario{Kind: "busyhold", Op: k, Obs: 1, Seed: int64(100 + i)})
	}
	for i := 0; i < r.N(3, 20); i++ {
		extra = append(extra, scenario{Kind: "busyhold", Seed: r.Rng.Int63(), Mem: r.Rng.Intn(4) == 0})
	}
	// 2e. one slow kind of backend operation at a time
	for i, k := range []string{"OpenFile", "f.Write", "f.Sync", "f.Close", "Chtimes", "Stat", "Open", "f.Readdirnames", "f.Stat"} {
		extra = append(extra, scenario{Kind: "delayhold", Op: k, Mem: i%4 == 3})
	}
	sem2 := make(chan struct{}, 6)
	for _, sc := range extra {
		wg.Add(1)
		sem2 <- struct{}{}
		go func(sc scenario) {
			defer wg.Done()
			defer func() { <-sem2 }()
			runScenario(sc)
		}(sc)
	}
	wg.Wait()
	// 3. real-time holds
	holds()
	r.Finish()
}

func newRng(seed int64) *rand.Rand { return rand.New(rand.NewSource(seed)) }
