// C06 harness, part 3: deterministic corpus (the destination-shape tables, the confirmed defects D12, D24-D28 and the
// empty-name cases as replays, run first on every invocation) and the seeded generator.
package main

import (
	"fmt"
	"strings"

	"verif/harness/internal/h"
)

func f(path, data string) Entry { return Entry{Path: path, Data: data} }
func d(path string) Entry       { return Entry{Path: path, Dir: true} }

func prog(init Dump, calls ...Call) Program { return Program{Init: init, Calls: calls} }
func c1(op, p string) Call                  { return Call{Op: op, P: p} }
func c2(op, p, q string) Call               { return Call{Op: op, P: p, Q: q} }

// corpus: every row of the copy / move destination-shape tables, each defect of DESIGN.md section 6 (D12, D24..D28) and
// the empty-name calls, each followed by queries so that the result is observed through the API as well.
func corpus(r *h.Run) {
	base := Dump{f("a/e.txt", "hi"), f("a/b/c", "deep"), d("a/.h"), d("d"), f("c", "x"), f("b/c", "old"), f("b/d/a", "keep")}
	after := []Call{c1("tree", "/"), c1("lsrec", "/"), c1("isempty", "d"), c1("read", "a/e.txt")}
	var progs []Program
	add := func(init Dump, calls ...Call) { progs = append(progs, prog(init, append(calls, after...)...)) }

	// known findings first (D27: creation below a missing parent differs between the back ends)
	add(base, c1("touch", "e.txt/a"))
	add(base, Call{Op: "write", P: "e.txt/a", Data: "x"})
	add(base, c1("createfile", "e.txt/a"))
	add(base, c1("openfile", "e.txt/a"))

	// D12 / D28: a directory copied or moved into itself
	for _, op := range []string{"copy", "move", "copytodir"} {
		add(base, c2(op, "a", "a/b/c/d"))
		add(base, c2(op, "a", "a/b"))
		add(base, c2(op, "a", "a/d"))
		add(base, c2(op, "a", "a/"))
		add(base, c2(op, "a/", "a"))
		add(base, c2(op, "a", "a"))
		add(base, c2(op, "a/b", "a"))
		if op != "move" {
			add(base, c2(op, "/", "d"))
		}
	}
	// D26: a file copied / moved onto itself through its directory
	add(base, c2("copy", "a/e.txt", "a"))
	add(base, c2("copy", "a/e.txt", "a/"))
	add(base, c2("move", "a/e.txt", "a"))
	add(base, c2("copy", "c", "/"))
	add(base, c2("move", "c", "/"))
	add(base, c2("copy", "a/e.txt", "a/e.txt"))
	// a directory merged into one of its own parents would write into its own source
	add(Dump{f("a/b/c/b/e.txt", "one"), f("a/b/c/b/c/b/e.txt", "two")}, c2("copy", "a/b/c/b", "a"), c1("read", "a/b/c/b/e.txt"))
	add(Dump{f("a/b/c/b/e.txt", "one"), f("a/b/c/b/c/b/e.txt", "two")}, c2("move", "a/b/c/b", "a"), c1("read", "a/b/c/b/e.txt"))
	add(Dump{f("a/b/a/e.txt", "one"), d("a/b/a/b/a")}, c2("copytodir", "a/b/a", "/"), c1("tree", "/"))
	// the source is already where the call would put it: d/f into d, d onto its own place, a directory into its parent
	for _, op := range []string{"move", "movebetween", "copy", "copytodir", "copytofile"} {
		for _, pq := range [][2]string{{"a/e.txt", "a"}, {"a/e.txt", "a/"}, {"a/e.txt", "a/e.txt"}, {"a/b", "a"}, {"a/b/", "a"}, {"c", "/"}, {"d", "/"}, {"a/b/c", "a/b"}} {
			add(base, c2(op, pq[0], pq[1]), c1("read", "a/e.txt"), c1("read", "a/b/c"))
		}
	}
	// MoveBetweenFS on one file system: the destination-shape table
	for _, src := range []string{"c", "a/e.txt", "a", "a/b", "d"} {
		for _, dst := range []string{"e.txt", "e.txt/", "d", "d/", "b", "b/c", ".h/a/b", "a/b", "a/d"} {
			add(base, c2("movebetween", src, dst))
		}
	}
	// D24 / D25: move into an existing directory (empty, non-empty, containing the name)
	add(base, c2("move", "c", "d"))
	add(base, c2("move", "c", "a"))
	add(base, c2("move", "c", "b"))                                 // b/c exists: overwritten
	add(base, c2("move", "a", "d"))                                 // d empty: d/a
	add(base, c2("move", "a/b", "b"))                               // b/b
	add(base, c2("move", "a", "b/d"))                               // b/d/a exists as a FILE: kind conflict
	add(base, c2("move", "b/d", "a"))                               // a/d
	add(Dump{f("a/x", "1"), f("d/a/y", "2")}, c2("move", "a", "d")) // d/a exists and is not empty: refused
	add(Dump{f("a/x", "1"), d("d/a")}, c2("move", "a", "d"))        // d/a exists and is empty: replaced
	// the destination-shape tables
	for _, op := range []string{"copy", "move"} {
		for _, src := range []string{"c", "a/e.txt", "a", "a/", "a/b", "d", "a/.h"} {
			for _, dst := range []string{"e.txt", "e.txt/", "d", "d/", "b", "b/", "b/c", "b/d", ".h/a/b", ".h/a/b/", "/", "a/b"} {
				add(base, c2(op, src, dst))
			}
		}
	}
	// Move's fall-back (rename refused, as across devices: copy then remove) must give the same outcome as the rename
	for _, src := range []string{"c", "a/e.txt", "a", "a/", "a/b", "d", "a/.h"} {
		for _, dst := range []string{"e.txt", "e.txt/", "d", "d/", "b", "b/", "b/c", "b/d", ".h/a/b", ".h/a/b/", "/", "a/b"} {
			add(base, Call{Op: "move", P: src, Q: dst, FailRename: true})
		}
	}
	add(Dump{f("a/x", "1"), d("d/a")}, Call{Op: "move", P: "a", Q: "d", FailRename: true})
	// mkdir -p under a lost creation race / an error reported after the creation: every call that creates directories
	// (MkDir itself; the destination and parents in Copy / CopyToDirectory / Move / MoveBetweenFS; Touch of "name/") must
	// give the outcome of the clean call, on both back ends (and R's)
	for _, kind := range []string{"exist", "io"} {
		for _, c := range []Call{c1("mkdir", "e.txt"), c1("mkdir", "e.txt/a/b"), c1("mkdir", "a/d/"), c1("mkdir", "a"), c1("touch", "e.txt/"), c1("touch", ".h/a/"),
			c2("copy", "c", ".h/a/b"), c2("copy", "c", "e.txt/"), c2("copy", "a", "e.txt"), c2("copy", "a", "d"), c2("copy", "a/b", ".h/a/"),
			c2("copytodir", "c", "e.txt/a"), c2("copytodir", "a", "e.txt"), c2("copytofile", "c", ".h/a"),
			c2("move", "c", ".h/a/b"), c2("move", "c", "e.txt/"), c2("move", "a", ".h/a"), {Op: "move", P: "a", Q: ".h/a", FailRename: true},
			{Op: "move", P: "a", Q: "d", FailRename: true}, c2("movebetween", "a", "e.txt/a"), c2("movebetween", "c", ".h/")} {
			x := c
			x.MkdirRace = kind
			add(base, x)
			raceTwin(r, prog(base, c), prog(base, x))
		}
	}
	for _, src := range []string{"c", "a", ".h", ""} {
		for _, dst := range []string{"e.txt", "e.txt/", "d", "d/", "b/c", ".h/a", ""} {
			add(base, c2("copytofile", src, dst))
			add(base, c2("copytodir", src, dst))
		}
	}
	// single-path calls on every shape of argument
	for _, op := range []string{"mkdir", "touch", "read", "ls", "lsrec", "tree", "subdirs", "findall", "exists", "isfile", "isdir", "isempty", "size", "hash", "rm", "clean", "relpath", "write", "createfile", "openfile"} {
		for _, p := range []string{"", "a", "a/", "c", "d", "d/", "e.txt", "e.txt/", "a/b/c", ".h/a", ".h/a/", "a/.h", "/"} {
			if p == "/" && (op == "rm" || op == "mkdir" || op == "touch" || op == "write" || op == "read" || op == "size" || op == "hash" || op == "createfile" || op == "openfile") {
				continue
			}
			c := Call{Op: op, P: p, Flag: true}
			if op == "write" {
				c.Data = "new"
			}
			add(base, c)
			if op == "write" {
				add(base, Call{Op: op, P: p})
				add(base, Call{Op: op, P: p, Data: "x"}, c1("read", p)) // shorter than what is there
			}
			if op == "lsrec" {
				add(base, Call{Op: op, P: p})
			}
		}
	}
	for _, p := range progs {
		runProgram(r, p, true, true)
	}
	r.Count("corpus-programs")
	r.CountN("corpus-programs", len(progs)-1)

	// second sentence: kind conflicts, injected back-end faults at every operation index, cancellation at every index
	loose := func(init Dump, calls ...Call) {
		runProgram(r, Program{Init: init, Calls: calls, Loose: true}, false, false)
	}
	conf := Dump{f("a/b", "file"), f("c", "x"), f("d/a/b", "y"), d("d/c")}
	for _, c := range []Call{c1("mkdir", "a/b/c"), c1("mkdir", "c"), c1("touch", "a/b/c"), c1("createfile", "a/b/c"), c1("openfile", "a/b/c"), c1("touch", "c/"), {Op: "write", P: "a/b/c", Data: "z"},
		{Op: "write", P: "d", Data: "z"}, {Op: "write", P: "c/", Data: "z"}, c1("read", "d"), c1("ls", "c"), c1("clean", "c"), c1("rm", "c/"), c1("lsrec", "c"),
		c2("copy", "d", "c"), c2("copy", "c", "d/c"), c2("copy", "d", "/"), c2("copy", "a", "d"), c2("copy", "c", "a/b/c"), c2("copy", "d", "a/b/c"),
		c2("move", "d", "c"), c2("move", "c", "d/c"), c2("move", "a", "d"), c2("move", "c", "a/b/c"), c2("movebetween", "c", "a/b/c"), c2("move", "d", "a/b/c"), c2("move", "c", "d/a/b/"),
		c2("copytofile", "d", "c"), c2("copytofile", "c", "a/b/c"), c2("copytodir", "c", "a/b/c"), c2("copytodir", "d", "c"), c2("copytodir", "c", "a/b"), c1("subdirs", "c"), c1("findall", "c"), c1("tree", "c"), c1("hash", "d"), c1("size", "d")} {
		loose(conf, c, c1("tree", "/"))
	}
	// a file copied / moved onto a directory that contains the source (in-memory: the directory used to be replaced by the file)
	loose(Dump{f("a/b/b", "x"), f("a/b/.h", "y")}, c2("copy", "a/b/b", "a"), c1("tree", "/"))
	loose(Dump{f("a/b/b", "x"), f("a/b/.h", "y")}, c2("copytodir", "a/b/b", "a"), c1("tree", "/"))
	loose(Dump{f("a/b/b", "x"), f("a/b/.h", "y")}, c2("move", "a/b/b", "a"), c1("tree", "/"))
	big := Dump{f("a/e.txt", "hello"), f("a/b/c", "deep"), f("a/b/d", "deeper"), d("a/.h"), d("d"), f("c", "x"), f("b/a/b/c", "old")}
	for _, c := range []Call{c2("copy", "a", "d"), c2("copy", "a", "b"), c2("move", "a", "d"), c2("copy", "c", "d"), c2("move", "c", "d/"), c1("rm", "a"), c1("clean", "a"),
		c1("lsrec", "a"), c1("tree", "/"), c1("findall", "/"), c1("read", "a/e.txt"), {Op: "write", P: "a/e.txt", Data: "new"}, c1("hash", "a/e.txt"), c1("ls", "a"),
		c1("isempty", "a"), c1("touch", "e.txt"), c1("mkdir", "e.txt/a/b"), c2("copytofile", "c", "e.txt"), c2("copytodir", "a", "e.txt"), c1("subdirs", "a")} {
		for k := 1; k <= r.N(14, 60); k++ {
			x := c
			x.FaultAt = k
			loose(big, x)
			y := c
			y.CancelAt = k
			loose(big, y)
		}
	}
}

// ---------- seeded generator ----------

var contents = []string{"", "x", "yy", "hello"}

type gen struct {
	r *h.Run
}

func (g *gen) name() string {
	// skewed: a and b collide most
	switch k := g.r.Rng.Intn(12); {
	case k < 4:
		return "a"
	case k < 7:
		return "b"
	case k < 8:
		return "c"
	case k < 9:
		return "d"
	case k < 11:
		return "e.txt"
	default:
		return ".h"
	}
}

func (g *gen) randPath() []string {
	n := 1 + g.r.Rng.Intn(3)
	if g.r.Rng.Intn(3) == 0 {
		n = 1
	}
	p := make([]string, n)
	for i := range p {
		p[i] = g.name()
	}
	return p
}

// pick a path related to the current tree: an entry, an entry's parent, a new child of an entry, or random
func (g *gen) pathIn(cur Dump) []string {
	if len(cur) > 0 && g.r.Rng.Intn(10) < 7 {
		e := strings.Split(cur[g.r.Rng.Intn(len(cur))].Path, "/")
		switch g.r.Rng.Intn(6) {
		case 0:
			if len(e) > 1 {
				return e[:len(e)-1]
			}
		case 1, 2:
			if len(e) < 3 {
				return join(e, g.name())
			}
		}
		return e
	}
	return g.randPath()
}

func (g *gen) arg(comps []string) string {
	s := strings.Join(comps, "/")
	if g.r.Rng.Intn(7) == 0 {
		s += "/"
	}
	return s
}

var ops1 = []string{"createfile", "openfile", "mkdir", "touch", "write", "read", "ls", "lsrec", "tree", "subdirs", "findall", "exists", "isfile", "isdir", "isempty", "size", "hash", "rm", "clean", "relpath"}
var opsRootOK = map[string]bool{"ls": true, "lsrec": true, "tree": true, "subdirs": true, "findall": true, "exists": true, "isdir": true, "isempty": true, "clean": true, "relpath": true, "isfile": true}

func (g *gen) call(cur Dump) Call {
	rng := g.r.Rng
	k := rng.Intn(100)
	switch {
	case k < 38: // copy / move family with a chosen relation between source and destination
		op := []string{"copy", "copy", "move", "move", "copytofile", "copytodir", "movebetween"}[rng.Intn(7)]
		src := g.pathIn(cur)
		var dst []string
		switch rng.Intn(9) {
		case 0:
			dst = src
		case 1:
			dst = join(src, g.name())
		case 2:
			dst = join(src, g.name(), g.name())
		case 3:
			if len(src) > 1 {
				dst = src[:len(src)-1]
			} else {
				dst = nil
			}
		case 4:
			if len(src) > 2 {
				dst = src[:1]
			} else {
				dst = g.pathIn(cur)
			}
		default:
			dst = g.pathIn(cur)
		}
		c := Call{Op: op, P: g.arg(src), Q: g.arg(dst)}
		if op == "move" && rng.Intn(4) == 0 {
			c.FailRename = true
		}
		if rng.Intn(8) == 0 {
			c.MkdirRace = []string{"exist", "io"}[rng.Intn(2)]
		}
		if len(dst) == 0 {
			c.Q = "/"
		}
		if rng.Intn(40) == 0 {
			c.P = ""
		}
		if rng.Intn(40) == 0 {
			c.Q = ""
		}
		if rng.Intn(40) == 0 && op != "move" {
			c.P = "/"
		}
		return c
	default:
		op := ops1[rng.Intn(len(ops1))]
		if k < 60 { // keep the tree growing
			op = []string{"mkdir", "touch", "write", "write"}[rng.Intn(4)]
		}
		c := Call{Op: op, P: g.arg(g.pathIn(cur)), Flag: rng.Intn(2) == 0}
		if (op == "mkdir" || op == "touch") && rng.Intn(4) == 0 {
			c.MkdirRace = []string{"exist", "io"}[rng.Intn(2)]
		}
		if op == "write" {
			c.Data = contents[rng.Intn(len(contents))]
		}
		if rng.Intn(30) == 0 {
			c.P = ""
		}
		if rng.Intn(20) == 0 && opsRootOK[op] {
			c.P = "/"
		}
		return c
	}
}

func (g *gen) initTree() Dump {
	var out Dump
	seen := map[string]bool{}
	n := g.r.Rng.Intn(9)
	for i := 0; i < n; i++ {
		p := g.randPath()
		// skip paths that would need a file as a directory, or a directory where a file is
		ok := true
		for j := 1; j <= len(p); j++ {
			if e, has := out.Lookup(strings.Join(p[:j], "/")); has && (!e.Dir || j == len(p)) {
				ok = false
			}
		}
		s := strings.Join(p, "/")
		for _, e := range out {
			if strings.HasPrefix(e.Path, s+"/") {
				ok = false
			}
		}
		if !ok || seen[s] {
			continue
		}
		seen[s] = true
		if g.r.Rng.Intn(3) == 0 {
			out = append(out, d(s))
		} else {
			out = append(out, f(s, contents[g.r.Rng.Intn(len(contents))]))
		}
	}
	return out
}

// generate: strict programs are built call by call against the tree observed so far (so that most calls are free of kind
// conflicts and collide with what exists); loose programs add kind conflicts, faults and cancellations.
func generate(r *h.Run) {
	g := &gen{r: r}
	nStrict := r.N(350, 2500)
	for i := 0; i < nStrict; i++ {
		init := g.initTree()
		n := 1 + r.Rng.Intn(40)
		p := Program{Init: init}
		// the next call is drawn against a prediction of the current tree
		cur := closure(init)
		for j := 0; j < n; j++ {
			var c Call
			for try := 0; try < 6; try++ {
				c = g.call(cur)
				if !unconstrained(c, cur) || r.Rng.Intn(12) == 0 {
					break
				}
			}
			p.Calls = append(p.Calls, c)
			cur = predict(cur, c)
		}
		r.Count("strict-programs")
		tr := runProgram(r, p, true, true)
		r.Count("strict-program-len<=" + bucket(len(tr)))
	}
	nLoose := r.N(250, 1500)
	for i := 0; i < nLoose; i++ {
		p := Program{Init: g.initTree(), Loose: true}
		n := 1 + r.Rng.Intn(40)
		cur := closure(p.Init)
		for j := 0; j < n; j++ {
			c := g.call(cur)
			switch r.Rng.Intn(5) {
			case 0:
				c.FaultAt = 1 + r.Rng.Intn(25)
			case 1:
				c.CancelAt = 1 + r.Rng.Intn(25)
			}
			p.Calls = append(p.Calls, c)
			cur = predict(cur, c)
		}
		r.Count("loose-programs")
		runProgram(r, p, false, false)
	}
}

func bucket(n int) string {
	switch {
	case n <= 5:
		return "05"
	case n <= 10:
		return "10"
	case n <= 20:
		return "20"
	default:
		return "40"
	}
}

// predict is a rough guess of the tree after a call, used ONLY to steer the generator towards colliding paths
// (it has no role in any oracle): creations and removals of the named paths.
func predict(cur Dump, c Call) Dump {
	a := parseArg(c.P)
	out := append(Dump{}, cur...)
	addDirs := func(comps []string) {
		for i := 1; i <= len(comps); i++ {
			s := strings.Join(comps[:i], "/")
			if _, ok := out.Lookup(s); !ok {
				out = append(out, d(s))
			}
		}
	}
	rm := func(comps []string) {
		s := strings.Join(comps, "/")
		var o Dump
		for _, e := range out {
			if e.Path != s && !strings.HasPrefix(e.Path, s+"/") {
				o = append(o, e)
			}
		}
		out = o
	}
	if a.empty || len(a.comps) == 0 {
		return out
	}
	switch c.Op {
	case "mkdir":
		addDirs(a.comps)
	case "touch", "write", "createfile", "openfile":
		if _, ok := out.Lookup(a.path()); !ok && out.kind(a.comps[:len(a.comps)-1]) == kDir {
			out = append(out, f(a.path(), c.Data))
		}
	case "rm":
		rm(a.comps)
	case "copy", "move", "copytodir", "copytofile", "movebetween":
		b := parseArg(c.Q)
		if e, ok := out.Lookup(a.path()); ok && !b.empty {
			t := b.comps
			if out.kind(b.comps) == kDir {
				t = join(b.comps, a.comps[len(a.comps)-1])
			}
			if !within(a.comps, t) {
				if len(t) > 1 {
					addDirs(t[:len(t)-1])
				}
				if _, has := out.Lookup(strings.Join(t, "/")); !has {
					out = append(out, Entry{Path: strings.Join(t, "/"), Dir: e.Dir, Data: e.Data})
				}
				if c.Op == "move" || c.Op == "movebetween" {
					rm(a.comps)
				}
			}
		}
	}
	return out
}

// closure adds the parent directories an initial tree implies.
func closure(init Dump) Dump {
	out := append(Dump{}, init...)
	for _, e := range init {
		comps := strings.Split(e.Path, "/")
		for i := 1; i < len(comps); i++ {
			s := strings.Join(comps[:i], "/")
			if _, ok := out.Lookup(s); !ok {
				out = append(out, d(s))
			}
		}
	}
	return out
}

// raceTwin: model-independent oracle for the creation race — the program with the fault must be indistinguishable, call by
// call and on each back end, from the same program without it (mkdir -p succeeds whenever the directory exists afterwards).
func raceTwin(r *h.Run, clean, raced Program) {
	a := runProgram(r, clean, true, false)
	b := runProgram(r, raced, true, false)
	for i := range raced.Calls {
		if i >= len(a) || i >= len(b) {
			return
		}
		for k, bn := range []string{"os", "mem"} {
			if !a[i].res[k].Equal(b[i].res[k]) || a[i].after[k].String() != b[i].after[k].String() {
				c := raced.Calls[i]
				r.Fail("mkdir-race-visible:"+c.Op+":"+c.MkdirRace+":"+bn, fmt.Sprintf("%s on the %s back end: %s %s, but without the fault %s %s — the directory exists afterwards, mkdir -p must succeed",
					c, bn, b[i].res[k], trunc(b[i].after[k].String(), 120), a[i].res[k], trunc(a[i].after[k].String(), 120)),
					Program{Init: raced.Init, Calls: raced.Calls[:i+1]})
				return
			}
		}
	}
}
