// C06 harness, part 1: back ends, calls, projected results, tree dumps.
package main

import (
	"context"
	"crypto/sha256"
	"encoding/hex"
	"errors"
	"fmt"
	"os"
	"path/filepath"
	"sort"
	"strings"
	"sync/atomic"
	"syscall"
	"time"

	"github.com/spf13/afero"

	"github.com/ARM-software/golang-utils/utils/commonerrors"
	"github.com/ARM-software/golang-utils/utils/filesystem"
	"github.com/ARM-software/golang-utils/utils/hashing"

	"verif/harness/internal/shim"
)

// The name alphabet (index = name id in the Coq model).
var names = []string{"a", "b", "c", "d", "e.txt", ".h"}

func nameID(s string) int {
	for i, n := range names {
		if n == s {
			return i
		}
	}
	return -1
}

// A call of the filesystem API. Paths are written relative to the sandbox root:
//
//	""      the empty string (passed as such to the library)
//	"/"     the sandbox root itself
//	"a/b"   root/a/b        "a/b/"  root/a/b/ (trailing separator)
type Call struct {
	Op   string `json:"op"`
	P    string `json:"p"`
	Q    string `json:"q,omitempty"`
	Data string `json:"data,omitempty"`
	Flag bool   `json:"flag,omitempty"`
	// fault / cancellation script (oracle-only programs): the K-th backend operation of this call (1-based)
	// fails (Fault) or cancels the call's context (Cancel). 0 = none.
	FaultAt  int `json:"fault_at,omitempty"`
	CancelAt int `json:"cancel_at,omitempty"`
	// FailRename makes every backend Rename of this call fail (as across devices), so that Move takes its
	// copy-then-remove fall-back; the outcome must be the same.
	FailRename bool `json:"fail_rename,omitempty"`
	// MkdirRace: every backend MkdirAll / Mkdir of this call CREATES the directory and still reports an error ("exist": EEXIST,
	// as when another client created it in between on a back end whose MkdirAll is not atomic; "io": EIO after the creation).
	// mkdir -p semantics: the call succeeds whenever the directory exists afterwards, so the outcome must be that of the clean call.
	MkdirRace string `json:"mkdir_race,omitempty"`
}

func (c Call) String() string {
	s := c.Op + "(" + fmt.Sprintf("%q", c.P)
	if twoPaths(c.Op) {
		s += fmt.Sprintf(",%q", c.Q)
	}
	if c.Op == "write" {
		s += fmt.Sprintf(",%q", c.Data)
	}
	if c.Op == "lsrec" || c.Op == "findall" {
		s += fmt.Sprintf(",%v", c.Flag)
	}
	if c.FaultAt > 0 {
		s += fmt.Sprintf(" fault@%d", c.FaultAt)
	}
	if c.FailRename {
		s += " rename-fails"
	}
	if c.MkdirRace != "" {
		s += " mkdir-race:" + c.MkdirRace
	}
	if c.CancelAt > 0 {
		s += fmt.Sprintf(" cancel@%d", c.CancelAt)
	}
	return s + ")"
}

func twoPaths(op string) bool {
	switch op {
	case "copy", "move", "copytofile", "copytodir", "movebetween":
		return true
	}
	return false
}

// Result is the projection of what a call returned: error KIND (not message), booleans, sorted listings
// relative to the sandbox root, bytes, numbers.
type Result struct {
	Err   string   `json:"err,omitempty"` // "" = nil error
	Bool  *bool    `json:"bool,omitempty"`
	Names []string `json:"names,omitempty"`
	HasNm bool     `json:"has_names,omitempty"`
	Data  *string  `json:"data,omitempty"`
	Num   *int64   `json:"num,omitempty"`
	Hung  bool     `json:"hung,omitempty"`
	Panic string   `json:"panic,omitempty"`
}

func (r Result) String() string {
	var b strings.Builder
	if r.Hung {
		b.WriteString("HUNG ")
	}
	if r.Panic != "" {
		b.WriteString("PANIC(" + r.Panic + ") ")
	}
	if r.Err != "" {
		b.WriteString("err=" + r.Err + " ")
	} else {
		b.WriteString("ok ")
	}
	if r.Bool != nil {
		fmt.Fprintf(&b, "%v ", *r.Bool)
	}
	if r.HasNm {
		fmt.Fprintf(&b, "%v ", r.Names)
	}
	if r.Data != nil {
		fmt.Fprintf(&b, "%q ", *r.Data)
	}
	if r.Num != nil {
		fmt.Fprintf(&b, "%d ", *r.Num)
	}
	return strings.TrimSpace(b.String())
}

func (r Result) Equal(o Result) bool { return r.String() == o.String() }

var kinds = []struct {
	name string
	err  error
}{
	{"cancelled", commonerrors.ErrCancelled}, {"timeout", commonerrors.ErrTimeout},
	{"notfound", commonerrors.ErrNotFound}, {"invalid", commonerrors.ErrInvalid}, {"undefined", commonerrors.ErrUndefined},
	{"empty", commonerrors.ErrEmpty}, {"exists", commonerrors.ErrExists}, {"conflict", commonerrors.ErrConflict},
	{"toolarge", commonerrors.ErrTooLarge}, {"notimplemented", commonerrors.ErrNotImplemented},
	{"unexpected", commonerrors.ErrUnexpected}, {"eof", commonerrors.ErrEOF}, {"condition", commonerrors.ErrCondition},
}

func errKind(err error) string {
	if err == nil {
		return ""
	}
	for _, k := range kinds {
		if commonerrors.Any(err, k.err) {
			return k.name
		}
	}
	if errors.Is(err, errInjected) {
		return "injected"
	}
	return "other"
}

var errInjected = errors.New("harness: injected backend failure")
var errCrossDevice = errors.New("harness: rename: invalid cross-device link")

type Entry struct {
	Path string `json:"path"` // relative to the root, '/'-separated
	Dir  bool   `json:"dir,omitempty"`
	Data string `json:"data,omitempty"`
}

type Dump []Entry

func (d Dump) String() string {
	var parts []string
	for _, e := range d {
		if e.Dir {
			parts = append(parts, e.Path+"/")
		} else {
			parts = append(parts, fmt.Sprintf("%s=%q", e.Path, e.Data))
		}
	}
	return "{" + strings.Join(parts, " ") + "}"
}

func (d Dump) Lookup(p string) (Entry, bool) {
	for _, e := range d {
		if e.Path == p {
			return e, true
		}
	}
	return Entry{}, false
}

type backend struct {
	name   string
	inner  afero.Fs
	sh     *shim.Fs
	fs     filesystem.FS
	root   string
	killed atomic.Bool // set by the watchdog: every later backend operation fails, so a runaway call unwinds
	// per-call script
	opCount   atomic.Int64
	faultAt   atomic.Int64
	cancelAt  atomic.Int64
	cancel    atomic.Value // context.CancelFunc
	noRename  atomic.Bool
	mkdirRace atomic.Value // string
}

func newBackend(name string, root string) (*backend, error) {
	b := &backend{name: name, root: root}
	var typ filesystem.FilesystemType
	if name == "os" {
		b.inner = filesystem.NewExtendedOsFs()
		typ = filesystem.StandardFS
	} else {
		b.inner = afero.NewMemMapFs()
		typ = filesystem.InMemoryFS
	}
	if err := b.inner.MkdirAll(root, 0o755); err != nil {
		return nil, err
	}
	b.sh = shim.New(b.inner, b.hook)
	b.sh.Rec = false
	b.fs = filesystem.NewVirtualFileSystem(b.sh, typ, filesystem.IdentityPathConverterFunc)
	return b, nil
}

func (b *backend) hook(op *shim.Op) error {
	if b.killed.Load() {
		return errInjected
	}
	if op.Name == "Rename" && b.noRename.Load() {
		return errCrossDevice
	}
	if op.Name == "MkdirAll" || op.Name == "Mkdir" {
		if k, _ := b.mkdirRace.Load().(string); k != "" {
			_ = b.inner.MkdirAll(op.Path, 0o755) // the directory IS created (by this call or by the client that won the race)
			if k == "io" {
				return &os.PathError{Op: "mkdir", Path: op.Path, Err: syscall.EIO}
			}
			return &os.PathError{Op: "mkdir", Path: op.Path, Err: syscall.EEXIST}
		}
	}
	n := b.opCount.Add(1)
	if k := b.faultAt.Load(); k > 0 && n == k {
		if strings.HasSuffix(op.Name, "Close") {
			return nil // a Close that does not close would be the harness's own leak
		}
		return errInjected
	}
	if k := b.cancelAt.Load(); k > 0 && n == k {
		if c, ok := b.cancel.Load().(context.CancelFunc); ok && c != nil {
			c()
		}
	}
	return nil
}

// abs converts a relative path of a Call into the string handed to the library.
func (b *backend) abs(p string) string {
	switch {
	case p == "":
		return ""
	case p == "/":
		return b.root + "/"
	default:
		return b.root + "/" + p
	}
}

func (b *backend) rel(p string) string {
	p = filepath.ToSlash(p)
	if p == b.root || p == b.root+"/" {
		return "/"
	}
	if strings.HasPrefix(p, b.root+"/") {
		return strings.TrimPrefix(p, b.root+"/")
	}
	return "?" + p
}

func (b *backend) dump() (Dump, error) {
	var out Dump
	err := afero.Walk(b.inner, b.root, func(p string, info os.FileInfo, err error) error {
		if err != nil {
			return err
		}
		if p == b.root {
			return nil
		}
		e := Entry{Path: b.rel(p), Dir: info.IsDir()}
		if !info.IsDir() {
			bs, err := afero.ReadFile(b.inner, p)
			if err != nil {
				return err
			}
			e.Data = string(bs)
		}
		out = append(out, e)
		return nil
	})
	sort.Slice(out, func(i, j int) bool { return out[i].Path < out[j].Path })
	return out, err
}

func sortedRel(b *backend, xs []string, full bool) []string {
	out := make([]string, 0, len(xs))
	for _, x := range xs {
		if full {
			out = append(out, b.rel(x))
		} else {
			out = append(out, x)
		}
	}
	sort.Strings(out)
	return out
}

func bp(v bool) *bool     { return &v }
func sp(v string) *string { return &v }
func ip(v int64) *int64   { return &v }

// run1 performs the call on the real library (no watchdog).
func (b *backend) run1(ctx context.Context, c Call) (r Result) {
	defer func() {
		if x := recover(); x != nil {
			r.Panic = fmt.Sprint(x)
			if len(r.Panic) > 80 {
				r.Panic = r.Panic[:80]
			}
		}
	}()
	fs := b.fs
	p, q := b.abs(c.P), b.abs(c.Q)
	switch c.Op {
	case "mkdir":
		r.Err = errKind(fs.MkDir(p))
	case "touch":
		r.Err = errKind(fs.Touch(p))
	case "write":
		r.Err = errKind(fs.WriteFileWithContext(ctx, p, []byte(c.Data), 0o644))
	case "read":
		bs, err := fs.ReadFileWithContext(ctx, p)
		r.Err = errKind(err)
		if err == nil {
			r.Data = sp(string(bs))
		}
	case "ls":
		xs, err := fs.Ls(p)
		r.Err = errKind(err)
		if err == nil {
			r.Names, r.HasNm = sortedRel(b, xs, false), true
		}
	case "lsrec":
		xs, err := fs.LsRecursive(ctx, p, c.Flag)
		r.Err = errKind(err)
		if err == nil {
			r.Names, r.HasNm = sortedRel(b, xs, true), true
		}
	case "tree":
		var xs []string
		err := fs.ListDirTreeWithContext(ctx, p, &xs)
		r.Err = errKind(err)
		if err == nil {
			r.Names, r.HasNm = sortedRel(b, xs, true), true
		}
	case "subdirs":
		xs, err := fs.SubDirectoriesWithContext(ctx, p)
		r.Err = errKind(err)
		if err == nil {
			r.Names, r.HasNm = sortedRel(b, xs, false), true
		}
	case "findall":
		xs, err := fs.FindAll(p, "txt")
		r.Err = errKind(err)
		if err == nil {
			r.Names, r.HasNm = sortedRel(b, xs, true), true
		}
	case "exists":
		r.Bool = bp(fs.Exists(p))
	case "isfile":
		v, err := fs.IsFile(p)
		r.Err = errKind(err)
		if err == nil {
			r.Bool = bp(v)
		}
	case "isdir":
		v, err := fs.IsDir(p)
		r.Err = errKind(err)
		if err == nil {
			r.Bool = bp(v)
		}
	case "isempty":
		v, err := fs.IsEmpty(p)
		r.Err = errKind(err)
		if err == nil {
			r.Bool = bp(v)
		}
	case "size":
		v, err := fs.GetFileSize(p)
		r.Err = errKind(err)
		if err == nil {
			r.Num = ip(v)
		}
	case "hash":
		v, err := fs.FileHashWithContext(ctx, hashing.HashSha256, p)
		r.Err = errKind(err)
		if err == nil {
			r.Data = sp(v)
		}
	case "rm":
		r.Err = errKind(fs.RemoveWithContext(ctx, p))
	case "clean":
		r.Err = errKind(fs.CleanDirWithContext(ctx, p))
	case "copy":
		r.Err = errKind(fs.CopyWithContext(ctx, p, q))
	case "copytofile":
		r.Err = errKind(fs.CopyToFileWithContext(ctx, p, q))
	case "copytodir":
		r.Err = errKind(fs.CopyToDirectoryWithContext(ctx, p, q))
	case "move":
		r.Err = errKind(fs.MoveWithContext(ctx, p, q))
	case "movebetween": // MoveBetweenFS with the same file system on both sides
		r.Err = errKind(filesystem.MoveBetweenFS(ctx, fs, p, fs, q))
	case "createfile": // CreateFile + Close
		f, err := fs.CreateFile(p)
		r.Err = errKind(err)
		if f != nil {
			_ = f.Close()
		}
	case "openfile": // OpenFile(O_WRONLY|O_CREATE) + Close: creates a missing file, leaves an existing one as it is
		f, err := fs.OpenFile(p, os.O_WRONLY|os.O_CREATE, 0o644)
		r.Err = errKind(err)
		if f != nil {
			_ = f.Close()
		}
	case "relpath":
		// path conversion: root-relative form of an absolute path, then back
		xs, err := fs.ConvertToRelativePath(b.root, p)
		r.Err = errKind(err)
		if err == nil {
			ys, err2 := fs.ConvertToAbsolutePath(b.root, xs...)
			r.Err = errKind(err2)
			if err2 == nil {
				// the relative form must be the cleaned components ("." for the root itself)
				want := strings.TrimSuffix(c.P, "/")
				if c.P == "/" {
					want = "."
				}
				if xs[0] != want {
					r.Err = "relpath-mismatch"
				}
				r.Names, r.HasNm = []string{b.rel(ys[0])}, true
			}
		}
	default:
		r.Err = "harness-unknown-op"
	}
	return
}

const callTimeout = 4 * time.Second

// run performs the call under the per-call watchdog and returns the projected result and the handle balance.
func (b *backend) run(c Call) (Result, int64) {
	b.opCount.Store(0)
	b.faultAt.Store(int64(c.FaultAt))
	b.cancelAt.Store(int64(c.CancelAt))
	b.noRename.Store(c.FailRename)
	b.mkdirRace.Store(c.MkdirRace)
	ctx, cancel := context.WithCancel(context.Background())
	b.cancel.Store(cancel)
	defer cancel()
	done := make(chan Result, 1)
	go func() { done <- b.run1(ctx, c) }()
	var r Result
	select {
	case r = <-done:
	case <-time.After(callTimeout):
		// the call did not return: make every backend operation fail so that the runaway goroutine unwinds,
		// give it a moment, and report.
		b.killed.Store(true)
		select {
		case <-done:
		case <-time.After(3 * time.Second):
		}
		r = Result{Hung: true}
	}
	b.faultAt.Store(0)
	b.cancelAt.Store(0)
	b.noRename.Store(false)
	b.mkdirRace.Store("")
	return r, b.sh.OpenHandles()
}

func sha(s string) string {
	x := sha256.Sum256([]byte(s))
	return hex.EncodeToString(x[:])
}
