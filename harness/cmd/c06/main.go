// C06 harness: programs of 1..40 filesystem-API calls over a small path alphabet, executed on BOTH back ends
// (afero OsFs under os.MkdirTemp, afero MemMapFs) from the same initial tree, through the recording shim.
// Oracles evaluated directly on the implementation (independent of the Coq model):
//   - both back ends agree on every projected result and on the full tree dump after every call,
//   - no file handle left open when a call returns (shim.OpenHandles), on success, failure, fault or cancellation,
//   - every call returns (per-call watchdog),
//   - nothing outside the call's destination (and, for move/remove/clean, its source) changes; a copy never changes its source.
//
// Correspondence: every call's projected result and the dump after it are emitted as Coq cases and compared with the
// reference model R (GU.C06.Model.check_case) evaluated by vm_compute.
package main

import (
	"encoding/json"
	"fmt"
	"os"
	"os/exec"
	"path/filepath"
	"strings"
	"time"

	"verif/harness/internal/h"
)

type Program struct {
	Init  Dump   `json:"init"`
	Calls []Call `json:"calls"`
	// Loose programs (kind conflicts, injected faults, cancellations) are judged by the second sentence of the property only:
	// termination, handle balance, nothing outside the destination changes. The back ends are not compared with each other.
	Loose bool `json:"loose,omitempty"`
}

type step struct {
	call    Call
	res     [2]Result
	open    [2]int64
	after   [2]Dump
	before  [2]Dump
	dumpErr [2]error
	skip    [2]bool
}

var verbose = os.Getenv("VERIF_C06_VERBOSE") != ""

var scratch string
var progSeq int

func setup(p Program) ([2]*backend, error) {
	root := fmt.Sprintf("%s/p%d", scratch, progSeq)
	var bes [2]*backend
	for i, n := range []string{"os", "mem"} {
		b, err := newBackend(n, root)
		if err != nil {
			return bes, err
		}
		for _, e := range p.Init {
			full := root + "/" + e.Path
			if e.Dir {
				err = b.inner.MkdirAll(full, 0o755)
			} else {
				if i := strings.LastIndex(full, "/"); i > 0 {
					_ = b.inner.MkdirAll(full[:i], 0o755)
				}
				var f interface {
					Write([]byte) (int, error)
					Close() error
				}
				f, err = b.inner.Create(full)
				if err == nil {
					_, err = f.Write([]byte(e.Data))
					_ = f.Close()
				}
			}
			if err != nil {
				return bes, err
			}
		}
		bes[i] = b
	}
	return bes, nil
}

// runProgram executes the program on both back ends, applies the oracles, and returns the trace
// (truncated at the first call after which the back ends no longer agree, or a call hung).
// outOfTime: the run's time budget (set by the supervisor) is exhausted — hung calls cost seconds each; the run then
// stops starting new programs and says so in the evidence.
func outOfTime(r *h.Run) bool {
	var dl int64
	fmt.Sscan(os.Getenv("VERIF_C06_DEADLINE"), &dl)
	if dl == 0 || time.Now().Unix() < dl {
		return false
	}
	if !budgetNoted {
		budgetNoted = true
		r.Note(fmt.Sprintf("time budget exhausted after %d programs: remaining programs not run", progSeq))
	}
	return true
}

var budgetNoted bool

func runProgram(r *h.Run, p Program, strict bool, emit bool) []step {
	if outOfTime(r) {
		return nil
	}
	progSeq++
	for _, x := range strings.Split(os.Getenv("VERIF_C06_SKIP"), ",") {
		if x == fmt.Sprint(progSeq) {
			return nil // this program killed an earlier attempt of this run; the supervisor has reported it
		}
	}
	if bs, err := json.Marshal(map[string]any{"signature": "crash", "seq": progSeq, "replay": p}); err == nil {
		// kept only if the process dies inside the library (a fatal runtime error cannot be recovered)
		_ = os.WriteFile(filepath.Join(r.Out, "current_program.json"), bs, 0o644)
	}
	bes, err := setup(p)
	if err != nil {
		r.Note("setup failed: " + err.Error())
		return nil
	}
	defer func() { _ = os.RemoveAll(bes[0].root) }()
	var trace []step
	var prev [2]Dump
	var tainted [2]bool
	for i := range bes {
		prev[i], _ = bes[i].dump()
	}
	if prev[0].String() != prev[1].String() {
		r.Note("initial trees differ: " + prev[0].String() + " vs " + prev[1].String())
		return nil
	}
	for ci, c := range p.Calls {
		var s step
		s.call = c
		_ = os.WriteFile(filepath.Join(r.Out, "current_call"), []byte(fmt.Sprint(ci)), 0o644)
		for i, b := range bes {
			s.before[i] = prev[i]
			if tainted[i] {
				s.skip[i] = true
				s.after[i] = prev[i]
				continue
			}
			s.res[i], s.open[i] = b.run(c)
			s.after[i], s.dumpErr[i] = b.dump()
			if (c.Op == "createfile" || c.Op == "openfile") && b.name == "mem" && len(p.Calls) > 1 && !parseArg(c.P).empty && prev[i].kind(parseArg(c.P).comps) == kDir {
				// CreateFile over a DIRECTORY (a kind conflict; the directory is the call's own destination) leaves afero's MemMapFs
				// internally inconsistent in the same way: the in-memory back end is not used for the rest of such a program.
				tainted[i] = true
			}
			if !strict && b.name == "mem" && len(p.Calls) > 1 && unconstrained(c, prev[i]) {
				// any kind-conflict call may leave MemMapFs inconsistent (it registers entries below files / over directories);
				// such a call is judged on its own, the in-memory back end is not used for the rest of the program
				tainted[i] = true
			}
			if c.FaultAt > 0 && b.name == "mem" && len(p.Calls) > 1 {
				// An injected I/O error can make Exists() answer false for a directory; Touch / WriteFile then create a file over it,
				// which leaves afero's MemMapFs internally inconsistent (a later, innocent Rename aborts the process).  Faulted calls
				// are judged on their own (and swept on fresh file systems by the corpus); the in-memory back end is not used for the
				// rest of such a program.
				tainted[i] = true
			}
		}
		r.Eval()
		r.Count("op=" + c.Op)
		if verbose {
			fmt.Printf("  %-30s os: %-22s mem: %-22s", c.String(), s.res[0].String(), s.res[1].String())
			if s.after[0].String() != prev[0].String() || s.after[0].String() != s.after[1].String() {
				fmt.Printf(" -> %s", trunc(s.after[0].String(), 300))
			}
			if s.after[0].String() != s.after[1].String() {
				fmt.Printf("   MEM: %s", trunc(s.after[1].String(), 300))
			}
			if s.open[0] != 0 || s.open[1] != 0 {
				fmt.Printf("  OPEN HANDLES %d %d", s.open[0], s.open[1])
			}
			fmt.Println()
		}
		trace = append(trace, s)
		stop := oracles(r, p, ci, s, strict)
		account(r, s)
		if stop {
			break
		}
		prev = s.after
	}
	if !strict {
		emit = false
	}
	if emit {
		emitCase(r, p, trace)
	}
	return trace
}

// supervise runs the whole harness in a child process: a fatal runtime error inside the library or a back end (which cannot
// be recovered in-process) is then reported as a failure of the property ("a call terminates") with the program that
// was running, instead of leaving the check without observations.
func supervise() {
	tmp, terr := os.MkdirTemp("", "verif-c06-*")
	if terr != nil {
		fmt.Fprintln(os.Stderr, "cannot create scratch directory:", terr)
		os.Exit(1)
	}
	defer os.RemoveAll(tmp)
	out := ""
	for i, a := range os.Args {
		if a == "-out" && i+1 < len(os.Args) {
			out = os.Args[i+1]
		}
	}
	budget := 75 * time.Second
	deep := false
	for i, a := range os.Args {
		if a == "-tier" && i+1 < len(os.Args) && os.Args[i+1] == "thorough" {
			budget = 15 * time.Minute
		}
		if a == "-deep" {
			deep = true
		}
	}
	if deep {
		// a tie broke: the search is for ONE failing input; the corpus comes first and hung calls cost seconds each
		budget = 4 * time.Minute
	}
	deadline := time.Now().Add(budget)
	var crashes []h.Failure
	var skip []string
	for attempt := 0; attempt < 8; attempt++ {
		_ = os.Remove(filepath.Join(out, "obs.json"))
		cmd := exec.Command(os.Args[0], os.Args[1:]...)
		cmd.Env = append(os.Environ(), "VERIF_C06_CHILD=1", "VERIF_C06_SCRATCH="+tmp, "VERIF_C06_SKIP="+strings.Join(skip, ","),
			"VERIF_C06_DEADLINE="+fmt.Sprint(deadline.Unix()))
		cmd.Stdout = os.Stdout
		var errb strings.Builder
		cmd.Stderr = &errb
		err := cmd.Run()
		if _, serr := os.Stat(filepath.Join(out, "obs.json")); serr == nil && err == nil {
			os.Stderr.WriteString(errb.String())
			break
		}
		// the child died: note the program that was running, and run again without it
		var cur struct {
			Seq    int     `json:"seq"`
			Replay Program `json:"replay"`
		}
		bs, _ := os.ReadFile(filepath.Join(out, "current_program.json"))
		_ = json.Unmarshal(bs, &cur)
		idx := 0
		if b2, e2 := os.ReadFile(filepath.Join(out, "current_call")); e2 == nil {
			fmt.Sscan(string(b2), &idx)
		}
		p := cur.Replay
		sig, what := "process-abort", "the harness process died"
		if idx < len(p.Calls) {
			what = fmt.Sprintf("%s aborted the whole process", p.Calls[idx])
			sig = "process-abort:" + p.Calls[idx].Op
			p.Calls = p.Calls[:idx+1]
		}
		first := strings.SplitN(strings.TrimSpace(errb.String()), "\n", 2)[0]
		crashes = append(crashes, h.Failure{Signature: sig, What: what + ": " + trunc(first, 200), Replay: p})
		skip = append(skip, fmt.Sprint(cur.Seq))
		os.Stderr.WriteString(trunc(errb.String(), 1500) + "\n")
		if fs, _ := filepath.Glob(filepath.Join(out, "cases_*.v")); fs != nil {
			for _, f := range fs {
				_ = os.Remove(f)
			}
		}
	}
	if len(crashes) == 0 {
		return
	}
	var obs map[string]any
	bs, err := os.ReadFile(filepath.Join(out, "obs.json"))
	if err != nil || json.Unmarshal(bs, &obs) != nil {
		obs = map[string]any{"property": "C06", "evaluations": 0, "distinct_nontrivial": 0, "cases_emitted": 0, "samples": []any{},
			"distribution": map[string]int{}, "notes": []any{}, "rule": "", "failure_counts": map[string]any{}, "failures": []any{}}
	}
	fl, _ := obs["failures"].([]any)
	fc, _ := obs["failure_counts"].(map[string]any)
	if fc == nil {
		fc = map[string]any{}
	}
	for _, c := range crashes {
		fl = append(fl, c)
		fc[c.Signature] = 1
	}
	obs["failures"], obs["failure_counts"] = fl, fc
	js, _ := json.MarshalIndent(obs, "", " ")
	_ = os.WriteFile(filepath.Join(out, "obs.json"), js, 0o644)
}

func main() {
	if os.Getenv("VERIF_C06_CHILD") == "" && os.Getenv("VERIF_C06_PROGRAM") == "" {
		supervise()
		return
	}
	r := h.Init("C06")
	r.Imports = []string{"GU.C06.Model", "GU.C06.Vfs"}
	r.CheckFn = "check_case_m"
	r.ShardSize = 60
	r.Rule("programs of 1..40 API calls (mkdir, touch, write, read, ls, lsrec, tree, subdirs, findall, exists/isfile/isdir/isempty, size, hash, rm, clean, copy, copytofile, copytodir, move, relpath) " +
		"over paths of 1..3 components from a 6-name alphabet (+ trailing separators, the empty string, the sandbox root), on the OS and the in-memory back end from the same initial tree; " +
		"non-trivial = a call that changed the tree or returned a non-empty listing / content; distinct by (op, shape of arguments against the tree before the call, result).")
	var err error
	if pre := os.Getenv("VERIF_C06_SCRATCH"); pre != "" {
		scratch = pre // created and removed by the supervising parent
	} else {
		scratch, err = os.MkdirTemp("", "verif-c06-*")
		defer os.RemoveAll(scratch)
	}
	if err != nil {
		r.Note("cannot create scratch directory: " + err.Error())
		r.Finish()
		os.Exit(1)
	}

	var rp Program
	if _, ok := r.ReplayObject(&rp); ok {
		verbose = true
		runProgram(r, rp, !rp.Loose, false)
		clean, raced := rp, false
		clean.Calls = append([]Call{}, rp.Calls...)
		for i := range clean.Calls {
			if clean.Calls[i].MkdirRace != "" {
				clean.Calls[i].MkdirRace, raced = "", true
			}
		}
		if raced && !rp.Loose {
			raceTwin(r, clean, rp)
		}
		r.Finish()
		return
	}
	if f := os.Getenv("VERIF_C06_PROGRAM"); f != "" {
		// development aid: run a program written as "op p [q] [data]" lines
		verbose = true
		for _, pr := range parsePrograms(f) {
			fmt.Println("--- program, init " + pr.Init.String())
			runProgram(r, pr, os.Getenv("VERIF_C06_LOOSE") == "", false)
		}
		r.Finish()
		return
	}
	corpus(r)
	generate(r)
	r.Finish()
}

func trunc(s string, n int) string {
	if len(s) > n {
		return s[:n] + "..."
	}
	return s
}

func account(r *h.Run, s step) {
	c := s.call
	sh := shape(c, s.before[0])
	changed := s.after[0].String() != s.before[0].String()
	nontrivial := changed || (s.res[0].HasNm && len(s.res[0].Names) > 0) || (s.res[0].Data != nil && *s.res[0].Data != "")
	if c.FaultAt > 0 {
		r.Count("fault-injected")
	}
	if c.CancelAt > 0 {
		r.Count("cancelled-mid-call")
	}
	if unconstrained(c, s.before[0]) {
		r.Count("kind-conflict-or-outside-model")
	}
	if s.res[0].Err != "" {
		r.Count("result=err:" + s.res[0].Err)
	} else {
		r.Count("result=ok")
	}
	if nontrivial {
		r.Distinct(sh + "|" + s.res[0].Err + fmt.Sprintf("|%v|f%d|c%d", changed, c.FaultAt, c.CancelAt))
	}
	r.Sample(map[string]any{"call": c.String(), "shape": sh, "os": s.res[0].String(), "mem": s.res[1].String(), "tree_after": trunc(s.after[0].String(), 160)})
}
