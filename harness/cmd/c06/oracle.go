// C06 harness, part 2: the oracles (evaluated on the implementation's observations only) and the Coq case writer.
package main

import (
	"fmt"
	"strings"

	"verif/harness/internal/h"
)

// ---------- path arguments against a dump ----------

type parg struct {
	empty bool
	comps []string
	trail bool
}

func parseArg(s string) parg {
	if s == "" {
		return parg{empty: true}
	}
	if s == "/" {
		return parg{trail: true}
	}
	a := parg{}
	if strings.HasSuffix(s, "/") {
		a.trail = true
		s = strings.TrimSuffix(s, "/")
	}
	a.comps = strings.Split(s, "/")
	return a
}

func (a parg) path() string { return strings.Join(a.comps, "/") }

const (
	kMissing = iota
	kFile
	kDir
)

func (d Dump) kind(comps []string) int {
	if len(comps) == 0 {
		return kDir
	}
	e, ok := d.Lookup(strings.Join(comps, "/"))
	if !ok {
		return kMissing
	}
	if e.Dir {
		return kDir
	}
	return kFile
}

func (d Dump) throughFile(comps []string) bool {
	for i := 1; i < len(comps); i++ {
		if d.kind(comps[:i]) == kFile {
			return true
		}
	}
	return false
}

func (d Dump) hasChildren(comps []string) bool {
	pre := strings.Join(comps, "/") + "/"
	if len(comps) == 0 {
		return len(d) > 0
	}
	for _, e := range d {
		if strings.HasPrefix(e.Path, pre) {
			return true
		}
	}
	return false
}

func within(parent, p []string) bool { // p is parent or below
	if len(parent) > len(p) {
		return false
	}
	for i := range parent {
		if parent[i] != p[i] {
			return false
		}
	}
	return true
}

func eqPath(a, b []string) bool { return len(a) == len(b) && within(a, b) }

func join(a []string, b ...string) []string { return append(append([]string{}, a...), b...) }

// unconstrained: the call has a kind conflict on this tree (a file where a directory is needed or the reverse), or is
// outside the model (removing / moving the sandbox root).  The first sentence of the property demands nothing of it.
// Written from the property text; the Coq model's own classification is cross-checked against this one by check_case.
func unconstrained(c Call, d Dump) bool {
	a, b := parseArg(c.P), parseArg(c.Q)
	argConf := func(x parg) bool {
		return !x.empty && (d.throughFile(x.comps) || (x.trail && d.kind(x.comps) == kFile))
	}
	needDir := func(x parg) bool { return !x.empty && (d.throughFile(x.comps) || d.kind(x.comps) == kFile) }
	needFile := func(x parg) bool {
		return !x.empty && (d.throughFile(x.comps) || d.kind(x.comps) == kDir || (x.trail && d.kind(x.comps) == kFile))
	}
	base := func(x parg) string {
		if len(x.comps) == 0 {
			return "?root"
		}
		return x.comps[len(x.comps)-1]
	}
	switch c.Op {
	case "mkdir", "ls", "lsrec", "tree", "subdirs", "findall", "clean":
		return needDir(a)
	case "write", "createfile", "openfile":
		return !a.empty && (d.throughFile(a.comps) || a.trail || d.kind(a.comps) == kDir)
	case "movebetween":
		// copy, then removal of the source
		if c.P == c.Q || b.empty || a.empty {
			return false
		}
		if len(a.comps) == 0 {
			return true
		}
		return unconstrained(Call{Op: "copy", P: c.P, Q: c.Q}, d)
	case "read", "size", "hash":
		return needFile(a)
	case "touch", "exists", "isfile", "isdir", "isempty":
		return argConf(a)
	case "rm":
		return !a.empty && (len(a.comps) == 0 || argConf(a))
	case "relpath":
		return false
	case "copytofile":
		if a.empty {
			return false
		}
		if argConf(a) || d.kind(a.comps) == kDir {
			return true
		}
		if d.kind(a.comps) != kFile || b.empty {
			return false
		}
		if argConf(b) || d.kind(b.comps) == kDir {
			return true
		}
		if d.kind(b.comps) == kMissing && b.trail {
			return false
		}
		return unconstrained(Call{Op: "copy", P: c.P, Q: c.Q}, d)
	case "copytodir":
		if b.empty {
			return false
		}
		if needDir(b) || argConf(a) {
			return true
		}
		// after mkdir -p of the destination
		d2 := append(Dump{}, d...)
		for i := 1; i <= len(b.comps); i++ {
			if d2.kind(b.comps[:i]) == kMissing {
				d2 = append(d2, Entry{Path: strings.Join(b.comps[:i], "/"), Dir: true})
			}
		}
		return unconstrained(Call{Op: "copy", P: c.P, Q: c.Q}, d2)
	case "copy":
		if c.P == c.Q || b.empty || a.empty {
			return false
		}
		if argConf(a) || argConf(b) {
			return true
		}
		switch d.kind(a.comps) {
		case kMissing:
			return false
		case kFile:
			dst := b.comps
			if d.kind(b.comps) == kDir || (d.kind(b.comps) == kMissing && b.trail) {
				dst = join(b.comps, base(a))
			}
			return !eqPath(dst, a.comps) && d.kind(dst) == kDir
		default:
			if d.kind(b.comps) == kFile {
				return true
			}
			if len(a.comps) == 0 {
				return false
			}
			dst := b.comps
			if d.kind(b.comps) == kDir {
				dst = join(b.comps, base(a))
			}
			if within(a.comps, dst) || within(dst, a.comps) {
				return false // refused: into itself / over one of its own parents
			}
			if d.throughFile(dst) {
				return true
			}
			// merge conflicts: an entry below the source whose image exists with the other kind
			src := a.path()
			for _, e := range append(Dump{{Path: src, Dir: true}}, d...) {
				if e.Path != src && !strings.HasPrefix(e.Path, src+"/") {
					continue
				}
				img := join(dst, strings.Split(strings.TrimPrefix(strings.TrimPrefix(e.Path, src), "/"), "/")...)
				if e.Path == src {
					img = dst
				}
				k := d.kind(img)
				if (k == kFile && e.Dir) || (k == kDir && !e.Dir) {
					return true
				}
			}
			return false
		}
	case "move":
		if c.P == c.Q || b.empty || a.empty {
			return false
		}
		if len(a.comps) == 0 || argConf(a) || argConf(b) {
			return true
		}
		ks := d.kind(a.comps)
		if ks == kMissing {
			return false
		}
		dst := b.comps
		if d.kind(b.comps) == kDir || (d.kind(b.comps) == kMissing && b.trail) {
			dst = join(b.comps, base(a))
		}
		if eqPath(dst, a.comps) || (ks == kDir && within(a.comps, dst)) {
			return false
		}
		if d.throughFile(dst) { // cannot happen after the argument checks; kept for symmetry with mkdir -p of the parent
			return true
		}
		kd := d.kind(dst)
		return kd != kMissing && kd != ks
	}
	return false
}

// shape describes a call against the tree before it (used in failure signatures and for counting distinct cases).
func shape(c Call, d Dump) string {
	one := func(s string) string {
		a := parseArg(s)
		if a.empty {
			return "empty"
		}
		if len(a.comps) == 0 {
			return "root"
		}
		r := []string{"missing", "file", "dir"}[d.kind(a.comps)]
		if d.kind(a.comps) == kDir && !d.hasChildren(a.comps) {
			r = "emptydir"
		}
		if d.throughFile(a.comps) {
			r += "-through-file"
		} else if d.kind(a.comps) == kMissing && d.kind(a.comps[:len(a.comps)-1]) == kMissing {
			r += "-parent-missing"
		}
		if a.trail {
			r += "/"
		}
		return r
	}
	s := c.Op + "(" + one(c.P)
	if twoPaths(c.Op) {
		a, b := parseArg(c.P), parseArg(c.Q)
		rel := "disjoint"
		switch {
		case a.empty || b.empty:
			rel = "-"
		case c.P == c.Q:
			rel = "same-string"
		case eqPath(a.comps, b.comps):
			rel = "same-path"
		case within(a.comps, b.comps):
			rel = "dest-inside-src"
		case within(b.comps, a.comps) && len(b.comps)+1 == len(a.comps):
			rel = "dest-is-parent"
		case within(b.comps, a.comps):
			rel = "src-inside-dest"
		}
		s += "," + one(c.Q) + "," + rel
	}
	return s + ")"
}

// ---------- frame oracle: nothing outside the destination (and the source of move / rm / clean) changes ----------

func frameViolation(c Call, before, after Dump) string {
	var roots [][]string
	add := func(s string) {
		a := parseArg(s)
		if !a.empty {
			roots = append(roots, a.comps)
		}
	}
	switch c.Op {
	case "mkdir", "touch", "write", "rm", "clean", "createfile", "openfile":
		add(c.P)
	case "copy", "copytofile", "copytodir":
		add(c.Q)
	case "move", "movebetween":
		add(c.P)
		add(c.Q)
	}
	bm := map[string]Entry{}
	for _, e := range before {
		bm[e.Path] = e
	}
	am := map[string]Entry{}
	for _, e := range after {
		am[e.Path] = e
	}
	check := func(path string, was, is *Entry) string {
		comps := strings.Split(path, "/")
		for _, r := range roots {
			if within(r, comps) {
				return ""
			}
			// creation of a missing ancestor directory of a destination (mkdir -p of the parents)
			if was == nil && is != nil && is.Dir && within(comps, r) {
				return ""
			}
		}
		switch {
		case was == nil:
			return "created " + path
		case is == nil:
			return "removed " + path
		default:
			return "altered " + path
		}
	}
	for p, e := range bm {
		e := e
		if x, ok := am[p]; !ok {
			if v := check(p, &e, nil); v != "" {
				return v
			}
		} else if x != e {
			x := x
			if v := check(p, &e, &x); v != "" {
				return v
			}
		}
	}
	for p, x := range am {
		x := x
		if _, ok := bm[p]; !ok {
			if v := check(p, nil, &x); v != "" {
				return v
			}
		}
	}
	// a copy never changes its source
	if c.Op == "copy" || c.Op == "copytofile" || c.Op == "copytodir" {
		a := parseArg(c.P)
		if !a.empty {
			for p, e := range bm {
				if within(a.comps, strings.Split(p, "/")) {
					if x, ok := am[p]; !ok || x != e {
						return "copy changed its source " + p
					}
				}
			}
		}
	}
	return ""
}

// moveLost: a file that was at or below the source and is, after the call, neither where it was nor at the corresponding
// place below the destination (dest/<rel> or dest/base(src)/<rel>).
func moveLost(c Call, before, after Dump) string {
	a, b := parseArg(c.P), parseArg(c.Q)
	if a.empty || b.empty || len(a.comps) == 0 {
		return ""
	}
	src := a.path()
	for _, e := range before {
		if e.Dir || (e.Path != src && !strings.HasPrefix(e.Path, src+"/")) {
			continue
		}
		rel := strings.TrimPrefix(e.Path, src)
		cands := []string{e.Path, strings.Join(b.comps, "/") + rel, strings.Join(join(b.comps, a.comps[len(a.comps)-1]), "/") + rel}
		found := false
		for _, p := range cands {
			if x, ok := after.Lookup(strings.TrimPrefix(p, "/")); ok && !x.Dir && x.Data == e.Data {
				found = true
			}
		}
		if !found {
			return e.Path
		}
	}
	return ""
}

func destThroughFile(c Call, d Dump) bool {
	x := c.P
	if twoPaths(c.Op) {
		x = c.Q
	}
	a := parseArg(x)
	return !a.empty && d.throughFile(a.comps)
}

// oracles applies the property's oracles to one executed call; returns true when the program must stop here.
func oracles(r *h.Run, p Program, ci int, s step, strict bool) (stop bool) {
	c := s.call
	sh := shape(c, s.before[0])
	replay := Program{Init: p.Init, Calls: p.Calls[:ci+1], Loose: p.Loose}
	for i, bn := range []string{"os", "mem"} {
		if s.skip[i] {
			continue
		}
		shp := shape(c, s.before[i])
		if s.res[i].Hung {
			r.Fail("hang:"+shp+":"+bn, fmt.Sprintf("%s did not return within %v on the %s back end", c, callTimeout, bn), replay)
			stop = true
		}
		if s.res[i].Panic != "" {
			r.Fail("panic:"+shp+":"+bn, fmt.Sprintf("%s panicked on the %s back end: %s", c, bn, s.res[i].Panic), replay)
		}
		if s.open[i] != 0 && !s.res[i].Hung {
			how := "success"
			if c.FaultAt > 0 {
				how = "fault"
			} else if c.CancelAt > 0 {
				how = "cancel"
			} else if s.res[i].Err != "" {
				how = "failure"
			}
			r.Fail("handle-leak:"+c.Op+":"+how+":"+bn, fmt.Sprintf("%s left %d file handle(s) open on the %s back end (result %s)", c, s.open[i], bn, s.res[i]), replay)
			stop = true
		}
		if s.dumpErr[i] != nil {
			r.Note("dump failed: " + s.dumpErr[i].Error())
			return true
		}
		// mkdir -p: MkDir succeeds whenever the directory exists afterwards (also when the back end's MkdirAll reported an error)
		if c.Op == "mkdir" && c.MkdirRace != "" && c.FaultAt == 0 && c.CancelAt == 0 && s.res[i].Err != "" && !s.res[i].Hung && !unconstrained(c, s.before[i]) {
			if e, ok := s.after[i].Lookup(parseArg(c.P).path()); ok && e.Dir {
				r.Fail("mkdir-p-not-tolerant:"+c.MkdirRace+":"+bn, fmt.Sprintf("%s returned %s on the %s back end although the directory exists afterwards", c, s.res[i], bn), replay)
			}
		}
		// WriteFile: after a successful write the file holds exactly the bytes written
		if c.Op == "write" && s.res[i].Err == "" && !s.res[i].Hung && c.FaultAt == 0 && c.CancelAt == 0 && !unconstrained(c, s.before[i]) {
			if e, ok := s.after[i].Lookup(parseArg(c.P).path()); !ok || e.Dir || e.Data != c.Data {
				r.Fail("write-content-differs:"+bn, fmt.Sprintf("%s succeeded on the %s back end but the file holds %q", c, bn, e.Data), replay)
			}
		}
		// mv: what a successful move moves is afterwards at the destination (or, when it was already there, still in place):
		// no file of the source may simply be gone
		if (c.Op == "move" || c.Op == "movebetween") && s.res[i].Err == "" && !s.res[i].Hung && c.FaultAt == 0 && c.CancelAt == 0 && !unconstrained(c, s.before[i]) {
			if lost := moveLost(c, s.before[i], s.after[i]); lost != "" {
				r.Fail("move-lost-source:"+c.Op+":"+bn, fmt.Sprintf("%s returned no error on the %s back end but %s is neither at the destination nor in place any more (before %s)", c, bn, lost, trunc(s.before[i].String(), 160)), replay)
			}
		}
		if v := frameViolation(c, s.before[i], s.after[i]); v != "" && !s.res[i].Hung {
			sig := "outside-destination:" + shp + ":" + bn
			if destThroughFile(c, s.before[i]) {
				// one phenomenon whatever the source: the path to the destination goes through a file
				sig = "outside-destination:dest-through-file:" + c.Op + ":" + bn
			}
			r.Fail(sig, fmt.Sprintf("%s %s on the %s back end (before %s)", c, v, bn, trunc(s.before[i].String(), 200)), replay)
		}
	}
	if !strict {
		return
	}
	same := s.res[0].Equal(s.res[1]) && s.after[0].String() == s.after[1].String()
	if !same {
		stop = true
		if !unconstrained(c, s.before[0]) && !s.res[0].Hung && !s.res[1].Hung {
			r.Fail("backends-disagree:"+sh, fmt.Sprintf("%s on %s: os -> %s %s ; mem -> %s %s", c, trunc(s.before[0].String(), 200),
				s.res[0], trunc(s.after[0].String(), 200), s.res[1], trunc(s.after[1].String(), 200)), replay)
		}
	}
	// hash: the digest is the digest of the file's bytes (independent reference digest)
	if c.Op == "hash" && s.res[0].Err == "" && s.res[0].Data != nil {
		if e, ok := s.before[0].Lookup(parseArg(c.P).path()); !ok || e.Dir || sha(e.Data) != *s.res[0].Data {
			r.Fail("hash-differs", fmt.Sprintf("%s is not the SHA-256 of the file's bytes", c), replay)
		}
	}
	return
}

// ---------- Coq case writer ----------

func coqPath(comps []string) string {
	ts := make([]string, len(comps))
	for i, c := range comps {
		ts[i] = h.Z(int64(nameID(c)))
	}
	return h.List(ts)
}

func coqRel(s string) string { // a '/'-separated path relative to the root ("/" = the root)
	if s == "/" || s == "" {
		return "[]"
	}
	return coqPath(strings.Split(strings.TrimSuffix(s, "/"), "/"))
}

func coqArg(s string) string {
	a := parseArg(s)
	if a.empty {
		return "PEmpty"
	}
	return "(P " + coqPath(a.comps) + " " + h.Bool(a.trail) + ")"
}

func coqTree(d Dump) string {
	ts := make([]string, len(d))
	for i, e := range d {
		if e.Dir {
			ts[i] = "(" + coqRel(e.Path) + ", D)"
		} else {
			ts[i] = "(" + coqRel(e.Path) + ", F " + h.Str(e.Data) + ")"
		}
	}
	return h.List(ts)
}

var coqOps = map[string]string{"mkdir": "Mkdir", "touch": "Touch", "write": "Write", "read": "Read", "ls": "Ls", "lsrec": "LsRec",
	"tree": "TreeL", "subdirs": "SubDirs", "findall": "FindAll", "exists": "Exists", "isfile": "IsFile", "isdir": "IsDir",
	"isempty": "IsEmpty", "size": "Size", "hash": "Hash", "rm": "Rm", "clean": "Clean", "copy": "Copy", "copytofile": "CopyToFile",
	"copytodir": "CopyToDir", "move": "Move", "relpath": "RelPath", "movebetween": "MoveBetween", "createfile": "CreateFile", "openfile": "OpenCreate"}

func coqCall(c Call) string {
	s := "(" + coqOps[c.Op] + " " + coqArg(c.P)
	switch {
	case twoPaths(c.Op):
		s += " " + coqArg(c.Q)
	case c.Op == "write":
		s += " " + h.Str(c.Data)
	case c.Op == "lsrec":
		s += " " + h.Bool(c.Flag)
	}
	return s + ")"
}

var coqErr = map[string]string{"notfound": "ENotFound", "invalid": "EInvalid", "undefined": "EUndefined", "empty": "EEmpty",
	"exists": "EExists", "conflict": "EConflict", "cancelled": "ECancelled"}

func coqRes(c Call, res Result, before Dump) string {
	switch {
	case res.Err != "":
		if k, ok := coqErr[res.Err]; ok {
			return "(RErr " + k + ")"
		}
		return "(RErr EOther)"
	case res.Bool != nil:
		return "(RBool " + h.Bool(*res.Bool) + ")"
	case res.HasNm:
		ts := make([]string, len(res.Names))
		for i, n := range res.Names {
			ts[i] = coqRel(n)
		}
		return "(RNames " + h.List(ts) + ")"
	case res.Num != nil:
		return "(RNum " + h.Z(*res.Num) + ")"
	case res.Data != nil:
		if c.Op == "hash" {
			// projection: the content this digest is the digest of
			for _, e := range before {
				if !e.Dir && sha(e.Data) == *res.Data {
					return "(RData " + h.Str(e.Data) + ")"
				}
			}
			return "(RErr EOther)"
		}
		return "(RData " + h.Str(*res.Data) + ")"
	}
	return "ROk"
}

func emitCase(r *h.Run, p Program, trace []step) {
	var steps []string
	for _, s := range trace {
		if !s.res[0].Equal(s.res[1]) || s.after[0].String() != s.after[1].String() || s.res[0].Hung || s.res[0].Panic != "" {
			break // the oracle has reported (or excused) the disagreement; the model is compared on the common prefix
		}
		after := "None"
		if s.after[0].String() != s.before[0].String() {
			after = "(Some " + coqTree(s.after[0]) + ")"
		}
		steps = append(steps, fmt.Sprintf("(mkStep %s %s %s %s)", coqCall(s.call), h.Bool(unconstrained(s.call, s.before[0])),
			coqRes(s.call, s.res[0], s.before[0]), after))
	}
	if len(steps) == 0 {
		return
	}
	init, _ := trace[0].before[0], 0
	r.Case(fmt.Sprintf("(mkCase %s %s)", coqTree(init), h.List(steps)), map[string]any{"init": p.Init, "calls": p.Calls})
}
