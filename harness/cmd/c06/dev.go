package main

import (
	"os"
	"strings"
)

// parseProgram reads a development script: lines "init d a/b" / "init f a/x data" / "<op> <p> [<q>|<data>] [flag]".
// A path written as '-' is the empty string.
func parsePrograms(file string) []Program {
	bs, _ := os.ReadFile(file)
	var out []Program
	for _, part := range strings.Split(string(bs), "---") {
		out = append(out, parseProgram(part))
	}
	return out
}

func parseProgram(text string) Program {
	bs := []byte(text)
	var p Program
	fix := func(s string) string {
		if s == "-" {
			return ""
		}
		return s
	}
	for _, ln := range strings.Split(string(bs), "\n") {
		f := strings.Fields(ln)
		if len(f) == 0 || strings.HasPrefix(f[0], "#") {
			continue
		}
		if f[0] == "init" {
			e := Entry{Path: f[2], Dir: f[1] == "d"}
			if len(f) > 3 {
				e.Data = f[3]
			}
			p.Init = append(p.Init, e)
			continue
		}
		c := Call{Op: f[0]}
		if len(f) > 1 {
			c.P = fix(f[1])
		}
		if len(f) > 2 {
			if twoPaths(c.Op) {
				c.Q = fix(f[2])
			} else if c.Op == "write" {
				c.Data = fix(f[2])
			} else {
				c.Flag = f[2] == "true"
			}
		}
		p.Calls = append(p.Calls, c)
	}
	return p
}
