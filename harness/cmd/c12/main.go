// C12 harness: drives the REAL timeout / cancellation runners, Parallelise and the cancel-function store of
// utils/parallelisation, evaluates the property's oracle directly on what the implementation did (independently of
// the Coq model) and emits Coq correspondence cases for GU.C12.Model.check_case.
//
// Timing discipline (the machine is shared and loaded): a verdict that depends on time is never taken on one look.
//   - "the runner did not return": declared only after the call has stayed blocked for three successive grace
//     periods (>= 6 s beyond the latest instant at which it could legitimately return) while a probe goroutine shows
//     that this process itself was being scheduled (largest gap between 1 ms ticks is recorded);
//   - "wrong result" in a class that is far (>= 250 ms) from the deadline, and "goroutines left": the scenario is
//     re-run 3 times in isolation and reported only if it fails 3 of 3;
//   - verdicts that are ordered by happens-before (action not finished when the runner returned, context not
//     cancelled after the return, timeout reported before the deadline on the monotonic clock, an invocation missed
//     by a Cancel that began after the registration returned) need no confirmation.
package main

import (
	"context"
	"errors"
	"fmt"
	"reflect"
	"runtime"
	"sort"
	"strings"
	"sync"
	"sync/atomic"
	"time"

	"github.com/ARM-software/golang-utils/utils/commonerrors"
	"github.com/ARM-software/golang-utils/utils/parallelisation"
	"github.com/petermattis/goid"
	deadlock "github.com/sasha-s/go-deadlock"

	"verif/harness/internal/h"
)

var errAction = errors.New("harness: the action's own error")

// ---------------------------------------------------------------------------------------------------------------
// scenarios

type scenario struct {
	Kind string `json:"kind"` // runner | parallelise | store-seq | store-storm

	// runner
	Runner    string `json:"runner,omitempty"` // timeout | context | store
	Out       string `json:"out,omitempty"`    // nil | err
	Looks     bool   `json:"looks,omitempty"`  // the action watches its stop signal / context
	Own       string `json:"own,omitempty"`    // early | near | late | never : when the action completes by itself
	TimeoutUs int64  `json:"timeout_us,omitempty"`
	DelayUs   int64  `json:"delay_us,omitempty"`  // instant at which the action completes by itself
	LingerUs  int64  `json:"linger_us,omitempty"` // having seen the signal, the action goes on for that long
	Parent    string `json:"parent,omitempty"`    // live | cancelled | deadline : parent context at the call
	Event     string `json:"event,omitempty"`     // "" | pcancel | pdeadline | ext : happens at EventUs during the call
	Flavour   string `json:"flavour,omitempty"`   // cause attached to the parent's end, see flavourCause
	EventUs   int64  `json:"event_us,omitempty"`
	Busy      int    `json:"busy,omitempty"` // busy goroutines spinning meanwhile
	Leak      bool   `json:"leak,omitempty"` // run alone and count the goroutines left afterwards

	// parallelise: result of the invocation for argument i: item i (>=0) or error number -(i+1); delay in microseconds
	Fails    []bool  `json:"fails,omitempty"`
	DelaysUs []int64 `json:"delays_us,omitempty"`
	Keep     bool    `json:"keep,omitempty"`

	// store
	Prog    []string   `json:"prog,omitempty"`    // store-seq: R | C | L
	Threads [][]string `json:"threads,omitempty"` // store-storm: program of every goroutine
}

type suspect struct {
	sig, what  string
	conclusive bool // ordered by happens-before / monotone in time: no confirmation needed
}

// ---------------------------------------------------------------------------------------------------------------
// scheduling-latency probe and busy goroutines

type probe struct {
	stop   atomic.Bool
	maxGap atomic.Int64
	done   chan struct{}
}

func startProbe() *probe {
	p := &probe{done: make(chan struct{})}
	go func() {
		defer close(p.done)
		last := time.Now()
		for !p.stop.Load() {
			time.Sleep(time.Millisecond)
			n := time.Now()
			if g := int64(n.Sub(last)); g > p.maxGap.Load() {
				p.maxGap.Store(g)
			}
			last = n
		}
	}()
	return p
}
func (p *probe) end() time.Duration {
	p.stop.Store(true)
	<-p.done
	return time.Duration(p.maxGap.Load())
}

type busy struct {
	stop atomic.Bool
	wg   sync.WaitGroup
}

func startBusy(n int) *busy {
	b := &busy{}
	for i := 0; i < n; i++ {
		b.wg.Add(1)
		go func() {
			defer b.wg.Done()
			x := 0
			for !b.stop.Load() {
				x++
				if x&0xfffff == 0 {
					runtime.Gosched()
				}
			}
		}()
	}
	return b
}
func (b *busy) end() { b.stop.Store(true); b.wg.Wait() }

// guarded runs f on its own goroutine and waits for it for `expected` plus three grace periods; false = still blocked
// (then f's goroutine is abandoned) — with the largest scheduling gap observed meanwhile
func guarded(expected time.Duration, f func()) (bool, time.Duration) {
	done := make(chan any, 1)
	go func() {
		defer func() { done <- recover() }()
		f()
	}()
	pr := startProbe()
	wd := time.NewTimer(expected + grace)
	defer wd.Stop()
	for i := 0; i < 3; i++ {
		select {
		case p := <-done:
			gap := pr.end()
			if p != nil {
				panic(p) // re-raised on the caller's goroutine, where `once` turns it into a failure
			}
			return true, gap
		case <-wd.C:
			wd.Reset(grace)
		}
	}
	return false, pr.end()
}

// waits until the number of goroutines is back to the baseline; returns the excess left
func settle(baseline int, patience time.Duration) int {
	deadline := time.Now().Add(patience)
	for {
		n := runtime.NumGoroutine()
		if n <= baseline {
			return 0
		}
		if time.Now().After(deadline) {
			return n - baseline
		}
		time.Sleep(2 * time.Millisecond)
	}
}

// ---------------------------------------------------------------------------------------------------------------
// runners

type runnerObs struct {
	Returned bool   `json:"returned"`
	Res      string `json:"res"` // nil | err | timeout | cancelled | other
	Started  bool   `json:"started"`
	Saw      bool   `json:"saw"`
	Finished bool   `json:"finished"` // the action had returned when the runner returned
	CtxDone  bool   `json:"ctx_done"` // the action's context was done right after the runner returned
	// not part of the correspondence
	ElapsedUs        int64 `json:"elapsed_us"`
	StoreCancelWorks bool  `json:"store_cancel_works"` // store runner: a later store.Cancel() cancels the action's context
	MaxGapUs         int64 `json:"max_gap_us,omitempty"`
	Left             int   `json:"left,omitempty"` // goroutines left (only measured when the scenario asks for it)
}

func kindOf(err error) string {
	switch {
	case err == nil:
		return "nil"
	case errors.Is(err, errAction):
		return "err"
	case commonerrors.Any(err, commonerrors.ErrTimeout):
		return "timeout"
	case commonerrors.Any(err, commonerrors.ErrCancelled):
		return "cancelled"
	}
	return "other"
}

const grace = 2 * time.Second

// runRunner executes one runner scenario on the real implementation.
func runRunner(sc scenario) runnerObs {
	var o runnerObs
	var started, saw, finished atomic.Bool
	baseline := runtime.NumGoroutine()
	T := time.Duration(sc.TimeoutUs) * time.Microsecond
	D := time.Duration(sc.DelayUs) * time.Microsecond
	L := time.Duration(sc.LingerUs) * time.Microsecond
	var out error
	if sc.Out == "err" {
		out = errAction
	}
	// body of the action; sig is the stop channel or ctx.Done()
	var actx atomic.Value
	body := func(stopB chan bool, doneC <-chan struct{}) error { // a nil channel is never ready
		started.Store(true)
		switch {
		case sc.Looks && sc.Own == "never":
			select {
			case <-stopB:
			case <-doneC:
			}
			saw.Store(true)
		case sc.Looks:
			tm := time.NewTimer(D)
			select {
			case <-stopB:
				saw.Store(true)
			case <-doneC:
				saw.Store(true)
			case <-tm.C:
			}
			tm.Stop()
		default:
			time.Sleep(D)
		}
		if saw.Load() && L > 0 {
			time.Sleep(L)
		}
		finished.Store(true)
		return out
	}
	// the parent context: how it is (or will be) ended, and with which CAUSE (sc.Flavour)
	var parent context.Context = context.Background()
	var parentCancel context.CancelFunc = func() {}
	cause, viaChild := flavourCause(sc.Flavour)
	eventAt := time.Duration(sc.EventUs) * time.Microsecond
	switch {
	case sc.Parent == "cancelled":
		p, c := context.WithCancelCause(context.Background())
		c(cause)
		parent, parentCancel = p, func() { c(nil) }
	case sc.Parent == "deadline":
		parent, parentCancel = context.WithDeadlineCause(context.Background(), time.Now().Add(-time.Second), cause)
		<-parent.Done()
	case sc.Event == "pcancel":
		p, c := context.WithCancelCause(context.Background())
		parent, parentCancel = p, func() { c(cause) } // called by the event timer (a later call is a no-op)
	case sc.Event == "pdeadline":
		parent, parentCancel = context.WithTimeoutCause(context.Background(), eventAt, cause)
	}
	if viaChild { // the runner is handed a plain child of the context that carries the cause
		child, cc := context.WithCancel(parent)
		defer cc()
		parent = child
	}
	defer parentCancel()
	store := parallelisation.NewCancelFunctionsStore()
	done := make(chan error, 1)
	var evTimer *time.Timer
	t0 := time.Now()
	switch sc.Event {
	case "pcancel":
		evTimer = time.AfterFunc(time.Duration(sc.EventUs)*time.Microsecond, parentCancel)
	case "ext":
		evTimer = time.AfterFunc(time.Duration(sc.EventUs)*time.Microsecond, store.Cancel)
	}
	go func() {
		var err error
		switch sc.Runner {
		case "timeout":
			err = parallelisation.RunActionWithTimeout(func(stop chan bool) error { return body(stop, nil) }, T)
		case "context":
			err = parallelisation.RunActionWithTimeoutAndContext(parent, T, func(ctx context.Context) error {
				actx.Store(ctx)
				return body(nil, ctx.Done())
			})
		case "store":
			err = parallelisation.RunActionWithTimeoutAndCancelStore(parent, T, store, func(ctx context.Context) error {
				actx.Store(ctx)
				return body(nil, ctx.Done())
			})
		}
		// observations ordered after the return by program order
		o.Finished = finished.Load() || !started.Load()
		o.Started = started.Load()
		o.Saw = saw.Load()
		if c, ok := actx.Load().(context.Context); ok && c != nil {
			o.CtxDone = c.Err() != nil
		}
		o.ElapsedUs = int64(time.Since(t0) / time.Microsecond)
		done <- err
	}()
	// latest legitimate return: max(D, T, event) + linger; then three grace periods
	latest := D
	if sc.Own == "never" || T > latest {
		latest = T
	}
	latest += L + time.Duration(sc.EventUs)*time.Microsecond
	pr := startProbe()
	var err error
	returned := false
	wd := time.NewTimer(latest + grace)
	for i := 0; i < 3 && !returned; i++ {
		select {
		case err = <-done:
			returned = true
		case <-wd.C:
			wd.Reset(grace)
		}
	}
	wd.Stop()
	gap := pr.end()
	if evTimer != nil {
		evTimer.Stop()
	}
	if !returned {
		return runnerObs{Returned: false, Started: started.Load(), Saw: saw.Load(), Finished: finished.Load(), MaxGapUs: int64(gap / time.Microsecond)}
	}
	o.Returned = true
	o.Res = kindOf(err)
	parentCancel()
	if sc.Leak {
		o.Left = settle(baseline, 5*time.Second)
	}
	if sc.Runner == "store" {
		store.Cancel()
		if c, ok := actx.Load().(context.Context); ok && c != nil {
			o.StoreCancelWorks = c.Err() != nil
		} else {
			o.StoreCancelWorks = true
		}
	}
	return o
}

var errCustomCause = errors.New("harness: service is shutting down")

// parent-context flavours: the cause handed to the canceller / attached to the deadline, and whether the runner gets a
// plain child of that context.  Whatever the flavour, the KIND of the runner's error must be cancelled for a
// cancellation and timeout for a deadline.
var cancelFlavours = []string{"plain", "custom", "wraps-deadline", "errtimeout", "nil-under-child", "custom-under-child"}
var deadlineFlavours = []string{"plain", "custom", "wraps-canceled", "errcancelled", "custom-under-child"}

func flavourCause(fl string) (cause error, viaChild bool) {
	viaChild = strings.HasSuffix(fl, "-under-child")
	switch strings.TrimSuffix(fl, "-under-child") {
	case "custom":
		cause = errCustomCause
	case "wraps-deadline":
		cause = fmt.Errorf("budget exhausted: %w", context.DeadlineExceeded)
	case "wraps-canceled":
		cause = fmt.Errorf("given up: %w", context.Canceled)
	case "errtimeout":
		cause = commonerrors.ErrTimeout
	case "errcancelled":
		cause = commonerrors.ErrCancelled
	}
	return // "", plain, nil: no cause
}

// does the flavour attach a cause that differs from the reason (model classes PCancC / PDeadC)?
func hasCause(fl string) bool { c, _ := flavourCause(fl); return c != nil }

// oracleRunner states the property on the observations (no use of the Coq model).
func oracleRunner(sc scenario, o runnerObs) []suspect {
	var s []suspect
	add := func(sig, what string, conclusive bool) {
		s = append(s, suspect{sig + ":" + sc.Runner, what, conclusive})
	}
	if !o.Returned {
		if o.MaxGapUs < 1_000_000 {
			add("runner-blocked", fmt.Sprintf("the runner had not returned %v after the latest instant at which the action ends (action finished=%v, saw its signal=%v; largest scheduling gap of this process meanwhile %dus)", 3*grace, o.Finished, o.Saw, o.MaxGapUs), true)
		}
		return s
	}
	own := sc.Out
	if o.Left > 0 {
		add("runner-goroutine-left", fmt.Sprintf("%d goroutine(s) still alive 5s after the runner returned", o.Left), false)
	}
	if o.Res == "other" {
		add("foreign-result", "the runner returned an error that is neither the action's nor timeout/cancelled", true)
	}
	if o.Started && !o.Finished {
		add("returned-before-action-finished", "the runner returned "+o.Res+" while the action was still running", true)
	}
	parentEnded := sc.Parent == "cancelled" || sc.Parent == "deadline"
	if parentEnded {
		want := "cancelled"
		if sc.Parent == "deadline" {
			want = "timeout"
		}
		if o.Res != want {
			add("wrong-result-parent-ended", "parent context already "+sc.Parent+" (cause flavour "+sc.Flavour+") but the runner returned "+o.Res+" instead of an error of the "+want+" kind", true)
		}
		return s
	}
	if o.Res == "timeout" && sc.Event != "pdeadline" && o.ElapsedUs < sc.TimeoutUs {
		add("timeout-before-deadline", fmt.Sprintf("timeout reported after %dus, the deadline was %dus", o.ElapsedUs, sc.TimeoutUs), true)
	}
	wantEv := map[string]string{"pcancel": "cancelled", "ext": "cancelled", "pdeadline": "timeout"}[sc.Event]
	switch {
	case sc.Event != "":
		// the event comes >= 250 ms before the deadline and before the action would complete by itself
		if o.Res != wantEv {
			add("wrong-result-event", "event "+sc.Event+" (cause flavour "+sc.Flavour+") during the call, runner returned "+o.Res+" (want the "+wantEv+" kind)", false)
		}
	case sc.Own == "early":
		if o.Res != own {
			add("wrong-result-early", "the action completed >= 250ms before the deadline with "+own+" but the runner returned "+o.Res, false)
		}
	case sc.Own == "late" || sc.Own == "never":
		if o.Res != "timeout" {
			add("wrong-result-late", "the action was still running >= 250ms after the deadline but the runner returned "+o.Res, false)
		}
	default: // near the deadline: either is right
		if o.Res != own && o.Res != "timeout" {
			add("wrong-result-near", "runner returned "+o.Res+", neither the action's result nor timeout", true)
		}
	}
	if sc.Own == "never" && o.Started && !o.Saw {
		add("signal-not-seen", "the action only returns when signalled, the runner returned, yet the action never saw its signal", true)
	}
	if o.Started && sc.Runner != "timeout" {
		switch {
		case sc.Runner == "context" && !o.CtxDone:
			add("context-not-cancelled", "RunActionWithTimeoutAndContext returned "+o.Res+" without cancelling the action's context", true)
		case sc.Runner == "store" && !o.CtxDone && o.Res == "err":
			add("context-not-cancelled", "RunActionWithTimeoutAndCancelStore returned the action's error without cancelling the action's context", true)
		case sc.Runner == "store" && !o.CtxDone && (sc.Own == "late" || sc.Own == "never" || sc.Event != ""):
			// far after the deadline the runner must have gone through its timeout branch (class: needs confirmation)
			add("context-not-cancelled", "RunActionWithTimeoutAndCancelStore returned "+o.Res+" for an action still running at the deadline without cancelling the action's context", false)
		}
		if sc.Runner == "store" && !o.StoreCancelWorks {
			add("store-cancel-misses-action", "store.Cancel() after RunActionWithTimeoutAndCancelStore did not cancel the action's context (cancel function not registered)", true)
		}
	}
	return s
}

func coqRunnerCase(sc scenario, o runnerObs) string {
	out := map[string]string{"nil": "ONil", "err": "OErr"}[sc.Out]
	own := map[string]string{"early": "Early", "near": "Near", "late": "Late", "never": "Never"}[sc.Own]
	a := fmt.Sprintf("(mkA %s %s %s)", out, h.Bool(sc.Looks), own)
	res := map[string]string{"nil": "RNil", "err": "RErr", "timeout": "RTimeout", "cancelled": "RCancelled", "other": "ROther"}[o.Res]
	if sc.Runner == "timeout" {
		if !o.Returned {
			return fmt.Sprintf("(CaseT %s None)", a)
		}
		return fmt.Sprintf("(CaseT %s (Some (mkTO %s %s %s)))", a, res, h.Bool(o.Saw), h.Bool(o.Finished))
	}
	par := map[string]string{"": "PLive", "live": "PLive", "cancelled": "PCanc", "deadline": "PDead"}[sc.Parent]
	ev := map[string]string{"": "None", "pcancel": "(Some EvPCancel)", "pdeadline": "(Some EvPDeadline)", "ext": "(Some EvExt)"}[sc.Event]
	if hasCause(sc.Flavour) {
		par = map[string]string{"PLive": "PLive", "PCanc": "PCancC", "PDead": "PDeadC"}[par]
		ev = map[string]string{"None": "None", "(Some EvPCancel)": "(Some EvPCancelC)", "(Some EvPDeadline)": "(Some EvPDeadlineC)", "(Some EvExt)": "(Some EvExt)"}[ev]
	}
	x := fmt.Sprintf("(mkX %s %s %s %s %s)", h.Bool(sc.Runner == "store"), a, par, ev, h.Bool(sc.Event != ""))
	if !o.Returned {
		return fmt.Sprintf("(CaseX %s None)", x)
	}
	return fmt.Sprintf("(CaseX %s (Some (mkXO %s %s %s %s %s)))", x, res, h.Bool(o.Started), h.Bool(o.Saw), h.Bool(o.Finished), h.Bool(o.CtxDone))
}

// ---------------------------------------------------------------------------------------------------------------
// Parallelise

type parObs struct {
	Items    []int64 `json:"items"`
	ErrID    int64   `json:"err_id"`            // 0: no error
	Other    bool    `json:"other"`             // an error that no invocation returned
	Calls    []int   `json:"calls"`             // invocations per argument once everything has settled
	Nil      bool    `json:"nil"`               // results == nil
	Left     int     `json:"left"`              // goroutines left after settling
	Blocked  bool    `json:"blocked,omitempty"` // Parallelise did not return
	MaxGapUs int64   `json:"max_gap_us,omitempty"`
}

var parPatience = 5 * time.Second // shortened once a leak has been confirmed (every later scenario would wait in vain)

type parErr struct{ id int64 }

func (e *parErr) Error() string { return fmt.Sprintf("harness: invocation error %d", e.id) }

func runParallelise(sc scenario) parObs {
	n := len(sc.Fails)
	baseline := runtime.NumGoroutine()
	calls := make([]atomic.Int32, n)
	args := make([]int, n)
	for i := range args {
		args[i] = i
	}
	action := func(arg interface{}) (interface{}, error) {
		i := arg.(int)
		calls[i].Add(1)
		if d := sc.DelaysUs[i]; d > 0 {
			time.Sleep(time.Duration(d) * time.Microsecond)
		}
		if sc.Fails[i] {
			return int64(-1000 - i), &parErr{id: int64(i + 1)} // the item returned beside an error must be ignored
		}
		return int64(i), nil
	}
	var rt reflect.Type
	if sc.Keep {
		rt = reflect.TypeOf([]int64{})
	}
	var res interface{}
	var err error
	var maxDelay int64
	for _, d := range sc.DelaysUs {
		if d > maxDelay {
			maxDelay = d
		}
	}
	var o parObs
	if ok, gap := guarded(time.Duration(maxDelay)*time.Microsecond, func() { res, err = parallelisation.Parallelise(args, action, rt) }); !ok {
		o.Blocked, o.MaxGapUs = true, int64(gap/time.Microsecond)
		o.Calls = make([]int, n)
		for i := range calls {
			o.Calls[i] = int(calls[i].Load())
		}
		return o
	}
	if err != nil {
		var pe *parErr
		if errors.As(err, &pe) {
			o.ErrID = pe.id
		} else {
			o.Other = true
		}
	}
	if res == nil {
		o.Nil = true
	} else if v, ok := res.([]int64); ok {
		o.Items = append([]int64{}, v...)
	}
	// every invocation is eventually made (an early error return does not wait for them): wait for quiescence
	o.Left = settle(baseline, parPatience)
	o.Calls = make([]int, n)
	for i := range calls {
		o.Calls[i] = int(calls[i].Load())
	}
	return o
}

func oraclePar(sc scenario, o parObs) []suspect {
	var s []suspect
	n := len(sc.Fails)
	anyFail := false
	for _, f := range sc.Fails {
		anyFail = anyFail || f
	}
	if o.Blocked {
		if o.MaxGapUs < 1_000_000 {
			s = append(s, suspect{"parallelise-blocked", fmt.Sprintf("Parallelise over %d arguments had not returned %v after the slowest invocation ended", n, 3*grace), true})
		}
		return s
	}
	if o.Left > 0 {
		s = append(s, suspect{"parallelise-goroutine-left", fmt.Sprintf("%d goroutine(s) still alive 5s after Parallelise returned", o.Left), false})
	}
	for i, c := range o.Calls {
		if c != 1 {
			s = append(s, suspect{"parallelise-not-once", fmt.Sprintf("action invoked %d times for argument %d of %d", c, i, n), c > 1})
			break
		}
	}
	if o.Other {
		s = append(s, suspect{"parallelise-foreign-error", "Parallelise returned an error that no invocation returned", true})
	}
	if o.ErrID != 0 {
		if o.ErrID < 1 || int(o.ErrID) > n || !sc.Fails[o.ErrID-1] {
			s = append(s, suspect{"parallelise-foreign-error", "Parallelise returned the error of an invocation that did not fail", true})
		}
		return s
	}
	if anyFail && !o.Other {
		s = append(s, suspect{"parallelise-error-lost", "an invocation failed but Parallelise returned no error", true})
		return s
	}
	if sc.Keep && !o.Other {
		got := append([]int64{}, o.Items...)
		sort.Slice(got, func(i, j int) bool { return got[i] < got[j] })
		ok := len(got) == n
		for i := 0; ok && i < n; i++ {
			ok = got[i] == int64(i)
		}
		if !ok {
			s = append(s, suspect{"parallelise-results", fmt.Sprintf("results %v are not the multiset of the %d invocation results", o.Items, n), true})
		}
	}
	return s
}

func coqParCase(sc scenario, o parObs) string {
	outs := make([]string, len(sc.Fails))
	for i, f := range sc.Fails {
		if f {
			outs[i] = fmt.Sprintf("PFail %d", i+1)
		} else {
			outs[i] = fmt.Sprintf("PItem %d", i)
		}
	}
	var ret string
	switch {
	case o.ErrID != 0:
		ret = fmt.Sprintf("(PRErr %d)", o.ErrID)
	case o.Other:
		ret = "(PRErr 0)"
	default:
		ret = "(PROk " + h.ZList(o.Items) + ")"
	}
	if o.Blocked {
		ret = "(PRErr 0)" // never allowed: the model always returns
	}
	calls := make([]string, len(o.Calls))
	for i, c := range o.Calls {
		calls[i] = h.Nat(c)
	}
	return fmt.Sprintf("(CaseP %s %s %s %s)", h.Bool(sc.Keep), h.List(outs), h.List(calls), ret)
}

// ---------------------------------------------------------------------------------------------------------------
// cancel-function store

// number of functions registered by one call: "R" one, "Rk"/"Vk"/"Wk" k (the API is variadic)
func regCount(op string) int {
	if op == "R" {
		return 1
	}
	return int(op[1] - '0')
}

func isReg(op string) bool { return op[0] == 'R' || op[0] == 'V' || op[0] == 'W' }

const ghostBase = 1000 // identifiers of functions that are never registered (the caller only writes them into ITS slice)

// sequential program on one goroutine: exact result of every call.
//
//	R, Rk : Register(k functions) from a fresh slice that is not touched again
//	Vk    : Register(buf...) from the caller's scratch buffer (capacity 8, reset and refilled by every Vk: reuse across batches)
//	Wk    : Register(w...) from a fresh caller-owned slice with spare capacity
//	Mg/Mz/Ma : afterwards the caller overwrites the slice it passed last (whole capacity) with never-registered
//	        functions / clears it to nil / appends a never-registered function to it
//
// Functions are identified by id, not by slot: every registered id must be invoked by a later Cancel, no other id may be.
func runStoreSeq(sc scenario) (outs [][]int, susp []suspect) {
	store := parallelisation.NewCancelFunctionsStore()
	next := 0
	ghosts := 0
	var invoked []int
	registered := map[int]bool{}
	var order []int
	mk := func(id int) context.CancelFunc { return func() { invoked = append(invoked, id) } }
	ghost := func() context.CancelFunc { ghosts++; return mk(ghostBase + ghosts) }
	buf := make([]context.CancelFunc, 0, 8)
	var last []context.CancelFunc
	for _, op := range sc.Prog {
		switch {
		case isReg(op):
			var fs []context.CancelFunc
			switch op[0] {
			case 'V':
				buf = buf[:0]
				fs = buf
			case 'W':
				fs = make([]context.CancelFunc, 0, regCount(op)+4)
			}
			for k := regCount(op); k > 0; k-- {
				id := next
				next++
				fs = append(fs, mk(id))
				registered[id] = true
				order = append(order, id)
			}
			store.RegisterCancelFunction(fs...)
			if op[0] != 'R' {
				last = fs
			}
			outs = append(outs, []int{})
		case op == "Mg":
			for i := range last[:cap(last)] {
				last[:cap(last)][i] = ghost()
			}
			outs = append(outs, []int{})
		case op == "Mz":
			for i := range last {
				last[i] = nil
			}
			outs = append(outs, []int{})
		case op == "Ma":
			if last != nil {
				last = append(last, ghost())
			}
			outs = append(outs, []int{})
		case op == "C":
			invoked = nil
			store.Cancel()
			got := append([]int{}, invoked...)
			sort.Ints(got) // the order of invocation is not part of the property
			outs = append(outs, got)
			seen := map[int]int{}
			for _, f := range got {
				seen[f]++
				if !registered[f] {
					susp = append(susp, suspect{"cancel-invokes-unregistered:sequential", fmt.Sprintf("Cancel() invoked function %d which was never registered (the caller only wrote it into its own slice after Register returned; program %v)", f, sc.Prog), true})
					return
				}
			}
			for _, f := range order {
				if seen[f] == 0 {
					susp = append(susp, suspect{"cancel-misses-registered:sequential", fmt.Sprintf("Cancel() did not invoke function %d registered before it (program %v)", f, sc.Prog), true})
					return
				}
			}
		case op == "L":
			outs = append(outs, []int{store.Len()})
		}
	}
	return
}

func coqStoreCase(sc scenario, outs [][]int) string {
	ops := make([]string, len(sc.Prog))
	next := 0
	for i, op := range sc.Prog {
		switch {
		case isReg(op):
			var ids []string
			for k := regCount(op); k > 0; k-- {
				ids = append(ids, h.Nat(next))
				next++
			}
			ops[i] = "(SReg " + h.List(ids) + ")"
		case op[0] == 'M':
			ops[i] = "SScribble"
		case op == "C":
			ops[i] = "SCancel"
		case op == "L":
			ops[i] = "SLen"
		}
	}
	os := make([]string, len(outs))
	for i, o := range outs {
		ts := make([]string, len(o))
		for j, v := range o {
			ts[j] = h.Nat(v)
		}
		os[i] = h.List(ts)
	}
	return fmt.Sprintf("(CaseS %s %s)", h.List(ops), h.List(os))
}

type fnRec struct {
	id                int
	regBegin, regDone int64
}
type cancelRec struct {
	begin, end int64
	invoked    map[int]int
	thread     int
}

// concurrent storm: every goroutine runs its program; logical clock = one atomic counter, so "Register returned
// before Cancel was called" is decided by happens-before, not by wall-clock time
func runStoreStorm(sc scenario) (susp []suspect, nCancels, nFns int) {
	store := parallelisation.NewCancelFunctionsStore()
	var tick atomic.Int64
	var current sync.Map // goroutine id -> *cancelRec
	var mu sync.Mutex
	var fns []*fnRec
	var cancels []*cancelRec
	var nextID atomic.Int64
	var ghostCalls atomic.Int64 // invocations of functions that were never registered
	var panicked atomic.Value   // message of a panic raised inside the library on a storm goroutine
	var wg sync.WaitGroup
	start := make(chan struct{})
	for ti, prog := range sc.Threads {
		wg.Add(1)
		go func(ti int, prog []string) {
			defer wg.Done()
			defer func() { // e.g. a nil entry left in the slice by unsynchronised appends, called by Cancel
				if p := recover(); p != nil {
					panicked.Store(fmt.Sprint(p))
				}
			}()
			gid := goid.Get()
			scratch := make([]context.CancelFunc, 0, 6)
			<-start
			for _, op := range prog {
				switch op {
				case "R", "R2", "V1", "V2", "V3":
					var recs []*fnRec
					var fs []context.CancelFunc
					if op[0] == 'V' { // the goroutine's scratch buffer, reset and refilled for every batch
						scratch = scratch[:0]
						fs = scratch
					}
					for k := regCount(op); k > 0; k-- {
						f := &fnRec{id: int(nextID.Add(1))}
						recs = append(recs, f)
						fs = append(fs, func() {
							if c, ok := current.Load(goid.Get()); ok {
								c.(*cancelRec).invoked[f.id]++ // only the goroutine running that Cancel writes here
							}
						})
					}
					b := tick.Add(1)
					store.RegisterCancelFunction(fs...)
					e := tick.Add(1)
					if op[0] == 'V' { // Register has returned: the caller's slice is the caller's again
						for i := range fs[:cap(fs)] {
							fs[:cap(fs)][i] = func() { ghostCalls.Add(1) }
						}
					}
					mu.Lock()
					for _, f := range recs {
						f.regBegin, f.regDone = b, e
						fns = append(fns, f)
					}
					mu.Unlock()
				case "C":
					c := &cancelRec{invoked: map[int]int{}, thread: ti}
					current.Store(gid, c)
					c.begin = tick.Add(1)
					store.Cancel()
					c.end = tick.Add(1)
					current.Delete(gid)
					mu.Lock()
					cancels = append(cancels, c)
					mu.Unlock()
				case "L":
					_ = store.Len()
				}
			}
		}(ti, prog)
	}
	close(start)
	wg.Wait()
	if p := panicked.Load(); p != nil {
		susp = append(susp, suspect{"panic:store-storm", fmt.Sprintf("the library panicked during a Register/Cancel/Len storm: %v", p), true})
		return susp, len(cancels), len(fns)
	}
	// a last Cancel and Len when everything is quiet: every function ever registered, exactly the registered number
	final := &cancelRec{invoked: map[int]int{}, thread: -1}
	current.Store(goid.Get(), final)
	final.begin = tick.Add(1)
	store.Cancel()
	final.end = tick.Add(1)
	current.Delete(goid.Get())
	cancels = append(cancels, final)
	for _, c := range cancels {
		for _, f := range fns {
			if f.regDone < c.begin && c.invoked[f.id] == 0 {
				susp = append(susp, suspect{"cancel-misses-registered:concurrent", fmt.Sprintf("a Cancel() (goroutine %d) that began at tick %d did not invoke function %d whose registration had returned at tick %d", c.thread, c.begin, f.id, f.regDone), true})
				return susp, len(cancels), len(fns)
			}
		}
	}
	if g := ghostCalls.Load(); g > 0 {
		susp = append(susp, suspect{"cancel-invokes-unregistered:concurrent", fmt.Sprintf("Cancel() invoked %d time(s) a function that was never registered (written by a caller into its own slice after Register had returned)", g), true})
		return susp, len(cancels), len(fns)
	}
	if l := store.Len(); l != len(fns) {
		susp = append(susp, suspect{"store-len-after-storm", fmt.Sprintf("Len() = %d after %d registrations", l, len(fns)), true})
	}
	return susp, len(cancels), len(fns)
}

// ---------------------------------------------------------------------------------------------------------------
// driver

type driver struct {
	r        *h.Run
	emitted  map[string]int
	skip     map[string]bool // runner kinds given up (a confirmed blocked runner would cost 6 s per scenario)
	pending  *runnerObs      // observation of the runner scenario being reported whose case emission was deferred
	caseDesc map[string]any
}

func (d *driver) emit(term string, desc any) {
	if d.emitted[term] == 0 {
		d.r.Case(term, desc)
	}
	d.emitted[term]++
}

// relaxed: the class of a run whose timing-dependent verdict was NOT confirmed in isolation is not trusted either
// (the machine stalled for longer than the margin): its observation is compared with the unrestricted class
func relaxed(sc scenario) scenario {
	sc.Own = "near"
	return sc
}

func (d *driver) account(sc scenario, o runnerObs, deferEmit bool) {
	if !deferEmit {
		d.emit(coqRunnerCase(sc, o), map[string]any{"scenario": sc, "obs": o})
	}
	d.r.Count("runner=" + sc.Runner)
	d.r.Count("class=" + sc.Own + "/" + sc.Out + map[bool]string{true: "/looks", false: "/blind"}[sc.Looks])
	if o.Returned {
		d.r.Count("result=" + sc.Own + "->" + o.Res)
	} else {
		d.r.Count("result=" + sc.Own + "->blocked")
	}
	if sc.Event != "" || (sc.Parent != "" && sc.Parent != "live") {
		d.r.Count("parent/event=" + sc.Parent + sc.Event + "/" + sc.Flavour)
	}
	if sc.Own == "near" {
		d.r.Distinct(fmt.Sprintf("%s|%s|%v|%d|%d|%d", sc.Runner, sc.Out, sc.Looks, sc.DelayUs-sc.TimeoutUs, sc.Busy, sc.LingerUs))
	}
	if sc.Own != "near" || sc.DelayUs%500 == 0 {
		d.r.Sample(map[string]any{"scenario": sc, "obs": o})
	}
}

// evaluates one scenario once; returns suspects
func (d *driver) once(sc scenario, emit bool) (susp []suspect) {
	defer func() {
		if p := recover(); p != nil { // a panic inside the library on the calling goroutine is a failure with this scenario as replay
			susp = append(susp, suspect{"panic:" + sc.Kind, fmt.Sprintf("the library panicked: %v", p), true})
		}
	}()
	switch sc.Kind {
	case "runner":
		o := runRunner(sc)
		susp := oracleRunner(sc, o)
		if emit {
			d.account(sc, o, hasTimingSuspect(susp))
			d.pending = &o
		}
		return susp
	case "parallelise":
		if d.skip["parallelise"] {
			return nil
		}
		o := runParallelise(sc)
		if o.Blocked && o.MaxGapUs < 1_000_000 {
			d.skip["parallelise"] = true // every later scenario would cost three grace periods
		}
		if emit {
			d.emit(coqParCase(sc, o), map[string]any{"scenario": sc, "obs": o})
			d.r.Count(fmt.Sprintf("parallelise n=%d", len(sc.Fails)))
			if len(sc.Fails) > 1 {
				d.r.Distinct(fmt.Sprintf("par|%v|%v|%v", sc.Fails, sc.DelaysUs, sc.Keep))
			}
		}
		return oraclePar(sc, o)
	case "store-seq":
		if d.skip["cancel-store"] {
			return nil
		}
		var outs [][]int
		var s []suspect
		if ok, gap := guarded(0, func() { outs, s = runStoreSeq(sc) }); !ok {
			if gap < time.Second {
				d.skip["cancel-store"] = true
				return []suspect{{"store-blocked:sequential", fmt.Sprintf("the store program %v had not finished after %v (a call never returned)", sc.Prog, 3*grace), true}}
			}
			return nil
		}
		if emit {
			d.emit(coqStoreCase(sc, outs), map[string]any{"scenario": sc, "outs": outs})
			d.r.Count("store-seq")
			if len(sc.Prog) > 2 {
				d.r.Distinct("seq|" + strings.Join(sc.Prog, ""))
			}
		}
		return s
	case "store-storm":
		if d.skip["cancel-store"] {
			return nil
		}
		var s []suspect
		var nc, nf int
		if ok, gap := guarded(0, func() { s, nc, nf = runStoreStorm(sc) }); !ok {
			if gap < time.Second {
				d.skip["cancel-store"] = true
				return []suspect{{"store-blocked:concurrent", fmt.Sprintf("a Register/Cancel/Len storm of %d goroutines had not finished after %v", len(sc.Threads), 3*grace), true}}
			}
			return nil
		}
		if emit {
			d.r.Count("store-storm")
			d.r.CountN("store-storm cancels", nc)
			d.r.CountN("store-storm registrations", nf)
			d.r.Distinct(fmt.Sprintf("storm|%v", sc.Threads))
		}
		return s
	}
	return nil
}

func hasTimingSuspect(susp []suspect) bool {
	for _, s := range susp {
		if !s.conclusive {
			return true
		}
	}
	return false
}

// report applies the confirmation rule and records failures
func (d *driver) report(sc scenario, susp []suspect) {
	pending := d.pending
	d.pending = nil
	allConfirmed := true
	defer func() {
		if sc.Kind == "runner" && pending != nil && hasTimingSuspect(susp) {
			if allConfirmed {
				d.emit(coqRunnerCase(sc, *pending), map[string]any{"scenario": sc, "obs": *pending})
			} else {
				d.emit(coqRunnerCase(relaxed(sc), *pending), map[string]any{"scenario": sc, "obs": *pending, "relaxed": true})
			}
		}
	}()
	for _, s := range susp {
		if d.r.Failed(s.sig) {
			continue
		}
		if !s.conclusive {
			confirmed := 0
			for i := 0; i < 3; i++ {
				iso := sc
				iso.Busy = 0
				for _, t := range d.once(iso, false) {
					if t.sig == s.sig {
						confirmed++
						break
					}
				}
				if confirmed <= i {
					break
				}
			}
			if confirmed < 3 {
				allConfirmed = false
				d.r.Note(fmt.Sprintf("suspected %s not confirmed in isolation (%d of 3): dropped", s.sig, confirmed))
				d.r.Count("suspect-not-confirmed")
				continue
			}
		}
		d.r.Fail(s.sig, s.what, sc)
		if s.sig == "parallelise-goroutine-left" {
			parPatience = 300 * time.Millisecond
		}
		if strings.HasPrefix(s.sig, "runner-blocked:") {
			d.skip[sc.Runner] = true
			d.r.Note("runner " + sc.Runner + " blocks: its remaining scenarios are skipped")
		}
	}
}

// batch runs scenarios concurrently (optionally under busy goroutines), then reports
func (d *driver) batch(scs []scenario, nbusy int) {
	var live []scenario
	for _, sc := range scs {
		if sc.Kind == "runner" && d.skip[sc.Runner] {
			continue
		}
		live = append(live, sc)
	}
	if len(live) == 0 {
		return
	}
	var b *busy
	if nbusy > 0 {
		b = startBusy(nbusy)
	}
	res := make([][]suspect, len(live))
	obs := make([]runnerObs, len(live))
	var wg sync.WaitGroup
	var emu sync.Mutex
	for i := range live {
		wg.Add(1)
		go func(i int) {
			defer wg.Done()
			sc := live[i]
			o := runRunner(sc)
			res[i] = oracleRunner(sc, o)
			obs[i] = o
			emu.Lock()
			d.r.Eval()
			d.account(sc, o, hasTimingSuspect(res[i]))
			emu.Unlock()
		}(i)
	}
	wg.Wait()
	if b != nil {
		b.end()
	}
	for i := range live {
		d.pending = &obs[i]
		d.report(live[i], res[i])
	}
}

func runnerClasses() (early, late, events, parents []scenario) {
	for _, rn := range []string{"timeout", "context", "store"} {
		for _, out := range []string{"nil", "err"} {
			for _, looks := range []bool{false, true} {
				base := scenario{Kind: "runner", Runner: rn, Out: out, Looks: looks, Parent: "live"}
				// completes by itself >= 250 ms before the deadline
				for _, d := range []int64{0, 1000, 40000} {
					sc := base
					sc.Own, sc.TimeoutUs, sc.DelayUs = "early", 400000, d
					early = append(early, sc)
				}
				// still running >= 250 ms after the deadline, never having been told / ignoring what it is told
				sc := base
				sc.Own, sc.TimeoutUs, sc.DelayUs = "late", 20000, 300000
				if !looks {
					late = append(late, sc)
					// ends by itself between the deadline and twice the deadline (250 ms from both)
					sc.TimeoutUs, sc.DelayUs = 500000, 750000
					late = append(late, sc)
				}
				if looks {
					for _, l := range []int64{0, 40000} {
						sc := base
						sc.Own, sc.TimeoutUs, sc.LingerUs = "never", 20000, l
						late = append(late, sc)
					}
				}
				if rn == "timeout" {
					continue
				}
				// the parent context ends / the caller's store is cancelled during the call, far before the deadline
				for _, ev := range []string{"pcancel", "pdeadline", "ext"} {
					if ev == "ext" && rn != "store" {
						continue
					}
					fls := map[string][]string{"pcancel": cancelFlavours, "pdeadline": deadlineFlavours, "ext": {""}}[ev]
					for _, fl := range fls {
						sc := base
						sc.Event, sc.EventUs, sc.TimeoutUs, sc.Flavour = ev, 15000, 600000, fl
						if looks {
							sc.Own, sc.LingerUs = "never", 20000
						} else {
							sc.Own, sc.DelayUs = "late", 300000
						}
						events = append(events, sc)
					}
				}
				// the parent context has ended before the call
				for _, p := range []string{"cancelled", "deadline"} {
					for _, fl := range map[string][]string{"cancelled": cancelFlavours, "deadline": deadlineFlavours}[p] {
						sc := base
						sc.Parent, sc.Own, sc.TimeoutUs, sc.DelayUs, sc.Flavour = p, "early", 100000, 1000, fl
						parents = append(parents, sc)
					}
				}
			}
		}
	}
	return
}

func main() {
	r := h.Init("C12")
	// go-deadlock's watchdog would os.Exit(2) the harness when a lock is waited for longer than 30 s or on a lock-order
	// report; the harness has its own verdict for a blocked call, so the report is only recorded
	var lockReports atomic.Int32
	deadlock.Opts.OnPotentialDeadlock = func() { lockReports.Add(1) }
	finish := func() {
		if n := lockReports.Load(); n > 0 {
			r.Note(fmt.Sprintf("go-deadlock reported %d potential deadlock(s)", n))
		}
		r.Finish()
	}
	r.Imports = []string{"GU.C12.Model"}
	r.Rule("runner scenarios: 3 runners x outcome (nil/err) x action watches its signal or not x completion instant (classes far before / far after the deadline, " +
		"parent ended before / event during the call, and the sweep deadline-2ms..deadline+2ms under busy goroutines); Parallelise: argument counts 0..64 x failure patterns x delays; " +
		"store: sequential programs and concurrent Register/Cancel/Len storms, with variadic registrations of 0..4 functions from caller-owned slices (scratch buffer reused across batches, spare capacity) that the caller overwrites / clears / appends to after the call, functions identified by id. Non-trivial = a sweep point (distinct by runner, outcome, mode, offset to the deadline, busy level), " +
		"a Parallelise scenario with >1 argument, a store program with >2 calls, a storm")
	d := &driver{r: r, emitted: map[string]int{}, skip: map[string]bool{}}
	baseline0 := runtime.NumGoroutine()

	var sc scenario
	if _, ok := r.ReplayObject(&sc); ok {
		r.Eval()
		d.report(sc, d.once(sc, true))
		finish()
		return
	}

	// ---- 1. deterministic corpus: the witness of D5 (fixed: must pass) and the classes far from the deadline
	early, late, events, parents := runnerClasses()
	d.batch([]scenario{{Kind: "runner", Runner: "timeout", Out: "nil", Looks: false, Own: "late", TimeoutUs: 10000, DelayUs: 250000, Parent: "live"}}, 0)
	d.batch(late, 0)
	d.batch(early, 0)
	d.batch(events, 0)
	d.batch(parents, 0)

	// ---- 2. sweep of the completion instant around the deadline
	T := int64(3000)
	step := int64(r.N(25, 1))
	busyLevels := []int{1, 4, 16}
	if r.Thorough() || r.Deep {
		busyLevels = []int{1, 2, 4, 8, 12, 16}
	}
	for _, nb := range busyLevels {
		var pending []scenario
		flush := func() {
			d.batch(pending, nb)
			pending = nil
		}
		off0 := int64(r.Rng.Intn(int(step))) // seeded phase of the sweep grid
		for off := -2000 + off0; off <= 2000; off += step {
			for _, rn := range []string{"timeout", "context", "store"} {
				for _, out := range []string{"nil", "err"} {
					for _, looks := range []bool{false, true} {
						sc := scenario{Kind: "runner", Runner: rn, Out: out, Looks: looks, Own: "near", TimeoutUs: T, DelayUs: T + off, Parent: "live", Busy: nb}
						if looks && r.Rng.Intn(3) == 0 {
							sc.LingerUs = int64(r.Rng.Intn(1500)) // ignores the signal for a while
						}
						pending = append(pending, sc)
					}
				}
			}
			if len(pending) >= 48 {
				flush()
			}
		}
		flush()
	}
	// goroutines left behind by a runner: representative scenarios run alone, goroutines counted before and after
	settle(baseline0, 3*time.Second)
	for _, rn := range []string{"timeout", "context", "store"} {
		for _, sc := range []scenario{
			{Kind: "runner", Runner: rn, Out: "nil", Own: "early", TimeoutUs: 400000, DelayUs: 1000, Parent: "live", Leak: true},
			{Kind: "runner", Runner: rn, Out: "err", Own: "early", Looks: true, TimeoutUs: 400000, DelayUs: 1000, Parent: "live", Leak: true},
			{Kind: "runner", Runner: rn, Out: "nil", Own: "never", Looks: true, TimeoutUs: 15000, Parent: "live", Leak: true},
			{Kind: "runner", Runner: rn, Out: "err", Own: "late", TimeoutUs: 10000, DelayUs: 250000, Parent: "live", Leak: true},
		} {
			if d.skip[rn] {
				continue
			}
			r.Eval()
			d.report(sc, d.once(sc, true))
		}
	}
	settle(baseline0, 3*time.Second)

	// ---- 3. Parallelise
	parScenario := func(n int, failAt map[int]bool, delay func(i int) int64, keep bool) scenario {
		sc := scenario{Kind: "parallelise", Keep: keep, Fails: make([]bool, n), DelaysUs: make([]int64, n)}
		for i := 0; i < n; i++ {
			sc.Fails[i] = failAt[i]
			sc.DelaysUs[i] = delay(i)
		}
		return sc
	}
	var pars []scenario
	for _, n := range []int{0, 1, 2, 3, 5, 8, 17, 64} {
		for _, keep := range []bool{true, false} {
			pars = append(pars, parScenario(n, nil, func(int) int64 { return 0 }, keep))
			pars = append(pars, parScenario(n, nil, func(i int) int64 { return int64((n - i) * 50) }, keep))
			if n == 0 {
				continue
			}
			// the quickest invocation fails while all others are still running: early return, n-1 senders pending
			pars = append(pars, parScenario(n, map[int]bool{0: true}, func(i int) int64 {
				if i == 0 {
					return 0
				}
				return 20000
			}, keep))
			// the slowest fails: the error arrives last
			pars = append(pars, parScenario(n, map[int]bool{n - 1: true}, func(i int) int64 {
				if i == n-1 {
					return 5000
				}
				return 0
			}, keep))
			all := map[int]bool{}
			for i := 0; i < n; i++ {
				all[i] = true
			}
			pars = append(pars, parScenario(n, all, func(i int) int64 { return int64(i%3) * 300 }, keep))
		}
	}
	for i := 0; i < r.N(40, 600); i++ {
		n := 1 + r.Rng.Intn(24)
		fails := map[int]bool{}
		if r.Rng.Intn(2) == 0 {
			for k := r.Rng.Intn(3) + 1; k > 0; k-- {
				fails[r.Rng.Intn(n)] = true
			}
		}
		delays := make([]int64, n)
		for j := range delays {
			delays[j] = int64(r.Rng.Intn(4)) * int64(r.Rng.Intn(800))
		}
		pars = append(pars, parScenario(n, fails, func(i int) int64 { return delays[i] }, r.Rng.Intn(4) != 0))
	}
	for _, sc := range pars {
		r.Eval()
		d.report(sc, d.once(sc, true))
	}

	// ---- 4. cancel-function store
	seqs := [][]string{{}, {"C"}, {"L"}, {"R", "C"}, {"R", "R", "R", "L", "C", "C", "L"}, {"C", "R", "C", "R", "C", "L"}, {"R", "L", "R", "L", "C"},
		{"R2", "L", "C"}, {"R0", "L", "C", "R3", "L", "C"}, {"R", "R2", "R0", "R3", "C", "L"},
		// caller-owned slices written to after Register returned (first registration, later ones, before/after further registrations)
		{"V2", "Mg", "C"}, {"V3", "Mz", "C", "L"}, {"V2", "V3", "C", "L"}, {"V3", "V1", "C"}, {"W2", "Ma", "R", "C"}, {"W2", "R", "Ma", "C"},
		{"V0", "V2", "Mg", "C"}, {"R", "V2", "Mg", "C"}, {"V1", "R2", "Mg", "C", "Mz", "C"}, {"W3", "R", "Ma", "Mg", "C", "L"},
		{"V4", "C", "V4", "C", "Mz", "C"}, {"W1", "Ma", "Ma", "R3", "Mg", "C", "L"}, {"V2", "R", "V2", "R", "V2", "C", "L"}}
	for i := 0; i < r.N(200, 2000); i++ {
		n := 1 + r.Rng.Intn(12)
		p := make([]string, n)
		for j := range p {
			p[j] = []string{"R", "C", "L", "R2", "R0", "R3", "C", "V0", "V1", "V2", "V3", "V4", "W1", "W2", "W3", "Mg", "Mz", "Ma", "Mg", "C"}[r.Rng.Intn(20)]
		}
		seqs = append(seqs, p)
	}
	for _, p := range seqs {
		sc := scenario{Kind: "store-seq", Prog: p}
		r.Eval()
		d.report(sc, d.once(sc, true))
	}
	for i := 0; i < r.N(30, 400); i++ {
		g := 2 + r.Rng.Intn(15)
		k := 5 + r.Rng.Intn(60)
		mix := [][]string{{"R", "C", "L"}, {"R", "R2", "R", "C"}, {"R", "R2"}, {"R", "C"}, {"V1", "V2", "V3", "C"}, {"V2", "V3"}, {"V3", "R", "C", "L"}}[r.Rng.Intn(7)]
		sc := scenario{Kind: "store-storm"}
		for t := 0; t < g; t++ {
			p := make([]string, k)
			for j := range p {
				p[j] = mix[r.Rng.Intn(len(mix))]
			}
			sc.Threads = append(sc.Threads, p)
		}
		r.Eval()
		d.report(sc, d.once(sc, true))
	}
	r.Note(fmt.Sprintf("distinct correspondence cases emitted: %d (each stands for all runs with the same class and observation)", len(d.emitted)))
	finish()
}
