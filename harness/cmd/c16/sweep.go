package main

import (
	"fmt"
	"strings"

	"verif/harness/internal/shim"

	"verif/harness/internal/h"
)

var sizes = []int{0, 33000, 66000}

func specsFor(seed int64, n int, rot int) []treeSpec {
	out := make([]treeSpec, n)
	for i := range out {
		out[i] = treeSpec{Seed: seed + int64(i), Size: sizes[(i+rot)%len(sizes)], Extra: i%2 == 1}
	}
	return out
}

// corpus: the witnesses of the defects confirmed for this property (DESIGN.md section 6) run first on every invocation.
func corpus(r *h.Run) {
	// D21: Store(v1) over v0 while the side-file of the package cannot be opened for writing; Store reports success.
	for _, kind := range []string{"mutable", "immutable"} {
		sc := seqScenario{Type: "seq", Kind: kind, Versions: specsFor(7, 3, 1), Ops: []opSpec{
			{Op: "store", Ver: 0}, {Op: "fetch"},
			{Op: "store", Ver: 1, Fault: &faultSpec{Kind: "errpath", Path: ".hash"}},
			{Op: "fetch"}, {Op: "fetch"}, {Op: "store", Ver: 2}, {Op: "fetch"},
		}}
		runSeq(r, sc, false)
	}
	// a version RECURS (A B A, A B B A, A A) after a Store during which the side file could not be rewritten (ignored by
	// design): the last successful Store decides what a Fetch returns
	for _, kind := range []string{"mutable", "immutable"} {
		hf := &faultSpec{Kind: "errpath", Path: ".hash"}
		for _, hist := range [][]opSpec{
			{{Op: "store", Ver: 0}, {Op: "store", Ver: 1, Fault: hf}, {Op: "store", Ver: 0}, {Op: "fetch"}},
			{{Op: "store", Ver: 0}, {Op: "store", Ver: 1, Fault: hf}, {Op: "store", Ver: 1}, {Op: "fetch"}, {Op: "store", Ver: 0}, {Op: "fetch"}},
			{{Op: "store", Ver: 1, Fault: hf}, {Op: "store", Ver: 1}, {Op: "fetch"}, {Op: "store", Ver: 0, Fault: hf}, {Op: "store", Ver: 1}, {Op: "fetch"}},
			{{Op: "store", Ver: 0}, {Op: "store", Ver: 1}, {Op: "store", Ver: 2, Fault: hf}, {Op: "store", Ver: 1}, {Op: "fetch"}, {Op: "store", Ver: 0}, {Op: "fetch"}},
		} {
			runSeq(r, seqScenario{Type: "seq", Kind: kind, Env: envSpec{Ignore: defaultIgnore}, Versions: specsFor(9, 3, 1), Ops: hist}, false)
		}
	}
	// fault-free life cycle in every environment: remote path / key containing ".part", FilesystemItemsToIgnore set, dirty
	// destinations, versions with and without files that match the ignore list
	for _, kind := range []string{"mutable", "immutable"} {
		for _, env := range []envSpec{{}, {Ignore: defaultIgnore}, {Layout: "part"}, {Layout: "part", Ignore: defaultIgnore}} {
			runSeq(r, seqScenario{Type: "seq", Kind: kind, Env: env, Versions: specsFor(3, 4, 0), Ops: []opSpec{
				{Op: "store", Ver: 1}, {Op: "fetch"}, {Op: "store", Ver: 2}, {Op: "fetch"}, {Op: "clean"}, {Op: "fetch"},
				{Op: "store", Ver: 3}, {Op: "fetch"}, {Op: "store", Ver: 0}, {Op: "clean"}, {Op: "fetch"}}}, true)
		}
	}
	// D15: a client that times out on the entry lock must not release the holder's lock
	runGated(r, d15Witness())
}

// seqTail: what follows the call that carried the fault (the immediate recurrence of an earlier version is a separate
// scenario, run when the faulted Store reported success: see below).
func seqTail(target string, cur int) []opSpec {
	return []opSpec{{Op: "fetch"}, {Op: "clean"}, {Op: "fetch"}, {Op: "store", Ver: cur + 1}, {Op: "fetch"}, {Op: "clean"}, {Op: "fetch"}}
}

func sweepSeq(r *h.Run) {
	faultKinds := []string{"err", "short", "crash", "crashshort", "shortnil", "silent", "closelost", "ctx", "rderr"}
	group := 0
	for _, kind := range []string{"mutable", "immutable"} {
		for nh := 0; nh <= 2; nh++ {
			var hist []opSpec
			for i := 0; i < nh; i++ {
				hist = append(hist, opSpec{Op: "store", Ver: i})
			}
			specs := specsFor(r.Seed*10+int64(nh), nh+2, nh+int(r.Seed))
			for _, target := range []string{"store", "fetch", "clean"} {
				if target != "store" && nh == 0 {
					continue
				}
				top := opSpec{Op: target, Ver: nh}
				if target != "clean" { // CleanEntry runs in the environment of the group before it
					group++
				}
				env := envFor(group - 1)
				// clean run: number of operations of the target call
				base := seqScenario{Type: "seq", Kind: kind, Env: env, Versions: specs, Ops: append(append([]opSpec{}, hist...), top)}
				obs := runSeq(r, base, true)
				n := obs[len(obs)-1].NOps
				r.Count(fmt.Sprintf("ops-per-%s:%s", target, kind))
				for k := 0; k < n; k++ {
					tr := obs[len(obs)-1].trace[k]
					remote := isRemote(tr.Path)
					for fi, fk := range faultKinds {
						if (fk == "short" || fk == "crashshort" || fk == "shortnil" || fk == "silent") && tr.Name != "f.Write" {
							continue
						}
						// closelost: the first Close of a handle through which something was written
						if fk == "closelost" && !closesWrittenHandle(obs[len(obs)-1].trace, k) {
							continue
						}
						// silent corruption: only where the hash-verified transfer is in charge (upload to the entry, download to
						// the temporary copy); a lying LOCAL disk under the zip writer or the unpacker is outside any guarantee
						if fk == "silent" && !(remote || (target == "fetch" && strings.HasPrefix(tr.Path, "/tmp/"))) {
							continue
						}
						// quick tier: every operation on the remote entry; a seeded eighth of the purely local ones (half of them for the write-specific faults)
						if fk == "rderr" { // a read-side operation fails with another error VALUE: ENOENT (twice as often), EACCES, broken listing
							switch tr.Name {
							case "Stat", "Lstat", "Open", "f.Read", "f.Readdirnames", "f.Readdir":
							default:
								continue
							}
							fk = []string{"enoent", "eacces", "enoent", "partiallist"}[(k/3+int(r.Seed))%4]
							if fk == "partiallist" && tr.Name != "f.Readdirnames" && tr.Name != "f.Readdir" {
								fk = "enoent"
							}
						}
						if fk == "ctx" { // the caller's context ends inside operation k: cancelled / timed out, alternating
							fk = []string{"ctxcancel", "ctxdeadline"}[(k/7+int(r.Seed))%2]
						}
						thin := 8
						if fk == "enoent" || fk == "eacces" || fk == "partiallist" {
							thin = 8
						} else if strings.HasPrefix(fk, "ctx") {
							thin = 8
							if target == "store" {
								thin = 10
							}
						} else if fk != "err" && fk != "crash" {
							thin = 2 // the faults specific to writes have few candidates
						}
						if remote && (fk == "enoent" || fk == "eacces" || fk == "partiallist") && !r.Thorough() && !r.Deep && (k+int(r.Seed))%2 != 0 {
							continue // quick tier: every second read-side operation on the remote entry
						}
						if remote && strings.HasPrefix(fk, "ctx") && !r.Thorough() && !r.Deep && (k+int(r.Seed))%3 != 0 {
							continue // quick tier: the context ends inside every third operation on the remote entry
						}
						// the walk over the SOURCE tree (what Store reads decides what the stored version is): never thinned for the
						// read-error values
						srcWalk := target == "store" && pathClass(tr.Path) == "source" && tr.Name != "f.Read" &&
							(fk == "enoent" || fk == "eacces" || fk == "partiallist")
						if !remote && !srcWalk && fk != "closelost" && !r.Thorough() && !r.Deep && (k+fi+int(r.Seed))%thin != 0 {
							continue
						}
						f := &faultSpec{K: k, Kind: fk}
						ops := append(append([]opSpec{}, hist...), opSpec{Op: target, Ver: nh, Fault: f})
						ops = append(ops, seqTail(target, nh)...)
						sc := seqScenario{Type: "seq", Kind: kind, Env: env, Versions: specs, Ops: ops}
						o := runSeq(r, sc, true)
						r.Distinct(fmt.Sprintf("%s|%d|%s|%s|%s|%s", kind, nh, target, tr.Name, pathClass(tr.Path), fk))
						if target == "store" && remote && len(o) > nh && o[nh].Res == "ok" {
							// the failure was IGNORED (the Store reported success): whatever it left behind (a stale or missing side
							// file, ...) must not mislead the NEXT Stores either — a version recurs immediately (A B A / A A, byte-identical
							// package), with no Fetch in between that could repair the entry, then the faulted version again
							recur := nh - 1
							if recur < 0 {
								recur = nh
							}
							ops2 := append(append([]opSpec{}, hist...), opSpec{Op: target, Ver: nh, Fault: f},
								opSpec{Op: "store", Ver: recur}, opSpec{Op: "fetch"}, opSpec{Op: "store", Ver: nh}, opSpec{Op: "fetch"})
							runSeq(r, seqScenario{Type: "seq", Kind: kind, Env: env, Versions: specs, Ops: ops2}, true)
							r.Count("recurring-version-after-ignored-failure:" + kind)
						}
						if k%17 == 0 && len(o) > nh+5 {
							r.Sample(map[string]any{"kind": kind, "history": nh, "target": target, "k": k, "op": tr.Name, "path": pathClass(tr.Path), "fault": fk,
								"result": o[nh].Res, "then": []string{o[nh+1].Res, o[nh+3].Res, o[nh+5].Res}})
						}
					}
				}
				if kind == "mutable" {
					// the acquisition itself fails
					ops := append(append([]opSpec{}, hist...), opSpec{Op: target, Ver: nh, Fault: &faultSpec{LockOp: "Mkdir"}})
					ops = append(ops, seqTail(target, nh)...)
					runSeq(r, seqScenario{Type: "seq", Kind: kind, Env: env, Versions: specs, Ops: ops}, false)
				}
			}
		}
	}
}

// closesWrittenHandle: operation k is an f.Close and, since the file was last opened, something was written to it and it
// has not been closed yet.
func closesWrittenHandle(trace []shim.Op, k int) bool {
	if trace[k].Name != "f.Close" {
		return false
	}
	for j := k - 1; j >= 0; j-- {
		t := trace[j]
		if t.Path != trace[k].Path {
			continue
		}
		switch t.Name {
		case "f.Write":
			return true
		case "f.Close", "Create", "OpenFile", "Open":
			return false
		}
	}
	return false
}

func pathClass(p string) string {
	switch {
	case isLockPath(p):
		return "lock"
	case isRemote(p) && len(p) > 5 && p[len(p)-5:] == ".hash":
		return "remote-hash"
	case p == entryDir || p == remoteRoot:
		return "remote-entry"
	case isRemote(p):
		return "remote-package"
	case len(p) >= 4 && p[:4] == "/tmp":
		return "temp"
	case len(p) >= 4 && p[:4] == "/dst":
		return "dest"
	case len(p) >= 4 && p[:4] == "/src":
		return "source"
	}
	return "other"
}
