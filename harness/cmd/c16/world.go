package main

// world.go — the shared in-memory back end, the stored versions (trees), cache clients behind fault-injecting /
// scheduling shims, and the observation helpers (installed tree, remote entry listing).

import (
	"archive/zip"
	"bytes"
	"context"
	"crypto/sha256"
	"encoding/hex"
	"errors"
	"fmt"
	"io"
	"math/rand"
	"os"
	"path/filepath"
	"runtime/debug"
	"sort"
	"strings"
	"sync"
	"sync/atomic"
	"syscall"
	"time"

	"github.com/spf13/afero"

	"github.com/ARM-software/golang-utils/utils/commonerrors"
	"github.com/ARM-software/golang-utils/utils/filesystem"
	"github.com/ARM-software/golang-utils/utils/sharedcache"

	"verif/harness/internal/shim"
)

const destDir = "/dst"

// envSpec: the part of a scenario that the property does not mention but the code may trip over — where the remote
// storage lives, how the key looks, and the cache configuration's FilesystemItemsToIgnore (which concerns GetEntries
// only and must not influence Store / Fetch).
type envSpec struct {
	Layout string `json:"layout,omitempty"` // "" | "part" (remote path and key contain the text ".part")
	Ignore string `json:"ignore,omitempty"` // Configuration.FilesystemItemsToIgnore
	// how the path ARGUMENTS are spelt (the files are the same): "" canonical | "trailing" (x/) | "dot" (/a/./b) |
	// "double" (/a//b) | "dotdot" (/a/b/../b) | "rel" (a/b, relative to the working directory) | "reldot" (./a/b)
	SpellSrc  string `json:"spell_src,omitempty"`  // source directory given to Store
	SpellDst  string `json:"spell_dst,omitempty"`  // destination directory given to Fetch
	SpellRoot string `json:"spell_root,omitempty"` // RemoteStoragePath given to the constructor
}

var spellings = []string{"", "trailing", "dot", "double", "dotdot", "rel", "reldot"}

// spell: another spelling of the absolute, clean path p.
func spell(p, how string) string {
	i := strings.LastIndex(p, "/")
	switch how {
	case "trailing":
		return p + "/"
	case "dot":
		return p[:i] + "/." + p[i:]
	case "double":
		return p[:i] + "/" + p[i:]
	case "dotdot":
		return p + "/.." + p[i:]
	case "rel":
		return p[1:]
	case "reldot":
		return "." + p
	}
	return p
}

// normPath: the canonical absolute form of a path the library handed to the back end (classification only).
func normPath(p string) string { return filepath.Clean(abs(p)) }

const defaultIgnore = ".snapshot,ignore-me.txt,.gitignore"

var (
	remoteRoot  = "/remote"
	cacheKey    = "key"
	entryDir    = remoteRoot + "/" + cacheKey
	lockDirPath = entryDir + "/lockfile-SharedMutableCache-" + cacheKey
	ignoreItems = ""
	curEnv      envSpec
)

// setEnv is called at the start of every scenario (scenarios never overlap).
func setEnv(e envSpec) {
	remoteRoot, cacheKey = "/remote", "key"
	if e.Layout == "part" {
		remoteRoot, cacheKey = "/srv/cache.partition", "v1.partial"
	}
	entryDir = remoteRoot + "/" + cacheKey
	lockDirPath = entryDir + "/lockfile-SharedMutableCache-" + cacheKey
	ignoreItems = e.Ignore
	curEnv = e
}

func (e envSpec) sig() string {
	s := ""
	if e.Layout != "" {
		s = ":remote-path-contains-" + map[string]string{"part": ".part"}[e.Layout]
	}
	if e.SpellSrc != "" || e.SpellDst != "" || e.SpellRoot != "" {
		s += ":path-not-spelt-canonically"
	}
	return s
}

// envFor spreads the environments over a sweep deterministically.
func envFor(i int) envSpec {
	e := envSpec{}
	if i%3 != 0 {
		e.Ignore = defaultIgnore
	}
	if i%4 == 1 {
		e.Layout = "part"
	}
	// the spelling of the three path arguments rotates independently
	e.SpellSrc = spellings[(i*3+1)%len(spellings)]
	e.SpellDst = spellings[(i*5+2)%len(spellings)]
	e.SpellRoot = spellings[(i*2)%len(spellings)]
	return e
}

var errInjected = errors.New("harness: injected I/O failure")

// treeSpec describes one stored version: a seeded tree. Size is the size of the incompressible file a.bin
// (it decides in how many 32 KiB writes the package travels); Extra adds a file that only this version has.
type treeSpec struct {
	Seed  int64 `json:"seed"`
	Size  int   `json:"size"`
	Extra bool  `json:"extra"`
}

type tree map[string]string // relative path -> sha256 of content ("dir" for directories)

type world struct {
	strict   *strictFs
	inner    afero.Fs
	versions []tree
	specs    []treeSpec
	nclients int
	poisoned bool
}

func newWorld(specs []treeSpec) *world {
	st := &strictFs{Fs: afero.NewMemMapFs()}
	w := &world{strict: st, inner: st, specs: specs}
	_ = w.inner.MkdirAll(remoteRoot, 0o755)
	_ = w.inner.MkdirAll("/tmp", 0o755)
	for i, s := range specs {
		root := fmt.Sprintf("/src/v%d", i)
		rng := rand.New(rand.NewSource(s.Seed*131 + int64(i) + 1))
		_ = w.inner.MkdirAll(root+"/sub", 0o755)
		b := make([]byte, s.Size)
		rng.Read(b)
		_ = afero.WriteFile(w.inner, root+"/a.bin", b, 0o644)
		_ = afero.WriteFile(w.inner, root+"/sub/t.txt", []byte(fmt.Sprintf("version %d seed %d", i, s.Seed)), 0o644)
		small := make([]byte, 64)
		rng.Read(small)
		_ = afero.WriteFile(w.inner, root+"/sub/s.bin", small, 0o644)
		if s.Extra {
			_ = afero.WriteFile(w.inner, root+fmt.Sprintf("/only%d.txt", i), []byte("only here"), 0o644)
			// files whose names match the usual FilesystemItemsToIgnore patterns: they are part of this version all the same
			_ = w.inner.MkdirAll(root+"/.snapshot", 0o755)
			_ = w.inner.MkdirAll(root+"/lib/sub", 0o755)
			_ = afero.WriteFile(w.inner, root+"/.snapshot/old.txt", []byte(fmt.Sprintf("snapshot of %d", i)), 0o644)
			_ = afero.WriteFile(w.inner, root+"/lib/ignore-me.txt", []byte(fmt.Sprintf("ignore %d", i)), 0o644)
			_ = afero.WriteFile(w.inner, root+"/lib/sub/.gitignore", []byte("*.o\n"), 0o644)
			w.richFiles(root, i, rng)
		}
		w.versions = append(w.versions, w.readTree(root))
	}
	w.dirtyDest(destDir)
	return w
}

// zipBytes builds a small real archive (an archive stored INSIDE a version is just a file of that version).
func zipBytes(files map[string][]byte) []byte {
	var buf bytes.Buffer
	zw := zip.NewWriter(&buf)
	names := make([]string, 0, len(files))
	for n := range files {
		names = append(names, n)
	}
	sort.Strings(names)
	for _, n := range names {
		f, _ := zw.Create(n)
		_, _ = f.Write(files[n])
	}
	_ = zw.Close()
	return buf.Bytes()
}

// richFiles: what real trees contain — archives of several kinds (also nested, also under a misleading extension), an
// empty file, a larger compressible file, deep paths, names with spaces, several dots and non-ASCII characters.
func (w *world) richFiles(root string, i int, rng *rand.Rand) {
	tag := []byte(fmt.Sprintf("version %d", i))
	inner := zipBytes(map[string][]byte{"deep/inside.txt": tag, "deep/more/x.bin": {1, 2, 3}})
	jar := zipBytes(map[string][]byte{"META-INF/MANIFEST.MF": []byte("Manifest-Version: 1.0\n"), "com/example/App.class": tag})
	bundle := zipBytes(map[string][]byte{"inner/nested.zip": inner, "readme.md": tag, "assets/app.jar": jar})
	big := bytes.Repeat([]byte(fmt.Sprintf("line of version %d, compressible text\n", i)), 1200) // ~45 KiB
	for name, content := range map[string][]byte{
		"lib/app.jar":                        jar,
		"dist/bundle.zip":                    bundle,
		"dist/logs.gz":                       inner, // a zip archive under another extension
		"dist/empty.zip":                     {},
		"empty.dat":                          {},
		"big/report.log":                     big,
		"deep/a/b/c/d/e/f/g/leaf.txt":        tag,
		"name with spaces/read me first.txt": tag,
		"v1.2.3/.config.d/file.tar.gz.txt":   tag,
		"intl/r\u00e9sum\u00e9 \u00fc\u00f1\u00ee\u00e7\u00f8d\u00e9.txt": tag,
	} {
		p := root + "/" + name
		_ = w.inner.MkdirAll(filepath.Dir(p), 0o755)
		_ = afero.WriteFile(w.inner, p, content, 0o644)
	}
	_ = w.inner.MkdirAll(root+"/empty-dir/sub", 0o755)
}

// dirtyDest: a destination is rarely empty — it holds files that belong to no version (some of them with names that
// match the usual FilesystemItemsToIgnore patterns). Fetch has to replace all of it.
func (w *world) dirtyDest(dest string) {
	_ = w.inner.MkdirAll(dest+"/.snapshot", 0o755)
	_ = w.inner.MkdirAll(dest+"/lib/sub", 0o755)
	_ = afero.WriteFile(w.inner, dest+"/foreign.txt", []byte("left by somebody else"), 0o644)
	_ = afero.WriteFile(w.inner, dest+"/.snapshot/foreign-old.txt", []byte("left by somebody else"), 0o644)
	_ = afero.WriteFile(w.inner, dest+"/lib/ignore-me.txt", []byte("left by somebody else"), 0o644)
	_ = afero.WriteFile(w.inner, dest+"/lib/sub/.gitignore", []byte("foreign\n"), 0o644)
}

func (w *world) srcPath(v int) string { return fmt.Sprintf("/src/v%d", v) }

func (w *world) readTree(root string) tree {
	t := tree{}
	_ = afero.Walk(w.inner, root, func(p string, fi os.FileInfo, err error) error {
		if err != nil || p == root {
			return nil
		}
		rel := strings.TrimPrefix(p, root+"/")
		if fi.IsDir() {
			t[rel] = "dir"
			return nil
		}
		b, _ := afero.ReadFile(w.inner, p)
		h := sha256.Sum256(b)
		t[rel] = hex.EncodeToString(h[:8])
		return nil
	})
	return t
}

func treeEq(a, b tree) bool {
	if len(a) != len(b) {
		return false
	}
	for k, v := range a {
		if b[k] != v {
			return false
		}
	}
	return true
}

// installed classifies the destination: version index, or -1 (empty / missing), or -2 (not a stored version).
func (w *world) installed(dest string) (int, string) {
	t := w.readTree(dest)
	if len(t) == 0 {
		return -1, "empty"
	}
	for i, v := range w.versions {
		if treeEq(t, v) {
			return i, fmt.Sprintf("v%d", i)
		}
	}
	// describe the kind of damage
	from := map[int]bool{}
	unknown := 0
	for k, h := range t {
		found := false
		for i, v := range w.versions {
			if v[k] == h {
				from[i] = true
				found = true
			}
		}
		if !found {
			unknown++
		}
	}
	switch {
	case unknown > 0:
		return -2, "corrupted-or-foreign-content"
	case len(from) > 1:
		return -2, "mixed-versions"
	default:
		return -2, "partial-tree"
	}
}

// ---- clients ----

type faultSpec struct {
	// K counts the client's backend operations outside the lock directory (heartbeats run on their own clock).
	K    int    `json:"k"`
	Kind string `json:"kind"`           // err | short | crash | crashshort | errpath
	Path string `json:"path,omitempty"` // errpath: every operation on a path with this suffix fails
	// Lock-directory faults are addressed by name: "Mkdir" (acquire fails).
	LockOp string `json:"lock_op,omitempty"`
	N      int    `json:"n,omitempty"` // short / crashshort: number of bytes that still arrive (0 = half of the write)
}

// switchCtx: the caller's context; it can be ended from inside a backend operation, as cancelled or as timed out.
type switchCtx struct {
	context.Context
	mu   sync.Mutex
	done chan struct{}
	err  error
}

func (s *switchCtx) Done() <-chan struct{} { return s.done }
func (s *switchCtx) Err() error {
	s.mu.Lock()
	defer s.mu.Unlock()
	return s.err
}
func (s *switchCtx) end(reason error) {
	s.mu.Lock()
	defer s.mu.Unlock()
	if s.err == nil {
		s.err = reason
		close(s.done)
	}
}

func (f *faultSpec) shortN(n int) int {
	if f.N > 0 && f.N < n {
		return f.N
	}
	return n / 2
}

type client struct {
	id       int
	w        *world
	kind     string
	sh       *shim.Fs
	repo     sharedcache.ISharedCacheRepository
	mu       sync.Mutex
	n        int
	fault    *faultSpec
	crashed  atomic.Bool
	panicked bool
	trace    []shim.Op                    // counted operations (before execution)
	gate     func(c *client, op *shim.Op) // scheduling hook for remote operations (may block)
	ctx      context.Context
	cancel   context.CancelFunc
	endCtx   func(error) // ends the caller's context with the given reason (context.Canceled / context.DeadlineExceeded)
}

func isLockPath(p string) bool { return strings.Contains(p, "/"+filesystem.LockFilePrefix+"-") }
func isRemote(p string) bool   { return strings.HasPrefix(p, remoteRoot) }

func (w *world) newClient(kind string, timeout time.Duration, staleView bool) *client {
	w.nclients++
	c := &client{id: w.nclients, w: w, kind: kind}
	sc := &switchCtx{Context: context.Background(), done: make(chan struct{})}
	c.ctx, c.cancel, c.endCtx = sc, func() { sc.end(context.Canceled) }, sc.end
	c.sh = shim.New(w.inner, c.hook)
	c.sh.Rec = false
	if staleView {
		// fabricated clock: whatever is in a lock directory looks an hour old to this client (the holder is dead)
		c.sh.ModTimeOverride = func(p string, real time.Time) time.Time {
			if isLockPath(p) {
				return real.Add(-time.Hour)
			}
			return real
		}
	}
	fs := filesystem.NewVirtualFileSystem(c.sh, filesystem.InMemoryFS, filesystem.IdentityPathConverterFunc)
	cfg := &sharedcache.Configuration{RemoteStoragePath: spell(remoteRoot, curEnv.SpellRoot), Timeout: timeout, FilesystemItemsToIgnore: ignoreItems}
	var err error
	if kind == "mutable" {
		c.repo, err = sharedcache.NewSharedMutableCacheRepository(cfg, fs)
	} else {
		c.repo, err = sharedcache.NewSharedImmutableCacheRepository(cfg, fs)
	}
	if err != nil {
		panic(err)
	}
	return c
}

// dead: what a crashed client's remaining operations do — nothing. Mutations are dropped silently; reads fail (a dropped
// read would return "0 bytes, no error" for ever and the dead client's copy loop would never end).
func (c *client) dead(op *shim.Op) error {
	if op.Mutating {
		return shim.ErrDrop
	}
	// "does not exist": the dead client's clean-ups (Rm, Unlock with its ten delayed retries) then end at once
	return &os.PathError{Op: "dead-client", Path: op.Path, Err: syscall.ENOENT}
}

func (c *client) hook(op *shim.Op) error {
	if c.crashed.Load() {
		return c.dead(op)
	}
	f := c.fault
	np := normPath(op.Path) // the library may hand over a path as the caller spelt it
	if isLockPath(np) {
		if f != nil && f.LockOp != "" && f.LockOp == op.Name && !strings.HasSuffix(np, ".lock") {
			return errInjected
		}
		return nil
	}
	if f != nil && f.Kind == "errpath" && strings.HasSuffix(np, f.Path) {
		return errInjected
	}
	if c.gate != nil && isRemote(np) {
		c.gate(c, op)
		if c.crashed.Load() {
			return c.dead(op)
		}
	}
	c.mu.Lock()
	k := c.n
	c.n++
	rec := *op
	rec.Path = np
	if rec.Path2 != "" {
		rec.Path2 = normPath(rec.Path2)
	}
	c.trace = append(c.trace, rec)
	c.mu.Unlock()
	if f == nil || f.LockOp != "" || f.Kind == "errpath" || k != f.K {
		return nil
	}
	switch f.Kind {
	case "err":
		return errInjected
	case "short":
		if op.Name == "f.Write" {
			return &shim.ShortWriteError{N: f.shortN(op.N)}
		}
		return errInjected
	case "enoent": // the "does not exist" lie (stale handle, racing rename) about something that is there
		return &os.PathError{Op: strings.ToLower(strings.TrimPrefix(op.Name, "f.")), Path: op.Path, Err: syscall.ENOENT}
	case "eacces":
		return &os.PathError{Op: strings.ToLower(strings.TrimPrefix(op.Name, "f.")), Path: op.Path, Err: syscall.EACCES}
	case "partiallist": // the listing breaks off: half of the names and an error
		if op.Name == "f.Readdirnames" || op.Name == "f.Readdir" {
			c.w.strict.arm(&writeTrick{path: np, keep: -1})
			return nil
		}
		return errInjected
	case "ctxcancel":
		c.endCtx(context.Canceled) // the operation itself still happens: the context ends from inside it
		return nil
	case "ctxdeadline":
		c.endCtx(context.DeadlineExceeded)
		return nil
	case "closelost":
		if op.Name == "f.Close" {
			if fh, e := c.w.inner.OpenFile(np, os.O_WRONLY|os.O_TRUNC, 0o644); e == nil {
				_ = fh.Close()
			}
			return &os.PathError{Op: "close", Path: op.Path, Err: syscall.ENOSPC}
		}
		return nil
	case "shortnil", "silent":
		if op.Name == "f.Write" {
			c.w.strict.arm(&writeTrick{path: np, keep: f.shortN(op.N), lie: f.Kind == "silent"})
		}
		return nil
	case "crash":
		c.crashed.Store(true)
		return c.dead(op)
	case "crashshort":
		c.crashed.Store(true)
		if op.Name == "f.Write" {
			return &shim.ShortWriteError{N: f.shortN(op.N)}
		}
		return c.dead(op)
	}
	return nil
}

var errDied = errors.New("harness: client died")

// guard: a crashed client keeps executing on dropped operations (zero results) only as an artefact of the
// shim; if that makes the library panic, the panic belongs to the dead process and is swallowed.
func (c *client) guard(err *error) {
	if e := recover(); e != nil {
		// a live client panicking under an injected fault (seen: afero's MemMapFs.Remove after the entry directory was
		// replaced by a file) is reported as a failed call; the property only speaks about calls that report success
		if !c.crashed.Load() {
			c.panicked = true
		}
		if os.Getenv("C16_DEBUG") != "" {
			fmt.Fprintf(os.Stderr, "PANIC %v crashed=%v fault=%+v\n%s\n", e, c.crashed.Load(), c.fault, debug.Stack())
		}
		if !c.crashed.Load() {
			c.w.poisoned = true
		} // afero's in-memory back end panics while holding its own mutexes: nothing more can be run on this world
		*err = errDied
	}
}

func (c *client) store(v int) error       { return c.storeK(cacheKey, v) }
func (c *client) fetch(dest string) error { return c.fetchK(cacheKey, dest) }
func (c *client) clean() error            { return c.cleanK(cacheKey) }

func (c *client) storeK(key string, v int) (err error) {
	defer c.guard(&err)
	return c.repo.Store(c.ctx, key, spell(c.w.srcPath(v), curEnv.SpellSrc))
}
func (c *client) fetchK(key, dest string) (err error) {
	defer c.guard(&err)
	return c.repo.Fetch(c.ctx, key, spell(dest, curEnv.SpellDst))
}
func (c *client) cleanK(key string) (err error) {
	defer c.guard(&err)
	return c.repo.CleanEntry(c.ctx, key)
}

// done stops the client's background activity (heart beats).
func (c *client) done() { c.cancel() }

func errKind(err error) string {
	switch {
	case err == nil:
		return "ok"
	case commonerrors.Any(err, commonerrors.ErrNotFound):
		return "notfound"
	case commonerrors.Any(err, commonerrors.ErrEmpty):
		return "empty"
	case commonerrors.Any(err, commonerrors.ErrStaleLock):
		return "stalelock"
	case commonerrors.Any(err, commonerrors.ErrTimeout):
		return "timeout"
	case commonerrors.Any(err, commonerrors.ErrLocked):
		return "locked"
	case commonerrors.Any(err, commonerrors.ErrInvalid):
		return "invalid"
	}
	return "other"
}

// ---- remote entry observation (projection) ----

// treeOfPackage reads a package file with archive/zip directly (not through the library under test).
func (w *world) treeOfPackage(p string) (t tree, ok bool) {
	defer func() {
		if recover() != nil {
			t, ok = nil, false
		}
	}()
	b, err := afero.ReadFile(w.inner, p)
	if err != nil {
		return nil, false
	}
	zr, err := zip.NewReader(bytes.NewReader(b), int64(len(b)))
	if err != nil {
		return nil, false
	}
	t = tree{}
	for _, f := range zr.File {
		name := filepath.Clean(f.Name)
		if name == "." { // an entry for the root itself ("./": written when the source was spelt with a trailing separator)
			continue
		}
		if strings.HasSuffix(f.Name, "/") {
			t[name] = "dir"
			continue
		}
		rc, err := f.Open()
		if err != nil {
			return nil, false
		}
		content, err := io.ReadAll(rc)
		_ = rc.Close()
		if err != nil {
			return nil, false
		}
		h := sha256.Sum256(content)
		t[name] = hex.EncodeToString(h[:8])
	}
	return t, true
}

type remoteObs struct {
	Packages []string `json:"packages"` // per visible package file, oldest first: "v<i>" (complete zip of version i) or "partial"/"other"
	Parts    int      `json:"parts"`    // number of *.part files
	Hashes   []string `json:"hashes"`   // per package (same order): "ok" (side file = hash of the file), "stale", "bad", "none"
	Lock     bool     `json:"lock"`     // lock directory present
	Stray    int      `json:"stray"`    // side files without a package
}

// packageDigests: xxhash side-file content that a complete package of version v would have is not known a priori
// (zip bytes depend on the archive writer), so complete packages are recognised by unzipping them in a scratch place.
func (w *world) observeRemote() remoteObs {
	var o remoteObs
	fs := filesystem.NewVirtualFileSystem(w.inner, filesystem.InMemoryFS, filesystem.IdentityPathConverterFunc)
	infos, err := afero.ReadDir(w.inner, entryDir)
	if err != nil {
		return o
	}
	sort.Slice(infos, func(i, j int) bool {
		if infos[i].ModTime().Equal(infos[j].ModTime()) {
			return infos[i].Name() < infos[j].Name()
		}
		return infos[i].ModTime().Before(infos[j].ModTime())
	})
	names := map[string]bool{}
	for _, fi := range infos {
		names[fi.Name()] = true
	}
	for _, fi := range infos {
		n := fi.Name()
		switch {
		case fi.IsDir():
			if strings.HasPrefix(n, filesystem.LockFilePrefix+"-") {
				o.Lock = true
			}
		case strings.HasSuffix(n, ".hash"):
			if !names[strings.TrimSuffix(n, ".hash")] {
				o.Stray++
			}
		case strings.HasSuffix(n, ".part"):
			o.Parts++
		default:
			p := filepath.Join(entryDir, n)
			cls := "partial"
			if t, ok := w.treeOfPackage(p); ok {
				cls = "other"
				for i, v := range w.versions {
					if treeEq(t, v) {
						cls = fmt.Sprintf("v%d", i)
					}
				}
			}
			o.Packages = append(o.Packages, cls)
			hs := "none"
			if hb, err := afero.ReadFile(w.inner, p+".hash"); err == nil {
				real, _ := fs.FileHash("xxhash", p)
				switch {
				case len(hb) != 16:
					hs = "bad"
				case strings.EqualFold(string(hb), real):
					hs = "ok"
				default:
					hs = "stale"
				}
			}
			o.Hashes = append(o.Hashes, hs)
		}
	}
	return o
}
