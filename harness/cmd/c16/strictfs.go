package main

// strictfs.go — back-end fidelity layer under the shims. afero's MemMapFs deviates from every real file system in two ways
// that matter once faults and crashes are injected:
//   - Create / OpenFile(O_CREATE) on the path of an existing DIRECTORY replaces the directory by a file (and a later
//     Remove of an orphaned child panics while holding the back end's mutex); real file systems answer EISDIR;
//   - OpenFile(O_CREATE) below a directory that does not exist silently re-creates the directory (so a late heart-beat
//     write resurrects a lock directory that was just released); real file systems answer ENOENT.
// strictFs answers like the OS in both cases. Name-space operations are serialised so the checks are atomic.

import (
	"os"
	"path/filepath"
	"sync"
	"syscall"

	"github.com/spf13/afero"
)

type strictFs struct {
	afero.Fs
	mu sync.Mutex
}

func (s *strictFs) check(name string, flag int) error {
	if flag&(os.O_CREATE|os.O_WRONLY|os.O_RDWR|os.O_TRUNC|os.O_APPEND) == 0 {
		return nil
	}
	if fi, err := s.Fs.Stat(name); err == nil && fi.IsDir() {
		return &os.PathError{Op: "open", Path: name, Err: syscall.EISDIR}
	}
	if flag&os.O_CREATE != 0 {
		if fi, err := s.Fs.Stat(filepath.Dir(name)); err != nil || !fi.IsDir() {
			return &os.PathError{Op: "open", Path: name, Err: syscall.ENOENT}
		}
	}
	return nil
}

func (s *strictFs) Create(name string) (afero.File, error) {
	s.mu.Lock()
	defer s.mu.Unlock()
	if err := s.check(name, os.O_RDWR|os.O_CREATE|os.O_TRUNC); err != nil {
		return nil, err
	}
	return s.Fs.Create(name)
}

func (s *strictFs) OpenFile(name string, flag int, perm os.FileMode) (afero.File, error) {
	s.mu.Lock()
	defer s.mu.Unlock()
	if err := s.check(name, flag); err != nil {
		return nil, err
	}
	return s.Fs.OpenFile(name, flag, perm)
}

func (s *strictFs) Mkdir(name string, perm os.FileMode) error {
	s.mu.Lock()
	defer s.mu.Unlock()
	if fi, err := s.Fs.Stat(filepath.Dir(name)); err != nil || !fi.IsDir() {
		return &os.PathError{Op: "mkdir", Path: name, Err: syscall.ENOENT}
	}
	return s.Fs.Mkdir(name, perm)
}

func (s *strictFs) MkdirAll(name string, perm os.FileMode) error {
	s.mu.Lock()
	defer s.mu.Unlock()
	return s.Fs.MkdirAll(name, perm)
}

func (s *strictFs) Remove(name string) error {
	s.mu.Lock()
	defer s.mu.Unlock()
	return s.Fs.Remove(name)
}

func (s *strictFs) RemoveAll(name string) error {
	s.mu.Lock()
	defer s.mu.Unlock()
	return s.Fs.RemoveAll(name)
}

func (s *strictFs) Rename(a, b string) error {
	s.mu.Lock()
	defer s.mu.Unlock()
	return s.Fs.Rename(a, b)
}
