package main

// strictfs.go — back-end fidelity layer under the shims. afero's MemMapFs deviates from every real file system in two ways
// that matter once faults and crashes are injected:
//   - Create / OpenFile(O_CREATE) on the path of an existing DIRECTORY replaces the directory by a file (and a later
//     Remove of an orphaned child panics while holding the back end's mutex); real file systems answer EISDIR;
//   - OpenFile(O_CREATE) below a directory that does not exist silently re-creates the directory (so a late heart-beat
//     write resurrects a lock directory that was just released); real file systems answer ENOENT.
// strictFs answers like the OS in both cases. Name-space operations are serialised so the checks are atomic.

import (
	"os"
	"path/filepath"
	"sync"
	"syscall"
	"time"

	"github.com/spf13/afero"
)

type strictFs struct {
	afero.Fs
	mu    sync.Mutex
	trick *writeTrick
}

// writeTrick: the next Write on the file `path` stores only its first `keep` bytes. lie=false: it honestly returns the
// short count with a nil error (the classical short write; callers are expected to notice, io.ErrShortWrite);
// lie=true: it reports the full length (silent corruption; only an end-to-end check such as the transfer hash can notice).
type writeTrick struct {
	path string
	keep int
	lie  bool
}

func (s *strictFs) arm(t *writeTrick) {
	s.mu.Lock()
	s.trick = t
	s.mu.Unlock()
}

func (s *strictFs) take(name string) *writeTrick {
	s.mu.Lock()
	defer s.mu.Unlock()
	if s.trick != nil && s.trick.keep >= 0 && s.trick.path == filepath.Clean(name) {
		t := s.trick
		s.trick = nil
		return t
	}
	return nil
}

type strictFile struct {
	afero.File
	s    *strictFs
	name string
}

func (f *strictFile) Write(p []byte) (int, error) {
	if t := f.s.take(f.name); t != nil {
		k := t.keep
		if k > len(p) {
			k = len(p)
		}
		n, err := f.File.Write(p[:k])
		if err != nil || !t.lie {
			return n, err
		}
		return len(p), nil
	}
	return f.File.Write(p)
}

func (f *strictFile) WriteString(str string) (int, error) { return f.Write([]byte(str)) }

// a listing that breaks off: the first half of the names and an I/O error (trick with keep < 0)
func (f *strictFile) Readdirnames(n int) ([]string, error) {
	names, err := f.File.Readdirnames(n)
	if t := f.s.takeList(f.name); t && err == nil {
		return names[:len(names)/2], &os.PathError{Op: "readdirent", Path: f.name, Err: syscall.EIO}
	}
	return names, err
}

func (f *strictFile) Readdir(n int) ([]os.FileInfo, error) {
	infos, err := f.File.Readdir(n)
	if t := f.s.takeList(f.name); t && err == nil {
		return infos[:len(infos)/2], &os.PathError{Op: "readdirent", Path: f.name, Err: syscall.EIO}
	}
	return infos, err
}

func (s *strictFs) takeList(name string) bool {
	s.mu.Lock()
	defer s.mu.Unlock()
	if s.trick != nil && s.trick.keep < 0 && s.trick.path == filepath.Clean(name) {
		s.trick = nil
		return true
	}
	return false
}

// abs: the in-memory back end has no notion of a working directory ("x" and "/x" are different files there); like a
// process whose working directory is the root, relative names are resolved against "/".
func abs(name string) string {
	if !filepath.IsAbs(name) {
		return "/" + name
	}
	return name
}

func (s *strictFs) Stat(name string) (os.FileInfo, error)  { return s.Fs.Stat(abs(name)) }
func (s *strictFs) Open(name string) (afero.File, error)   { return s.Fs.Open(abs(name)) }
func (s *strictFs) Chmod(name string, m os.FileMode) error { return s.Fs.Chmod(abs(name), m) }
func (s *strictFs) Chown(name string, u, g int) error      { return s.Fs.Chown(abs(name), u, g) }
func (s *strictFs) Chtimes(name string, a, m time.Time) error {
	return s.Fs.Chtimes(abs(name), a, m)
}

func (s *strictFs) check(name string, flag int) error {
	if flag&(os.O_CREATE|os.O_WRONLY|os.O_RDWR|os.O_TRUNC|os.O_APPEND) == 0 {
		return nil
	}
	if fi, err := s.Fs.Stat(name); err == nil && fi.IsDir() {
		return &os.PathError{Op: "open", Path: name, Err: syscall.EISDIR}
	}
	if flag&os.O_CREATE != 0 {
		if fi, err := s.Fs.Stat(filepath.Dir(name)); err != nil || !fi.IsDir() {
			return &os.PathError{Op: "open", Path: name, Err: syscall.ENOENT}
		}
	}
	return nil
}

func (s *strictFs) Create(name string) (afero.File, error) {
	name = abs(name)
	s.mu.Lock()
	defer s.mu.Unlock()
	if err := s.check(name, os.O_RDWR|os.O_CREATE|os.O_TRUNC); err != nil {
		return nil, err
	}
	fl, err := s.Fs.Create(name)
	if err != nil {
		return nil, err
	}
	return &strictFile{File: fl, s: s, name: name}, nil
}

func (s *strictFs) OpenFile(name string, flag int, perm os.FileMode) (afero.File, error) {
	name = abs(name)
	s.mu.Lock()
	defer s.mu.Unlock()
	if err := s.check(name, flag); err != nil {
		return nil, err
	}
	fl, err := s.Fs.OpenFile(name, flag, perm)
	if err != nil {
		return nil, err
	}
	return &strictFile{File: fl, s: s, name: name}, nil
}

func (s *strictFs) Mkdir(name string, perm os.FileMode) error {
	name = abs(name)
	s.mu.Lock()
	defer s.mu.Unlock()
	if fi, err := s.Fs.Stat(filepath.Dir(name)); err != nil || !fi.IsDir() {
		return &os.PathError{Op: "mkdir", Path: name, Err: syscall.ENOENT}
	}
	return s.Fs.Mkdir(name, perm)
}

func (s *strictFs) MkdirAll(name string, perm os.FileMode) error {
	name = abs(name)
	s.mu.Lock()
	defer s.mu.Unlock()
	return s.Fs.MkdirAll(name, perm)
}

func (s *strictFs) Remove(name string) error {
	name = abs(name)
	s.mu.Lock()
	defer s.mu.Unlock()
	return s.Fs.Remove(name)
}

func (s *strictFs) RemoveAll(name string) error {
	name = abs(name)
	s.mu.Lock()
	defer s.mu.Unlock()
	return s.Fs.RemoveAll(name)
}

func (s *strictFs) Rename(a, b string) error {
	a, b = abs(a), abs(b)
	s.mu.Lock()
	defer s.mu.Unlock()
	return s.Fs.Rename(a, b)
}
