// C16 harness: shared cache (utils/sharedcache), both cache kinds, over the in-memory back end behind the
// fault-injecting / scheduling shim.
//
//	seq.go   sequential scenarios: every backend operation k of a Store / Fetch x {error, short write, crash, crash
//	         with a partial write}, followed by fresh-client CleanEntry / Fetch / Store / Fetch;
//	conc.go  2..4 concurrent clients of the immutable cache under a deterministic operation-level scheduler, and
//	         lock-mediated scenarios of the mutable cache (a holder paused inside its critical section);
//	zipcut.go the attack on the prefix-invalidity hypothesis of zip.
//
// Oracle (independent of the Coq model): a Fetch that reports success installed exactly one stored version; a Store
// that reported success is what later Fetches return.
package main

import (
	"encoding/json"
	"fmt"
	"os"
	"runtime/debug"
	"runtime/pprof"
	"time"

	"verif/harness/internal/h"
)

type anyScenario struct {
	Type string `json:"type"`
}

func phase(r *h.Run, name string, f func(*h.Run)) {
	t0 := time.Now()
	f(r)
	r.Note(fmt.Sprintf("phase %s: %.1fs", name, time.Since(t0).Seconds()))
}

func main() {
	r := h.Init("C16")
	debug.SetGCPercent(600) // thousands of short-lived in-memory worlds: collect less often
	if pf := os.Getenv("C16_PROF"); pf != "" {
		f, _ := os.Create(pf)
		_ = pprof.StartCPUProfile(f)
		defer pprof.StopCPUProfile()
	}
	r.Imports = []string{"GU.C16.Model"}
	r.Rule("both cache kinds x 1..3 stored versions (packages of 1..3 backend writes) x a fault (error / short write / crash / crash with partial write) at every backend operation of a Store or Fetch, followed by fresh-client CleanEntry, Fetch, Store, Fetch; " +
		"2..4 concurrent immutable-cache clients under a seeded operation-level schedule; mutable-cache holders paused inside the critical section with contenders timing out; " +
		"non-trivial = scenario with a fault or with >=2 clients; distinct by (kind, history, operation hit, fault kind) resp. (kind, schedule).")
	if r.ReplayF != "" {
		bs, _ := os.ReadFile(r.ReplayF)
		var f struct {
			Replay json.RawMessage `json:"replay"`
		}
		_ = json.Unmarshal(bs, &f)
		var a anyScenario
		_ = json.Unmarshal(f.Replay, &a)
		switch a.Type {
		case "seq":
			var sc seqScenario
			if json.Unmarshal(f.Replay, &sc) == nil {
				runSeq(r, sc, false)
			}
		default:
			replayOther(r, a.Type, f.Replay)
		}
		r.Finish()
		return
	}
	// everything lives in in-memory back ends (one fresh world per scenario): no scratch data on the OS file system
	phase(r, "corpus", corpus)
	phase(r, "linkScenarios", linkScenarios)
	phase(r, "keyScenarios", keyScenarios)
	phase(r, "sweepSeq", sweepSeq)
	phase(r, "otherScenarios", otherScenarios)
	r.Note("back end: afero MemMapFs behind strictFs (EISDIR / ENOENT like an OS file system); lock files look one hour old to the fresh clients of sequential scenarios (fabricated clock), real clocks in the gated scenarios")
	r.Finish()
}
