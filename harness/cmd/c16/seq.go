package main

// seq.go — sequential scenarios: a list of Store / Fetch / CleanEntry calls, each by a FRESH cache client, each with at
// most one injected fault (error at operation k, short write, crash = everything from operation k on is dropped).
// The oracle is evaluated on the implementation's observations only.

import (
	"fmt"
	"os"
	"strings"
	"time"

	"verif/harness/internal/h"
	"verif/harness/internal/shim"
)

type opSpec struct {
	Op    string     `json:"op"` // store | fetch | clean
	Ver   int        `json:"ver,omitempty"`
	Key   string     `json:"key,omitempty"` // "" = the scenario's default key
	Fault *faultSpec `json:"fault,omitempty"`
}

func (o opSpec) key() string {
	if o.Key == "" {
		return cacheKey
	}
	return o.Key
}

type seqScenario struct {
	Type     string     `json:"type"` // "seq"
	Kind     string     `json:"kind"` // mutable | immutable
	Env      envSpec    `json:"env"`
	Versions []treeSpec `json:"versions"`
	Ops      []opSpec   `json:"ops"`
}

type opObs struct {
	Res       string    `json:"res"`       // error kind
	Installed int       `json:"installed"` // fetch: version index, -1 nothing, -2 not a stored version
	Damage    string    `json:"damage,omitempty"`
	NOps      int       `json:"nops"`
	Label     string    `json:"label,omitempty"` // model step the fault hit ("" = not mapped)
	Crashed   bool      `json:"crashed"`
	CtxEnded  bool      `json:"ctx_ended"` // the context of the call was ended during the call: the entry lock may be left behind
	Remote    remoteObs `json:"remote"`
	trace     []shim.Op
	observed  bool
}

func runSeqOp(w *world, kind string, op opSpec, observe bool) opObs {
	c := w.newClient(kind, 2*time.Second, true)
	c.fault = op.Fault
	var err error
	t0 := time.Now()
	defer func() {
		if d := time.Since(t0); d > 40*time.Millisecond && os.Getenv("C16_SLOW") != "" {
			fmt.Fprintf(os.Stderr, "SLOW %v %s %s fault=%+v\n", d, kind, op.Op, op.Fault)
		}
	}()
	switch op.Op {
	case "store":
		err = c.storeK(op.key(), op.Ver)
	case "fetch":
		err = c.fetchK(op.key(), destDir)
	case "clean":
		err = c.cleanK(op.key())
	}
	c.done()
	o := opObs{Res: errKind(err), Installed: -1, NOps: c.n, Crashed: c.crashed.Load(), trace: c.trace}
	o.CtxEnded = op.Fault != nil && strings.HasPrefix(op.Fault.Kind, "ctx")
	if c.crashed.Load() {
		o.Res = "crashed"
	} else if c.panicked {
		o.Res = "panic"
	}
	if w.poisoned {
		return o
	}
	if op.Op == "fetch" {
		o.Installed, o.Damage = w.installed(destDir)
	}
	if observe {
		o.Remote = w.observeRemote()
		o.observed = true
	}
	return o
}

// seqOracle checks the property on the observations of one sequential scenario.
//
//	(1) a Fetch that reports success has installed exactly one version passed to a Store before (complete);
//	(2) after a Store that reported success, every Fetch that reports success returns that version, and a fault-free
//	    Fetch (after stale-lock cleaning if a client died meanwhile) does report success — until the next Store.
func seqOracle(r *h.Run, sc seqScenario, obs []opObs) {
	type keyState struct {
		stored  map[int]bool
		visible int  // version of the last Store under this key that reported success, -1 if that Store failed / none yet
		dirty   bool // a client died since (mutable: its lock may be left behind until CleanEntry)
	}
	// every key has its own entry: what happens under one key says nothing about, and must not change, another key
	keys := map[string]*keyState{}
	multi := ""
	for i, op := range sc.Ops {
		o := obs[i]
		st := keys[op.key()]
		if st == nil {
			st = &keyState{stored: map[int]bool{}, visible: -1}
			keys[op.key()] = st
		}
		if len(keys) > 1 {
			multi = ":several-keys"
		}
		// a client that died, or whose context ended under it (Unlock(ctx) then refuses to work), may leave the entry lock
		// behind: it goes stale and CleanEntry removes it
		gone := o.Crashed || o.CtxEnded
		switch op.Op {
		case "store":
			st.stored[op.Ver] = true
			if o.Res == "ok" {
				st.visible = op.Ver
				st.dirty = gone
			} else {
				st.visible = -1
				if gone {
					st.dirty = true
				}
			}
		case "clean":
			if o.Res == "ok" && !gone {
				st.dirty = false
			}
			if gone {
				st.dirty = true
			}
		case "fetch":
			if o.Res == "ok" {
				switch {
				case len(st.stored) == 0:
					r.Fail("fetch-of-never-stored-key-succeeds:"+sc.Kind+sc.Env.sig(),
						fmt.Sprintf("op %d: nothing was ever stored under key %q, yet Fetch reported success (destination: %s)", i, op.key(), o.Damage), sc)
				case o.Installed < 0 || !st.stored[o.Installed]:
					what := o.Damage
					for k2, s2 := range keys {
						if k2 != op.key() && o.Installed >= 0 && s2.stored[o.Installed] {
							what = "version-of-another-key"
						}
					}
					r.Fail("fetch-success-not-a-stored-version:"+sc.Kind+":"+what+multi+sc.Env.sig(),
						fmt.Sprintf("op %d: Fetch(%q) reported success but the destination holds %s (v%d)", i, op.key(), what, o.Installed), sc)
				case st.visible >= 0 && o.Installed != st.visible:
					r.Fail("store-success-not-visible:"+sc.Kind+":other-version"+multi+sc.Env.sig(),
						fmt.Sprintf("op %d: Store(%q, v%d) reported success, a later Fetch installed v%d", i, op.key(), st.visible, o.Installed), sc)
				}
			} else if st.visible >= 0 && op.Fault == nil && !(st.dirty && sc.Kind == "mutable") && !o.Crashed {
				r.Fail("store-success-not-visible:"+sc.Kind+":fetch-fails-"+o.Res+multi+sc.Env.sig(),
					fmt.Sprintf("op %d: Store(%q, v%d) reported success, a later fault-free Fetch fails (%s)", i, op.key(), st.visible, o.Res), sc)
			}
			if gone {
				st.dirty = true
			}
		}
	}
}

// label maps the real operation hit by a fault to the model's micro-step (by operation name and path class).
// "" = the model does not distinguish this operation (the oracle still covers it).
func label(kind string, op opSpec, trace []shim.Op) string {
	f := op.Fault
	if f == nil || f.LockOp != "" || f.Kind == "errpath" || f.K >= len(trace) {
		return ""
	}
	t := trace[f.K]
	p := t.Path
	isHash := strings.HasSuffix(p, ".hash")
	isPkg := isRemote(p) && !isHash && p != entryDir && p != remoteRoot
	ord := func(name string, pred func(shim.Op) bool) int { // ordinal of this op among same-class ops before it
		n := 0
		for _, x := range trace[:f.K] {
			if x.Name == name && pred(x) {
				n++
			}
		}
		return n
	}
	switch op.Op {
	case "store":
		switch {
		case t.Name == "MkdirAll" && p == entryDir:
			return "LInit"
		case t.Name == "Create" && isPkg && ord("Create", func(x shim.Op) bool { return isRemote(x.Path) }) == 0:
			return "LCreate"
		case t.Name == "f.Write" && isPkg && !strings.Contains(p, "cache.zip.part") == (kind == "mutable") &&
			ord("Create", func(x shim.Op) bool { return isRemote(x.Path) }) == 1:
			return fmt.Sprintf("LWrite %d", ord("f.Write", func(x shim.Op) bool { return x.Path == p }))
		case t.Name == "OpenFile" && isHash && isRemote(p):
			return "LHashOpen"
		case t.Name == "f.Write" && isHash && isRemote(p):
			return "LHashWrite"
		case t.Name == "Rename" && !isHash && isRemote(p):
			return "LRename"
		case t.Name == "Rename" && isHash && isRemote(p):
			return "LHashMove"
		}
	case "fetch":
		switch {
		case t.Name == "Open" && isHash && isRemote(p):
			return "LHashRead"
		case t.Name == "OpenFile" && isHash && isRemote(p):
			return "LHashOpen"
		case t.Name == "f.Write" && isHash && isRemote(p):
			return "LHashWrite"
		case t.Name == "f.Write" && strings.HasPrefix(p, "/tmp/") && !isHash:
			return "LCopy"
		case strings.HasPrefix(p, destDir) && t.Mutating && ord("Create", func(x shim.Op) bool { return strings.HasPrefix(x.Path, "/tmp/") }) > 0:
			return "LUnzip"
		}
	}
	return ""
}

func runSeq(r *h.Run, sc seqScenario, emit bool) []opObs {
	r.Eval()
	setEnv(sc.Env)
	w := newWorld(sc.Versions)
	obs := make([]opObs, len(sc.Ops))
	for i, op := range sc.Ops {
		obs[i] = runSeqOp(w, sc.Kind, op, op.Fault != nil || i == len(sc.Ops)-1 || os.Getenv("C16_DEBUG") != "")
		obs[i].Label = label(sc.Kind, op, obs[i].trace)
		if w.poisoned { // the back end panicked inside the library call: the scenario ends here
			r.Count("scenario-ended-by-backend-panic")
			sc.Ops = sc.Ops[:i+1]
			obs = obs[:i+1]
			emit = false
			break
		}
	}
	seqOracle(r, sc, obs)
	if os.Getenv("C16_DEBUG") != "" {
		for i, op := range sc.Ops {
			hit := ""
			if op.Fault != nil && op.Fault.K < len(obs[i].trace) && op.Fault.Kind != "errpath" && op.Fault.LockOp == "" {
				t := obs[i].trace[op.Fault.K]
				hit = fmt.Sprintf(" HIT %s %s %s [%s]", t.Name, t.Path, t.Path2, obs[i].Label)
				if os.Getenv("C16_DEBUG") == "2" {
					for j := max(0, op.Fault.K-6); j < min(len(obs[i].trace), op.Fault.K+4); j++ {
						hit += fmt.Sprintf("\n      %d %s %s", j, obs[i].trace[j].Name, obs[i].trace[j].Path)
					}
				}
			}
			fmt.Fprintf(os.Stderr, "%d %s v%d fault=%+v -> %s installed=%d %s remote=%+v%s\n", i, op.Op, op.Ver, op.Fault, obs[i].Res, obs[i].Installed, obs[i].Damage, obs[i].Remote, hit)
		}
	}
	r.Count("seq:" + sc.Kind)
	r.Count("env:layout=" + sc.Env.Layout + ",ignore-list=" + fmt.Sprint(sc.Env.Ignore != ""))
	for i, op := range sc.Ops {
		if op.Fault != nil {
			fk := op.Fault.Kind
			if op.Fault.LockOp != "" {
				fk = "lock-" + op.Fault.LockOp
			}
			r.Count("fault:" + op.Op + ":" + fk)
			r.Count("fault-outcome:" + op.Op + ":" + fk + ":" + obs[i].Res)
			if obs[i].Label != "" {
				r.Count("fault-at-model-step:" + strings.Fields(obs[i].Label)[0])
			}
		}
		if op.Op == "fetch" {
			r.Count("fetch:" + obs[i].Res)
		}
	}
	if emit {
		emitSeqCase(r, sc, obs)
	}
	return obs
}
